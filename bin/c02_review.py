#!/usr/bin/env python3
"""Maintenance tool for /verif/c02_reviewed_sites.json (NOT run by the checks).

  c02_review.py list   <facts.json>            sites not accounted for (neither discharged nor reviewed in this context)
  c02_review.py add    <facts.json>            append entries for every unaccounted site, reason from the rule table
                                               below or "TODO" (to be reviewed by hand before committing)
  c02_review.py rehash <facts.json> <func-substring>
                                               refresh the context hash of the reviewed entries of one function after
                                               its new text has been re-reviewed

The file is the committed, hand-reviewed list of panic-capable sites no guard schema discharges. An entry is valid
only for the exact context (enclosing function text + the CheckApplies bodies of the lints that reach it) it was
reviewed in."""
import sys, os, json, re
sys.path.insert(0, os.path.dirname(os.path.abspath(__file__)))
from c02sites import discharged, site_key, unaccounted

VERIF = os.path.dirname(os.path.dirname(os.path.abspath(__file__)))
PATH = os.path.join(VERIF, "c02_reviewed_sites.json")

FRAMEWORK = ("modelled", "covered by the Lean framework model (Zl.execute / Zl.runAll): registry, lookups and lint entries are non-nil behind the Lint*Ex guards and register's nil checks; a nil *LintResult from a body is modelled as the run panicking (C01.runAll_panics_iff) and excluded for real lints by the extracted mayReturnNil facts")

RULES = [
    # (func regex, expr regex, class, why)
    (r"/v3\.ResultSet\)|/v3/lint\.", r".*", *FRAMEWORK),
    (r".*", r"^parsedSANDNSNames\[i\]$", "assumed", "A-MEMO: the range is over a second call of c.GetParsedDNSNames(false), which returns the same memoised slice as the first, so the index is within bounds"),
    (r".*", r"ParsedDomain\.(SLD|TRD)", "assumed", "A-PARSEDNS: zcrypto sets ParsedDomain whenever ParseError is nil, and the ParseError test directly above returns NA otherwise"),
    (r".*", r"CABFOrganizationIdentifier\.", "assumed", "A-PARSE: zcrypto fills CABFOrganizationIdentifier whenever the 2.23.140.3.1 extension is present in a certificate it accepts; the enclosing condition / CheckApplies tests the extension"),
    (r"generalized|checkFraction|checkSeconds", r"\.Bytes\[len\(", "assumed", "A-PARSE-TIME: the certificate parsed, so a validity field with tag 24 holds a well-formed GeneralizedTime (>= 13 bytes); the zero RawValue that GetTimes returns on failure has tag 0 and is filtered by the tag test"),
    (r"KuEncoding\)\.Execute", r"^binary\[i\]$", "reviewed", "binary := make([]string, len(ku)) and i ranges over ku: same length"),
    (r"OrganizationIdentifier\)\.Parse", r"^match\[i\]$", "reviewed", "names = re.SubexpNames(), match = re.FindStringSubmatch(orgId) after re.MatchString(orgId) succeeded: both have NumSubexp()+1 elements (A-LIB regexp)"),
    (r"reversedLabelsToIPv4", r"^labels\[i\]$", "reviewed", "i counts down from len(labels)-1 to 0"),
    (r"reversedLabelsToIPv6", r"^labels\[i(-[123])?\]$", "reviewed", "len(labels) == 32 is checked first; i runs 31, 27, ..., 3, so i-3 >= 0"),
    (r"verifySMIMEOrganizationIdentifierContainsSubjectNameCountry", r"^submatches\[[12]\]$", "reviewed", "CheckApplies runs the same countryRegex over every organizationIdentifier and returns false unless each has >= 3 submatches; this context hash covers that CheckApplies"),
    (r"registrationSchemeIDMatchesSubjectCountry", r"Country\[0\]", "assumed", "A-PARSE-NAME: pkix.Name slices are filled by append, so a non-nil Country has at least one element; CheckApplies tests Country != nil"),
    (r"caCountryNameMissing|caOrganizationNameMissing", r"\[0\]", "assumed", "A-PARSE-NAME: pkix.Name slices are filled by append, so a non-nil slice has at least one element; the nil test is the left operand of the same &&"),
    (r".*", r"reflect\.|\(reflect\.", "reviewed", "reflection over a fixed struct type (pkix.Name / the QC statement structs) with constant field names that exist; kinds are fixed by the type"),
    (r".*", r"field\.Interface\(\)\.\(\[\]string\)", "reviewed", "the constant field names listed in the lint are all []string fields of pkix.Name"),
    (r"etsi\.", r"^s\.\(util\.", "reviewed", "ParseQcStatem returns exactly that concrete type for the OID it was asked for; the assertion is under r.IsPresent()"),
    (r".*", r"^\*oid$", "reviewed", "oid ranges over a slice whose every element was just assigned the address of a package-level OID variable"),
    (r"checkPrimeFactorsTooClose", r"Sqrt", "modelled", "Zl.Rsa.fermat: every operand of Sqrt is n (>0) or a*a-n with a >= ceil(sqrt n) — C16.fermat_no_negative_sqrt"),
    (r"PrimeNoSmallerThan752", r"DivMod", "modelled", "divisors are the entries of bigIntPrimes, all positive — C16.primes_table_exact / primes_pos"),
    (r"rsaParsedTestsKeyModOdd", r"Mod", "reviewed", "the divisor is the constant big.NewInt(2)"),
    (r"dsaSubgroup", r"Exp", "reviewed", "big.Int.Exp panics on no operand values (a zero modulus means no reduction); the parser delivers non-nil P, Q, Y for a DSA key (A-PARSE-KEY)"),
    (r"NewRsaParsedTestsExpInRange", r"Exp", "reviewed", "constants 2 and 256, nil modulus"),
    (r".*", r"regexp\.MustCompile", "reviewed", "a constant pattern (or one of two constant alternatives), compiled on every run of the lint's constructor/helper and exercised by the corpus"),
    (r"sctPolicyCount", r"sct\.LogID", "assumed", "A-PARSE: zcrypto appends only successfully deserialised, non-nil SCTs to SignedCertificateTimestampList"),
    (r"ecImproperCurves", r".*", "assumed", "A-PARSE-KEY: CheckApplies requires PublicKeyAlgorithm == ECDSA, for which zcrypto stores a non-nil *ecdsa.PublicKey or *AugmentedECDSA carrying a named curve; Params() of a named curve is non-nil"),
    (r"torServiceDescHashInvalid", r"^descriptor\.", "assumed", "A-PARSE: c.TorServiceDescriptors holds the non-nil *TorServiceDescriptorHash values zcrypto appended"),
    (r"legalEntityIdentifier", r"Ext\.Critical", "reviewed", "each dereference is the right operand of `leiPresent &&` / `leiRolePresent &&`, and those flags are IsExtInCert for the same OID, i.e. GetExtFromCert(...) != nil"),
    (r"certExtensionInvalidDER|lint_cert_ext_invalid_der|extInvalidDer|InvalidDER|invalidDER", r"Field2\.Bytes\[0\]", "assumed", "A-PARSE: the certificate parsed; zcrypto and encoding/asn1 both reject a BOOLEAN whose content is not exactly one octet, so Bytes has length 1 under Tag == BOOLEAN"),
    (r"pathLenNonPositive", r"ext\.Value", "assumed", "A-PARSE: CheckApplies is BasicConstraintsValid, which zcrypto sets only while parsing the basicConstraints extension, which is then in ExtensionsMap"),
    (r"revokedCertificates\)\.Execute\$1", r"deref P:s", "reviewed", "the closure is called once, in the same function, with the address of a local cryptobyte.String"),
    (r"subjectDNNotPrintableCharacters", r"bytes\[size:\]", "reviewed", "A-LIB utf8.DecodeRune: for a non-empty input 1 <= size <= len(input); the loop condition is len(bytes) > 0"),
    (r"buildErrorString", r"incorrectHosts\[0\]", "reviewed", "both call sites (in this context hash) are under len(...) != 0"),
    (r"keyUsageIncorrectLengthBytes", r"kuBytes\[2\]", "reviewed", "ReadASN1BitString succeeded on kuBytes, so it starts with a complete BIT STRING TLV whose content has at least the unused-bits octet: len >= 3"),
    (r"IdnaToUnicode", r"s\[4:\]", "reviewed", "HasXNLabelPrefix matched (?i)^xn--, so len(s) >= 4"),
    (r"IntersectsIANAReserved", r"reserved\.IP", "reviewed", "reservedNetworks is filled in init from net.ParseCIDR on constant CIDR literals (init panics otherwise); C19's table tie compares every entry at run time"),
    (r"ParseBMPString", r"bmpString\[", "modelled", "Zl.Walkers.parseBMP: an odd length is rejected first and the loop consumes two bytes while len > 0 — C02.parseBMP_total"),
    (r"crlHasValidReasonCode", r"ReasonCode", "reviewed", "guarded by `if c.ReasonCode == nil { continue }` on the loop variable's copy two lines above (a per-iteration local the value-identity analysis does not follow)"),
]


def why_for(s):
    for fre, ere, cls, why in RULES:
        if re.search(fre, s["func"]) and re.search(ere, s["expr"]):
            return cls, why
    return "TODO", "TODO"


def load():
    if os.path.exists(PATH):
        return json.load(open(PATH))
    return {"comment": "Hand-reviewed panic-capable sites (C02) that no guard schema discharges. An entry holds only for the exact context hash it was reviewed in. class: modelled (a Lean model + theorem covers it) | assumed (rests on a named parser/library assumption) | reviewed (argued from the code).", "sites": []}


def main():
    cmd, facts = sys.argv[1], json.load(open(sys.argv[2]))
    doc = load()
    un = unaccounted(facts["sites"], doc["sites"])
    if cmd == "list":
        for s, why in un:
            print("%-28s %-6s %-60s %s [%s]" % (s["pos"].split("/")[-1], s["kind"], s["expr"][:60], s["schema"], why))
        print(len(un), "unaccounted of", len(facts["sites"]))
    elif cmd == "add":
        for s, _ in un:
            cls, why = why_for(s)
            if cls == "TODO":
                print("NOT ADDED (no reason on file):", s["pos"], site_key(s))
                continue
            doc["sites"] = [r for r in doc["sites"] if r["key"] != site_key(s)]
            doc["sites"].append({"key": site_key(s), "ctx": s["ctx"], "pos": s["pos"], "class": cls, "why": why})
        doc["sites"].sort(key=lambda r: r["key"])
        json.dump(doc, open(PATH, "w"), indent=1)
        print("added", len(un), "; TODO:", sum(1 for r in doc["sites"] if r["class"] == "TODO"))
    elif cmd == "rehash":
        pat = sys.argv[3]
        cur = {site_key(s): s for s in facts["sites"]}
        n = 0
        for r in doc["sites"]:
            if pat in r["key"] and r["key"] in cur and cur[r["key"]]["ctx"] != r["ctx"]:
                r["ctx"] = cur[r["key"]]["ctx"]; r["pos"] = cur[r["key"]]["pos"]; n += 1
        json.dump(doc, open(PATH, "w"), indent=1)
        print("rehashed", n)


if __name__ == "__main__":
    main()
