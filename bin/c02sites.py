"""Python mirror of Zl.Sites.discharged (ZlModel/Sites.lean) — used only to *name* the sites that are
not accounted for (Lean decides; this drives the search and the report) — and helpers for the reviewed list."""
import json, hashlib


def lb(f):
    r, c = f["rel"], f["c"]
    if r == "ge": return max(c, 0)
    if r == "gt": return max(c + 1, 0)
    if r == "eq": return max(c, 0)
    if r == "ne": return 1 if c == 0 else 0
    return 0


def lower_bound(facts):
    return max([lb(f) for f in (facts or [])] + [0])


def discharged(s):
    sch, k, a = s["schema"], s.get("k", 0), s.get("a", 0)
    L = lower_bound(s.get("facts"))
    if sch == "idxConst": return 0 <= k < L
    if sch == "idxLenMinus": return 1 <= k <= L
    if sch == "idxVar": return 0 <= k <= a
    if sch in ("sliceLo", "sliceHi", "sliceHiLen"): return 0 <= k <= L
    if sch == "divConst": return k != 0
    if sch in ("nilChecked", "errPaired", "okPaired", "applies", "assumed"): return True
    return False


def site_key(s):
    return "%s|%s|%s|%d" % (s["func"], s["kind"], s["expr"], s["ord"])


def nat_of(s):
    """Nat encoding used in the generated Lean tables (collision-resistant hash, 96 bits)"""
    return int.from_bytes(hashlib.sha256(s.encode()).digest()[:12], "big")


def unaccounted(sites, reviewed):
    rv = {(r["key"], r["ctx"]) for r in reviewed}
    out = []
    for s in sites:
        if discharged(s):
            continue
        if (site_key(s), s["ctx"]) in rv:
            continue
        stale = [r for r in reviewed if r["key"] == site_key(s)]
        out.append((s, "context changed since review" if stale else "not reviewed"))
    return out
