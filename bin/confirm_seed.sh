#!/bin/bash
# confirm_seed.sh <Cxx> <a|b> <demo dir relative to repo root> <go test -run pattern>
# Re-confirms a candidate seeded change in its scratch worktree /tmp/mut/<Cxx>:
# applies, builds, full suite passes, demo fails with it, demo passes without it.
set -u
P=$1; V=$2; DDIR=$3; PAT=$4
WT=/tmp/mut/$P; OUT=/tmp/mut/out/$P/$V
export GOFLAGS=-mod=mod GOPROXY=off GOSUMDB=off GOTOOLCHAIN=local
cd $WT || exit 2
git checkout -q -- . ; git clean -fdq
res() { echo "$P$V $1"; }
git apply $OUT/patch.diff || { res "APPLY-FAIL"; exit 1; }
(cd v3 && go build ./... ) >/dev/null 2>&1 || { res "BUILD-FAIL"; git checkout -q -- .; git clean -fdq; exit 1; }
(cd v3 && go test -vet=off -count=1 ./... ) > /tmp/mut/out/$P/$V/suite.log 2>&1 || { res "SUITE-FAIL"; git checkout -q -- .; git clean -fdq; exit 1; }
cp $OUT/zz_demo_*_test.go $DDIR/
PKG=./${DDIR#v3/}; PKG=${PKG%/}; [ "$PKG" = "./v3" ] && PKG=.
[ "$DDIR" = "v3/" ] && PKG=.
(cd v3 && go test -vet=off -count=1 -run "$PAT" $PKG ) > $OUT/demo_with.log 2>&1 && { res "DEMO-PASSES-WITH-CHANGE(bad)"; rm -f $DDIR/zz_demo_*; git checkout -q -- .; git clean -fdq; exit 1; }
git checkout -q -- .   # revert source change, keep the demo (untracked)
(cd v3 && go test -vet=off -count=1 -run "$PAT" $PKG ) > $OUT/demo_without.log 2>&1 || { res "DEMO-FAILS-WITHOUT-CHANGE(bad)"; rm -f $DDIR/zz_demo_*; git clean -fdq; exit 1; }
rm -f $DDIR/zz_demo_*; git clean -fdq
res "CONFIRMED"
