#!/bin/bash
# confirm_seed2.sh <Cxxc> <demo dir relative to the worktree root, e.g. v3/lints/rfc> <go test -run pattern>
# Re-confirms a round-2 candidate in its scratch worktree /tmp/mut2/<Cxx>: applies, builds, full suite passes,
# demo fails with the change, demo passes without it. On success installs it as /verif/seeded/<id>/.
set -u
ID=$1; DDIR=${2%/}; PAT=$3
MUT=${MUT:-/tmp/mut2}; P=${ID:0:3}; WT=$MUT/$P; OUT=$MUT/out/$ID
export GOFLAGS=-mod=mod GOPROXY=off GOSUMDB=off GOTOOLCHAIN=local
cd $WT || exit 2
git checkout -q -- . ; git clean -fdq
res() { echo "$ID $1"; }
git apply $OUT/patch.diff || { res "APPLY-FAIL"; exit 1; }
(cd v3 && go build ./... ) >/dev/null 2>&1 || { res "BUILD-FAIL"; git checkout -q -- .; git clean -fdq; exit 1; }
(cd v3 && go test -vet=off -count=1 ./... ) > $OUT/suite.log 2>&1 || { res "SUITE-FAIL"; git checkout -q -- .; git clean -fdq; exit 1; }
cp $OUT/zz_demo_*_test.go $DDIR/
PKG=./${DDIR#v3}; PKG=${PKG%/}; [ "$DDIR" = "v3" ] && PKG=.
PKG=${PKG/.\/\//./}
(cd v3 && go test -vet=off -count=1 -run "$PAT" $PKG ) > $OUT/demo_with.log 2>&1 && { res "DEMO-PASSES-WITH-CHANGE(bad)"; rm -f $DDIR/zz_demo_*; git checkout -q -- .; git clean -fdq; exit 1; }
grep -q "no tests to run\|build failed\|cannot find" $OUT/demo_with.log && { res "DEMO-DID-NOT-RUN(bad): $(tail -2 $OUT/demo_with.log | tr '\n' ' ')"; rm -f $DDIR/zz_demo_*; git checkout -q -- .; git clean -fdq; exit 1; }
git apply -R $OUT/patch.diff   # revert the source change (also removes files it added), keep the demo
(cd v3 && go test -vet=off -count=1 -run "$PAT" $PKG ) > $OUT/demo_without.log 2>&1 || { res "DEMO-FAILS-WITHOUT-CHANGE(bad)"; rm -f $DDIR/zz_demo_*; git clean -fdq; exit 1; }
grep -q "no tests to run" $OUT/demo_without.log && { res "DEMO-DID-NOT-RUN-WITHOUT(bad)"; rm -f $DDIR/zz_demo_*; git clean -fdq; exit 1; }
rm -f $DDIR/zz_demo_*; git clean -fdq
D=/verif/seeded/$ID; mkdir -p $D
cp $OUT/patch.diff $OUT/zz_demo_*_test.go $OUT/notes.md $D/ 2>/dev/null
COMMIT=$(git -C /repo rev-parse --short HEAD)
cat > $D/meta.json <<JSON
{
 "id": "$ID",
 "property": "$P",
 "demo_dir": "$DDIR/",
 "demo_run": "cd v3 && go test -vet=off -count=1 -run '$PAT' $PKG",
 "needs_to_manifest": "see notes.md (written by the independent sub-agent that produced the change)",
 "confirmed": "bin/confirm_seed2.sh in scratch worktree $WT at repo commit $COMMIT: patch applies, go build ./... ok, full suite passes with the change, demo fails with the change and passes without it",
 "origin": "fresh sub-agent (later round) given only the property text and a scratch worktree"
}
JSON
res "CONFIRMED"
