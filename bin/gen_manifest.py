#!/usr/bin/env python3
"""Regenerate /verif/MANIFEST.json from bin/props.py (checks claimed) and properties.jsonl (ids)."""
import json, os, sys
sys.path.insert(0, os.path.dirname(os.path.abspath(__file__)))
from props import PROPS, CLAIMS, NOT_APPLICABLE

V = os.path.dirname(os.path.dirname(os.path.abspath(__file__)))
ids = [json.loads(l)["id"] for l in open(os.path.join(V, "properties.jsonl"))]
checks = []
for pid in ids:
    if pid not in PROPS:
        continue
    c = CLAIMS[pid]
    spec = PROPS[pid]
    checks.append({
        "property_id": pid,
        "quick_cmd": "bin/check %s --tier quick" % pid,
        "thorough_cmd": "bin/check %s --tier thorough" % pid,
        "evidence_file": "/verif/evidence/%s.json" % pid,
        "replay_cmd_template": "bin/check %s --replay {path}" % pid,
        "engine": "lean-proof+correspondence",
        "level_claimed": {"category": "proof", "text": c["text"], "design_ref": "DESIGN.md section 7, " + pid},
        "level_note": c["note"],
        "technique": c["technique"],
    })
na = [{"property_id": pid, "reason": NOT_APPLICABLE.get(pid, "check not yet built (work in progress; see DESIGN.md section 7)")} for pid in ids if pid not in PROPS]
m = {
    "version": 1,
    "setup_cmd": "bin/setup",
    "hooks": {
        "guard": "verif",
        "enable": "go build -tags verif (the harness module /verif/harness replaces github.com/zmap/zlint/v3 => /repo/v3)",
        "baseline_off_cmd": "cd /repo && for m in v3 v3/cmd/genTestCerts v3/cmd/gen_test_crl; do (cd $m && GOFLAGS=-mod=mod GOPROXY=off GOSUMDB=off GOTOOLCHAIN=local go test -json -vet=off -count=1 -timeout 25m ./...); done",
        "source_commits": ["7909e5e", "cd25781", "799fee7", "59cd4fe"],
        "add_only": True,
    },
    "engines": [
        {"name": "lean-proof+correspondence", "path": "/verif/lean (model ZlModel, theorems ZlProofs/Props), /verif/extract, /verif/harness, /verif/bin/check",
         "serves_properties": [c["property_id"] for c in checks],
         "kind_free_text": "Lean 4 theorems over a hand-written behaviour model plus a program model regenerated from /repo's source by a Go SSA/AST extractor on every run; the hand-written parts are tied to the code by a line-protocol correspondence (real Go code in-process vs. compiled Lean driver); on a broken proof or tie a direct search on the real code looks for a failing input"},
    ],
    "checks": checks,
    "notes": "fix: commits in /repo (genuine defects repaired, see known_findings.json): 268fc05 f5d7e26 880d058 ade8042 5daa076 91fe178 fb75916 352d290 0ccbc55. Known findings (not repaired): nine C06 severity/prefix mismatches, eight C17 order-dependent DNS-name lints.",
    "not_applicable": na,
}
json.dump(m, open(os.path.join(V, "MANIFEST.json"), "w"), indent=1)
print("manifest: %d checks, %d not yet claimed" % (len(checks), len(na)))
