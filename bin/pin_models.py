#!/usr/bin/env python3
"""pin_models.py <facts.json>: (re)write /verif/modelled_functions.json — the functions of zmap/zlint whose behaviour is described by a
*hand-written* Lean model, each pinned to the hash of the comment-stripped text it was modelled from. Maintenance tool: run by hand
when a model has been re-read against a changed function; never run by a check."""
import json, re, sys, os

MOD = "github.com/zmap/zlint/v3"
GROUPS = [
    # (regex over the SSA function name without the module prefix, model, properties whose theorems are stated over that model)
    (r"^\(\*\.ResultSet\)\.(executeCertificate|executeOcspResponse|executeRevocationList|updateErrorStatePresent)$|^\.Lint(Certificate|RevocationList|OcspResponse)(Ex)?$",
     "ZlModel/Framework.lean (runAll, flags)", ["C01", "C02", "C03", "C04", "C06", "C07", "C09", "C11"]),
    (r"^\(\*/lint\.(CertificateLint|RevocationListLint|OcspResponseLint|Lint)\)\.(Execute(\$1)?|execute|CheckEffective)$|^/lint\.checkEffective$|^/util\.(OnOrAfter|BeforeOrOn)$",
     "ZlModel/Framework.lean (execute), ZlModel/Basic.lean (checkEffective)", ["C01", "C02", "C03", "C04", "C06", "C07", "C09", "C11"]),
    (r"^\(\*/lint\.registryImpl\)\.(Filter(\$\d)?|lintNamesToMap|register|register(Certificate|OcspResponse|RevocationList)Lint|Names|Sources|ByName|BySource|CertificateLints|OcspResponseLints|RevocationListLints|SetConfiguration|GetConfiguration|WriteJSON)$"
     r"|^\(\*/lint\.(certificate|ocspResponse|revocationList)LinterLookupImpl\)\.(ByName|BySource|Lints|register)$|^\(\*/lint\.linterLookupImpl\)\.(Names|Sources)$"
     r"|^/lint\.(sourceListToMap|NewRegistry|new(Certificate|OcspResponse|RevocationList)LintLookup|newLinterLookup|Register(Certificate|OcspResponse|RevocationList)?Lint|RegisterProfile|GlobalRegistry)$|^\(/lint\.FilterOptions\)\.Empty$|^\(\*/lint\.FilterOptions\)\.AddProfile$",
     "ZlModel/Registry.lean, ZlModel/RegSeq.lean", ["C01", "C07", "C08", "C11", "C12", "C13", "C14"]),
    (r"^\(\*/lint\.(LintSource|SourceList)\)\.(FromString|UnmarshalJSON)$|^\(\*?/lint\.LintStatus\)\.(UnmarshalJSON|MarshalJSON|String)$",
     "ZlModel/Codec.lean, ZlModel/Registry.lean (sources)", ["C13", "C14"]),
    (r"^\(/lint\.Configuration\)\.(MaybeConfigure|Configure|deserializeConfigInto|resolveHigherScopedReferences)$|^/lint\.(NewConfig|NewConfigFromString|NewEmptyConfig|stripGlobalsFromExample|initializePtr)$|^\(\*/lint\.registryImpl\)\.(defaultConfiguration|DefaultConfiguration)$",
     "ZlModel/Config.lean", ["C11"]),
    (r"^/cmd/zlint\.(doLint|setLints(\$1)?|trimmedList|main)$|^/formattedoutput\.|^\(\*/formattedoutput\.resultsTable\)\.newRT$",
     "ZlModel/Cli.lean", ["C15"]),
    (r"^/util\.(IsCodeSigning|HasEmailSAN|IsEmailProtectionCert)$", "ZlModel/Scope.lean (the predicates not regenerated as terms)", ["C04"]),
    (r"^/util\.PrimeNoSmallerThan752$|^/lints/community\.checkPrimeFactorsTooClose$|^\(\*/lints/community\.fermatFactorization\)\.(CheckApplies|Configure|Execute)$|^\(\*/lints/cabf_br\.rsaParsedTestsExpInRange\)\.(CheckApplies|Execute)$|^/lints/cabf_br\.NewRsaParsedTestsExpInRange$",
     "ZlModel/Rsa.lean", ["C16"]),
    (r"^/util\.(IsIANAReserved|IntersectsIANAReserved)$|^\(\*/lints/cabf_br\.(SANReservedIP|NCReservedIPNet|subjectReservedIP)\)\.(CheckApplies|Execute)$",
     "ZlModel/Ip.lean", ["C19"]),
    (r"^/util\.(HasValidTLD|IsInTLDMap|CertificateSubjInTLD|CommonNameIsIP)$|^\(/util\.GTLDPeriod\)\.Valid$|^\(\*/lints/cabf_br\.DNSNameValidTLD\)\.(CheckApplies|Execute)$|^/cmd/zlint-gtld-update\.",
     "ZlModel/Tld.lean, ZlModel/TldGen.lean", ["C18"]),
    (r"^/util\.(ParseBMPString|IsNameAttribute|RemovePrependedQuestionMarks|RemovePrependedWildcard)$|^\(\*/lints/rfc\.controlChar\)\.(CheckApplies|Execute)$|^/lints/cabf_br\.reversedLabelsToIPv6$",
     "ZlModel/Walkers.lean", ["C02"]),
    (r"^\(\*/lints/rfc\.mismatchingSigAlg\)\.(CheckApplies|Execute)$", "ZlModel/Der.lean", ["C09"]),
    (r"^\(\*/lints/(rfc|cabf_br|community)\.(crlHasNextUpdate|crlAuthKeyID|missingCRLNumber|crlReasonCodeNotCritical|crlHasValidReasonCodes|crlHasValidReasonCode|uniqueRevokedCertificate)\)\.(CheckApplies|Execute)$",
     "ZlModel/Crl.lean", ["C02", "C06"]),
]

def main():
    facts = json.load(open(sys.argv[1]))
    out = []
    for name, ff in sorted(facts["funcs"].items()):
        if not name.replace("(*", "(").replace("(", "").startswith(MOD) and MOD not in name:
            continue
        short = name.replace(MOD, "")
        for rx, model, props in GROUPS:
            if re.search(rx, short):
                if not ff.get("text_hash"):
                    print("no text for", name, file=sys.stderr)
                    break
                out.append({"func": name, "hash": ff["text_hash"], "model": model, "props": props})
                break
    path = os.path.join(os.path.dirname(os.path.dirname(os.path.abspath(__file__))), "modelled_functions.json")
    json.dump({"comment": "Functions of zmap/zlint described by a hand-written Lean model, each pinned to the hash of the comment-stripped text the model was written from (F14). "
               "When the text of one of them changes, the model is no longer known to describe the code: the properties stated over that model report it (with a failing input if the "
               "correspondence and the searches find one, no-failing-input-found otherwise). Maintained with bin/pin_models.py after re-reading the model against the new text; never written by a check.",
               "functions": out}, open(path, "w"), indent=1)
    print(len(out), "functions pinned")

main()
