"""Per-property wiring for bin/check: which Lean modules hold the property theorems,
which correspondence sub-commands tie the model to the code, which direct searches run."""
import json

TB_COMMON = [
    "extractor /verif/extract (go/packages + go/ssa reading of /repo's current source) and emitter bin/emit_lean.py",
    "correspondence harness /verif/harness (calls the real code in-process, -tags verif) and the Lean driver's line protocol",
]


def post_observed_statuses(prop, facts_path, reports):
    """Every status observed for a lint in any run must lie in the extracted status set of its body
    plus {NA, NE, fatal}: an observation outside it is an extractor defect or a new return path."""
    out = []
    try:
        facts = json.load(open(facts_path))
    except Exception as e:
        return [("facts.json unreadable: %s" % e, {}, "facts", False)]
    sets = {r["name"]: set(r.get("statuses") or []) | {1, 2, 7} for r in facts["registrations"]}
    for rep in reports:
        obs = (rep.get("extra") or {}).get("observed_statuses") or {}
        for name, sts in obs.items():
            if name not in sets:
                continue
            bad = [s for s in sts if s not in sets[name]]
            if bad:
                out.append(("lint %s was observed returning status %s, outside the status set %s extracted from its source" % (name, bad, sorted(sets[name])),
                            {"lint": name, "observed": sts, "extracted": sorted(sets[name])}, "observed-outside-extracted:" + name, True))
    return out


def _load(name):
    import os
    base = os.path.join(os.path.dirname(os.path.dirname(os.path.abspath(__file__))), ".cache")
    return json.load(open(os.path.join(base, name)))


def ob_primes(info):
    """F9 cross-check: the prime table read from the source equals the run-time table."""
    f, d = _load("facts.json"), _load("run/dump/dump.json")
    if sorted(f["tables"]["primes"]) != sorted(d["primes"]):
        return [("prime table read from util/primes.go differs from the run-time bigIntPrimes", {"source": f["tables"]["primes"], "runtime": d["primes"], "concrete": True}, "primes-table")]
    return []


def ob_networks(info):
    import ipaddress
    f, d = _load("facts.json"), _load("run/dump/dump.json")
    a = sorted(str(ipaddress.ip_network(x, strict=False)) for x in f["tables"]["reserved_networks"])
    b = sorted(str(ipaddress.ip_network(x, strict=False)) for x in d["networks"])
    if a != b:
        return [("CIDR literals read from util/ip.go differ from the run-time reservedNetworks", {"only_source": sorted(set(a) - set(b)), "only_runtime": sorted(set(b) - set(a)), "concrete": True}, "networks-table")]
    return []


def ob_tld(info):
    f, d = _load("facts.json"), _load("run/dump/dump.json")
    a = sorted((e["key"], e["gtld"], e["deleg"], e["rem"]) for e in f["tables"]["tld"])
    b = sorted(tuple(x) for x in d["tld"])
    if a != b:
        diff = sorted(set(a) ^ set(b))[:10]
        return [("tldMap literal read from util/gtld_map.go differs from the run-time map", {"differing_rows": diff, "concrete": True}, "tld-table")]
    if len(a) != len(set(k for k, _, _, _ in a)):
        return [("duplicate key in the tldMap literal", {"concrete": True}, "tld-dup")]
    return []


PROPS = {
    "C01": {
        "proofs": ["ZlProofs.Props.C01"],
        "corr": ["framework"],
        "search": [("sweep", "C01")],
        "trusted_base": TB_COMMON,
        "assumptions": ["no-hang is enforced only as a harness timeout",
                        "well-behavedness (WB) of the real rule bodies is established by the extracted status sets (C06) and, for panics, by C02"],
    },
    "C03": {
        "proofs": ["ZlProofs.Props.C03"],
        "corr": ["framework"],
        "search": ["c03"],
        "trusted_base": TB_COMMON,
        "assumptions": ["A-TIME: Go time.Time comparisons are by instant", "A-PARSE: the parser's mapping of encoded times to instants"],
    },
    "C04": {
        "proofs": ["ZlProofs.Props.C04"],
        "corr": ["framework"],
        "search": [("sweep", "C04")],
        "trusted_base": TB_COMMON,
        "assumptions": ["the scope predicates are modelled over a parsed view (EKU OIDs, policy OIDs, rfc822 names, otherNames)"],
    },
    "C06": {
        "proofs": ["ZlProofs.Props.C06"],
        "corr": [],
        "search": [("sweep", "C06")],
        "post": [post_observed_statuses],
        "trusted_base": TB_COMMON + ["the SSA status-set analysis of extract/status.go (every return path of every Execute, through helpers and pointer parameters)"],
        "assumptions": [],
    },
    "C07": {
        "proofs": ["ZlProofs.Props.C07"],
        "corr": [],
        "search": ["c07"],
        "trusted_base": TB_COMMON,
        "assumptions": ["rests on C05's footprint facts: no lint writes the object or package-level state"],
    },
    "C08": {
        "proofs": ["ZlProofs.Props.C08"],
        "corr": ["filter"],
        "search": [],
        "trusted_base": TB_COMMON,
        "assumptions": ["the regexp is modelled as the predicate it denotes (the harness sends the set of names it matches)",
                        "strings.TrimSpace is modelled on ASCII blanks"],
    },
    "C12": {
        "proofs": ["ZlProofs.Props.C12"],
        "corr": ["filter"],
        "search": ["meta"],
        "trusted_base": TB_COMMON,
        "assumptions": [],
    },
    "C13": {
        "proofs": ["ZlProofs.Props.C13"],
        "corr": ["codec", "filter"],
        "search": ["meta"],
        "trusted_base": TB_COMMON,
        "assumptions": ["CLI flag plumbing is covered by C15"],
    },
    "C16": {
        "proofs": ["ZlProofs.Props.C16"],
        "corr": ["rsa"],
        "search": [],
        "obligations": [ob_primes],
        "trusted_base": TB_COMMON + ["Mathlib v4.33.0 tactics ring / linarith / nlinarith used in ZlProofs.Props.C16 (no axioms beyond the three standard ones)"],
        "assumptions": ["A-RSA: the parser delivers N > 0 and 0 < E < 2^63 exactly as encoded (checked on every kit certificate)"],
    },
    "C18": {
        "proofs": ["ZlProofs.Props.C18"],
        "corr": ["tld"],
        "search": [],
        "obligations": [ob_tld],
        "trusted_base": TB_COMMON,
        "assumptions": ["domain strings are ASCII (strings.ToLower is Unicode-aware; modelled on ASCII)",
                        "A-TIME: time.Parse(\"2006-01-02\") as modelled by parseDate (validated at every table date)"],
    },
    "C19": {
        "proofs": ["ZlProofs.Props.C19"],
        "corr": ["ip"],
        "search": [],
        "obligations": [ob_networks],
        "trusted_base": TB_COMMON,
        "assumptions": ["A-NET: net.IP.To4 / IsGlobalUnicast / IPNet.Contains as modelled (validated by the ip correspondence)",
                        "networks are CIDR networks in canonical form (no host bits in the base address), contiguous masks"],
    },
    "C14": {
        "proofs": ["ZlProofs.Props.C14"],
        "corr": ["codec"],
        "search": [],
        "trusted_base": TB_COMMON,
        "assumptions": ["A-JSON: encoding/json's string escaping and invalid-UTF-8 replacement (validated per byte by the harness oracle, abstracted as `sanitize` in the theorem)"],
        "partial": "the JSON string codec itself is not modelled",
    },
}
