"""Per-property wiring for bin/check: which Lean modules hold the property theorems,
which correspondence sub-commands tie the model to the code, which direct searches run."""
import json

TB_COMMON = [
    "extractor /verif/extract (go/packages + go/ssa reading of /repo's current source) and emitter bin/emit_lean.py",
    "correspondence harness /verif/harness (calls the real code in-process, -tags verif) and the Lean driver's line protocol",
]


def post_observed_statuses(prop, facts_path, reports):
    """Every status observed for a lint in any run must lie in the extracted status set of its body
    plus {NA, NE, fatal}: an observation outside it is an extractor defect or a new return path."""
    out = []
    try:
        facts = json.load(open(facts_path))
    except Exception as e:
        return [("facts.json unreadable: %s" % e, {}, "facts", False)]
    sets = {r["name"]: set(r.get("statuses") or []) | {1, 2, 7} for r in facts["registrations"]}
    for rep in reports:
        obs = (rep.get("extra") or {}).get("observed_statuses") or {}
        for name, sts in obs.items():
            if name not in sets:
                continue
            bad = [s for s in sts if s not in sets[name]]
            if bad:
                out.append(("lint %s was observed returning status %s, outside the status set %s extracted from its source" % (name, bad, sorted(sets[name])),
                            {"lint": name, "observed": sts, "extracted": sorted(sets[name])}, "observed-outside-extracted:" + name, True))
    return out


PROPS = {
    "C01": {
        "proofs": ["ZlProofs.Props.C01"],
        "corr": ["framework"],
        "search": [("sweep", "C01")],
        "trusted_base": TB_COMMON,
        "assumptions": ["no-hang is enforced only as a harness timeout",
                        "well-behavedness (WB) of the real rule bodies is established by the extracted status sets (C06) and, for panics, by C02"],
    },
    "C03": {
        "proofs": ["ZlProofs.Props.C03"],
        "corr": ["framework"],
        "search": ["c03"],
        "trusted_base": TB_COMMON,
        "assumptions": ["A-TIME: Go time.Time comparisons are by instant", "A-PARSE: the parser's mapping of encoded times to instants"],
    },
    "C04": {
        "proofs": ["ZlProofs.Props.C04"],
        "corr": ["framework"],
        "search": [("sweep", "C04")],
        "trusted_base": TB_COMMON,
        "assumptions": ["the scope predicates are modelled over a parsed view (EKU OIDs, policy OIDs, rfc822 names, otherNames)"],
    },
    "C06": {
        "proofs": ["ZlProofs.Props.C06"],
        "corr": [],
        "search": [("sweep", "C06")],
        "post": [post_observed_statuses],
        "trusted_base": TB_COMMON + ["the SSA status-set analysis of extract/status.go (every return path of every Execute, through helpers and pointer parameters)"],
        "assumptions": [],
    },
    "C07": {
        "proofs": ["ZlProofs.Props.C07"],
        "corr": [],
        "search": ["c07"],
        "trusted_base": TB_COMMON,
        "assumptions": ["rests on C05's footprint facts: no lint writes the object or package-level state"],
    },
    "C08": {
        "proofs": ["ZlProofs.Props.C08"],
        "corr": ["filter"],
        "search": [],
        "trusted_base": TB_COMMON,
        "assumptions": ["the regexp is modelled as the predicate it denotes (the harness sends the set of names it matches)",
                        "strings.TrimSpace is modelled on ASCII blanks"],
    },
    "C12": {
        "proofs": ["ZlProofs.Props.C12"],
        "corr": ["filter"],
        "search": [],
        "trusted_base": TB_COMMON,
        "assumptions": [],
    },
    "C13": {
        "proofs": ["ZlProofs.Props.C13"],
        "corr": ["codec"],
        "search": ["meta"],
        "trusted_base": TB_COMMON,
        "assumptions": ["CLI flag plumbing is covered by C15"],
    },
    "C14": {
        "proofs": ["ZlProofs.Props.C14"],
        "corr": ["codec"],
        "search": [],
        "trusted_base": TB_COMMON,
        "assumptions": ["A-JSON: encoding/json's string escaping and invalid-UTF-8 replacement (validated per byte by the harness oracle, abstracted as `sanitize` in the theorem)"],
        "partial": "the JSON string codec itself is not modelled",
    },
}
