"""Per-property wiring for bin/check: which Lean modules hold the property theorems,
which correspondence sub-commands tie the model to the code, which direct searches run."""

TB_COMMON = [
    "extractor /verif/extract (go/packages + go/ssa reading of /repo's current source)",
    "correspondence harness /verif/harness (calls the real code in-process, -tags verif) and the Lean driver's line protocol",
]

PROPS = {
    "C01": {
        "proofs": ["ZlProofs.Props.C01"],
        "corr": ["framework"],
        "search": [],
        "trusted_base": TB_COMMON,
        "assumptions": ["no-hang is enforced only as a harness timeout"],
    },
    "C03": {
        "proofs": ["ZlProofs.Props.C03"],
        "corr": ["framework"],
        "search": [],
        "trusted_base": TB_COMMON,
        "assumptions": ["A-TIME: Go time.Time comparisons are by instant", "A-PARSE: the parser's mapping of encoded times to instants"],
    },
    "C04": {
        "proofs": ["ZlProofs.Props.C04"],
        "corr": ["framework"],
        "search": [],
        "trusted_base": TB_COMMON,
        "assumptions": [],
    },
}
