"""Per-property wiring for bin/check: which Lean modules hold the property theorems,
which correspondence sub-commands tie the model to the code, which direct searches run."""
import json

TB_COMMON = [
    "extractor /verif/extract (go/packages + go/ssa reading of /repo's current source) and emitter bin/emit_lean.py",
    "correspondence harness /verif/harness (calls the real code in-process, -tags verif) and the Lean driver's line protocol",
]


def post_observed_statuses(prop, facts_path, reports):
    """Every status observed for a lint in any run must lie in the extracted status set of its body
    plus {NA, NE, fatal}: an observation outside it is an extractor defect or a new return path."""
    out = []
    try:
        facts = json.load(open(facts_path))
    except Exception as e:
        return [("facts.json unreadable: %s" % e, {}, "facts", False)]
    sets = {r["name"]: set(r.get("statuses") or []) | {1, 2, 7} for r in facts["registrations"]}
    for rep in reports:
        obs = (rep.get("extra") or {}).get("observed_statuses") or {}
        for name, sts in obs.items():
            if name not in sets:
                continue
            bad = [s for s in sts if s not in sets[name]]
            if bad:
                out.append(("lint %s was observed returning status %s, outside the status set %s extracted from its source" % (name, bad, sorted(sets[name])),
                            {"lint": name, "observed": sts, "extracted": sorted(sets[name])}, "observed-outside-extracted:" + name, True))
    return out


def _load(name):
    import os
    base = os.path.join(os.path.dirname(os.path.dirname(os.path.abspath(__file__))), ".cache")
    return json.load(open(os.path.join(base, name)))


def ob_primes(info):
    """F9 cross-check: the prime table read from the source equals the run-time table."""
    f, d = _load("facts.json"), _load("run/dump/dump.json")
    if sorted(f["tables"]["primes"]) != sorted(d["primes"]):
        return [("prime table read from util/primes.go differs from the run-time bigIntPrimes", {"source": f["tables"]["primes"], "runtime": d["primes"], "concrete": True}, "primes-table")]
    return []


def ob_networks(info):
    import ipaddress
    f, d = _load("facts.json"), _load("run/dump/dump.json")
    a = sorted(str(ipaddress.ip_network(x, strict=False)) for x in f["tables"]["reserved_networks"])
    b = sorted(str(ipaddress.ip_network(x, strict=False)) for x in d["networks"])
    if a != b:
        return [("CIDR literals read from util/ip.go differ from the run-time reservedNetworks", {"only_source": sorted(set(a) - set(b)), "only_runtime": sorted(set(b) - set(a)), "concrete": True}, "networks-table")]
    return []


def ob_tld(info):
    f, d = _load("facts.json"), _load("run/dump/dump.json")
    a = sorted((e["key"], e["gtld"], e["deleg"], e["rem"]) for e in f["tables"]["tld"])
    b = sorted(tuple(x) for x in d["tld"])
    if a != b:
        diff = sorted(set(a) ^ set(b))[:10]
        return [("tldMap literal read from util/gtld_map.go differs from the run-time map", {"differing_rows": diff, "concrete": True}, "tld-table")]
    if len(a) != len(set(k for k, _, _, _ in a)):
        return [("duplicate key in the tldMap literal", {"concrete": True}, "tld-dup")]
    return []


def ob_c12_excluded(info):
    """a registration call in a file the default build leaves out: the file is the witness"""
    f = _load("facts.json")
    return [("lint %s is registered in %s, which is not part of a default build (%s): it is in the tree but in no registry" % (x.get("name") or "?", x["file"], x.get("reason", "")),
             {"file": x["file"], "lint": x.get("name"), "reason": x.get("reason"), "concrete": True}, "excluded-registration:" + x["file"])
            for x in (f.get("excluded_registrations") or [])]


def ob_c02_sites(info):
    """Name the panic-capable sites that are neither discharged by a guard certificate nor in the committed review
    for their present context (Lean's all_sites_accounted decides; this mirror only names them and picks the lints
    to aim the search at)."""
    import os
    from c02sites import unaccounted, site_key
    f = _load("facts.json")
    vdir = os.path.dirname(os.path.dirname(os.path.abspath(__file__)))
    try:
        reviewed = json.load(open(os.path.join(vdir, "c02_reviewed_sites.json"))).get("sites", [])
    except Exception:
        reviewed = []
    un = unaccounted(f.get("sites") or [], reviewed)
    out = []
    focus = set()
    for s, why in un:
        reach = [r["name"] for r in f["registrations"] if s["func"] in (r.get("reach") or [])]
        focus.update(reach[:12])
        out.append(("panic-capable site %s `%s` in %s (%s) is not guarded by any recognised schema (%s%s) and is %s" % (
            s["kind"], s["expr"][:80], s["func"].replace("github.com/zmap/zlint/v3/", ""), s["pos"], s["schema"],
            (": " + s["note"]) if s.get("note") else "", why),
            {"site": s, "reached_from_lints": reach[:20], "why": why}, "site:" + site_key(s)))
    info["c02_focus"] = sorted(focus)[:40]
    cur = {(site_key(s), s["ctx"]) for s in (f.get("sites") or [])}
    stale = [r for r in reviewed if (r["key"], r["ctx"]) not in cur]
    for r in stale:
        if not any(r["key"] == site_key(s) for s, _ in un):
            out.append(("reviewed entry %s no longer matches any site (stale review list)" % r["key"], {"entry": r}, "stale-review:" + r["key"]))
    return out


def ob_loop_state(info):
    """Name the loop-carried values of class `other` that are not in the committed review for the present text of their
    function (Lean's C17.loop_state_reviewed decides; this mirror names them and the lints that reach the function)."""
    import os
    f = _load("facts.json")
    vdir = os.path.dirname(os.path.dirname(os.path.abspath(__file__)))
    try:
        reviewed = {(r["func"], r["var"], r["ctx"]) for r in json.load(open(os.path.join(vdir, "loop_state_reviewed.json"))).get("entries", [])}
    except Exception:
        reviewed = set()
    out = []
    focus = set()
    for x in f.get("loop_state") or []:
        if x["class"] == "other" and (x["func"], x["var"], x["ctx"]) not in reviewed:
            reach = [r["name"] for r in f["registrations"] if x["func"] in (r.get("reach") or [])]
            focus.update(reach[:12])
            out.append(("variable `%s` in %s (%s) carries a value from one loop iteration to the next that is neither a flag, a counter nor a collected list%s: the answer may depend on the order of the list; not in the committed review for the present text of the function" % (
                x["var"], x["func"].replace("github.com/zmap/zlint/v3/", ""), x["pos"], (" (" + x["note"] + ")") if x.get("note") else ""),
                {"loop_state": x, "reached_from_lints": reach[:20]}, "loop-state:%s|%s" % (x["func"], x["var"])))
    info["loop_focus"] = sorted(focus)[:40]
    return out


def ob_pins(prop):
    """Name the hand-modelled functions (modelled_functions.json) whose text is no longer the text the model was written from
    (Lean's PinsNN.modelled_text_unchanged decides)."""
    def ob(info):
        import os
        f = _load("facts.json")
        vdir = os.path.dirname(os.path.dirname(os.path.abspath(__file__)))
        try:
            pins = json.load(open(os.path.join(vdir, "modelled_functions.json"))).get("functions", [])
        except Exception:
            return [("modelled_functions.json unreadable", {}, "pins-file")]
        out = []
        for e in pins:
            if prop not in e["props"]:
                continue
            now = (f["funcs"].get(e["func"]) or {}).get("text_hash")
            if now != e["hash"]:
                out.append(("the text of %s has changed since the hand-written model %s was written from it (%s): the model is no longer known to describe the code" % (
                    e["func"].replace("github.com/zmap/zlint/v3/", "").replace("github.com/zmap/zlint/v3", "zlint"), e["model"], "function gone" if not now else "hash %s, was %s" % (now, e["hash"])),
                    {"function": e["func"], "model": e["model"], "pinned": e["hash"], "now": now}, "pin:" + e["func"]))
        return out
    return ob


def dyn_c06(info):
    """lints whose extracted status set holds a status their prefix forbids and that is not a committed known finding:
    aim a ten-fold mutation sweep at exactly those lints to look for an input that makes them report it"""
    import os
    f = _load("facts.json")
    vdir = os.path.dirname(os.path.dirname(os.path.abspath(__file__)))
    try:
        known = set(k["key"] for k in json.load(open(os.path.join(vdir, "known_findings.json")))["findings"] if k.get("status") == "known")
    except Exception:
        known = set()
    labels = {4: "info", 5: "warn", 6: "error"}
    forbidden = {"e_": (4, 5), "w_": (4, 6), "n_": (5, 6)}
    bad = []
    for r in f["registrations"]:
        fb = forbidden.get(r["name"][:2], ())
        for st in (r.get("statuses") or []):
            if st in fb and "severity:%s:%s" % (r["name"], labels[st]) not in known:
                bad.append(r["name"])
    bad = sorted(set(bad))[:30]
    return [("sweep", "C06@" + ",".join(bad))] if bad else []


def dyn_c02(info):
    if info.get("c02_focus"):
        return [("sweep", "C02@" + ",".join(info["c02_focus"]))]
    return []


PROPS = {
    "C02": {
        "proofs": ["ZlProofs.Props.C02", "ZlProofs.Props.Bodies", "ZlProofs.Props.CrlBodies"],  # Bodies: translated_rules_never_panic over the regenerated rule terms; CrlBodies: seven CRL bodies (no recovery net) as total functions of the parsed list
        "corr": ["walkers", "framework", "bodies", "crlmodel"],  # framework: cert_recovered_iff / unrecovered_panic_iff are theorems about the framework model
        "search": [("sweep", "C02")],
        "obligations": [ob_c02_sites],
        "dyn_search": dyn_c02,
        "trusted_base": TB_COMMON + ["the SSA site census of extract/sites.go: which instructions can panic, dominating branch conditions, value identity of loads (flow-aware), facts implied by CheckApplies",
                                     "the committed review /verif/c02_reviewed_sites.json (sites no schema discharges, each valid only for its context hash)"],
        "assumptions": ["A-LIB: library functions called by lint bodies (asn1, regexp, url, idna, publicsuffix, cryptobyte, big, utf8, reflect) do not panic on the arguments passed",
                        "A-PARSE-*: facts about parser output named per entry in the review file (non-nil key/SCT/descriptor pointers, well-formed time strings, one-octet BOOLEANs, pkix.Name slices nil-or-non-empty)",
                        "A-ERRPAIR: a (value, err) result with err == nil carries a non-nil value",
                        "no-hang is enforced only as a harness timeout"],
        "partial": "panic-freedom of the ~340 rule bodies is not a theorem: it is reduced (proved) to panic-freedom of their stages, every index/slice/assert/deref/division site in them is enumerated from the source on every run and either discharged by a kernel-checked certificate or reviewed, and library calls are assumed (A-LIB); walkers with computed indices are proved total",
    },
    "C01": {
        "proofs": ["ZlProofs.Props.C01", "ZlProofs.Props.C10"],  # C10: registry_readers_readonly — "the registry that was used" is what was registered: no reader keeps a copy of its own
        "corr": ["framework", "walkers", "regseq"],  # regseq: a lint run between registrations holds one result per lint registered so far  # walkers: the string helpers that loop on their input run under a watchdog (no hang)
        "search": [("sweep", "C01")],
        "trusted_base": TB_COMMON,
        "assumptions": ["no-hang is enforced only as a harness timeout",
                        "well-behavedness (WB) of the real rule bodies is established by the extracted status sets (C06) and, for panics, by C02"],
    },
    "C03": {
        "proofs": ["ZlProofs.Props.C03"],
        "corr": ["framework"],
        "search": ["c03"],
        "trusted_base": TB_COMMON,
        "assumptions": ["A-TIME: Go time.Time comparisons are by instant", "A-PARSE: the parser's mapping of encoded times to instants"],
    },
    "C04": {
        # C04Terms: IsServerAuthCert and the CA / S-MIME classification predicates of package util as terms regenerated from their
        # source (serverAuth_exact, classification_terms_*); Bodies: the evaluator; `bodies` calls the real predicates on every view
        "proofs": ["ZlProofs.Props.C04", "ZlProofs.Props.C04Terms", "ZlProofs.Props.Bodies"],
        "corr": ["framework", "der", "bodies"],  # der: also carries the CA-classification ops (util/ca.go)
        "search": [("sweep", "C04")],
        "trusted_base": TB_COMMON,
        "assumptions": ["the scope predicates are modelled over a parsed view (EKU OIDs, policy OIDs, rfc822 names, otherNames)"],
    },
    "C05": {
        "proofs": ["ZlProofs.Props.C05", "ZlProofs.Props.Bodies"],  # Bodies: the translated rules are functions of the view (no state to remember, nothing to write)
        "corr": ["bodies", "framework"],  # framework: the wrappers themselves are functions of (object, registry, configuration) — a clock read in a window check shows as a disagreement with the model
        "search": ["c05"],
        "trusted_base": TB_COMMON + ["the SSA footprint analysis of extract/funcs.go (stores through object-rooted addresses incl. append aliasing and re-slices, stores to package-level variables, calls leaving the module, map-range sites)",
                                     "the hand-written allow-lists in ZlProofs/Props/C05.lean (pure packages, function-level rules, documented clock/file sites, reviewed map ranges and appends) are part of the specification"],
        "assumptions": ["A-LIB: third-party and standard-library functions called by lints are deterministic and effect-free", "A-MEMO: zcrypto's GetParsedDNSNames / GetParsedSubjectCommonName caches are pure memoisation",
                        "wall-clock day held fixed (two AIA lints read time.Now)"],
        "partial": "that the SSA footprint over-approximates the Go code's effects (reflection, unsafe, library internals) is trusted and cross-checked dynamically, not proved",
    },
    "C09": {
        "proofs": ["ZlProofs.Props.C09", "ZlProofs.Props.Bodies"],  # Bodies: no_signature_field / all_rules_fields_allowed
        "corr": ["der", "framework", "bodies", "cli"],  # cli: the tool reads the same bytes the library parses — DER files whose signature ends in bytes a text reader would strip  # runAll_congr is about the framework model: results carry what the stages return, nothing derived from the object
        "search": ["c09"],
        "trusted_base": TB_COMMON,
        "assumptions": ["A-SELF: the parser sets SelfSigned only when issuer bytes = subject bytes (checked on every object)",
                        "A-ASN1: encoding/asn1 ignores bit-string contents when e_cert_ext_invalid_der re-parses the certificate",
                        "A-PARSE: replacing the signature bits changes no parsed field other than Signature, Raw and the whole-certificate fingerprints"],
        "partial": "of the two Raw-reading lints, e_cert_sig_alg_not_match_tbs_sig_alg is modelled (cryptobyte's DER reader and the walk) and proved blind to the signature element; e_cert_ext_invalid_der re-parses the certificate with encoding/asn1 and is reviewed and exercised by the signature-replacement search only (A-ASN1)",
    },
    "C10": {
        "proofs": ["ZlProofs.Props.C10"],
        "corr": [],
        "search": ["conc"],
        "race_subs": ["conc"],
        "trusted_base": TB_COMMON + ["Go's race detector (search only)"],
        "assumptions": ["SetConfiguration and Register* are not among the concurrent operations (as the property states)",
                        "each goroutine lints objects it owns"],
        "partial": "data races are a property of the Go memory model and of third-party code; the Lean model shows only that zlint's own steps perform no shared writes per the extracted footprints; the real scheduler is observed under -race, not proved",
    },
    "C11": {
        "proofs": ["ZlProofs.Props.C11", "ZlProofs.Props.C05"],  # locality is a statement about lints that are functions of (object, configuration): C05's footprint facts
        "corr": ["config", "filter", "framework", "regseq", "rsa"],  # filter: a filtered registry is a new registry holding a copy of the configuration (filter_inherits / no_leak); rsa: the one real numeric option (Rounds) under rising and falling sequences on one modulus, against the Fermat model
        "search": [],
        "trusted_base": TB_COMMON,
        "assumptions": ["A-TOML: go-toml's parser and reflection-based Unmarshal as abstracted by the typed-field view (key search name/lower/upper/lower-first, exact kind match, unknown keys ignored)"],
        "partial": "go-toml itself is not modelled beyond the typed-field abstraction; global sections have no fields in this code base",
    },
    "C06": {
        "proofs": ["ZlProofs.Props.C06", "ZlProofs.Props.Bodies", "ZlProofs.Props.CrlBodies"],  # Bodies: translated_rules_severity, on the rule terms rather than on extracted status sets; CrlBodies: crl_statuses, crl_warn_only_known
        "corr": ["framework", "bodies", "crlmodel"],  # framework_adds_only is a theorem about the framework model: NA, NE and fatal are all the wrapper adds
        "search": [("sweep", "C06")],
        "dyn_search": dyn_c06,
        "post": [post_observed_statuses],
        "trusted_base": TB_COMMON + ["the SSA status-set analysis of extract/status.go (every return path of every Execute, through helpers and pointer parameters)"],
        "assumptions": [],
    },
    "C07": {
        "proofs": ["ZlProofs.Props.C07", "ZlProofs.Props.C05"],  # rests on C05's footprint facts (no lint writes the object or package-level state)
        "corr": ["filter", "framework"],  # filter_shares_lints: the filtered registry holds the same lint values and the same configuration; filtered_is_restriction is about runAll
        "premise_props": ["C05"],  # a C05 violation found by the searches this check runs breaks the premise its theorems rest on
        "search": ["c07", "c05"],  # c05: the premise searched, too — a lint that re-orders or rewrites the object it is handed changes what the lints after it see
        "trusted_base": TB_COMMON,
        "assumptions": ["rests on C05's footprint facts: no lint writes the object or package-level state"],
    },
    "C08": {
        "proofs": ["ZlProofs.Props.C08", "ZlProofs.Props.C10"],  # C10: the registry model has no hidden state; registry_readers_readonly is that premise about the code
        "corr": ["filter", "regseq"],
        "search": [],
        "trusted_base": TB_COMMON,
        "assumptions": ["the regexp is modelled as the predicate it denotes (the harness sends the set of names it matches)",
                        "strings.TrimSpace is modelled on ASCII blanks"],
    },
    "C12": {
        "obligations": [ob_c12_excluded],
        "proofs": ["ZlProofs.Props.C12", "ZlProofs.Props.C13", "ZlProofs.Props.C10"],  # C13: "a known source" — every source a registered lint carries is one both source decoders accept (listed_sources_accepted)  # C10: registry_readers_readonly (listing and lookups are reads of one state, not caches of it)
        "corr": ["filter", "regseq"],
        "search": ["meta"],
        "trusted_base": TB_COMMON,
        "assumptions": [],
    },
    "C13": {
        "proofs": ["ZlProofs.Props.C13", "ZlProofs.Props.C10"],  # C10: registry_readers_readonly
        "corr": ["codec", "filter", "regseq"],
        "search": ["meta", "cli"],
        "trusted_base": TB_COMMON,
        "assumptions": ["CLI flag plumbing is covered by C15"],
    },
    "C15": {
        "proofs": ["ZlProofs.Props.C15"],
        "corr": ["cli"],
        "search": [],
        "trusted_base": TB_COMMON + ["the harness's execution of the built binary and its parsing of the summary tables"],
        "assumptions": ["process behaviour (exit codes, stdout buffering, log.Fatal) is observed, not proved"],
        "partial": "only dispatch, format override and counting are proved; equality of printed results with the library's is observed on the corpus",
    },
    "C16": {
        # C16Terms: the arithmetic theorems restated on the rule terms regenerated from the RSA lints' source; Bodies: the
        # evaluator those terms run on; C05: the lints do not write the key they read (a verdict is a function of (N, e))
        "proofs": ["ZlProofs.Props.C16", "ZlProofs.Props.C16Terms", "ZlProofs.Props.Bodies", "ZlProofs.Props.C05"],
        "corr": ["rsa", "bodies"],
        "search": [],
        "obligations": [ob_primes],
        "trusted_base": TB_COMMON + ["Mathlib v4.33.0 tactics ring / linarith / nlinarith used in ZlProofs.Props.C16 (no axioms beyond the three standard ones)"],
        "assumptions": ["A-RSA: the parser delivers N > 0 and 0 < E < 2^63 exactly as encoded (checked on every kit certificate)"],
    },
    "C18": {
        "proofs": ["ZlProofs.Props.C18", "ZlProofs.Props.C18Gen", "ZlProofs.Props.C05"],  # C05: the table is the table — nothing writes package-level state after init
        "corr": ["tld", "tldgen"],
        "search": [],
        "obligations": [ob_tld],
        "trusted_base": TB_COMMON,
        "assumptions": ["domain strings are ASCII (strings.ToLower is Unicode-aware; modelled on ASCII)",
                        "A-TIME: time.Parse(\"2006-01-02\") as modelled by parseDate (validated at every table date)"],
    },
    "C19": {
        "proofs": ["ZlProofs.Props.C19", "ZlProofs.Props.C05"],  # C05: the reserved-network table is built in init and never written afterwards
        "corr": ["ip"],
        "search": [],
        "obligations": [ob_networks],
        "trusted_base": TB_COMMON,
        "assumptions": ["A-NET: net.IP.To4 / IsGlobalUnicast / IPNet.Contains as modelled (validated by the ip correspondence)",
                        "networks are CIDR networks in canonical form (no host bits in the base address), contiguous masks"],
    },
    "C17": {
        "proofs": ["ZlProofs.Props.C17", "ZlProofs.Props.Bodies", "ZlProofs.Props.NamesTerms", "ZlProofs.Props.C05"],  # C05: no lint writes the object or package-level state  # Bodies: run_similar (order independence of every translated rule)
        "corr": ["names", "bodies"],
        "search": ["c17"],
        "obligations": [ob_loop_state],
        "trusted_base": TB_COMMON + ["the hand-written scan classification of list-reading lints in ZlProofs/Props/C17.lean (part of the specification; totality against the extracted readers is a kernel-checked obligation)",
                                     "the extractor's loop-status facts (which statuses a lint can return from inside a range loop)"],
        "assumptions": ["self-issued certificates are excluded from the permutation search (permuting changes the signed bytes, and SelfSigned depends on signature verification)"],
        "partial": "that each rule body is the scan its class says is established by classification + permutation search, not by translating the body",
    },
    "C20": {
        "proofs": ["ZlProofs.Props.C20", "ZlProofs.Props.C05", "ZlProofs.Props.Bodies", "ZlProofs.Props.NamesTerms", "ZlProofs.Props.C17"],  # C17: two copies of a rule agree on a list only if each is blind to its order  # C05: two rules can only be compared on "the same content" if each is a function of the object (no memory between calls); Bodies: twin_agrees, dsa_twins, san_ian_twins on the regenerated terms
        "corr": ["names", "thresholds", "bodies"],
        "obligations": [ob_loop_state],
        "premise_props": ["C05"],
        "search": ["c20", "c05"],  # c05: histories, incl. a re-used read buffer — a twin that remembers an earlier answer contradicts its mirror image
        "trusted_base": TB_COMMON + ["the pair table in ZlProofs/Props/C20.lean and harness/pairs.go (transcribed from the property)"],
        "assumptions": [],
        "partial": "per-element agreement of two Go rule bodies is searched (atoms of every GeneralName kind and content class, DN mirroring, corpus, threshold sweeps), not proved; the lifting from elements to lists and the threshold implication are proved",
    },
    "C14": {
        "proofs": ["ZlProofs.Props.C14", "ZlProofs.Props.C10"],  # C10: registry_readers_readonly; no package-level state behind the encoders (steps_preserve_shared)
        "corr": ["codec", "jsonstr", "regseq"],
        "search": [],
        "trusted_base": TB_COMMON,
        "assumptions": ["A-JSON: encoding/json's string codec is as modelled in ZlModel/JsonString.lean (appendString, scanner + unquoteBytes; Go 1.23) — validated by the jsonstr correspondence on every short string over 26 boundary bytes, random strings and hand-made literals; object/array framing of encoding/json is not modelled"],
        "partial": "the JSON string codec is modelled and its round trip proved (details_roundtrip); the framing of objects and maps by encoding/json is assumed",
    },
}


# what each claimed check asserts (goes into MANIFEST.json)
CLAIMS = {
    "C01": {"technique": "Lean 4 proof (fold invariant over abstract lints) + exhaustive scripted-lint correspondence + corpus/mutant sweep",
            "text": "Theorems runAll_exact / flags_iff / runAll_panics_iff hold for every list of lints with distinct names, every object, configuration and mix of statuses (incl. panics, nil results, out-of-range statuses). The model is tied to zlint.go/resultset.go/lint/base.go by running scripted lints through the real entry points and comparing complete result sets and call logs with the compiled Lean model; real lints are swept over the corpus and parser-accepted mutants with the property as oracle.",
            "note": "Trusted: Lean kernel; harness and driver line protocol; that real rule bodies are well-behaved rests on the extracted status sets (C06) and C02. No-hang only by timeout."},
    "C03": {"technique": "Lean 4 proof of the half-open window + window-grid correspondence + boundary re-dating sweep",
            "text": "checkEffective_spec and no_finding_outside_window are proved for all metadata (zero/non-zero dates, sub-second), all instants and all lint behaviours of all three kinds; boundary exactness at eff, eff-1s, ineff-1s, ineff. Tie: scripted lints at every window position (incl. non-UTC encodings and OCSP without nextUpdate); search: every registered lint at every distinct registry date +-1s on re-dated corpus objects.",
            "note": "Trusted: A-TIME (time.Time compares by instant), the parser's decoding of encoded times (validated on every re-dated object)."},
    "C04": {"technique": "Lean 4 proof (call-log model of Execute; scope / classification predicates of package util as terms regenerated from their source, characterised in C04Terms) + scope-view and predicate correspondence + direct-call oracle",
            "text": "scope_gate, inapplicable_NA, execute_only_after_applies, verdict_stands, body_panic_fatal, config_error_fatal hold for every lint, object and configuration; the three scope predicates are modelled over a parsed view and compared with util.IsServerAuthCert / IsEmailProtectionCert / IsCodeSigning through the framework on a grid of EKU / policy / SAN shapes, including re-linting the same object pointer after in-place edits; every real lint is compared with a direct CheckApplies/Execute call on a fresh configured instance.",
            "note": "Trusted: harness; the view abstraction of a certificate."},
    "C05": {
        "proofs": ["ZlProofs.Props.C05", "ZlProofs.Props.Bodies"],  # Bodies: the translated rules are functions of the view (no state to remember, nothing to write)
        "corr": ["bodies"],
        "search": ["c05"],
        "trusted_base": TB_COMMON + ["the SSA footprint analysis of extract/funcs.go (stores through object-rooted addresses incl. append aliasing and re-slices, stores to package-level variables, calls leaving the module, map-range sites)",
                                     "the hand-written allow-lists in ZlProofs/Props/C05.lean (pure packages, function-level rules, documented clock/file sites, reviewed map ranges and appends) are part of the specification"],
        "assumptions": ["A-LIB: third-party and standard-library functions called by lints are deterministic and effect-free", "A-MEMO: zcrypto's GetParsedDNSNames / GetParsedSubjectCommonName caches are pure memoisation",
                        "wall-clock day held fixed (two AIA lints read time.Now)"],
        "partial": "that the SSA footprint over-approximates the Go code's effects (reflection, unsafe, library internals) is trusted and cross-checked dynamically, not proved",
    },
    "C09": {
        "proofs": ["ZlProofs.Props.C09", "ZlProofs.Props.Bodies"],  # Bodies: no_signature_field / all_rules_fields_allowed
        "corr": ["der", "framework", "bodies", "cli"],  # cli: the tool reads the same bytes the library parses — DER files whose signature ends in bytes a text reader would strip  # runAll_congr is about the framework model: results carry what the stages return, nothing derived from the object
        "search": ["c09"],
        "trusted_base": TB_COMMON,
        "assumptions": ["A-SELF: the parser sets SelfSigned only when issuer bytes = subject bytes (checked on every object)",
                        "A-ASN1: encoding/asn1 ignores bit-string contents when e_cert_ext_invalid_der re-parses the certificate",
                        "A-PARSE: replacing the signature bits changes no parsed field other than Signature, Raw and the whole-certificate fingerprints"],
        "partial": "of the two Raw-reading lints, e_cert_sig_alg_not_match_tbs_sig_alg is modelled (cryptobyte's DER reader and the walk) and proved blind to the signature element; e_cert_ext_invalid_der re-parses the certificate with encoding/asn1 and is reviewed and exercised by the signature-replacement search only (A-ASN1)",
    },
    "C10": {
        "proofs": ["ZlProofs.Props.C10"],
        "corr": [],
        "search": ["conc"],
        "race_subs": ["conc"],
        "trusted_base": TB_COMMON + ["Go's race detector (search only)"],
        "assumptions": ["SetConfiguration and Register* are not among the concurrent operations (as the property states)",
                        "each goroutine lints objects it owns"],
        "partial": "data races are a property of the Go memory model and of third-party code; the Lean model shows only that zlint's own steps perform no shared writes per the extracted footprints; the real scheduler is observed under -race, not proved",
    },
    "C06": {"technique": "Lean 4 kernel evaluation over SSA-extracted status sets of every Execute + lifting lemma",
            "text": "For every registration found in the lint tree the set of statuses its Execute can return (all return paths, through helpers and pointer parameters) is regenerated and checked against the prefix rule by decide +kernel; framework_adds_only/severity_lifted lift it to every run. Nine committed known findings are excused by name+status only.",
            "note": "Trusted: the status-set data-flow of extract/status.go (unknown never passes; observed statuses must lie inside the extracted sets)."},
    "C07": {"technique": "Lean 4 proof (restriction + flag monotonicity) + filtered-vs-full search",
            "text": "filtered_is_restriction and flags_monotone hold for all lint lists with distinct names, any sub-list, all objects and configurations; filter_shares_lints links to Registry.Filter. Search: corpus objects and mutants with random valid FilterOptions and every singleton registry, fresh parse per run, status and details compared.",
            "note": "Rests on lints not writing the object or global state (footprints, C05): in the model Execute is a function of (lint, object, configuration)."},
    "C08": {"technique": "Lean 4 proof of filter_spec / filter_error_iff by induction over the filter loop + op-sequence correspondence",
            "text": "For every registry satisfying the lookup invariant with names unique across kinds and every FilterOptions: the filtered registry holds precisely the selected entries of each kind (same values), keeps the invariant and the configuration; an error arises exactly for an unknown trimmed name or a name pattern combined with name lists. Tie: thousands of option sets on the real global registry and on hook-built registries (cross-kind clashes, interleaved reads and registrations, chained filters).",
            "note": "Regexp modelled as a predicate; TrimSpace on ASCII blanks."},
    "C12": {"technique": "Lean 4 kernel evaluation: AST census vs run-time registry + induction over register",
            "text": "census_eq_runtime, names_sorted_unique, lookups_agree, wellformed, lint_types_eq_registered_types, all_packages_linked are decided by the kernel over tables regenerated from the source (F1) and from a default build at run time (F2); register_inv_all shows the agreement of the lookup tables is preserved by every registration sequence.",
            "note": "Trusted: extractor census, run-time dump."},
    "C13": {"technique": "Lean 4 proof over the filter model + kernel evaluation over regenerated case lists + exhaustive loop",
            "text": "listed_name_selectable / unknown_name_rejected follow from C08's filter_error_iff; every source the registry lists is in the regenerated FromString and UnmarshalJSON case lists (decide); SourceList.FromString's loop is characterised (accept iff all values known; unknown rejected). Exhaustive run over every listed name and source through the real API.",
            "note": "CLI plumbing of the same options belongs to C15."},
    "C14": {"technique": "Lean 4 kernel evaluation over regenerated label tables + codec correspondence + JSON round trips",
            "text": "details_roundtrip: encoding/json's string codec is modelled byte for byte (quote with and without HTML escaping, scanner + unquote incl. surrogate pairs) and unquote (quote s) = sanitize s is proved for every byte string — details come back exactly, up to U+FFFD for bytes that are not UTF-8; copy_through_is_decode_encode: EncodeRune (DecodeRune seq) = seq for every well-formed sequence (so the model's copy-through is the real decode/re-encode); labels_injective, status_roundtrip, unknown_label_rejected, out_of_range_not_decodable, struct-tag facts and listing_one_line_per_lint; result_roundtrip_partial with the JSON string codec abstracted. Tie: MarshalJSON/UnmarshalJSON of statuses and sources vs the model; real result sets with hostile details round-tripped (per-byte U+FFFD oracle); WriteJSON decoded line by line.",
            "note": "Partial: encoding/json itself is assumed (A-JSON) and validated, not modelled."},
    "C16": {"technique": "Lean 4 proofs over Nat (bit length, divisibility, Fermat soundness and completeness), restated on the rule terms regenerated from the source of eleven RSA lints (C16Terms, kernel-decided term identities) + boundary and rule-term correspondence",
            "text": "Each of the thirteen predicates is proved equivalent to its arithmetic meaning for all N, e; modSmallFactor_iff uses kernel-checked coverage of 2..751 by the regenerated prime table; fermat_sound (p*q = n) and fermat_complete for all n and round counts. Tie: kit certificates with chosen (N, e) at every boundary through the real framework, factorisations compared.",
            "note": "A-RSA (parser delivers N, E as encoded, E < 2^63). Mathlib tactics ring/linarith/nlinarith."},
    "C18": {"technique": "Lean 4 kernel evaluation of the regenerated 1.5k-row table + proofs of the lookup/period specification + date-boundary correspondence",
            "text": "table_wellformed (every row; keys strictly sorted), hasValidTLD_spec, isInTLDMap_spec, valid_no_silent_error, tld_lint_spec for all ASCII domains and instants. Regeneration clause: generate_rows_ok / generate_none_iff / merged_names_nodup / generate_lowercase show that every table zlint-gtld-update can write, for any two feeds, has well-formed dates and distinct keys. Tie: util.HasValidTLD/IsInTLDMap at every entry's delegation and removal instant +-1s in three time zones, the lint on re-dated certificates; the built generator (validateGTLDs, delegatedGTLDs, renderGTLDMap over an in-memory transport) vs the model on generated feeds with every malformed date shape.",
            "note": "ASCII domains; time.Parse modelled by parseDate (validated on valid and malformed strings). A-FEED: gTLD feed names are lower-case. The generator accepting removal < delegation was a genuine defect, repaired by fix: 352d290."},
    "C19": {"technique": "Lean 4 proofs over CIDR arithmetic on Nat + kernel evaluation over the regenerated network table + edge correspondence",
            "text": "contains_reserved_intersects, intersects_mono, host_network, mapped_eq_host/net, special_blocks_reserved hold for all addresses and canonical CIDR networks, given table facts (table_covers_nonGU, special_blocks_covered) decided by the kernel over the regenerated table. Tie: IsIANAReserved/IntersectsIANAReserved/IsGlobalUnicast/Contains on block edges, all super- and sub-prefixes, 4-byte and mapped forms.",
            "note": "A-NET (net.IP/IPNet as modelled); canonical networks with contiguous masks."},
}

CLAIMS.update({
    "C05": {"technique": "Lean 4 proof (history/repetition/object invariance for read-only effectful calls) + kernel evaluation of regenerated SSA footprints against hand-written allow-lists + snapshot/history search",
            "text": "history_independent, repetition_constant, object_unchanged hold for arbitrary effectful calls that are read-only; that every lint and helper in the tree is read-only and I/O-free is decided by the kernel over footprints regenerated from the source on every run: no stores through the linted object (incl. append aliasing and re-slices), no package-level stores outside the registration API, every call leaving the module is to a pure package or passes a function-level rule, clock/file sites are exactly the documented ones, map-range sites are order-free or reviewed. Search: deep snapshots before/after, repetitions, intervening histories and targeted cache-key histories on corpus + mutants.",
            "note": "Partial (see DESIGN): soundness of the SSA footprint w.r.t. reflection / unsafe / library internals is trusted + cross-checked, not proved. A-LIB, A-MEMO."},
    "C09": {"technique": "Lean 4 congruence proof + kernel evaluation of regenerated read footprints + signature-replacement search",
            "text": "raw_walk_ignores_signature: the one lint that walks c.Raw with cryptobyte is modelled (DER element reader proved to invert the minimal-length encoder, der_reader_inverts_encoder) and its verdict on SEQUENCE{tbs, alg, sig} is a function of tbs and alg alone, for every signature element; runAll_congr / sig_independent: lints whose outcome depends only on fields outside the signature-derived ones give equal result sets on objects agreeing elsewhere. Regenerated facts decided by the kernel: Signature is read by exactly one lint and only through len; Raw by exactly the two reviewed lints; no fingerprint / validation-state reads; no signature-checking calls. Search: every non-self-issued certificate with the signature replaced by zero / one / random / lopsided-ECDSA / other-key bytes of the same length.",
            "note": "Partial: A-SELF, A-ASN1, A-PARSE are validated by the search, not proved."},
    "C10": {"technique": "Lean 4 proof (every interleaving of world-preserving steps equals the sequential runs) + kernel evaluation of regenerated write/lock footprints + race-detector stress",
            "text": "interleaving_eq_sequential holds for every schedule of threads whose calls leave the shared world unchanged; that the code's lint and registry-read operations are such calls is decided by the kernel over regenerated footprints (registry_readers_readonly, lock_discipline, steps_preserve_shared). Search: a -race build running 16 linting goroutines plus 6 registry readers at GOMAXPROCS 16/2/1 with the first registry use inside the concurrent phase, results compared with the same calls made alone.",
            "note": "Partial: no race-freedom claim at proof level; third-party code and the Go memory model are outside the model."},
})

CLAIMS["C02"] = {"technique": "Lean 4 proof (recovered-panic iff a stage panics; totality of checked-index walker models) + kernel re-check of guard certificates for every panic-capable site regenerated from the source (SSA) against a committed review + walker correspondence + structure-aware mutation search",
    "text": "cert_recovered_iff / unrecovered_panic_iff / panic_free_never_recovered hold for every lint behaviour, object and configuration; controlChar_total, parseBMPUnits_total, isNameAttribute_total, v6_indices_in_range hold for every input; all_sites_accounted: each of the ~1,100 index / slice / type-assertion / nil-dereference / division / nil-map sites reachable from any lint (regenerated on every run) carries a guard certificate whose arithmetic the kernel re-checks (sound by Lemmas/Sites) or is in the committed review for exactly its present context (enclosing function, the CheckApplies bodies that reach it, its callers). Tie: the walkers through the real lint + framework on every short byte string; search: corpus + parser-accepted structural mutants, focused on the lints that reach any site whose obligation broke.",
    "note": "Partial: A-LIB, A-PARSE-*, A-ERRPAIR and the extractor's dominator/value-identity reading are trusted. The explicitText out-of-range read was a genuine defect, repaired by fix: 0ccbc55."}

CLAIMS["C11"] = {"technique": "Lean 4 proof (locality, error locality, no-leak state machine) over a typed-field model of configuration + correspondence on generated TOML",
    "text": "locality / absent_is_default / other_lints_unaffected / not_a_table_is_error / error_local / no_leak_r1 / filter_inherits / defaults_roundtrip_partial hold for all documents, specs and operation sequences. Tie: probe lints (certificate, CRL, one embedding Global) echoing their configured fields under generated TOML (well-typed, ill-typed, scalar/array/array-of-tables where a table is expected, unknown keys, unrelated sections) and SetConfiguration/Filter/lint sequences; the real configurable lints, DefaultConfiguration (valid TOML, a section per configurable lint, no verdict change) and error locality on the real registry.",
    "note": "Partial: A-TOML. The non-table panic was a genuine defect, repaired by fix: 268fc05."}

CLAIMS["C15"] = {"technique": "Lean 4 proof of the dispatch / format-override / summary-count logic + built-binary vs library differential run",
    "text": "dispatch_total, dispatch_cert_iff, dispatch_crl_iff, encodings_agree, fails_closed, summary_levels, summary_counts for all inputs. Tie and search: the binary built from the current tree is run on corpus certificates and CRLs in PEM / DER / base64, from file and stdin, several files per invocation, with generated selection and summary flags; printed results and summary counts are compared with in-process library results under the same FilterOptions; nineteen classes of undecodable input / unknown selectors must exit non-zero with empty stdout.",
    "note": "Partial: process behaviour is observed, not proved."}

CLAIMS["C17"] = {"technique": "Lean 4 proof (permutation invariance of the four scan classes) + kernel-checked classification of every list-reading lint over regenerated footprints + permutation search",
    "text": "scan_perm: any-match, all-match, count and set-valued scans give the same verdict on every permutation of every list; names_verdicts_perm: for the fourteen modelled name lints (ZlModel/Names.lean, tied by the names correspondence) order independence is a theorem about the rule body itself. Every registered lint whose regenerated footprint reads an order-bearing list field (SAN/IAN entries, extensions, EKUs, policies, RDN attributes, CRL entries) must appear in the hand-written class table (class_table_total), and a lint that can return different statuses from inside the loop must be reviewed or listed. Search: SAN/IAN entries, extensions, EKUs and policies of kit and corpus certificates permuted by DER surgery, all lints compared. Eight committed known findings (first-unparseable-name NA and the NFC lint) are excused by lint name only.",
    "note": "Partial: the body-is-a-scan step is classification + search. Known findings: 8 san-order entries in known_findings.json."}

CLAIMS["C20"] = {"technique": "Lean 4 proof (element-wise agreement lifts to mirrored lists; threshold implication) + kernel checks over the regenerated registry + pair search on the real lints",
    "text": "label_pair_agree / empty_label_pair_agree / space_pair_agree / uri_ia5_pair_agree: for four pairs both rule bodies are modelled (ZlModel/Names.lean, tied to the real lints by the names correspondence) and their agreement on the same content is a theorem for every name list; validity_pair_implies / name_length_pair_implies: the 398/397-day and 32768/64-character companions are modelled as their bodies compute (saturating time.Sub, utf8.RuneCountInString) and error => warn is a theorem for all instants and names; mirror_agree / mirror_agree_finding / threshold_implies for all lists and limits; pairs_registered and mirror_status_sets_agree decided by the kernel over the regenerated registry and status sets. Search: each SAN/IAN pair on the same GeneralNames (every kind, generated content classes incl. opaque URIs, IPv6 literals, empty and non-IA5 values), subject/issuer pairs on mirrored DNs, RFC/CABF DNS pairs, DSA and AIA pairs on the corpus, 398/397-day and 32768/64-character threshold sweeps.",
    "note": "Partial: element agreement searched, not proved. The SAN/IAN URI-host divergence was a genuine defect, repaired by fix: fb75916."}

NOT_APPLICABLE = {}

# the lint-logic layer (rule bodies translated from the source): appended to the claims of the properties it serves
_BODIES = (" For the certificate lints whose CheckApplies/Execute lie inside the lint-logic fragment (195 of 366 today; type assertions on the public key, integer and big.Int expressions, labels, octet scans, external functions as parameters) the rule bodies themselves are "
           "translated from the Go source on every run (extract/bodies.go -> Generated/Bodies.lean) and the theorems of Props/Bodies.lean are re-decided "
           "on the regenerated terms; the `bodies` correspondence runs the real methods and the Lean evaluator on the same certificates.")
for _pid, _tech, _text in [
        ("C02", " + rule bodies translated from the source into a lint-logic language whose guard analysis is proved sound (no panic, for every certificate)",
         " translated_rules_never_panic: every translated rule passes a guard analysis (each GetExtFromCert(...).Critical is dominated by the presence test) proved sound for all terms and views."),
        ("C05", " + translated rule bodies are functions of the parsed view", ""),
        ("C06", " + severity decided on rule terms translated from the source",
         " translated_rules_severity: every status written in a translated body respects the prefix (the same known findings excused)."),
        ("C09", " + translated rule bodies read no signature-derived field", " all_rules_fields_allowed / no_signature_field for the translated rules."),
        ("C17", " + order independence of every translated rule body (run_similar)",
         " run_similar: a translated rule's answer depends on list fields only through nil-ness, length and the set of elements."),
        ("C20", " + twin theorems on rule terms translated from the source",
         " twin_agrees with dsa_twins / san_ian_twins: the Mozilla/BR DSA prohibitions and three SAN/IAN pairs are the same term up to renaming, so they agree on every certificate whose mirrored fields carry the same content.")]:
    CLAIMS[_pid] = dict(CLAIMS[_pid], technique=CLAIMS[_pid]["technique"] + _tech, text=CLAIMS[_pid]["text"] + _text + _BODIES)


# F14: every property whose theorems are stated over a hand-written model re-checks that the modelled functions still read as they
# did when the model was written (Lean: ZlProofs.Props.PinsNN; the Python mirror names the function)
for _pn in (1, 2, 3, 4, 6, 7, 8, 9, 11, 12, 13, 14, 15, 16, 18, 19):
    _k = "C%02d" % _pn
    if _k in PROPS:
        PROPS[_k].setdefault("proofs", []).append("ZlProofs.Props.Pins%02d" % _pn)
        PROPS[_k].setdefault("obligations", []).append(ob_pins(_k))


# this session's layers, appended to the claims of the properties they serve
for _pid, _tech, _text in [
        ("C02", " + seven CRL rule bodies modelled (no recovery net) with a direct-call correspondence", " CrlBodies: the seven modelled CRL bodies are total functions of the parsed list, characterised exactly (reasonNotCritical_exact, cabfReason_exact, uniqueSerial_exact)."),
        ("C03", " + the framework's transitive reads of the linted object pinned (framework_reads_only_window_targets)", ""),
        ("C06", " + CRL rule bodies modelled (crl_statuses, crl_warn_only_known)", ""),
        ("C16", "", " C16Terms: size_bodies / modulus_bodies / exponent_bodies identify the regenerated Execute terms of eleven RSA lints; rsa_mod_2048_exact, div8_exact, notOdd_exact, smallFactor_exact, expOdd_exact, expSmall_exact, expOne_exact, expNeg_exact give the exact arithmetic condition for every RSA key view."),
        ("C17", " + loop-carried state census of every loop reachable from a lint (F13, loop_state_reviewed)", " loop_state_reviewed: every value that survives from one loop iteration to the next in code reachable from a lint is a flag, a counter, a collected list, or in the committed review for the present text of its function."),
        ("C20", " + RFC / CA-B-Forum label pairs and SAN/IAN octet-scan pairs on regenerated terms (NamesTerms, san_ian_octet_twins)", " label_bodies / br_agrees_with_rfc / rfc_error_implies_br_error on the regenerated terms; loop_state_reviewed as a premise.")]:
    CLAIMS[_pid] = dict(CLAIMS[_pid], technique=CLAIMS[_pid]["technique"] + _tech, text=CLAIMS[_pid]["text"] + _text)
_PIN = " The hand-written models are pinned to the text of the functions they were written from (modelled_functions.json, Props/PinsNN): a changed text re-opens the tie."
for _pn in (1, 2, 3, 4, 6, 7, 8, 9, 11, 12, 13, 14, 15, 16, 18, 19):
    _k = "C%02d" % _pn
    CLAIMS[_k] = dict(CLAIMS[_k], text=CLAIMS[_k]["text"] + _PIN)
