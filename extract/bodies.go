package main

// F12 — rule bodies translated into the lint-logic language of lean/ZlModel/LintLogic.lean.
//
// For every registered certificate lint whose CheckApplies and Execute stay inside a small fragment of Go
// (boolean combinations of field tests on the parsed certificate, extension presence / criticality,
// first-match loops over a list field with a predicate on the element, module-local helper functions of the
// same fragment, and `return &lint.LintResult{Status: …}`), this file emits a term
//
//	applies : Cond        body : Stmt
//
// that the Lean model evaluates on a *view* of the certificate. The translation is syntax-directed over the
// type-checked AST; anything outside the fragment makes the lint "untranslated" with a reason (it is then
// covered by the other facts only). Nothing is guessed: an expression that is not recognised is never
// replaced by a default.
//
// The terms are JSON values: ["and", a, b], ["ext", [2,5,29,15]], ["ret", 6], …  Field paths are the Go
// selector paths from the certificate ("IsCA", "Subject.Country", "Subject.Names#Type").

import (
	"fmt"
	"go/ast"
	"go/constant"
	"go/token"
	"go/types"
	"sort"
	"strings"
	"time"

	"golang.org/x/tools/go/packages"
)

type T = []interface{}

type BodyFact struct {
	Name    string      `json:"name"`
	Applies interface{} `json:"applies"`
	Body    interface{} `json:"body"`
}

type trErr struct{ msg string }

func (e *trErr) Error() string { return e.msg }

func unsupported(format string, a ...interface{}) {
	panic(&trErr{fmt.Sprintf(format, a...)})
}

// a value the translator can track
type val struct {
	kind string // path | oid | int | str | bool | ext | elem | out
	path string // path: selector path from the certificate; elem: the list path it ranges over
	ek   string // elem: element kind (str | oid | int)
	oid  []int
	i    int64
	n    int64 // time: nanoseconds
	s    string
	b    bool
	of   *val // measure: the string value measured (elem or path); s = "len" | "runes"; extobj / exterr: the string parsed
	// elem (str): external projections applied to the loop element, outermost last (url.Parse(x).Host → ["url.Parse.Host"])
	chain []string
	// extobj: set once the paired error was tested and the failing branch left
	checked *bool
	// cond: a boolean term bound to a variable (`_, ok := c.PublicKey.(*rsa.PublicKey)`); iexp: an integer term (s = "big" | "int");
	// bigcmp: x.Cmp(y) with term = x, term2 = y; key: the variable bound by a type assertion on c.PublicKey (i = type tag, s = short name)
	term  interface{}
	term2 interface{}
}

// dynamic types of c.PublicKey the fragment knows: tag values of the pseudo field "PublicKey#type" (shared with harness/bodies.go)
var keyTypeTags = map[string]struct {
	tag   int64
	short string
}{
	"*crypto/rsa.PublicKey":                  {1, "rsa"},
	"*github.com/zmap/zcrypto/dsa.PublicKey": {2, "dsa"},
}

const keyTypeField = "PublicKey#type"

// integer-valued fields of a key object: short name -> field -> "big" | "int"
var keyIntFields = map[string]map[string]string{
	"rsa": {"N": "big", "E": "int"},
	"dsa": {"P": "big", "Q": "big", "G": "big", "Y": "big"},
}

// c.PublicKey.(*T): the key value (not yet guarded)
func (t *trans) keyAssert(x *ast.TypeAssertExpr) (val, bool) {
	if x.Type == nil {
		return val{}, false
	}
	base, ok := t.tryValue(x.X)
	if !ok || base.kind != "path" || base.path != "PublicKey" {
		return val{}, false
	}
	kt, ok := keyTypeTags[t.typeOf(x.Type).String()]
	if !ok {
		unsupported("type assertion to %s", exprString(x.Type))
	}
	noteField(keyTypeField, "int")
	return val{kind: "key", i: kt.tag, s: kt.short}, true
}

// "the string value v satisfies the element predicate p", as a term about what v was taken from: the loop element (p wrapped in
// v's projections), a string field of the certificate (strP), a label of either (pFirstLabel), the loop variable of a label loop
func (t *trans) strPredOn(v val, p interface{}) (interface{}, bool) {
	switch v.kind {
	case "elem":
		if v.ek == "str" {
			return wrapChain(v.chain, p), true
		}
	case "path":
		if v.path != "" {
			noteField(v.path, "str")
			return T{"strP", v.path, p}, true
		}
	case "label":
		return t.strPredOn(*v.of, T{"pFirstLabel", p})
	}
	return nil, false
}

// lift a boolean combination of element predicates (what inlining a helper into a loop body yields) to an element predicate
func liftP(c interface{}) (interface{}, bool) {
	n, ok := c.(T)
	if !ok || len(n) == 0 {
		return nil, false
	}
	tag, _ := n[0].(string)
	switch tag {
	case "const":
		if n[1] == true {
			return T{"pTrue"}, true
		}
		return T{"pFalse"}, true
	case "not":
		a, ok := liftP(n[1])
		return T{"pNot", a}, ok
	case "and", "or":
		a, ok1 := liftP(n[1])
		b, ok2 := liftP(n[2])
		return T{map[string]string{"and": "pAnd", "or": "pOr"}[tag], a, b}, ok1 && ok2
	}
	if strings.HasPrefix(tag, "p") {
		return c, true
	}
	return nil, false
}

// an integer term of a tracked value (constant, integer field, iexp)
func (t *trans) iexpOf(v val, e ast.Expr) (interface{}, bool) {
	switch v.kind {
	case "iexp":
		return v.term, true
	case "int":
		return T{"lit", v.i}, true
	case "path":
		if v.path != "" && fieldKind(t.typeOf(e)) == "int" {
			noteField(v.path, "int")
			return T{"fld", v.path}, true
		}
	}
	return nil, false
}

// external functions the model takes as parameters (Env): names are shared with harness/bodies.go, ids are positions here
var externFnNames = []string{"url.Parse.Scheme", "url.Parse.Host", "url.Parse.Opaque", "url.Parse.Path", "url.Parse.Hostname", "strings.ToLower", "strings.ToUpper"}
var externPredNames = []string{"url.Parse.err", "url.Parse.IsAbs", "url.Parse.User.nil", "mail.ParseAddress.err", "util.IsFQDNOrIP", "util.IsISOCountryCode", "util.IsLDHLabel", "util.IsInTLDMap", "util.HasReservedLabelPrefix", "util.HasXNLabelPrefix", "net.ParseIP.nil"}

func externID(names []string, n string) int {
	for i, x := range names {
		if x == n {
			return i
		}
	}
	unsupported("external function %s", n)
	return -1
}

// wrap a predicate on a projected string into projections from the loop element
func wrapChain(chain []string, p interface{}) interface{} {
	for i := len(chain) - 1; i >= 0; i-- {
		p = T{"pProj", externID(externFnNames, chain[i]), p}
	}
	return p
}

func withChain(v val, f string) val {
	externID(externFnNames, f)
	v.chain = append(append([]string{}, v.chain...), f)
	return v
}

type trans struct {
	p      *packages.Package
	env    map[types.Object]val
	depth  int
	byPath map[string]*packages.Package
	poison map[types.Object]bool // variables overwritten through a method call (z.Mod(x, y)): no longer tracked
}

var bodyFields = map[string]string{} // path -> kind (bool | int | str | lstr | loid | lint | lopaque)

const certType = "*github.com/zmap/zcrypto/x509.Certificate"

func (t *trans) child(p *packages.Package) *trans {
	return &trans{p: p, env: map[types.Object]val{}, depth: t.depth + 1, byPath: t.byPath, poison: t.poison}
}

func (t *trans) typeOf(e ast.Expr) types.Type {
	if tv, ok := t.p.TypesInfo.Types[e]; ok {
		return tv.Type
	}
	if id, ok := e.(*ast.Ident); ok {
		if o := t.p.TypesInfo.Uses[id]; o != nil {
			return o.Type()
		}
		if o := t.p.TypesInfo.Defs[id]; o != nil {
			return o.Type()
		}
	}
	return nil
}

func isOIDType(ty types.Type) bool {
	if ty == nil {
		return false
	}
	n, ok := ty.(*types.Named)
	return ok && n.Obj().Name() == "ObjectIdentifier" && n.Obj().Pkg() != nil && strings.HasSuffix(n.Obj().Pkg().Path(), "asn1")
}

func isIntegerType(ty types.Type) bool {
	if ty == nil {
		return false
	}
	b, ok := ty.Underlying().(*types.Basic)
	return ok && b.Info()&types.IsInteger != 0
}

func isStringType(ty types.Type) bool {
	if ty == nil {
		return false
	}
	b, ok := ty.Underlying().(*types.Basic)
	return ok && b.Info()&types.IsString != 0
}

func isBoolType(ty types.Type) bool {
	if ty == nil {
		return false
	}
	b, ok := ty.Underlying().(*types.Basic)
	return ok && b.Info()&types.IsBoolean != 0
}

// kind of a field path, from its Go type
func fieldKind(ty types.Type) string {
	switch {
	case ty == nil:
		return ""
	case isBoolType(ty):
		return "bool"
	case isIntegerType(ty):
		return "int"
	case isStringType(ty):
		return "str"
	}
	if isOIDType(ty) {
		return ""
	}
	if ty.String() == "time.Time" {
		return "time"
	}
	if sl, ok := ty.Underlying().(*types.Slice); ok {
		el := sl.Elem()
		switch {
		case isStringType(el):
			return "lstr"
		case isOIDType(el):
			return "loid"
		case isIntegerType(el):
			if b, ok := el.Underlying().(*types.Basic); ok && b.Kind() == types.Uint8 {
				return "lopaque" // []byte
			}
			return "lint"
		default:
			return "lopaque"
		}
	}
	return ""
}

func noteField(path, kind string) {
	if old, ok := bodyFields[path]; ok && old != kind {
		unsupported("field %s used as %s and %s", path, old, kind)
	}
	bodyFields[path] = kind
}

// package-level OID variable → arcs
func (t *trans) globalOID(obj types.Object) ([]int, bool) {
	v, ok := obj.(*types.Var)
	if !ok || v.Pkg() == nil || v.Parent() != v.Pkg().Scope() || !isOIDType(v.Type()) {
		return nil, false
	}
	p := t.byPath[v.Pkg().Path()]
	if p == nil {
		return nil, false
	}
	init := findVar(p, v.Name())
	cl, ok := init.(*ast.CompositeLit)
	if !ok {
		return nil, false
	}
	var arcs []int
	for _, el := range cl.Elts {
		n, ok := constInt(p, el)
		if !ok {
			return nil, false
		}
		arcs = append(arcs, int(n))
	}
	return arcs, true
}

// package-level time.Time variable initialised by time.Date(consts…, time.UTC) or by another such variable
func (t *trans) globalTime(obj types.Object, depth int) (sec, nsec int64, ok bool) {
	v, isVar := obj.(*types.Var)
	if !isVar || v.Pkg() == nil || v.Parent() != v.Pkg().Scope() || v.Type().String() != "time.Time" || depth > 4 {
		return 0, 0, false
	}
	p := t.byPath[v.Pkg().Path()]
	if p == nil {
		return 0, 0, false
	}
	switch init := findVar(p, v.Name()).(type) {
	case *ast.CallExpr:
		if exprString(init.Fun) != "time.Date" || len(init.Args) != 8 || exprString(init.Args[7]) != "time.UTC" {
			return 0, 0, false
		}
		var a [7]int64
		for i := 0; i < 7; i++ {
			n, ok := constInt(p, init.Args[i])
			if !ok {
				return 0, 0, false
			}
			a[i] = n
		}
		tm := time.Date(int(a[0]), time.Month(a[1]), int(a[2]), int(a[3]), int(a[4]), int(a[5]), int(a[6]), time.UTC)
		return tm.Unix(), int64(tm.Nanosecond()), true
	case *ast.Ident:
		return t.globalTime(p.TypesInfo.Uses[init], depth+1)
	case *ast.SelectorExpr:
		return t.globalTime(p.TypesInfo.Uses[init.Sel], depth+1)
	}
	return 0, 0, false
}

func (t *trans) constOf(e ast.Expr) (val, bool) {
	tv, ok := t.p.TypesInfo.Types[e]
	if !ok || tv.Value == nil {
		return val{}, false
	}
	switch tv.Value.Kind() {
	case constant.Int:
		n, ok := constant.Int64Val(tv.Value)
		if !ok {
			return val{}, false
		}
		return val{kind: "int", i: n}, true
	case constant.String:
		return val{kind: "str", s: constant.StringVal(tv.Value)}, true
	case constant.Bool:
		return val{kind: "bool", b: constant.BoolVal(tv.Value)}, true
	}
	return val{}, false
}

// value of an expression, or unsupported
func (t *trans) value(e ast.Expr) val {
	if c, ok := t.constOf(e); ok {
		return c
	}
	switch x := e.(type) {
	case *ast.ParenExpr:
		return t.value(x.X)
	case *ast.StarExpr:
		return t.value(x.X)
	case *ast.UnaryExpr:
		if x.Op == token.AND {
			return t.value(x.X)
		}
	case *ast.Ident:
		obj := t.p.TypesInfo.Uses[x]
		if obj == nil {
			obj = t.p.TypesInfo.Defs[x]
		}
		if t.poison[obj] {
			unsupported("identifier %s was overwritten", x.Name)
		}
		if v, ok := t.env[obj]; ok {
			return v
		}
		if arcs, ok := t.globalOID(obj); ok {
			return val{kind: "oid", oid: arcs}
		}
		if sec, nsec, ok := t.globalTime(obj, 0); ok {
			return val{kind: "time", i: sec, n: nsec}
		}
		unsupported("identifier %s", x.Name)
	case *ast.SelectorExpr:
		// package-qualified global
		if id, ok := x.X.(*ast.Ident); ok {
			if _, isPkg := t.p.TypesInfo.Uses[id].(*types.PkgName); isPkg {
				obj := t.p.TypesInfo.Uses[x.Sel]
				if arcs, ok := t.globalOID(obj); ok {
					return val{kind: "oid", oid: arcs}
				}
				if sec, nsec, ok := t.globalTime(obj, 0); ok {
					return val{kind: "time", i: sec, n: nsec}
				}
				unsupported("global %s.%s", id.Name, x.Sel.Name)
			}
		}
		base := t.value(x.X)
		switch base.kind {
		case "key":
			if sel := t.p.TypesInfo.Selections[x]; sel == nil || sel.Kind() != types.FieldVal {
				unsupported("method value %s", exprString(x))
			}
			if base.s == "dsa" && x.Sel.Name == "Parameters" {
				return base // embedded struct: key.Parameters.P is key.P
			}
			if k, ok := keyIntFields[base.s][x.Sel.Name]; ok {
				path := "PublicKey#" + base.s + "." + x.Sel.Name
				noteField(path, "int")
				return val{kind: "iexp", s: k, term: T{"kfld", path, keyTypeField, base.i}}
			}
			unsupported("key field %s", exprString(x))
		case "path":
			p := x.Sel.Name
			if base.path != "" {
				p = base.path + "." + x.Sel.Name
			}
			// only fields, never methods
			if sel := t.p.TypesInfo.Selections[x]; sel == nil || sel.Kind() != types.FieldVal {
				unsupported("method value %s", exprString(x))
			}
			return val{kind: "path", path: p}
		case "ext":
			unsupported("extension field %s", x.Sel.Name) // .Critical is handled in cond
		case "extobj":
			if base.checked == nil || !*base.checked {
				unsupported("use of the result of %s before its error is tested", base.s)
			}
			if isStringType(t.typeOf(x)) {
				return withChain(*base.of, base.s+"."+x.Sel.Name)
			}
			unsupported("field %s of %s result", x.Sel.Name, base.s)
		}
		unsupported("selector %s", exprString(x))
	case *ast.TypeAssertExpr:
		if k, ok := t.keyAssert(x); ok {
			return k
		}
	case *ast.IndexExpr:
		// strings.Split(s, ".")[0]: Split never returns an empty slice
		if b, ok := t.tryValue(x.X); ok && b.kind == "labels" && b.s == "all" {
			if k, ok := t.constOf(x.Index); ok && k.kind == "int" && k.i == 0 {
				return val{kind: "label", s: "first", of: b.of}
			}
		}
	case *ast.SliceExpr:
		// labels[1:] (never out of range: there is at least one label)
		if b, ok := t.tryValue(x.X); ok && b.kind == "labels" && b.s == "all" && x.High == nil && x.Max == nil && x.Low != nil {
			if k, ok := t.constOf(x.Low); ok && k.kind == "int" && k.i == 1 {
				return val{kind: "labels", s: "rest", of: b.of}
			}
		}
	case *ast.BinaryExpr:
		// machine-integer remainder by a non-zero constant
		if x.Op == token.REM && isIntegerType(t.typeOf(x.X)) {
			if k, ok := t.constOf(x.Y); ok && k.kind == "int" && k.i != 0 {
				if l, ok := t.tryValue(x.X); ok {
					if lt, ok := t.iexpOf(l, x.X); ok && l.s != "big" {
						return val{kind: "iexp", s: "int", term: T{"tmod", lt, k.i}}
					}
				}
			}
		}
	case *ast.CallExpr:
		if name, _ := t.calleeName(x); name == "strings.Split" && len(x.Args) == 2 {
			if sep, ok := t.constOf(x.Args[1]); ok && sep.kind == "str" && sep.s == "." {
				if b, ok := t.tryValue(x.Args[0]); ok && ((b.kind == "elem" && b.ek == "str") || (b.kind == "path" && b.path != "" && isStringType(t.typeOf(x.Args[0])))) {
					return val{kind: "labels", s: "all", of: &b}
				}
			}
		}
		if name, _ := t.calleeName(x); name == "net.ParseIP" && len(x.Args) == 1 {
			if b, ok := t.tryValue(x.Args[0]); ok && ((b.kind == "elem" && b.ek == "str") || (b.kind == "path" && b.path != "" && isStringType(t.typeOf(x.Args[0])))) {
				externID(externPredNames, "net.ParseIP.nil")
				return val{kind: "extnil", s: "net.ParseIP", of: &b}
			}
		}
		if _, obj := t.calleeName(x); obj != nil {
			// a module-local boolean helper, bound to a variable: its inlined condition
			if fn, ok := obj.(*types.Func); ok && fn.Pkg() != nil && strings.HasPrefix(fn.Pkg().Path(), modPath) {
				if sig := fn.Type().(*types.Signature); sig.Recv() == nil && sig.Results().Len() == 1 && isBoolType(sig.Results().At(0).Type()) {
					return val{kind: "cond", term: t.inlineBool(fn, x)}
				}
			}
		}
		if name, _ := t.calleeName(x); name == "math/big.NewInt" && len(x.Args) == 1 {
			if k, ok := t.constOf(x.Args[0]); ok && k.kind == "int" {
				return val{kind: "iexp", s: "big", term: T{"lit", k.i}}
			}
		}
		if name, _ := t.calleeName(x); strings.HasPrefix(name, "method:(*math/big.Int).") {
			sel := x.Fun.(*ast.SelectorExpr)
			switch name[len("method:(*math/big.Int)."):] {
			case "BitLen":
				if r, ok := t.tryValue(sel.X); ok && r.kind == "iexp" && r.s == "big" && len(x.Args) == 0 {
					return val{kind: "iexp", s: "int", term: T{"bitLen", r.term}}
				}
			case "Cmp":
				if len(x.Args) == 1 {
					a, aok := t.tryValue(sel.X)
					b, bok := t.tryValue(x.Args[0])
					if aok && bok && a.kind == "iexp" && a.s == "big" && b.kind == "iexp" && b.s == "big" {
						return val{kind: "bigcmp", term: a.term, term2: b.term}
					}
				}
			case "Mod":
				// z.Mod(x, y): the value is x mod y (Euclidean); z is overwritten, so its binding is dropped
				if len(x.Args) == 2 {
					a, aok := t.tryValue(x.Args[0])
					b, bok := t.tryValue(x.Args[1])
					if aok && bok && a.kind == "iexp" && a.s == "big" && b.kind == "iexp" && b.s == "big" {
						if lit, ok := b.term.(T); ok && lit[0] == "lit" && lit[1].(int64) != 0 {
							if id, ok := sel.X.(*ast.Ident); ok {
								// the receiver's old value is read nowhere: it must itself be a tracked constant
								if _, tracked := t.env[t.p.TypesInfo.Uses[id]]; !tracked {
									unsupported("receiver of %s", exprString(x))
								}
								t.poison[t.p.TypesInfo.Uses[id]] = true
							} else {
								unsupported("receiver of %s", exprString(x))
							}
							return val{kind: "iexp", s: "big", term: T{"emod", a.term, lit[1]}}
						}
					}
				}
			}
			unsupported("big.Int call %s", exprString(x))
		}
		if name, _ := t.calleeName(x); (name == "builtin.len" || name == "unicode/utf8.RuneCountInString") && len(x.Args) == 1 && isStringType(t.typeOf(x.Args[0])) {
			inner := t.value(x.Args[0])
			if (inner.kind == "elem" && inner.ek == "str") || inner.kind == "path" || inner.kind == "label" {
				if inner.kind == "path" {
					noteField(inner.path, "str")
				}
				return val{kind: "measure", s: map[string]string{"builtin.len": "len", "unicode/utf8.RuneCountInString": "runes"}[name], of: &inner}
			}
		}
		if name, _ := t.calleeName(x); (name == "strings.ToLower" || name == "strings.ToUpper") && len(x.Args) == 1 {
			if inner, ok := t.tryValue(x.Args[0]); ok && inner.kind == "elem" && inner.ek == "str" {
				return withChain(inner, name)
			}
		}
		if name, _ := t.calleeName(x); name == "method:(*net/url.URL).Hostname" {
			if base, ok := t.tryValue(x.Fun.(*ast.SelectorExpr).X); ok && base.kind == "extobj" && base.checked != nil && *base.checked {
				return withChain(*base.of, base.s+".Hostname")
			}
		}
		if name, _ := t.calleeName(x); name == "github.com/zmap/zlint/v3/util.GetExtFromCert" && len(x.Args) == 2 {
			c := t.value(x.Args[0])
			o := t.value(x.Args[1])
			if c.kind == "path" && c.path == "" && o.kind == "oid" {
				return val{kind: "ext", oid: o.oid}
			}
		}
	}
	unsupported("value %s", exprString(e))
	return val{}
}

func (t *trans) calleeName(c *ast.CallExpr) (string, types.Object) {
	var id *ast.Ident
	switch f := c.Fun.(type) {
	case *ast.Ident:
		id = f
	case *ast.SelectorExpr:
		id = f.Sel
	default:
		return "", nil
	}
	obj := t.p.TypesInfo.Uses[id]
	if fn, ok := obj.(*types.Func); ok {
		if fn.Pkg() != nil {
			if sig, ok := fn.Type().(*types.Signature); ok && sig.Recv() != nil {
				return "method:" + fn.FullName(), obj
			}
			return fn.Pkg().Path() + "." + fn.Name(), obj
		}
	}
	if b, ok := obj.(*types.Builtin); ok {
		return "builtin." + b.Name(), obj
	}
	return "", obj
}

func oidT(o []int) interface{} {
	out := make([]interface{}, len(o))
	for i, a := range o {
		out[i] = a
	}
	return out
}

func strT(s string) interface{} {
	b := []byte(s)
	out := make([]interface{}, len(b))
	for i, c := range b {
		out[i] = int(c)
	}
	return out
}

func cmpName(op token.Token) string {
	switch op {
	case token.EQL:
		return "eq"
	case token.NEQ:
		return "ne"
	case token.LSS:
		return "lt"
	case token.LEQ:
		return "le"
	case token.GTR:
		return "gt"
	case token.GEQ:
		return "ge"
	}
	return ""
}

func flipCmp(c string) string {
	switch c {
	case "lt":
		return "gt"
	case "le":
		return "ge"
	case "gt":
		return "lt"
	case "ge":
		return "le"
	}
	return c
}

func (t *trans) pathKind(v val, e ast.Expr) string {
	return fieldKind(t.typeOf(e))
}

// len(x) where x is a list path; returns the path
func (t *trans) lenArg(e ast.Expr) (string, bool) {
	c, ok := e.(*ast.CallExpr)
	if !ok || len(c.Args) != 1 {
		return "", false
	}
	if name, _ := t.calleeName(c); name != "builtin.len" {
		return "", false
	}
	k := fieldKind(t.typeOf(c.Args[0]))
	if !strings.HasPrefix(k, "l") {
		return "", false
	}
	v := t.value(c.Args[0])
	if v.kind != "path" {
		return "", false
	}
	noteField(v.path, k)
	return v.path, true
}

func isNilIdent(t *trans, e ast.Expr) bool {
	id, ok := e.(*ast.Ident)
	if !ok {
		return false
	}
	_, isNil := t.p.TypesInfo.Uses[id].(*types.Nil)
	return isNil
}

// element predicate (inside a loop over a list): returns ["p…"] term for SPred, or an OID / int set
func (t *trans) cond(e ast.Expr) interface{} {
	if c, ok := t.constOf(e); ok && c.kind == "bool" {
		return T{"const", c.b}
	}
	switch x := e.(type) {
	case *ast.ParenExpr:
		return t.cond(x.X)
	case *ast.UnaryExpr:
		if x.Op == token.NOT {
			return T{"not", t.cond(x.X)}
		}
	case *ast.BinaryExpr:
		switch x.Op {
		case token.LAND:
			return T{"and", t.cond(x.X), t.cond(x.Y)}
		case token.LOR:
			return T{"or", t.cond(x.X), t.cond(x.Y)}
		}
		if cn := cmpName(x.Op); cn != "" {
			return t.compare(x, cn)
		}
	case *ast.Ident, *ast.SelectorExpr:
		// e.Critical on an extension value
		if sel, ok := x.(*ast.SelectorExpr); ok && sel.Sel.Name == "Critical" {
			func() {
				defer func() { recover() }()
			}()
			if v, ok := t.tryValue(sel.X); ok && v.kind == "ext" {
				return T{"crit", oidT(v.oid)}
			}
		}
		v := t.value(e.(ast.Expr))
		if v.kind == "cond" {
			return v.term
		}
		if v.kind == "path" && fieldKind(t.typeOf(e)) == "bool" {
			noteField(v.path, "bool")
			return T{"bool", v.path}
		}
		if v.kind == "bool" {
			return T{"const", v.b}
		}
	case *ast.CallExpr:
		return t.callCond(x)
	}
	unsupported("condition %s", exprString(e))
	return nil
}

func (t *trans) tryValue(e ast.Expr) (v val, ok bool) {
	defer func() {
		if r := recover(); r != nil {
			if _, is := r.(*trErr); is {
				ok = false
				return
			}
			panic(r)
		}
	}()
	return t.value(e), true
}

func (t *trans) compare(x *ast.BinaryExpr, cn string) interface{} {
	// nil comparisons
	if isNilIdent(t, x.Y) || isNilIdent(t, x.X) {
		other := x.X
		if isNilIdent(t, x.X) {
			other = x.Y
		}
		if cn != "eq" && cn != "ne" {
			unsupported("nil ordering")
		}
		// parsed.User == nil
		if sel, ok := stripParen(other).(*ast.SelectorExpr); ok && sel.Sel.Name == "User" {
			if base, ok := t.tryValue(sel.X); ok && base.kind == "extobj" && base.checked != nil && *base.checked {
				p := wrapChain(base.of.chain, T{"pExt", externID(externPredNames, base.s+".User.nil")})
				if cn == "ne" {
					return T{"pNot", p}
				}
				return p
			}
		}
		v := t.value(other)
		var c interface{}
		switch v.kind {
		case "extnil":
			p, ok := t.strPredOn(*v.of, T{"pExt", externID(externPredNames, v.s+".nil")})
			if !ok {
				unsupported("nil test of %s", exprString(other))
			}
			if cn == "ne" {
				if pt := p.(T); strings.HasPrefix(pt[0].(string), "p") {
					return T{"pNot", p}
				}
				return T{"not", p}
			}
			return p
		case "exterr":
			p := wrapChain(v.of.chain, T{"pExt", externID(externPredNames, v.s+".err")})
			if cn == "eq" {
				return T{"pNot", p}
			}
			return p
		case "ext":
			c = T{"not", T{"ext", oidT(v.oid)}} // == nil
		case "path":
			if v.path == "" {
				c = T{"const", false} // the certificate handed to a lint is never nil
			} else {
				k := fieldKind(t.typeOf(other))
				if !strings.HasPrefix(k, "l") {
					unsupported("nil test of %s", exprString(other))
				}
				noteField(v.path, k)
				c = T{"isNil", v.path}
			}
		default:
			unsupported("nil test of %s", exprString(other))
		}
		if cn == "ne" {
			return T{"not", c}
		}
		return c
	}
	// len(strings.Split(s, ".")) OP const: at least one label; more than one iff s contains a '.'
	if c, ok := stripParen(x.X).(*ast.CallExpr); ok && len(c.Args) == 1 {
		if name, _ := t.calleeName(c); name == "builtin.len" {
			if lv, ok := t.tryValue(c.Args[0]); ok && lv.kind == "labels" && lv.s == "all" {
				k, ok := t.constOf(x.Y)
				if !ok || k.kind != "int" {
					unsupported("comparison %s", exprString(x))
				}
				hasDot, ok := t.strPredOn(*lv.of, T{"pContains", strT(".")})
				if !ok {
					unsupported("comparison %s", exprString(x))
				}
				neg := func(c interface{}) interface{} {
					if ct := c.(T); strings.HasPrefix(ct[0].(string), "p") {
						return T{"pNot", c}
					}
					return T{"not", c}
				}
				switch {
				case (cn == "ge" && k.i <= 1) || (cn == "gt" && k.i <= 0) || (cn == "ne" && k.i <= 0):
					return T{"const", true}
				case (cn == "lt" && k.i <= 1) || (cn == "le" && k.i <= 0) || (cn == "eq" && k.i <= 0):
					return T{"const", false}
				case (cn == "gt" && k.i == 1) || (cn == "ge" && k.i == 2) || (cn == "ne" && k.i == 1):
					return hasDot
				case (cn == "le" && k.i == 1) || (cn == "lt" && k.i == 2) || (cn == "eq" && k.i == 1):
					return neg(hasDot)
				}
				unsupported("comparison %s", exprString(x))
			}
		}
	}
	// len(list) OP const
	if p, ok := t.lenArg(x.X); ok {
		if k, ok := t.constOf(x.Y); ok && k.kind == "int" {
			return T{"len", p, cn, k.i}
		}
	}
	if p, ok := t.lenArg(x.Y); ok {
		if k, ok := t.constOf(x.X); ok && k.kind == "int" {
			return T{"len", p, flipCmp(cn), k.i}
		}
	}
	// (intfield & mask) ==/!= k
	if b, ok := stripParen(x.X).(*ast.BinaryExpr); ok && b.Op == token.AND && (cn == "eq" || cn == "ne") {
		if z, ok := t.tryValue(x.Y); ok && z.kind == "int" && z.i >= 0 {
			f, fok := t.tryValue(b.X)
			m, mok := t.tryValue(b.Y)
			if fok && mok && f.kind == "path" && m.kind == "int" && m.i >= 0 && isIntegerType(t.typeOf(b.X)) {
				noteField(f.path, "int")
				var c interface{}
				if z.i == 0 {
					c = T{"not", T{"mask", f.path, m.i}}
				} else {
					c = T{"maskEq", f.path, m.i, z.i}
				}
				if cn == "ne" {
					return T{"not", c}
				}
				return c
			}
		}
	}
	l, lok := t.tryValue(x.X)
	r, rok := t.tryValue(x.Y)
	if !lok || !rok {
		unsupported("comparison %s", exprString(x))
	}
	// x.Cmp(y) OP k  (k in -1, 0, 1)  ≡  x OP' y
	if r.kind == "bigcmp" && l.kind == "int" {
		l, r = r, l
		cn = flipCmp(cn)
	}
	if l.kind == "bigcmp" && r.kind == "int" {
		// sign(x - y) OP k
		var rel string
		switch {
		case r.i == 0:
			rel = cn
		case r.i == 1 && cn == "eq", r.i == 0 && cn == "gt", r.i == 1 && cn == "ge":
			rel = "gt"
		case r.i == -1 && cn == "eq", r.i == -1 && cn == "le":
			rel = "lt"
		case r.i == 1 && cn == "ne", r.i == 1 && cn == "lt":
			rel = "le"
		case r.i == -1 && cn == "ne", r.i == -1 && cn == "gt":
			rel = "ge"
		default:
			unsupported("comparison %s", exprString(x))
		}
		return T{"icmp", l.term, rel, r2t(l.term2)}
	}
	if l.kind == "iexp" || r.kind == "iexp" {
		lt, ok1 := t.iexpOf(l, x.X)
		rt, ok2 := t.iexpOf(r, x.Y)
		if ok1 && ok2 && (l.kind != "iexp" || l.s == "int") && (r.kind != "iexp" || r.s == "int") {
			return T{"icmp", lt, cn, rt}
		}
		unsupported("comparison %s", exprString(x))
	}
	if l.kind != "path" && l.kind != "elem" && (r.kind == "path" || r.kind == "elem") {
		l, r = r, l
		x = &ast.BinaryExpr{X: x.Y, Y: x.X, Op: x.Op}
		cn = flipCmp(cn)
	}
	if l.kind != "measure" && r.kind == "measure" {
		l, r = r, l
		cn = flipCmp(cn)
	}
	if l.kind == "measure" && r.kind == "int" {
		tag := map[string]string{"len": "pLen", "runes": "pRunes"}[l.s]
		p := T{tag, cn, r.i}
		if r, ok := t.strPredOn(*l.of, p); ok {
			return r
		}
		unsupported("comparison %s", exprString(x))
	}
	switch {
	case l.kind == "path" && r.kind == "int" && fieldKind(t.typeOf(x.X)) == "int":
		noteField(l.path, "int")
		return T{"int", l.path, cn, r.i}
	case l.kind == "path" && r.kind == "str" && fieldKind(t.typeOf(x.X)) == "str" && (cn == "eq" || cn == "ne"):
		noteField(l.path, "str")
		c := T{"strEq", l.path, strT(r.s)}
		if cn == "ne" {
			return T{"not", c}
		}
		return c
	case l.kind == "elem" && l.ek == "str" && r.kind == "str" && (cn == "eq" || cn == "ne"):
		c := wrapChain(l.chain, T{"pEq", strT(r.s)})
		if cn == "ne" {
			return T{"pNot", c}
		}
		return c
	case l.kind == "elem" && l.ek == "int" && r.kind == "int" && cn == "eq":
		return T{"eInt", r.i}
	case l.kind == "label" && r.kind == "str" && (cn == "eq" || cn == "ne"):
		if c, ok := t.strPredOn(l, T{"pEq", strT(r.s)}); ok {
			if cn == "ne" {
				if ct := c.(T); strings.HasPrefix(ct[0].(string), "p") {
					return T{"pNot", c}
				}
				return T{"not", c}
			}
			return c
		}
	}
	unsupported("comparison %s", exprString(x))
	return nil
}

func r2t(x interface{}) interface{} { return x }

func stripParen(e ast.Expr) ast.Expr {
	for {
		p, ok := e.(*ast.ParenExpr)
		if !ok {
			return e
		}
		e = p.X
	}
}

func (t *trans) callCond(c *ast.CallExpr) interface{} {
	name, obj := t.calleeName(c)
	switch name {
	case "strings.HasPrefix", "strings.HasSuffix", "strings.Contains":
		if len(c.Args) == 2 {
			a := t.value(c.Args[0])
			b := t.value(c.Args[1])
			if b.kind == "str" {
				if r, ok := t.strPredOn(a, T{map[string]string{"strings.HasPrefix": "pPrefix", "strings.HasSuffix": "pSuffix", "strings.Contains": "pContains"}[name], strT(b.s)}); ok {
					return r
				}
			}
		}
		unsupported("string predicate %s", exprString(c))
	}
	// external predicates on a string element (or a projection of it)
	if strings.HasPrefix(name, modPath+"/util.") && len(c.Args) == 1 && isStringType(t.typeOf(c.Args[0])) {
		short := "util." + name[len(modPath+"/util."):]
		for _, en := range externPredNames {
			if en == short {
				if a, ok := t.tryValue(c.Args[0]); ok && a.kind == "elem" && a.ek == "str" {
					return wrapChain(a.chain, T{"pExt", externID(externPredNames, short)})
				}
			}
		}
	}
	if name == modPath+"/util.PrimeNoSmallerThan752" && len(c.Args) == 1 {
		if a, ok := t.tryValue(c.Args[0]); ok && a.kind == "iexp" && a.s == "big" {
			return T{"primes752", a.term}
		}
	}
	if name == "method:(*net/url.URL).IsAbs" {
		if base, ok := t.tryValue(c.Fun.(*ast.SelectorExpr).X); ok && base.kind == "extobj" && base.checked != nil && *base.checked {
			return wrapChain(base.of.chain, T{"pExt", externID(externPredNames, base.s+".IsAbs")})
		}
	}
	// time comparisons
	if name == "method:(time.Time).Before" || name == "method:(time.Time).After" || name == "method:(time.Time).Equal" {
		op := strings.ToLower(name[len("method:(time.Time)."):])
		sel := c.Fun.(*ast.SelectorExpr)
		a := t.value(sel.X)
		b := t.value(c.Args[0])
		if a.kind == "time" && b.kind == "path" {
			a, b = b, a
			op = map[string]string{"before": "after", "after": "before", "equal": "equal"}[op]
		}
		if a.kind == "path" && a.path != "" {
			noteField(a.path, "time")
			switch b.kind {
			case "time":
				return T{"time", a.path, op, b.i, b.n}
			case "path":
				noteField(b.path, "time")
				return T{"time2", a.path, op, b.path}
			}
		}
		unsupported("time comparison %s", exprString(c))
	}
	// oid.Equal(other)
	if strings.HasPrefix(name, "method:") && strings.HasSuffix(name, "asn1.ObjectIdentifier).Equal") && len(c.Args) == 1 {
		sel := c.Fun.(*ast.SelectorExpr)
		a := t.value(sel.X)
		b := t.value(c.Args[0])
		if a.kind == "oid" && b.kind == "elem" {
			a, b = b, a
		}
		if a.kind == "elem" && a.ek == "oid" && b.kind == "oid" {
			return T{"eOid", oidT(b.oid)}
		}
		unsupported("oid comparison %s", exprString(c))
	}
	// module-local helper: inline
	if fn, ok := obj.(*types.Func); ok && fn.Pkg() != nil && strings.HasPrefix(fn.Pkg().Path(), modPath) {
		if sig := fn.Type().(*types.Signature); sig.Recv() == nil && sig.Results().Len() == 1 && isBoolType(sig.Results().At(0).Type()) {
			return t.inlineBool(fn, c)
		}
	}
	unsupported("call %s", exprString(c))
	return nil
}

func (t *trans) inlineBool(fn *types.Func, c *ast.CallExpr) interface{} {
	if t.depth > 6 {
		unsupported("inlining too deep at %s", fn.Name())
	}
	p := t.byPath[fn.Pkg().Path()]
	if p == nil {
		unsupported("package of %s not loaded", fn.FullName())
	}
	fd := findFunc(p, "", fn.Name())
	if fd == nil || fd.Body == nil {
		unsupported("no body for %s", fn.FullName())
	}
	ch := t.child(p)
	i := 0
	for _, fl := range fd.Type.Params.List {
		for _, n := range fl.Names {
			if i >= len(c.Args) {
				unsupported("arity of %s", fn.Name())
			}
			ch.env[p.TypesInfo.Defs[n]] = t.value(c.Args[i])
			i++
		}
	}
	s := ch.stmts(fd.Body.List, true)
	return condOfStmt(s)
}

// a statement tree whose leaves are boolean returns, as a condition
func condOfStmt(s interface{}) interface{} {
	n := s.(T)
	switch n[0] {
	case "retb":
		return T{"const", n[1]}
	case "ite":
		a, b := condOfStmt(n[2]), condOfStmt(n[3])
		ac, aok := a.(T)
		bc, bok := b.(T)
		if aok && bok && ac[0] == "const" && bc[0] == "const" {
			switch {
			case ac[1] == true && bc[1] == false:
				return n[1]
			case ac[1] == false && bc[1] == true:
				return T{"not", n[1]}
			case ac[1] == bc[1]:
				// the condition is still evaluated (it may panic): c && false / c || true keep that
				if ac[1] == true {
					return T{"or", n[1], T{"const", true}}
				}
				return T{"and", n[1], T{"const", false}}
			}
		}
		if aok && ac[0] == "const" && ac[1] == true {
			return T{"or", n[1], b}
		}
		if bok && bc[0] == "const" && bc[1] == false {
			return T{"and", n[1], a}
		}
		// (c && a) || (!c && b): c is evaluated once on every path that matters because conditions are deterministic
		return T{"or", T{"and", n[1], a}, T{"and", T{"not", n[1]}, b}}
	}
	unsupported("boolean function body")
	return nil
}

func definitelyReturns(list []ast.Stmt) bool {
	if len(list) == 0 {
		return false
	}
	switch s := list[len(list)-1].(type) {
	case *ast.ReturnStmt:
		return true
	case *ast.IfStmt:
		if s.Else == nil {
			return false
		}
		if !definitelyReturns(s.Body.List) {
			return false
		}
		switch e := s.Else.(type) {
		case *ast.BlockStmt:
			return definitelyReturns(e.List)
		case *ast.IfStmt:
			return definitelyReturns([]ast.Stmt{e})
		}
	case *ast.BlockStmt:
		return definitelyReturns(s.List)
	}
	return false
}

var statusConsts = map[string]int{"Reserved": 0, "NA": 1, "NE": 2, "Pass": 3, "Notice": 4, "Warn": 5, "Error": 6, "Fatal": 7}

// the status of a `&lint.LintResult{Status: lint.X, Details: …}` literal; Details must be panic-free by construction
func (t *trans) resultLit(e ast.Expr) (int, bool) {
	u, ok := e.(*ast.UnaryExpr)
	if !ok || u.Op != token.AND {
		return 0, false
	}
	cl, ok := u.X.(*ast.CompositeLit)
	if !ok || !strings.HasSuffix(exprString(cl.Type), "LintResult") {
		return 0, false
	}
	status := 0
	for _, el := range cl.Elts {
		kv, ok := el.(*ast.KeyValueExpr)
		if !ok {
			unsupported("positional LintResult literal")
		}
		switch exprString(kv.Key) {
		case "Status":
			c, ok := t.constOf(kv.Value)
			if !ok || c.kind != "int" {
				unsupported("non-constant status %s", exprString(kv.Value))
			}
			status = int(c.i)
		case "Details":
			t.harmless(kv.Value)
		default:
			unsupported("LintResult field %s", exprString(kv.Key))
		}
	}
	return status, true
}

// an expression that cannot panic and has no effect: constants, tracked values, fmt.Sprintf / string concatenation of those
func (t *trans) harmless(e ast.Expr) {
	if _, ok := t.constOf(e); ok {
		return
	}
	switch x := e.(type) {
	case *ast.ParenExpr:
		t.harmless(x.X)
		return
	case *ast.BinaryExpr:
		if x.Op == token.ADD {
			t.harmless(x.X)
			t.harmless(x.Y)
			return
		}
	case *ast.CallExpr:
		name, _ := t.calleeName(x)
		if name == "fmt.Sprintf" || name == "fmt.Sprint" {
			for _, a := range x.Args {
				t.harmless(a)
			}
			return
		}
		if name == "builtin.len" && len(x.Args) == 1 {
			t.harmless(x.Args[0])
			return
		}
	case *ast.Ident, *ast.SelectorExpr:
		v := t.value(e)
		if v.kind == "path" || v.kind == "elem" || v.kind == "oid" {
			return
		}
	}
	unsupported("details expression %s", exprString(e))
}

// translate a statement list; boolFn: the function returns bool (helper) rather than *LintResult
func (t *trans) stmts(list []ast.Stmt, boolFn bool) interface{} {
	if len(list) == 0 {
		unsupported("fall off the end")
	}
	rest := list[1:]
	switch s := list[0].(type) {
	case *ast.ReturnStmt:
		if len(s.Results) != 1 {
			unsupported("return arity")
		}
		if boolFn {
			return stmtOfCond(t.cond(s.Results[0]))
		}
		if st, ok := t.resultLit(s.Results[0]); ok {
			return T{"ret", st}
		}
		// return &out
		if u, ok := s.Results[0].(*ast.UnaryExpr); ok && u.Op == token.AND {
			if id, ok := u.X.(*ast.Ident); ok {
				if v, ok := t.env[t.p.TypesInfo.Uses[id]]; ok && v.kind == "out" {
					return T{"ret", int(v.i)}
				}
			}
		}
		unsupported("return %s", exprString(s.Results[0]))
	case *ast.IfStmt:
		saved := t.snapshot()
		if s.Init != nil {
			if g := t.bind(s.Init); g != nil {
				unsupported("unchecked type assertion in an if initialiser")
			}
		}
		c := t.cond(s.Cond)
		thenL := s.Body.List
		var th, el interface{}
		envAfterInit := t.snapshot()
		if definitelyReturns(thenL) {
			th = t.stmts(thenL, boolFn)
		} else {
			th = t.stmts(append(append([]ast.Stmt{}, thenL...), rest...), boolFn)
		}
		t.env = envAfterInit
		switch e := s.Else.(type) {
		case nil:
			t.env = saved
			el = t.stmts(rest, boolFn)
		case *ast.BlockStmt:
			if definitelyReturns(e.List) {
				el = t.stmts(e.List, boolFn)
			} else {
				el = t.stmts(append(append([]ast.Stmt{}, e.List...), rest...), boolFn)
			}
		case *ast.IfStmt:
			el = t.stmts(append([]ast.Stmt{e}, rest...), boolFn)
		}
		t.env = saved
		return T{"ite", c, th, el}
	case *ast.AssignStmt, *ast.DeclStmt:
		g := t.bind(s)
		r := t.stmts(rest, boolFn)
		if g != nil {
			if boolFn {
				unsupported("unchecked type assertion in a boolean function")
			}
			return T{"assertInt", g[1], g[2], r}
		}
		return r
	case *ast.RangeStmt:
		return t.rangeStmt(s, rest, boolFn)
	case *ast.BlockStmt:
		return t.stmts(append(append([]ast.Stmt{}, s.List...), rest...), boolFn)
	}
	unsupported("statement %T", list[0])
	return nil
}

func stmtOfCond(c interface{}) interface{} {
	if n, ok := c.(T); ok && n[0] == "const" {
		return T{"retb", n[1]}
	}
	return T{"ite", c, T{"retb", true}, T{"retb", false}}
}

func (t *trans) snapshot() map[types.Object]val {
	m := make(map[types.Object]val, len(t.env))
	for k, v := range t.env {
		m[k] = v
	}
	return m
}

// bindings: e := util.GetExtFromCert(c, OID) ; var out lint.LintResult ; out.Status = lint.X
func (t *trans) bind(s ast.Stmt) T {
	switch x := s.(type) {
	case *ast.DeclStmt:
		gd, ok := x.Decl.(*ast.GenDecl)
		if ok && gd.Tok == token.CONST {
			return nil // uses are resolved by the type checker's constant values
		}
		if !ok || gd.Tok != token.VAR {
			unsupported("declaration")
		}
		for _, sp := range gd.Specs {
			vs := sp.(*ast.ValueSpec)
			if len(vs.Values) != 0 || len(vs.Names) != 1 || !strings.HasSuffix(exprString(vs.Type), "LintResult") {
				unsupported("var declaration %s", vs.Names[0].Name)
			}
			t.env[t.p.TypesInfo.Defs[vs.Names[0]]] = val{kind: "out", i: 0}
		}
		return nil
	case *ast.AssignStmt:
		// key, ok := c.PublicKey.(*T)
		if ta, isTA := x.Rhs[0].(*ast.TypeAssertExpr); isTA && len(x.Lhs) == 2 && len(x.Rhs) == 1 && x.Tok == token.DEFINE {
			k, ok := t.keyAssert(ta)
			if !ok {
				unsupported("type assertion %s", exprString(ta))
			}
			if id, ok := x.Lhs[0].(*ast.Ident); ok && id.Name != "_" {
				t.env[t.p.TypesInfo.Defs[id]] = k
			}
			if id, ok := x.Lhs[1].(*ast.Ident); ok && id.Name != "_" {
				t.env[t.p.TypesInfo.Defs[id]] = val{kind: "cond", term: T{"int", keyTypeField, "eq", k.i}}
			}
			return nil
		}
		if len(x.Lhs) != 1 || len(x.Rhs) != 1 {
			unsupported("assignment arity: %s", exprString(x.Rhs[0]))
		}
		if x.Tok == token.DEFINE {
			id, ok := x.Lhs[0].(*ast.Ident)
			if !ok {
				unsupported("define target")
			}
			if ta, isTA := x.Rhs[0].(*ast.TypeAssertExpr); isTA {
				// key := c.PublicKey.(*T): panics unless the dynamic type is T
				k, ok := t.keyAssert(ta)
				if !ok {
					unsupported("type assertion %s", exprString(ta))
				}
				t.env[t.p.TypesInfo.Defs[id]] = k
				return T{"assertInt", keyTypeField, k.i}
			}
			v := t.value(x.Rhs[0])
			if v.kind == "elem" {
				unsupported("alias of a loop variable")
			}
			if v.kind == "bigcmp" {
				unsupported("alias of a comparison result")
			}
			if v.kind == "path" && v.path != "" {
				if k := fieldKind(t.typeOf(x.Rhs[0])); k == "" {
					unsupported("alias of %s", exprString(x.Rhs[0]))
				}
			}
			t.env[t.p.TypesInfo.Defs[id]] = v
			return nil
		}
		if x.Tok == token.ASSIGN {
			if id, ok := x.Lhs[0].(*ast.Ident); ok {
				obj := t.p.TypesInfo.Uses[id]
				if old, ok := t.env[obj]; ok && old.kind == "labels" {
					if nv, ok := t.tryValue(x.Rhs[0]); ok && nv.kind == "labels" {
						t.env[obj] = nv
						return nil
					}
				}
			}
			if sel, ok := x.Lhs[0].(*ast.SelectorExpr); ok && sel.Sel.Name == "Status" {
				if id, ok := sel.X.(*ast.Ident); ok {
					obj := t.p.TypesInfo.Uses[id]
					if v, ok := t.env[obj]; ok && v.kind == "out" {
						c, ok := t.constOf(x.Rhs[0])
						if !ok || c.kind != "int" {
							unsupported("non-constant status")
						}
						t.env[obj] = val{kind: "out", i: c.i}
						return nil
					}
				}
			}
		}
	}
	unsupported("statement %s", fmt.Sprintf("%T", s))
	return nil
}

// for _, x := range LIST { if P(x) { return R } }  rest   ⇒   if any(LIST, P) { R } else { rest }
func (t *trans) rangeStmt(s *ast.RangeStmt, rest []ast.Stmt, boolFn bool) interface{} {
	if s.Tok != token.DEFINE || s.Value == nil {
		unsupported("range form")
	}
	if k, ok := s.Key.(*ast.Ident); !ok || k.Name != "_" {
		unsupported("range key used")
	}
	lk := fieldKind(t.typeOf(s.X))
	lv := t.value(s.X)
	if lv.kind == "labels" {
		// for _, label := range strings.Split(x, ".")[…] { if P(label) { return R } }  ⇒  if <some label of x satisfies P> { R } else { rest }
		saved := t.snapshot()
		t.env[t.p.TypesInfo.Defs[s.Value.(*ast.Ident)]] = val{kind: "elem", path: "#labels", ek: "str"}
		lc := &loopCtx{boolFn: boolFn}
		p := simplifyP(t.walkLoop(s.Body.List, lc))
		t.env = saved
		restT := t.stmts(rest, boolFn)
		pt := p.(T)
		if pt[0] == "pFalse" || lc.result == nil {
			return restT
		}
		if pt[0] == "pTrue" {
			unsupported("label loop that returns unconditionally")
		}
		c, ok := t.strPredOn(*lv.of, T{map[string]string{"all": "pAnyLabel", "rest": "pRestLabels"}[lv.s], p})
		if !ok {
			unsupported("range over %s", exprString(s.X))
		}
		return T{"ite", c, lc.result, restT}
	}
	if lv.kind != "path" {
		unsupported("range over %s", exprString(s.X))
	}
	// range over name.Names projecting .Type is handled by a path suffix
	ek := map[string]string{"lstr": "str", "loid": "oid", "lint": "int"}[lk]
	path := lv.path
	vid := s.Value.(*ast.Ident)
	saved := t.snapshot()
	defer func() { t.env = saved }()
	if ek == "" {
		// []pkix.AttributeTypeAndValue: only the .Type projection is supported
		if strings.HasSuffix(t.typeOf(s.X).String(), "pkix.AttributeTypeAndValue") {
			path = lv.path + "#Type"
			lk, ek = "loid", "oidstruct"
		} else {
			unsupported("range over %s (%s)", exprString(s.X), lk)
		}
	}
	noteField(path, lk)
	if ek == "oidstruct" {
		t.env[t.p.TypesInfo.Defs[vid]] = val{kind: "elemstruct", path: path}
	} else {
		t.env[t.p.TypesInfo.Defs[vid]] = val{kind: "elem", path: path, ek: ek}
	}
	if ek == "str" {
		lc := &loopCtx{boolFn: boolFn}
		p := simplifyP(t.walkLoop(s.Body.List, lc))
		t.env = saved
		restT := t.stmts(rest, boolFn)
		pt := p.(T)
		switch {
		case pt[0] == "pFalse" || lc.result == nil:
			return restT
		case pt[0] == "pTrue":
			return T{"ite", T{"len", path, "gt", 0}, lc.result, restT}
		}
		return T{"ite", T{"anyS", path, p}, lc.result, restT}
	}
	// body: one or more `if P { return R }` with the same R
	var preds []interface{}
	var result interface{}
	for _, b := range s.Body.List {
		if as, ok := b.(*ast.AssignStmt); ok && as.Tok == token.DEFINE && len(preds) == 0 {
			t.bindMeasure(as)
			continue
		}
		is, ok := b.(*ast.IfStmt)
		if !ok || is.Else != nil || len(is.Body.List) != 1 {
			unsupported("loop body shape")
		}
		var mapPred interface{}
		if is.Init != nil {
			mp, ok := t.mapLookupPred(is, ek)
			if !ok {
				unsupported("loop body shape")
			}
			mapPred = mp
		}
		r := t.stmts(is.Body.List, boolFn)
		rt := r.(T)
		if rt[0] != "ret" && rt[0] != "retb" {
			unsupported("loop body result")
		}
		if result != nil && fmt.Sprint(result) != fmt.Sprint(r) {
			unsupported("loop returns different results (order-dependent)")
		}
		result = r
		if mapPred != nil {
			preds = append(preds, mapPred)
		} else {
			preds = append(preds, t.elemPred(is.Cond, ek))
		}
	}
	if len(preds) == 0 {
		unsupported("empty loop")
	}
	p := preds[0]
	for _, q := range preds[1:] {
		p = orPred(p, q, ek)
	}
	var c interface{}
	switch ek {
	case "str":
		c = T{"anyS", path, p}
	case "oid", "oidstruct":
		c = T{"anyO", path, p}
	case "int":
		c = T{"anyI", path, p}
	}
	t.env = saved
	return T{"ite", c, result, t.stmts(rest, boolFn)}
}

// characters := utf8.RuneCountInString(x) inside a loop body
func (t *trans) bindMeasure(as *ast.AssignStmt) {
	if len(as.Lhs) != 1 || len(as.Rhs) != 1 {
		unsupported("loop body shape")
	}
	id, ok := as.Lhs[0].(*ast.Ident)
	if !ok {
		unsupported("loop body shape")
	}
	v := t.value(as.Rhs[0])
	if v.kind != "measure" {
		unsupported("loop body shape")
	}
	t.env[t.p.TypesInfo.Defs[id]] = v
}

// if _, ok := M[elem.String()]; ok { … }  with M a package-level map literal keyed by dotted OID strings
func (t *trans) mapLookupPred(is *ast.IfStmt, ek string) (interface{}, bool) {
	if ek != "oid" {
		return nil, false
	}
	as, ok := is.Init.(*ast.AssignStmt)
	if !ok || as.Tok != token.DEFINE || len(as.Lhs) != 2 || len(as.Rhs) != 1 {
		return nil, false
	}
	okId, ok1 := as.Lhs[1].(*ast.Ident)
	blank, ok2 := as.Lhs[0].(*ast.Ident)
	cid, ok3 := is.Cond.(*ast.Ident)
	if !ok1 || !ok2 || !ok3 || blank.Name != "_" || t.p.TypesInfo.Uses[cid] != t.p.TypesInfo.Defs[okId] {
		return nil, false
	}
	ix, ok := as.Rhs[0].(*ast.IndexExpr)
	if !ok {
		return nil, false
	}
	// index: elem.String()
	call, ok := ix.Index.(*ast.CallExpr)
	if !ok || len(call.Args) != 0 {
		return nil, false
	}
	sel, ok := call.Fun.(*ast.SelectorExpr)
	if !ok || sel.Sel.Name != "String" {
		return nil, false
	}
	if v, ok := t.tryValue(sel.X); !ok || v.kind != "elem" || v.ek != "oid" {
		return nil, false
	}
	mid, ok := ix.X.(*ast.Ident)
	if !ok {
		return nil, false
	}
	mv, ok := t.p.TypesInfo.Uses[mid].(*types.Var)
	if !ok || mv.Pkg() == nil || mv.Parent() != mv.Pkg().Scope() {
		return nil, false
	}
	p := t.byPath[mv.Pkg().Path()]
	cl, ok := findVar(p, mv.Name()).(*ast.CompositeLit)
	if !ok {
		return nil, false
	}
	out := T{}
	for _, el := range cl.Elts {
		kv, ok := el.(*ast.KeyValueExpr)
		if !ok {
			return nil, false
		}
		ks, ok := constStr(p, kv.Key)
		if !ok {
			return nil, false
		}
		var arcs []int
		for _, a := range strings.Split(ks, ".") {
			n := 0
			if a == "" {
				return nil, false
			}
			for _, ch := range a {
				if ch < '0' || ch > '9' {
					return nil, false
				}
				n = n*10 + int(ch-'0')
			}
			arcs = append(arcs, n)
		}
		out = append(out, oidT(arcs))
	}
	return out, true
}

// ---- the body of a loop over a string list, as a predicate on the element: "this iteration returns"
//
// Every return in the body must return the same result (otherwise which one is reported depends on the order of the
// list and the loop is not an `any`); `continue` ends the iteration; bindings of external parses are tracked, and
// the parse result may only be used once its error was tested and the failing branch left.

type loopCtx struct {
	result interface{}
	boolFn bool
}

func terminatesIter(list []ast.Stmt) bool {
	if len(list) == 0 {
		return false
	}
	switch s := list[len(list)-1].(type) {
	case *ast.ReturnStmt:
		return true
	case *ast.BranchStmt:
		return s.Tok == token.CONTINUE && s.Label == nil
	case *ast.IfStmt:
		if s.Else == nil || !terminatesIter(s.Body.List) {
			return false
		}
		switch e := s.Else.(type) {
		case *ast.BlockStmt:
			return terminatesIter(e.List)
		case *ast.IfStmt:
			return terminatesIter([]ast.Stmt{e})
		}
	}
	return false
}

func simplifyP(p interface{}) interface{} {
	n, ok := p.(T)
	if !ok || len(n) == 0 {
		return p
	}
	switch n[0] {
	case "pAnd":
		a, b := simplifyP(n[1]).(T), simplifyP(n[2]).(T)
		switch {
		case a[0] == "pFalse" || b[0] == "pFalse":
			return T{"pFalse"}
		case a[0] == "pTrue":
			return b
		case b[0] == "pTrue":
			return a
		}
		return T{"pAnd", a, b}
	case "pOr":
		a, b := simplifyP(n[1]).(T), simplifyP(n[2]).(T)
		switch {
		case a[0] == "pTrue" || b[0] == "pTrue":
			return T{"pTrue"}
		case a[0] == "pFalse":
			return b
		case b[0] == "pFalse":
			return a
		}
		return T{"pOr", a, b}
	case "pNot":
		a := simplifyP(n[1]).(T)
		switch a[0] {
		case "pTrue":
			return T{"pFalse"}
		case "pFalse":
			return T{"pTrue"}
		case "pNot":
			return a[1]
		}
		return T{"pNot", a}
	}
	return p
}

func (t *trans) walkLoop(list []ast.Stmt, lc *loopCtx) interface{} {
	if len(list) == 0 {
		return T{"pFalse"}
	}
	rest := list[1:]
	switch s := list[0].(type) {
	case *ast.ReturnStmt:
		r := t.stmts([]ast.Stmt{s}, lc.boolFn)
		rt := r.(T)
		if rt[0] != "ret" && rt[0] != "retb" {
			unsupported("loop body result")
		}
		if lc.result != nil && fmt.Sprint(lc.result) != fmt.Sprint(r) {
			unsupported("loop returns different results (order-dependent)")
		}
		lc.result = r
		return T{"pTrue"}
	case *ast.BranchStmt:
		if s.Tok == token.CONTINUE && s.Label == nil {
			return T{"pFalse"}
		}
		unsupported("loop body: %s", s.Tok)
	case *ast.AssignStmt:
		t.bindLoop(s)
		return t.walkLoop(rest, lc)
	case *ast.BlockStmt:
		return t.walkLoop(append(append([]ast.Stmt{}, s.List...), rest...), lc)
	case *ast.ForStmt, *ast.RangeStmt:
		// a scan of the octets of the string element: for i := K; i < len(x); i++ { if x[i] OP c { … } }, or
		// for _, r := range x { if r > unicode.MaxASCII { … } } (a rune above 127 is decoded exactly when an octet above 127 occurs)
		bp, inner := t.byteScan(list[0])
		th := t.walkLoop(inner, lc)
		el := t.walkLoop(rest, lc)
		return T{"pOr", T{"pAnd", bp, th}, T{"pAnd", T{"pNot", bp}, el}}
	case *ast.IfStmt:
		saved := t.snapshot()
		if s.Init != nil {
			as, ok := s.Init.(*ast.AssignStmt)
			if !ok {
				unsupported("loop body shape")
			}
			t.bindLoop(as)
		}
		c := t.condP(s.Cond)
		// `if err != nil { …leave }`: from here on the parse result may be used
		var marks []*bool
		if terminatesIter(s.Body.List) {
			marks = t.errTested(s.Cond)
		}
		afterInit := t.snapshot()
		thenL := s.Body.List
		if !terminatesIter(thenL) {
			thenL = append(append([]ast.Stmt{}, thenL...), rest...)
		}
		th := t.walkLoop(thenL, lc)
		t.env = afterInit
		for _, m := range marks {
			*m = true
		}
		var el interface{}
		switch e := s.Else.(type) {
		case nil:
			el = t.walkLoop(rest, lc)
		case *ast.BlockStmt:
			l := e.List
			if !terminatesIter(l) {
				l = append(append([]ast.Stmt{}, l...), rest...)
			}
			el = t.walkLoop(l, lc)
		case *ast.IfStmt:
			el = t.walkLoop(append([]ast.Stmt{e}, rest...), lc)
		}
		for _, m := range marks {
			*m = false
		}
		t.env = saved
		return T{"pOr", T{"pAnd", c, th}, T{"pAnd", T{"pNot", c}, el}}
	}
	unsupported("loop body shape")
	return nil
}

// byteScan recognises the two octet-scanning loop shapes over a string value and returns the element predicate "some octet
// from index K on satisfies OP c" together with the statements executed at the first such octet
func (t *trans) byteScan(st ast.Stmt) (interface{}, []ast.Stmt) {
	oneIf := func(body *ast.BlockStmt) *ast.IfStmt {
		if body == nil || len(body.List) != 1 {
			unsupported("loop body shape")
		}
		is, ok := body.List[0].(*ast.IfStmt)
		if !ok || is.Init != nil || is.Else != nil || !terminatesIter(is.Body.List) {
			unsupported("loop body shape")
		}
		return is
	}
	strVal := func(e ast.Expr) val {
		v, ok := t.tryValue(e)
		if !ok || !isStringType(t.typeOf(e)) || !((v.kind == "elem" && v.ek == "str") || (v.kind == "path" && v.path != "")) {
			unsupported("loop body shape")
		}
		return v
	}
	wrap := func(v val, p interface{}) interface{} {
		r, ok := t.strPredOn(v, p)
		if !ok {
			unsupported("loop body shape")
		}
		if rt := r.(T); !strings.HasPrefix(rt[0].(string), "p") {
			unsupported("octet scan of a field inside an element loop")
		}
		return r
	}
	switch s := st.(type) {
	case *ast.RangeStmt:
		if s.Tok != token.DEFINE || s.Value == nil {
			unsupported("loop body shape")
		}
		if k, ok := s.Key.(*ast.Ident); !ok || k.Name != "_" {
			unsupported("loop body shape")
		}
		x := strVal(s.X)
		is := oneIf(s.Body)
		b, ok := stripParen(is.Cond).(*ast.BinaryExpr)
		if !ok || b.Op != token.GTR {
			unsupported("loop body shape")
		}
		if id, ok := stripParen(b.X).(*ast.Ident); !ok || t.p.TypesInfo.Uses[id] != t.p.TypesInfo.Defs[s.Value.(*ast.Ident)] {
			unsupported("loop body shape")
		}
		if k, ok := t.constOf(b.Y); !ok || k.kind != "int" || k.i != 127 {
			unsupported("rune comparison %s", exprString(is.Cond))
		}
		return wrap(x, T{"pAnyByte", 0, "gt", 127}), is.Body.List
	case *ast.ForStmt:
		init, ok := s.Init.(*ast.AssignStmt)
		if !ok || init.Tok != token.DEFINE || len(init.Lhs) != 1 || len(init.Rhs) != 1 {
			unsupported("loop body shape")
		}
		iv, ok := init.Lhs[0].(*ast.Ident)
		k, kok := t.constOf(init.Rhs[0])
		if !ok || !kok || k.kind != "int" || k.i < 0 {
			unsupported("loop body shape")
		}
		iobj := t.p.TypesInfo.Defs[iv]
		isI := func(e ast.Expr) bool {
			id, ok := stripParen(e).(*ast.Ident)
			return ok && t.p.TypesInfo.Uses[id] == iobj
		}
		c, ok := s.Cond.(*ast.BinaryExpr)
		if !ok || c.Op != token.LSS || !isI(c.X) {
			unsupported("loop body shape")
		}
		lc, ok := c.Y.(*ast.CallExpr)
		if !ok || len(lc.Args) != 1 {
			unsupported("loop body shape")
		}
		if name, _ := t.calleeName(lc); name != "builtin.len" {
			unsupported("loop body shape")
		}
		x := strVal(lc.Args[0])
		if inc, ok := s.Post.(*ast.IncDecStmt); !ok || inc.Tok != token.INC || !isI(inc.X) {
			unsupported("loop body shape")
		}
		is := oneIf(s.Body)
		b, ok := stripParen(is.Cond).(*ast.BinaryExpr)
		if !ok || cmpName(b.Op) == "" {
			unsupported("loop body shape")
		}
		ix, ok := stripParen(b.X).(*ast.IndexExpr)
		if !ok || !isI(ix.Index) || exprString(ix.X) != exprString(lc.Args[0]) {
			unsupported("loop body shape")
		}
		bc, ok := t.constOf(b.Y)
		if !ok || bc.kind != "int" || bc.i < 0 || bc.i > 255 {
			unsupported("loop body shape")
		}
		return wrap(x, T{"pAnyByte", k.i, cmpName(b.Op), bc.i}), is.Body.List
	}
	unsupported("loop body shape")
	return nil, nil
}

// a condition inside a string loop, as an element predicate
func (t *trans) condP(e ast.Expr) interface{} {
	e = stripParen(e)
	switch x := e.(type) {
	case *ast.UnaryExpr:
		if x.Op == token.NOT {
			return T{"pNot", t.condP(x.X)}
		}
	case *ast.BinaryExpr:
		if x.Op == token.LAND {
			return T{"pAnd", t.condP(x.X), t.condP(x.Y)}
		}
		if x.Op == token.LOR {
			return T{"pOr", t.condP(x.X), t.condP(x.Y)}
		}
	}
	c, ok := t.cond(e).(T)
	if !ok || len(c) == 0 {
		unsupported("element predicate %s", exprString(e))
	}
	if tag, _ := c[0].(string); !strings.HasPrefix(tag, "p") {
		if l, ok := liftP(c); ok {
			return l
		}
		unsupported("condition %s inside a loop does not speak about the element", exprString(e))
	}
	return c
}

// the extobj marks that `cond` (of the shape err != nil, possibly a disjunct) guards
func (t *trans) errTested(cond ast.Expr) []*bool {
	b, ok := stripParen(cond).(*ast.BinaryExpr)
	if !ok || b.Op != token.NEQ || !isNilIdent(t, b.Y) {
		return nil
	}
	v, ok := t.tryValue(b.X)
	if !ok || v.kind != "exterr" || v.checked == nil {
		return nil
	}
	return []*bool{v.checked}
}

// bindings inside a loop body
func (t *trans) bindLoop(as *ast.AssignStmt) {
	// x = strings.ToLower(x) on the loop variable
	if as.Tok == token.ASSIGN && len(as.Lhs) == 1 && len(as.Rhs) == 1 {
		if id, ok := as.Lhs[0].(*ast.Ident); ok {
			obj := t.p.TypesInfo.Uses[id]
			if old, ok := t.env[obj]; ok && old.kind == "elem" && old.ek == "str" {
				nv := t.value(as.Rhs[0])
				if nv.kind == "elem" && nv.ek == "str" && nv.path == old.path {
					t.env[obj] = nv
					return
				}
			}
		}
		unsupported("assignment in a loop body")
	}
	if as.Tok != token.DEFINE {
		unsupported("assignment in a loop body")
	}
	if len(as.Lhs) == 2 && len(as.Rhs) == 1 {
		call, ok := as.Rhs[0].(*ast.CallExpr)
		if !ok || len(call.Args) != 1 {
			unsupported("loop body shape")
		}
		name, _ := t.calleeName(call)
		short := map[string]string{"net/url.Parse": "url.Parse", "net/mail.ParseAddress": "mail.ParseAddress"}[name]
		arg, aok := t.tryValue(call.Args[0])
		if short == "" || !aok || arg.kind != "elem" || arg.ek != "str" {
			unsupported("loop body: %s", exprString(call))
		}
		externID(externPredNames, short+".err")
		checked := new(bool)
		a := arg
		if id, ok := as.Lhs[0].(*ast.Ident); ok && id.Name != "_" {
			t.env[t.p.TypesInfo.Defs[id]] = val{kind: "extobj", s: short, of: &a, checked: checked}
		}
		if id, ok := as.Lhs[1].(*ast.Ident); ok && id.Name != "_" {
			t.env[t.p.TypesInfo.Defs[id]] = val{kind: "exterr", s: short, of: &a, checked: checked}
		}
		return
	}
	if len(as.Lhs) == 1 && len(as.Rhs) == 1 {
		id, ok := as.Lhs[0].(*ast.Ident)
		if !ok {
			unsupported("loop body shape")
		}
		v := t.value(as.Rhs[0])
		if v.kind == "cond" {
			l, ok := liftP(v.term)
			if !ok {
				unsupported("loop body: binding of %s", exprString(as.Rhs[0]))
			}
			v.term = l
		} else if v.kind != "measure" && !(v.kind == "elem" && v.ek == "str") && v.kind != "labels" && v.kind != "label" {
			unsupported("loop body: binding of %s", exprString(as.Rhs[0]))
		}
		t.env[t.p.TypesInfo.Defs[id]] = v
		return
	}
	unsupported("loop body shape")
}

func orPred(p, q interface{}, ek string) interface{} {
	if ek == "str" {
		return T{"pOr", p, q}
	}
	return append(append(T{}, p.(T)...), q.(T)...)
}

// predicate on the loop element. str: an SPred term; oid / int: a list of accepted values
func (t *trans) elemPred(e ast.Expr, ek string) interface{} {
	e = stripParen(e)
	if ek == "str" {
		switch x := e.(type) {
		case *ast.UnaryExpr:
			if x.Op == token.NOT {
				return T{"pNot", t.elemPred(x.X, ek)}
			}
		case *ast.BinaryExpr:
			if x.Op == token.LAND {
				return T{"pAnd", t.elemPred(x.X, ek), t.elemPred(x.Y, ek)}
			}
			if x.Op == token.LOR {
				return T{"pOr", t.elemPred(x.X, ek), t.elemPred(x.Y, ek)}
			}
		}
		c := t.cond(e).(T)
		if !strings.HasPrefix(c[0].(string), "p") {
			unsupported("element predicate %s", exprString(e))
		}
		return c
	}
	// oid / int: disjunction of equalities
	if b, ok := e.(*ast.BinaryExpr); ok && b.Op == token.LOR {
		return append(append(T{}, t.elemPred(b.X, ek).(T)...), t.elemPred(b.Y, ek).(T)...)
	}
	if ek == "oidstruct" {
		// oid.Equal(v.Type) / v.Type.Equal(oid)
		if c, ok := e.(*ast.CallExpr); ok && len(c.Args) == 1 {
			if sel, ok := c.Fun.(*ast.SelectorExpr); ok && sel.Sel.Name == "Equal" {
				for _, pair := range [][2]ast.Expr{{sel.X, c.Args[0]}, {c.Args[0], sel.X}} {
					if ts, ok := stripParen(pair[0]).(*ast.SelectorExpr); ok && ts.Sel.Name == "Type" {
						if id, ok := ts.X.(*ast.Ident); ok {
							if v, ok := t.env[t.p.TypesInfo.Uses[id]]; ok && v.kind == "elemstruct" {
								o := t.value(pair[1])
								if o.kind == "oid" {
									return T{oidT(o.oid)}
								}
							}
						}
					}
				}
			}
		}
		unsupported("element predicate %s", exprString(e))
	}
	c := t.cond(e).(T)
	switch c[0] {
	case "eOid", "eInt":
		return T{c[1]}
	}
	unsupported("element predicate %s", exprString(e))
	return nil
}

func collectFields(term interface{}, into map[string]bool) {
	n, ok := term.(T)
	if !ok || len(n) == 0 {
		return
	}
	if tag, ok := n[0].(string); ok {
		switch tag {
		case "bool", "int", "mask", "strEq", "isNil", "len", "anyS", "anyO", "anyI", "strP", "maskEq", "time", "fld", "assertInt":
			into[n[1].(string)] = true
		case "kfld":
			into[n[1].(string)] = true
			into[n[2].(string)] = true
		case "time2":
			into[n[1].(string)] = true
			into[n[3].(string)] = true
		}
	}
	for _, c := range n {
		collectFields(c, into)
	}
}

func translateBodies(pkgs []*packages.Package, byPath map[string]*packages.Package) {
	var out []BodyFact
	reasons := map[string]string{}
	for _, r := range facts.Registrations {
		if r.Kind != "cert" {
			continue
		}
		p := byPath[r.Pkg]
		if p == nil {
			continue
		}
		tyName := r.ImplType[strings.LastIndex(r.ImplType, ".")+1:]
		one := func(method string, boolFn bool) (term interface{}, err error) {
			defer func() {
				if rec := recover(); rec != nil {
					if te, ok := rec.(*trErr); ok {
						err = te
						return
					}
					panic(rec)
				}
			}()
			fd := findFunc(p, tyName, method)
			if fd == nil || fd.Body == nil {
				unsupported("no %s", method)
			}
			t := &trans{p: p, env: map[types.Object]val{}, byPath: byPath, poison: map[types.Object]bool{}}
			if len(fd.Type.Params.List) != 1 || len(fd.Type.Params.List[0].Names) != 1 {
				unsupported("parameters of %s", method)
			}
			if ty := p.TypesInfo.TypeOf(fd.Type.Params.List[0].Type); ty == nil || ty.String() != certType {
				unsupported("parameter type")
			}
			t.env[p.TypesInfo.Defs[fd.Type.Params.List[0].Names[0]]] = val{kind: "path", path: ""}
			// the receiver must not be used (state, configuration)
			if fd.Recv != nil && len(fd.Recv.List[0].Names) == 1 {
				recv := p.TypesInfo.Defs[fd.Recv.List[0].Names[0]]
				used := false
				ast.Inspect(fd.Body, func(n ast.Node) bool {
					if id, ok := n.(*ast.Ident); ok && recv != nil && p.TypesInfo.Uses[id] == recv {
						used = true
					}
					return true
				})
				if used {
					unsupported("receiver used")
				}
			}
			return t.stmts(fd.Body.List, boolFn), nil
		}
		saveFields := map[string]string{}
		for k, v := range bodyFields {
			saveFields[k] = v
		}
		a, err := one("CheckApplies", true)
		var b interface{}
		if err == nil {
			b, err = one("Execute", false)
		}
		if err != nil {
			bodyFields = saveFields
			reasons[r.Name] = err.Error()
			continue
		}
		out = append(out, BodyFact{Name: r.Name, Applies: condOfStmt(a), Body: b})
	}
	sort.Slice(out, func(i, j int) bool { return out[i].Name < out[j].Name })
	// the exported predicates of package util on a certificate (func X(c *x509.Certificate) bool), each translated on its
	// own: the framework's scope gate and many lints are written in terms of them
	type utilPred struct {
		Name string      `json:"name"`
		Cond interface{} `json:"cond"`
	}
	var ups []utilPred
	upReasons := map[string]string{}
	if up := byPath[modPath+"/util"]; up != nil {
		for _, f := range up.Syntax {
			for _, d := range f.Decls {
				fd, ok := d.(*ast.FuncDecl)
				if !ok || fd.Recv != nil || fd.Body == nil || !fd.Name.IsExported() || fd.Type.Results == nil || len(fd.Type.Results.List) != 1 {
					continue
				}
				if len(fd.Type.Params.List) != 1 || len(fd.Type.Params.List[0].Names) != 1 {
					continue
				}
				if ty := up.TypesInfo.TypeOf(fd.Type.Params.List[0].Type); ty == nil || ty.String() != certType {
					continue
				}
				if rt := up.TypesInfo.TypeOf(fd.Type.Results.List[0].Type); !isBoolType(rt) {
					continue
				}
				saveFields := map[string]string{}
				for k, v := range bodyFields {
					saveFields[k] = v
				}
				func() {
					defer func() {
						if rec := recover(); rec != nil {
							if te, ok := rec.(*trErr); ok {
								bodyFields = saveFields
								upReasons[fd.Name.Name] = te.Error()
								return
							}
							panic(rec)
						}
					}()
					t := &trans{p: up, env: map[types.Object]val{}, byPath: byPath, poison: map[types.Object]bool{}}
					t.env[up.TypesInfo.Defs[fd.Type.Params.List[0].Names[0]]] = val{kind: "path", path: ""}
					c := condOfStmt(t.stmts(fd.Body.List, true))
					ups = append(ups, utilPred{fd.Name.Name, c})
				}()
			}
		}
	}
	sort.Slice(ups, func(i, j int) bool { return ups[i].Name < ups[j].Name })
	facts.Tables["util_preds"] = ups
	facts.Tables["util_preds_untranslated"] = upReasons
	// keep only fields that translated lints use
	used := map[string]bool{}
	for _, b := range out {
		collectFields(b.Applies, used)
		collectFields(b.Body, used)
	}
	for _, u := range ups {
		collectFields(u.Cond, used)
	}
	fields := map[string]string{}
	for k := range used {
		fields[k] = bodyFields[k]
	}
	facts.Tables["bodies"] = out
	facts.Tables["body_fields"] = fields
	facts.Tables["body_untranslated"] = reasons
	// string fields on whose values some rule applies an external function
	extPaths := map[string]bool{}
	var hasExt func(term interface{}) bool
	hasExt = func(term interface{}) bool {
		n, ok := term.(T)
		if !ok || len(n) == 0 {
			return false
		}
		if tag, _ := n[0].(string); tag == "pExt" || tag == "pProj" {
			return true
		}
		for _, c := range n {
			if hasExt(c) {
				return true
			}
		}
		return false
	}
	var scan func(term interface{})
	scan = func(term interface{}) {
		n, ok := term.(T)
		if !ok || len(n) == 0 {
			return
		}
		if tag, _ := n[0].(string); (tag == "anyS" || tag == "strP") && hasExt(n[2]) {
			extPaths[n[1].(string)] = true
		}
		for _, c := range n {
			scan(c)
		}
	}
	for _, b := range out {
		scan(b.Applies)
		scan(b.Body)
	}
	var extPathList []string
	for k := range extPaths {
		extPathList = append(extPathList, k)
	}
	sort.Strings(extPathList)
	facts.Tables["body_extern_paths"] = extPathList
	facts.Tables["body_extern_fns"] = externFnNames
	facts.Tables["body_extern_preds"] = externPredNames
	facts.Stats["bodies_translated"] = len(out)
}
