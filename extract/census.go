package main

import (
	"go/ast"
	"go/constant"
	"go/token"
	"go/types"
	"os"
	"path/filepath"
	"sort"
	"strconv"
	"strings"

	"golang.org/x/tools/go/packages"
)

var regAPIs = map[string]string{
	"RegisterLint":               "cert",
	"RegisterCertificateLint":    "cert",
	"RegisterRevocationListLint": "crl",
	"RegisterOcspResponseLint":   "ocsp",
}

// census walks every non-test file of every package below v3/lints (and
// v3/profiles for profiles) and records each registration call.
func census(pkgs []*packages.Package) {
	for _, p := range pkgs {
		if !strings.HasPrefix(p.PkgPath, modPath+"/lints/") {
			continue
		}
		// lint types: named types with both CheckApplies and Execute
		scope := p.Types.Scope()
		for _, n := range scope.Names() {
			tn, ok := scope.Lookup(n).(*types.TypeName)
			if !ok {
				continue
			}
			ms := types.NewMethodSet(types.NewPointer(tn.Type()))
			if ms.Lookup(p.Types, "CheckApplies") != nil && ms.Lookup(p.Types, "Execute") != nil {
				if _, isIface := tn.Type().Underlying().(*types.Interface); isIface {
					continue
				}
				facts.LintTypes = append(facts.LintTypes, LintType{Pkg: p.PkgPath, Type: n, File: rel(fset.Position(tn.Pos()).Filename)})
			}
		}
		for _, f := range p.Syntax {
			fname := fset.Position(f.Pos()).Filename
			for _, d := range f.Decls {
				fd, ok := d.(*ast.FuncDecl)
				if !ok || fd.Body == nil {
					continue
				}
				fn := fd.Name.Name
				if fd.Recv != nil {
					fn = "method:" + fn
				}
				ast.Inspect(fd.Body, func(n ast.Node) bool {
					call, ok := n.(*ast.CallExpr)
					if !ok {
						return true
					}
					sel, ok := call.Fun.(*ast.SelectorExpr)
					if !ok {
						return true
					}
					kind, isReg := regAPIs[sel.Sel.Name]
					if !isReg {
						return true
					}
					if obj := p.TypesInfo.Uses[sel.Sel]; obj == nil || obj.Pkg() == nil || obj.Pkg().Path() != modPath+"/lint" {
						return true
					}
					r := &Registration{File: rel(fname), Pkg: p.PkgPath, Func: fn, API: sel.Sel.Name, Kind: kind}
					parseRegistration(p, call, r)
					facts.Registrations = append(facts.Registrations, r)
					return true
				})
			}
		}
	}
	sort.Slice(facts.Registrations, func(i, j int) bool {
		a, b := facts.Registrations[i], facts.Registrations[j]
		if a.Name != b.Name {
			return a.Name < b.Name
		}
		return a.File < b.File
	})
	sort.Slice(facts.LintTypes, func(i, j int) bool {
		a, b := facts.LintTypes[i], facts.LintTypes[j]
		return a.Pkg+"."+a.Type < b.Pkg+"."+b.Type
	})
}

func parseRegistration(p *packages.Package, call *ast.CallExpr, r *Registration) {
	if len(call.Args) != 1 {
		errf("%s: registration with %d args", r.File, len(call.Args))
		return
	}
	arg := call.Args[0]
	if u, ok := arg.(*ast.UnaryExpr); ok && u.Op == token.AND {
		arg = u.X
	}
	cl, ok := arg.(*ast.CompositeLit)
	if !ok {
		errf("%s: registration argument is not a composite literal", r.File)
		r.StatusUnk = "non-literal registration"
		return
	}
	var walk func(cl *ast.CompositeLit)
	walk = func(cl *ast.CompositeLit) {
		for _, e := range cl.Elts {
			kv, ok := e.(*ast.KeyValueExpr)
			if !ok {
				continue
			}
			key, _ := kv.Key.(*ast.Ident)
			if key == nil {
				continue
			}
			switch key.Name {
			case "LintMetadata":
				if inner, ok := kv.Value.(*ast.CompositeLit); ok {
					walk(inner)
				}
			case "Name":
				if tv, ok := p.TypesInfo.Types[kv.Value]; ok && tv.Value != nil && tv.Value.Kind() == constant.String {
					r.Name = constant.StringVal(tv.Value)
					_, r.NameLiteral = kv.Value.(*ast.BasicLit)
				} else {
					errf("%s: non-constant lint name", r.File)
				}
			case "Description":
				r.Description = constNonEmpty(p, kv.Value)
			case "Citation":
				r.Citation = constNonEmpty(p, kv.Value)
			case "Source":
				r.Source = exprString(kv.Value)
				if tv, ok := p.TypesInfo.Types[kv.Value]; ok && tv.Value != nil && tv.Value.Kind() == constant.String {
					r.SourceValue = constant.StringVal(tv.Value)
				}
			case "EffectiveDate":
				r.Eff = exprString(kv.Value)
			case "IneffectiveDate":
				r.Ineff = exprString(kv.Value)
			case "Lint":
				r.Ctor = exprString(kv.Value)
				if id, ok := kv.Value.(*ast.Ident); ok && id.Name == "nil" {
					r.CtorNil = true
				}
				var obj types.Object
				switch v := kv.Value.(type) {
				case *ast.Ident:
					obj = p.TypesInfo.Uses[v]
				case *ast.SelectorExpr:
					obj = p.TypesInfo.Uses[v.Sel]
				}
				if fn, ok := obj.(*types.Func); ok {
					r.Ctor = fn.FullName()
				}
				if fl, ok := kv.Value.(*ast.FuncLit); ok {
					r.ctorPos = fl.Pos()
					r.Ctor = "closure in " + r.File
				}
			}
		}
	}
	walk(cl)
}

// constNonEmpty: a constant string must be non-blank; a non-constant expression (fmt.Sprintf …) is
// taken as present here and its emptiness is judged by the run-time dump (F2).
func constNonEmpty(p *packages.Package, e ast.Expr) bool {
	if tv, ok := p.TypesInfo.Types[e]; ok && tv.Value != nil && tv.Value.Kind() == constant.String {
		return strings.TrimSpace(constant.StringVal(tv.Value)) != ""
	}
	return true
}

// blankImports records the blank imports of v3/zlint.go and every directory
// below v3/lints that contains a non-test Go file.
func blankImports(root *packages.Package, dir string) {
	if root == nil {
		errf("root package not loaded")
		return
	}
	for _, f := range root.Syntax {
		for _, im := range f.Imports {
			if im.Name != nil && im.Name.Name == "_" {
				s, _ := strconv.Unquote(im.Path.Value)
				facts.BlankImports = append(facts.BlankImports, s)
			}
		}
	}
	sort.Strings(facts.BlankImports)
	ents, err := os.ReadDir(filepath.Join(dir, "lints"))
	if err != nil {
		errf("read lints dir: %v", err)
		return
	}
	for _, e := range ents {
		if !e.IsDir() {
			continue
		}
		files, _ := filepath.Glob(filepath.Join(dir, "lints", e.Name(), "*.go"))
		n := 0
		for _, f := range files {
			if !strings.HasSuffix(f, "_test.go") {
				n++
			}
		}
		if n > 0 {
			facts.LintDirs = append(facts.LintDirs, modPath+"/lints/"+e.Name())
		}
	}
	sort.Strings(facts.LintDirs)
}
