package main

import (
	"go/ast"
	"go/parser"
	"go/constant"
	"go/token"
	"go/types"
	"os"
	"path/filepath"
	"sort"
	"strconv"
	"strings"

	"golang.org/x/tools/go/packages"
)

var regAPIs = map[string]string{
	"RegisterLint":               "cert",
	"RegisterCertificateLint":    "cert",
	"RegisterRevocationListLint": "crl",
	"RegisterOcspResponseLint":   "ocsp",
}

// ExcludedReg is a registration call found (by plain parsing, ignoring build constraints) in a file the
// default build does not compile: a name ending in _test.go (the go tool then treats the *implementation*
// as a test file), a _GOOS/_GOARCH suffix, or a //go:build constraint. Such a lint is in the tree but
// not in any default build.
type ExcludedReg struct {
	File   string `json:"file"`
	API    string `json:"api"`
	Name   string `json:"name"`
	Reason string `json:"reason"`
}

// excludedRegistrations scans every .go file below v3/lints on disk.
func excludedRegistrations(pkgs []*packages.Package, root string) {
	compiled := map[string]bool{}
	for _, p := range pkgs {
		for _, f := range p.CompiledGoFiles {
			compiled[f] = true
		}
		for _, f := range p.GoFiles {
			compiled[f] = true
		}
	}
	lintsDir := filepath.Join(root, "lints")
	_ = filepath.Walk(lintsDir, func(path string, info os.FileInfo, err error) error {
		if err != nil || info.IsDir() || !strings.HasSuffix(path, ".go") || compiled[path] {
			return nil
		}
		if strings.Contains(path, string(filepath.Separator)+"testdata"+string(filepath.Separator)) {
			return nil
		}
		fs := token.NewFileSet()
		f, perr := parser.ParseFile(fs, path, nil, 0)
		if perr != nil {
			facts.Excluded = append(facts.Excluded, ExcludedReg{File: rel(path), Reason: "does not parse: " + perr.Error()})
			return nil
		}
		ast.Inspect(f, func(n ast.Node) bool {
			call, ok := n.(*ast.CallExpr)
			if !ok {
				return true
			}
			sel, ok := call.Fun.(*ast.SelectorExpr)
			if !ok {
				return true
			}
			if _, isReg := regAPIs[sel.Sel.Name]; !isReg {
				return true
			}
			if x, ok := sel.X.(*ast.Ident); !ok || x.Name != "lint" {
				return true
			}
			name := ""
			ast.Inspect(call, func(m ast.Node) bool {
				if kv, ok := m.(*ast.KeyValueExpr); ok {
					if k, ok := kv.Key.(*ast.Ident); ok && k.Name == "Name" {
						if bl, ok := kv.Value.(*ast.BasicLit); ok {
							name, _ = strconv.Unquote(bl.Value)
						}
					}
				}
				return true
			})
			reason := "excluded from the default build by a build constraint or file-name suffix"
			if strings.HasSuffix(path, "_test.go") {
				reason = "file name ends in _test.go: compiled only into the package's test binary"
			}
			facts.Excluded = append(facts.Excluded, ExcludedReg{File: rel(path), API: sel.Sel.Name, Name: name, Reason: reason})
			return true
		})
		return nil
	})
	sort.Slice(facts.Excluded, func(i, j int) bool { return facts.Excluded[i].File < facts.Excluded[j].File })
}

// census walks every non-test file of every package below v3/lints (and
// v3/profiles for profiles) and records each registration call.
func census(pkgs []*packages.Package) {
	for _, p := range pkgs {
		if !strings.HasPrefix(p.PkgPath, modPath+"/lints/") {
			continue
		}
		// lint types: named types with both CheckApplies and Execute
		scope := p.Types.Scope()
		for _, n := range scope.Names() {
			tn, ok := scope.Lookup(n).(*types.TypeName)
			if !ok {
				continue
			}
			ms := types.NewMethodSet(types.NewPointer(tn.Type()))
			if ms.Lookup(p.Types, "CheckApplies") != nil && ms.Lookup(p.Types, "Execute") != nil {
				if _, isIface := tn.Type().Underlying().(*types.Interface); isIface {
					continue
				}
				facts.LintTypes = append(facts.LintTypes, LintType{Pkg: p.PkgPath, Type: n, File: rel(fset.Position(tn.Pos()).Filename)})
			}
		}
		for _, f := range p.Syntax {
			fname := fset.Position(f.Pos()).Filename
			for _, d := range f.Decls {
				fd, ok := d.(*ast.FuncDecl)
				if !ok || fd.Body == nil {
					continue
				}
				fn := fd.Name.Name
				if fd.Recv != nil {
					fn = "method:" + fn
				}
				ast.Inspect(fd.Body, func(n ast.Node) bool {
					call, ok := n.(*ast.CallExpr)
					if !ok {
						return true
					}
					sel, ok := call.Fun.(*ast.SelectorExpr)
					if !ok {
						return true
					}
					kind, isReg := regAPIs[sel.Sel.Name]
					if !isReg {
						return true
					}
					if obj := p.TypesInfo.Uses[sel.Sel]; obj == nil || obj.Pkg() == nil || obj.Pkg().Path() != modPath+"/lint" {
						return true
					}
					r := &Registration{File: rel(fname), Pkg: p.PkgPath, Func: fn, API: sel.Sel.Name, Kind: kind}
					parseRegistration(p, call, r)
					facts.Registrations = append(facts.Registrations, r)
					return true
				})
			}
		}
	}
	sort.Slice(facts.Registrations, func(i, j int) bool {
		a, b := facts.Registrations[i], facts.Registrations[j]
		if a.Name != b.Name {
			return a.Name < b.Name
		}
		return a.File < b.File
	})
	sort.Slice(facts.LintTypes, func(i, j int) bool {
		a, b := facts.LintTypes[i], facts.LintTypes[j]
		return a.Pkg+"."+a.Type < b.Pkg+"."+b.Type
	})
}

func parseRegistration(p *packages.Package, call *ast.CallExpr, r *Registration) {
	if len(call.Args) != 1 {
		errf("%s: registration with %d args", r.File, len(call.Args))
		return
	}
	arg := call.Args[0]
	if u, ok := arg.(*ast.UnaryExpr); ok && u.Op == token.AND {
		arg = u.X
	}
	cl, ok := arg.(*ast.CompositeLit)
	if !ok {
		errf("%s: registration argument is not a composite literal", r.File)
		r.StatusUnk = "non-literal registration"
		return
	}
	var walk func(cl *ast.CompositeLit)
	walk = func(cl *ast.CompositeLit) {
		for _, e := range cl.Elts {
			kv, ok := e.(*ast.KeyValueExpr)
			if !ok {
				continue
			}
			key, _ := kv.Key.(*ast.Ident)
			if key == nil {
				continue
			}
			switch key.Name {
			case "LintMetadata":
				if inner, ok := kv.Value.(*ast.CompositeLit); ok {
					walk(inner)
				}
			case "Name":
				if tv, ok := p.TypesInfo.Types[kv.Value]; ok && tv.Value != nil && tv.Value.Kind() == constant.String {
					r.Name = constant.StringVal(tv.Value)
					_, r.NameLiteral = kv.Value.(*ast.BasicLit)
				} else {
					errf("%s: non-constant lint name", r.File)
				}
			case "Description":
				r.Description = constNonEmpty(p, kv.Value)
			case "Citation":
				r.Citation = constNonEmpty(p, kv.Value)
			case "Source":
				r.Source = exprString(kv.Value)
				if tv, ok := p.TypesInfo.Types[kv.Value]; ok && tv.Value != nil && tv.Value.Kind() == constant.String {
					r.SourceValue = constant.StringVal(tv.Value)
				}
			case "EffectiveDate":
				r.Eff = exprString(kv.Value)
			case "IneffectiveDate":
				r.Ineff = exprString(kv.Value)
			case "Lint":
				r.Ctor = exprString(kv.Value)
				if id, ok := kv.Value.(*ast.Ident); ok && id.Name == "nil" {
					r.CtorNil = true
				}
				var obj types.Object
				switch v := kv.Value.(type) {
				case *ast.Ident:
					obj = p.TypesInfo.Uses[v]
				case *ast.SelectorExpr:
					obj = p.TypesInfo.Uses[v.Sel]
				}
				if fn, ok := obj.(*types.Func); ok {
					r.Ctor = fn.FullName()
				}
				if fl, ok := kv.Value.(*ast.FuncLit); ok {
					r.ctorPos = fl.Pos()
					r.Ctor = "closure in " + r.File
				}
			}
		}
	}
	walk(cl)
}

// constNonEmpty: a constant string must be non-blank; a non-constant expression (fmt.Sprintf …) is
// taken as present here and its emptiness is judged by the run-time dump (F2).
func constNonEmpty(p *packages.Package, e ast.Expr) bool {
	if tv, ok := p.TypesInfo.Types[e]; ok && tv.Value != nil && tv.Value.Kind() == constant.String {
		return strings.TrimSpace(constant.StringVal(tv.Value)) != ""
	}
	return true
}

// blankImports records the blank imports of v3/zlint.go and every directory
// below v3/lints that contains a non-test Go file.
func blankImports(root *packages.Package, dir string) {
	if root == nil {
		errf("root package not loaded")
		return
	}
	for _, f := range root.Syntax {
		for _, im := range f.Imports {
			if im.Name != nil && im.Name.Name == "_" {
				s, _ := strconv.Unquote(im.Path.Value)
				facts.BlankImports = append(facts.BlankImports, s)
			}
		}
	}
	sort.Strings(facts.BlankImports)
	ents, err := os.ReadDir(filepath.Join(dir, "lints"))
	if err != nil {
		errf("read lints dir: %v", err)
		return
	}
	for _, e := range ents {
		if !e.IsDir() {
			continue
		}
		files, _ := filepath.Glob(filepath.Join(dir, "lints", e.Name(), "*.go"))
		n := 0
		for _, f := range files {
			if !strings.HasSuffix(f, "_test.go") {
				n++
			}
		}
		if n > 0 {
			facts.LintDirs = append(facts.LintDirs, modPath+"/lints/"+e.Name())
		}
	}
	sort.Strings(facts.LintDirs)
}
