package main

import (
	"fmt"
	"os"
	"sort"
	"strings"
)

func debugApplies() {
	pat := os.Getenv("DBG_APPLIES")
	if pat == "" {
		return
	}
	for _, f := range allFuncs {
		if strings.Contains(f.String(), pat) && strings.HasSuffix(f.String(), "CheckApplies") {
			fs := appliesFacts(f)
			var ks []string
			for k := range fs.m {
				ks = append(ks, k)
			}
			sort.Strings(ks)
			fmt.Println("APPLIES", f.String(), fs.top, ks)
		}
	}
}
