package main

import (
	"fmt"
	"go/types"
	"sort"
	"strings"

	"golang.org/x/tools/go/packages"
	"golang.org/x/tools/go/ssa"
)

// ---------- F4-F7: per-function facts ----------------------------------------

type MapRange struct {
	Func      string `json:"func"`
	Ordinal   int    `json:"ordinal"`
	MapType   string `json:"map_type"`
	HasAppend bool   `json:"has_append"`
	HasReturn bool   `json:"has_return"`
	UsesKV    bool   `json:"uses_kv_in_call"` // key/value flows into a call other than a map insert (formatting, append)
	HasBreak  bool   `json:"has_break"`
	AutoFree  bool   `json:"auto_order_free"`
}

type FuncFacts struct {
	Name           string     `json:"name"`
	Pkg            string     `json:"pkg"`
	IsInit         bool       `json:"is_init"`
	ObjReads       []string   `json:"obj_reads,omitempty"`
	ObjWrites      []string   `json:"obj_writes,omitempty"`
	ObjAppends     []string   `json:"obj_appends,omitempty"`
	ObjMethods     []string   `json:"obj_methods,omitempty"`
	GlobalsRead    []string   `json:"globals_read,omitempty"`
	GlobalsWritten []string   `json:"globals_written,omitempty"`
	Callees        []string   `json:"callees,omitempty"`
	External       []string   `json:"external,omitempty"`
	TextHash       string     `json:"text_hash,omitempty"`
	Dynamic        []string   `json:"dynamic,omitempty"`
	MapRanges      []MapRange `json:"map_ranges,omitempty"`
	Locks          []string   `json:"locks,omitempty"`
	ParamWrites    []int      `json:"param_writes,omitempty"`
	Go             bool       `json:"spawns_goroutine,omitempty"`
	SigContent     bool       `json:"reads_signature_content,omitempty"` // uses Certificate.Signature other than through len()

	fn          *ssa.Function
	paramWrites map[int]bool
	sets        map[string]map[string]bool
}

func (ff *FuncFacts) add(set, v string) {
	if ff.sets[set] == nil {
		ff.sets[set] = map[string]bool{}
	}
	ff.sets[set][v] = true
}

func sorted(m map[string]bool) []string {
	var out []string
	for k := range m {
		out = append(out, k)
	}
	sort.Strings(out)
	return out
}

var objTypes = map[string]string{
	"github.com/zmap/zcrypto/x509.Certificate":    "Certificate",
	"github.com/zmap/zcrypto/x509.RevocationList": "RevocationList",
	"golang.org/x/crypto/ocsp.Response":           "Response",
}

func objTypeName(t types.Type) string {
	if p, ok := t.(*types.Pointer); ok {
		t = p.Elem()
	}
	if n, ok := t.(*types.Named); ok && n.Obj().Pkg() != nil {
		return objTypes[n.Obj().Pkg().Path()+"."+n.Obj().Name()]
	}
	return ""
}

type root struct {
	kind  string // obj | global | param | local | call | const | other
	name  string // obj: Type.Field ; global: qualified name
	param int
}

// rootOf walks an address/value expression down to what it is rooted at.
func rootOf(v ssa.Value) root {
	return rootOfD(v, 0, map[ssa.Value]bool{})
}

func rootOfD(v ssa.Value, depth int, seen map[ssa.Value]bool) root {
	if depth > 40 || seen[v] {
		return root{kind: "other"}
	}
	seen[v] = true
	fieldOf := func(x ssa.Value, idx int) string {
		tn := objTypeName(x.Type())
		if tn == "" {
			return ""
		}
		t := x.Type()
		if p, ok := t.(*types.Pointer); ok {
			t = p.Elem()
		}
		if st, ok := t.Underlying().(*types.Struct); ok && idx < st.NumFields() {
			return tn + "." + st.Field(idx).Name()
		}
		return tn + ".?"
	}
	down := func(x ssa.Value) root { return rootOfD(x, depth+1, seen) }
	switch x := v.(type) {
	case *ssa.FieldAddr:
		if f := fieldOf(x.X, x.Field); f != "" {
			return root{kind: "obj", name: f}
		}
		return down(x.X)
	case *ssa.Field:
		if f := fieldOf(x.X, x.Field); f != "" {
			return root{kind: "obj", name: f}
		}
		return down(x.X)
	case *ssa.IndexAddr:
		return down(x.X)
	case *ssa.Index:
		return down(x.X)
	case *ssa.Slice:
		return down(x.X)
	case *ssa.Lookup:
		return down(x.X)
	case *ssa.UnOp:
		if x.Op.String() == "*" {
			if al, ok := x.X.(*ssa.Alloc); ok {
				// load of a local variable: what was stored into it
				if refs := al.Referrers(); refs != nil {
					for _, ref := range *refs {
						if st, ok := ref.(*ssa.Store); ok && st.Addr == al {
							r := down(st.Val)
							if r.kind == "obj" || r.kind == "global" || r.kind == "param" {
								return r
							}
						}
					}
				}
				return root{kind: "local"}
			}
			return down(x.X)
		}
		return root{kind: "other"}
	case *ssa.ChangeType:
		return down(x.X)
	case *ssa.Convert:
		return down(x.X)
	case *ssa.ChangeInterface:
		return down(x.X)
	case *ssa.MakeInterface:
		return down(x.X)
	case *ssa.TypeAssert:
		return down(x.X)
	case *ssa.Extract:
		return down(x.Tuple)
	case *ssa.Phi:
		best := root{kind: "local"}
		for _, e := range x.Edges {
			r := down(e)
			if r.kind == "obj" || r.kind == "global" {
				return r
			}
			if r.kind == "param" {
				best = r
			}
		}
		return best
	case *ssa.Parameter:
		if tn := objTypeName(x.Type()); tn != "" {
			return root{kind: "obj", name: tn + ".*"}
		}
		for i, p := range x.Parent().Params {
			if p == x {
				return root{kind: "param", param: i}
			}
		}
		return root{kind: "other"}
	case *ssa.Global:
		return root{kind: "global", name: x.Pkg.Pkg.Path() + "." + x.Name()}
	case *ssa.Alloc:
		return root{kind: "local"}
	case *ssa.Call:
		if bi, ok := x.Common().Value.(*ssa.Builtin); ok && bi.Name() == "append" && len(x.Common().Args) > 0 {
			// the result may share the backing array of the first argument
			return down(x.Common().Args[0])
		}
		return root{kind: "call"}
	case *ssa.Const:
		return root{kind: "const"}
	case *ssa.MakeSlice, *ssa.MakeMap, *ssa.MakeChan, *ssa.MakeClosure:
		return root{kind: "local"}
	case *ssa.FreeVar:
		return root{kind: "other"}
	}
	return root{kind: "other"}
}

func isPointerLike(t types.Type) bool {
	switch t.Underlying().(type) {
	case *types.Pointer, *types.Slice, *types.Map:
		return true
	}
	return false
}

var bigReadOnly = map[string]bool{"Cmp": true, "CmpAbs": true, "BitLen": true, "Bit": true, "Sign": true, "Bytes": true,
	"Int64": true, "Uint64": true, "IsInt64": true, "IsUint64": true, "String": true, "Text": true, "ProbablyPrime": true,
	"TrailingZeroBits": true, "FillBytes": true, "Append": true, "Format": true, "Bits": true, "MarshalText": true,
	"MarshalJSON": true, "GobEncode": true, "Float64": true}

// externalMutates: does the external callee write through its i-th argument?
func externalMutates(callee *ssa.Function, i int) bool {
	name := callee.String()
	switch {
	case strings.HasPrefix(name, "sort.") && i == 0:
		switch callee.Name() {
		case "Strings", "Ints", "Float64s", "Sort", "Stable", "Slice", "SliceStable":
			return true
		}
	case strings.HasPrefix(name, "slices.") && i == 0:
		n := callee.Name()
		return strings.HasPrefix(n, "Sort") || strings.HasPrefix(n, "Reverse") || strings.HasPrefix(n, "Compact") || strings.HasPrefix(n, "Delete") || strings.HasPrefix(n, "Insert")
	case strings.HasPrefix(name, "(*math/big.Int).") && i == 0:
		return !bigReadOnly[callee.Name()]
	}
	return false
}

func analyseFuncs(pkgs []*packages.Package) {
	indexFuncs(pkgs)
	ffs := map[*ssa.Function]*FuncFacts{}
	for _, f := range allFuncs {
		if !inModule(f) || f.Blocks == nil {
			continue
		}
		ff := &FuncFacts{Name: f.String(), fn: f, paramWrites: map[int]bool{}, sets: map[string]map[string]bool{}}
		if f.Pkg != nil {
			ff.Pkg = f.Pkg.Pkg.Path()
		} else if f.Parent() != nil && f.Parent().Pkg != nil {
			ff.Pkg = f.Parent().Pkg.Pkg.Path()
		}
		top := f
		for top.Parent() != nil {
			top = top.Parent()
		}
		ff.IsInit = top.Signature.Recv() == nil && strings.HasPrefix(top.Name(), "init")
		ffs[f] = ff
		facts.Funcs[ff.Name] = ff
		analyseFunc(ff)
	}
	// fixpoint: propagate param writes / object writes through module-local calls
	for changed := true; changed; {
		changed = false
		for _, ff := range ffs {
			for _, b := range ff.fn.Blocks {
				for _, in := range b.Instrs {
					ci, ok := in.(ssa.CallInstruction)
					if !ok {
						continue
					}
					callee := ci.Common().StaticCallee()
					var cw map[int]bool
					if cf, ok := ffs[callee]; ok {
						cw = cf.paramWrites
					} else if callee != nil {
						cw = map[int]bool{}
						for i := range ci.Common().Args {
							if externalMutates(callee, i) {
								cw[i] = true
							}
						}
					}
					// closures: free variables are not tracked (documented limitation)
					for i, a := range ci.Common().Args {
						if !cw[i] || !isPointerLike(a.Type()) {
							continue
						}
						if recordWrite(ff, rootOf(a), "via "+calleeName(ci)) {
							changed = true
						}
					}
				}
			}
		}
	}
	for _, ff := range ffs {
		ff.ObjReads = sorted(ff.sets["objReads"])
		ff.ObjWrites = sorted(ff.sets["objWrites"])
		ff.ObjAppends = sorted(ff.sets["objAppends"])
		ff.ObjMethods = sorted(ff.sets["objMethods"])
		ff.GlobalsRead = sorted(ff.sets["globalsRead"])
		ff.GlobalsWritten = sorted(ff.sets["globalsWritten"])
		ff.Callees = sorted(ff.sets["callees"])
		ff.External = sorted(ff.sets["external"])
		ff.Dynamic = sorted(ff.sets["dynamic"])
		ff.Locks = sorted(ff.sets["locks"])
		for i := range ff.paramWrites {
			ff.ParamWrites = append(ff.ParamWrites, i)
		}
		sort.Ints(ff.ParamWrites)
		for _, e := range ff.External {
			facts.ExternalCalls = append(facts.ExternalCalls, ExtCall{Caller: ff.Name, Callee: e})
		}
	}
	sort.Slice(facts.ExternalCalls, func(i, j int) bool {
		a, b := facts.ExternalCalls[i], facts.ExternalCalls[j]
		if a.Caller != b.Caller {
			return a.Caller < b.Caller
		}
		return a.Callee < b.Callee
	})
}

func calleeName(ci ssa.CallInstruction) string {
	c := ci.Common()
	if c.IsInvoke() {
		return "invoke " + c.Method.FullName()
	}
	if f := c.StaticCallee(); f != nil {
		return f.String()
	}
	if b, ok := c.Value.(*ssa.Builtin); ok {
		return "builtin " + b.Name()
	}
	return "dynamic " + c.Value.Type().String()
}

// recordWrite notes a write through an address with the given root; returns true if new.
func recordWrite(ff *FuncFacts, r root, how string) bool {
	switch r.kind {
	case "obj":
		k := r.name
		if how != "" {
			k += " (" + how + ")"
		}
		if !ff.sets["objWrites"][k] {
			ff.add("objWrites", k)
			return true
		}
	case "global":
		if ff.IsInit {
			return false
		}
		if !ff.sets["globalsWritten"][r.name] {
			ff.add("globalsWritten", r.name)
			return true
		}
	case "param":
		if !ff.paramWrites[r.param] {
			ff.paramWrites[r.param] = true
			return true
		}
	}
	return false
}

func analyseFunc(ff *FuncFacts) {
	f := ff.fn
	rangeOrd := 0
	for _, b := range f.Blocks {
		for _, in := range b.Instrs {
			// reads of object fields and globals (any operand position)
			for _, op := range in.Operands(nil) {
				if op == nil || *op == nil {
					continue
				}
				// a function used as a value (passed as an argument, stored): it may be called from here on
				if fv, ok := (*op).(*ssa.Function); ok && inModule(fv) {
					ff.add("callees", fv.String())
				}
				if mc, ok := (*op).(*ssa.MakeClosure); ok {
					if fv, ok := mc.Fn.(*ssa.Function); ok && inModule(fv) {
						ff.add("callees", fv.String())
					}
				}
				if g, ok := (*op).(*ssa.Global); ok && g.Pkg != nil && strings.HasPrefix(g.Pkg.Pkg.Path(), modPath) {
					if st, ok := in.(*ssa.Store); ok && st.Addr == g {
						continue
					}
					ff.add("globalsRead", g.Pkg.Pkg.Path()+"."+g.Name())
				}
				// a package-level variable of another package (time.Local, os.Args, os.Stdout, rand's source …) is state
				// outside the module: it goes through the same allow-list as calls, as the pseudo callee "var pkg.Name"
				if g, ok := (*op).(*ssa.Global); ok && g.Pkg != nil && !strings.HasPrefix(g.Pkg.Pkg.Path(), modPath) {
					ff.add("external", "var "+g.Pkg.Pkg.Path()+"."+g.Name())
				}
			}
			switch x := in.(type) {
			case *ssa.FieldAddr:
				if r := rootOf(x); r.kind == "obj" && objTypeName(x.X.Type()) != "" {
					ff.add("objReads", r.name)
					if r.name == "Certificate.Signature" && !lenOnly(x) {
						ff.SigContent = true
					}
				}
			case *ssa.Field:
				if r := rootOf(x); r.kind == "obj" && objTypeName(x.X.Type()) != "" {
					ff.add("objReads", r.name)
				}
			case *ssa.Store:
				recordWrite(ff, rootOf(x.Addr), "")
			case *ssa.MapUpdate:
				recordWrite(ff, rootOf(x.Map), "map update")
			case *ssa.Go:
				ff.Go = true
			case *ssa.Range:
				if _, ok := x.X.Type().Underlying().(*types.Map); ok {
					mr := classifyMapRange(x)
					mr.Func = ff.Name
					mr.Ordinal = rangeOrd
					rangeOrd++
					ff.MapRanges = append(ff.MapRanges, mr)
				}
			}
			ci, ok := in.(ssa.CallInstruction)
			if !ok {
				continue
			}
			c := ci.Common()
			if c.IsInvoke() {
				if tn := objTypeName(c.Value.Type()); tn != "" {
					ff.add("objMethods", tn+"."+c.Method.Name())
				}
				ff.add("dynamic", "invoke "+c.Method.FullName())
				continue
			}
			if bi, ok := c.Value.(*ssa.Builtin); ok {
				switch bi.Name() {
				case "copy":
					recordWrite(ff, rootOf(c.Args[0]), "copy")
				case "append":
					if r := rootOf(c.Args[0]); r.kind == "obj" {
						if resliced(c.Args[0], map[ssa.Value]bool{}) {
							ff.add("objWrites", r.name+" (append to a re-slice)")
						} else {
							ff.add("objAppends", r.name)
						}
					} else if r.kind == "global" && !ff.IsInit {
						ff.add("globalsWritten", r.name+" (append)")
					}
				case "delete":
					recordWrite(ff, rootOf(c.Args[0]), "delete")
				case "clear":
					recordWrite(ff, rootOf(c.Args[0]), "clear")
				}
				continue
			}
			callee := c.StaticCallee()
			if callee == nil {
				ff.add("dynamic", "dynamic "+c.Value.Type().String())
				continue
			}
			if callee.Signature.Recv() != nil && len(c.Args) > 0 {
				if tn := objTypeName(c.Args[0].Type()); tn != "" {
					ff.add("objMethods", tn+"."+callee.Name())
				}
			}
			if inModule(callee) {
				ff.add("callees", callee.String())
			} else {
				ff.add("external", callee.String())
				switch callee.String() {
				case "(*sync.RWMutex).RLock", "(*sync.RWMutex).RUnlock", "(*sync.RWMutex).Lock", "(*sync.RWMutex).Unlock",
					"(*sync.Mutex).Lock", "(*sync.Mutex).Unlock":
					ff.add("locks", callee.Name())
				}
			}
		}
	}
}

// classifyMapRange inspects the loop fed by a map Range instruction.
func classifyMapRange(r *ssa.Range) MapRange {
	mr := MapRange{MapType: r.X.Type().String()}
	// find the Next instruction and the k/v extracts
	var next *ssa.Next
	for _, ref := range *r.Referrers() {
		if n, ok := ref.(*ssa.Next); ok {
			next = n
		}
	}
	if next == nil {
		return mr
	}
	header := next.Block()
	// loop body: blocks reachable from the header's "ok" successor without passing the header again
	body := map[*ssa.BasicBlock]bool{}
	var exit *ssa.BasicBlock
	if ifi, ok := header.Instrs[len(header.Instrs)-1].(*ssa.If); ok {
		_ = ifi
		exit = header.Succs[1]
		var dfs func(b *ssa.BasicBlock)
		dfs = func(b *ssa.BasicBlock) {
			if b == header || body[b] {
				return
			}
			body[b] = true
			for _, s := range b.Succs {
				dfs(s)
			}
		}
		dfs(header.Succs[0])
		// blocks that can reach the header again are in the loop; others are exits (break/return paths)
	}
	reachesHeader := map[*ssa.BasicBlock]bool{}
	for changed := true; changed; {
		changed = false
		for b := range body {
			if reachesHeader[b] {
				continue
			}
			for _, s := range b.Succs {
				if s == header || reachesHeader[s] {
					reachesHeader[b] = true
					changed = true
				}
			}
		}
	}
	// taint: values derived from key / value
	taint := map[ssa.Value]bool{}
	for _, ref := range *next.Referrers() {
		if e, ok := ref.(*ssa.Extract); ok && e.Index > 0 {
			taint[e] = true
		}
	}
	for changed := true; changed; {
		changed = false
		for b := range body {
			for _, in := range b.Instrs {
				v, ok := in.(ssa.Value)
				if !ok || taint[v] {
					continue
				}
				for _, op := range in.Operands(nil) {
					if op != nil && *op != nil && taint[*op] {
						taint[v] = true
						changed = true
						break
					}
				}
			}
		}
	}
	for b := range body {
		inLoop := reachesHeader[b]
		for _, in := range b.Instrs {
			switch x := in.(type) {
			case *ssa.Return:
				mr.HasReturn = true
			case *ssa.Jump:
				if inLoop && len(b.Succs) == 1 && b.Succs[0] == exit {
					mr.HasBreak = true
				}
			case ssa.CallInstruction:
				c := x.Common()
				if bi, ok := c.Value.(*ssa.Builtin); ok && bi.Name() == "append" {
					mr.HasAppend = true
				}
				for _, a := range c.Args {
					if taint[a] {
						if bi, ok := c.Value.(*ssa.Builtin); ok && (bi.Name() == "len" || bi.Name() == "delete") {
							continue
						}
						mr.UsesKV = true
					}
				}
			}
		}
		if !inLoop && b != exit {
			// a path that leaves the loop early without returning: break
			hasRet := false
			for _, in := range b.Instrs {
				if _, ok := in.(*ssa.Return); ok {
					hasRet = true
				}
			}
			if !hasRet {
				mr.HasBreak = true
			}
		}
	}
	mr.AutoFree = !mr.HasAppend && !mr.HasReturn && !mr.UsesKV && !mr.HasBreak
	return mr
}

// ---------- transitive footprint per lint ------------------------------------

func footprint(r *Registration, roots []*ssa.Function) {
	seen := map[string]bool{}
	var order []string
	var visit func(name string)
	visit = func(name string) {
		if seen[name] {
			return
		}
		ff, ok := facts.Funcs[name]
		if !ok {
			return
		}
		seen[name] = true
		order = append(order, name)
		for _, c := range ff.Callees {
			visit(c)
		}
		// closures defined inside
		for _, an := range ff.fn.AnonFuncs {
			visit(an.String())
		}
	}
	for _, f := range roots {
		visit(f.String())
	}
	sets := map[string]map[string]bool{"r": {}, "w": {}, "m": {}, "gr": {}, "gw": {}, "oa": {}}
	for _, n := range order {
		ff := facts.Funcs[n]
		for _, x := range ff.ObjReads {
			sets["r"][x] = true
		}
		for _, x := range ff.ObjWrites {
			sets["w"][x+" in "+short(n)] = true
		}
		for _, x := range ff.ObjMethods {
			sets["m"][x] = true
		}
		for _, x := range ff.GlobalsRead {
			sets["gr"][x] = true
		}
		for _, x := range ff.GlobalsWritten {
			sets["gw"][x+" in "+short(n)] = true
		}
		for _, x := range ff.ObjAppends {
			sets["oa"][x+" in "+short(n)] = true
		}
		if ff.SigContent {
			r.SigContent = true
		}
	}
	r.ObjAppends = sorted(sets["oa"])
	r.Reads = sorted(sets["r"])
	r.Writes = sorted(sets["w"])
	r.ObjMethods = sorted(sets["m"])
	r.GlobalsRead = sorted(sets["gr"])
	r.GlobalsWritten = sorted(sets["gw"])
	sort.Strings(order)
	r.Reach = order
}

func short(fn string) string {
	return strings.ReplaceAll(fn, modPath+"/", "")
}

// ---------- F11: statuses returned from inside loops over object lists --------

// loopStatuses maps "Type.Field" (an object field ranged over in Execute) to the
// set of statuses returned from inside that loop.
func loopStatuses(sa *statusAnalysis, exec *ssa.Function) map[string][]int {
	out := map[string][]int{}
	if exec == nil || exec.Blocks == nil {
		return out
	}
	// natural loops: back edges b -> h where h dominates b
	for _, h := range exec.Blocks {
		var latches []*ssa.BasicBlock
		for _, p := range h.Preds {
			if h.Dominates(p) {
				latches = append(latches, p)
			}
		}
		if len(latches) == 0 {
			continue
		}
		body := map[*ssa.BasicBlock]bool{h: true}
		var stack []*ssa.BasicBlock
		for _, l := range latches {
			if !body[l] {
				body[l] = true
				stack = append(stack, l)
			}
		}
		for len(stack) > 0 {
			b := stack[len(stack)-1]
			stack = stack[:len(stack)-1]
			for _, p := range b.Preds {
				if !body[p] {
					body[p] = true
					stack = append(stack, p)
				}
			}
		}
		// which object field does the loop index? look for IndexAddr/Index/len on an obj-rooted slice in the header/body
		field := ""
		for b := range body {
			for _, in := range b.Instrs {
				switch x := in.(type) {
				case *ssa.IndexAddr:
					if r := rootOf(x.X); r.kind == "obj" {
						field = r.name
					}
				case *ssa.Index:
					if r := rootOf(x.X); r.kind == "obj" {
						field = r.name
					}
				}
			}
		}
		if field == "" {
			field = "loop@" + fmt.Sprint(h.Index)
		}
		// returns in blocks dominated by the header that are exits of this loop
		set := map[int]bool{}
		for _, b := range exec.Blocks {
			if body[b] || !h.Dominates(b) {
				continue
			}
			// b is outside the loop body; is it reached directly from a body block other than the header's exit edge?
			fromBody := false
			for _, p := range b.Preds {
				if body[p] && p != h {
					fromBody = true
				}
			}
			if !fromBody {
				continue
			}
			for _, in := range b.Instrs {
				if ret, ok := in.(*ssa.Return); ok && len(ret.Results) == 1 {
					s := sa.value(ret.Results[0], map[ssa.Value]bool{})
					for k := range s.vals {
						set[k] = true
					}
				}
			}
		}
		if len(set) > 0 {
			var l []int
			for k := range set {
				l = append(l, k)
			}
			sort.Ints(l)
			out[field] = append(out[field], l...)
		}
	}
	return out
}

// lenOnly: every use of the field address is a load whose value only feeds len().
func lenOnly(addr ssa.Value) bool {
	refs := addr.Referrers()
	if refs == nil {
		return false
	}
	for _, ref := range *refs {
		ld, ok := ref.(*ssa.UnOp)
		if !ok || ld.Op.String() != "*" {
			return false
		}
		lrefs := ld.Referrers()
		if lrefs == nil {
			return false
		}
		for _, u := range *lrefs {
			switch c := u.(type) {
			case *ssa.Call:
				if bi, ok := c.Common().Value.(*ssa.Builtin); ok && bi.Name() == "len" {
					continue
				}
				return false
			case *ssa.DebugRef:
				continue
			default:
				return false
			}
		}
	}
	return true
}

// resliced: does the slice value come (through phis and earlier appends) from a re-slice expression s[i:j]
// of an object-rooted slice? Appending to such a value overwrites elements the object still shows.
func resliced(v ssa.Value, seen map[ssa.Value]bool) bool {
	if seen[v] {
		return false
	}
	seen[v] = true
	switch x := v.(type) {
	case *ssa.Slice:
		return rootOf(x.X).kind == "obj"
	case *ssa.Phi:
		for _, e := range x.Edges {
			if resliced(e, seen) {
				return true
			}
		}
	case *ssa.Call:
		if bi, ok := x.Common().Value.(*ssa.Builtin); ok && bi.Name() == "append" && len(x.Common().Args) > 0 {
			return resliced(x.Common().Args[0], seen)
		}
	}
	return false
}
