package main

// F13 — loop-carried state in code reachable from a lint.
//
// A rule that walks a list of the linted object (SAN entries, extensions, policy identifiers, RDNs …) is blind to the
// order of the list when every iteration looks at its own element only. What can make it order-sensitive is a value
// that survives from one iteration to the next: in SSA form that is a φ-node at the loop header (a local variable
// assigned in the loop and read in a later iteration or after the loop), or a store inside the loop through the
// address of a variable that lives outside it. This census lists every such value in every function reachable from
// a lint's CheckApplies / Execute and classifies how it is updated:
//
//	index    the range index / a counter stepped by a constant
//	flag     every update inside the loop assigns one and the same constant (found = true)
//	count    φ + constant
//	append   append(φ, …)   (a collected list: its *membership* does not depend on the order)
//	other    anything else: the value depends on which elements came before — order-carrying state
//
// `other` entries must be in the committed review (/verif/loop_state_reviewed.json), each valid only for the hash of
// the function's text; Lean decides that (Props/C17.lean: loop_state_reviewed).

import (
	"fmt"
	"go/constant"
	"go/token"
	"sort"

	"golang.org/x/tools/go/ssa"
)

type LoopVar struct {
	Func  string `json:"func"`
	Var   string `json:"var"`
	Class string `json:"class"`
	Pos   string `json:"pos"`
	Ctx   string `json:"ctx"`
	Note  string `json:"note,omitempty"`
}

func loopBody(h *ssa.BasicBlock) map[*ssa.BasicBlock]bool {
	var latches []*ssa.BasicBlock
	for _, p := range h.Preds {
		if h.Dominates(p) {
			latches = append(latches, p)
		}
	}
	if len(latches) == 0 {
		return nil
	}
	body := map[*ssa.BasicBlock]bool{h: true}
	var stack []*ssa.BasicBlock
	for _, l := range latches {
		if !body[l] {
			body[l] = true
			stack = append(stack, l)
		}
	}
	for len(stack) > 0 {
		b := stack[len(stack)-1]
		stack = stack[:len(stack)-1]
		for _, p := range b.Preds {
			if !body[p] {
				body[p] = true
				stack = append(stack, p)
			}
		}
	}
	return body
}

func constKey(c *ssa.Const) string {
	if c.Value == nil {
		return "nil:" + c.Type().String()
	}
	return c.Value.Kind().String() + ":" + c.Value.ExactString()
}

// classify the updates that reach header φ `p` along back edges
func classifyPhi(p *ssa.Phi, h *ssa.BasicBlock, body map[*ssa.BasicBlock]bool) (string, string) {
	if p.Comment == "rangeindex" {
		return "index", ""
	}
	consts := map[string]bool{}
	kinds := map[string]bool{}
	seen := map[ssa.Value]bool{}
	var walk func(v ssa.Value)
	walk = func(v ssa.Value) {
		if v == ssa.Value(p) || seen[v] {
			return
		}
		seen[v] = true
		switch x := v.(type) {
		case *ssa.Const:
			consts[constKey(x)] = true
			kinds["flag"] = true
		case *ssa.Phi:
			if body[x.Block()] {
				for _, e := range x.Edges {
					walk(e)
				}
				return
			}
			kinds["other"] = true
		case *ssa.BinOp:
			if x.Op == token.ADD || x.Op == token.SUB {
				if c, ok := x.Y.(*ssa.Const); ok && c.Value != nil && c.Value.Kind() == constant.Int && (x.X == ssa.Value(p) || isInnerPhiOf(x.X, p, body)) {
					kinds["count"] = true
					return
				}
			}
			kinds["other"] = true
		case *ssa.Call:
			if bi, ok := x.Common().Value.(*ssa.Builtin); ok && bi.Name() == "append" && len(x.Common().Args) > 0 {
				if a := x.Common().Args[0]; a == ssa.Value(p) || isInnerPhiOf(a, p, body) {
					kinds["append"] = true
					return
				}
			}
			kinds["other"] = true
		default:
			kinds["other"] = true
		}
	}
	for i, pred := range h.Preds {
		if body[pred] && i < len(p.Edges) {
			walk(p.Edges[i])
		}
	}
	switch {
	case kinds["other"]:
		return "other", ""
	case kinds["flag"] && len(consts) > 1:
		return "other", "different constants assigned on different paths: the last one wins"
	case kinds["flag"] && (kinds["count"] || kinds["append"]):
		return "other", "reset and accumulation mixed"
	case kinds["count"]:
		return "count", ""
	case kinds["append"]:
		return "append", ""
	case kinds["flag"]:
		return "flag", ""
	}
	return "index", "" // never updated inside the loop
}

// v is p or a φ inside the loop all of whose edges lead back to p (the variable unchanged on some paths)
func isInnerPhiOf(v ssa.Value, p *ssa.Phi, body map[*ssa.BasicBlock]bool) bool {
	seen := map[ssa.Value]bool{}
	var ok func(ssa.Value) bool
	ok = func(v ssa.Value) bool {
		if v == ssa.Value(p) {
			return true
		}
		if seen[v] {
			return true
		}
		seen[v] = true
		if q, is := v.(*ssa.Phi); is && body[q.Block()] {
			for _, e := range q.Edges {
				if !ok(e) {
					// an inner φ may also merge an already updated value (count on one path, unchanged on another)
					if b, isBin := e.(*ssa.BinOp); isBin && (b.Op == token.ADD || b.Op == token.SUB) {
						if _, c := b.Y.(*ssa.Const); c && ok(b.X) {
							continue
						}
					}
					if c, isCall := e.(*ssa.Call); isCall {
						if bi, isB := c.Common().Value.(*ssa.Builtin); isB && bi.Name() == "append" && len(c.Common().Args) > 0 && ok(c.Common().Args[0]) {
							continue
						}
					}
					return false
				}
			}
			return true
		}
		return false
	}
	return ok(v)
}

func allocRoot(v ssa.Value) *ssa.Alloc {
	for i := 0; i < 16; i++ {
		switch x := v.(type) {
		case *ssa.Alloc:
			return x
		case *ssa.FieldAddr:
			v = x.X
		case *ssa.IndexAddr:
			v = x.X
		default:
			return nil
		}
	}
	return nil
}

func censusLoops(reachAll map[string]bool) {
	var names []string
	for n := range reachAll {
		names = append(names, n)
	}
	sort.Strings(names)
	var out []LoopVar
	for _, name := range names {
		ff := facts.Funcs[name]
		if ff == nil || ff.fn == nil || ff.fn.Blocks == nil || ff.IsInit {
			continue
		}
		f := ff.fn
		ctx := sha(declText(topFunc(f)))
		ord := map[string]int{}
		add := func(v, class, note string, pos token.Pos) {
			k := v + "|" + class
			n := ord[k]
			ord[k]++
			if n > 0 {
				v = fmt.Sprintf("%s#%d", v, n)
			}
			out = append(out, LoopVar{Func: f.String(), Var: v, Class: class, Pos: posStr(pos), Ctx: ctx, Note: note})
		}
		for _, h := range f.Blocks {
			body := loopBody(h)
			if body == nil {
				continue
			}
			for _, in := range h.Instrs {
				p, ok := in.(*ssa.Phi)
				if !ok {
					break
				}
				class, note := classifyPhi(p, h, body)
				if class == "index" {
					continue
				}
				vn := p.Comment
				if vn == "" {
					vn = p.Name()
				}
				add(vn, class, note, p.Pos())
			}
			// stores inside the loop through a variable that lives outside it
			var bs []*ssa.BasicBlock
			for b := range body {
				bs = append(bs, b)
			}
			sort.Slice(bs, func(i, j int) bool { return bs[i].Index < bs[j].Index })
			for _, b := range bs {
				for _, in := range b.Instrs {
					st, ok := in.(*ssa.Store)
					if !ok {
						continue
					}
					a := allocRoot(st.Addr)
					if a == nil || body[a.Block()] {
						continue
					}
					class := "other"
					if c, isC := st.Val.(*ssa.Const); isC {
						_ = c
						class = "flag"
					}
					vn := a.Comment
					if vn == "" {
						vn = a.Name()
					}
					add("&"+vn, class, "store through a variable declared outside the loop", st.Pos())
				}
			}
		}
	}
	facts.LoopState = out
}
