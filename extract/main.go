// Command extract regenerates the "program model" facts of zmap/zlint from the
// current working tree (default build: no tags) and writes them as JSON.
//
// Everything it cannot resolve becomes an explicit "unknown" so that the
// corresponding Lean obligation fails rather than passes.
package main

import (
	"encoding/json"
	"flag"
	"fmt"
	"go/ast"
	"go/token"
	"os"
	"path/filepath"
	"sort"
	"strings"

	"golang.org/x/tools/go/packages"
	"golang.org/x/tools/go/ssa"
	"golang.org/x/tools/go/ssa/ssautil"
)

const modPath = "github.com/zmap/zlint/v3"

type Facts struct {
	Repo          string                 `json:"repo"`
	Registrations []*Registration        `json:"registrations"` // F1
	LintTypes     []LintType             `json:"lint_types"`    // F1: every type with CheckApplies+Execute
	BlankImports  []string               `json:"blank_imports"` // F10
	LintDirs      []string               `json:"lint_dirs"`     // F10
	Tables        map[string]interface{} `json:"tables"`        // F9
	Funcs         map[string]*FuncFacts  `json:"funcs"`         // F4-F8 per function (module-local)
	ExternalCalls []ExtCall              `json:"external_calls"`
	Sites         []*Site                `json:"sites"`                  // F8
	LoopState     []LoopVar              `json:"loop_state"`             // F13
	Excluded      []ExcludedReg          `json:"excluded_registrations"` // F1: registration calls in files outside the default build
	Errors        []string               `json:"errors"`
	Stats         map[string]int         `json:"stats"`
}

type Registration struct {
	File        string `json:"file"`
	Pkg         string `json:"pkg"`
	Func        string `json:"func"` // enclosing function (must be init)
	API         string `json:"api"`  // RegisterCertificateLint / RegisterLint / ...
	Kind        string `json:"kind"` // cert / crl / ocsp
	Name        string `json:"name"`
	NameLiteral bool   `json:"name_literal"`
	Description bool   `json:"has_description"`
	Citation    bool   `json:"has_citation"`
	Source      string `json:"source"` // identifier in package lint, e.g. CABFBaselineRequirements
	SourceValue string `json:"source_value"`
	Eff         string `json:"eff_expr"`
	Ineff       string `json:"ineff_expr"`
	Ctor        string `json:"ctor"`      // constructor function (qualified)
	ImplType    string `json:"impl_type"` // concrete type the constructor returns
	CtorNil     bool   `json:"ctor_nil"`
	// F3
	Statuses     []int  `json:"statuses"`
	MayReturnNil bool   `json:"may_return_nil"`
	StatusUnk    string `json:"status_unknown,omitempty"`
	Configurable bool   `json:"configurable"`
	// F4/F5 (transitive, module-local callees)
	Reads             []string `json:"reads"`
	Writes            []string `json:"writes"`
	ObjMethods        []string `json:"obj_methods"`
	GlobalsRead       []string `json:"globals_read"`
	GlobalsWritten    []string `json:"globals_written"`
	Reach             []string `json:"reach"`
	SigContent        bool     `json:"reads_signature_content"`
	ObjAppends        []string `json:"obj_appends"`
	SensitiveBodyHash string   `json:"sensitive_body_hash,omitempty"`
	ctorPos           token.Pos
	// F13 (per function, see loops.go): in Facts.LoopState
	// F11
	LoopStatuses map[string][]int `json:"loop_statuses,omitempty"`
}

type LintType struct {
	Pkg  string `json:"pkg"`
	Type string `json:"type"`
	File string `json:"file"`
}

type ExtCall struct {
	Caller string `json:"caller"`
	Callee string `json:"callee"`
}

var (
	fset  *token.FileSet
	prog  *ssa.Program
	facts = &Facts{Tables: map[string]interface{}{}, Funcs: map[string]*FuncFacts{}, Stats: map[string]int{}}
)

func errf(format string, a ...interface{}) {
	facts.Errors = append(facts.Errors, fmt.Sprintf(format, a...))
}

func main() {
	repo := flag.String("repo", "/repo", "repository root")
	out := flag.String("out", "facts.json", "output file")
	flag.Parse()
	facts.Repo = *repo
	dir := filepath.Join(*repo, "v3")
	cfg := &packages.Config{
		Mode: packages.NeedName | packages.NeedFiles | packages.NeedCompiledGoFiles | packages.NeedImports |
			packages.NeedDeps | packages.NeedTypes | packages.NeedSyntax | packages.NeedTypesInfo | packages.NeedTypesSizes | packages.NeedModule,
		Dir:   dir,
		Tests: false,
		Env:   append(os.Environ(), "GOFLAGS=-mod=mod", "GOPROXY=off", "GOSUMDB=off", "GOTOOLCHAIN=local"),
	}
	pkgs, err := packages.Load(cfg, ".", "./lint", "./lints/...", "./util", "./formattedoutput", "./cmd/zlint", "./profiles")
	if err != nil {
		fmt.Fprintln(os.Stderr, "load:", err)
		os.Exit(2)
	}
	bad := false
	packages.Visit(pkgs, nil, func(p *packages.Package) {
		if strings.HasPrefix(p.PkgPath, modPath) {
			for _, e := range p.Errors {
				fmt.Fprintln(os.Stderr, "pkg error:", e)
				bad = true
			}
		}
	})
	if bad {
		os.Exit(2)
	}
	fset = pkgs[0].Fset
	var ssaPkgs []*ssa.Package
	prog, ssaPkgs = ssautil.AllPackages(pkgs, ssa.InstantiateGenerics)
	_ = ssaPkgs
	prog.Build()

	sort.Slice(pkgs, func(i, j int) bool { return pkgs[i].PkgPath < pkgs[j].PkgPath })
	byPath := map[string]*packages.Package{}
	for _, p := range pkgs {
		byPath[p.PkgPath] = p
	}

	census(pkgs)
	excludedRegistrations(pkgs, dir)
	blankImports(byPath[modPath], dir)
	tables(byPath)
	analyseFuncs(pkgs)
	perLint(pkgs)
	reachAll, appliesOf := appliesIndex()
	censusSites(pkgs, reachAll, appliesOf)
	facts.Sites = sites
	censusLoops(reachAll)
	// F14: hash of the (comment-stripped) text of every module function: hand-written models are pinned to the text they were written from
	for _, ff := range facts.Funcs {
		if ff.fn != nil && ff.fn.Syntax() != nil {
			ff.TextHash = sha(declText(ff.fn))
		}
	}
	debugApplies()
	translateBodies(pkgs, byPath)

	facts.Stats["registrations"] = len(facts.Registrations)
	facts.Stats["lint_types"] = len(facts.LintTypes)
	b, _ := json.MarshalIndent(facts, "", " ")
	if err := os.WriteFile(*out, b, 0o644); err != nil {
		fmt.Fprintln(os.Stderr, err)
		os.Exit(2)
	}
	fmt.Printf("extract: %d registrations, %d lint types, %d funcs, %d errors\n",
		len(facts.Registrations), len(facts.LintTypes), len(facts.Funcs), len(facts.Errors))
}

func rel(path string) string {
	r, err := filepath.Rel(facts.Repo, path)
	if err != nil {
		return path
	}
	return r
}

func exprString(e ast.Expr) string {
	if e == nil {
		return ""
	}
	switch x := e.(type) {
	case *ast.Ident:
		return x.Name
	case *ast.SelectorExpr:
		return exprString(x.X) + "." + x.Sel.Name
	case *ast.BasicLit:
		return x.Value
	case *ast.CallExpr:
		var args []string
		for _, a := range x.Args {
			args = append(args, exprString(a))
		}
		return exprString(x.Fun) + "(" + strings.Join(args, ",") + ")"
	case *ast.UnaryExpr:
		return x.Op.String() + exprString(x.X)
	case *ast.BinaryExpr:
		return exprString(x.X) + x.Op.String() + exprString(x.Y)
	case *ast.StarExpr:
		return "*" + exprString(x.X)
	case *ast.ParenExpr:
		return "(" + exprString(x.X) + ")"
	case *ast.IndexExpr:
		return exprString(x.X) + "[" + exprString(x.Index) + "]"
	case *ast.CompositeLit:
		return exprString(x.Type) + "{...}"
	case *ast.FuncLit:
		return "func{...}"
	}
	return fmt.Sprintf("<%T>", e)
}
