package main

// F8: census of panic-capable sites in every function reachable from a lint's
// constructor / Configure / CheckApplies / Execute, with the guard each one sits under.
//
// A site is an SSA instruction that can panic at run time: an index or slice
// expression, a non-comma-ok type assertion, a dereference of a pointer that is not
// non-nil by construction, an integer division, a store into a possibly-nil map, an
// explicit panic, and calls to a short list of library functions that panic by contract.
//
// For each site the extractor emits a *certificate*: which guard schema applies and the
// facts (taken from dominating branch conditions on the same SSA values) the schema needs.
// The arithmetic of the schema is re-checked in Lean (ZlModel/Sites.lean: `discharged`,
// proved sound against a semantics of checked indexing); what is trusted here is the
// reading of dominators and value identity. A site no schema discharges is `residual`:
// it must be in the committed, reviewed list /verif/c02_reviewed_sites.json under its
// key *and* the hash of its context (the enclosing function and the CheckApplies bodies
// of the lint types that reach it), so an edit to either re-opens the obligation.

import (
	"bytes"
	"crypto/sha256"
	"encoding/hex"
	"fmt"
	"go/ast"
	"go/constant"
	"go/printer"
	"go/token"
	"go/types"
	"sort"
	"strings"

	"golang.org/x/tools/go/packages"
	"golang.org/x/tools/go/ssa"
)

type LenFact struct {
	Rel string `json:"rel"` // ge | gt | eq | ne | lt | le   (about len(container), after polarity)
	C   int64  `json:"c"`
}

type Site struct {
	Func   string    `json:"func"`
	Kind   string    `json:"kind"` // index | slice | assert | nil | div | mapnil | panic | call
	Expr   string    `json:"expr"`
	Ord    int       `json:"ord"`
	Pos    string    `json:"pos"`    // file:line, for humans; not part of the key
	Schema string    `json:"schema"` // see below
	K      int64     `json:"k"`      // constant index / offset
	A      int64     `json:"a"`      // offset in the guarding fact (idxVar: v+a < len)
	N      int64     `json:"n"`      // fixed array length (0 = slice/string)
	Facts  []LenFact `json:"facts,omitempty"`
	Ctx    string    `json:"ctx"`
	Note   string    `json:"note,omitempty"`
}

// Schemas:
//   idxConst    index = K;            needs lower bound of len from Facts (or N) > K
//   idxLenMinus index = len(x) - K;   needs K >= 1 and lower bound >= K
//   idxVar      index = v + K, v >= 0 structurally, dominating fact v + A < len(x) (or v + A < N)  needs K <= A
//   idxRange    index is the induction variable of a range/for loop bounded by len of the same value
//   sliceLo     x[K:]  / x[K:len]     needs lower bound >= K
//   sliceHiLen  x[:len(x)-K]          needs lower bound >= K
//   sliceHi     x[:K]                 needs lower bound >= K
//   nilChecked  dereference dominated by a != nil test of the same value
//   errPaired   dereference of v where (v, err) came from one call and err == nil dominates   (assumption A-ERRPAIR)
//   assumed     non-nil / well-typed by a named parser assumption (Note names it)
//   divConst    division by a non-zero constant
//   residual    none of the above

var sites []*Site
var gAppliesOf map[string][]*ssa.Function

type siteCtx struct {
	fn      *ssa.Function
	nodeAt  map[token.Pos]ast.Node
	nonNilP map[*ssa.Parameter]int // memo: 1 yes, 2 no
}

var (
	astIndex    = map[token.Pos]ast.Node{}
	funcDeclOf  = map[token.Pos]*ast.FuncDecl{} // by FuncDecl.Pos
	declByName  = map[string]*ast.FuncDecl{}
	callersOf   = map[*ssa.Function][]ssa.CallInstruction{}
	retNonNil   = map[*ssa.Function]int{}
	globNonNil  = map[*ssa.Global]int{}
	paramNonNil = map[*ssa.Parameter]int{}
)

func buildASTIndex(pkgs []*packages.Package) {
	for _, p := range pkgs {
		if !strings.HasPrefix(p.PkgPath, modPath) {
			continue
		}
		for _, f := range p.Syntax {
			ast.Inspect(f, func(n ast.Node) bool {
				switch x := n.(type) {
				case *ast.IndexExpr:
					astIndex[x.Lbrack] = x
				case *ast.SliceExpr:
					astIndex[x.Lbrack] = x
				case *ast.TypeAssertExpr:
					astIndex[x.Lparen] = x
				case *ast.SelectorExpr:
					if _, ok := astIndex[x.Sel.Pos()]; !ok {
						astIndex[x.Sel.Pos()] = x
					}
				case *ast.StarExpr:
					astIndex[x.Star] = x
				case *ast.BinaryExpr:
					astIndex[x.OpPos] = x
				case *ast.CallExpr:
					astIndex[x.Lparen] = x
				case *ast.FuncDecl:
					funcDeclOf[x.Pos()] = x
				}
				return true
			})
		}
	}
}

func printNode(n ast.Node) string {
	var buf bytes.Buffer
	_ = printer.Fprint(&buf, token.NewFileSet(), n)
	s := buf.String()
	// normalise white space
	return strings.Join(strings.Fields(s), " ")
}

func topFunc(f *ssa.Function) *ssa.Function {
	for f.Parent() != nil {
		f = f.Parent()
	}
	return f
}

func declText(f *ssa.Function) string {
	t := topFunc(f)
	if fd, ok := t.Syntax().(*ast.FuncDecl); ok && fd != nil {
		cp := *fd
		cp.Doc = nil
		return printNode(&cp)
	}
	return "<no syntax " + t.String() + ">"
}

func sha(s string) string {
	h := sha256.Sum256([]byte(s))
	return hex.EncodeToString(h[:8])
}

// ---------- value identity -----------------------------------------------------

// addrKey gives a structural name to an address expression rooted at a parameter,
// a global or a free variable, so that two loads of the same field compare equal.
// Lint objects are never written (C05), and the other roots are only accepted when
// the function holds no store through that root.
func addrKey(v ssa.Value, depth int) string {
	if depth > 12 {
		return ""
	}
	switch x := v.(type) {
	case *ssa.Parameter:
		return "P:" + x.Name()
	case *ssa.Global:
		return "G:" + x.String()
	case *ssa.FreeVar:
		return "F:" + x.Name()
	case *ssa.Alloc:
		return fmt.Sprintf("A:%p", x)
	case *ssa.Call:
		// util.GetExtFromCert(obj, oidVar) is a pure function of the (never modified) object
		if k := extKeyOfCall(x, "GetExtFromCert"); k != "" {
			if p, ok := x.Common().Args[0].(*ssa.Parameter); ok {
				return "EXT(P:" + p.Name() + "." + k + ")"
			}
		}
		return ""
	case *ssa.FieldAddr:
		b := addrKey(x.X, depth+1)
		if b == "" {
			return ""
		}
		return fmt.Sprintf("%s.%d", b, x.Field)
	case *ssa.Field:
		b := valueKey(x.X, depth+1)
		if b == "" {
			return ""
		}
		return fmt.Sprintf("%s.f%d", b, x.Field)
	case *ssa.UnOp:
		if x.Op == token.MUL {
			b := addrKey(x.X, depth+1)
			if b == "" {
				return ""
			}
			return "*(" + b + ")"
		}
	case *ssa.IndexAddr:
		b := addrKey(x.X, depth+1)
		i := valueKey(x.Index, depth+1)
		if b == "" || i == "" {
			return ""
		}
		return b + "[" + i + "]"
	}
	return ""
}

func valueKey(v ssa.Value, depth int) string {
	if depth > 12 {
		return ""
	}
	switch x := v.(type) {
	case *ssa.Const:
		return "C:" + x.String()
	case *ssa.UnOp:
		if x.Op == token.MUL {
			b := addrKey(x.X, depth+1)
			if b == "" {
				return ""
			}
			return "*(" + b + ")"
		}
	case *ssa.Field:
		return addrKey(x, depth)
	case *ssa.Parameter:
		return "P:" + x.Name()
	}
	return fmt.Sprintf("V:%p", v)
}

// writers: instructions of f that may write through an address with a structural key: stores, and any
// use of a local's address other than taking a sub-address, loading or storing through it (e.g. &v passed to a call).
type writer struct {
	key string
	in  ssa.Instruction
}

func writersOf(f *ssa.Function) []writer {
	var out []writer
	for _, b := range f.Blocks {
		for _, in := range b.Instrs {
			if st, ok := in.(*ssa.Store); ok {
				if k := addrKey(st.Addr, 0); k != "" {
					out = append(out, writer{k, in})
				}
				continue
			}
			switch in.(type) {
			case *ssa.FieldAddr, *ssa.IndexAddr, *ssa.UnOp, *ssa.DebugRef:
				continue
			}
			for _, op := range in.Operands(nil) {
				if op == nil || *op == nil {
					continue
				}
				if _, isPtr := (*op).Type().Underlying().(*types.Pointer); !isPtr {
					continue
				}
				k := addrKey(*op, 0)
				if strings.HasPrefix(k, "A:") {
					out = append(out, writer{k, in})
				}
			}
		}
	}
	return out
}

var writersMemo = map[*ssa.Function][]writer{}

// before: instruction w is executed before x on every path that reaches x after the last w
// (w's block strictly dominates x's, or w precedes x in one block).
func before(w ssa.Instruction, x ssa.Value) bool {
	xi, ok := x.(ssa.Instruction)
	if !ok {
		return true // parameters, constants
	}
	wb, xb := w.Block(), xi.Block()
	if wb == xb {
		for _, in := range wb.Instrs {
			if in == w {
				return true
			}
			if in == xi {
				return false
			}
		}
		return false
	}
	return wb.Dominates(xb)
}

// sameValue: a and b are the same SSA value, or two loads through one structurally named address such that
// every possible write to that address happens before both (see the argument in DESIGN.md, C02).
func sameValue(f *ssa.Function, a, b ssa.Value) bool {
	if a == b {
		return true
	}
	ka, kb := valueKey(a, 0), valueKey(b, 0)
	if ka == "" || kb == "" || strings.HasPrefix(ka, "V:") || ka != kb {
		return false
	}
	ws, ok := writersMemo[f]
	if !ok {
		ws = writersOf(f)
		writersMemo[f] = ws
	}
	for _, w := range ws {
		if strings.Contains(ka, w.key) {
			if !before(w.in, a) || !before(w.in, b) {
				return false
			}
		}
	}
	return true
}

// ---------- dominating conditions ------------------------------------------------

type cond struct {
	v   ssa.Value
	pol bool
}

func domConds(b *ssa.BasicBlock) []cond {
	var out []cond
	for d := b; d != nil && d.Idom() != nil; d = d.Idom() {
		p := d.Idom()
		if len(p.Instrs) == 0 {
			continue
		}
		ifi, ok := p.Instrs[len(p.Instrs)-1].(*ssa.If)
		if !ok || len(d.Preds) != 1 || d.Preds[0] != p {
			continue
		}
		if p.Succs[0] == d && p.Succs[1] != d {
			out = append(out, flatten(ifi.Cond, true)...)
		} else if p.Succs[1] == d && p.Succs[0] != d {
			out = append(out, flatten(ifi.Cond, false)...)
		}
	}
	return out
}

func flatten(v ssa.Value, pol bool) []cond {
	if u, ok := v.(*ssa.UnOp); ok && u.Op == token.NOT {
		return flatten(u.X, !pol)
	}
	return []cond{{v, pol}}
}

func ssaConstInt(v ssa.Value) (int64, bool) {
	c, ok := v.(*ssa.Const)
	if !ok || c.Value == nil || c.Value.Kind() != constant.Int {
		return 0, false
	}
	i, exact := constant.Int64Val(c.Value)
	return i, exact
}

func isLenOf(f *ssa.Function, v ssa.Value, x ssa.Value) bool {
	c, ok := v.(*ssa.Call)
	if !ok {
		return false
	}
	bi, ok := c.Common().Value.(*ssa.Builtin)
	if !ok || bi.Name() != "len" || len(c.Common().Args) != 1 {
		return false
	}
	return sameValue(f, c.Common().Args[0], x)
}

func flipRel(op token.Token) token.Token {
	switch op {
	case token.LSS:
		return token.GTR
	case token.LEQ:
		return token.GEQ
	case token.GTR:
		return token.LSS
	case token.GEQ:
		return token.LEQ
	}
	return op
}

func negRel(op token.Token) token.Token {
	switch op {
	case token.LSS:
		return token.GEQ
	case token.LEQ:
		return token.GTR
	case token.GTR:
		return token.LEQ
	case token.GEQ:
		return token.LSS
	case token.EQL:
		return token.NEQ
	case token.NEQ:
		return token.EQL
	}
	return op
}

func relName(op token.Token) string {
	switch op {
	case token.LSS:
		return "lt"
	case token.LEQ:
		return "le"
	case token.GTR:
		return "gt"
	case token.GEQ:
		return "ge"
	case token.EQL:
		return "eq"
	case token.NEQ:
		return "ne"
	}
	return ""
}

// lenFacts: facts about len(x) from the conditions dominating block b.
func lenFacts(f *ssa.Function, b *ssa.BasicBlock, x ssa.Value) []LenFact {
	var out []LenFact
	// established by CheckApplies (schema G3): len(x) >= i for an object-rooted x
	if k := canonKey(x); k != "" && gAppliesOf != nil {
		for i := int64(8); i >= 1; i-- {
			if impliedByApplies(f, fmt.Sprintf("lenge:%s:%d", k, i), gAppliesOf) {
				out = append(out, LenFact{"ge", i})
				break
			}
		}
	}
	for _, c := range domConds(b) {
		switch cv := c.v.(type) {
		case *ssa.BinOp:
			op := cv.Op
			var k int64
			var ok bool
			if isLenOf(f, cv.X, x) {
				k, ok = ssaConstInt(cv.Y)
			} else if isLenOf(f, cv.Y, x) {
				k, ok = ssaConstInt(cv.X)
				op = flipRel(op)
			} else if sx, isStr := x.Type().Underlying().(*types.Basic); isStr && sx.Info()&types.IsString != 0 {
				// s != "" / s == ""
				if cs, okc := cv.Y.(*ssa.Const); okc && cs.Value != nil && cs.Value.Kind() == constant.String && constant.StringVal(cs.Value) == "" && sameValue(f, cv.X, x) {
					k, ok = 0, true
				}
			}
			if !ok || relName(op) == "" {
				continue
			}
			if !c.pol {
				op = negRel(op)
			}
			out = append(out, LenFact{relName(op), k})
		case *ssa.Call:
			// strings.HasPrefix(x, "lit") / HasSuffix: len(x) >= len(lit)
			if callee := cv.Common().StaticCallee(); callee != nil && c.pol {
				n := callee.String()
				if (n == "strings.HasPrefix" || n == "strings.HasSuffix" || n == "bytes.HasPrefix" || n == "bytes.HasSuffix") && len(cv.Common().Args) == 2 && sameValue(f, cv.Common().Args[0], x) {
					if cs, ok := cv.Common().Args[1].(*ssa.Const); ok && cs.Value != nil && cs.Value.Kind() == constant.String {
						out = append(out, LenFact{"ge", int64(len(constant.StringVal(cs.Value)))})
					}
				}
			}
		}
	}
	if ms, ok := x.(*ssa.MakeSlice); ok {
		if k, ok := ssaConstInt(ms.Len); ok {
			out = append(out, LenFact{"eq", k})
		}
	}
	// make([]T, K) with constant K is lowered to new([K]T)[:]
	if sl, ok := x.(*ssa.Slice); ok && sl.Low == nil && sl.Max == nil {
		if n, isArr := derefArray(sl.X.Type()); isArr {
			if sl.High == nil {
				out = append(out, LenFact{"eq", n})
			} else if k, ok := ssaConstInt(sl.High); ok && k <= n {
				out = append(out, LenFact{"eq", k})
			}
		}
	}
	// strings.Split / SplitN(…, n != 0) / Fields? with a non-empty constant separator yields at least one element
	if call, ok := x.(*ssa.Call); ok {
		if callee := call.Common().StaticCallee(); callee != nil {
			switch callee.String() {
			case "strings.Split", "bytes.Split":
				if cs, ok := call.Common().Args[1].(*ssa.Const); ok && cs.Value != nil && cs.Value.Kind() == constant.String && constant.StringVal(cs.Value) != "" {
					out = append(out, LenFact{"ge", 1})
				}
			}
		}
	}
	return out
}

// ---------- non-negativity of index values -----------------------------------------

func nonNeg(v ssa.Value, seen map[ssa.Value]bool) bool {
	if seen[v] {
		return true // inductive hypothesis along a cycle of phis
	}
	seen[v] = true
	if b, ok := v.Type().Underlying().(*types.Basic); ok && b.Info()&types.IsUnsigned != 0 {
		return true
	}
	switch x := v.(type) {
	case *ssa.Const:
		k, ok := ssaConstInt(x)
		return ok && k >= 0
	case *ssa.Call:
		if bi, ok := x.Common().Value.(*ssa.Builtin); ok && (bi.Name() == "len" || bi.Name() == "cap") {
			return true
		}
	case *ssa.Phi:
		for _, e := range x.Edges {
			if !nonNeg(e, seen) {
				return false
			}
		}
		return true
	case *ssa.BinOp:
		switch x.Op {
		case token.ADD, token.MUL, token.QUO:
			// the range-over-slice shape: t2 = phi[-1, t2, t2, ...] + 1
			if x.Op == token.ADD {
				if ph, ok := x.X.(*ssa.Phi); ok {
					if k, ok := ssaConstInt(x.Y); ok && k >= 1 {
						good, consts := true, 0
						for _, e := range ph.Edges {
							if c, okc := ssaConstInt(e); okc && c >= -1 {
								consts++
							} else if e != ssa.Value(x) {
								good = false
							}
						}
						if good && consts >= 1 {
							return true
						}
					}
				}
			}
			return nonNeg(x.X, seen) && nonNeg(x.Y, seen)
		case token.REM:
			return nonNeg(x.X, seen)
		case token.AND:
			return nonNeg(x.X, seen) || nonNeg(x.Y, seen)
		case token.SHR:
			return nonNeg(x.X, seen)
		}
	case *ssa.Convert:
		return nonNeg(x.X, seen) && !narrowing(x)
	case *ssa.Extract:
		// key of a range over string / index of Next
		if nx, ok := x.Tuple.(*ssa.Next); ok && x.Index == 1 && nx.IsString {
			return true
		}
	}
	return false
}

func narrowing(c *ssa.Convert) bool {
	from, ok1 := c.X.Type().Underlying().(*types.Basic)
	to, ok2 := c.Type().Underlying().(*types.Basic)
	if !ok1 || !ok2 {
		return true
	}
	size := func(b *types.Basic) int {
		switch b.Kind() {
		case types.Int8, types.Uint8:
			return 8
		case types.Int16, types.Uint16:
			return 16
		case types.Int32, types.Uint32:
			return 32
		}
		return 64
	}
	if from.Info()&types.IsUnsigned != 0 && to.Info()&types.IsUnsigned == 0 {
		return size(to) <= size(from)
	}
	return size(to) < size(from)
}

// splitAdd: v = base + k (k constant, possibly 0)
func splitAdd(v ssa.Value) (ssa.Value, int64) {
	if b, ok := v.(*ssa.BinOp); ok {
		if b.Op == token.ADD {
			if k, ok := ssaConstInt(b.Y); ok {
				base, k0 := splitAdd(b.X)
				return base, k0 + k
			}
			if k, ok := ssaConstInt(b.X); ok {
				base, k0 := splitAdd(b.Y)
				return base, k0 + k
			}
		}
		if b.Op == token.SUB {
			if k, ok := ssaConstInt(b.Y); ok {
				base, k0 := splitAdd(b.X)
				return base, k0 - k
			}
		}
	}
	return v, 0
}

// upperFact: largest a such that a dominating condition gives  base + a < len(x)  (or < n for arrays).
func upperFact(f *ssa.Function, b *ssa.BasicBlock, base ssa.Value, x ssa.Value, arrLen int64) (int64, bool) {
	best, found := int64(0), false
	baseRoot, baseOff := splitAdd(base)
	for _, c := range domConds(b) {
		bo, ok := c.v.(*ssa.BinOp)
		if !ok {
			continue
		}
		op := bo.Op
		l, r := bo.X, bo.Y
		// want  (base + a) REL bound
		lb, la := splitAdd(l)
		rb, ra := splitAdd(r)
		var a int64
		var bound ssa.Value
		var boundOff int64
		if lb == baseRoot || sameValue(f, lb, baseRoot) {
			a, bound, boundOff = la-baseOff, rb, ra
		} else if rb == baseRoot || sameValue(f, rb, baseRoot) {
			a, bound, boundOff = ra-baseOff, lb, la
			op = flipRel(op)
		} else {
			continue
		}
		if !c.pol {
			op = negRel(op)
		}
		// base + a  op  bound + boundOff
		var slack int64 // base + a + slack < LEN
		switch op {
		case token.LSS:
			slack = 0
		case token.LEQ:
			slack = -1
		default:
			continue
		}
		isLen := false
		if x != nil && isLenOf(f, bound, x) {
			isLen = true
		} else if k, ok := ssaConstInt(bound); ok && arrLen > 0 {
			// base + a < k + boundOff <= arrLen  ⇒ treat as len = arrLen
			if k+boundOff <= arrLen {
				// base + a + slack + (arrLen - k - boundOff) < arrLen
				cand := a + slack + (arrLen - k - boundOff)
				if !found || cand > best {
					best, found = cand, true
				}
			}
			continue
		} else if lc, ok := bound.(*ssa.Call); ok && arrLen > 0 {
			if bi, ok := lc.Common().Value.(*ssa.Builtin); ok && bi.Name() == "len" {
				if at, ok := derefArray(lc.Common().Args[0].Type()); ok && at == arrLen {
					isLen = true
				}
			}
		}
		if !isLen {
			continue
		}
		cand := a + slack - boundOff
		if !found || cand > best {
			best, found = cand, true
		}
	}
	return best, found
}

func derefArray(t types.Type) (int64, bool) {
	if p, ok := t.Underlying().(*types.Pointer); ok {
		t = p.Elem()
	}
	if a, ok := t.Underlying().(*types.Array); ok {
		return a.Len(), true
	}
	return 0, false
}

// ---------- nil-ness --------------------------------------------------------------

var knownNonNilExternal = map[string]bool{
	"regexp.MustCompile": true, "regexp.MustCompilePOSIX": true, "math/big.NewInt": true,
	"encoding/base32.NewEncoding": true, "(encoding/base32.Encoding).WithPadding": true, "(*encoding/base32.Encoding).WithPadding": true,
	"encoding/base64.NewEncoding": true, "errors.New": true, "fmt.Errorf": true,
	"(*github.com/pelletier/go-toml.Tree).Get": false,
}

func isBigIntMethodReturningRecv(callee *ssa.Function) bool {
	s := callee.String()
	if !strings.HasPrefix(s, "(*math/big.Int).") {
		return false
	}
	sig := callee.Signature
	if sig.Results().Len() != 1 {
		return false
	}
	return types.TypeString(sig.Results().At(0).Type(), nil) == "*math/big.Int"
}

func nonNil(v ssa.Value, seen map[ssa.Value]bool) bool {
	if seen[v] {
		return true
	}
	seen[v] = true
	switch x := v.(type) {
	case *ssa.Alloc, *ssa.Global, *ssa.FieldAddr, *ssa.IndexAddr, *ssa.Function, *ssa.MakeClosure, *ssa.MakeMap, *ssa.MakeSlice, *ssa.MakeChan, *ssa.MakeInterface, *ssa.FreeVar:
		return true
	case *ssa.Const:
		return !x.IsNil()
	case *ssa.Slice:
		return true // slicing never yields a value whose later indexing is a nil dereference (bounds are separate sites)
	case *ssa.Phi:
		for _, e := range x.Edges {
			if !nonNil(e, seen) {
				return false
			}
		}
		return true
	case *ssa.ChangeType:
		return nonNil(x.X, seen)
	case *ssa.ChangeInterface:
		return nonNil(x.X, seen)
	case *ssa.Convert:
		return nonNil(x.X, seen)
	case *ssa.Parameter:
		return paramIsNonNil(x, seen)
	case *ssa.Call:
		c := x.Common()
		if bi, ok := c.Value.(*ssa.Builtin); ok {
			return bi.Name() == "append" || bi.Name() == "new"
		}
		callee := c.StaticCallee()
		if callee == nil {
			return false
		}
		if inModule(callee) {
			return returnsNonNil(callee, 0)
		}
		if knownNonNilExternal[callee.String()] {
			return true
		}
		if isBigIntMethodReturningRecv(callee) && len(c.Args) > 0 {
			return nonNil(c.Args[0], seen)
		}
		return false
	case *ssa.UnOp:
		if x.Op == token.MUL {
			// load: from a module global that is initialised non-nil once and never written again
			if g, ok := x.X.(*ssa.Global); ok {
				return globalIsNonNil(g)
			}
			if al, ok := x.X.(*ssa.Alloc); ok {
				// non-lifted local: every store puts a non-nil value
				refs := al.Referrers()
				if refs == nil {
					return false
				}
				any := false
				for _, r := range *refs {
					switch st := r.(type) {
					case *ssa.Store:
						if st.Addr == al {
							any = true
							if !nonNil(st.Val, seen) {
								return false
							}
						}
					case *ssa.UnOp, *ssa.DebugRef:
					default:
						return false // address escapes
					}
				}
				return any
			}
		}
		return false
	}
	return false
}

func returnsNonNil(f *ssa.Function, idx int) bool {
	if r, ok := retNonNil[f]; ok {
		return r == 1
	}
	retNonNil[f] = 1 // optimistic on recursion
	ok := f.Blocks != nil
	for _, b := range f.Blocks {
		for _, in := range b.Instrs {
			if ret, isRet := in.(*ssa.Return); isRet {
				if idx >= len(ret.Results) || !nonNilAt(ret.Results[idx], b) {
					ok = false
				}
			}
		}
	}
	if ok {
		retNonNil[f] = 1
	} else {
		retNonNil[f] = 2
	}
	return ok
}

// nonNilAt: non-nil by construction, or by a nil test dominating block b.
func nonNilAt(v ssa.Value, b *ssa.BasicBlock) bool {
	if nonNil(v, map[ssa.Value]bool{}) {
		return true
	}
	return nilCheckedAt(b.Parent(), v, b) != ""
}

func globalIsNonNil(g *ssa.Global) bool {
	if r, ok := globNonNil[g]; ok {
		return r == 1
	}
	globNonNil[g] = 2
	if g.Pkg == nil {
		return false
	}
	initf := g.Pkg.Func("init")
	if initf == nil {
		return false
	}
	stores, good := 0, true
	for _, f := range allFuncs {
		for _, b := range f.Blocks {
			for _, in := range b.Instrs {
				if st, ok := in.(*ssa.Store); ok && st.Addr == g {
					stores++
					if topFunc(f) != initf || !nonNil(st.Val, map[ssa.Value]bool{}) {
						good = false
					}
				}
			}
		}
	}
	if stores >= 1 && good {
		globNonNil[g] = 1
		return true
	}
	return false
}

func isRecvOrObject(p *ssa.Parameter) bool {
	f := p.Parent()
	if f.Signature.Recv() != nil && len(f.Params) > 0 && f.Params[0] == p {
		return true
	}
	return objTypeName(p.Type()) != ""
}

func paramIsNonNil(p *ssa.Parameter, seen map[ssa.Value]bool) bool {
	if r, ok := paramNonNil[p]; ok {
		return r == 1
	}
	if isRecvOrObject(p) {
		// receivers are lint instances built by the framework or by the caller; linted objects are non-nil (Lint*Ex guard, C01)
		paramNonNil[p] = 1
		return true
	}
	paramNonNil[p] = 1 // optimistic on recursion
	f := p.Parent()
	idx := -1
	for i, q := range f.Params {
		if q == p {
			idx = i
		}
	}
	calls := callersOf[f]
	ok := idx >= 0 && len(calls) > 0 && f.Parent() == nil
	// exported functions of util may be called from outside the module too; only module callers are known.
	for _, ci := range calls {
		args := ci.Common().Args
		if idx >= len(args) || !nonNilAt(args[idx], ci.Block()) {
			ok = false
		}
	}
	if ok {
		paramNonNil[p] = 1
	} else {
		paramNonNil[p] = 2
	}
	return ok
}

// nilCheckedAt: is v dominated (at block b) by a test v != nil, or is it the value half of a
// (value, err) pair whose err == nil dominates?  Returns the schema name or "".
func nilCheckedAt(f *ssa.Function, v ssa.Value, b *ssa.BasicBlock) string {
	isNilConst := func(x ssa.Value) bool {
		c, ok := x.(*ssa.Const)
		return ok && c.IsNil()
	}
	var pairedErr ssa.Value
	var okFlag ssa.Value
	if ex, ok := v.(*ssa.Extract); ok {
		if call, ok := ex.Tuple.(*ssa.Call); ok {
			res := call.Common().Signature().Results()
			if res.Len() >= 2 && types.TypeString(res.At(res.Len()-1).Type(), nil) == "error" {
				if refs := call.Referrers(); refs != nil {
					for _, r := range *refs {
						if e2, ok := r.(*ssa.Extract); ok && e2.Index == res.Len()-1 {
							pairedErr = e2
						}
					}
				}
			}
		}
		if refs := ex.Tuple.Referrers(); refs != nil {
			for _, r := range *refs {
				if e2, ok := r.(*ssa.Extract); ok && e2 != ex {
					if bt, ok := e2.Type().Underlying().(*types.Basic); ok && bt.Kind() == types.Bool {
						okFlag = e2
					}
				}
			}
		}
	}
	for _, c := range domConds(b) {
		if bo, ok := c.v.(*ssa.BinOp); ok && (bo.Op == token.NEQ || bo.Op == token.EQL) {
			wantNonNil := (bo.Op == token.NEQ) == c.pol
			var other ssa.Value
			if isNilConst(bo.Y) {
				other = bo.X
			} else if isNilConst(bo.X) {
				other = bo.Y
			} else {
				continue
			}
			if wantNonNil && sameValue(f, other, v) {
				return "nilChecked"
			}
			if !wantNonNil && pairedErr != nil && other == pairedErr {
				return "errPaired"
			}
		}
		if okFlag != nil && c.v == okFlag && c.pol {
			return "okPaired"
		}
		if cc, ok := c.v.(*ssa.Call); ok && c.pol {
			if vc, ok := v.(*ssa.Call); ok {
				if k := extKeyOfCall(cc, "IsExtInCert"); k != "" && k == extKeyOfCall(vc, "GetExtFromCert") && cc.Common().Args[0] == vc.Common().Args[0] {
					return "nilChecked" // IsExtInCert(c, X) is GetExtFromCert(c, X) != nil, a pure function of the unmodified object
				}
			}
		}
	}
	return ""
}

// ---------- the census ------------------------------------------------------------

func exprAt(pos token.Pos, fallback string) string {
	if n, ok := astIndex[pos]; ok {
		return printNode(n)
	}
	return fallback
}

func posStr(pos token.Pos) string {
	if !pos.IsValid() {
		return ""
	}
	p := fset.Position(pos)
	return fmt.Sprintf("%s:%d", rel(p.Filename), p.Line)
}

var panicByContract = map[string]string{
	"(*math/big.Int).Div": "zero divisor", "(*math/big.Int).Mod": "zero divisor", "(*math/big.Int).DivMod": "zero divisor",
	"(*math/big.Int).Quo": "zero divisor", "(*math/big.Int).Rem": "zero divisor", "(*math/big.Int).QuoRem": "zero divisor",
	"(*math/big.Int).Sqrt": "negative operand", "(*math/big.Int).ModInverse": "", "(*math/big.Int).Exp": "",
	"(*math/big.Int).Lsh": "", "(*math/big.Int).Rsh": "",
	"strings.Repeat": "negative count", "bytes.Repeat": "negative count",
	"regexp.MustCompile": "bad pattern", "regexp.MustCompilePOSIX": "bad pattern",
}

func censusSites(pkgs []*packages.Package, reachAll map[string]bool, appliesOf map[string][]*ssa.Function) {
	buildASTIndex(pkgs)
	gAppliesOf = appliesOf
	for _, f := range allFuncs {
		for _, b := range f.Blocks {
			for _, in := range b.Instrs {
				if ci, ok := in.(ssa.CallInstruction); ok {
					if callee := ci.Common().StaticCallee(); callee != nil {
						callersOf[callee] = append(callersOf[callee], ci)
					}
				}
			}
		}
	}
	var names []string
	for n := range reachAll {
		names = append(names, n)
	}
	sort.Strings(names)
	ctxMemo := map[*ssa.Function]string{}
	ctxOf := func(f *ssa.Function) string {
		t := topFunc(f)
		if c, ok := ctxMemo[t]; ok {
			return c
		}
		parts := []string{declText(t)}
		if t.Pkg != nil && strings.HasPrefix(t.Pkg.Pkg.Path(), modPath+"/lints/") {
			var ap []string
			seen := map[string]bool{}
			for _, a := range appliesOf[t.String()] {
				if !seen[a.String()] {
					seen[a.String()] = true
					ap = append(ap, a.String()+"="+declText(a))
				}
			}
			sort.Strings(ap)
			parts = append(parts, ap...)
			// helpers: the guards may sit in the (module-local) callers
			if t.Signature.Recv() == nil || (t.Name() != "Execute" && t.Name() != "CheckApplies") {
				var cs []string
				seenC := map[string]bool{}
				for _, ci := range callersOf[t] {
					cf := topFunc(ci.Parent())
					if !seenC[cf.String()] {
						seenC[cf.String()] = true
						cs = append(cs, "caller "+cf.String()+"="+declText(cf))
					}
				}
				sort.Strings(cs)
				parts = append(parts, cs...)
			}
		}
		c := sha(strings.Join(parts, "\n"))
		ctxMemo[t] = c
		return c
	}
	ords := map[string]int{}
	emit := func(f *ssa.Function, kind, expr string, pos token.Pos, s *Site) {
		s.Func = f.String()
		s.Kind = kind
		s.Expr = expr
		s.Pos = posStr(pos)
		key := s.Func + "|" + kind + "|" + expr
		s.Ord = ords[key]
		ords[key]++
		s.Ctx = ctxOf(f)
		sites = append(sites, s)
	}
	for _, name := range names {
		ff := facts.Funcs[name]
		if ff == nil || ff.fn == nil || ff.fn.Blocks == nil {
			continue
		}
		f := ff.fn
		if ff.IsInit {
			continue
		}
		for _, b := range f.Blocks {
			for _, in := range b.Instrs {
				switch x := in.(type) {
				case *ssa.IndexAddr:
					indexSite(f, b, x.X, x.Index, x.Pos(), emit)
					if _, isPtr := x.X.Type().Underlying().(*types.Pointer); isPtr {
						nilSite(f, b, x.X, x.Pos(), "index of array pointer", emit)
					}
				case *ssa.Index:
					indexSite(f, b, x.X, x.Index, x.Pos(), emit)
				case *ssa.Slice:
					sliceSite(f, b, x, emit)
				case *ssa.TypeAssert:
					if !x.CommaOk {
						s := &Site{Schema: "residual"}
						if k := canonKey(x.X); k != "" {
							fact := "istype:" + k + ":" + types.TypeString(x.AssertedType, nil)
							if impliedByApplies(f, fact, gAppliesOf) {
								s.Schema, s.Note = "applies", fact
							}
						}
						emit(f, "assert", exprAt(x.Pos(), "assert "+x.AssertedType.String()), x.Pos(), s)
					}
				case *ssa.FieldAddr:
					nilSite(f, b, x.X, x.Pos(), "", emit)
				case *ssa.Field:
					// value struct: cannot be nil
				case *ssa.UnOp:
					if x.Op == token.MUL {
						nilSite(f, b, x.X, x.Pos(), "", emit)
					}
				case *ssa.Store:
					nilSite(f, b, x.Addr, x.Pos(), "", emit)
				case *ssa.MapUpdate:
					if !nonNilAt(x.Map, b) {
						emit(f, "mapnil", exprAt(x.Pos(), "map update"), x.Pos(), &Site{Schema: "residual"})
					}
				case *ssa.BinOp:
					if (x.Op == token.QUO || x.Op == token.REM) && isInteger(x.Y.Type()) {
						s := &Site{Schema: "residual"}
						if k, ok := ssaConstInt(x.Y); ok && k != 0 {
							s.Schema, s.K = "divConst", k
						}
						emit(f, "div", exprAt(x.Pos(), "division"), x.Pos(), s)
					}
				case *ssa.Panic:
					emit(f, "panic", exprAt(x.Pos(), "panic"), x.Pos(), &Site{Schema: "residual"})
				case *ssa.SliceToArrayPointer:
					emit(f, "slice", exprAt(x.Pos(), "slice to array pointer"), x.Pos(), &Site{Schema: "residual"})
				}
				if ci, ok := in.(ssa.CallInstruction); ok {
					c := ci.Common()
					if c.IsInvoke() {
						if !nonNilIface(f, c.Value, b) {
							emit(f, "nil", "invoke "+c.Method.Name()+" on "+shortVal(c.Value), ci.Pos(), &Site{Schema: "residual", Note: "method call on an interface value that may be nil"})
						}
					} else if callee := c.StaticCallee(); callee != nil {
						if why, ok := panicByContract[callee.String()]; ok {
							emit(f, "call", callee.String()+" @"+exprAt(ci.Pos(), ""), ci.Pos(), &Site{Schema: "residual", Note: why})
						}
						if strings.HasPrefix(callee.String(), "reflect.") || strings.HasPrefix(callee.String(), "(reflect.") {
							emit(f, "call", callee.String(), ci.Pos(), &Site{Schema: "residual", Note: "reflect panics on kind mismatch"})
						}
					} else if _, isB := c.Value.(*ssa.Builtin); !isB {
						// call of a function value: nil function panics
						if !nonNilAt(c.Value, b) {
							emit(f, "nil", "call of func value "+shortVal(c.Value), ci.Pos(), &Site{Schema: "residual"})
						}
					}
				}
			}
		}
	}
	sort.SliceStable(sites, func(i, j int) bool {
		a, b := sites[i], sites[j]
		if a.Func != b.Func {
			return a.Func < b.Func
		}
		if a.Kind != b.Kind {
			return a.Kind < b.Kind
		}
		if a.Expr != b.Expr {
			return a.Expr < b.Expr
		}
		return a.Ord < b.Ord
	})
}

func shortVal(v ssa.Value) string {
	if k := valueKey(v, 0); k != "" && !strings.HasPrefix(k, "V:") {
		return k
	}
	return types.TypeString(v.Type(), func(p *types.Package) string { return p.Name() })
}

func isInteger(t types.Type) bool {
	b, ok := t.Underlying().(*types.Basic)
	return ok && b.Info()&types.IsInteger != 0
}

func nonNilIface(f *ssa.Function, v ssa.Value, b *ssa.BasicBlock) bool {
	if nonNilAt(v, b) {
		return true
	}
	return false
}

// nilFactFor: the CheckApplies fact that would make p non-nil.
func nilFactFor(p ssa.Value) string {
	if c, ok := p.(*ssa.Call); ok {
		if k := extKeyOfCall(c, "GetExtFromCert"); k != "" {
			return "ext:" + k
		}
		return ""
	}
	if k := canonKey(p); k != "" {
		return "nonnil:" + k
	}
	return ""
}

type emitFn func(f *ssa.Function, kind, expr string, pos token.Pos, s *Site)

func nilSite(f *ssa.Function, b *ssa.BasicBlock, p ssa.Value, pos token.Pos, note string, emit emitFn) {
	if _, isPtr := p.Type().Underlying().(*types.Pointer); !isPtr {
		return
	}
	if nonNil(p, map[ssa.Value]bool{}) {
		return
	}
	s := &Site{Schema: "residual", Note: note}
	if sch := nilCheckedAt(f, p, b); sch != "" {
		s.Schema = sch
	} else if fact := nilFactFor(p); fact != "" && impliedByApplies(f, fact, gAppliesOf) {
		s.Schema, s.Note = "applies", fact
	} else if ta, ok := p.(*ssa.TypeAssert); ok {
		if r := rootOf(ta.X); r.kind == "obj" {
			s.Schema, s.Note = "assumed", "A-PARSE-KEY: a value stored by the parser in "+r.name+" is never a typed nil pointer"
		}
	} else if ex, ok := p.(*ssa.Extract); ok {
		if ta, ok := ex.Tuple.(*ssa.TypeAssert); ok && ex.Index == 0 {
			if r := rootOf(ta.X); r.kind == "obj" {
				s.Schema, s.Note = "assumed", "A-PARSE-KEY: a value stored by the parser in "+r.name+" is never a typed nil pointer"
			}
		}
	}
	expr := exprAt(pos, "")
	if expr == "" {
		expr = "deref " + shortVal(p)
	}
	emit(f, "nil", expr, pos, s)
}

func indexSite(f *ssa.Function, b *ssa.BasicBlock, x, idx ssa.Value, pos token.Pos, emit emitFn) {
	s := &Site{Schema: "residual"}
	arrLen, isArr := derefArray(x.Type())
	if isArr {
		s.N = arrLen
	}
	expr := exprAt(pos, "index")
	defer func() { emit(f, "index", expr, pos, s) }()
	if k, ok := ssaConstInt(idx); ok {
		s.K = k
		if isArr {
			if k >= 0 && k < arrLen {
				s.Schema = "idxConst"
				s.Facts = []LenFact{{"eq", arrLen}}
			}
			return
		}
		s.Facts = lenFacts(f, b, x)
		s.Schema = "idxConst"
		return
	}
	// len(x) - k
	if bo, ok := idx.(*ssa.BinOp); ok && bo.Op == token.SUB {
		if k, ok := ssaConstInt(bo.Y); ok && isLenOf(f, bo.X, x) {
			s.K = k
			s.Facts = lenFacts(f, b, x)
			s.Schema = "idxLenMinus"
			return
		}
	}
	base, k := splitAdd(idx)
	if !nonNeg(base, map[ssa.Value]bool{}) && !lowerZero(f, b, base) {
		// maybe idx itself (with offset) is non-negative structurally, e.g. phi[-1,..]+1
		if nonNeg(idx, map[ssa.Value]bool{}) {
			base, k = idx, 0
		} else {
			s.Note = "index not shown non-negative"
			return
		}
	}
	if k < 0 {
		s.Note = "negative offset"
		return
	}
	var xv ssa.Value = x
	a, ok := upperFact(f, b, base, xv, arrLen)
	if !ok {
		s.Note = "no dominating upper bound on the index"
		return
	}
	s.K, s.A = k, a
	s.Schema = "idxVar"
}

// lowerZero: dominating fact base >= 0 (or > -1, != -1 for strings.Index results)
func lowerZero(f *ssa.Function, b *ssa.BasicBlock, base ssa.Value) bool {
	for _, c := range domConds(b) {
		bo, ok := c.v.(*ssa.BinOp)
		if !ok {
			continue
		}
		op := bo.Op
		var k int64
		var okk bool
		if bo.X == base || sameValue(f, bo.X, base) {
			k, okk = ssaConstInt(bo.Y)
		} else if bo.Y == base || sameValue(f, bo.Y, base) {
			k, okk = ssaConstInt(bo.X)
			op = flipRel(op)
		}
		if !okk {
			continue
		}
		if !c.pol {
			op = negRel(op)
		}
		switch {
		case op == token.GEQ && k >= 0, op == token.GTR && k >= -1:
			return true
		case op == token.NEQ && k == -1 && isIndexCall(base):
			return true
		case op == token.EQL && k >= 0:
			return true
		}
	}
	return false
}

func isIndexCall(v ssa.Value) bool {
	c, ok := v.(*ssa.Call)
	if !ok {
		return false
	}
	callee := c.Common().StaticCallee()
	if callee == nil {
		return false
	}
	switch callee.String() {
	case "strings.Index", "strings.IndexByte", "strings.IndexRune", "strings.LastIndex", "strings.IndexAny", "bytes.Index", "bytes.IndexByte", "strings.LastIndexByte":
		return true
	}
	return false
}

func sliceSite(f *ssa.Function, b *ssa.BasicBlock, x *ssa.Slice, emit emitFn) {
	s := &Site{Schema: "residual"}
	expr := exprAt(x.Pos(), "slice")
	defer func() { emit(f, "slice", expr, x.Pos(), s) }()
	if x.Max != nil {
		return
	}
	arrLen, isArr := derefArray(x.X.Type())
	if isArr {
		s.N = arrLen
	}
	facts := func() []LenFact {
		if isArr {
			return []LenFact{{"eq", arrLen}}
		}
		return lenFacts(f, b, x.X)
	}
	lowK, lowConst := int64(0), x.Low == nil
	if x.Low != nil {
		lowK, lowConst = ssaConstInt(x.Low)
	}
	switch {
	case x.Low == nil && x.High == nil:
		s.Schema = "sliceLo" // x[:] never panics (nil array pointer aside)
		s.Facts = []LenFact{{"ge", 0}}
	case lowConst && lowK >= 0 && x.High == nil:
		s.Schema, s.K, s.Facts = "sliceLo", lowK, facts()
	case !lowConst && x.High == nil:
		if bo, ok := x.Low.(*ssa.BinOp); ok && bo.Op == token.SUB {
			if k, ok := ssaConstInt(bo.Y); ok && k >= 0 && isLenOf(f, bo.X, x.X) {
				s.Schema, s.K, s.Facts = "sliceHiLen", k, facts() // x[len-k:] needs the same bound as x[:len-k]
				return
			}
		}
		s.Note = "variable bounds"
	case lowConst && lowK == 0 && x.High != nil:
		if k, ok := ssaConstInt(x.High); ok && k >= 0 {
			s.Schema, s.K, s.Facts = "sliceHi", k, facts()
			return
		}
		if bo, ok := x.High.(*ssa.BinOp); ok && bo.Op == token.SUB {
			if k, ok := ssaConstInt(bo.Y); ok && k >= 0 && isLenOf(f, bo.X, x.X) {
				s.Schema, s.K, s.Facts = "sliceHiLen", k, facts()
				return
			}
		}
		s.Note = "variable upper bound"
	default:
		s.Note = "variable bounds"
	}
}

// appliesIndex: for every function, the CheckApplies methods of the lint types that reach it.
func appliesIndex() (map[string]bool, map[string][]*ssa.Function) {
	reachAll := map[string]bool{}
	appliesOf := map[string][]*ssa.Function{}
	for _, r := range facts.Registrations {
		var ap *ssa.Function
		for _, n := range r.Reach {
			if strings.HasSuffix(n, ").CheckApplies") && strings.Contains(n, strings.TrimPrefix(r.ImplType, "*")) {
				if ff := facts.Funcs[n]; ff != nil {
					ap = ff.fn
				}
			}
		}
		for _, n := range r.Reach {
			reachAll[n] = true
			if ap != nil {
				appliesOf[n] = append(appliesOf[n], ap)
			}
		}
	}
	// the framework's own per-lint path
	for n, ff := range facts.Funcs {
		if ff.Pkg == modPath+"/lint" && (strings.Contains(n, ").Execute") || strings.Contains(n, "CheckEffective") || strings.Contains(n, "checkEffective")) {
			reachAll[n] = true
		}
		if ff.Pkg == modPath && (strings.Contains(n, "Lint") || strings.Contains(n, "update") || strings.Contains(n, "execute")) {
			reachAll[n] = true
		}
	}
	return reachAll, appliesOf
}

// ---------- facts established by CheckApplies (schema G3) ---------------------------
//
// The framework calls Execute only after CheckApplies returned true on the same object and
// instance (ZlProofs.Props.C04.execute_only_after_applies), lints do not write the object (C05),
// so whatever CheckApplies==true implies about the object still holds inside Execute.

type factSet struct {
	top bool // vacuous (the return is the constant false)
	m   map[string]bool
}

func (a factSet) inter(b factSet) factSet {
	if a.top {
		return b
	}
	if b.top {
		return a
	}
	out := factSet{m: map[string]bool{}}
	for k := range a.m {
		if b.m[k] {
			out.m[k] = true
		}
	}
	return out
}

func (a factSet) union(b factSet) factSet {
	if a.top || b.top {
		return factSet{top: true}
	}
	out := factSet{m: map[string]bool{}}
	for k := range a.m {
		out.m[k] = true
	}
	for k := range b.m {
		out.m[k] = true
	}
	return out
}

// canonKey: like valueKey but with parameter names replaced by roles, so that keys agree across functions.
func canonKey(v ssa.Value) string {
	k := valueKey(v, 0)
	if k == "" || strings.HasPrefix(k, "V:") {
		return ""
	}
	f := v.Parent()
	if f == nil {
		return k
	}
	for i, p := range f.Params {
		role := ""
		if objTypeName(p.Type()) != "" {
			role = "OBJ"
		} else if i == 0 && f.Signature.Recv() != nil {
			role = "RECV"
		}
		if role != "" {
			k = strings.ReplaceAll(k, "P:"+p.Name()+".", role+".")
			k = strings.ReplaceAll(k, "P:"+p.Name()+")", role+")")
			if k == "P:"+p.Name() {
				k = role
			}
		}
	}
	if strings.Contains(k, "P:") {
		return ""
	}
	return k
}

func extKeyOfCall(c *ssa.Call, fname string) string {
	callee := c.Common().StaticCallee()
	if callee == nil || callee.String() != modPath+"/util."+fname || len(c.Common().Args) != 2 {
		return ""
	}
	if objTypeName(c.Common().Args[0].Type()) == "" {
		return ""
	}
	// the OID argument: load of a package-level variable
	if u, ok := c.Common().Args[1].(*ssa.UnOp); ok && u.Op == token.MUL {
		if g, ok := u.X.(*ssa.Global); ok {
			return g.String()
		}
	}
	return ""
}

func atomsOfCond(f *ssa.Function, v ssa.Value, pol bool) factSet {
	out := factSet{m: map[string]bool{}}
	switch x := v.(type) {
	case *ssa.UnOp:
		if x.Op == token.NOT {
			return atomsOfCond(f, x.X, !pol)
		}
	case *ssa.Const:
		if x.Value != nil && x.Value.Kind() == constant.Bool && constant.BoolVal(x.Value) != pol {
			return factSet{top: true}
		}
	case *ssa.Call:
		if pol {
			if k := extKeyOfCall(x, "IsExtInCert"); k != "" {
				out.m["ext:"+k] = true
			}
		}
	case *ssa.Extract:
		if ta, ok := x.Tuple.(*ssa.TypeAssert); ok && x.Index == 1 && pol {
			if k := canonKey(ta.X); k != "" {
				out.m["istype:"+k+":"+types.TypeString(ta.AssertedType, nil)] = true
			}
		}
	case *ssa.BinOp:
		isNil := func(y ssa.Value) bool { c, ok := y.(*ssa.Const); return ok && c.IsNil() }
		op := x.Op
		if !pol {
			op = negRel(op)
		}
		if isNil(x.Y) || isNil(x.X) {
			other := x.X
			if isNil(x.X) {
				other = x.Y
			}
			if op == token.NEQ {
				if k := canonKey(other); k != "" {
					out.m["nonnil:"+k] = true
				}
				if c, ok := other.(*ssa.Call); ok {
					if k := extKeyOfCall(c, "GetExtFromCert"); k != "" {
						out.m["ext:"+k] = true
					}
				}
			}
			return out
		}
		if kc, ok := ssaConstInt(x.Y); ok {
			// len(x) REL k
			if lc, ok := x.X.(*ssa.Call); ok {
				if bi, ok := lc.Common().Value.(*ssa.Builtin); ok && bi.Name() == "len" {
					if k := canonKey(lc.Common().Args[0]); k != "" {
						lb := int64(-1)
						switch op {
						case token.GTR:
							lb = kc + 1
						case token.GEQ, token.EQL:
							lb = kc
						case token.NEQ:
							if kc == 0 {
								lb = 1
							}
						}
						for i := int64(1); i <= lb && i <= 8; i++ {
							out.m[fmt.Sprintf("lenge:%s:%d", k, i)] = true
						}
					}
				}
			} else if op == token.EQL {
				if k := canonKey(x.X); k != "" {
					out.m[fmt.Sprintf("eq:%s:%d", k, kc)] = true
				}
			}
		}
	}
	return out
}

func atomsAtBlock(f *ssa.Function, b *ssa.BasicBlock) factSet {
	out := factSet{m: map[string]bool{}}
	for _, c := range domConds(b) {
		out = out.union(atomsOfCond(f, c.v, c.pol))
	}
	return out
}

func atomsOfReturn(f *ssa.Function, v ssa.Value, b *ssa.BasicBlock, seen map[ssa.Value]bool) factSet {
	base := atomsAtBlock(f, b)
	if ph, ok := v.(*ssa.Phi); ok && !seen[v] {
		seen[v] = true
		acc := factSet{top: true}
		for i, e := range ph.Edges {
			acc = acc.inter(atomsOfReturn(f, e, ph.Block().Preds[i], seen))
		}
		return base.union(acc)
	}
	return base.union(atomsOfCond(f, v, true))
}

var appliesFactsMemo = map[*ssa.Function]factSet{}

func appliesFacts(ap *ssa.Function) factSet {
	if r, ok := appliesFactsMemo[ap]; ok {
		return r
	}
	acc := factSet{top: true}
	for _, b := range ap.Blocks {
		for _, in := range b.Instrs {
			if ret, ok := in.(*ssa.Return); ok && len(ret.Results) == 1 {
				acc = acc.inter(atomsOfReturn(ap, ret.Results[0], b, map[ssa.Value]bool{}))
			}
		}
	}
	if acc.top {
		acc = factSet{m: map[string]bool{}} // CheckApplies never returns true: nothing to rely on
	}
	appliesFactsMemo[ap] = acc
	return acc
}

// impliedByApplies: does every CheckApplies that reaches f establish the fact?
func impliedByApplies(f *ssa.Function, fact string, appliesOf map[string][]*ssa.Function) bool {
	aps := appliesOf[topFunc(f).String()]
	if len(aps) == 0 {
		return false
	}
	for _, ap := range aps {
		if !appliesFacts(ap).m[fact] {
			return false
		}
	}
	return true
}
