package main

import (
	"fmt"
	"go/constant"
	"go/types"
	"sort"
	"strings"

	"golang.org/x/tools/go/packages"
	"golang.org/x/tools/go/ssa"
)

// ---------- F3: status-set analysis ----------------------------------------

const nilMark = -1000 // a nil *LintResult

type statusSet struct {
	vals map[int]bool
	unk  string
}

func newSet() *statusSet { return &statusSet{vals: map[int]bool{}} }
func (s *statusSet) add(o *statusSet) {
	for k := range o.vals {
		s.vals[k] = true
	}
	if s.unk == "" {
		s.unk = o.unk
	}
}
func (s *statusSet) setUnk(format string, a ...interface{}) {
	if s.unk == "" {
		s.unk = fmt.Sprintf(format, a...)
	}
}

func isLintResultPtr(t types.Type) bool {
	p, ok := t.(*types.Pointer)
	if !ok {
		return false
	}
	n, ok := p.Elem().(*types.Named)
	return ok && n.Obj().Name() == "LintResult" && n.Obj().Pkg() != nil && n.Obj().Pkg().Path() == modPath+"/lint"
}

func isLintStatus(t types.Type) bool {
	n, ok := t.(*types.Named)
	return ok && n.Obj().Name() == "LintStatus" && n.Obj().Pkg() != nil && n.Obj().Pkg().Path() == modPath+"/lint"
}

type statusAnalysis struct {
	funcMemo   map[string]*statusSet // key: func + "#" + result index
	inProgress map[string]bool
}

func newStatusAnalysis() *statusAnalysis {
	return &statusAnalysis{funcMemo: map[string]*statusSet{}, inProgress: map[string]bool{}}
}

// resultOf returns the status set of result #idx of fn (a *LintResult or a LintStatus).
func (a *statusAnalysis) resultOf(fn *ssa.Function, idx int) *statusSet {
	key := fmt.Sprintf("%s#%d", fn.String(), idx)
	if s, ok := a.funcMemo[key]; ok {
		return s
	}
	out := newSet()
	if a.inProgress[key] {
		return out // recursion: least fixpoint contribution
	}
	if fn.Blocks == nil {
		out.setUnk("no body for %s", fn.String())
		return out
	}
	a.inProgress[key] = true
	for _, b := range fn.Blocks {
		for _, in := range b.Instrs {
			ret, ok := in.(*ssa.Return)
			if !ok || idx >= len(ret.Results) {
				continue
			}
			v := ret.Results[idx]
			s := a.value(v, map[ssa.Value]bool{})
			// the `if r := helper(); r != nil { return r }` idiom: a nil that can
			// only flow here through a value tested non-nil on the dominating branch
			if s.vals[nilMark] && nonNilOnPath(v, b) {
				c := newSet()
				c.add(s)
				delete(c.vals, nilMark)
				s = c
			}
			out.add(s)
		}
	}
	delete(a.inProgress, key)
	a.funcMemo[key] = out
	return out
}

// nonNilOnPath reports whether block b is dominated by the true-branch of `v != nil`
// (or the false-branch of `v == nil`).
func nonNilOnPath(v ssa.Value, b *ssa.BasicBlock) bool {
	for d := b; d != nil; d = d.Idom() {
		idom := d.Idom()
		if idom == nil {
			break
		}
		ifi, ok := idom.Instrs[len(idom.Instrs)-1].(*ssa.If)
		if !ok {
			continue
		}
		bin, ok := ifi.Cond.(*ssa.BinOp)
		if !ok {
			continue
		}
		isNil := func(x ssa.Value) bool {
			c, ok := x.(*ssa.Const)
			return ok && c.IsNil()
		}
		var other ssa.Value
		if isNil(bin.Y) {
			other = bin.X
		} else if isNil(bin.X) {
			other = bin.Y
		} else {
			continue
		}
		if other != v {
			continue
		}
		// which successor dominates d?
		succIdx := -1
		for i, s := range idom.Succs {
			if s == d || s.Dominates(d) {
				if len(s.Preds) == 1 {
					succIdx = i
				}
			}
		}
		if (bin.Op.String() == "!=" && succIdx == 0) || (bin.Op.String() == "==" && succIdx == 1) {
			return true
		}
	}
	return false
}

func (a *statusAnalysis) value(v ssa.Value, seen map[ssa.Value]bool) *statusSet {
	out := newSet()
	if seen[v] {
		return out
	}
	seen[v] = true
	switch x := v.(type) {
	case *ssa.Const:
		if x.IsNil() {
			out.vals[nilMark] = true
		} else if x.Value != nil && x.Value.Kind() == constant.Int {
			n, _ := constant.Int64Val(x.Value)
			out.vals[int(n)] = true
		} else {
			out.setUnk("odd constant %s", x.String())
		}
	case *ssa.Phi:
		for _, e := range x.Edges {
			out.add(a.value(e, seen))
		}
	case *ssa.Alloc:
		if isLintResultPtr(x.Type()) {
			out.add(a.allocStatuses(x))
		} else {
			// a local variable holding a *LintResult or LintStatus: union of stores
			out.add(a.storesTo(x, seen))
		}
	case *ssa.UnOp:
		if x.Op.String() == "*" {
			out.add(a.loadFrom(x.X, seen))
		} else {
			out.setUnk("unop %s", x.String())
		}
	case *ssa.Call:
		out.add(a.call(x, 0, seen))
	case *ssa.Extract:
		if c, ok := x.Tuple.(*ssa.Call); ok {
			out.add(a.call(c, x.Index, seen))
		} else {
			out.setUnk("extract from %T", x.Tuple)
		}
	case *ssa.ChangeType:
		out.add(a.value(x.X, seen))
	case *ssa.Convert:
		out.add(a.value(x.X, seen))
	case *ssa.MakeInterface:
		out.add(a.value(x.X, seen))
	case *ssa.Parameter:
		out.add(a.param(x, seen))
	case *ssa.FreeVar:
		out.setUnk("free variable %s in %s", x.Name(), x.Parent().String())
	default:
		out.setUnk("unsupported value %T (%s) in %s", v, v.String(), fnName(v))
	}
	return out
}

func fnName(v ssa.Value) string {
	if p := v.Parent(); p != nil {
		return p.String()
	}
	return "?"
}

// param: union over all static call sites of the parent within the module.
func (a *statusAnalysis) param(p *ssa.Parameter, seen map[ssa.Value]bool) *statusSet {
	out := newSet()
	fn := p.Parent()
	idx := -1
	for i, q := range fn.Params {
		if q == p {
			idx = i
		}
	}
	sites := callSites[fn]
	if idx < 0 || len(sites) == 0 {
		out.setUnk("parameter %s of %s without known call sites", p.Name(), fn.String())
		return out
	}
	for _, c := range sites {
		args := c.Common().Args
		if idx < len(args) {
			out.add(a.value(args[idx], seen))
		}
	}
	return out
}

func (a *statusAnalysis) call(c *ssa.Call, idx int, seen map[ssa.Value]bool) *statusSet {
	out := newSet()
	callee := c.Common().StaticCallee()
	if callee == nil {
		out.setUnk("dynamic call %s in %s", c.String(), fnName(c))
		return out
	}
	out.add(a.resultOf(callee, idx))
	return out
}

// allocStatuses: an `&LintResult{...}` literal, new(LintResult) or `var out LintResult`:
// all constant stores to its Status field, plus Reserved (0) when some path
// reaches a return without passing a store.
func (a *statusAnalysis) allocStatuses(al *ssa.Alloc) *statusSet {
	out := newSet()
	var stores []*ssa.Store
	for _, ref := range *al.Referrers() {
		switch r := ref.(type) {
		case *ssa.FieldAddr:
			if r.X != al {
				continue
			}
			for _, rr := range *r.Referrers() {
				switch u := rr.(type) {
				case *ssa.Store:
					if u.Addr == r && r.Field == 0 {
						stores = append(stores, u)
						out.add(a.value(u.Val, map[ssa.Value]bool{}))
					}
				case ssa.CallInstruction:
					if r.Field == 0 {
						out.setUnk("address of Status passed to a call in %s", fnName(al))
					}
				}
			}
		case *ssa.Store:
			if r.Addr == al {
				out.setUnk("whole-struct store to LintResult in %s", fnName(al))
			}
		case ssa.CallInstruction:
			// the result pointer handed to a helper that may set Status
			if callee := r.Common().StaticCallee(); callee != nil && inModule(callee) {
				for i, arg := range r.Common().Args {
					if arg == ssa.Value(al) && i < len(callee.Params) {
						ps := a.fieldStoresThroughParam(callee, i, map[*ssa.Function]bool{})
						if len(ps.vals) > 0 || ps.unk != "" {
							out.add(ps)
						}
					}
				}
			}
		}
	}
	if zeroReachesReturn(al, stores) {
		out.vals[0] = true
	}
	return out
}

// fieldStoresThroughParam: statuses stored to (*param).Status inside fn (and callees it forwards the pointer to).
func (a *statusAnalysis) fieldStoresThroughParam(fn *ssa.Function, i int, seen map[*ssa.Function]bool) *statusSet {
	out := newSet()
	if seen[fn] || fn.Blocks == nil || i >= len(fn.Params) {
		return out
	}
	seen[fn] = true
	p := fn.Params[i]
	for _, ref := range *p.Referrers() {
		switch r := ref.(type) {
		case *ssa.FieldAddr:
			if r.X == p && r.Field == 0 {
				for _, rr := range *r.Referrers() {
					if st, ok := rr.(*ssa.Store); ok && st.Addr == r {
						out.add(a.value(st.Val, map[ssa.Value]bool{}))
					}
				}
			}
		case ssa.CallInstruction:
			if callee := r.Common().StaticCallee(); callee != nil && inModule(callee) {
				for j, arg := range r.Common().Args {
					if arg == ssa.Value(p) {
						out.add(a.fieldStoresThroughParam(callee, j, seen))
					}
				}
			}
		}
	}
	return out
}

// zeroReachesReturn: can control reach a Return from the allocation without
// executing one of the given stores?
func zeroReachesReturn(al *ssa.Alloc, stores []*ssa.Store) bool {
	storeIdx := map[*ssa.BasicBlock]int{} // index of first store in block
	for _, st := range stores {
		b := st.Block()
		for i, in := range b.Instrs {
			if in == ssa.Instruction(st) {
				if old, ok := storeIdx[b]; !ok || i < old {
					storeIdx[b] = i
				}
			}
		}
	}
	// scan a block from instruction index `from`; returns (hitReturn, defined)
	scan := func(b *ssa.BasicBlock, from int) (bool, bool) {
		for i := from; i < len(b.Instrs); i++ {
			if si, ok := storeIdx[b]; ok && si == i {
				return false, true
			}
			if _, ok := b.Instrs[i].(*ssa.Return); ok {
				return true, false
			}
		}
		return false, false
	}
	start := 0
	for i, in := range al.Block().Instrs {
		if in == ssa.Instruction(al) {
			start = i + 1
		}
	}
	if ret, def := scan(al.Block(), start); ret {
		return true
	} else if def {
		return false
	}
	visited := map[*ssa.BasicBlock]bool{}
	stack := append([]*ssa.BasicBlock{}, al.Block().Succs...)
	for len(stack) > 0 {
		b := stack[len(stack)-1]
		stack = stack[:len(stack)-1]
		if visited[b] {
			continue
		}
		visited[b] = true
		ret, def := scan(b, 0)
		if ret {
			return true
		}
		if def {
			continue
		}
		stack = append(stack, b.Succs...)
	}
	return false
}

func (a *statusAnalysis) storesTo(addr ssa.Value, seen map[ssa.Value]bool) *statusSet {
	out := newSet()
	refs := addr.Referrers()
	if refs == nil {
		out.setUnk("no referrers for %s", addr.String())
		return out
	}
	n := 0
	escapes := false
	for _, ref := range *refs {
		switch r := ref.(type) {
		case *ssa.Store:
			if r.Addr == addr {
				n++
				out.add(a.value(r.Val, seen))
			}
		case ssa.CallInstruction:
			// &v passed to a helper that assigns through the pointer
			callee := r.Common().StaticCallee()
			if callee == nil || !inModule(callee) {
				out.setUnk("address of status variable escapes to %s in %s", calleeName(r), fnName(addr))
				continue
			}
			for i, arg := range r.Common().Args {
				if arg == addr && i < len(callee.Params) {
					escapes = true
					out.add(a.storesTo(callee.Params[i], seen))
				}
			}
		}
	}
	if _, isParam := addr.(*ssa.Parameter); isParam {
		return out
	}
	if n == 0 || escapes {
		// zero value of the variable may survive
		if isLintResultPtr(deref(addr.Type())) {
			out.vals[nilMark] = true
		} else {
			out.vals[0] = true
		}
	}
	return out
}

func deref(t types.Type) types.Type {
	if p, ok := t.(*types.Pointer); ok {
		return p.Elem()
	}
	return t
}

func (a *statusAnalysis) loadFrom(addr ssa.Value, seen map[ssa.Value]bool) *statusSet {
	switch x := addr.(type) {
	case *ssa.Alloc:
		return a.storesTo(x, seen)
	case *ssa.FieldAddr:
		// res.Status read back: statuses of the struct it belongs to
		if x.Field == 0 && isLintResultPtr(x.X.Type()) {
			return a.value(x.X, seen)
		}
	case *ssa.Global:
		out := newSet()
		out.setUnk("load from global %s", x.String())
		return out
	case *ssa.Parameter:
		// *p where p points at a caller's status variable: whatever was stored there
		return newSet()
	}
	out := newSet()
	out.setUnk("load from %T (%s) in %s", addr, addr.String(), fnName(addr))
	return out
}

// ---------- call-site index --------------------------------------------------

var callSites = map[*ssa.Function][]ssa.CallInstruction{}
var allFuncs []*ssa.Function

func indexFuncs(pkgs []*packages.Package) {
	seen := map[*ssa.Function]bool{}
	var add func(f *ssa.Function)
	add = func(f *ssa.Function) {
		if f == nil || seen[f] {
			return
		}
		seen[f] = true
		allFuncs = append(allFuncs, f)
		for _, an := range f.AnonFuncs {
			add(an)
		}
	}
	for _, p := range pkgs {
		sp := prog.Package(p.Types)
		if sp == nil {
			continue
		}
		for _, m := range sp.Members {
			switch x := m.(type) {
			case *ssa.Function:
				add(x)
			case *ssa.Type:
				for _, t := range []types.Type{x.Type(), types.NewPointer(x.Type())} {
					ms := prog.MethodSets.MethodSet(t)
					for i := 0; i < ms.Len(); i++ {
						fn := prog.MethodValue(ms.At(i))
						if fn != nil && fn.Pkg == sp {
							add(fn)
						}
					}
				}
			}
		}
	}
	sort.Slice(allFuncs, func(i, j int) bool { return allFuncs[i].String() < allFuncs[j].String() })
	for _, f := range allFuncs {
		for _, b := range f.Blocks {
			for _, in := range b.Instrs {
				if ci, ok := in.(ssa.CallInstruction); ok {
					if callee := ci.Common().StaticCallee(); callee != nil {
						callSites[callee] = append(callSites[callee], ci)
					}
				}
			}
		}
	}
}

func inModule(f *ssa.Function) bool {
	if f == nil {
		return false
	}
	if f.Pkg != nil {
		return strings.HasPrefix(f.Pkg.Pkg.Path(), modPath)
	}
	if f.Parent() != nil {
		return inModule(f.Parent())
	}
	if o := f.Origin(); o != nil && o != f {
		return inModule(o)
	}
	return false
}

// ---------- per-lint driver ---------------------------------------------------

func lookupFunc(full string) *ssa.Function {
	for _, f := range allFuncs {
		if f.Object() != nil {
			if fo, ok := f.Object().(*types.Func); ok && fo.FullName() == full {
				return f
			}
		}
	}
	return nil
}

// implTypeOf finds the concrete type a constructor returns (the operand of the
// MakeInterface feeding its Return).
func implTypeOf(ctor *ssa.Function) (types.Type, string) {
	var found types.Type
	for _, b := range ctor.Blocks {
		for _, in := range b.Instrs {
			ret, ok := in.(*ssa.Return)
			if !ok || len(ret.Results) != 1 {
				continue
			}
			var visit func(v ssa.Value, depth int) string
			visit = func(v ssa.Value, depth int) string {
				if depth > 8 {
					return "constructor too deep"
				}
				switch x := v.(type) {
				case *ssa.MakeInterface:
					if found != nil && !types.Identical(found, x.X.Type()) {
						return "constructor returns several types"
					}
					found = x.X.Type()
					return ""
				case *ssa.Phi:
					for _, e := range x.Edges {
						if s := visit(e, depth+1); s != "" {
							return s
						}
					}
					return ""
				case *ssa.Const:
					if x.IsNil() {
						return "constructor may return nil"
					}
				case *ssa.Call:
					if c := x.Common().StaticCallee(); c != nil && c.Blocks != nil {
						t, e := implTypeOf(c)
						if e != "" {
							return e
						}
						found = t
						return ""
					}
				case *ssa.ChangeInterface:
					return visit(x.X, depth+1)
				}
				return fmt.Sprintf("unsupported constructor result %T", v)
			}
			if s := visit(ret.Results[0], 0); s != "" {
				return nil, s
			}
		}
	}
	if found == nil {
		return nil, "no concrete type found"
	}
	return found, ""
}

func perLint(pkgs []*packages.Package) {
	sa := newStatusAnalysis()
	for _, r := range facts.Registrations {
		if r.Ctor == "" || r.CtorNil {
			r.StatusUnk = "no constructor"
			continue
		}
		ctor := lookupFunc(r.Ctor)
		if ctor == nil && r.ctorPos.IsValid() {
			for _, f := range allFuncs {
				if f.Pos() == r.ctorPos || (f.Syntax() != nil && f.Syntax().Pos() == r.ctorPos) {
					ctor = f
				}
			}
		}
		if ctor == nil {
			r.StatusUnk = "constructor " + r.Ctor + " not found (closure or external)"
			continue
		}
		t, e := implTypeOf(ctor)
		if e != "" {
			r.StatusUnk = e
			continue
		}
		r.ImplType = types.TypeString(t, func(p *types.Package) string { return p.Path() })
		exec := lookupMethod(t, ctor.Pkg.Pkg, "Execute")
		applies := lookupMethod(t, ctor.Pkg.Pkg, "CheckApplies")
		if exec == nil || applies == nil {
			r.StatusUnk = "Execute/CheckApplies not found on " + r.ImplType
			continue
		}
		s := sa.resultOf(exec, 0)
		r.StatusUnk = s.unk
		for k := range s.vals {
			if k == nilMark {
				r.MayReturnNil = true
			} else {
				r.Statuses = append(r.Statuses, k)
			}
		}
		sort.Ints(r.Statuses)
		conf := lookupMethod(t, ctor.Pkg.Pkg, "Configure")
		r.Configurable = conf != nil
		roots := []*ssa.Function{ctor, applies, exec}
		if conf != nil {
			roots = append(roots, conf)
		}
		footprint(r, roots)
		r.LoopStatuses = loopStatuses(sa, exec)
		// lints that read the signature or the whole-object bytes are reviewed by hand (C09): pin the text of every
		// function of a lint package they reach, so that an edit re-opens the review
		for _, f := range r.Reads {
			if f == "Certificate.Raw" || f == "Certificate.Signature" || f == "RevocationList.Raw" || f == "RevocationList.Signature" || f == "Response.Signature" || f == "Response.Raw" {
				var parts []string
				for _, n := range r.Reach {
					if ff := facts.Funcs[n]; ff != nil && ff.fn != nil && strings.HasPrefix(ff.Pkg, modPath+"/lints/") {
						parts = append(parts, n+"="+declText(ff.fn))
					}
				}
				sort.Strings(parts)
				r.SensitiveBodyHash = sha(strings.Join(parts, "\n"))
				break
			}
		}
	}
}

func lookupMethod(t types.Type, pkg *types.Package, name string) *ssa.Function {
	sel := prog.MethodSets.MethodSet(t).Lookup(pkg, name)
	if sel == nil {
		return nil
	}
	return prog.MethodValue(sel)
}
