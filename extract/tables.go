package main

import (
	"go/ast"
	"go/constant"
	"go/token"
	"go/types"
	"reflect"
	"sort"
	"strconv"
	"strings"
	"time"

	"golang.org/x/tools/go/packages"
)

type DateVar struct {
	Name  string `json:"name"`
	Unix  int64  `json:"unix"`
	Nsec  int64  `json:"nsec"`
	Alias string `json:"alias,omitempty"`
	Unk   string `json:"unknown,omitempty"`
}

type TLDEntry struct {
	Key   string `json:"key"`
	GTLD  string `json:"gtld"`
	Deleg string `json:"deleg"`
	Rem   string `json:"rem"`
}

type OIDVar struct {
	Name string `json:"name"`
	Arcs []int  `json:"arcs"`
}

type Field struct {
	Name string `json:"name"`
	Type string `json:"type"`
	Tag  string `json:"tag"`
	JSON string `json:"json"`
}

func constInt(p *packages.Package, e ast.Expr) (int64, bool) {
	if tv, ok := p.TypesInfo.Types[e]; ok && tv.Value != nil {
		if v, ok := constant.Int64Val(constant.ToInt(tv.Value)); ok {
			return v, true
		}
	}
	return 0, false
}

func constStr(p *packages.Package, e ast.Expr) (string, bool) {
	if tv, ok := p.TypesInfo.Types[e]; ok && tv.Value != nil && tv.Value.Kind() == constant.String {
		return constant.StringVal(tv.Value), true
	}
	return "", false
}

func findFunc(p *packages.Package, recv, name string) *ast.FuncDecl {
	for _, f := range p.Syntax {
		for _, d := range f.Decls {
			fd, ok := d.(*ast.FuncDecl)
			if !ok || fd.Name.Name != name {
				continue
			}
			if recv == "" && fd.Recv == nil {
				return fd
			}
			if recv != "" && fd.Recv != nil && len(fd.Recv.List) == 1 {
				t := fd.Recv.List[0].Type
				if s, ok := t.(*ast.StarExpr); ok {
					t = s.X
				}
				if id, ok := t.(*ast.Ident); ok && id.Name == recv {
					return fd
				}
			}
		}
	}
	return nil
}

func findVar(p *packages.Package, name string) ast.Expr {
	for _, f := range p.Syntax {
		for _, d := range f.Decls {
			gd, ok := d.(*ast.GenDecl)
			if !ok || gd.Tok != token.VAR {
				continue
			}
			for _, s := range gd.Specs {
				vs := s.(*ast.ValueSpec)
				for i, n := range vs.Names {
					if n.Name == name && i < len(vs.Values) {
						return vs.Values[i]
					}
				}
			}
		}
	}
	return nil
}

func tables(byPath map[string]*packages.Package) {
	lp := byPath[modPath+"/lint"]
	up := byPath[modPath+"/util"]
	rp := byPath[modPath]
	if lp == nil || up == nil || rp == nil {
		errf("core packages missing")
		return
	}
	T := facts.Tables

	// ---- LintStatus constants, String(), label table
	statusConsts := map[string]int64{}
	sourceConsts := map[string]string{}
	sc := lp.Types.Scope()
	for _, n := range sc.Names() {
		c, ok := sc.Lookup(n).(*types.Const)
		if !ok {
			continue
		}
		switch c.Type().String() {
		case modPath + "/lint.LintStatus":
			v, _ := constant.Int64Val(c.Val())
			statusConsts[n] = v
		case modPath + "/lint.LintSource":
			sourceConsts[n] = constant.StringVal(c.Val())
		}
	}
	T["status_consts"] = statusConsts
	T["source_consts"] = sourceConsts

	statusString := map[string]string{}
	defaultString := "?"
	if fd := findFunc(lp, "LintStatus", "String"); fd != nil {
		ast.Inspect(fd.Body, func(n ast.Node) bool {
			cc, ok := n.(*ast.CaseClause)
			if !ok {
				return true
			}
			ret := ""
			okRet := false
			for _, st := range cc.Body {
				if r, ok := st.(*ast.ReturnStmt); ok && len(r.Results) == 1 {
					ret, okRet = constStr(lp, r.Results[0])
				}
			}
			if !okRet {
				errf("LintStatus.String: non-constant return")
				return true
			}
			if cc.List == nil {
				defaultString = ret
			}
			for _, e := range cc.List {
				if v, ok := constInt(lp, e); ok {
					statusString[strconv.FormatInt(v, 10)] = ret
				} else {
					errf("LintStatus.String: non-constant case")
				}
			}
			return true
		})
	} else {
		errf("LintStatus.String not found")
	}
	T["status_string"] = statusString
	T["status_string_default"] = defaultString

	// StatusLabelToLintStatus: entries `X.String(): Y`
	var labelTable [][2]int64
	if e := findVar(lp, "StatusLabelToLintStatus"); e != nil {
		if cl, ok := e.(*ast.CompositeLit); ok {
			for _, el := range cl.Elts {
				kv, ok := el.(*ast.KeyValueExpr)
				if !ok {
					errf("StatusLabelToLintStatus: odd element")
					continue
				}
				val, ok2 := constInt(lp, kv.Value)
				var key int64 = -1000
				okKey := false
				if call, ok := kv.Key.(*ast.CallExpr); ok {
					if sel, ok := call.Fun.(*ast.SelectorExpr); ok && sel.Sel.Name == "String" {
						key, okKey = constInt(lp, sel.X)
					}
				}
				if !okKey || !ok2 {
					errf("StatusLabelToLintStatus: unresolved element %s", exprString(el))
					continue
				}
				labelTable = append(labelTable, [2]int64{key, val})
			}
		}
	} else {
		errf("StatusLabelToLintStatus not found")
	}
	T["status_label_table"] = labelTable

	// ---- LintSource case lists
	T["unmarshal_cases"] = sourceCases(lp, "UnmarshalJSON", true)
	T["fromstring_cases"] = sourceCases(lp, "FromString", false)

	// ---- struct tags
	T["struct_ResultSet"] = structFields(rp, "ResultSet")
	T["struct_LintResult"] = structFields(lp, "LintResult")
	T["struct_LintMetadata"] = structFields(lp, "LintMetadata")
	T["struct_Profile"] = structFields(lp, "Profile")

	// Version constant
	if c, ok := rp.Types.Scope().Lookup("Version").(*types.Const); ok {
		v, _ := constant.Int64Val(c.Val())
		T["version"] = v
	} else {
		errf("Version const not found")
	}

	// ---- dates
	var dates []DateVar
	for _, f := range up.Syntax {
		for _, d := range f.Decls {
			gd, ok := d.(*ast.GenDecl)
			if !ok || gd.Tok != token.VAR {
				continue
			}
			for _, s := range gd.Specs {
				vs := s.(*ast.ValueSpec)
				for i, n := range vs.Names {
					obj := up.TypesInfo.Defs[n]
					if obj == nil || obj.Type().String() != "time.Time" || i >= len(vs.Values) {
						continue
					}
					dv := DateVar{Name: n.Name}
					switch v := vs.Values[i].(type) {
					case *ast.Ident:
						dv.Alias = v.Name
					case *ast.CallExpr:
						if exprString(v.Fun) == "time.Date" && len(v.Args) == 8 && exprString(v.Args[7]) == "time.UTC" {
							var a [7]int64
							good := true
							for k := 0; k < 7; k++ {
								x, ok := constInt(up, v.Args[k])
								if !ok {
									good = false
								}
								a[k] = x
							}
							if good {
								t := time.Date(int(a[0]), time.Month(a[1]), int(a[2]), int(a[3]), int(a[4]), int(a[5]), int(a[6]), time.UTC)
								dv.Unix = t.Unix()
								dv.Nsec = int64(t.Nanosecond())
							} else {
								dv.Unk = "non-constant time.Date args"
							}
						} else {
							dv.Unk = "not time.Date(...,time.UTC): " + exprString(v)
						}
					default:
						dv.Unk = "unrecognised initialiser"
					}
					dates = append(dates, dv)
				}
			}
		}
	}
	byName := map[string]*DateVar{}
	for i := range dates {
		byName[dates[i].Name] = &dates[i]
	}
	for i := range dates {
		if dates[i].Alias != "" {
			if t, ok := byName[dates[i].Alias]; ok && t.Alias == "" {
				dates[i].Unix, dates[i].Nsec, dates[i].Unk = t.Unix, t.Nsec, t.Unk
			} else {
				dates[i].Unk = "unresolved alias"
			}
		}
	}
	sort.Slice(dates, func(i, j int) bool { return dates[i].Name < dates[j].Name })
	T["dates"] = dates

	// ---- TLD map
	var tlds []TLDEntry
	if e := findVar(up, "tldMap"); e != nil {
		cl, _ := e.(*ast.CompositeLit)
		if cl == nil {
			errf("tldMap: not a composite literal")
		} else {
			for _, el := range cl.Elts {
				kv, ok := el.(*ast.KeyValueExpr)
				if !ok {
					errf("tldMap: odd element")
					continue
				}
				k, ok1 := constStr(up, kv.Key)
				inner, ok2 := kv.Value.(*ast.CompositeLit)
				if !ok1 || !ok2 {
					errf("tldMap: unresolved element")
					continue
				}
				te := TLDEntry{Key: k}
				for _, ie := range inner.Elts {
					ikv, ok := ie.(*ast.KeyValueExpr)
					if !ok {
						errf("tldMap[%s]: positional fields", k)
						continue
					}
					s, okS := constStr(up, ikv.Value)
					if !okS {
						errf("tldMap[%s]: non-constant field", k)
					}
					switch exprString(ikv.Key) {
					case "GTLD":
						te.GTLD = s
					case "DelegationDate":
						te.Deleg = s
					case "RemovalDate":
						te.Rem = s
					}
				}
				tlds = append(tlds, te)
			}
		}
	} else {
		errf("tldMap not found")
	}
	T["tld_source_order_len"] = len(tlds)
	sort.SliceStable(tlds, func(i, j int) bool { return tlds[i].Key < tlds[j].Key })
	T["tld"] = tlds

	// ---- reserved networks: every string literal that parses like a CIDR inside util/ip.go init's map
	var nets []string
	if fd := findFunc(up, "", "init"); fd != nil {
		// there may be several init functions; scan all of ip.go
	}
	for _, f := range up.Syntax {
		if !strings.HasSuffix(fset.Position(f.Pos()).Filename, "/util/ip.go") {
			continue
		}
		for _, d := range f.Decls {
			fd, ok := d.(*ast.FuncDecl)
			if !ok || fd.Name.Name != "init" || fd.Body == nil {
				continue
			}
			ast.Inspect(fd.Body, func(n ast.Node) bool {
				if bl, ok := n.(*ast.BasicLit); ok && bl.Kind == token.STRING {
					s, _ := strconv.Unquote(bl.Value)
					if strings.Contains(s, "/") && !strings.Contains(s, " ") {
						nets = append(nets, s)
					}
				}
				return true
			})
		}
	}
	sort.Strings(nets)
	T["reserved_networks"] = nets

	// ---- primes
	var primes []int64
	if e := findVar(up, "bigIntPrimes"); e != nil {
		if cl, ok := e.(*ast.CompositeLit); ok {
			for _, el := range cl.Elts {
				call, ok := el.(*ast.CallExpr)
				if !ok || exprString(call.Fun) != "big.NewInt" || len(call.Args) != 1 {
					errf("bigIntPrimes: odd element %s", exprString(el))
					continue
				}
				v, ok := constInt(up, call.Args[0])
				if !ok {
					errf("bigIntPrimes: non-constant")
					continue
				}
				primes = append(primes, v)
			}
		}
	} else {
		errf("bigIntPrimes not found")
	}
	T["primes"] = primes

	// ---- name attribute leaves (util/names.go) and the prefix
	var leaves []int64
	if e := findVar(up, "nameAttributeLeaves"); e != nil {
		if cl, ok := e.(*ast.CompositeLit); ok {
			for _, el := range cl.Elts {
				kv, ok := el.(*ast.KeyValueExpr)
				if !ok {
					errf("nameAttributeLeaves: odd element")
					continue
				}
				v, ok := constInt(up, kv.Key)
				if !ok {
					errf("nameAttributeLeaves: non-constant key")
					continue
				}
				leaves = append(leaves, v)
			}
		}
	} else {
		errf("nameAttributeLeaves not found")
	}
	sort.Slice(leaves, func(i, j int) bool { return leaves[i] < leaves[j] })
	T["name_attribute_leaves"] = leaves
	var napfx []int64
	if e := findVar(up, "nameAttributePrefix"); e != nil {
		if cl, ok := e.(*ast.CompositeLit); ok {
			for _, el := range cl.Elts {
				if v, ok := constInt(up, el); ok {
					napfx = append(napfx, v)
				}
			}
		}
	}
	T["name_attribute_prefix"] = napfx

	// ---- OIDs in util
	var oids []OIDVar
	for _, f := range up.Syntax {
		for _, d := range f.Decls {
			gd, ok := d.(*ast.GenDecl)
			if !ok || gd.Tok != token.VAR {
				continue
			}
			for _, s := range gd.Specs {
				vs := s.(*ast.ValueSpec)
				for i, n := range vs.Names {
					if i >= len(vs.Values) {
						continue
					}
					cl, ok := vs.Values[i].(*ast.CompositeLit)
					if !ok {
						continue
					}
					obj := up.TypesInfo.Defs[n]
					if obj == nil || !strings.HasSuffix(obj.Type().String(), "asn1.ObjectIdentifier") {
						continue
					}
					ov := OIDVar{Name: n.Name}
					for _, el := range cl.Elts {
						v, ok := constInt(up, el)
						if !ok {
							errf("oid %s: non-constant arc", n.Name)
						}
						ov.Arcs = append(ov.Arcs, int(v))
					}
					oids = append(oids, ov)
				}
			}
		}
	}
	sort.Slice(oids, func(i, j int) bool { return oids[i].Name < oids[j].Name })
	T["oids"] = oids
}

type SourceCase struct {
	Case     string `json:"case"`     // const identifier in the case list
	Value    string `json:"value"`    // its string value
	Assigned string `json:"assigned"` // for FromString: identifier assigned to *s ("" if the generic LintSource(x) conversion)
	Accept   bool   `json:"accept"`
}

func sourceCases(lp *packages.Package, method string, unmarshal bool) []SourceCase {
	var out []SourceCase
	fd := findFunc(lp, "LintSource", method)
	if fd == nil {
		errf("LintSource.%s not found", method)
		return out
	}
	ast.Inspect(fd.Body, func(n ast.Node) bool {
		cc, ok := n.(*ast.CaseClause)
		if !ok || cc.List == nil {
			return true
		}
		assigned := ""
		accept := true
		for _, st := range cc.Body {
			switch s := st.(type) {
			case *ast.AssignStmt:
				if len(s.Rhs) == 1 {
					assigned = exprString(s.Rhs[0])
				}
			case *ast.ReturnStmt:
				if unmarshal && (len(s.Results) != 1 || exprString(s.Results[0]) != "nil") {
					accept = false
				}
			}
		}
		if strings.Contains(assigned, "UnknownLintSource") || assigned == "" {
			accept = false
		}
		for _, e := range cc.List {
			v, ok := constStr(lp, e)
			if !ok {
				errf("LintSource.%s: non-constant case", method)
				continue
			}
			sc := SourceCase{Case: exprString(e), Value: v, Assigned: assigned, Accept: accept}
			if !unmarshal {
				// the assignment must be the same constant as the case
				if av, ok := lookupSourceConst(lp, assigned); ok {
					sc.Accept = av == v
				} else {
					sc.Accept = false
				}
			}
			out = append(out, sc)
		}
		return true
	})
	return out
}

func lookupSourceConst(lp *packages.Package, name string) (string, bool) {
	c, ok := lp.Types.Scope().Lookup(name).(*types.Const)
	if !ok || c.Val().Kind() != constant.String {
		return "", false
	}
	return constant.StringVal(c.Val()), true
}

func structFields(p *packages.Package, name string) []Field {
	var out []Field
	tn, ok := p.Types.Scope().Lookup(name).(*types.TypeName)
	if !ok {
		errf("struct %s not found", name)
		return out
	}
	st, ok := tn.Type().Underlying().(*types.Struct)
	if !ok {
		errf("%s is not a struct", name)
		return out
	}
	for i := 0; i < st.NumFields(); i++ {
		f := st.Field(i)
		tag := st.Tag(i)
		out = append(out, Field{Name: f.Name(), Type: f.Type().String(), Tag: tag, JSON: reflect.StructTag(tag).Get("json")})
	}
	return out
}
