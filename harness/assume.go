package main

// Assumption monitor (C02): the parser facts the reviewed panic-capable sites rest on (A-PARSE-*, A-PARSEDNS,
// A-PARSE-NAME, A-PARSE-KEY, A-PARSE-TIME in /verif/c02_reviewed_sites.json) are evaluated on every object
// the sweep parses, mutants included. An object on which one fails is reported as a C02 violation of the
// *assumption* (the check's own premise is false), with the object as replay.

import (
	"crypto/ecdsa"
	"crypto/rsa"
	"fmt"
	"reflect"

	"github.com/zmap/zcrypto/encoding/asn1"
	"github.com/zmap/zcrypto/x509"
	"github.com/zmap/zcrypto/x509/pkix"
	"github.com/zmap/zlint/v3/util"
)

func (s *sweepState) assume(o *Obj, name string, ok bool, detail string) {
	s.rep.count("assumption:" + name + ":checked")
	if !ok {
		s.rep.violate(Violation{"C02", fmt.Sprintf("parser assumption %s does not hold on %s: %s", name, o.Name, detail), "assumption:" + name, replayOf(o, map[string]interface{}{"assumption": name, "detail": detail})})
	}
}

func nameSlicesNilOrNonEmpty(n *pkix.Name) (bool, string) {
	v := reflect.ValueOf(*n)
	for i := 0; i < v.NumField(); i++ {
		f := v.Field(i)
		if f.Kind() == reflect.Slice && f.Type().Elem().Kind() == reflect.String {
			if !f.IsNil() && f.Len() == 0 {
				return false, v.Type().Field(i).Name + " is non-nil and empty"
			}
		}
	}
	return true, ""
}

func (s *sweepState) checkAssumptions(o *Obj) {
	if !s.props["C02"] || o.Kind != "cert" || o.Cert == nil {
		return
	}
	c := o.Cert
	// A-PARSE-NAME
	ok, d := nameSlicesNilOrNonEmpty(&c.Subject)
	s.assume(o, "A-PARSE-NAME(subject)", ok, d)
	ok, d = nameSlicesNilOrNonEmpty(&c.Issuer)
	s.assume(o, "A-PARSE-NAME(issuer)", ok, d)
	// A-PARSE: CABFOrganizationIdentifier set whenever the extension is present
	if util.IsExtInCert(c, util.CabfExtensionOrganizationIdentifier) {
		s.assume(o, "A-PARSE(CABFOrganizationIdentifier)", c.CABFOrganizationIdentifier != nil, "extension 2.23.140.3.1 present but the parsed field is nil")
	}
	// A-PARSE: pointer lists hold no nil
	for i, sct := range c.SignedCertificateTimestampList {
		s.assume(o, "A-PARSE(SCT non-nil)", sct != nil, fmt.Sprintf("SignedCertificateTimestampList[%d] is nil", i))
	}
	for i, t := range c.TorServiceDescriptors {
		s.assume(o, "A-PARSE(TorServiceDescriptor non-nil)", t != nil, fmt.Sprintf("TorServiceDescriptors[%d] is nil", i))
	}
	// A-PARSE: BasicConstraintsValid implies the extension is in the map
	if c.BasicConstraintsValid {
		s.assume(o, "A-PARSE(BasicConstraintsValid)", util.GetExtFromCert(c, util.BasicConstOID) != nil, "BasicConstraintsValid without a basicConstraints extension")
	}
	// A-PARSEDNS and A-MEMO
	p1, p2 := c.GetParsedDNSNames(false), c.GetParsedDNSNames(false)
	s.assume(o, "A-MEMO(GetParsedDNSNames)", len(p1) == len(p2) && len(p1) == len(c.DNSNames), fmt.Sprintf("%d / %d parsed names for %d DNSNames", len(p1), len(p2), len(c.DNSNames)))
	for i := range p1 {
		if p1[i].ParseError == nil {
			s.assume(o, "A-PARSEDNS(ParsedDomain)", p1[i].ParsedDomain != nil, fmt.Sprintf("DNSNames[%d]=%q: ParseError nil and ParsedDomain nil", i, p1[i].DomainString))
		}
	}
	if c.Subject.CommonName != "" {
		cn := c.GetParsedSubjectCommonName(false)
		if cn.ParseError == nil {
			s.assume(o, "A-PARSEDNS(CommonName)", cn.ParsedDomain != nil, "ParseError nil and ParsedDomain nil for the common name")
		}
	}
	// A-PARSE-KEY
	switch c.PublicKeyAlgorithm {
	case x509.RSA:
		k, isRSA := c.PublicKey.(*rsa.PublicKey)
		s.assume(o, "A-PARSE-KEY(RSA)", isRSA && k != nil && k.N != nil, fmt.Sprintf("PublicKeyAlgorithm RSA with key %T", c.PublicKey))
	case x509.ECDSA:
		switch k := c.PublicKey.(type) {
		case *ecdsa.PublicKey:
			s.assume(o, "A-PARSE-KEY(ECDSA)", k != nil && k.Curve != nil && k.Curve.Params() != nil, "ECDSA key without curve")
		case *x509.AugmentedECDSA:
			s.assume(o, "A-PARSE-KEY(ECDSA)", k != nil && k.Pub != nil && k.Pub.Curve != nil && k.Pub.Curve.Params() != nil, "augmented ECDSA key without curve")
		default:
			s.assume(o, "A-PARSE-KEY(ECDSA)", false, fmt.Sprintf("PublicKeyAlgorithm ECDSA with key %T", c.PublicKey))
		}
	}
	// A-PARSE-TIME: a validity field with the GeneralizedTime tag is long enough for the walkers that index it from the end
	d1, d2 := util.GetTimes(c)
	for i, dt := range []asn1.RawValue{d1, d2} {
		if dt.Tag == 24 || dt.Tag == 23 {
			s.assume(o, "A-PARSE-TIME", len(dt.Bytes) >= 11, fmt.Sprintf("validity field %d has tag %d and %d bytes", i, dt.Tag, len(dt.Bytes)))
		}
	}
}
