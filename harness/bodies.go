package main

// bodies: the certificate lints whose CheckApplies / Execute the extractor translated into the lint-logic
// language (facts.json: tables.bodies), run for real — a fresh instance per call, CheckApplies, then Execute
// only when it answered true — on corpus certificates, parser-accepted mutants and kit certificates, next to
// the view of the parsed certificate (every field any translated rule reads, dumped by reflection, plus
// ExtensionsMap). The Lean driver evaluates the regenerated terms on the same view.
//
//   bodies <bools> <ints> <strs> <lists> <exts> <times> <env>   →   one token per translated rule, in table order:
//                                                      P (panic) | N (CheckApplies = false) | <status>

import (
	"bufio"
	"crypto/rsa"
	stdx509 "crypto/x509"
	"encoding/asn1"
	"encoding/json"
	"fmt"
	"math/big"
	"net"
	"net/mail"
	"net/url"
	"os"
	"path/filepath"
	"reflect"
	"sort"
	"strconv"
	"strings"
	"time"

	"crypto/x509/pkix"

	zdsa "github.com/zmap/zcrypto/dsa"
	"github.com/zmap/zcrypto/x509"
	"github.com/zmap/zlint/v3/lint"
	"github.com/zmap/zlint/v3/util"
)

func init() {
	subs["bodies"] = subBodies
}

// the external functions the model takes as parameters, implemented with the real libraries; names as in
// extract/bodies.go (facts.json: tables.body_extern_fns / body_extern_preds give the ids)
var externFnImpl = map[string]func(string) (string, bool){
	"url.Parse.Scheme": func(s string) (string, bool) {
		u, err := url.Parse(s)
		if err != nil {
			return "", false
		}
		return u.Scheme, true
	},
	"url.Parse.Host": func(s string) (string, bool) {
		u, err := url.Parse(s)
		if err != nil {
			return "", false
		}
		return u.Host, true
	},
	"url.Parse.Opaque": func(s string) (string, bool) {
		u, err := url.Parse(s)
		if err != nil {
			return "", false
		}
		return u.Opaque, true
	},
	"url.Parse.Path": func(s string) (string, bool) {
		u, err := url.Parse(s)
		if err != nil {
			return "", false
		}
		return u.Path, true
	},
	"url.Parse.Hostname": func(s string) (string, bool) {
		u, err := url.Parse(s)
		if err != nil {
			return "", false
		}
		return u.Hostname(), true
	},
	"strings.ToLower": func(s string) (string, bool) { return strings.ToLower(s), true },
	"strings.ToUpper": func(s string) (string, bool) { return strings.ToUpper(s), true },
}
var externPredImpl = map[string]func(string) bool{
	"url.Parse.err":               func(s string) bool { _, err := url.Parse(s); return err != nil },
	"url.Parse.IsAbs":             func(s string) bool { u, err := url.Parse(s); return err == nil && u.IsAbs() },
	"url.Parse.User.nil":          func(s string) bool { u, err := url.Parse(s); return err == nil && u.User == nil },
	"mail.ParseAddress.err":       func(s string) bool { _, err := mail.ParseAddress(s); return err != nil },
	"util.IsFQDNOrIP":             util.IsFQDNOrIP,
	"util.IsISOCountryCode":       util.IsISOCountryCode,
	"util.IsLDHLabel":             util.IsLDHLabel,
	"util.IsInTLDMap":             util.IsInTLDMap,
	"util.HasReservedLabelPrefix": util.HasReservedLabelPrefix,
	"util.HasXNLabelPrefix":       util.HasXNLabelPrefix,
	"net.ParseIP.nil":             func(s string) bool { return net.ParseIP(s) == nil },
}

// the exported util predicates the harness can call for real; only those that are also translated (facts.json:
// tables.util_preds) are compared, so a predicate added to or leaving the fragment changes nothing here
var utilPredImpl = map[string]func(*x509.Certificate) bool{
	"CommonNameIsIP": util.CommonNameIsIP, "DNSNamesExist": util.DNSNamesExist, "HasKeyUsageOID": util.HasKeyUsageOID, "IsCACert": util.IsCACert,
	"IsDelegatedOCSPResponderCert": util.IsDelegatedOCSPResponderCert, "IsIndividualValidatedCertificate": util.IsIndividualValidatedCertificate,
	"IsLegacySMIMECertificate": util.IsLegacySMIMECertificate, "IsMailboxValidatedCertificate": util.IsMailboxValidatedCertificate,
	"IsMultipurposeSMIMECertificate": util.IsMultipurposeSMIMECertificate, "IsOrganizationValidatedCertificate": util.IsOrganizationValidatedCertificate,
	"IsRootCA": util.IsRootCA, "IsSMIMEBRCertificate": util.IsSMIMEBRCertificate, "IsSelfSigned": util.IsSelfSigned, "IsServerAuthCert": util.IsServerAuthCert,
	"IsSponsorValidatedCertificate": util.IsSponsorValidatedCertificate, "IsStrictSMIMECertificate": util.IsStrictSMIMECertificate, "IsSubCA": util.IsSubCA,
	"IsSubscriberCert": util.IsSubscriberCert, "HasEmailSAN": util.HasEmailSAN, "IsEmailProtectionCert": util.IsEmailProtectionCert,
	"IsOnionV2Cert": util.IsOnionV2Cert, "IsOnionV3Cert": util.IsOnionV3Cert,
}
var utilPredNames []string // translated ∩ callable, sorted

var bodyExternFns, bodyExternPreds []string
var bodyExternPaths map[string]bool // fields on whose strings some rule applies an external function

// the environment for a set of base strings: every external function and predicate on every string, and on the
// projections of it (two levels)
func externEnv(base []string) string {
	seen := map[string]bool{}
	var all []string
	add := func(s string) {
		if !seen[s] {
			seen[s] = true
			all = append(all, s)
		}
	}
	for _, s := range base {
		add(s)
	}
	for lvl := 0; lvl < 2; lvl++ {
		for _, s := range append([]string{}, all...) {
			for _, n := range bodyExternFns {
				if f := externFnImpl[n]; f != nil {
					if r, ok := safeFn(f, s); ok {
						add(r)
					}
				}
			}
		}
	}
	h := func(s string) string {
		if s == "" {
			return "-"
		}
		return hexs([]byte(s))
	}
	var parts []string
	for _, s := range all {
		for i, n := range bodyExternFns {
			f := externFnImpl[n]
			if f == nil {
				continue
			}
			if r, ok := safeFn(f, s); ok {
				parts = append(parts, fmt.Sprintf("f%d:%s:S%s", i, h(s), h(r)))
			} else {
				parts = append(parts, fmt.Sprintf("f%d:%s:F", i, h(s)))
			}
		}
		for i, n := range bodyExternPreds {
			p := externPredImpl[n]
			if p == nil {
				continue
			}
			v := "0"
			if safePred(p, s) {
				v = "1"
			}
			parts = append(parts, fmt.Sprintf("p%d:%s:%s", i, h(s), v))
		}
	}
	if len(parts) == 0 {
		return "."
	}
	return strings.Join(parts, ",")
}

func safeFn(f func(string) (string, bool), s string) (r string, ok bool) {
	defer func() {
		if recover() != nil {
			r, ok = "", false
		}
	}()
	return f(s)
}

func safePred(p func(string) bool, s string) (b bool) {
	defer func() {
		if recover() != nil {
			b = false
		}
	}()
	return p(s)
}

// statuses written in each translated body (from the terms), to report which were never reached
var bodyStatuses map[string][]string

type bodyField struct {
	path string
	kind string
}

func loadBodyFacts() (names []string, fields []bodyField, err error) {
	exe, _ := os.Executable()
	p := filepath.Join(filepath.Dir(filepath.Dir(exe)), "facts.json")
	if v := os.Getenv("VERIF_FACTS"); v != "" {
		p = v
	}
	data, err := os.ReadFile(p)
	if err != nil {
		return nil, nil, err
	}
	var f struct {
		Tables struct {
			Bodies []struct {
				Name string      `json:"name"`
				Body interface{} `json:"body"`
			} `json:"bodies"`
			Fields      map[string]string `json:"body_fields"`
			ExternFns   []string          `json:"body_extern_fns"`
			ExternPreds []string          `json:"body_extern_preds"`
			ExternPaths []string          `json:"body_extern_paths"`
			UtilPreds   []struct {
				Name string `json:"name"`
			} `json:"util_preds"`
		} `json:"tables"`
	}
	if err := json.Unmarshal(data, &f); err != nil {
		return nil, nil, err
	}
	utilPredNames = nil
	for _, u := range f.Tables.UtilPreds {
		if utilPredImpl[u.Name] != nil {
			utilPredNames = append(utilPredNames, u.Name)
		}
	}
	sort.Strings(utilPredNames)
	bodyStatuses = map[string][]string{}
	var walk func(t interface{}, into map[string]bool)
	walk = func(t interface{}, into map[string]bool) {
		n, ok := t.([]interface{})
		if !ok || len(n) == 0 {
			return
		}
		if tag, _ := n[0].(string); tag == "ret" && len(n) == 2 {
			into[fmt.Sprint(n[1])] = true
			return
		}
		for _, c := range n[1:] {
			walk(c, into)
		}
	}
	for _, b := range f.Tables.Bodies {
		names = append(names, b.Name)
		st := map[string]bool{}
		walk(b.Body, st)
		for k := range st {
			bodyStatuses[b.Name] = append(bodyStatuses[b.Name], k)
		}
	}
	bodyExternFns, bodyExternPreds = f.Tables.ExternFns, f.Tables.ExternPreds
	bodyExternPaths = map[string]bool{}
	for _, p := range f.Tables.ExternPaths {
		bodyExternPaths[p] = true
	}
	var keys []string
	for k := range f.Tables.Fields {
		keys = append(keys, k)
	}
	sort.Strings(keys)
	for _, k := range keys {
		fields = append(fields, bodyField{k, f.Tables.Fields[k]})
	}
	return names, fields, nil
}

// value of a selector path ("Subject.Names#Type") on the certificate
func pathValue(c *x509.Certificate, path string) (reflect.Value, string, bool) {
	proj := ""
	if i := strings.Index(path, "#"); i >= 0 {
		proj = path[i+1:]
		path = path[:i]
	}
	v := reflect.ValueOf(c).Elem()
	for _, part := range strings.Split(path, ".") {
		for v.Kind() == reflect.Ptr {
			if v.IsNil() {
				return reflect.Value{}, "", false
			}
			v = v.Elem()
		}
		if v.Kind() != reflect.Struct {
			return reflect.Value{}, "", false
		}
		v = v.FieldByName(part)
		if !v.IsValid() {
			return reflect.Value{}, "", false
		}
	}
	return v, proj, true
}

func keyPseudoField(c *x509.Certificate, name string) (string, bool) {
	big0 := func(b *big.Int) string {
		if b == nil {
			return "0"
		}
		return b.String()
	}
	rk, isRSA := c.PublicKey.(*rsa.PublicKey)
	dk, isDSA := c.PublicKey.(*zdsa.PublicKey)
	switch name {
	case "type":
		switch {
		case isRSA:
			return "1", true
		case isDSA:
			return "2", true
		}
		return "0", true
	case "rsa.N":
		if isRSA && rk != nil {
			return big0(rk.N), true
		}
		return "0", true
	case "rsa.E":
		if isRSA && rk != nil {
			return fmt.Sprint(rk.E), true
		}
		return "0", true
	case "dsa.P", "dsa.Q", "dsa.G", "dsa.Y":
		if isDSA && dk != nil {
			return big0(map[string]*big.Int{"dsa.P": dk.P, "dsa.Q": dk.Q, "dsa.G": dk.G, "dsa.Y": dk.Y}[name]), true
		}
		return "0", true
	}
	return "", false
}

func oidDots(v reflect.Value) string {
	parts := make([]string, v.Len())
	for i := range parts {
		parts[i] = fmt.Sprint(v.Index(i).Int())
	}
	if len(parts) == 0 {
		return "e"
	}
	return strings.Join(parts, ".")
}

func bodyView(c *x509.Certificate, fields []bodyField) (string, bool) {
	var bools, ints, strs, lists, times []string
	var baseStrings []string
	for id, f := range fields {
		if strings.HasPrefix(f.path, "PublicKey#") {
			// pseudo fields of the key object: the dynamic type tag (shared with extract/bodies.go: 1 = *rsa.PublicKey,
			// 2 = *zcrypto/dsa.PublicKey, 0 = anything else) and the integer fields of the key of that type (0 when the
			// key has another type: the model never reads them then — it panics instead, as the nil dereference would)
			n, ok := keyPseudoField(c, f.path[len("PublicKey#"):])
			if !ok {
				return "", false
			}
			ints = append(ints, fmt.Sprintf("%d=%s", id, n))
			continue
		}
		v, proj, ok := pathValue(c, f.path)
		if !ok {
			return "", false
		}
		switch f.kind {
		case "bool":
			b := "0"
			if v.Bool() {
				b = "1"
			}
			bools = append(bools, fmt.Sprintf("%d=%s", id, b))
		case "int":
			switch v.Kind() {
			case reflect.Uint, reflect.Uint8, reflect.Uint16, reflect.Uint32, reflect.Uint64:
				ints = append(ints, fmt.Sprintf("%d=%d", id, v.Uint()))
			default:
				ints = append(ints, fmt.Sprintf("%d=%d", id, v.Int()))
			}
		case "time":
			tm, ok := v.Interface().(time.Time)
			if !ok {
				return "", false
			}
			times = append(times, fmt.Sprintf("%d=%d.%d", id, tm.Unix(), tm.Nanosecond()))
		case "str":
			s := v.String()
			if bodyExternPaths[f.path] {
				baseStrings = append(baseStrings, s)
			}
			h := "-"
			if s != "" {
				h = hexs([]byte(s))
			}
			strs = append(strs, fmt.Sprintf("%d=%s", id, h))
		default:
			if v.Kind() != reflect.Slice {
				return "", false
			}
			nilS := "0"
			if v.IsNil() {
				nilS = "1"
			}
			var elems []string
			for i := 0; i < v.Len(); i++ {
				e := v.Index(i)
				if proj != "" {
					e = e.FieldByName(proj)
				}
				switch f.kind {
				case "lstr":
					if bodyExternPaths[f.path] {
						baseStrings = append(baseStrings, e.String())
					}
					if e.String() == "" {
						elems = append(elems, "-")
					} else {
						elems = append(elems, hexs([]byte(e.String())))
					}
				case "loid":
					elems = append(elems, oidDots(e))
				case "lint":
					elems = append(elems, fmt.Sprint(e.Int()))
				}
			}
			lists = append(lists, fmt.Sprintf("%d=%s|%d|%s", id, nilS, v.Len(), strings.Join(elems, ":")))
		}
	}
	var exts []string
	var keys []string
	for k := range c.ExtensionsMap {
		keys = append(keys, k)
	}
	sort.Strings(keys)
	for _, k := range keys {
		cr := "0"
		if c.ExtensionsMap[k].Critical {
			cr = "1"
		}
		if k == "" {
			k = "e"
		}
		exts = append(exts, k+"="+cr)
	}
	j := func(xs []string, sep string) string {
		if len(xs) == 0 {
			return "."
		}
		return strings.Join(xs, sep)
	}
	return "bodies\t" + j(bools, ",") + "\t" + j(ints, ",") + "\t" + j(strs, ",") + "\t" + j(lists, ";") + "\t" + j(exts, ",") + "\t" + j(times, ",") + "\t" + externEnv(baseStrings), true
}

func runRule(reg lint.Registry, name string, c *x509.Certificate) (tok string) {
	defer func() {
		if e := recover(); e != nil {
			tok = "P"
		}
	}()
	l := reg.CertificateLints().ByName(name)
	if l == nil {
		return "?"
	}
	inst := l.Lint()
	if !inst.CheckApplies(c) {
		return "N"
	}
	r := inst.Execute(c)
	if r == nil {
		return "nil"
	}
	return fmt.Sprint(int(r.Status))
}

func subBodies(out string, seed uint64, tier string, arg string) {
	rng := NewRNG(seed)
	rep := newReport("bodies", seed, tier)
	rep.Rule = "every certificate lint translated into the lint-logic language: fresh instance, CheckApplies, Execute only when it applies, on corpus certificates, parser-accepted mutants and kit certificates over a grid of CA / self-signed / key usage / EKU / policy / AIA / CRL-DP / subject shapes; the view (fields by reflection + ExtensionsMap) is echoed to the model; distinct = distinct views"
	ops, _ := os.Create(filepath.Join(out, "ops.txt"))
	impl, _ := os.Create(filepath.Join(out, "impl.out"))
	wo, wi := bufio.NewWriter(ops), bufio.NewWriter(impl)
	defer func() { wo.Flush(); wi.Flush(); ops.Close(); impl.Close() }()
	names, fields, err := loadBodyFacts()
	if err != nil || len(names) == 0 {
		rep.Notes = append(rep.Notes, fmt.Sprintf("no translated rules (facts: %v)", err))
		rep.write(filepath.Join(out, "report.json"))
		return
	}
	rep.Notes = append(rep.Notes, fmt.Sprintf("%d translated rules, %d fields", len(names), len(fields)))
	reg := lint.GlobalRegistry()
	seen := map[string]bool{}
	outcomes := map[string]map[string]bool{}
	run := func(c *x509.Certificate, origin string) {
		if len(c.Raw) == 0 {
			return
		}
		line, ok := bodyView(c, fields)
		if !ok {
			rep.count("view-failed")
			return
		}
		if seen[line] {
			return
		}
		seen[line] = true
		toks := make([]string, len(names))
		for i, n := range names {
			toks[i] = runRule(reg, n, c)
			if outcomes[n] == nil {
				outcomes[n] = map[string]bool{}
			}
			outcomes[n][toks[i]] = true
			// the properties themselves, on the real code: a translated rule must not panic (C02) and must respect its prefix (C06)
			if toks[i] == "P" {
				rep.count("panic:" + n)
				rep.violate(Violation{"C02", fmt.Sprintf("lint %s panics in CheckApplies/Execute called directly on a %s certificate", n, origin), "panic:" + n,
					replayOf(&Obj{Kind: "cert", Name: origin, DER: c.Raw}, map[string]interface{}{"lint": n})})
			} else if st, err := strconv.Atoi(toks[i]); err == nil && !prefixAllows(n, lint.LintStatus(st)) {
				rep.violate(Violation{"C06", fmt.Sprintf("lint %s reported %s on a %s certificate", n, lint.LintStatus(st).String(), origin), fmt.Sprintf("severity:%s:%s", n, lint.LintStatus(st).String()),
					replayOf(&Obj{Kind: "cert", Name: origin, DER: c.Raw}, map[string]interface{}{"lint": n, "status": lint.LintStatus(st).String()})})
			}
		}
		upLine, upToks := ".", ""
		if len(utilPredNames) > 0 {
			upLine = strings.Join(utilPredNames, ",")
			var vs []string
			for _, n := range utilPredNames {
				vs = append(vs, func() (r string) {
					defer func() {
						if recover() != nil {
							r = "P"
						}
					}()
					if utilPredImpl[n](c) {
						return "1"
					}
					return "0"
				}())
			}
			upToks = ";" + strings.Join(vs, ",")
			rep.count("util-predicates-compared")
		}
		fmt.Fprintln(wo, line+"\t"+upLine)
		fmt.Fprintln(wi, strings.Join(toks, ",")+upToks)
		rep.Evaluations += len(names)
		rep.distinctKey(line)
		rep.count("origin:" + origin)
		if rep.Evaluations < 20*len(names) {
			rep.sample(map[string]string{"origin": origin, "impl": strings.Join(toks, ",")})
		}
	}
	objs := loadObjects()
	nm := 2
	nk := 600
	if tier == "thorough" {
		nm, nk = 25, 12000
	}
	for _, o := range objs {
		if o.Kind != "cert" {
			continue
		}
		run(o.Cert, "corpus")
		for _, m := range mutants(o, rng, nm, rep) {
			if m.Cert != nil {
				run(m.Cert, "mutant")
			}
		}
	}
	// kit grid
	oidOf := func(s string) asn1.ObjectIdentifier {
		var o asn1.ObjectIdentifier
		for _, p := range strings.Split(s, ".") {
			n := 0
			fmt.Sscan(p, &n)
			o = append(o, n)
		}
		return o
	}
	policies := []string{"2.23.140.1.2.1", "2.23.140.1.2.2", "2.23.140.1.2.3", "2.23.140.1.1", "2.5.29.32.0", "2.23.140.1.5.1.1", "2.23.140.1.5.2.2", "2.23.140.1.5.3.3", "2.23.140.1.5.4.1", "1.3.6.1.4.1.34697.2.1", "2.23.140.1.4.1", "1.2.3.4"}
	ekus := []stdx509.ExtKeyUsage{stdx509.ExtKeyUsageAny, stdx509.ExtKeyUsageServerAuth, stdx509.ExtKeyUsageClientAuth, stdx509.ExtKeyUsageCodeSigning, stdx509.ExtKeyUsageEmailProtection, stdx509.ExtKeyUsageTimeStamping, stdx509.ExtKeyUsageOCSPSigning}
	urls := []string{"http://ocsp.example.com", "https://ocsp.example.com", "ldap://ldap.example.com/cn=x", "HTTP://upper.example.com", "http:/one-slash", "ftp://f.example.com", ""}
	strsPool := []string{"", "US", "Org", "DE", "  padded ", "XX"}
	extraOIDs := []string{"2.5.29.14", "2.5.29.35", "2.5.29.30", "2.5.29.36", "2.5.29.33", "2.5.29.54", "2.5.29.9", "2.5.29.46", "1.3.6.1.5.5.7.48.1.5", "1.3.6.1.4.1.11129.2.4.3", "2.5.29.16", "1.3.6.1.5.5.7.1.3"}
	pickS := func(pool []string, max int) []string {
		var outS []string
		for i, k := 0, rng.Intn(max+1); i < k; i++ {
			outS = append(outS, pool[rng.Intn(len(pool))])
		}
		return outS
	}
	for i := 0; i < nk; i++ {
		spec := CertSpec{IsCA: rng.Intn(3) == 0, SelfSigned: rng.Intn(4) == 0}
		spec.Subject = pkix.Name{}
		if rng.Intn(4) != 0 {
			spec.Subject.CommonName = []string{"a.example.com", "CA Name", "192.0.2.1", "x", "2001:db8::1", "a..example.com", "w*.example.com", "a.*.example.com", strings.Repeat("c", 64) + ".example.com", "*.example.com", ".", "192.0.2.256"}[rng.Intn(12)]
		}
		spec.Subject.Country = pickS(strsPool, 2)
		spec.Subject.Organization = pickS(strsPool, 2)
		spec.Subject.OrganizationalUnit = pickS(strsPool, 1)
		spec.Subject.Locality = pickS(strsPool, 1)
		spec.Subject.Province = pickS(strsPool, 1)
		spec.Subject.StreetAddress = pickS(strsPool, 1)
		spec.Subject.PostalCode = pickS(strsPool, 1)
		if rng.Intn(5) == 0 {
			spec.Subject.SerialNumber = "12345"
		}
		if rng.Intn(6) == 0 {
			spec.Subject.ExtraNames = append(spec.Subject.ExtraNames, pkix.AttributeTypeAndValue{Type: asn1.ObjectIdentifier{2, 5, 4, 42}, Value: "Given"}, pkix.AttributeTypeAndValue{Type: asn1.ObjectIdentifier{2, 5, 4, 4}, Value: "Sur"})
		}
		if rng.Intn(8) == 0 {
			spec.Subject.ExtraNames = append(spec.Subject.ExtraNames, pkix.AttributeTypeAndValue{Type: asn1.ObjectIdentifier{2, 5, 4, 15}, Value: "Private Organization"}, pkix.AttributeTypeAndValue{Type: asn1.ObjectIdentifier{2, 5, 4, 97}, Value: "NTRGB-12345678"})
		}
		if rng.Intn(4) != 0 {
			spec.DNS = pickS([]string{"a.example.com", "b.example.org", "*.example.com", "x_y.example.com", "a..example.com", "example.com.", "w*.example.com", "a.*.example.com", "*", strings.Repeat("l", 63) + ".example.com", strings.Repeat("l", 64) + ".example.com", "x." + strings.Repeat("m", 70), ".example.com", "nodot"}, 3)
		}
		spec.Emails = pickS([]string{"a@example.com", "b@example.org"}, 1)
		if rng.Intn(4) == 0 {
			spec.URIs = pickS([]string{"https://u.example.com/x", "urn:x:y"}, 2)
		}
		if rng.Intn(4) == 0 {
			spec.IPs = [][]byte{{192, 0, 2, 1}}
		}
		for _, e := range ekus {
			if rng.Intn(4) == 0 {
				spec.EKUs = append(spec.EKUs, e)
			}
		}
		if rng.Intn(8) == 0 {
			spec.UnknownEKUs = append(spec.UnknownEKUs, oidOf("1.3.6.1.4.1.311.10.3.12"))
		}
		for _, p := range policies {
			if rng.Intn(6) == 0 {
				spec.Policies = append(spec.Policies, oidOf(p))
			}
		}
		if rng.Intn(3) != 0 {
			spec.KeyUsage = stdx509.KeyUsage(rng.Intn(512))
		}
		spec.OCSP = pickS(urls, 2)
		spec.CAIssuers = pickS(urls, 2)
		spec.Serial = int64(rng.Intn(1 << 20))
		nb := time.Date(2010+rng.Intn(16), time.Month(1+rng.Intn(12)), 1, 0, 0, 0, 0, time.UTC)
		spec.NotBefore, spec.NotAfter = nb, nb.AddDate(0, 1+rng.Intn(60), 0)
		// extra extensions with random criticality (content is opaque to the translated rules)
		for _, o := range extraOIDs {
			if rng.Intn(7) == 0 {
				spec.ExtraExt = append(spec.ExtraExt, pkix.Extension{Id: oidOf(o), Critical: rng.Bool(), Value: []byte{0x30, 0x00}})
			}
		}
		// a chosen RSA key in a third of the kit certificates: modulus lengths around every threshold the key rules test,
		// even moduli, moduli with a small prime factor, boundary exponents (the rules read N and E of the parsed key)
		if rng.Intn(3) == 0 {
			bitsPool := []int{511, 512, 1023, 1024, 1025, 2040, 2047, 2048, 2049, 2050, 2052, 2055, 2056, 3071, 3072, 3073, 4096}
			bits := bitsPool[rng.Intn(len(bitsPool))]
			n := new(big.Int).SetBytes(rng.Bytes((bits + 7) / 8))
			n.SetBit(n, bits-1, 1)
			for b := n.BitLen() - 1; b >= bits; b-- {
				n.SetBit(n, b, 0)
			}
			switch rng.Intn(4) {
			case 0:
				n.SetBit(n, 0, 0) // even
			case 1:
				n.SetBit(n, 0, 1)
			case 2:
				// a multiple of a small odd number, same length
				d := big.NewInt(int64(3 + 2*rng.Intn(380)))
				q := new(big.Int).Div(n, d)
				m := new(big.Int).Mul(q, d)
				if m.BitLen() == bits {
					n = m
				}
			}
			ePool := []int{1, 2, 3, 4, 5, 17, 65535, 65536, 65537, 65538, 65539, 1<<31 - 1}
			spec.PubKey = &rsa.PublicKey{N: n, E: ePool[rng.Intn(len(ePool))]}
			rep.count("kit-rsa-key")
		}
		der, err := BuildCert(spec)
		if err != nil {
			rep.count("kit-build-error")
			continue
		}
		// flip criticality bits of extensions the standard library wrote (DER surgery on the BOOLEAN)
		if rng.Intn(2) == 0 {
			der = flipCriticality(der, rng)
		}
		o := parseObj("cert", "kit-bodies", der)
		if o == nil {
			rep.count("kit-rejected-by-parser")
			continue
		}
		run(o.Cert, "kit")
	}
	// how discriminating was the run: rules that showed at least two different outcomes
	two := 0
	var flat []string
	for _, n := range names {
		if len(outcomes[n]) >= 2 {
			two++
		} else {
			flat = append(flat, n)
		}
	}
	rep.Notes = append(rep.Notes, fmt.Sprintf("%d of %d rules showed at least two outcomes; single-outcome rules: %s", two, len(names), strings.Join(flat, " ")))
	var unreached []string
	nst, nreached := 0, 0
	for _, n := range names {
		for _, st := range bodyStatuses[n] {
			nst++
			if outcomes[n][st] {
				nreached++
			} else {
				unreached = append(unreached, n+":"+st)
			}
		}
	}
	sort.Strings(unreached)
	rep.Notes = append(rep.Notes, fmt.Sprintf("%d of %d (rule, status written in its body) pairs were reached by some view; not reached: %s", nreached, nst, strings.Join(unreached, " ")))
	rep.write(filepath.Join(out, "report.json"))
}

// flipCriticality toggles `critical` on some extensions of a certificate (re-encoding the extension SEQUENCE)
func flipCriticality(der []byte, rng *RNG) []byte {
	c, err := ParseCertDER(der)
	if err != nil {
		return der
	}
	exts := c.extensions()
	if exts == nil {
		return der
	}
	for _, ext := range exts.Kids {
		if rng.Intn(3) != 0 || len(ext.Kids) < 2 {
			continue
		}
		if len(ext.Kids) == 3 && ext.Kids[1].Tag == 0x01 {
			ext.Kids = []*Node{ext.Kids[0], ext.Kids[2]} // critical TRUE → absent (FALSE)
		} else if len(ext.Kids) == 2 {
			ext.Kids = []*Node{ext.Kids[0], prim(0x01, []byte{0xFF}), ext.Kids[1]}
		}
	}
	return c.Bytes()
}
