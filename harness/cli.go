package main

import (
	"bufio"
	"bytes"
	"encoding/base64"
	"encoding/json"
	"encoding/pem"
	"fmt"
	"os"
	"os/exec"
	"path/filepath"
	"regexp"
	"sort"
	"strconv"
	"strings"
	"time"

	zlint "github.com/zmap/zlint/v3"
	"github.com/zmap/zlint/v3/lint"
)

func init() {
	subs["cli"] = subCLI
}

type cliRun struct {
	stdout, stderr string
	code           int
}

func runCLI(bin string, stdin []byte, args ...string) cliRun {
	cmd := exec.Command(bin, args...)
	var so, se bytes.Buffer
	cmd.Stdout, cmd.Stderr = &so, &se
	if stdin != nil {
		cmd.Stdin = bytes.NewReader(stdin)
	}
	done := make(chan error, 1)
	if err := cmd.Start(); err != nil {
		return cliRun{"", err.Error(), -1}
	}
	go func() { done <- cmd.Wait() }()
	select {
	case err := <-done:
		code := 0
		if err != nil {
			code = 1
			if ee, ok := err.(*exec.ExitError); ok {
				code = ee.ExitCode()
			}
		}
		return cliRun{so.String(), se.String(), code}
	case <-time.After(60 * time.Second):
		cmd.Process.Kill()
		return cliRun{so.String(), "timeout", -2}
	}
}

type jres struct {
	Result  string `json:"result"`
	Details string `json:"details"`
}

func libJSON(rs *zlint.ResultSet) map[string]jres {
	out := map[string]jres{}
	b, _ := json.Marshal(rs.Results)
	json.Unmarshal(b, &out)
	return out
}

func sameJSON(a, b map[string]jres) string {
	if len(a) != len(b) {
		return fmt.Sprintf("%d results vs %d", len(a), len(b))
	}
	for k, v := range a {
		if w, ok := b[k]; !ok || v != w {
			return fmt.Sprintf("%s: %v vs %v", k, v, b[k])
		}
	}
	return ""
}

var sumLine = regexp.MustCompile(`^\|\s*([A-Za-z]+)\s*\|\s*(\d+)\s*\|`)

func parseSummary(s string) map[string]int {
	m := map[string]int{}
	for _, ln := range strings.Split(s, "\n") {
		if mm := sumLine.FindStringSubmatch(ln); mm != nil {
			n, _ := strconv.Atoi(mm[2])
			m[mm[1]] = n
		}
	}
	return m
}

func subCLI(out string, seed uint64, tier string, arg string) {
	rng := NewRNG(seed)
	rep := newReport("cli", seed, tier)
	rep.Rule = "the built zlint binary (from /repo's current tree) run on corpus certificates and CRLs as PEM / DER / base64, from file and stdin, several files per invocation, with generated selection flags and summary flags, compared with the library called in-process under the same selection; undecodable inputs and unknown selectors must exit non-zero with empty stdout; distinct = distinct command lines x inputs"
	bin := filepath.Join(filepath.Dir(os.Args[0]), "zlint")
	if _, err := os.Stat(bin); err != nil {
		rep.violate(Violation{"C15", "zlint binary not built: " + err.Error(), "no-binary", map[string]interface{}{}})
		rep.write(filepath.Join(out, "report.json"))
		return
	}
	ops, _ := os.Create(filepath.Join(out, "ops.txt"))
	impl, _ := os.Create(filepath.Join(out, "impl.out"))
	wo, wi := bufio.NewWriter(ops), bufio.NewWriter(impl)
	defer func() { wo.Flush(); wi.Flush(); ops.Close(); impl.Close() }()
	emit := func(line, res string) {
		fmt.Fprintln(wo, line)
		fmt.Fprintln(wi, res)
	}
	tmp := filepath.Join(out, "files")
	os.MkdirAll(tmp, 0o755)
	g := lint.GlobalRegistry()
	objs := loadObjects()
	var certs, crls []*Obj
	for _, o := range objs {
		switch o.Kind {
		case "cert":
			certs = append(certs, o)
		case "crl":
			crls = append(crls, o)
		}
	}
	certNames := map[string]bool{}
	for _, n := range g.CertificateLints().Names() {
		certNames[n] = true
	}
	observedKind := func(r cliRun) string {
		if r.code != 0 {
			return "fail"
		}
		var m map[string]jres
		line := strings.SplitN(strings.TrimSpace(r.stdout), "\n", 2)[0]
		if json.Unmarshal([]byte(line), &m) != nil || len(m) == 0 {
			return "fail"
		}
		for k := range m {
			if certNames[k] {
				return "cert"
			}
			return "crl"
		}
		return "fail"
	}
	check := func(desc string, r cliRun, want map[string]jres, o *Obj, cmdline string) {
		rep.Evaluations++
		rep.distinctKey(cmdline + "|" + o.Name)
		if r.code != 0 {
			rep.violate(Violation{"C15", fmt.Sprintf("%s: the CLI exits %d on a parseable %s (%s): %s", desc, r.code, o.Kind, o.Name, firstLine(r.stderr)), "cli-exit:" + desc, replayOf(o, map[string]interface{}{"cmd": cmdline})})
			return
		}
		var got map[string]jres
		line := strings.SplitN(strings.TrimSpace(r.stdout), "\n", 2)[0]
		if err := json.Unmarshal([]byte(line), &got); err != nil {
			rep.violate(Violation{"C15", desc + ": CLI output is not a JSON result object", "cli-json:" + desc, replayOf(o, map[string]interface{}{"cmd": cmdline, "stdout": r.stdout[:min(len(r.stdout), 300)]})})
			return
		}
		if d := sameJSON(want, got); d != "" {
			rep.violate(Violation{"C15", fmt.Sprintf("%s: CLI results differ from the library's for %s: %s", desc, o.Name, d), "cli-differs:" + desc, replayOf(o, map[string]interface{}{"cmd": cmdline, "diff": d})})
		}
	}
	writeForms := func(o *Obj, base string) (pemF, derF, b64F string) {
		ty := "CERTIFICATE"
		if o.Kind == "crl" {
			ty = "X509 CRL"
		}
		pemF, derF, b64F = filepath.Join(tmp, base+".pem"), filepath.Join(tmp, base+".der"), filepath.Join(tmp, base+".b64")
		os.WriteFile(pemF, pem.EncodeToMemory(&pem.Block{Type: ty, Bytes: o.DER}), 0o644)
		os.WriteFile(derF, o.DER, 0o644)
		os.WriteFile(b64F, []byte(base64.StdEncoding.EncodeToString(o.DER)), 0o644)
		return
	}
	ncert := 12
	if tier == "thorough" {
		ncert = 120
	}
	// prefer certificates whose DER ends in an ASCII white-space byte among the sample (raw input must not be trimmed)
	var sample []*Obj
	for _, o := range certs {
		if b := o.DER[len(o.DER)-1]; b == 0x20 || (b >= 0x09 && b <= 0x0d) {
			sample = append(sample, o)
			if len(sample) >= ncert/3 {
				break
			}
		}
	}
	for len(sample) < ncert {
		sample = append(sample, certs[rng.Intn(len(certs))])
	}
	// the raw bytes of a DER file end with the last bytes of the signature value: give some certificates a signature
	// that ends (zcrypto does not verify it) in each byte or byte pair a text-oriented reader would strip
	for k, tail := range [][]byte{{0x20}, {0x0a}, {0x0d, 0x0a}, {0x09}, {0x0b}, {0x0c}, {0x00}, {0xc2, 0xa0}, {0xc2, 0x85}, {0xe2, 0x80, 0xa8}} {
		base := certs[(k*13+int(seed))%len(certs)]
		der := append([]byte{}, base.DER...)
		copy(der[len(der)-len(tail):], tail)
		if v := parseObj("cert", fmt.Sprintf("%s+sigtail%x", base.Name, tail), der); v != nil {
			sample = append(sample, v)
			rep.count("signature-tail-variant")
		}
	}
	for i, o := range sample {
		rs, p := lintObj(o.reparse(), g)
		if p != "" {
			continue
		}
		want := libJSON(rs)
		pemF, derF, b64F := writeForms(o, fmt.Sprintf("c%d", i))
		pemB, _ := os.ReadFile(pemF)
		b64B, _ := os.ReadFile(b64F)
		// the three encodings, file and stdin
		r := runCLI(bin, nil, pemF)
		check("pem-file", r, want, o, "zlint x.pem")
		emit("clidisp\tpem\tCERTIFICATE\t0", observedKind(r))
		r = runCLI(bin, nil, derF)
		check("der-file", r, want, o, "zlint x.der")
		emit("clidisp\tder\t-\t0", observedKind(r))
		r = runCLI(bin, nil, "-format", "base64", b64F)
		check("base64-file", r, want, o, "zlint -format base64 x.b64")
		emit("clidisp\tbase64\t-\t1", observedKind(r))
		check("pem-stdin", runCLI(bin, pemB), want, o, "zlint < x.pem")
		check("der-stdin", runCLI(bin, o.DER, "-format", "der"), want, o, "zlint -format der < x.der")
		check("der-stdin-dash", runCLI(bin, o.DER, "-format", "DER", "-"), want, o, "zlint -format DER - < x.der")
		check("base64-stdin", runCLI(bin, b64B, "-format", "base64"), want, o, "zlint -format base64 < x.b64")
		// a PEM input with further blocks after the first: the first block is the object (pem.Decode reads one block); what
		// follows — another certificate, a CRL — must not be what gets linted
		if i+1 < len(sample) && i < 6 {
			second := pem.EncodeToMemory(&pem.Block{Type: "CERTIFICATE", Bytes: sample[i+1].DER})
			two := append(append([]byte{}, pemB...), second...)
			twoF := filepath.Join(tmp, fmt.Sprintf("two%d.pem", i))
			os.WriteFile(twoF, two, 0o644)
			check("pem-two-certificates-file", runCLI(bin, nil, twoF), want, o, "zlint first+second.pem")
			check("pem-two-certificates-stdin", runCLI(bin, two), want, o, "zlint < first+second.pem")
			if len(crls) > 0 {
				crl := crls[i%len(crls)]
				crlPEM := pem.EncodeToMemory(&pem.Block{Type: "X509 CRL", Bytes: crl.DER})
				check("pem-certificate-then-crl", runCLI(bin, append(append([]byte{}, pemB...), crlPEM...)), want, o, "zlint < cert+crl.pem")
				if rsC, pC := lintObj(crl.reparse(), g); pC == "" {
					check("pem-crl-then-certificate", runCLI(bin, append(append([]byte{}, crlPEM...), pemB...)), libJSON(rsC), crl, "zlint < crl+cert.pem")
				}
			}
			rep.count("multi-block-pem")
		}
		// suffix beats -format, per file; several files per invocation
		if i+1 < len(sample) {
			o2 := sample[i+1]
			rs2, p2 := lintObj(o2.reparse(), g)
			if p2 == "" {
				pem2, der2, _ := writeForms(o2, fmt.Sprintf("d%d", i))
				_ = pem2
				r := runCLI(bin, nil, "-format", "base64", pemF, der2, b64F)
				lines := strings.Split(strings.TrimSpace(r.stdout), "\n")
				rep.Evaluations++
				rep.distinctKey("multi|" + o.Name)
				if r.code != 0 || len(lines) != 3 {
					rep.violate(Violation{"C15", fmt.Sprintf("three files in one invocation give exit %d and %d output lines", r.code, len(lines)), "cli-multi", replayOf(o, map[string]interface{}{"stderr": firstLine(r.stderr)})})
				} else {
					for k, w := range []map[string]jres{want, libJSON(rs2), want} {
						var got map[string]jres
						json.Unmarshal([]byte(lines[k]), &got)
						if d := sameJSON(w, got); d != "" {
							rep.violate(Violation{"C15", fmt.Sprintf("file %d of a multi-file invocation differs from the library: %s", k+1, d), "cli-multi-differs", replayOf(o, map[string]interface{}{"diff": d})})
						}
					}
				}
			}
		}
		// summaries
		r = runCLI(bin, nil, "-summary", pemF)
		counts := map[string]int{"info": 0, "warn": 0, "error": 0, "fatal": 0}
		var statuses []string
		for _, res := range rs.Results {
			if res.Status > lint.Pass {
				counts[res.Status.String()]++
			}
			statuses = append(statuses, strconv.Itoa(int(res.Status)))
		}
		got := parseSummary(r.stdout)
		rep.Evaluations++
		rep.distinctKey("summary|" + o.Name)
		sort.Strings(statuses)
		emit("clisum\t"+strings.Join(statuses, ","), fmt.Sprintf("4:%d,5:%d,6:%d,7:%d", got["info"], got["warn"], got["error"], got["fatal"]))
		if r.code != 0 || len(got) != 4 || got["info"] != counts["info"] || got["warn"] != counts["warn"] || got["error"] != counts["error"] || got["fatal"] != counts["fatal"] {
			rep.violate(Violation{"C15", fmt.Sprintf("-summary reports %v, the results contain %v", got, counts), "cli-summary", replayOf(o, map[string]interface{}{"stdout": r.stdout})})
		}
		// result sets of a single level (only notices, only warnings, …): select exactly the lints that reported that
		// level for this object and count again — a summary must not depend on which other levels are present
		byLevel := map[string][]string{}
		for n, res := range rs.Results {
			if res.Status > lint.Pass {
				byLevel[res.Status.String()] = append(byLevel[res.Status.String()], n)
			}
		}
		for _, lvl := range []string{"info", "warn", "error", "fatal"} {
			ns := byLevel[lvl]
			if len(ns) == 0 || len(ns) > 40 {
				continue
			}
			sort.Strings(ns)
			rl := runCLI(bin, nil, "-summary", "-includeNames", strings.Join(ns, ","), pemF)
			gl := parseSummary(rl.stdout)
			rep.Evaluations++
			rep.distinctKey("summary-level|" + lvl + "|" + o.Name)
			rep.count("summary-level:" + lvl)
			for _, l2 := range []string{"info", "warn", "error", "fatal"} {
				want := 0
				if l2 == lvl {
					want = len(ns)
				}
				if rl.code != 0 || len(gl) != 4 || gl[l2] != want {
					rep.violate(Violation{"C15", fmt.Sprintf("-summary over the %d lints that report %s on this object says %v", len(ns), lvl, gl), "cli-summary-level:" + lvl, replayOf(o, map[string]interface{}{"names": ns, "stdout": rl.stdout})})
					break
				}
			}
		}
		// both summary flags, two files: each table must be about its own file
		if i+1 < len(sample) {
			r = runCLI(bin, nil, "-summary", "-longSummary", pemF, pemF)
			tables := strings.Split(r.stdout, "| LEVEL ")
			rep.Evaluations++
			for ti, tb := range tables[1:] {
				gt := parseSummary(tb)
				if gt["info"] != counts["info"] || gt["warn"] != counts["warn"] || gt["error"] != counts["error"] || gt["fatal"] != counts["fatal"] {
					rep.violate(Violation{"C15", fmt.Sprintf("summary table %d of a repeated invocation reports %v, the results contain %v", ti+1, gt, counts), "cli-summary-repeat", replayOf(o, map[string]interface{}{"stdout": r.stdout[:min(len(r.stdout), 1500)]})})
					break
				}
			}
		}
		// selection flags
		names := g.Names()
		for k := 0; k < 3; k++ {
			var args []string
			var fo lint.FilterOptions
			switch rng.Intn(5) {
			case 0:
				l := []string{names[rng.Intn(len(names))], names[rng.Intn(len(names))], names[rng.Intn(len(names))]}
				args = []string{"-includeNames", " " + l[0] + " ," + l[1] + ",\t" + l[2]}
				fo.IncludeNames = l
			case 1:
				l := []string{names[rng.Intn(len(names))], names[rng.Intn(len(names))]}
				args = []string{"-excludeNames", strings.Join(l, ", ")}
				fo.ExcludeNames = l
			case 2:
				srcs := g.Sources()
				s1, s2 := srcs[rng.Intn(len(srcs))], srcs[rng.Intn(len(srcs))]
				args = []string{"-includeSources", string(s1) + ", " + string(s2)}
				fo.IncludeSources = lint.SourceList{s1, s2}
			case 3:
				srcs := g.Sources()
				s1 := srcs[rng.Intn(len(srcs))]
				args = []string{"-excludeSources", string(s1), "-includeNames", names[rng.Intn(len(names))]}
				fo.ExcludeSources = lint.SourceList{s1}
				fo.IncludeNames = []string{args[3]}
			case 4:
				re := regexPool[rng.Intn(len(regexPool))]
				args = []string{"-nameFilter", re}
				fo.NameFilter = regexp.MustCompile(re)
			}
			freg, err := g.Filter(fo)
			if err != nil {
				continue
			}
			rsF, pF := lintObj(o.reparse(), freg)
			if pF != "" {
				continue
			}
			check("selection "+args[0], runCLI(bin, nil, append(args, pemF)...), libJSON(rsF), o, "zlint "+strings.Join(args, " ")+" x.pem")
		}
		rep.sample(map[string]interface{}{"object": o.Name})
	}
	// -config: the configured options must reach the lints with and without selection flags ("the same lint results as the
	// library with the same lint selection" includes the same configuration)
	for _, o := range certs {
		if !strings.Contains(o.Name, "rsaFermatFactorizationSusceptible") {
			continue
		}
		cfgText := "[e_rsa_fermat_factorization]\nRounds = 0\n"
		cfgFile := filepath.Join(tmp, "rounds0.toml")
		os.WriteFile(cfgFile, []byte(cfgText), 0o644)
		pemF, _, _ := writeForms(o, "fermat")
		for _, sel := range []struct {
			args []string
			fo   lint.FilterOptions
		}{
			{nil, lint.FilterOptions{ExcludeSources: lint.SourceList{"NoSuchSourceAtAll"}}},
			{[]string{"-includeNames", "e_rsa_fermat_factorization"}, lint.FilterOptions{IncludeNames: []string{"e_rsa_fermat_factorization"}}},
			{[]string{"-includeSources", "Community"}, lint.FilterOptions{IncludeSources: lint.SourceList{lint.Community}}},
			{[]string{"-excludeNames", "e_dnsname_not_valid_tld"}, lint.FilterOptions{ExcludeNames: []string{"e_dnsname_not_valid_tld"}}},
			{[]string{"-nameFilter", "fermat"}, lint.FilterOptions{NameFilter: regexp.MustCompile("fermat")}},
			{[]string{"-excludeSources", "RFC5280"}, lint.FilterOptions{ExcludeSources: lint.SourceList{lint.RFC5280}}},
		} {
			freg, err := g.Filter(sel.fo)
			if err != nil {
				continue
			}
			cfg, err := lint.NewConfigFromString(cfgText)
			if err != nil {
				continue
			}
			freg.SetConfiguration(cfg)
			rsF, pF := lintObj(o.reparse(), freg)
			if pF != "" || rsF == nil {
				continue
			}
			if r := rsF.Results["e_rsa_fermat_factorization"]; r == nil || r.Status != lint.Pass {
				rep.Notes = append(rep.Notes, "the Rounds = 0 configuration does not change the library verdict; -config cases are not discriminating")
			}
			args := append([]string{"-config", cfgFile}, sel.args...)
			check("config "+strings.Join(sel.args, " "), runCLI(bin, nil, append(args, pemF)...), libJSON(rsF), o, "zlint "+strings.Join(args, " ")+" x.pem")
			rep.count("config-case")
		}
		break
	}
	// CRLs via their PEM armor
	for i, o := range crls {
		if i >= 6 && tier != "thorough" {
			break
		}
		rs, p := lintObj(o.reparse(), g)
		if p != "" {
			continue
		}
		pemF, derF, _ := writeForms(o, fmt.Sprintf("r%d", i))
		r := runCLI(bin, nil, pemF)
		check("crl-pem", r, libJSON(rs), o, "zlint crl.pem")
		emit("clidisp\tpem\tX509 CRL\t0", observedKind(r))
		// a CRL handed over as DER is parsed as a certificate: must fail closed
		r = runCLI(bin, nil, derF)
		rep.Evaluations++
		if r.code == 0 || strings.TrimSpace(r.stdout) != "" {
			rep.violate(Violation{"C15", "a DER CRL given as a certificate does not fail closed", "cli-failopen:crl-der", replayOf(o, map[string]interface{}{"stdout": r.stdout[:min(len(r.stdout), 200)]})})
		}
	}
	// ---- fail closed
	good := sample[0]
	pemF, derF, b64F := writeForms(good, "good")
	pemB, _ := os.ReadFile(pemF)
	bad := func(desc string, stdin []byte, args ...string) {
		r := runCLI(bin, stdin, args...)
		rep.Evaluations++
		rep.distinctKey("bad|" + desc)
		rep.count("failclosed")
		if r.code == 0 || strings.TrimSpace(r.stdout) != "" {
			rep.violate(Violation{"C15", fmt.Sprintf("%s: exit %d, stdout %q — expected non-zero exit and no result object", desc, r.code, r.stdout[:min(len(r.stdout), 120)]), "cli-failopen:" + desc,
				map[string]interface{}{"args": args, "stdin_hex": hexs(stdin)}})
		}
	}
	trunc := filepath.Join(tmp, "trunc.pem")
	os.WriteFile(trunc, pemB[:len(pemB)/2], 0o644)
	wrongType := filepath.Join(tmp, "key.pem")
	os.WriteFile(wrongType, pem.EncodeToMemory(&pem.Block{Type: "PRIVATE KEY", Bytes: good.DER}), 0o644)
	garbage := filepath.Join(tmp, "garbage.der")
	os.WriteFile(garbage, []byte{0x30, 0x82, 0x01, 0x00, 0x01, 0x02, 0x03}, 0o644)
	truncDer := filepath.Join(tmp, "trunc.der")
	os.WriteFile(truncDer, good.DER[:len(good.DER)-7], 0o644)
	badB64 := filepath.Join(tmp, "bad.b64")
	os.WriteFile(badB64, []byte("!!!not base64!!!"), 0o644)
	empty := filepath.Join(tmp, "empty.pem")
	os.WriteFile(empty, []byte{}, 0o644)
	bad("truncated PEM", nil, trunc)
	emit("clidisp\tpem\t-\t0", observedKind(runCLI(bin, nil, trunc)))
	bad("wrong PEM type", nil, wrongType)
	emit("clidisp\tpem\tPRIVATE KEY\t0", observedKind(runCLI(bin, nil, wrongType)))
	bad("DER garbage", nil, garbage)
	bad("truncated DER", nil, truncDer)
	bad("bad base64", nil, "-format", "base64", badB64)
	emit("clidisp\tbase64\t-\t0", observedKind(runCLI(bin, nil, "-format", "base64", badB64)))
	bad("empty file", nil, empty)
	bad("empty stdin", []byte{})
	bad("unknown format", nil, "-format", "xml", b64F)
	emit("clidisp\txml\t-\t0", observedKind(runCLI(bin, nil, "-format", "xml", b64F)))
	bad("nonexistent file", nil, filepath.Join(tmp, "nope.pem"))
	bad("unknown include name", nil, "-includeNames", "e_no_such_lint", pemF)
	bad("unknown exclude name", nil, "-excludeNames", "e_dnsname_not_valid_tld,e_no_such_lint", pemF)
	bad("unknown include source", nil, "-includeSources", "RFC5280,NoSuchSource", pemF)
	bad("unknown exclude source", nil, "-excludeSources", "NoSuchSource", pemF)
	bad("bad regexp", nil, "-nameFilter", "e_(", pemF)
	bad("nameFilter with names", nil, "-nameFilter", "^e_", "-includeNames", "e_dnsname_not_valid_tld", pemF)
	bad("unknown profile", nil, "-profile", "no_such_profile", pemF)
	bad("bad config file", nil, "-config", filepath.Join(tmp, "nope.toml"), pemF)
	bad("PEM as DER", nil, "-format", "der", b64F)
	// several files, one of them bad, in every position: the invocation as a whole must fail
	failsNonZero := func(desc string, args ...string) {
		r := runCLI(bin, nil, args...)
		rep.Evaluations++
		rep.distinctKey("multi-bad|" + desc)
		rep.count("multi-bad")
		if r.code == 0 {
			rep.violate(Violation{"C15", fmt.Sprintf("%s: exit 0 although one input cannot be decoded", desc), "cli-multi-failopen:" + desc, map[string]interface{}{"args": args, "stdout": r.stdout[:min(len(r.stdout), 200)]}})
		}
	}
	failsNonZero("bad then good", trunc, pemF)
	failsNonZero("good then bad", pemF, trunc)
	failsNonZero("good, bad, good", pemF, garbage, pemF)
	failsNonZero("missing then good", filepath.Join(tmp, "nope.pem"), pemF)
	failsNonZero("wrong type then good", wrongType, pemF)
	_ = derF
	// every listed source / a sample of listed names through the CLI flags (C13 at CLI level)
	for _, s := range g.Sources() {
		r := runCLI(bin, nil, "-includeSources", string(s), pemF)
		rep.Evaluations++
		rep.distinctKey("cli-source|" + string(s))
		if r.code != 0 {
			rep.violate(Violation{"C13", "listed source " + string(s) + " is rejected by -includeSources: " + firstLine(r.stderr), "cli-source:" + string(s), map[string]interface{}{"source": string(s)}})
		}
		r = runCLI(bin, nil, "-excludeSources", string(s), pemF)
		if r.code != 0 {
			rep.violate(Violation{"C13", "listed source " + string(s) + " is rejected by -excludeSources: " + firstLine(r.stderr), "cli-xsource:" + string(s), map[string]interface{}{"source": string(s)}})
		}
	}
	// -list-lints-source / -list-lints-json agree with the library
	r := runCLI(bin, nil, "-list-lints-json")
	if n := len(strings.Split(strings.TrimSpace(r.stdout), "\n")); r.code != 0 || n != len(g.Names()) {
		rep.violate(Violation{"C15", fmt.Sprintf("-list-lints-json prints %d lines for %d lints", n, len(g.Names())), "cli-list", map[string]interface{}{}})
	}
	rep.write(filepath.Join(out, "report.json"))
}
