package main

import (
	"bufio"
	"bytes"
	"encoding/json"
	"fmt"
	"os"
	"path/filepath"
	"runtime"
	"sort"
	"strconv"
	"strings"
	"sync"
	"unicode/utf8"

	"github.com/zmap/zcrypto/x509"
	zlint "github.com/zmap/zlint/v3"
	"github.com/zmap/zlint/v3/formattedoutput"
	"github.com/zmap/zlint/v3/lint"
)

func init() {
	subs["codec"] = subCodec
	subs["meta"] = subMeta
}

// perByteSanitize is the JSON string contract for invalid UTF-8: every invalid byte becomes one U+FFFD.
func perByteSanitize(s string) string {
	var b strings.Builder
	for i := 0; i < len(s); {
		r, size := utf8.DecodeRuneInString(s[i:])
		if r == utf8.RuneError && size == 1 {
			b.WriteRune('�')
		} else {
			b.WriteString(s[i : i+size])
		}
		i += size
	}
	return b.String()
}

func subCodec(out string, seed uint64, tier string, arg string) {
	rng := NewRNG(seed)
	rep := newReport("codec", seed, tier)
	rep.Rule = "status values -3..12 through MarshalJSON; every label, quoted/unquoted/odd strings through UnmarshalJSON; source strings through LintSource.UnmarshalJSON; result sets with hostile details (invalid UTF-8, <>&, U+2028, quotes) marshalled and unmarshalled; the WriteJSON listing decoded line by line; distinct = distinct op lines / objects"
	ops, _ := os.Create(filepath.Join(out, "ops.txt"))
	impl, _ := os.Create(filepath.Join(out, "impl.out"))
	wo, wi := bufio.NewWriter(ops), bufio.NewWriter(impl)
	defer func() { wo.Flush(); wi.Flush(); ops.Close(); impl.Close() }()
	emit := func(line, res string) {
		fmt.Fprintln(wo, line)
		fmt.Fprintln(wi, res)
		rep.Evaluations++
		rep.distinctKey(line)
		rep.sample(map[string]string{"op": line, "impl": res})
	}
	// the other consumers of the status tables run first: a summary table is printed (to /dev/null) for a result set with every
	// level, so that whatever they do to shared label tables is in place before the codec is exercised
	func() {
		devnull, err := os.OpenFile(os.DevNull, os.O_WRONLY, 0)
		if err != nil {
			return
		}
		saved := os.Stdout
		os.Stdout = devnull
		defer func() { os.Stdout = saved; devnull.Close(); recover() }()
		rs := &zlint.ResultSet{Version: 3, Results: map[string]*lint.LintResult{}}
		for i, st := range []lint.LintStatus{lint.NA, lint.NE, lint.Pass, lint.Notice, lint.Warn, lint.Error, lint.Fatal} {
			rs.Results[fmt.Sprintf("e_summary_probe_%d", i)] = &lint.LintResult{Status: st}
		}
		formattedoutput.OutputSummary(rs, false)
		formattedoutput.OutputSummary(rs, true)
		rep.count("summary-printed-first")
	}()
	// encode
	for s := -3; s <= 12; s++ {
		b, err := json.Marshal(lint.LintStatus(s))
		res := "enc:" + esc(string(b))
		if err != nil {
			res = "enc-err"
		}
		emit(fmt.Sprintf("enc\t%d", s), res)
	}
	// decode
	pool := []string{"reserved", "NA", "NE", "pass", "info", "warn", "error", "fatal", "", "Pass", "PASS", "na", "warning", "notice", "err", "fat\"al", "\"\"pass\"\"", "pa\"ss", " pass", "pass ", "0", "3", "null", "true", "passpass", "NANE"}
	for _, p := range pool {
		for _, form := range []string{p, `"` + p + `"`} {
			var st lint.LintStatus = 99
			err := st.UnmarshalJSON([]byte(form))
			res := fmt.Sprintf("dec:%d", int(st))
			if err != nil {
				res = "dec-err"
			}
			emit("dec\t"+esc(form), res)
		}
	}
	for i := 0; i < 200; i++ {
		form := string(rng.Bytes(1 + rng.Intn(6)))
		if strings.ContainsAny(form, "\n\t") {
			continue
		}
		var st lint.LintStatus = 99
		err := st.UnmarshalJSON([]byte(form))
		res := fmt.Sprintf("dec:%d", int(st))
		if err != nil {
			res = "dec-err"
		}
		emit("dec\t"+esc(form), res)
	}
	// sources
	srcPool := []string{"RFC3279", "RFC5280", "RFC5480", "RFC5891", "RFC6960", "RFC6962", "RFC8813", "CABF_BR", "CABF_CS_BR", "CABF_SMIME_BR", "CABF_EV", "Mozilla", "Apple", "Community", "ETSI_ESI",
		"Unknown", "", "rfc5280", " RFC5280", "RFC5280 ", "CABF", "cpu", "RFC5280,RFC5480"}
	for _, g := range lint.GlobalRegistry().Sources() {
		srcPool = append(srcPool, string(g))
	}
	for _, s := range srcPool {
		var ls lint.LintSource
		err := json.Unmarshal([]byte(strconv.Quote(s)), &ls)
		res := "src:" + esc(string(ls))
		if err != nil {
			res = "src-err"
		}
		emit("src\t"+esc(s), res)
		// SourceList.FromString on the single value (C13)
		var sl lint.SourceList
		err = sl.FromString(s)
		res = "sl:"
		if err != nil {
			res = "sl-err"
		} else {
			var parts []string
			for _, x := range sl {
				parts = append(parts, esc(string(x)))
			}
			res += strings.Join(parts, ",")
		}
		emit("srclist\t"+esc(s), res)
	}
	// comma lists with blanks
	for i := 0; i < 300; i++ {
		n := 1 + rng.Intn(4)
		var parts []string
		for j := 0; j < n; j++ {
			v := srcPool[rng.Intn(len(srcPool))]
			if strings.Contains(v, ",") {
				v = "Apple"
			}
			switch rng.Intn(5) {
			case 0:
				v = " " + v
			case 1:
				v = v + "\t"
			case 2:
				v = ""
			}
			parts = append(parts, v)
		}
		raw := strings.Join(parts, ",")
		var sl lint.SourceList
		err := sl.FromString(raw)
		res := "sl:"
		if err != nil {
			res = "sl-err"
		} else {
			var ps []string
			for _, x := range sl {
				ps = append(ps, esc(string(x)))
			}
			res += strings.Join(ps, ",")
		}
		emit("srclist\t"+esc(raw), res)
	}

	// ---- direct search part: real result sets round-tripped through JSON
	hostile := []string{"", "plain", "a\"b", "<script>&amp;", "line sep", "tab\there", "\xc0\xa8", "\xff", "a\xc0\xa8\xc0b", "\xe2\x82", "é\xe9é", "\x00nul", "back\\slash", "\xf0\x9f\x98", "ok\xf0\x9f\x98\x80ok"}
	objs := loadObjects()
	g := lint.GlobalRegistry()
	nobj := 150
	if tier == "thorough" {
		nobj = len(objs)
	}
	var kept []keptEnc
	for i := 0; i < nobj && i < len(objs); i++ {
		o := objs[(i*7)%len(objs)]
		rs, p := lintObj(o, g)
		if p != "" || rs == nil {
			continue
		}
		// inject hostile details (the result set is ours to edit: the codec is what is under test)
		k := 0
		var names []string
		for n := range rs.Results {
			names = append(names, n)
		}
		sort.Strings(names)
		for _, n := range names {
			if k < len(hostile) && rng.Intn(8) == 0 {
				rs.Results[n].Details = hostile[(k+i)%len(hostile)]
				k++
			}
		}
		// every fifth result set carries each of the eight statuses, `reserved` (the zero value of an unset result) included
		if i%5 == 0 {
			for j, n := range names {
				if j >= 8 {
					break
				}
				rs.Results[n].Status = lint.LintStatus(j)
			}
			rep.count("all-eight-statuses-set")
		}
		rep.Evaluations++
		rep.distinctKey("rs:" + o.Name)
		b, err := json.Marshal(rs)
		if err != nil {
			rep.violate(Violation{"C14", "result set of " + o.Name + " does not marshal: " + err.Error(), "marshal", replayOf(o, nil)})
			continue
		}
		kept = append(kept, keptEnc{o, rs, b, string(b)})
		checkDecoded(rep, o, rs, b, "")
	}
	// result sets with no results at all (an empty registry; a CRL linted with a registry holding certificate lints
	// only) and with a single result
	{
		empty := lint.NewRegistry()
		certOnly, _ := g.Filter(lint.FilterOptions{IncludeNames: []string{"e_ca_is_ca"}})
		for _, o := range objs {
			if len(kept) > 0 && rep.Dist["empty-set:"+o.Kind] >= 3 {
				continue
			}
			for _, reg := range []lint.Registry{empty, certOnly} {
				if reg == nil {
					continue
				}
				rs, p := lintObj(o, reg)
				if p != "" || rs == nil || len(rs.Results) > 1 {
					continue
				}
				rep.count("empty-set:" + o.Kind)
				rep.Evaluations++
				b, err := json.Marshal(rs)
				if err != nil {
					rep.violate(Violation{"C14", fmt.Sprintf("a result set with %d results does not marshal: %v", len(rs.Results), err), "marshal-empty", replayOf(o, nil)})
					continue
				}
				checkDecoded(rep, o, rs, b, fmt.Sprintf(" (a result set with %d results)", len(rs.Results)))
			}
		}
	}
	// encodings handed out earlier must still be what they were (an encoder that returns a slice of a buffer it
	// re-uses would rewrite them), and still decode to their own result set
	for _, k := range kept {
		rep.Evaluations++
		if string(k.b) != k.snap {
			rep.violate(Violation{"C14", "the bytes returned when encoding the result set of " + k.o.Name + " changed after later result sets were encoded", "encoding-aliased", replayOf(k.o, nil)})
			continue
		}
		checkDecoded(rep, k.o, k.rs, k.b, " (decoded after all other result sets had been encoded)")
	}
	// the same through the encoder method itself, where the type has one (json.Marshal copies what a MarshalJSON
	// method returns, so only a direct caller keeps the method's own slice)
	for i := 0; i+1 < len(kept) && i < 40; i++ {
		m1, ok1 := interface{}(kept[i].rs).(json.Marshaler)
		m2, ok2 := interface{}(kept[i+1].rs).(json.Marshaler)
		if !ok1 || !ok2 {
			break
		}
		a, err := m1.MarshalJSON()
		if err != nil {
			rep.violate(Violation{"C14", "MarshalJSON of the result set of " + kept[i].o.Name + " fails: " + err.Error(), "marshal-method", replayOf(kept[i].o, nil)})
			continue
		}
		snap := string(a)
		m2.MarshalJSON()
		rep.Evaluations++
		if string(a) != snap {
			rep.violate(Violation{"C14", "the bytes MarshalJSON returned for the result set of " + kept[i].o.Name + " changed when the next result set was encoded", "encoding-aliased", replayOf(kept[i].o, map[string]interface{}{"then": kept[i+1].o.Name})})
			continue
		}
		checkDecoded(rep, kept[i].o, kept[i].rs, a, " (MarshalJSON called directly, decoded after the next encoding)")
	}
	// several goroutines encoding and decoding their own result sets at the same time
	if len(kept) > 1 {
		var wg sync.WaitGroup
		var mu sync.Mutex
		for w := 0; w < 96; w++ {
			wg.Add(1)
			go func(w int) {
				defer wg.Done()
				for it := 0; it < 12; it++ {
					k := kept[(w*7+it)%len(kept)]
					b, err := json.Marshal(k.rs)
					if err != nil {
						mu.Lock()
						rep.violate(Violation{"C14", "result set of " + k.o.Name + " does not marshal while other goroutines encode theirs: " + err.Error(), "marshal-concurrent", replayOf(k.o, nil)})
						mu.Unlock()
						continue
					}
					cp := append([]byte{}, b...)
					runtime.Gosched()
					mu.Lock()
					if string(cp) != string(b) || string(b) != k.snap {
						rep.violate(Violation{"C14", "encoding the result set of " + k.o.Name + " concurrently with others gives other bytes than encoding it alone", "encoding-concurrent", replayOf(k.o, nil)})
					} else {
						checkDecoded(rep, k.o, k.rs, b, " (encoded concurrently)")
					}
					rep.Evaluations++
					mu.Unlock()
				}
			}(w)
		}
		wg.Wait()
	}
	// ---- listing of a registry in which two kinds share a name (names are only unique within a kind): every
	// registered lint still gets its own line — the multiset of (name, description, citation, source) is preserved
	{
		reg := lint.NewRegistry()
		type row struct{ n, d, c, s string }
		var want []string
		add := func(kind string, r row) {
			md := lint.LintMetadata{Name: r.n, Description: r.d, Citation: r.c, Source: lint.LintSource(r.s)}
			var err error
			switch kind {
			case "cert":
				err = lint.VerifRegisterCertificateLint(reg, &lint.CertificateLint{LintMetadata: md, Lint: func() lint.CertificateLintInterface { return nopCert{} }})
			case "crl":
				err = lint.VerifRegisterRevocationListLint(reg, &lint.RevocationListLint{LintMetadata: md, Lint: func() lint.RevocationListLintInterface { return nopCRL{} }})
			case "ocsp":
				err = lint.VerifRegisterOcspResponseLint(reg, &lint.OcspResponseLint{LintMetadata: md, Lint: func() lint.OcspResponseLintInterface { return nopOCSP{} }})
			}
			if err == nil {
				want = append(want, fmt.Sprintf("%s|%s|%s|%s", r.n, r.d, r.c, r.s))
			}
			// a listing may be requested between registrations: whatever it caches must not go stale
			var scratch bytes.Buffer
			reg.WriteJSON(&scratch)
			if n := strings.Count(scratch.String(), "\n"); n != len(want) {
				rep.violate(Violation{"C14", fmt.Sprintf("after registering %d lints (last: %s lint %s) the listing has %d lines", len(want), kind, r.n, n), "listing-stale", map[string]interface{}{"registered": want, "listing": scratch.String()}})
			}
		}
		add("cert", row{"e_shared_name", "the certificate lint", "cite-cert", "RFC5280"})
		add("crl", row{"e_shared_name", "the CRL lint", "cite-crl", "CABF_BR"})
		add("ocsp", row{"e_shared_name", "the OCSP lint", "cite-ocsp", "RFC6960"})
		add("cert", row{"w_only_cert", "c", "x", "Community"})
		add("crl", row{"e_only_crl", "r", "y", "RFC5280"})
		add("ocsp", row{"n_only_ocsp", "o", "z", "RFC6960"})
		add("crl", row{"e_late_crl", "r2", "y2", "RFC5280"})
		add("ocsp", row{"e_late_ocsp", "o2", "z2", "RFC6960"})
		var buf bytes.Buffer
		reg.WriteJSON(&buf)
		var got []string
		for _, ln := range strings.Split(strings.TrimRight(buf.String(), "\n"), "\n") {
			var m struct {
				Name        string `json:"name"`
				Description string `json:"description"`
				Citation    string `json:"citation"`
				Source      string `json:"source"`
			}
			if ln == "" {
				continue
			}
			if err := json.Unmarshal([]byte(ln), &m); err != nil {
				got = append(got, "undecodable:"+ln)
				continue
			}
			got = append(got, fmt.Sprintf("%s|%s|%s|%s", m.Name, m.Description, m.Citation, m.Source))
		}
		sort.Strings(want)
		sort.Strings(got)
		rep.Evaluations++
		rep.distinctKey("listing-shared-name")
		if strings.Join(want, "\n") != strings.Join(got, "\n") {
			rep.violate(Violation{"C14", fmt.Sprintf("the listing of a registry whose kinds share a lint name is not one line per registered lint: registered %q, listed %q", want, got), "listing-shared-name", map[string]interface{}{"registered": want, "listed": got}})
		}
	}
	// ---- listing
	for _, reg := range listingRegistries(g) {
		var buf bytes.Buffer
		reg.WriteJSON(&buf)
		lines := strings.Split(strings.TrimRight(buf.String(), "\n"), "\n")
		metas := registryMetas(reg)
		if buf.Len() == 0 {
			lines = nil
		}
		rep.Evaluations++
		if len(lines) != len(metas) {
			rep.violate(Violation{"C14", fmt.Sprintf("listing has %d lines for %d registered lints", len(lines), len(metas)), "listing-count", map[string]interface{}{"lines": len(lines), "lints": len(metas)}})
		}
		seen := map[string]bool{}
		for _, ln := range lines {
			var m struct {
				Name        string          `json:"name"`
				Description string          `json:"description"`
				Citation    string          `json:"citation"`
				Source      lint.LintSource `json:"source"`
			}
			if err := json.Unmarshal([]byte(ln), &m); err != nil {
				rep.violate(Violation{"C14", "listing line does not decode: " + err.Error() + ": " + ln, "listing-decode:" + firstLine(err.Error()), map[string]interface{}{"line": ln}})
				continue
			}
			md, ok := metas[m.Name]
			if !ok || seen[m.Name] {
				rep.violate(Violation{"C14", "listing line for unknown or repeated lint " + m.Name, "listing-name", map[string]interface{}{"line": ln}})
				continue
			}
			seen[m.Name] = true
			if m.Description != md.md.Description || m.Citation != md.md.Citation || m.Source != md.md.Source {
				rep.violate(Violation{"C14", "listing line of " + m.Name + " does not decode to its metadata", "listing-meta", map[string]interface{}{"line": ln}})
			}
		}
	}
	rep.write(filepath.Join(out, "report.json"))
}

func listingRegistries(g lint.Registry) []lint.Registry {
	regs := []lint.Registry{g}
	for _, fo := range []lint.FilterOptions{{IncludeSources: lint.SourceList{lint.RFC5280, lint.RFC6960}}, {ExcludeSources: lint.SourceList{lint.CABFBaselineRequirements}}, {IncludeSources: lint.SourceList{lint.UnknownLintSource}}} {
		if r, err := g.Filter(fo); err == nil {
			regs = append(regs, r)
		}
	}
	return regs
}

// subMeta: C13 — everything the registry lists can be used to select (library level).
func subMeta(out string, seed uint64, tier string, arg string) {
	rng := NewRNG(seed)
	rep := newReport("meta", seed, tier)
	rep.Rule = "exhaustive over what the registry lists: every Names() element as include and as exclude name, every Sources() element through SourceList.FromString, a JSON round trip and IncludeSources/ExcludeSources; every profile's lint names; plus random unknown names and sources which must be rejected"
	g := lint.GlobalRegistry()
	for _, n := range g.Names() {
		rep.Evaluations++
		rep.distinctKey("name:" + n)
		f, err := g.Filter(lint.FilterOptions{IncludeNames: []string{n}})
		if err != nil {
			rep.violate(Violation{"C13", "listed lint name " + n + " is rejected as an include name: " + err.Error(), "include:" + n, map[string]interface{}{"name": n}})
		} else if len(f.Names()) != 1 || f.Names()[0] != n {
			rep.violate(Violation{"C13", "including listed lint name " + n + " does not select exactly it", "include-select:" + n, map[string]interface{}{"name": n, "got": f.Names()}})
		}
		f, err = g.Filter(lint.FilterOptions{ExcludeNames: []string{n}})
		if err != nil {
			rep.violate(Violation{"C13", "listed lint name " + n + " is rejected as an exclude name: " + err.Error(), "exclude:" + n, map[string]interface{}{"name": n}})
		} else if len(f.Names()) != len(g.Names())-1 {
			rep.violate(Violation{"C13", "excluding listed lint name " + n + " does not remove exactly it", "exclude-select:" + n, map[string]interface{}{"name": n}})
		}
	}
	for _, s := range g.Sources() {
		rep.Evaluations++
		rep.distinctKey("source:" + string(s))
		var sl lint.SourceList
		if err := sl.FromString(string(s)); err != nil || len(sl) != 1 || sl[0] != s {
			rep.violate(Violation{"C13", fmt.Sprintf("listed source %s is not accepted by SourceList.FromString (%v)", s, err), "source-fromstring:" + string(s), map[string]interface{}{"source": string(s)}})
		}
		b, _ := json.Marshal(s)
		var back lint.LintSource
		if err := json.Unmarshal(b, &back); err != nil || back != s {
			rep.violate(Violation{"C13", fmt.Sprintf("listed source %s does not survive a JSON round trip (%v)", s, err), "source-json:" + string(s), map[string]interface{}{"source": string(s)}})
		}
		bl, _ := json.Marshal(lint.SourceList{s})
		var backl lint.SourceList
		if err := json.Unmarshal(bl, &backl); err != nil || len(backl) != 1 || backl[0] != s {
			rep.violate(Violation{"C13", fmt.Sprintf("source list [%s] does not survive a JSON round trip (%v)", s, err), "sourcelist-json:" + string(s), map[string]interface{}{"source": string(s)}})
		}
		if f, err := g.Filter(lint.FilterOptions{IncludeSources: lint.SourceList{s}}); err != nil || len(f.Names()) == 0 {
			rep.violate(Violation{"C13", fmt.Sprintf("including listed source %s fails or selects nothing (%v)", s, err), "source-include:" + string(s), map[string]interface{}{"source": string(s)}})
		}
	}
	for _, p := range lint.AllProfiles() {
		for _, n := range p.LintNames {
			rep.Evaluations++
			rep.distinctKey("profile:" + p.Name + ":" + n)
			if _, err := g.Filter(lint.FilterOptions{IncludeNames: []string{n}}); err != nil {
				rep.violate(Violation{"C13", "profile " + p.Name + " names a lint that does not exist: " + n, "profile:" + p.Name + ":" + n, map[string]interface{}{"profile": p.Name, "name": n}})
			}
		}
	}
	rep.Extra["profiles"] = len(lint.AllProfiles())
	// ---- C12: names unique across kinds and sorted; lookups agree; every listed name resolves in exactly one kind
	names := g.Names()
	for i := 1; i < len(names); i++ {
		if names[i-1] >= names[i] {
			what := "Names() is not strictly sorted"
			if names[i-1] == names[i] {
				what = "lint name " + names[i] + " is registered more than once (across kinds)"
			}
			rep.violate(Violation{"C12", what + " at " + names[i], "names-order:" + names[i], map[string]interface{}{"prev": names[i-1], "name": names[i]}})
		}
	}
	kindOf := map[string]int{}
	for _, l := range g.CertificateLints().Lints() {
		kindOf[l.Name]++
		if g.CertificateLints().ByName(l.Name) != l {
			rep.violate(Violation{"C12", "certificate lint " + l.Name + " is not what ByName returns for its name", "byname:" + l.Name, map[string]interface{}{"name": l.Name}})
		}
	}
	for _, l := range g.RevocationListLints().Lints() {
		kindOf[l.Name]++
		if g.RevocationListLints().ByName(l.Name) != l {
			rep.violate(Violation{"C12", "CRL lint " + l.Name + " is not what ByName returns for its name", "byname:" + l.Name, map[string]interface{}{"name": l.Name}})
		}
	}
	for _, l := range g.OcspResponseLints().Lints() {
		kindOf[l.Name]++
		if g.OcspResponseLints().ByName(l.Name) != l {
			rep.violate(Violation{"C12", "OCSP lint " + l.Name + " is not what ByName returns for its name", "byname:" + l.Name, map[string]interface{}{"name": l.Name}})
		}
	}
	for n, c := range kindOf {
		if c != 1 {
			rep.violate(Violation{"C12", fmt.Sprintf("lint name %s is registered %d times", n, c), "dup:" + n, map[string]interface{}{"name": n}})
		}
	}
	if len(kindOf) != len(names) {
		rep.violate(Violation{"C12", fmt.Sprintf("Names() lists %d names for %d registered lints", len(names), len(kindOf)), "names-count", map[string]interface{}{}})
	}
	for _, n := range names {
		if kindOf[n] == 0 {
			rep.violate(Violation{"C12", "Names() lists " + n + " which no lookup holds", "phantom:" + n, map[string]interface{}{"name": n}})
		}
	}
	// listing / filtering after a first use must give the same answer (lookups must not be corrupted by reads)
	names2 := g.Names()
	if strings.Join(names, ",") != strings.Join(names2, ",") {
		rep.violate(Violation{"C12", "Names() changes between two calls", "names-unstable", map[string]interface{}{}})
	}
	kn := append(append(append([]string{}, g.CertificateLints().Names()...), g.RevocationListLints().Names()...), g.OcspResponseLints().Names()...)
	sort.Strings(kn)
	if strings.Join(kn, ",") != strings.Join(names2, ",") {
		rep.violate(Violation{"C12", "the per-kind name lists do not add up to Names()", "kind-names", map[string]interface{}{}})
	}
	// unknown names / sources must be rejected
	for i := 0; i < 300; i++ {
		n := fmt.Sprintf("e_unknown_%x", rng.Next()&0xffffff)
		rep.Evaluations++
		if _, err := g.Filter(lint.FilterOptions{IncludeNames: []string{g.Names()[rng.Intn(len(g.Names()))], n}}); err == nil {
			rep.violate(Violation{"C13", "unknown include name " + n + " silently accepted", "unknown-include", map[string]interface{}{"name": n}})
		}
		if _, err := g.Filter(lint.FilterOptions{ExcludeNames: []string{n}}); err == nil {
			rep.violate(Violation{"C13", "unknown exclude name " + n + " silently accepted", "unknown-exclude", map[string]interface{}{"name": n}})
		}
		s := fmt.Sprintf("SRC%x", rng.Next()&0xffff)
		var sl lint.SourceList
		if err := sl.FromString("RFC5280," + s); err == nil {
			rep.violate(Violation{"C13", "unknown source " + s + " silently accepted by SourceList.FromString", "unknown-source", map[string]interface{}{"source": s}})
		}
		var ls lint.LintSource
		if err := json.Unmarshal([]byte(strconv.Quote(s)), &ls); err == nil {
			rep.violate(Violation{"C13", "unknown source " + s + " accepted by the JSON decoder", "unknown-source-json", map[string]interface{}{"source": s}})
		}
	}
	// "registered once": a second registration under a taken name — the same metadata, another implementation (a lint file copied
	// and re-implemented without renaming) — must be refused loudly by the public API (it panics at init time), for each kind; it
	// must never be accepted *silently*, which would leave a lint in the tree that is in no registry
	dupProbe := func(kind string, try func()) {
		rep.Evaluations++
		rep.distinctKey("duplicate-registration:" + kind)
		before := len(g.Names())
		panicked := func() (p bool) {
			defer func() {
				if recover() != nil {
					p = true
				}
			}()
			try()
			return false
		}()
		if !panicked && len(g.Names()) == before {
			rep.violate(Violation{"C12", "registering a second " + kind + " lint under a taken name (same metadata, another implementation) is silently ignored: the new implementation is in no registry and nothing reports it",
				"duplicate-registration-silent:" + kind, map[string]interface{}{"kind": kind}})
		}
	}
	if cl := g.CertificateLints().Lints(); len(cl) > 0 {
		md := cl[0].LintMetadata
		dupProbe("certificate", func() {
			lint.RegisterCertificateLint(&lint.CertificateLint{LintMetadata: md, Lint: func() lint.CertificateLintInterface { return &dupCertLint{} }})
		})
	}
	if cl := g.RevocationListLints().Lints(); len(cl) > 0 {
		md := cl[0].LintMetadata
		dupProbe("CRL", func() {
			lint.RegisterRevocationListLint(&lint.RevocationListLint{LintMetadata: md, Lint: func() lint.RevocationListLintInterface { return &dupCrlLint{} }})
		})
	}
	rep.sample(map[string]interface{}{"names": len(g.Names()), "sources": len(g.Sources()), "profiles": len(lint.AllProfiles())})
	rep.write(filepath.Join(out, "report.json"))
}

type dupCertLint struct{}

func (*dupCertLint) CheckApplies(*x509.Certificate) bool { return false }
func (*dupCertLint) Execute(*x509.Certificate) *lint.LintResult {
	return &lint.LintResult{Status: lint.Pass}
}

type dupCrlLint struct{}

func (*dupCrlLint) CheckApplies(*x509.RevocationList) bool { return false }
func (*dupCrlLint) Execute(*x509.RevocationList) *lint.LintResult {
	return &lint.LintResult{Status: lint.Pass}
}

type keptEnc struct {
	o    *Obj
	rs   *zlint.ResultSet
	b    []byte
	snap string
}

// checkDecoded: b must decode to rs (statuses, sanitised details, flags, version, number of results)
func checkDecoded(rep *Report, o *Obj, rs *zlint.ResultSet, b []byte, when string) {
	var back zlint.ResultSet
	if err := json.Unmarshal(b, &back); err != nil {
		rep.violate(Violation{"C14", "marshalled result set of " + o.Name + " does not unmarshal" + when + ": " + err.Error(), "unmarshal", replayOf(o, nil)})
		return
	}
	if back.NoticesPresent != rs.NoticesPresent || back.WarningsPresent != rs.WarningsPresent || back.ErrorsPresent != rs.ErrorsPresent || back.FatalsPresent != rs.FatalsPresent || back.Version != rs.Version {
		rep.violate(Violation{"C14", "flags/version changed in a JSON round trip of " + o.Name + when, "flags", replayOf(o, nil)})
	}
	if len(back.Results) != len(rs.Results) {
		rep.violate(Violation{"C14", "number of results changed in a JSON round trip of " + o.Name, "count", replayOf(o, nil)})
	}
	for n, r := range rs.Results {
		br := back.Results[n]
		if br == nil {
			rep.violate(Violation{"C14", "result " + n + " lost in a JSON round trip", "lost:" + n, replayOf(o, nil)})
			continue
		}
		if br.Status != r.Status {
			rep.violate(Violation{"C14", fmt.Sprintf("status of %s changed in a JSON round trip%s: %s -> %s", n, when, r.Status, br.Status), "status:" + r.Status.String(), replayOf(o, map[string]interface{}{"lint": n})})
		}
		if want := perByteSanitize(r.Details); br.Details != want {
			rep.violate(Violation{"C14", fmt.Sprintf("details of %s changed in a JSON round trip: %q -> %q (expected %q)", n, r.Details, br.Details, want), "details", replayOf(o, map[string]interface{}{"lint": n, "details_hex": hexs([]byte(r.Details))})})
		}
	}
}
