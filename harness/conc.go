package main

import (
	"bytes"
	"crypto/rsa"
	stdx509 "crypto/x509"
	"fmt"
	"math/big"
	"os"
	"path/filepath"
	"regexp"
	"runtime"
	"sort"
	"strings"
	"sync"
	"time"

	zlint "github.com/zmap/zlint/v3"
	"github.com/zmap/zlint/v3/lint"
)

func init() {
	subs["conc"] = subConc
}

type concResult struct {
	obj  *Obj
	reg  int
	rs   *zlint.ResultSet
	pmsg string
}

// subConc: many goroutines lint distinct objects against shared registries while others read the
// registry; results are compared with the same calls made alone afterwards. The very first use of
// the global registry in this process happens inside the concurrent phase.
func subConc(out string, seed uint64, tier string, arg string) {
	rng := NewRNG(seed)
	rep := newReport("conc", seed, tier)
	rep.Rule = "G goroutines (GOMAXPROCS 1, 2 and all cores) each lint their own freshly parsed corpus objects against the shared global registry and shared filtered registries, while reader goroutines loop over Names/Sources/ByName/BySource/Lints/Filter/WriteJSON/GetConfiguration; the first use of the registry is concurrent; every result is compared with the same call made alone afterwards; under -race any report is a violation; distinct = (object, registry) pairs"
	objs := loadObjects()
	g := lint.GlobalRegistry()
	rounds := 1
	perWorker := 25
	if tier == "thorough" {
		rounds, perWorker = 4, 120
	}
	type regDef struct {
		desc string
		fo   lint.FilterOptions
		cfg  string // if set: installed with SetConfiguration before the registry is shared (configuring is not a concurrent operation)
	}
	regDefs := []regDef{{"global", lint.FilterOptions{}, ""},
		{"rfc", lint.FilterOptions{IncludeSources: lint.SourceList{lint.RFC5280, lint.RFC5480}}, ""},
		{"no-br", lint.FilterOptions{ExcludeSources: lint.SourceList{lint.CABFBaselineRequirements}}, ""},
		{"rsa", lint.FilterOptions{NameFilter: regexp.MustCompile("rsa|dnsname|onion|tld")}, ""},
		// a shared registry that carries a section for every configurable lint: whatever the wrappers do with the
		// configuration while applying it happens on all goroutines at once
		{"configured", lint.FilterOptions{ExcludeSources: lint.SourceList{"NoSuchSourceAtAll"}}, "[e_rsa_fermat_factorization]\nRounds = 50\n[e_subj_contains_html_entities]\nSkip = false\n[e_subj_orgunit_in_ca_cert]\nCrossCert = false\n[e_crl_next_update_invalid]\nSubscriberCRL = true\n"}}
	var violMu sync.Mutex
	violate := func(v Violation) {
		violMu.Lock()
		rep.violate(v)
		violMu.Unlock()
	}
	for round := 0; round < rounds; round++ {
		for _, procs := range []int{runtime.NumCPU(), 2, 1} {
			runtime.GOMAXPROCS(procs)
			workers := 16
			start := make(chan struct{})
			var wg sync.WaitGroup
			results := make([][]concResult, workers)
			regs := make([]lint.Registry, len(regDefs))
			var regOnce [8]sync.Once
			getReg := func(i int) lint.Registry {
				// the filtered registries themselves are created concurrently, too
				regOnce[i].Do(func() {
					if i == 0 {
						regs[0] = g
						return
					}
					r, err := g.Filter(regDefs[i].fo)
					if err != nil {
						violate(Violation{"C10", "Filter fails under concurrency: " + err.Error(), "filter-error", map[string]interface{}{"filter": regDefs[i].desc}})
						r = g
					}
					if regDefs[i].cfg != "" {
						if cfg, cerr := lint.NewConfigFromString(regDefs[i].cfg); cerr == nil {
							r.SetConfiguration(cfg)
						}
					}
					regs[i] = r
				})
				return regs[i]
			}
			stop := make(chan struct{})
			// readers
			var rwg sync.WaitGroup
			for r := 0; r < 6; r++ {
				rwg.Add(1)
				go func(r int) {
					defer rwg.Done()
					defer func() {
						if e := recover(); e != nil {
							violate(Violation{"C10", fmt.Sprintf("registry reader panicked: %v", e), "reader-panic", map[string]interface{}{}})
						}
					}()
					<-start
					for i := 0; ; i++ {
						select {
						case <-stop:
							return
						default:
						}
						switch (i + r) % 7 {
						case 0:
							n := g.Names()
							if !sort.StringsAreSorted(n) {
								violate(Violation{"C10", "Names() observed unsorted during concurrent use", "names-unsorted", map[string]interface{}{}})
							}
						case 1:
							_ = g.Sources()
						case 2:
							_ = g.CertificateLints().ByName("e_dnsname_not_valid_tld")
							_ = g.ByName("e_rsa_mod_less_than_2048_bits")
						case 3:
							_ = g.CertificateLints().BySource(lint.RFC5280)
							_ = g.BySource(lint.Community)
						case 4:
							if _, err := g.Filter(lint.FilterOptions{IncludeSources: lint.SourceList{lint.Community}, ExcludeNames: []string{"e_rsa_fermat_factorization"}}); err != nil {
								violate(Violation{"C10", "Filter fails under concurrency: " + err.Error(), "filter-error", map[string]interface{}{}})
							}
						case 5:
							var b bytes.Buffer
							g.WriteJSON(&b)
						case 6:
							_ = g.GetConfiguration()
							_ = len(g.CertificateLints().Lints()) + len(g.RevocationListLints().Lints()) + len(g.OcspResponseLints().Lints())
						}
					}
				}(r)
			}
			seeds := make([]uint64, workers)
			for w := range seeds {
				seeds[w] = rng.Next()
			}
			for w := 0; w < workers; w++ {
				wg.Add(1)
				go func(w int) {
					defer wg.Done()
					lr := NewRNG(seeds[w])
					<-start
					for k := 0; k < perWorker; k++ {
						o := objs[lr.Intn(len(objs))].reparse() // every goroutine owns its objects
						if o == nil {
							continue
						}
						ri := lr.Intn(len(regDefs))
						rs, p := lintObj(o, getReg(ri))
						results[w] = append(results[w], concResult{o, ri, rs, p})
					}
				}(w)
			}
			done := make(chan struct{})
			go func() { wg.Wait(); close(done) }()
			close(start)
			select {
			case <-done:
			case <-time.After(120 * time.Second):
				violate(Violation{"C10", "concurrent linting did not finish within 120 s (deadlock?)", "deadlock", map[string]interface{}{"gomaxprocs": procs}})
				rep.write(filepath.Join(out, "report.json"))
				os.Exit(0)
			}
			close(stop)
			rwg.Wait()
			// sequential baseline
			runtime.GOMAXPROCS(runtime.NumCPU())
			for w := range results {
				for _, cr := range results[w] {
					rep.Evaluations++
					rep.distinctKey(fmt.Sprintf("%s|%d", cr.obj.Name, cr.reg))
					rep.count(fmt.Sprintf("gomaxprocs:%d", procs))
					fresh := cr.obj.reparse()
					reg := regs[cr.reg]
					if reg == nil {
						continue
					}
					rs, p := lintObj(fresh, reg)
					if p != cr.pmsg {
						if cr.pmsg != "" {
							violate(Violation{"C10", fmt.Sprintf("linting %s panicked under concurrency only: %s", cr.obj.Name, cr.pmsg), "conc-panic", replayOf(cr.obj, map[string]interface{}{"registry": regDefs[cr.reg].desc})})
						}
						continue
					}
					if d, ok := sameResults(rs, cr.rs); !ok {
						violate(Violation{"C10", fmt.Sprintf("concurrent result for %s (registry %s, GOMAXPROCS %d) differs from the same call made alone: %s", cr.obj.Name, regDefs[cr.reg].desc, procs, d),
							"conc-differs:" + lintNameOf(d), replayOf(cr.obj, map[string]interface{}{"registry": regDefs[cr.reg].desc, "diff": d, "gomaxprocs": procs})})
					}
				}
			}
		}
	}
	// ---- the same content under different registries at the same time: certificates that carry one RSA modulus (a product of
	// close primes that Fermat's method splits in `need` rounds), parsed separately by every goroutine, linted concurrently with
	// a registry configured to fewer rounds than needed and with one configured to more — each call must answer what it answers alone
	func() {
		var n *big.Int
		var need int64
		for i := 0; i < 40 && n == nil; i++ {
			pp, _ := closePrimes(256, int64(1000+i))
			gap := new(big.Int).Lsh(big.NewInt(int64(60+i*8)), 126)
			q := nextPrime(new(big.Int).Add(pp, gap))
			m := new(big.Int).Mul(pp, q)
			astar := new(big.Int).Rsh(new(big.Int).Add(pp, q), 1)
			a0 := new(big.Int).Add(new(big.Int).Sqrt(m), big.NewInt(1))
			nd := new(big.Int).Add(new(big.Int).Sub(astar, a0), big.NewInt(1))
			if nd.IsInt64() && nd.Int64() >= 20 && nd.Int64() <= 5000 {
				n, need = m, nd.Int64()
			}
		}
		if n == nil {
			rep.count("same-modulus-phase:no-modulus")
			return
		}
		der, err := BuildCert(CertSpec{PubKey: &rsa.PublicKey{N: n, E: 65537}, DNS: []string{"conc.example.com"}, EKUs: []stdx509.ExtKeyUsage{stdx509.ExtKeyUsageServerAuth}})
		if err != nil {
			return
		}
		mk := func(rounds int64) lint.Registry {
			r, _ := g.Filter(lint.FilterOptions{IncludeNames: []string{"e_rsa_fermat_factorization", "w_rsa_mod_not_odd", "e_rsa_mod_less_than_2048_bits"}})
			cfg, _ := lint.NewConfigFromString(fmt.Sprintf("[e_rsa_fermat_factorization]\nRounds = %d\n", rounds))
			r.SetConfiguration(cfg)
			return r
		}
		regs2 := []lint.Registry{mk(need / 2), mk(need * 2)}
		var alone [2]string
		for i, r := range regs2 {
			o := parseObj("cert", "kit-conc-modulus", der)
			if o == nil {
				return
			}
			rs, p := lintObj(o, r)
			if p != "" || rs == nil {
				return
			}
			alone[i] = canonRS(rs)
		}
		if alone[0] == alone[1] {
			rep.count("same-modulus-phase:registries-agree")
		}
		runtime.GOMAXPROCS(runtime.NumCPU())
		var wg sync.WaitGroup
		iters := 60
		if tier == "thorough" {
			iters = 600
		}
		for w := 0; w < 8; w++ {
			wg.Add(1)
			go func(w int) {
				defer wg.Done()
				for k := 0; k < iters; k++ {
					o := parseObj("cert", "kit-conc-modulus", der)
					if o == nil {
						return
					}
					rs, p := lintObj(o, regs2[w%2])
					if p != "" || rs == nil {
						violate(Violation{"C10", "linting the shared-modulus certificate panics under concurrency: " + p, "same-modulus-panic", replayOf(o, nil)})
						return
					}
					if got := canonRS(rs); got != alone[w%2] {
						violate(Violation{"C10", fmt.Sprintf("a certificate linted with Rounds = %d while the same modulus is linted with another registry's Rounds gets a result it does not get alone: %s", []int64{need / 2, need * 2}[w%2], firstDiff(alone[w%2], got)),
							"same-modulus-differs", replayOf(o, map[string]interface{}{"rounds_needed": need})})
						return
					}
				}
			}(w)
		}
		wg.Wait()
		rep.Evaluations += 8 * iters
		rep.count("same-modulus-phase")
	}()
	// registry must still be intact
	names := g.Names()
	if !sort.StringsAreSorted(names) || len(names) != len(g.CertificateLints().Lints())+len(g.RevocationListLints().Lints())+len(g.OcspResponseLints().Lints()) {
		violate(Violation{"C10", "registry name list corrupted after concurrent use", "names-corrupt", map[string]interface{}{"names": len(names)}})
	}
	// race detector output, if this binary was built with -race (GORACE=log_path=<out>/race)
	if files, _ := filepath.Glob(filepath.Join(out, "race.*")); len(files) > 0 {
		for _, f := range files {
			b, _ := os.ReadFile(f)
			txt := string(b)
			where := "?"
			for _, ln := range strings.Split(txt, "\n") {
				if strings.Contains(ln, "zlint/v3") {
					where = strings.TrimSpace(ln)
					break
				}
			}
			violate(Violation{"C10", "data race reported by the race detector at " + where, "race:" + where, map[string]interface{}{"report": txt[:min(len(txt), 4000)]}})
		}
	}
	rep.Extra["race_build"] = raceEnabled
	rep.sample(map[string]interface{}{"workers": 16, "readers": 6, "objects_per_worker": perWorker})
	rep.write(filepath.Join(out, "report.json"))
}
