package main

import (
	"bufio"
	"fmt"
	"os"
	"path/filepath"
	"sort"
	"strings"

	"github.com/pelletier/go-toml"
	"github.com/zmap/zcrypto/x509"
	zlint "github.com/zmap/zlint/v3"
	"github.com/zmap/zlint/v3/lint"
)

func init() {
	subs["config"] = subConfig
}

// probe lints: report their configuration in the details
type certProbe struct {
	A int
	B bool
	S string
}

func (l *certProbe) Configure() interface{}              { return l }
func (l *certProbe) CheckApplies(*x509.Certificate) bool { return true }
func (l *certProbe) Execute(*x509.Certificate) *lint.LintResult {
	return &lint.LintResult{Status: lint.Pass, Details: fmt.Sprintf("A=%d;B=%v;S=%s", l.A, l.B, esc(l.S))}
}

type crlProbe struct {
	A int
	B bool
	S string
}

func (l *crlProbe) Configure() interface{}                 { return l }
func (l *crlProbe) CheckApplies(*x509.RevocationList) bool { return true }
func (l *crlProbe) Execute(*x509.RevocationList) *lint.LintResult {
	return &lint.LintResult{Status: lint.Pass, Details: fmt.Sprintf("A=%d;B=%v;S=%s", l.A, l.B, esc(l.S))}
}

type certProbeG struct {
	G *lint.Global
	A int
}

func (l *certProbeG) Configure() interface{}              { return l }
func (l *certProbeG) CheckApplies(*x509.Certificate) bool { return true }
func (l *certProbeG) Execute(*x509.Certificate) *lint.LintResult {
	return &lint.LintResult{Status: lint.Pass, Details: fmt.Sprintf("A=%d", l.A)}
}

type tval struct{ kind, repr string }

func (v tval) toml() string {
	switch v.kind {
	case "str":
		return fmt.Sprintf("%q", v.repr)
	case "array":
		return "[1, 2]"
	case "table":
		return "{ x = 1 }"
	}
	return v.repr
}

// every TOML value that is not a table, in each syntactic family (the documented answer is the same for all: a
// configuration error local to the lint)
var nonTableScalars = []string{"5", "-1", "0", "\"x\"", "\"\"", "true", "false", "1.5", "1979-05-27T07:32:00Z", "'lit'"}
var nonTableArrays = []string{"[1, 2]", "[]", "[\"a\"]", "[[1], [2]]", "[[]]", "[true]", "[1.5, 2.5]", "[ [], [] ]", "[\"\"]"}

type sectionSpec struct {
	kind   string // absent | tbl | scalar | array | aot
	repr   string // scalar / array: the TOML text of the value
	inline bool   // tbl: written as an inline table  name = { k = v }
	fields [][2]interface{}
	keys   []string
	vals   []tval
}

func (s sectionSpec) String() string {
	switch s.kind {
	case "absent":
		return "absent"
	case "tbl":
		var p []string
		for i, k := range s.keys {
			p = append(p, fmt.Sprintf("%s:%s:%s", k, s.vals[i].kind, esc(s.vals[i].repr)))
		}
		if len(p) == 0 {
			return "tbl:"
		}
		return "tbl:" + strings.Join(p, ",")
	}
	return "nat" // not a table
}

func renderDoc(doc map[string]sectionSpec) string {
	var b strings.Builder
	var names []string
	for n := range doc {
		names = append(names, n)
	}
	sort.Strings(names)
	for _, n := range names { // scalars and arrays first
		switch doc[n].kind {
		case "scalar", "array":
			r := doc[n].repr
			if r == "" {
				r = map[string]string{"scalar": "5", "array": "[1, 2]"}[doc[n].kind]
			}
			fmt.Fprintf(&b, "%s = %s\n", n, r)
		case "tbl":
			if doc[n].inline {
				var kv []string
				for i, k := range doc[n].keys {
					kv = append(kv, fmt.Sprintf("%s = %s", k, doc[n].vals[i].toml()))
				}
				fmt.Fprintf(&b, "%s = { %s }\n", n, strings.Join(kv, ", "))
			}
		}
	}
	for _, n := range names {
		s := doc[n]
		switch s.kind {
		case "tbl":
			if s.inline {
				continue
			}
			fmt.Fprintf(&b, "[%s]\n", n)
			for i, k := range s.keys {
				fmt.Fprintf(&b, "%s = %s\n", k, s.vals[i].toml())
			}
		case "aot":
			fmt.Fprintf(&b, "[[%s]]\nA = 1\n[[%s]]\nA = 2\n", n, n)
		}
	}
	return b.String()
}

func randSection(rng *RNG) sectionSpec {
	switch rng.Intn(10) {
	case 0, 1:
		return sectionSpec{kind: "absent"}
	case 2:
		return sectionSpec{kind: "scalar", repr: nonTableScalars[rng.Intn(len(nonTableScalars))]}
	case 3:
		if rng.Intn(3) == 0 {
			return sectionSpec{kind: "aot"}
		}
		return sectionSpec{kind: "array", repr: nonTableArrays[rng.Intn(len(nonTableArrays))]}
	}
	s := sectionSpec{kind: "tbl", inline: rng.Intn(6) == 0}
	vals := []tval{{"int", "5"}, {"int", "-3"}, {"int", "0"}, {"bool", "true"}, {"bool", "false"}, {"str", "hello"}, {"str", ""}, {"str", "7"}, {"float", "1.5"}, {"array", ""}, {"table", ""}}
	for _, k := range []string{"A", "B", "S", "Zextra", "a"} {
		if rng.Intn(2) == 0 {
			continue
		}
		v := vals[rng.Intn(len(vals))]
		if rng.Intn(2) == 0 { // mostly well-typed
			switch k {
			case "A":
				v = vals[rng.Intn(3)]
			case "B":
				v = vals[3+rng.Intn(2)]
			case "S":
				v = vals[5+rng.Intn(3)]
			}
		}
		s.keys = append(s.keys, k)
		s.vals = append(s.vals, v)
	}
	return s
}

func probeOutcome(rs *zlint.ResultSet, name string) string {
	r := rs.Results[name]
	if r == nil {
		return "missing"
	}
	switch {
	case r.Status == lint.Pass:
		return "ok " + r.Details
	case r.Status == lint.Fatal && strings.HasPrefix(r.Details, cfgErrPrefix+name+"."):
		return "err"
	case r.Status == lint.Fatal && strings.Contains(r.Details, panicMarker):
		return "recovered-panic"
	}
	return fmt.Sprintf("status%d", int(r.Status))
}

func subConfig(out string, seed uint64, tier string, arg string) {
	rng := NewRNG(seed)
	rep := newReport("config", seed, tier)
	rep.Rule = "probe lints (certificate and CRL, one embedding the Global section) that echo their configured fields, next to an unconfigured probe and a plain lint, under generated TOML documents (absent / well-typed / ill-typed tables, unknown keys, scalars, arrays and arrays of tables where a table is expected, Global and unrelated sections); SetConfiguration / Filter / lint sequences on two registries; the four real configurable lints and DefaultConfiguration(); distinct = distinct op lines"
	ops, _ := os.Create(filepath.Join(out, "ops.txt"))
	impl, _ := os.Create(filepath.Join(out, "impl.out"))
	wo, wi := bufio.NewWriter(ops), bufio.NewWriter(impl)
	defer func() { wo.Flush(); wi.Flush(); ops.Close(); impl.Close() }()
	emit := func(line, res string) {
		fmt.Fprintln(wo, line)
		fmt.Fprintln(wi, res)
		rep.Evaluations++
		rep.distinctKey(line)
		rep.count(strings.SplitN(res, " ", 2)[0])
		rep.sample(map[string]string{"op": line, "impl": res})
	}
	kitInit()
	cder, _ := BuildCert(CertSpec{DNS: []string{"cfg.example.com"}})
	cert := mustParse(cder)
	crl, _, _ := buildCRL(mustTime("2024-01-01"), mustTime("2024-01-05"))
	mkReg := func(kind string) lint.Registry {
		reg := lint.NewRegistry()
		md := func(n string) lint.LintMetadata {
			return lint.LintMetadata{Name: n, Description: "probe", Source: lint.Community}
		}
		if kind == "cert" {
			lint.VerifRegisterCertificateLint(reg, &lint.CertificateLint{LintMetadata: md("e_cfg_probe"), Lint: func() lint.CertificateLintInterface { return &certProbe{A: 7, B: false, S: "d"} }})
			lint.VerifRegisterCertificateLint(reg, &lint.CertificateLint{LintMetadata: md("e_cfg_probe2"), Lint: func() lint.CertificateLintInterface { return &certProbe{A: 7, B: false, S: "d"} }})
			lint.VerifRegisterCertificateLint(reg, &lint.CertificateLint{LintMetadata: md("e_cfg_probeg"), Lint: func() lint.CertificateLintInterface { return &certProbeG{A: 7} }})
			lint.VerifRegisterCertificateLint(reg, &lint.CertificateLint{LintMetadata: md("e_other"), Lint: func() lint.CertificateLintInterface { return nopCert{} }})
		} else {
			lint.VerifRegisterRevocationListLint(reg, &lint.RevocationListLint{LintMetadata: md("e_cfg_probe"), Lint: func() lint.RevocationListLintInterface { return &crlProbe{A: 7, B: false, S: "d"} }})
			lint.VerifRegisterRevocationListLint(reg, &lint.RevocationListLint{LintMetadata: md("e_cfg_probe2"), Lint: func() lint.RevocationListLintInterface { return &crlProbe{A: 7, B: false, S: "d"} }})
			lint.VerifRegisterRevocationListLint(reg, &lint.RevocationListLint{LintMetadata: md("e_other"), Lint: func() lint.RevocationListLintInterface { return nopCRL{} }})
		}
		return reg
	}
	runDoc := func(kind string, reg lint.Registry) (res string) {
		defer func() {
			if e := recover(); e != nil {
				res = "panic"
			}
		}()
		var rs *zlint.ResultSet
		if kind == "cert" {
			rs = zlint.LintCertificateEx(cert, reg)
		} else {
			rs = zlint.LintRevocationListEx(crl, reg)
		}
		parts := []string{"e_cfg_probe=" + probeOutcome(rs, "e_cfg_probe"), "e_cfg_probe2=" + probeOutcome(rs, "e_cfg_probe2")}
		if kind == "cert" {
			parts = append(parts, "e_cfg_probeg="+probeOutcome(rs, "e_cfg_probeg"))
		}
		parts = append(parts, fmt.Sprintf("e_other=%d", int(rs.Results["e_other"].Status)))
		return "r " + strings.Join(parts, "|")
	}
	n := 1500
	if tier == "thorough" {
		n = 20000
	}
	for i := 0; i < n; i++ {
		kind := []string{"cert", "crl"}[rng.Intn(2)]
		doc := map[string]sectionSpec{"e_cfg_probe": randSection(rng)}
		if rng.Intn(3) == 0 {
			doc["Global"] = randSection(rng)
		}
		if rng.Intn(3) == 0 {
			doc["unrelated_section"] = randSection(rng)
		}
		if rng.Intn(4) == 0 {
			doc["e_cfg_probeg"] = randSection(rng)
		}
		if rng.Intn(6) == 0 {
			doc["e_other"] = randSection(rng)
		}
		text := renderDoc(doc)
		cfg, err := lint.NewConfigFromString(text)
		if err != nil {
			rep.count("toml-rejected")
			continue
		}
		reg := mkReg(kind)
		reg.SetConfiguration(cfg)
		var parts []string
		var names []string
		for k := range doc {
			names = append(names, k)
		}
		sort.Strings(names)
		for _, k := range names {
			parts = append(parts, k+"="+doc[k].String())
		}
		emit(fmt.Sprintf("cfg\t%s\t%s", kind, strings.Join(parts, ";")), runDoc(kind, reg))
	}
	// ---- sequences of SetConfiguration / Filter / lint on two registries
	docs := map[string]string{"d0": "", "d1": "[e_cfg_probe]\nA = 1\n", "d2": "[e_cfg_probe]\nA = 2\nB = true\n", "d3": "e_cfg_probe = 5\n", "d4": "[unrelated]\nx = 1\n"}
	docIDs := []string{"d0", "d1", "d2", "d3", "d4"}
	ns := 300
	if tier == "thorough" {
		ns = 4000
	}
	for i := 0; i < ns; i++ {
		r1 := mkReg("cert")
		var r2 lint.Registry = mkReg("cert")
		var seq []string
		var outs []string
		for j := 0; j < 2+rng.Intn(8); j++ {
			switch rng.Intn(5) {
			case 0:
				d := docIDs[rng.Intn(len(docIDs))]
				c, _ := lint.NewConfigFromString(docs[d])
				r1.SetConfiguration(c)
				seq = append(seq, "S1:"+d)
			case 1:
				d := docIDs[rng.Intn(len(docIDs))]
				c, _ := lint.NewConfigFromString(docs[d])
				r2.SetConfiguration(c)
				seq = append(seq, "S2:"+d)
			case 2:
				f, err := r1.Filter(lint.FilterOptions{ExcludeNames: []string{"e_other"}})
				if err == nil {
					r2 = f
				}
				seq = append(seq, "F")
			case 3:
				rs := zlint.LintCertificateEx(cert, r1)
				outs = append(outs, probeOutcome(rs, "e_cfg_probe"))
				seq = append(seq, "L1")
			case 4:
				rs := zlint.LintCertificateEx(cert, r2)
				outs = append(outs, probeOutcome(rs, "e_cfg_probe"))
				seq = append(seq, "L2")
			}
		}
		emit("cfgseq\t"+strings.Join(seq, ","), "s "+strings.Join(outs, "|"))
	}
	// ---- the real registry: DefaultConfiguration is valid TOML with a section per configurable lint, and loading it changes nothing
	g := lint.GlobalRegistry()
	def, err := g.DefaultConfiguration()
	if err != nil {
		rep.violate(Violation{"C11", "DefaultConfiguration fails: " + err.Error(), "default-config-error", map[string]interface{}{}})
	} else {
		tree, terr := toml.LoadBytes(def)
		if terr != nil {
			rep.violate(Violation{"C11", "the example configuration is not valid TOML: " + terr.Error(), "default-config-toml", map[string]interface{}{"config": string(def)}})
		} else {
			metas := registryMetas(g)
			for name := range metas {
				conf := false
				if l := g.CertificateLints().ByName(name); l != nil {
					_, conf = l.Lint().(lint.Configurable)
				} else if l := g.RevocationListLints().ByName(name); l != nil {
					_, conf = l.Lint().(lint.Configurable)
				} else if l := g.OcspResponseLints().ByName(name); l != nil {
					_, conf = l.Lint().(lint.Configurable)
				}
				if conf {
					rep.Evaluations++
					rep.distinctKey("default-section:" + name)
					if _, ok := tree.Get(name).(*toml.Tree); !ok {
						rep.violate(Violation{"C11", "the example configuration has no section for configurable lint " + name, "default-config-missing:" + name, map[string]interface{}{"config": string(def)}})
					}
				}
			}
			// the example is about the lints' defaults: it is the same text whatever configuration the registry carries — other
			// values for every option of every configurable lint, or a section that cannot be applied at all
			var other strings.Builder
			for _, k := range tree.Keys() {
				sub, ok := tree.Get(k).(*toml.Tree)
				if !ok {
					continue
				}
				fmt.Fprintf(&other, "[%s]\n", k)
				for _, f := range sub.Keys() {
					switch v := sub.Get(f).(type) {
					case bool:
						fmt.Fprintf(&other, "%s = %v\n", f, !v)
					case int64:
						fmt.Fprintf(&other, "%s = %d\n", f, v+7)
					case string:
						fmt.Fprintf(&other, "%s = %q\n", f, v+"x")
					}
				}
			}
			for desc, text := range map[string]string{"other values for every option": other.String(), "an ill-typed section": "[e_rsa_fermat_factorization]\nRounds = \"many\"\n", "a non-table section": "e_rsa_fermat_factorization = 5\n"} {
				loaded, lerr := lint.NewConfigFromString(text)
				if lerr != nil {
					rep.count("example-under-config:unloadable")
					continue
				}
				reg2, _ := g.Filter(lint.FilterOptions{ExcludeSources: lint.SourceList{"NoSuchSource"}})
				reg2.SetConfiguration(loaded)
				def2, err2 := reg2.DefaultConfiguration()
				rep.Evaluations++
				rep.distinctKey("example-under:" + desc)
				if err2 != nil {
					rep.violate(Violation{"C11", "with " + desc + " loaded, DefaultConfiguration fails: " + err2.Error(), "default-config-depends-on-loaded", map[string]interface{}{"loaded": text}})
				} else if string(def2) != string(def) {
					rep.violate(Violation{"C11", "with " + desc + " loaded, DefaultConfiguration prints a different example configuration", "default-config-depends-on-loaded", map[string]interface{}{"loaded": text, "example": string(def2)}})
				}
			}
			cfg, cerr := lint.NewConfigFromString(string(def))
			if cerr != nil {
				rep.violate(Violation{"C11", "the example configuration does not load: " + cerr.Error(), "default-config-load", map[string]interface{}{}})
			} else {
				withDef, _ := g.Filter(lint.FilterOptions{ExcludeNames: []string{"e_no_such"}[:0], ExcludeSources: lint.SourceList{"NoSuchSource"}})
				withDef.SetConfiguration(cfg)
				empty, _ := lint.NewConfigFromString("")
				// unrelated sections: arbitrary names, and names that are *near* a configurable lint's (the same lint name under another
				// severity prefix, carrying that lint's options with other values, and once with an ill-typed value) — they name no lint
				var near strings.Builder
				near.WriteString("[unrelated]\nx = 1\n[another]\ny = \"z\"\n")
				for _, k := range tree.Keys() {
					sub, ok := tree.Get(k).(*toml.Tree)
					if !ok || len(k) < 3 || k[1] != '_' {
						continue
					}
					for _, pfx := range []string{"e", "w", "n"} {
						if pfx == k[:1] {
							continue
						}
						fmt.Fprintf(&near, "[%s%s]\n", pfx, k[1:])
						for _, f := range sub.Keys() {
							switch v := sub.Get(f).(type) {
							case bool:
								if pfx == "n" {
									fmt.Fprintf(&near, "%s = \"yes\"\n", f)
								} else {
									fmt.Fprintf(&near, "%s = %v\n", f, !v)
								}
							case int64:
								fmt.Fprintf(&near, "%s = %d\n", f, v+7)
							}
						}
					}
				}
				unrelated, uerr := lint.NewConfigFromString(near.String())
				if uerr != nil {
					unrelated, _ = lint.NewConfigFromString("[unrelated]\nx = 1\n[another]\ny = \"z\"\n")
					rep.count("near-name-sections:unloadable")
				}
				withEmpty, _ := g.Filter(lint.FilterOptions{ExcludeSources: lint.SourceList{"NoSuchSource"}})
				withEmpty.SetConfiguration(empty)
				withUnrel, _ := g.Filter(lint.FilterOptions{ExcludeSources: lint.SourceList{"NoSuchSource"}})
				withUnrel.SetConfiguration(unrelated)
				objs := loadObjects()
				lim := 150
				if tier == "thorough" {
					lim = len(objs)
				}
				var sampleObjs []*Obj
				for i := 0; i < lim && i < len(objs); i++ {
					sampleObjs = append(sampleObjs, objs[(i*5)%len(objs)])
				}
				for _, o := range objs {
					if o.Kind != "cert" { // the few CRLs and OCSP responses are always in: one configurable lint is a CRL lint
						sampleObjs = append(sampleObjs, o)
					}
				}
				for _, o := range sampleObjs {
					base, p0 := lintObj(o.reparse(), g)
					if p0 != "" {
						continue
					}
					for desc, reg := range map[string]lint.Registry{"example configuration": withDef, "empty configuration": withEmpty, "unrelated sections": withUnrel} {
						rs, p := lintObj(o.reparse(), reg)
						rep.Evaluations++
						rep.distinctKey(desc + "|" + o.Name)
						if p != "" {
							rep.violate(Violation{"C11", "linting panics with the " + desc, "cfg-panic", replayOf(o, nil)})
							continue
						}
						if d, ok := sameResults(base, rs); !ok {
							rep.violate(Violation{"C11", "loading the " + desc + " changes a verdict: " + d, "cfg-changes:" + lintNameOf(d), replayOf(o, map[string]interface{}{"diff": d})})
						}
					}
				}
				// error locality on the real registry: a broken section for one configurable lint
				for _, victim := range []string{"e_rsa_fermat_factorization", "e_subj_contains_html_entities", "e_subj_orgunit_in_ca_cert", "e_crl_next_update_invalid"} {
					texts := []string{victim + " = 5\n", "[" + victim + "]\nRounds = \"x\"\nSkip = 3\nCrossCert = \"no\"\nSubscriberCRL = 1.5\n", "[[" + victim + "]]\nx = 1\n"}
					for _, v := range append(append([]string{}, nonTableScalars...), nonTableArrays...) {
						texts = append(texts, victim+" = "+v+"\n")
					}
					for _, text := range texts {
						bad, berr := lint.NewConfigFromString(text)
						if berr != nil {
							continue
						}
						regBad, _ := g.Filter(lint.FilterOptions{ExcludeSources: lint.SourceList{"NoSuchSource"}})
						regBad.SetConfiguration(bad)
						for i := 0; i < 12 && i < len(objs); i++ {
							o := objs[(i*83)%len(objs)]
							base, p0 := lintObj(o.reparse(), g)
							rs, p := lintObj(o.reparse(), regBad)
							rep.Evaluations++
							rep.distinctKey("bad|" + victim + "|" + text + "|" + o.Name)
							if p0 != "" {
								continue
							}
							if p != "" {
								rep.violate(Violation{"C11", "a section that cannot be applied to " + victim + " makes linting panic: " + p, "cfg-error-panic:" + victim, replayOf(o, map[string]interface{}{"config": text})})
								continue
							}
							for name, r := range rs.Results {
								b := base.Results[name]
								if name == victim {
									if b != nil && b.Status != lint.NA && (r.Status != lint.Fatal || !strings.HasPrefix(r.Details, cfgErrPrefix+victim+".")) {
										// NA by scope gate happens before configuration; otherwise the lint must report the configuration error
										rep.violate(Violation{"C11", fmt.Sprintf("%s reports %s %q instead of a fatal configuration error for an inapplicable section", victim, r.Status, r.Details), "cfg-error-not-fatal:" + victim, replayOf(o, map[string]interface{}{"config": text})})
									}
									continue
								}
								if b != nil && (b.Status != r.Status || b.Details != r.Details) {
									rep.violate(Violation{"C11", fmt.Sprintf("a broken section for %s changes the result of %s", victim, name), "cfg-error-leaks:" + name, replayOf(o, map[string]interface{}{"config": text})})
								}
							}
						}
					}
				}
			}
		}
	}
	rep.write(filepath.Join(out, "report.json"))
}
