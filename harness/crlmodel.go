package main

// crlmodel: the seven CRL rule bodies modelled in lean/ZlModel/Crl.lean, called for real — a fresh instance,
// CheckApplies, then Execute when it applies, under recover (CRL lints have no recovery net of their own) — on corpus
// CRLs, parser-accepted mutants and kit CRLs over entry lists with every reason code from -1 to 12 (and none), reason-code
// extensions marked critical or not, duplicate serial numbers, in several orders. The view of the parsed list is echoed
// to the model.
//
//   crl <nextUpdate zero> <extension OIDs> <serial|reason|oid=crit,...;...>   →   one token per modelled lint: N | <status> | P

import (
	"bufio"
	"crypto/rand"
	stdx509 "crypto/x509"
	"crypto/x509/pkix"
	"encoding/asn1"
	"fmt"
	"math/big"
	"os"
	"path/filepath"
	"strings"
	"time"

	"github.com/zmap/zcrypto/x509"
	"github.com/zmap/zlint/v3/lint"
)

func init() {
	subs["crlmodel"] = subCrlModel
}

var crlModelLints = []string{"e_crl_has_next_update", "e_crl_has_authority_key_identifier", "e_crl_missing_crl_number", "e_cab_crl_reason_code_not_critical",
	"e_cab_crl_has_valid_reason_code", "e_crl_has_valid_reason_code", "e_crl_unique_revoked_certificate"}

func crlView(c *x509.RevocationList) string {
	nz := "0"
	if c.NextUpdate.IsZero() {
		nz = "1"
	}
	var exts []string
	for _, e := range c.Extensions {
		exts = append(exts, e.Id.String())
	}
	var entries []string
	for _, rc := range c.RevokedCertificates {
		ser := "0"
		if rc.SerialNumber != nil {
			ser = rc.SerialNumber.String()
		}
		rsn := "-"
		if rc.ReasonCode != nil {
			rsn = fmt.Sprint(*rc.ReasonCode)
		}
		var xs []string
		for _, e := range rc.Extensions {
			cr := "0"
			if e.Critical {
				cr = "1"
			}
			xs = append(xs, e.Id.String()+"="+cr)
		}
		x := "."
		if len(xs) > 0 {
			x = strings.Join(xs, ",")
		}
		entries = append(entries, ser+"|"+rsn+"|"+x)
	}
	j := func(xs []string, sep string) string {
		if len(xs) == 0 {
			return "."
		}
		return strings.Join(xs, sep)
	}
	return "crl\t" + nz + "\t" + j(exts, ",") + "\t" + j(entries, ";")
}

func runCrlRule(reg lint.Registry, name string, c *x509.RevocationList) (tok string) {
	defer func() {
		if e := recover(); e != nil {
			tok = "P"
		}
	}()
	l := reg.RevocationListLints().ByName(name)
	if l == nil {
		return "?"
	}
	inst := l.Lint()
	if !inst.CheckApplies(c) {
		return "N"
	}
	r := inst.Execute(c)
	if r == nil {
		return "nil"
	}
	return fmt.Sprint(int(r.Status))
}

func subCrlModel(out string, seed uint64, tier string, arg string) {
	rng := NewRNG(seed)
	rep := newReport("crlmodel", seed, tier)
	rep.Rule = "seven CRL rule bodies (next update, authority key identifier, CRL number, reason code criticality, BR and RFC reason codes, unique serials) called directly on corpus CRLs, mutants and kit CRLs whose entries carry every reason code from -1 to 12 or none, critical and non-critical reason extensions and duplicate serials in several orders; distinct = distinct views"
	ops, _ := os.Create(filepath.Join(out, "ops.txt"))
	impl, _ := os.Create(filepath.Join(out, "impl.out"))
	wo, wi := bufio.NewWriter(ops), bufio.NewWriter(impl)
	defer func() { wo.Flush(); wi.Flush(); ops.Close(); impl.Close() }()
	reg := lint.GlobalRegistry()
	seen := map[string]bool{}
	run := func(c *x509.RevocationList, der []byte, origin string) {
		line := crlView(c)
		if seen[line] {
			return
		}
		seen[line] = true
		toks := make([]string, len(crlModelLints))
		for i, n := range crlModelLints {
			toks[i] = runCrlRule(reg, n, c)
			if toks[i] == "P" {
				rep.violate(Violation{"C02", fmt.Sprintf("CRL lint %s panics in CheckApplies/Execute on a %s CRL (no recovery net)", n, origin), "panic:" + n,
					replayOf(&Obj{Kind: "crl", Name: origin, DER: der}, map[string]interface{}{"lint": n})})
			}
			rep.count("outcome:" + n + "=" + toks[i])
		}
		fmt.Fprintln(wo, line)
		fmt.Fprintln(wi, strings.Join(toks, ","))
		rep.Evaluations += len(crlModelLints)
		rep.distinctKey(line)
		rep.count("origin:" + origin)
		rep.sample(map[string]string{"origin": origin, "impl": strings.Join(toks, ",")})
	}
	nm := 12
	if tier == "thorough" {
		nm = 120
	}
	for _, o := range loadObjects() {
		if o.Kind != "crl" {
			continue
		}
		run(o.CRL, o.DER, "corpus")
		for _, m := range mutants(o, rng, nm, rep) {
			if m.CRL != nil {
				run(m.CRL, m.DER, "mutant")
			}
		}
	}
	// kit CRLs
	kitInit()
	issuer := &stdx509.Certificate{Subject: pkix.Name{CommonName: "Kit CRL Issuer"}, SerialNumber: big.NewInt(1), KeyUsage: stdx509.KeyUsageCRLSign, SubjectKeyId: []byte{1, 2, 3, 4}}
	nk := 300
	if tier == "thorough" {
		nk = 6000
	}
	now := time.Date(2024, 3, 1, 0, 0, 0, 0, time.UTC)
	for i := 0; i < nk; i++ {
		n := rng.Intn(5)
		if i < 40 {
			n = 1 + i%2 // every single code, then pairs
		}
		var entries []stdx509.RevocationListEntry
		type extra struct {
			code     int
			has      bool
			critical bool
			other    bool
		}
		var extras []extra
		for j := 0; j < n; j++ {
			entries = append(entries, stdx509.RevocationListEntry{SerialNumber: big.NewInt(int64(1 + rng.Intn(4))), RevocationTime: now.Add(-time.Hour)})
			x := extra{code: rng.Intn(14) - 1, has: rng.Intn(6) != 0, critical: rng.Intn(3) == 0, other: rng.Intn(8) == 0}
			if i < 40 {
				x = extra{code: (i/2+j*7)%14 - 1, has: true, critical: i%3 == 0}
			}
			extras = append(extras, x)
		}
		tmpl := &stdx509.RevocationList{Number: big.NewInt(int64(1 + i)), ThisUpdate: now, NextUpdate: now.Add(24 * time.Hour), RevokedCertificateEntries: entries}
		der, err := stdx509.CreateRevocationList(rand.Reader, tmpl, issuer, kitCAKey)
		if err != nil {
			rep.count("kit-build-error")
			continue
		}
		// the standard library refuses a reasonCode among ExtraExtensions and cannot write code 0 or a critical flag: the entry
		// extensions are added to the encoded list directly (the parser does not verify the signature)
		if root, rest, perr := ParseNode(der); perr == nil && len(rest) == 0 && len(root.Kids) > 0 && n > 0 {
			tbs := root.Kids[0]
			for k := 1; k < len(tbs.Kids); k++ {
				prev := tbs.Kids[k-1]
				if (prev.Tag == 0x17 || prev.Tag == 0x18) && tbs.Kids[k].Tag == 0x30 && !tbs.Kids[k].Prim {
					for j, ent := range tbs.Kids[k].Kids {
						if j >= len(extras) || ent.Prim {
							continue
						}
						var exts []*Node
						if extras[j].has {
							val, _ := asn1.Marshal(asn1.Enumerated(extras[j].code))
							kids := []*Node{prim(0x06, []byte{0x55, 0x1d, 0x15})}
							if extras[j].critical {
								kids = append(kids, prim(0x01, []byte{0xff}))
							}
							kids = append(kids, prim(0x04, val))
							exts = append(exts, cons(0x30, kids...))
						}
						if extras[j].other {
							kids := []*Node{prim(0x06, []byte{0x55, 0x1d, 0x18})}
							if rng.Bool() {
								kids = append(kids, prim(0x01, []byte{0xff}))
							}
							kids = append(kids, prim(0x04, []byte{0x18, 0x0f, '2', '0', '2', '4', '0', '1', '0', '1', '0', '0', '0', '0', '0', '0', 'Z'}))
							exts = append(exts, cons(0x30, kids...))
						}
						if len(exts) > 0 {
							ent.Kids = append(ent.Kids, cons(0x30, exts...))
						}
					}
					break
				}
			}
			der = root.Encode()
		}
		c, err := x509.ParseRevocationList(der)
		if err != nil {
			rep.count("kit-rejected-by-parser")
			continue
		}
		run(c, der, "kit")
	}
	rep.write(filepath.Join(out, "report.json"))
}
