package main

// A small DER TLV reader/writer, independent of zcrypto's, used to rewrite
// certificates (re-date, replace signature, permute SAN / extensions, copy
// SAN->IAN, subject->issuer) without re-signing: zcrypto does not verify
// signatures on parse.

import (
	"bytes"
	"errors"
	"fmt"
	"time"
)

type Node struct {
	Tag      byte
	Kids     []*Node // for constructed encodings
	Content  []byte  // for primitive encodings
	Prim     bool
	original []byte
}

func parseLen(b []byte) (int, int, error) {
	if len(b) < 1 {
		return 0, 0, errors.New("short length")
	}
	if b[0] < 0x80 {
		return int(b[0]), 1, nil
	}
	n := int(b[0] & 0x7f)
	if n == 0 || n > 4 || len(b) < 1+n {
		return 0, 0, errors.New("bad length")
	}
	l := 0
	for i := 0; i < n; i++ {
		l = l<<8 | int(b[1+i])
	}
	return l, 1 + n, nil
}

// ParseNode parses one TLV from b, returning the node and the rest.
func ParseNode(b []byte) (*Node, []byte, error) {
	if len(b) < 2 {
		return nil, nil, errors.New("short TLV")
	}
	tag := b[0]
	if tag&0x1f == 0x1f {
		return nil, nil, errors.New("high tag number")
	}
	l, hl, err := parseLen(b[1:])
	if err != nil {
		return nil, nil, err
	}
	if len(b) < 1+hl+l {
		return nil, nil, errors.New("truncated TLV")
	}
	body := b[1+hl : 1+hl+l]
	n := &Node{Tag: tag, original: b[:1+hl+l]}
	if tag&0x20 != 0 {
		rest := body
		for len(rest) > 0 {
			k, r, err := ParseNode(rest)
			if err != nil {
				return nil, nil, err
			}
			n.Kids = append(n.Kids, k)
			rest = r
		}
	} else {
		n.Prim = true
		n.Content = append([]byte{}, body...)
	}
	return n, b[1+hl+l:], nil
}

func encLen(l int) []byte {
	if l < 0x80 {
		return []byte{byte(l)}
	}
	var tmp []byte
	for x := l; x > 0; x >>= 8 {
		tmp = append([]byte{byte(x)}, tmp...)
	}
	return append([]byte{0x80 | byte(len(tmp))}, tmp...)
}

func (n *Node) Encode() []byte {
	var body []byte
	if n.Prim {
		body = n.Content
	} else {
		for _, k := range n.Kids {
			body = append(body, k.Encode()...)
		}
	}
	out := []byte{n.Tag}
	out = append(out, encLen(len(body))...)
	return append(out, body...)
}

func prim(tag byte, content []byte) *Node { return &Node{Tag: tag, Prim: true, Content: content} }
func cons(tag byte, kids ...*Node) *Node  { return &Node{Tag: tag, Kids: kids} }

func encodeTime(t time.Time) *Node {
	t = t.UTC()
	if t.Year() >= 1950 && t.Year() < 2050 {
		return prim(0x17, []byte(t.Format("060102150405Z")))
	}
	return prim(0x18, []byte(t.Format("20060102150405Z")))
}

// CertDER is a parsed certificate ready for surgery.
type CertDER struct {
	root *Node
	tbs  *Node
	off  int // 1 if the [0] version is present
}

func ParseCertDER(der []byte) (*CertDER, error) {
	root, rest, err := ParseNode(der)
	if err != nil {
		return nil, err
	}
	if len(rest) != 0 || root.Tag != 0x30 || len(root.Kids) != 3 || root.Kids[0].Tag != 0x30 {
		return nil, errors.New("not a certificate shape")
	}
	c := &CertDER{root: root, tbs: root.Kids[0]}
	if len(c.tbs.Kids) > 0 && c.tbs.Kids[0].Tag == 0xA0 {
		c.off = 1
	}
	if len(c.tbs.Kids) < 6+c.off {
		return nil, errors.New("short tbs")
	}
	return c, nil
}

func (c *CertDER) Bytes() []byte { return c.root.Encode() }

func (c *CertDER) SetValidity(nb, na time.Time) {
	c.tbs.Kids[3+c.off] = cons(0x30, encodeTime(nb), encodeTime(na))
}

// SetValidityRaw sets raw time nodes (tag + ASCII content), for offset-carrying UTCTime etc.
func (c *CertDER) SetValidityRaw(nbTag byte, nb string, naTag byte, na string) {
	c.tbs.Kids[3+c.off] = cons(0x30, prim(nbTag, []byte(nb)), prim(naTag, []byte(na)))
}

func (c *CertDER) Signature() []byte {
	s := c.root.Kids[2]
	if !s.Prim || len(s.Content) < 1 {
		return nil
	}
	return s.Content[1:]
}

func (c *CertDER) SetSignature(sig []byte) {
	c.root.Kids[2] = prim(0x03, append([]byte{0}, sig...))
}

func (c *CertDER) IssuerBytes() []byte  { return c.tbs.Kids[2+c.off].Encode() }
func (c *CertDER) SubjectBytes() []byte { return c.tbs.Kids[4+c.off].Encode() }
func (c *CertDER) SetIssuerToSubject()  { c.tbs.Kids[2+c.off] = c.tbs.Kids[4+c.off] }

// extensions returns the SEQUENCE OF Extension node (inside [3]) or nil.
func (c *CertDER) extensions() *Node {
	for _, k := range c.tbs.Kids[6+c.off:] {
		if k.Tag == 0xA3 && len(k.Kids) == 1 && k.Kids[0].Tag == 0x30 {
			return k.Kids[0]
		}
	}
	return nil
}

func (c *CertDER) ensureExtensions() *Node {
	if e := c.extensions(); e != nil {
		return e
	}
	seq := cons(0x30)
	c.tbs.Kids = append(c.tbs.Kids, cons(0xA3, seq))
	if c.off == 0 {
		// extensions require v3
		c.tbs.Kids = append([]*Node{cons(0xA0, prim(0x02, []byte{2}))}, c.tbs.Kids...)
		c.off = 1
	}
	return seq
}

var (
	oidSAN = []byte{0x55, 0x1d, 0x11}
	oidIAN = []byte{0x55, 0x1d, 0x12}
)

func extOID(e *Node) []byte {
	if len(e.Kids) > 0 && e.Kids[0].Tag == 0x06 {
		return e.Kids[0].Content
	}
	return nil
}

func (c *CertDER) findExt(oid []byte) *Node {
	exts := c.extensions()
	if exts == nil {
		return nil
	}
	for _, e := range exts.Kids {
		if bytes.Equal(extOID(e), oid) {
			return e
		}
	}
	return nil
}

func (c *CertDER) HasDuplicateExtension() bool {
	exts := c.extensions()
	if exts == nil {
		return false
	}
	seen := map[string]bool{}
	for _, e := range exts.Kids {
		k := string(extOID(e))
		if seen[k] {
			return true
		}
		seen[k] = true
	}
	return false
}

func (c *CertDER) NumExtensions() int {
	if e := c.extensions(); e != nil {
		return len(e.Kids)
	}
	return 0
}

// PermuteExtensions reorders the extension list by perm (a permutation of 0..n-1).
func (c *CertDER) PermuteExtensions(perm []int) {
	exts := c.extensions()
	if exts == nil {
		return
	}
	old := exts.Kids
	nk := make([]*Node, len(old))
	for i, p := range perm {
		nk[i] = old[p]
	}
	exts.Kids = nk
}

// extValue parses the OCTET STRING payload of an extension as a TLV.
func extValue(e *Node) (*Node, error) {
	v := e.Kids[len(e.Kids)-1]
	if v.Tag != 0x04 {
		return nil, errors.New("no extnValue")
	}
	n, rest, err := ParseNode(v.Content)
	if err != nil {
		return nil, err
	}
	if len(rest) != 0 {
		return nil, errors.New("trailing bytes in extnValue")
	}
	return n, nil
}

func setExtValue(e *Node, val *Node) {
	e.Kids[len(e.Kids)-1] = prim(0x04, val.Encode())
}

// SANEntries returns the GeneralName nodes of the SAN extension.
func (c *CertDER) SANEntries() []*Node {
	e := c.findExt(oidSAN)
	if e == nil {
		return nil
	}
	v, err := extValue(e)
	if err != nil || v.Tag != 0x30 {
		return nil
	}
	return v.Kids
}

func (c *CertDER) PermuteSAN(perm []int) error {
	e := c.findExt(oidSAN)
	if e == nil {
		return errors.New("no SAN")
	}
	v, err := extValue(e)
	if err != nil || v.Tag != 0x30 {
		return fmt.Errorf("SAN value: %v", err)
	}
	old := v.Kids
	nk := make([]*Node, len(old))
	for i, p := range perm {
		nk[i] = old[p]
	}
	v.Kids = nk
	setExtValue(e, v)
	return nil
}

// SetGeneralNames installs a SAN (ian=false) or IAN (ian=true) extension with the given GeneralName nodes.
func (c *CertDER) SetGeneralNames(ian bool, names []*Node, critical bool) {
	oid := oidSAN
	if ian {
		oid = oidIAN
	}
	exts := c.ensureExtensions()
	val := cons(0x30, names...)
	kids := []*Node{prim(0x06, oid)}
	if critical {
		kids = append(kids, prim(0x01, []byte{0xff}))
	}
	kids = append(kids, prim(0x04, val.Encode()))
	ne := cons(0x30, kids...)
	for i, e := range exts.Kids {
		if bytes.Equal(extOID(e), oid) {
			exts.Kids[i] = ne
			return
		}
	}
	exts.Kids = append(exts.Kids, ne)
}

func (c *CertDER) RemoveExt(oid []byte) {
	exts := c.extensions()
	if exts == nil {
		return
	}
	var nk []*Node
	for _, e := range exts.Kids {
		if !bytes.Equal(extOID(e), oid) {
			nk = append(nk, e)
		}
	}
	exts.Kids = nk
}

// CopySANtoIAN installs an IAN whose value equals the SAN's.
func (c *CertDER) CopySANtoIAN() bool {
	names := c.SANEntries()
	if names == nil {
		return false
	}
	c.SetGeneralNames(true, names, false)
	return true
}

// GeneralName constructors (context tags of GeneralName CHOICE)
func gnDNS(s string) *Node   { return prim(0x82, []byte(s)) }
func gnEmail(s string) *Node { return prim(0x81, []byte(s)) }
func gnURI(s string) *Node   { return prim(0x86, []byte(s)) }
func gnIP(b []byte) *Node    { return prim(0x87, b) }
