package main

// der: cryptobyte's DER element reader and the raw-bytes walk of e_cert_sig_alg_not_match_tbs_sig_alg
// (lean/ZlModel/Der.lean) on the real code.
//
//   der-read <hex>   golang.org/x/crypto/cryptobyte String.ReadAnyASN1   →  fail | <tag> <contents hex> <rest hex>
//   der-walk <hex>   the lint's Execute on &x509.Certificate{Raw: bytes}  →  pass | error | fatal:<which read failed>

import (
	"bufio"
	"bytes"
	"fmt"
	"os"
	"path/filepath"
	"strings"

	"github.com/zmap/zcrypto/x509"
	"github.com/zmap/zlint/v3/lint"
	"github.com/zmap/zlint/v3/util"
	"golang.org/x/crypto/cryptobyte"
	cbasn1 "golang.org/x/crypto/cryptobyte/asn1"
)

func init() {
	subs["der"] = subDER
}

func subDER(out string, seed uint64, tier string, arg string) {
	rng := NewRNG(seed)
	rep := newReport("der", seed, tier)
	rep.Rule = "cryptobyte ReadAnyASN1 vs the model on elements with content lengths around every length-form boundary (0, 1, 126..129, 254..257, 65534..65537, 2^24±1), non-minimal / indefinite / truncated / high-tag-number encodings and random bytes; the raw-bytes walk of e_cert_sig_alg_not_match_tbs_sig_alg on every corpus certificate as is, with the signature element replaced, removed or garbage, with the outer or inner algorithm altered, truncated at every structural point; distinct = distinct op lines"
	ops, _ := os.Create(filepath.Join(out, "ops.txt"))
	impl, _ := os.Create(filepath.Join(out, "impl.out"))
	wo, wi := bufio.NewWriter(ops), bufio.NewWriter(impl)
	defer func() { wo.Flush(); wi.Flush(); ops.Close(); impl.Close() }()
	seen := map[string]bool{}
	emit := func(line, res string) {
		if seen[line] {
			return
		}
		seen[line] = true
		fmt.Fprintln(wo, line)
		fmt.Fprintln(wi, res)
		rep.Evaluations++
		rep.distinctKey(line)
		kind := strings.SplitN(line, "\t", 2)[0]
		if kind == "der-read" && res != "fail" {
			rep.count("der-read:ok")
		} else {
			rep.count(kind + ":" + res)
		}
		if len(line) < 300 {
			rep.sample(map[string]string{"op": line, "impl": res})
		}
	}
	hx := func(b []byte) string {
		if len(b) == 0 {
			return "-"
		}
		return hexs(b)
	}
	doRead := func(b []byte) {
		s := cryptobyte.String(append([]byte{}, b...))
		var outS cryptobyte.String
		var tag cbasn1.Tag
		if !s.ReadAnyASN1(&outS, &tag) {
			emit("der-read\t"+hx(b), "fail")
			return
		}
		emit("der-read\t"+hx(b), fmt.Sprintf("%d %s %s", int(tag), hx(outS), hx(s)))
	}
	// every length-form boundary, with 0..2 trailing bytes
	lens := []int{0, 1, 2, 126, 127, 128, 129, 254, 255, 256, 257, 65534, 65535, 65536, 65537}
	if tier == "thorough" {
		lens = append(lens, 1<<24-1, 1<<24, 1<<24+1)
	}
	for _, n := range lens {
		content := bytes.Repeat([]byte{0xAB}, n)
		for _, tag := range []byte{0x30, 0x02, 0xA0, 0x04, 0x1f, 0x3f, 0x9f} {
			el := prim(tag, content).Encode()
			doRead(el)
			doRead(append(append([]byte{}, el...), 0x05, 0x00))
			if n > 0 {
				doRead(el[:len(el)-1]) // truncated
			}
		}
	}
	for _, b := range [][]byte{nil, {0x30}, {0x30, 0x80}, {0x30, 0x80, 0, 0}, {0x30, 0x81, 0x00}, {0x30, 0x81, 0x7f}, {0x30, 0x81, 0x80}, {0x30, 0x82, 0x00, 0x80}, {0x30, 0x82, 0x00, 0xff},
		{0x30, 0x83, 0x00, 0x01, 0x00}, {0x30, 0x84, 0x00, 0x00, 0x01, 0x00}, {0x30, 0x85, 1, 0, 0, 0, 0}, {0x30, 0x84, 0xff, 0xff, 0xff, 0xff}, {0x30, 0x84, 0xff, 0xff, 0xff, 0xfa}, {0x30, 0x88, 0, 0, 0, 0, 0, 0, 0, 1}} {
		doRead(b)
		doRead(append(append([]byte{}, b...), bytes.Repeat([]byte{0x00}, 130)...))
		doRead(append(append([]byte{}, b...), bytes.Repeat([]byte{0x00}, 260)...))
	}
	nr := 3000
	if tier == "thorough" {
		nr = 60000
	}
	for i := 0; i < nr; i++ {
		b := rng.Bytes(rng.Intn(12))
		if len(b) >= 2 && rng.Intn(2) == 0 {
			b[1] = []byte{0x00, 0x01, 0x05, 0x7f, 0x80, 0x81, 0x82, 0x83, 0x84, 0x85}[rng.Intn(10)]
		}
		doRead(b)
	}

	// --- CA classification (util/ca.go) on the four combinations of the two fields it reads, as struct values and as
	// parsed kit certificates (CA / leaf, genuinely self-signed / issued)
	b2 := func(b bool) string {
		if b {
			return "1"
		}
		return "0"
	}
	for _, ca := range []bool{false, true} {
		for _, ss := range []bool{false, true} {
			c := &x509.Certificate{IsCA: ca, SelfSigned: ss}
			emitRaw := func(tag string, c *x509.Certificate) {
				line := fmt.Sprintf("caclass\t%s\t%s", b2(c.IsCA), b2(c.SelfSigned))
				res := b2(util.IsRootCA(c)) + b2(util.IsSubCA(c)) + b2(util.IsSubscriberCert(c))
				fmt.Fprintln(wo, line)
				fmt.Fprintln(wi, res)
				rep.Evaluations++
				rep.distinctKey(line + tag)
				rep.count("caclass:" + res)
				if util.IsCACert(c) != c.IsCA || util.IsSelfSigned(c) != c.SelfSigned {
					rep.violate(Violation{"C04", "IsCACert / IsSelfSigned do not return the parsed fields", "caclass-fields", map[string]interface{}{"isCA": c.IsCA, "selfSigned": c.SelfSigned}})
				}
			}
			emitRaw("struct", c)
			spec := CertSpec{IsCA: ca, DNS: []string{"class.example.com"}}
			if ss {
				kitInit()
				spec.SelfSignKey = kitCAKey
			}
			if der, err := BuildCert(spec); err == nil {
				if pc, err := x509.ParseCertificate(der); err == nil {
					if pc.IsCA == ca && pc.SelfSigned == ss {
						emitRaw("parsed", pc)
					} else {
						rep.count("caclass:kit-mismatch")
					}
				}
			}
		}
	}
	// --- the walk
	l := lint.GlobalRegistry().CertificateLints().ByName("e_cert_sig_alg_not_match_tbs_sig_alg")
	if l == nil {
		rep.Notes = append(rep.Notes, "lint e_cert_sig_alg_not_match_tbs_sig_alg not found")
		rep.write(filepath.Join(out, "report.json"))
		return
	}
	doWalk := func(raw []byte) {
		res := func() (r string) {
			defer func() {
				if e := recover(); e != nil {
					r = "panic"
				}
			}()
			lr := l.Lint().Execute(&x509.Certificate{Raw: append([]byte{}, raw...)})
			switch lr.Status {
			case lint.Pass:
				return "pass"
			case lint.Error:
				return "error"
			case lint.Fatal:
				return "fatal:" + strings.TrimPrefix(strings.TrimPrefix(lr.Details, "error reading "), "certificate.")
			}
			return "other:" + lr.Status.String()
		}()
		res = strings.Replace(res, "fatal:tbsCertificate.", "fatal:", 1)
		emit("der-walk\t"+hx(raw), res)
	}
	objs := loadObjects()
	lim := 120
	if tier == "thorough" {
		lim = len(objs)
	}
	nobj := 0
	for i := 0; i < len(objs) && nobj < lim; i++ {
		o := objs[(i*7+int(seed))%len(objs)]
		if o.Kind != "cert" || len(o.DER) > 6000 {
			continue
		}
		nobj++
		doWalk(o.DER)
		root, rest, err := ParseNode(o.DER)
		if err != nil || len(rest) != 0 || len(root.Kids) != 3 {
			continue
		}
		enc := func() []byte { return root.Encode() }
		sig := root.Kids[2]
		// signature element: other bits, other length, other type, absent
		saved := sig.Content
		sig.Content = append([]byte{0}, bytes.Repeat([]byte{0xFF}, len(saved)-1)...)
		doWalk(enc())
		sig.Content = []byte{0}
		doWalk(enc())
		sig.Content = saved
		root.Kids = root.Kids[:2]
		doWalk(enc())
		root.Kids = append(root.Kids, prim(0x05, nil))
		doWalk(enc())
		root.Kids[2] = sig
		// outer algorithm altered / retagged
		alg := root.Kids[1]
		if len(alg.Kids) > 0 {
			k0 := alg.Kids[0]
			alg.Kids[0] = prim(0x06, []byte{0x2a, 0x03, 0x04})
			doWalk(enc())
			alg.Kids[0] = k0
		}
		alg.Tag = 0x31
		doWalk(enc())
		alg.Tag = 0x30
		// inside tbs: drop the version, retag the serial, drop the algorithm
		tbs := root.Kids[0]
		if len(tbs.Kids) > 3 {
			kids := tbs.Kids
			if kids[0].Tag == 0xA0 {
				tbs.Kids = kids[1:]
				doWalk(enc())
				tbs.Kids = kids
				sv := kids[1].Tag
				kids[1].Tag = 0x04
				doWalk(enc())
				kids[1].Tag = sv
				tbs.Kids = append(append([]*Node{}, kids[:2]...), kids[3:]...)
				doWalk(enc())
				tbs.Kids = kids
			}
		}
		// every remaining failure branch of the walk: tbs not a SEQUENCE, malformed version wrapper, inner algorithm not a SEQUENCE
		tbs.Tag = 0x31
		doWalk(enc())
		tbs.Tag = 0x30
		if len(tbs.Kids) > 3 && tbs.Kids[0].Tag == 0xA0 {
			kids := tbs.Kids
			v := kids[0]
			kids[0] = &Node{Tag: 0xA0, Prim: true, Content: []byte{0x02}} // [0] with a truncated element inside is still a well-formed outer element
			doWalk(enc())
			kids[0] = v
			st := kids[2].Tag
			kids[2].Tag = 0x31
			doWalk(enc())
			kids[2].Tag = st
			// a version element whose own length runs past the end of tbs: hand-made bytes
			raw := enc()
			if i := bytes.Index(raw, []byte{0xA0, 0x03, 0x02, 0x01}); i > 0 {
				bad := append([]byte{}, raw...)
				bad[i+1] = 0x80 // indefinite length: the element is present (tag matches) but unreadable
				doWalk(bad)
			}
		}
		// truncations
		der := o.DER
		for _, cut := range []int{0, 1, 2, 3, 4, 5, len(der) / 2, len(der) - 1} {
			if cut < len(der) {
				doWalk(der[:cut])
			}
		}
	}
	rep.write(filepath.Join(out, "report.json"))
}
