package main

import (
	"bytes"
	"encoding/json"
	"os"
	"path/filepath"
	"sort"
	"strings"

	"github.com/zmap/zlint/v3/lint"
	"github.com/zmap/zlint/v3/lints/community"
	"github.com/zmap/zlint/v3/util"
)

var _ = community.VerifCheckPrimeFactorsTooClose

type DumpLint struct {
	Kind         string `json:"kind"`
	Name         string `json:"name"`
	Description  bool   `json:"has_description"`
	Citation     bool   `json:"has_citation"`
	Source       string `json:"source"`
	EffSec       int64  `json:"eff_sec"`
	EffNsec      int    `json:"eff_nsec"`
	EffZero      bool   `json:"eff_zero"`
	IneffSec     int64  `json:"ineff_sec"`
	IneffNsec    int    `json:"ineff_nsec"`
	IneffZero    bool   `json:"ineff_zero"`
	CtorNil      bool   `json:"ctor_nil"`
	InstanceNil  bool   `json:"instance_nil"`
	Configurable bool   `json:"configurable"`
	ByNameOK     bool   `json:"by_name_ok"`   // ByName(name) returns this very lint
	InBySource   int    `json:"in_by_source"` // occurrences in BySource(source)
}

type Dump struct {
	Lints          []DumpLint          `json:"lints"` // per kind, in Lints() order
	Names          []string            `json:"names"` // registry.Names()
	KindNames      map[string][]string `json:"kind_names"`
	Sources        []string            `json:"sources"`
	KindSources    map[string][]string `json:"kind_sources"`
	BySourceCounts map[string]int      `json:"by_source_counts"` // kind/source -> len(BySource)
	Profiles       map[string][]string `json:"profiles"`
	JSONLines      int                 `json:"json_lines"`
	DefaultConfig  string              `json:"default_config"`
	DefaultCfgErr  string              `json:"default_config_err"`
	Primes         []int64             `json:"primes"`
	Networks       []string            `json:"networks"`
	TLDCount       int                 `json:"tld_count"`
	TLD            [][4]string         `json:"tld"`
}

func subDump(out string) {
	g := lint.GlobalRegistry()
	d := Dump{KindNames: map[string][]string{}, KindSources: map[string][]string{}, BySourceCounts: map[string]int{}, Profiles: map[string][]string{}}
	srcs := func(l lint.SourceList) []string {
		var o []string
		for _, s := range l {
			o = append(o, string(s))
		}
		sort.Strings(o)
		return o
	}
	mk := func(kind string, m lint.LintMetadata) DumpLint {
		return DumpLint{Kind: kind, Name: m.Name, Description: strings.TrimSpace(m.Description) != "", Citation: strings.TrimSpace(m.Citation) != "",
			Source: string(m.Source), EffSec: m.EffectiveDate.Unix(), EffNsec: m.EffectiveDate.Nanosecond(), EffZero: m.EffectiveDate.IsZero(),
			IneffSec: m.IneffectiveDate.Unix(), IneffNsec: m.IneffectiveDate.Nanosecond(), IneffZero: m.IneffectiveDate.IsZero()}
	}
	cl := g.CertificateLints()
	for _, l := range cl.Lints() {
		dl := mk("cert", l.LintMetadata)
		dl.CtorNil = l.Lint == nil
		if l.Lint != nil {
			inst := l.Lint()
			dl.InstanceNil = inst == nil
			_, dl.Configurable = inst.(lint.Configurable)
		}
		dl.ByNameOK = cl.ByName(l.Name) == l
		for _, x := range cl.BySource(l.Source) {
			if x == l {
				dl.InBySource++
			}
		}
		d.Lints = append(d.Lints, dl)
	}
	d.KindNames["cert"] = append([]string{}, cl.Names()...)
	d.KindSources["cert"] = srcs(cl.Sources())
	for _, s := range cl.Sources() {
		d.BySourceCounts["cert/"+string(s)] = len(cl.BySource(s))
	}
	rl := g.RevocationListLints()
	for _, l := range rl.Lints() {
		dl := mk("crl", l.LintMetadata)
		dl.CtorNil = l.Lint == nil
		if l.Lint != nil {
			inst := l.Lint()
			dl.InstanceNil = inst == nil
			_, dl.Configurable = inst.(lint.Configurable)
		}
		dl.ByNameOK = rl.ByName(l.Name) == l
		for _, x := range rl.BySource(l.Source) {
			if x == l {
				dl.InBySource++
			}
		}
		d.Lints = append(d.Lints, dl)
	}
	d.KindNames["crl"] = append([]string{}, rl.Names()...)
	d.KindSources["crl"] = srcs(rl.Sources())
	for _, s := range rl.Sources() {
		d.BySourceCounts["crl/"+string(s)] = len(rl.BySource(s))
	}
	ol := g.OcspResponseLints()
	for _, l := range ol.Lints() {
		dl := mk("ocsp", l.LintMetadata)
		dl.CtorNil = l.Lint == nil
		if l.Lint != nil {
			inst := l.Lint()
			dl.InstanceNil = inst == nil
			_, dl.Configurable = inst.(lint.Configurable)
		}
		dl.ByNameOK = ol.ByName(l.Name) == l
		for _, x := range ol.BySource(l.Source) {
			if x == l {
				dl.InBySource++
			}
		}
		d.Lints = append(d.Lints, dl)
	}
	d.KindNames["ocsp"] = append([]string{}, ol.Names()...)
	d.KindSources["ocsp"] = srcs(ol.Sources())
	for _, s := range ol.Sources() {
		d.BySourceCounts["ocsp/"+string(s)] = len(ol.BySource(s))
	}
	d.Names = g.Names()
	d.Sources = srcs(g.Sources())
	for _, p := range lint.AllProfiles() {
		d.Profiles[p.Name] = p.LintNames
	}
	var buf bytes.Buffer
	g.WriteJSON(&buf)
	d.JSONLines = bytes.Count(buf.Bytes(), []byte("\n"))
	cfg, err := g.DefaultConfiguration()
	d.DefaultConfig = string(cfg)
	if err != nil {
		d.DefaultCfgErr = err.Error()
	}
	d.Primes = util.VerifPrimes()
	d.Networks = util.VerifReservedNetworks()
	sort.Strings(d.Networks)
	tm := util.VerifTLDMap()
	d.TLDCount = len(tm)
	var keys []string
	for k := range tm {
		keys = append(keys, k)
	}
	sort.Strings(keys)
	for _, k := range keys {
		p := tm[k]
		d.TLD = append(d.TLD, [4]string{k, p.GTLD, p.DelegationDate, p.RemovalDate})
	}
	b, _ := json.MarshalIndent(d, "", " ")
	os.WriteFile(filepath.Join(out, "dump.json"), b, 0o644)
}
