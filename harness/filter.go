package main

import (
	"bufio"
	"fmt"
	"os"
	"path/filepath"
	"reflect"
	"regexp"
	"sort"
	"strings"

	"github.com/zmap/zcrypto/x509"
	"github.com/zmap/zlint/v3/lint"
	"golang.org/x/crypto/ocsp"
)

func init() {
	subs["filter"] = subFilter
}

type regEntry struct{ kind, name, source string }

type nopCert struct{}

func (nopCert) CheckApplies(*x509.Certificate) bool { return true }
func (nopCert) Execute(*x509.Certificate) *lint.LintResult {
	return &lint.LintResult{Status: lint.Pass}
}

type nopCRL struct{}

func (nopCRL) CheckApplies(*x509.RevocationList) bool { return true }
func (nopCRL) Execute(*x509.RevocationList) *lint.LintResult {
	return &lint.LintResult{Status: lint.Pass}
}

type nopOCSP struct{}

func (nopOCSP) CheckApplies(*ocsp.Response) bool        { return true }
func (nopOCSP) Execute(*ocsp.Response) *lint.LintResult { return &lint.LintResult{Status: lint.Pass} }

// buildRegistry registers the entries in order into a fresh registry; returns the per-entry outcome.
func buildRegistry(entries []regEntry) (lint.Registry, []string) {
	reg := lint.NewRegistry()
	var outcomes []string
	for _, e := range entries {
		md := lint.LintMetadata{Name: e.name, Description: "d", Source: lint.LintSource(e.source)}
		var err error
		switch e.kind {
		case "cert":
			err = lint.VerifRegisterCertificateLint(reg, &lint.CertificateLint{LintMetadata: md, Lint: func() lint.CertificateLintInterface { return nopCert{} }})
		case "crl":
			err = lint.VerifRegisterRevocationListLint(reg, &lint.RevocationListLint{LintMetadata: md, Lint: func() lint.RevocationListLintInterface { return nopCRL{} }})
		case "ocsp":
			err = lint.VerifRegisterOcspResponseLint(reg, &lint.OcspResponseLint{LintMetadata: md, Lint: func() lint.OcspResponseLintInterface { return nopOCSP{} }})
		case "certnilctor":
			err = lint.VerifRegisterCertificateLint(reg, &lint.CertificateLint{LintMetadata: md, Lint: func() lint.CertificateLintInterface { return nil }})
		case "nil":
			err = lint.VerifRegisterCertificateLint(reg, nil)
		}
		outcomes = append(outcomes, regErrClass(err))
		// reads interleaved with registrations (a registry may be listed / filtered before later init()s run):
		// any cache they fill must not go stale
		switch len(outcomes) % 3 {
		case 0:
			_ = reg.Names()
		case 1:
			_, _ = reg.Filter(lint.FilterOptions{IncludeSources: lint.SourceList{lint.LintSource(e.source)}})
		case 2:
			if e.name != "" {
				_, _ = reg.Filter(lint.FilterOptions{IncludeNames: []string{e.name}})
			}
			_ = reg.Sources()
		}
	}
	return reg, outcomes
}

func regErrClass(err error) string {
	if err == nil {
		return "ok"
	}
	m := err.Error()
	switch {
	case strings.Contains(m, "nil lint"):
		return "nilLint"
	case strings.Contains(m, "nil Lint pointer"):
		return "nilLintPtr"
	case strings.Contains(m, "empty Name"):
		return "emptyName"
	case strings.Contains(m, "already been registered"):
		return "duplicate"
	}
	return "other:" + m
}

func regDump(r lint.Registry) string {
	j := func(xs []string) string {
		if len(xs) == 0 {
			return "-"
		}
		var o []string
		for _, x := range xs {
			o = append(o, escElem(x))
		}
		return strings.Join(o, ",")
	}
	var c, rl, oc []string
	for _, l := range r.CertificateLints().Lints() {
		c = append(c, l.Name+"/"+string(l.Source))
	}
	for _, l := range r.RevocationListLints().Lints() {
		rl = append(rl, l.Name+"/"+string(l.Source))
	}
	for _, l := range r.OcspResponseLints().Lints() {
		oc = append(oc, l.Name+"/"+string(l.Source))
	}
	var srcs []string
	for _, s := range r.Sources() {
		srcs = append(srcs, string(s))
	}
	sort.Strings(srcs)
	// per-kind lookups must agree with the listing
	agree := 1
	for _, l := range r.CertificateLints().Lints() {
		if r.CertificateLints().ByName(l.Name) != l {
			agree = 0
		}
	}
	for _, l := range r.RevocationListLints().Lints() {
		if r.RevocationListLints().ByName(l.Name) != l {
			agree = 0
		}
	}
	for _, l := range r.OcspResponseLints().Lints() {
		if r.OcspResponseLints().ByName(l.Name) != l {
			agree = 0
		}
	}
	return fmt.Sprintf("cert=%s|crl=%s|ocsp=%s|names=%s|sources=%s|kn=%s;%s;%s|agree=%d", j(c), j(rl), j(oc), j(r.Names()), j(srcs),
		j(r.CertificateLints().Names()), j(r.RevocationListLints().Names()), j(r.OcspResponseLints().Names()), agree)
}

type filterOp struct {
	regSpec string // "G" or explicit entries
	reg     lint.Registry
	nf      *regexp.Regexp
	in, ex  []string
	is, xs  []string
}

func (o *filterOp) line() string {
	j := func(xs []string) string {
		if len(xs) == 0 {
			return "-"
		}
		var p []string
		for _, x := range xs {
			p = append(p, escElem(x))
		}
		return strings.Join(p, ",")
	}
	nf := "none"
	if o.nf != nil {
		var m []string
		for _, n := range o.reg.Names() {
			if o.nf.MatchString(n) {
				m = append(m, n)
			}
		}
		nf = "set:" + j(m)
	}
	return fmt.Sprintf("filter\t%s\t%s\t%s\t%s\t%s\t%s", o.regSpec, nf, j(o.in), j(o.ex), j(o.is), j(o.xs))
}

func (o *filterOp) run() (out string) {
	defer func() {
		if e := recover(); e != nil {
			out = fmt.Sprintf("panic:%v", e)
		}
	}()
	before := regDump(o.reg)
	opts := lint.FilterOptions{NameFilter: o.nf, IncludeNames: o.in, ExcludeNames: o.ex}
	for _, s := range o.is {
		opts.IncludeSources = append(opts.IncludeSources, lint.LintSource(s))
	}
	for _, s := range o.xs {
		opts.ExcludeSources = append(opts.ExcludeSources, lint.LintSource(s))
	}
	f, err := o.reg.Filter(opts)
	after := regDump(o.reg)
	unchanged := 0
	if before == after {
		unchanged = 1
	}
	if err != nil {
		m := err.Error()
		switch {
		case strings.HasPrefix(m, "unknown lint name"):
			name := strings.TrimSuffix(strings.TrimPrefix(m, "unknown lint name \""), "\"")
			_ = name
			return fmt.Sprintf("err:unknown src-unchanged=%d", unchanged)
		case strings.Contains(m, "NameFilter cannot be used"):
			return fmt.Sprintf("err:conflict src-unchanged=%d", unchanged)
		case strings.Contains(m, "already been registered"):
			return fmt.Sprintf("err:register:duplicate src-unchanged=%d", unchanged)
		}
		return "err:other:" + m
	}
	same := 0
	if f == o.reg {
		same = 1
	}
	cfgSame := 0
	// (compared structurally: the harness must keep compiling when Configuration gains fields that are not comparable)
	if reflect.DeepEqual(f.GetConfiguration(), o.reg.GetConfiguration()) {
		cfgSame = 1
	}
	return fmt.Sprintf("ok %s|same=%d|cfg=%d|src-unchanged=%d", regDump(f), same, cfgSame, unchanged)
}

var regexPool = []string{"^e_", "^w_", "^n_", "dnsname", "^e_.*_(ca|crl)_", "rsa|ecdsa", "^$", ".*", "_tld$", "^e_ext_san", "x{3}", "^[a-m]", "sub_cert", "(?i)SMIME", "^.{0,20}$", "", "(?:)", "^", "$", "()", "|", "\\z", "(?s).*", "[^\\x00]*"}

func subFilter(out string, seed uint64, tier string, arg string) {
	rng := NewRNG(seed)
	rep := newReport("filter", seed, tier)
	rep.Rule = "FilterOptions over the real global registry and hook-built registries: multisets of known names with stray blanks, unknown and empty names, source subsets (incl. sources without lints and unknown sources), regexps (sent to the model as the set of names they match); distinct = distinct op lines"
	ops, _ := os.Create(filepath.Join(out, "ops.txt"))
	impl, _ := os.Create(filepath.Join(out, "impl.out"))
	wo, wi := bufio.NewWriter(ops), bufio.NewWriter(impl)
	defer func() { wo.Flush(); wi.Flush(); ops.Close(); impl.Close() }()
	g := lint.GlobalRegistry()
	gnames := g.Names()
	var allSources []string
	for _, s := range []lint.LintSource{lint.RFC3279, lint.RFC5280, lint.RFC5480, lint.RFC5891, lint.RFC6960, lint.RFC6962, lint.RFC8813, lint.CABFBaselineRequirements,
		lint.CABFCSBaselineRequirements, lint.CABFSMIMEBaselineRequirements, lint.CABFEVGuidelines, lint.MozillaRootStorePolicy, lint.AppleRootStorePolicy, lint.Community, lint.EtsiEsi, lint.UnknownLintSource, "AdHoc"} {
		allSources = append(allSources, string(s))
	}
	blanks := []string{"", " ", "\t", "  ", "\n", " \t "}
	nrepeat := 0
	emit := func(o *filterOp) {
		line := o.line()
		res := o.run()
		fmt.Fprintln(wo, line)
		fmt.Fprintln(wi, res)
		rep.Evaluations++
		rep.distinctKey(line)
		rep.count("outcome:" + strings.SplitN(strings.SplitN(res, " ", 2)[0], "|", 2)[0])
		rep.sample(map[string]string{"op": line[:min(len(line), 300)], "impl": res[:min(len(res), 300)]})
		// every eighth option set is applied again after the source registry received a new configuration: the answer
		// (selection, "inherits the configuration") must be the same function of the registry as it is now
		nrepeat++
		if nrepeat%8 == 0 {
			if cfg, err := lint.NewConfigFromString(fmt.Sprintf("[unrelated_%d]\nx = %d\n", nrepeat, nrepeat)); err == nil {
				o.reg.SetConfiguration(cfg)
				res2 := o.run()
				fmt.Fprintln(wo, line)
				fmt.Fprintln(wi, res2)
				rep.Evaluations++
				rep.count("repeat-after-setconfiguration")
			}
		}
	}
	genOpts := func(reg lint.Registry, spec string, names []string) *filterOp {
		o := &filterOp{regSpec: spec, reg: reg}
		pickNames := func() []string {
			var l []string
			switch rng.Intn(6) {
			case 0, 1:
				return nil
			case 2:
				return []string{}
			}
			n := 1 + rng.Intn(6)
			if rng.Intn(6) == 0 {
				n = 10 + rng.Intn(40)
			}
			for i := 0; i < n; i++ {
				if len(names) == 0 {
					break
				}
				nm := names[rng.Intn(len(names))]
				switch rng.Intn(12) {
				case 0:
					nm = blanks[rng.Intn(len(blanks))] + nm + blanks[rng.Intn(len(blanks))]
				case 1:
					if rng.Intn(4) == 0 {
						nm = []string{"", "e_no_such_lint", "E_" + nm, nm + "x", " "}[rng.Intn(5)]
					}
				}
				l = append(l, nm)
			}
			return l
		}
		pickSources := func() []string {
			switch rng.Intn(4) {
			case 0, 1:
				return nil
			}
			var l []string
			n := 1 + rng.Intn(4)
			for i := 0; i < n; i++ {
				l = append(l, allSources[rng.Intn(len(allSources))])
			}
			return l
		}
		o.in, o.ex, o.is, o.xs = pickNames(), pickNames(), pickSources(), pickSources()
		if rng.Intn(4) == 0 {
			o.nf = regexp.MustCompile(regexPool[rng.Intn(len(regexPool))])
			if rng.Intn(3) != 0 {
				o.in, o.ex = nil, nil
			}
		}
		return o
	}
	nG, nH := 1500, 1500
	if tier == "thorough" {
		nG, nH = 40000, 60000
	}
	// empty options, nil vs empty
	emit(&filterOp{regSpec: "G", reg: g})
	emit(&filterOp{regSpec: "G", reg: g, in: []string{}, ex: []string{}, is: []string{}, xs: []string{}})
	// every single source, include and exclude
	for _, s := range allSources {
		emit(&filterOp{regSpec: "G", reg: g, is: []string{s}})
		emit(&filterOp{regSpec: "G", reg: g, xs: []string{s}})
	}
	// every pattern of the pool (incl. the ones that match every name and the empty source text) with each kind of
	// name list: the documented conflict does not depend on what the pattern matches
	for _, pat := range regexPool {
		re := regexp.MustCompile(pat)
		k := gnames[rng.Intn(len(gnames))]
		k2 := gnames[rng.Intn(len(gnames))]
		emit(&filterOp{regSpec: "G", reg: g, nf: re})
		emit(&filterOp{regSpec: "G", reg: g, nf: re, in: []string{k}})
		emit(&filterOp{regSpec: "G", reg: g, nf: re, ex: []string{k}})
		emit(&filterOp{regSpec: "G", reg: g, nf: re, in: []string{k}, ex: []string{k2}})
		emit(&filterOp{regSpec: "G", reg: g, nf: re, in: []string{"no_such_lint"}})
		emit(&filterOp{regSpec: "G", reg: g, nf: re, in: []string{}, ex: []string{}})
		emit(&filterOp{regSpec: "G", reg: g, nf: re, in: []string{""}})
		emit(&filterOp{regSpec: "G", reg: g, nf: re, is: []string{allSources[rng.Intn(len(allSources))]}})
		emit(&filterOp{regSpec: "G", reg: g, nf: re, in: []string{k}, xs: []string{allSources[rng.Intn(len(allSources))]}})
	}
	// patterns built from the registry's own names: exact, anchored both ways, proper prefixes / suffixes / infixes
	// anchored (must select nothing unless they are names themselves), quoted, grouped, case-folded, alternations
	{
		nd := 10
		if tier == "thorough" {
			nd = 120
		}
		for i := 0; i < nd; i++ {
			n := gnames[rng.Intn(len(gnames))]
			m := gnames[rng.Intn(len(gnames))]
			a, b := rng.Intn(len(n)), rng.Intn(len(n))
			if a > b {
				a, b = b, a
			}
			q := regexp.QuoteMeta
			for _, pat := range []string{"^" + q(n) + "$", "\\A" + q(n) + "\\z", "^" + q(n[:b]) + "$", "^" + q(n[a:]) + "$", "^" + q(n[a:b]) + "$", q(n), q(n[a:b]),
				"^(?:" + q(n) + ")$", "(?i)^" + q(strings.ToUpper(n)) + "$", "^" + q(n) + "|" + q(m) + "$", "^(" + q(n) + "|" + q(m) + ")$", q(n) + "$", "^" + q(n), "^" + q(n) + "$|^$", "(?m)^" + q(n[a:]) + "$"} {
				re, err := regexp.Compile(pat)
				if err != nil {
					continue
				}
				emit(&filterOp{regSpec: "G", reg: g, nf: re})
			}
		}
	}
	for i := 0; i < nG; i++ {
		emit(genOpts(g, "G", gnames))
	}
	// hook-built registries, including cross-kind name clashes, empty names, nil lints, duplicates
	kinds := []string{"cert", "cert", "cert", "crl", "ocsp"}
	for i := 0; i < nH; i++ {
		n := 1 + rng.Intn(10)
		var entries []regEntry
		// names are compared as they are spelled: lower case is a convention of the tree, not something registration enforces
		pool := []string{"e_a", "w_b", "n_c", "e_d", "w_e", "e_f", "e_g", "n_h", "e_aa", "w_a", "e_Mixed", "E_A", "n_cAmel"}
		for j := 0; j < n; j++ {
			e := regEntry{kind: kinds[rng.Intn(len(kinds))], name: pool[rng.Intn(len(pool))], source: allSources[rng.Intn(8)]}
			switch rng.Intn(40) {
			case 0:
				e.name = ""
			case 1:
				e.kind = "certnilctor"
			case 2:
				e.kind = "nil"
			}
			entries = append(entries, e)
		}
		reg, outcomes := buildRegistry(entries)
		var parts []string
		var names []string
		for k, e := range entries {
			parts = append(parts, fmt.Sprintf("%s:%s:%s:%s", e.kind, esc(e.name), e.source, outcomes[k]))
			names = append(names, e.name)
		}
		spec := "H:" + strings.Join(parts, ";")
		// the registration outcomes and resulting registry are themselves an op (C12: register_inv)
		line := "register\t" + spec
		fmt.Fprintln(wo, line)
		fmt.Fprintln(wi, "reg "+regDump(reg))
		rep.Evaluations++
		rep.distinctKey(line)
		rep.count("register-seq")
		emit(genOpts(reg, spec, names))
		if rng.Intn(3) == 0 {
			// chained filter: filter the filtered registry again
			o1 := genOpts(reg, spec, names)
			if f, err := reg.Filter(lint.FilterOptions{IncludeSources: toSources(o1.is), ExcludeSources: toSources(o1.xs)}); err == nil && f != reg {
				var parts2 []string
				for _, l := range f.CertificateLints().Lints() {
					parts2 = append(parts2, fmt.Sprintf("cert:%s:%s:ok", esc(l.Name), string(l.Source)))
				}
				for _, l := range f.OcspResponseLints().Lints() {
					parts2 = append(parts2, fmt.Sprintf("ocsp:%s:%s:ok", esc(l.Name), string(l.Source)))
				}
				for _, l := range f.RevocationListLints().Lints() {
					parts2 = append(parts2, fmt.Sprintf("crl:%s:%s:ok", esc(l.Name), string(l.Source)))
				}
				if len(parts2) > 0 {
					rep.count("chained")
					emit(genOpts(f, "H:"+strings.Join(parts2, ";"), f.Names()))
				}
			}
		}
	}
	rep.write(filepath.Join(out, "report.json"))
}

func toSources(l []string) lint.SourceList {
	var o lint.SourceList
	for _, s := range l {
		o = append(o, lint.LintSource(s))
	}
	return o
}

func min(a, b int) int {
	if a < b {
		return a
	}
	return b
}

// escElem encodes a list element: hex, with "_" for the empty string ("-" denotes the empty list)
func escElem(s string) string {
	if s == "" {
		return "_"
	}
	return esc(s)
}
