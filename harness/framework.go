package main

import (
	"bufio"
	"encoding/asn1"
	"fmt"
	"os"
	"path/filepath"
	"sort"
	"strings"
	"time"

	stdx509 "crypto/x509"
	"crypto/x509/pkix"

	"github.com/zmap/zcrypto/x509"
	zlint "github.com/zmap/zlint/v3"
	"github.com/zmap/zlint/v3/lint"
	"golang.org/x/crypto/ocsp"
)

// ---- certificate views for the scope gate ------------------------------------

type ViewSpec struct {
	EKUs     []string // dotted OIDs
	Policies []string
	Emails   []string
	SmtpUTF8 []int // text lengths of SmtpUTF8Mailbox otherNames (0 = empty UTF8String, -1 = empty [0] wrapper)
	OtherON  bool  // an otherName of a different type
	// EmptyEKUExt: with no EKUs, still write an extKeyUsage extension whose SEQUENCE is empty. The parsed view is the
	// same as with no extension (no EKU of either kind), so the model's answer is the same: "no EKU" is a fact about the
	// parsed lists, not about the presence of the extension.
	EmptyEKUExt bool
}

// parsedView renders the view the scope predicates read, from the *parsed* certificate
// (EKU OIDs are taken from the spec after checking the parser saw as many).
func parsedView(v ViewSpec, c *x509.Certificate) string {
	j := func(xs []string) string {
		if len(xs) == 0 {
			return "-"
		}
		return strings.Join(xs, ",")
	}
	ekus := v.EKUs
	if len(c.ExtKeyUsage)+len(c.UnknownExtKeyUsage) != len(v.EKUs) {
		ekus = []string{"9.9.9"} // parser disagreement: make the op fail loudly
	}
	var pol, em, on []string
	for _, p := range c.PolicyIdentifiers {
		pol = append(pol, p.String())
	}
	for _, e := range c.EmailAddresses {
		em = append(em, esc(e))
	}
	for _, o := range c.OtherNames {
		on = append(on, fmt.Sprintf("%s:%d", o.TypeID.String(), len(o.Value.Bytes)))
	}
	return "ekus=" + j(ekus) + "/pol=" + j(pol) + "/em=" + j(em) + "/on=" + j(on)
}

var knownEKU = map[string]stdx509.ExtKeyUsage{
	"2.5.29.37.0":       stdx509.ExtKeyUsageAny,
	"1.3.6.1.5.5.7.3.1": stdx509.ExtKeyUsageServerAuth,
	"1.3.6.1.5.5.7.3.2": stdx509.ExtKeyUsageClientAuth,
	"1.3.6.1.5.5.7.3.3": stdx509.ExtKeyUsageCodeSigning,
	"1.3.6.1.5.5.7.3.4": stdx509.ExtKeyUsageEmailProtection,
	"1.3.6.1.5.5.7.3.9": stdx509.ExtKeyUsageOCSPSigning,
}

func parseOID(s string) asn1.ObjectIdentifier {
	var o asn1.ObjectIdentifier
	for _, p := range strings.Split(s, ".") {
		var n int
		fmt.Sscanf(p, "%d", &n)
		o = append(o, n)
	}
	return o
}

func (v ViewSpec) String() string {
	j := func(xs []string) string {
		if len(xs) == 0 {
			return "-"
		}
		return strings.Join(xs, ",")
	}
	var em []string
	for _, e := range v.Emails {
		em = append(em, esc(e))
	}
	on := "-"
	var ons []string
	for _, l := range v.SmtpUTF8 {
		ons = append(ons, fmt.Sprintf("1.3.6.1.5.5.7.8.9:%d", l))
	}
	if v.OtherON {
		ons = append(ons, "1.3.6.1.4.1.311.20.2.3:5")
	}
	if len(ons) > 0 {
		on = strings.Join(ons, ",")
	}
	return "ekus=" + j(v.EKUs) + "/pol=" + j(v.Policies) + "/em=" + j(em) + "/on=" + on
}

// otherName GeneralName: [0] { OID, [0] EXPLICIT value }
func gnOtherName(oid string, utf8 string, emptyWrapper bool) *Node {
	enc, _ := asn1.Marshal(parseOID(oid))
	oidNode, _, _ := ParseNode(enc)
	if emptyWrapper {
		return cons(0xA0, oidNode, cons(0xA0))
	}
	return cons(0xA0, oidNode, cons(0xA0, prim(0x0C, []byte(utf8))))
}

func buildViewCert(v ViewSpec, nb time.Time, offsetForm bool) (*x509.Certificate, []byte, error) {
	spec := CertSpec{NotBefore: nb, NotAfter: nb.Add(30 * 24 * time.Hour)}
	for _, e := range v.EKUs {
		if k, ok := knownEKU[e]; ok {
			spec.EKUs = append(spec.EKUs, k)
		} else {
			spec.UnknownEKUs = append(spec.UnknownEKUs, parseOID(e))
		}
	}
	for _, p := range v.Policies {
		spec.Policies = append(spec.Policies, parseOID(p))
	}
	names := []*Node{gnDNS("view.example.com")}
	for _, e := range v.Emails {
		names = append(names, gnEmail(e))
	}
	for _, l := range v.SmtpUTF8 {
		if l < 0 {
			names = append(names, gnOtherName("1.3.6.1.5.5.7.8.9", "", true))
		} else {
			names = append(names, gnOtherName("1.3.6.1.5.5.7.8.9", strings.Repeat("a", l), false))
		}
	}
	if v.OtherON {
		names = append(names, gnOtherName("1.3.6.1.4.1.311.20.2.3", "upn@x", false))
	}
	spec.RawSAN = names
	if v.EmptyEKUExt && len(v.EKUs) == 0 {
		spec.ExtraExt = append(spec.ExtraExt, pkix.Extension{Id: asn1.ObjectIdentifier{2, 5, 29, 37}, Value: []byte{0x30, 0x00}})
	}
	der, err := BuildCert(spec)
	if err != nil {
		return nil, nil, err
	}
	if offsetForm {
		// same instant, written with a +0200 offset (UTCTime allows it in the parser)
		cd, err := ParseCertDER(der)
		if err != nil {
			return nil, nil, err
		}
		loc := time.FixedZone("", 2*3600)
		f := func(t time.Time) (byte, string) {
			t = t.In(loc)
			if t.Year() >= 1950 && t.Year() < 2050 {
				return 0x17, t.Format("060102150405-0700")
			}
			return 0x18, t.Format("20060102150405-0700")
		}
		t1, s1 := f(nb)
		t2, s2 := f(nb.Add(30 * 24 * time.Hour))
		cd.SetValidityRaw(t1, s1, t2, s2)
		der2 := cd.Bytes()
		if c, err := x509.ParseCertificate(der2); err == nil && c.NotBefore.Equal(nb) {
			return c, der2, nil
		}
	}
	c, err := x509.ParseCertificate(der)
	return c, der, err
}

// ---- one framework operation -----------------------------------------------------

type FwOp struct {
	PreView  *ViewSpec // if set: an object first linted with this view is overwritten in place and linted again
	NoNext   bool      // OCSP: response without nextUpdate (target is Go's zero time)
	ViewLine string
	Kind     string
	View     ViewSpec
	Target   time.Time
	Offset   bool
	Lints    []LintSpec
}

func (o FwOp) Line() string {
	view := "-"
	if o.Kind == "cert" {
		view = o.ViewLine
	}
	var ls []string
	for _, l := range o.Lints {
		ls = append(ls, l.String())
	}
	return fmt.Sprintf("fw\t%s\t%s\t%d\t%d\t%s", o.Kind, view, o.Target.Unix(), o.Target.Nanosecond(), strings.Join(ls, ";"))
}

const cfgErrPrefix = "A fatal error occurred while attempting to configure "

func canonDetails(name, d string) string {
	if strings.HasPrefix(d, cfgErrPrefix+name+".") {
		return "CFGERR:" + name
	}
	return d
}

func canonResultSet(rs *zlint.ResultSet, rec *recorder, specs []LintSpec) string {
	if rs == nil {
		return "nilset"
	}
	b2i := func(b bool) int {
		if b {
			return 1
		}
		return 0
	}
	var names []string
	for k := range rs.Results {
		names = append(names, k)
	}
	sort.Strings(names)
	var parts []string
	for _, n := range names {
		r := rs.Results[n]
		if r == nil {
			parts = append(parts, n+"=nil")
			continue
		}
		parts = append(parts, fmt.Sprintf("%s=%d:%s:%s:%s", n, int(r.Status), esc(canonDetails(n, r.Details)), r.LintMetadata.Name, string(r.LintMetadata.Source)))
	}
	var logs []string
	for _, s := range specs {
		l := ""
		if b, ok := rec.log[s.Name]; ok {
			l = b.String()
		}
		logs = append(logs, s.Name+"="+l)
	}
	sort.Strings(logs)
	return fmt.Sprintf("ok v=%d n=%d w=%d e=%d f=%d | %s | %s", rs.Version, b2i(rs.NoticesPresent), b2i(rs.WarningsPresent), b2i(rs.ErrorsPresent), b2i(rs.FatalsPresent),
		strings.Join(parts, " "), strings.Join(logs, " "))
}

type fwObjects struct {
	certCache map[string]*x509.Certificate
	crlCache  map[int64]*x509.RevocationList
	ocspCache map[int64]*ocsp.Response
}

func runFwOp(o *FwOp, rng *RNG, objs *fwObjects) (out string) {
	defer func() {
		if e := recover(); e != nil {
			out = "panic"
		}
	}()
	reg := lint.NewRegistry()
	rec := &recorder{log: map[string]*strings.Builder{}}
	for i := range o.Lints {
		if err := registerScripted(reg, o.Kind, &o.Lints[i], rec); err != nil {
			return "regerr:" + err.Error()
		}
	}
	rec.log = map[string]*strings.Builder{} // registration itself calls each constructor once (nil check)
	cfgText := configFor(o.Lints, rng)
	cfg, err := lint.NewConfigFromString(cfgText)
	if err != nil {
		return "cfgparse:" + err.Error()
	}
	reg.SetConfiguration(cfg)
	var rs *zlint.ResultSet
	var altObj interface{}
	switch o.Kind {
	case "cert":
		key := fmt.Sprintf("%s|%d.%d|%v", o.View.String(), o.Target.Unix(), o.Target.Nanosecond(), o.Offset)
		c := objs.certCache[key]
		if c == nil {
			var err error
			if o.Target.Year() < 1 || o.Target.Nanosecond() != 0 {
				// an instant no encoder here writes (year 0 and before): the object is parsed with another date and the
				// dating field set on the parsed value — Lint*Ex takes any *x509.Certificate
				c, _, err = buildViewCert(o.View, time.Unix(fwE, 0).UTC(), false)
				if err == nil {
					cp := *c
					cp.NotBefore, cp.NotAfter = o.Target, o.Target.Add(30*24*time.Hour)
					c = &cp
				}
			} else {
				c, _, err = buildViewCert(o.View, o.Target, o.Offset)
			}
			if err != nil {
				return "builderr:" + err.Error()
			}
			objs.certCache[key] = c
		}
		o.ViewLine = parsedView(o.View, c)
		if o.PreView != nil {
			// same pointer, different content: lint, overwrite the struct in place, lint again
			pre, _, err := buildViewCert(*o.PreView, o.Target, false)
			if err != nil {
				return "builderr:" + err.Error()
			}
			func() {
				defer func() { recover() }()
				zlint.LintCertificateEx(pre, reg)
			}()
			*pre = *c
			rec.log = map[string]*strings.Builder{}
			rs = zlint.LintCertificateEx(pre, reg)
			altObj = pre
			break
		}
		rs = zlint.LintCertificateEx(c, reg)
		altObj = c
	case "crl":
		c := objs.crlCache[fwDateKey(o.Target)]
		if c == nil {
			var err error
			if o.Target.Year() < 1 || o.Target.Nanosecond() != 0 {
				c, _, err = buildCRL(time.Unix(fwE, 0).UTC(), time.Unix(fwE, 0).UTC().Add(24*time.Hour))
				if err == nil {
					cp := *c
					cp.ThisUpdate, cp.NextUpdate = o.Target, o.Target.Add(24*time.Hour)
					c = &cp
				}
			} else {
				c, _, err = buildCRL(o.Target, o.Target.Add(24*time.Hour))
			}
			if err != nil {
				return "builderr:" + err.Error()
			}
			objs.crlCache[fwDateKey(o.Target)] = c
		}
		rs = zlint.LintRevocationListEx(c, reg)
		altObj = c
	case "ocsp":
		if o.NoNext {
			c, _, err := buildOCSP(time.Unix(fwE+5, 0).UTC(), time.Time{}, time.Unix(fwE+6, 0).UTC())
			if err != nil {
				return "builderr:" + err.Error()
			}
			if !c.NextUpdate.IsZero() {
				return "builderr:nextUpdate not absent"
			}
			rs = zlint.LintOcspResponseEx(c, reg)
			altObj = c
			break
		}
		c := objs.ocspCache[fwDateKey(o.Target)]
		if c == nil {
			var err error
			// the OCSP window is read from NextUpdate
			if o.Target.Year() < 1 || o.Target.Nanosecond() != 0 {
				b := time.Unix(fwE, 0).UTC()
				c, _, err = buildOCSP(b.Add(-48*time.Hour), b, b.Add(-47*time.Hour))
				if err == nil {
					cp := *c
					cp.ThisUpdate, cp.NextUpdate, cp.ProducedAt = o.Target.Add(-48*time.Hour), o.Target, o.Target.Add(-47*time.Hour)
					c = &cp
				}
			} else {
				c, _, err = buildOCSP(o.Target.Add(-48*time.Hour), o.Target, o.Target.Add(-47*time.Hour))
			}
			if err != nil {
				return "builderr:" + err.Error()
			}
			objs.ocspCache[fwDateKey(o.Target)] = c
		}
		rs = zlint.LintOcspResponseEx(c, reg)
		altObj = c
	}
	out = canonResultSet(rs, rec, o.Lints)
	if rs != nil {
		if alt := altPaths(o, reg, cfg, altObj, rs); alt != "" {
			out += " | ALT " + alt
		}
	}
	return out
}

// altPaths: every other public way of executing a registered lint must give what the result set holds for it —
// the deprecated registry accessors (Registry.ByName / BySource returning *Lint), the per-kind lookups'
// ByName / BySource, CheckEffective on both — and a *Lint whose window the caller changed must obey its own
// window (expected value: the same scripted lint registered with those dates in a second registry, linted
// through LintCertificateEx, the path tied to the model). Returns a description of the first disagreements.
func altPaths(o *FwOp, reg lint.Registry, cfg lint.Configuration, obj interface{}, rs *zlint.ResultSet) string {
	var bad []string
	note := func(path, name string, got *lint.LintResult, want *lint.LintResult) {
		switch {
		case got == nil && want == nil:
		case got == nil || want == nil:
			bad = append(bad, fmt.Sprintf("%s:%s:nil-mismatch", path, name))
		case got.Status != want.Status || canonDetails(name, got.Details) != canonDetails(name, want.Details):
			bad = append(bad, fmt.Sprintf("%s:%s:got=%d:%s:want=%d:%s", path, name, int(got.Status), esc(canonDetails(name, got.Details)), int(want.Status), esc(canonDetails(name, want.Details))))
		}
	}
	safe := func(f func() *lint.LintResult) (r *lint.LintResult) {
		defer func() {
			if e := recover(); e != nil {
				r = &lint.LintResult{Status: lint.Reserved, Details: "escaped panic"}
			}
		}()
		return f()
	}
	for i := range o.Lints {
		s := &o.Lints[i]
		want := rs.Results[s.Name]
		if want == nil {
			continue
		}
		switch c := obj.(type) {
		case *x509.Certificate:
			if l := reg.ByName(s.Name); l == nil {
				bad = append(bad, "Registry.ByName:"+s.Name+":nil")
			} else {
				note("Registry.ByName.Execute", s.Name, safe(func() *lint.LintResult { return l.Execute(c, cfg) }), want)
				if eff := l.CheckEffective(c); eff != lint.VerifCheckEffective(l.EffectiveDate, l.IneffectiveDate, c.NotBefore) {
					bad = append(bad, "Registry.ByName.CheckEffective:"+s.Name)
				}
				// the caller's copy with another window: must be judged by that window
				target := c.NotBefore
				for _, w := range [][2]time.Time{{{}, {}}, {target.Add(time.Second), {}}, {{}, target}, {target, target.Add(time.Second)}, {target.Add(-time.Hour), target.Add(time.Hour)}} {
					l2 := reg.ByName(s.Name)
					l2.EffectiveDate, l2.IneffectiveDate = w[0], w[1]
					s2 := *s
					s2.Eff, s2.Ineff = timeSpec(w[0]), timeSpec(w[1])
					reg2 := lint.NewRegistry()
					rec2 := &recorder{log: map[string]*strings.Builder{}}
					if err := registerScripted(reg2, "cert", &s2, rec2); err != nil {
						continue
					}
					reg2.SetConfiguration(cfg)
					var rs2 *zlint.ResultSet
					func() {
						defer func() { recover() }()
						rs2 = zlint.LintCertificateEx(c, reg2)
					}()
					if rs2 == nil {
						continue
					}
					note("Registry.ByName(redated).Execute", s.Name, safe(func() *lint.LintResult { return l2.Execute(c, cfg) }), rs2.Results[s.Name])
					// … also when the value has been *used before* its dates were changed, and for a copy taken of a used value:
					// whatever a *Lint remembers from an earlier call must not outlive a change of its window
					l.EffectiveDate, l.IneffectiveDate = w[0], w[1]
					note("Registry.ByName(used, then redated).Execute", s.Name, safe(func() *lint.LintResult { return l.Execute(c, cfg) }), rs2.Results[s.Name])
					if eff := l.CheckEffective(c); eff != lint.VerifCheckEffective(w[0], w[1], c.NotBefore) {
						bad = append(bad, "Registry.ByName(used, then redated).CheckEffective:"+s.Name)
					}
					lc := *l2
					lc.EffectiveDate, lc.IneffectiveDate = w[1], w[0]
					lc.EffectiveDate, lc.IneffectiveDate = w[0], w[1]
					lcp := &lc
					note("copy of a used *Lint.Execute", s.Name, safe(func() *lint.LintResult { return lcp.Execute(c, cfg) }), rs2.Results[s.Name])
				}
			}
			for _, l := range reg.BySource(lint.LintSource(s.Source)) {
				if l.Name == s.Name {
					l := l
					note("Registry.BySource.Execute", s.Name, safe(func() *lint.LintResult { return l.Execute(c, cfg) }), want)
				}
			}
			if cl := reg.CertificateLints().ByName(s.Name); cl == nil {
				bad = append(bad, "CertificateLints.ByName:"+s.Name+":nil")
			} else {
				note("CertificateLints.ByName.Execute", s.Name, safe(func() *lint.LintResult { return cl.Execute(c, cfg) }), want)
			}
			for _, cl := range reg.CertificateLints().BySource(lint.LintSource(s.Source)) {
				if cl.Name == s.Name {
					cl := cl
					note("CertificateLints.BySource.Execute", s.Name, safe(func() *lint.LintResult { return cl.Execute(c, cfg) }), want)
				}
			}
		case *x509.RevocationList:
			if cl := reg.RevocationListLints().ByName(s.Name); cl == nil {
				bad = append(bad, "RevocationListLints.ByName:"+s.Name+":nil")
			} else {
				note("RevocationListLints.ByName.Execute", s.Name, safe(func() *lint.LintResult { return cl.Execute(c, cfg) }), want)
				if cl.CheckEffective(c) != lint.VerifCheckEffective(cl.EffectiveDate, cl.IneffectiveDate, c.ThisUpdate) {
					bad = append(bad, "RevocationListLints.ByName.CheckEffective:"+s.Name)
				}
			}
		case *ocsp.Response:
			if cl := reg.OcspResponseLints().ByName(s.Name); cl == nil {
				bad = append(bad, "OcspResponseLints.ByName:"+s.Name+":nil")
			} else {
				note("OcspResponseLints.ByName.Execute", s.Name, safe(func() *lint.LintResult { return cl.Execute(c, cfg) }), want)
				if cl.CheckEffective(c) != lint.VerifCheckEffective(cl.EffectiveDate, cl.IneffectiveDate, c.NextUpdate) {
					bad = append(bad, "OcspResponseLints.ByName.CheckEffective:"+s.Name)
				}
			}
		}
	}
	if len(bad) > 4 {
		bad = bad[:4]
	}
	return strings.Join(bad, " ")
}

func timeSpec(t time.Time) string {
	if t.IsZero() {
		return "Z"
	}
	return fmt.Sprintf("%d.%d", t.Unix(), t.Nanosecond())
}

// ---- generation -------------------------------------------------------------------

var fwSources = []string{"CABF_BR", "CABF_SMIME_BR", "CABF_CS_BR", "RFC5280", "Community", "Mozilla"}
var fwBodies = []string{"s0", "s1", "s2", "s3", "s4", "s5", "s6", "s7", "s8", "s-1", "nil", "P"}
var fwCfgs = []string{"n", "ok", "err", "tbl", "pan"}
var fwApps = []string{"T", "F", "P"}

var fwViews = []ViewSpec{
	{}, // no EKU at all: server-auth in scope
	{EKUs: []string{"1.3.6.1.5.5.7.3.1"}},
	{EKUs: []string{"1.3.6.1.5.5.7.3.2"}},  // clientAuth only: out of BR scope
	{EKUs: []string{"1.3.6.1.5.5.7.3.36"}}, // only an EKU the parser does not know
	{EKUs: []string{"2.5.29.37.0"}},        // any
	{EKUs: []string{"1.3.6.1.5.5.7.3.2"}, Policies: []string{"2.23.140.1.2.1"}}, // BR DV policy
	{EKUs: []string{"1.3.6.1.5.5.7.3.4"}, Emails: []string{"a@example.com"}},
	{EKUs: []string{"1.3.6.1.5.5.7.3.4"}},                                    // emailProtection but no email SAN
	{Emails: []string{"a@example.com"}},                                      // email SAN, no EKU
	{EKUs: []string{"1.3.6.1.5.5.7.3.2"}, Emails: []string{"a@example.com"}}, // email SAN, other EKU
	{EKUs: []string{"1.3.6.1.5.5.7.3.2"}, Policies: []string{"2.23.140.1.5.1.3"}},
	{EKUs: []string{"1.3.6.1.5.5.7.3.3"}, Policies: []string{"2.23.140.1.4.1"}},
	{EKUs: []string{"1.3.6.1.5.5.7.3.3"}, Policies: []string{"2.23.140.1.3"}},
	{EKUs: []string{"1.3.6.1.5.5.7.3.3"}},
	{EKUs: []string{"1.3.6.1.5.5.7.3.36"}, Emails: []string{"a@example.com"}},
	{SmtpUTF8: []int{4}, EKUs: []string{"1.3.6.1.5.5.7.3.4"}},
	{SmtpUTF8: []int{0}, EKUs: []string{"1.3.6.1.5.5.7.3.4"}},
	{Emails: []string{""}, EKUs: []string{"1.3.6.1.5.5.7.3.4"}},
	{Emails: []string{"", "b@example.org"}},
	{OtherON: true, EKUs: []string{"1.3.6.1.5.5.7.3.4"}},
	{EKUs: []string{"1.3.6.1.5.5.7.3.2", "1.3.6.1.5.5.7.3.36"}, Policies: []string{"2.23.140.1.1"}},
	{EKUs: []string{"1.3.6.1.5.5.7.3.9"}, Policies: []string{"1.2.3.4"}},
	{EmptyEKUExt: true}, // extKeyUsage present but empty: still "no EKU at all"
	{EmptyEKUExt: true, Emails: []string{"a@example.com"}},
	{EmptyEKUExt: true, Policies: []string{"1.2.3.4"}},
	// policy identifiers that are *near* the reserved ones (a sibling, the parent arc, a child, the next free number): only the
	// listed identifiers put a certificate in a scope
	{EKUs: []string{"1.3.6.1.5.5.7.3.2"}, Policies: []string{"2.23.140.1.5.1.4"}},
	{EKUs: []string{"1.3.6.1.5.5.7.3.2"}, Policies: []string{"2.23.140.1.5.5.1"}},
	{EKUs: []string{"1.3.6.1.5.5.7.3.2"}, Policies: []string{"2.23.140.1.5.2"}},
	{EKUs: []string{"1.3.6.1.5.5.7.3.2"}, Policies: []string{"2.23.140.1.5.1.1.1", "2.23.140.1.5"}},
	{EKUs: []string{"1.3.6.1.5.5.7.3.2"}, Policies: []string{"2.23.140.1.2", "2.23.140.1.2.4", "2.23.140.1.2.1.1"}},
	{EKUs: []string{"1.3.6.1.5.5.7.3.2"}, Policies: []string{"2.23.140.1.4", "2.23.140.1.4.2", "2.23.140.1.3.1", "2.23.140.1.31"}},
	{EKUs: []string{"1.3.6.1.5.5.7.3.2", "1.3.6.1.5.5.7.3.4"}}, // clientAuth + emailProtection, no mailbox
}

const fwE = int64(1600000000) // effective instant used by scripted lints
const fwI = int64(1700000000)

type winCase struct {
	eff, ineff string
	target     int64
	label      string
	nanos      int64 // sub-second part of the object's date (set on the parsed value: DER dates have whole seconds)
}

// cache key of an object date: the second, or (sub-second dates, which only occur around fwE/fwI) a negative number no second maps to
func fwDateKey(t time.Time) int64 {
	if t.Nanosecond() == 0 {
		return t.Unix()
	}
	return -(t.Unix()<<31 | int64(t.Nanosecond()))
}

func windowCases() []winCase {
	var out []winCase
	effs := []string{"Z", fmt.Sprintf("%d.0", fwE), fmt.Sprintf("%d.500", fwE)}
	ineffs := []string{"Z", fmt.Sprintf("%d.0", fwI), fmt.Sprintf("%d.500", fwI)}
	targets := []struct {
		t int64
		l string
	}{{fwE - 1, "E-1"}, {fwE, "E"}, {fwE + 1, "E+1"}, {fwI - 1, "I-1"}, {fwI, "I"}, {fwI + 1, "I+1"},
		// instants far outside the range of a 64-bit nanosecond count (1678..2262): a window test that goes through
		// UnixNano wraps there; GeneralizedTime can express them and the parsers accept them
		{-11644473600, "y1601"}, {10413792000, "y2300"}, {19880899200, "y2600"}, {38350281600, "y3185"}, {253394524799, "y9999"}}
	for _, e := range effs {
		for _, i := range ineffs {
			for _, t := range targets {
				out = append(out, winCase{e, i, t.t, e[:1] + i[:1] + t.l, 0})
			}
		}
	}
	// inverted window (ineff before eff) and zero-date-like metadata (year 0, as util.ZeroDate)
	out = append(out, winCase{fmt.Sprintf("%d.0", fwI), fmt.Sprintf("%d.0", fwE), fwE + 5, "inverted", 0})
	out = append(out, winCase{"-62167219200.0", "Z", fwE, "year0", 0})
	// util.ZeroDate (0000-01-01, one year before Go's zero time.Time) is a real instant that ~50 registered lints carry as their
	// effective date: objects dated one second before it, at it and after it — and the same instant as an *ineffective* date
	const zd = int64(-62167219200)
	for _, t := range []struct {
		t int64
		l string
	}{{zd - 1, "ZD-1"}, {zd, "ZD"}, {zd + 1, "ZD+1"}, {zd - 86400*400, "ZD-400d"}} {
		out = append(out, winCase{"-62167219200.0", "Z", t.t, "effZD" + t.l, 0})
		out = append(out, winCase{"-62167219200.0", fmt.Sprintf("%d.0", fwI), t.t, "effZDi" + t.l, 0})
	}
	// objects dated *between* two encodable seconds (a caller may hand Lint*Ex a value it built or adjusted itself): the window is
	// compared on the full instant, half-open, with no rounding — 400 ms and 1 ns before a bound, 600 ms after the second before it
	for _, e := range effs[1:] {
		for _, i := range ineffs[1:] {
			for _, t := range []struct {
				t, ns int64
				l     string
			}{{fwE - 1, 600000000, "E-400ms"}, {fwE - 1, 999999999, "E-1ns"}, {fwE - 1, 400000000, "E-600ms"}, {fwE, 1, "E+1ns"}, {fwE, 499, "E+499ns"}, {fwE, 501, "E+501ns"},
				{fwI - 1, 600000000, "I-400ms"}, {fwI - 1, 999999999, "I-1ns"}, {fwI, 1, "I+1ns"}, {fwI, 499, "I+499ns"}, {fwI, 500, "I+500ns"}, {fwI, 600000000, "I+600ms"}} {
				out = append(out, winCase{e, i, t.t, e[len(e)-3:] + i[len(i)-3:] + t.l, t.ns})
			}
		}
	}
	out = append(out, winCase{"Z", "-62167219200.0", zd - 1, "ineffZD-1", 0}, winCase{"Z", "-62167219200.0", zd, "ineffZD", 0}, winCase{"Z", "-62167219200.0", fwE, "ineffZD-later", 0},
		winCase{"-62167219200.0", "-62167219200.0", zd, "emptyZD", 0}, winCase{"-62167219200.0", "-62167219200.0", fwE, "emptyZD-later", 0})
	return out
}

func subFramework(outDir string, seed uint64, tier string) {
	rng := NewRNG(seed)
	rep := newReport("framework", seed, tier)
	rep.Rule = "scripted lints over kind x source x view(scope) x configure x applies x window x body; distinct = distinct abstract case (kind,source,inScopeClass,cfg,app,window,body) for single-lint ops plus distinct multi-lint registries"
	ops, _ := os.Create(filepath.Join(outDir, "ops.txt"))
	impl, _ := os.Create(filepath.Join(outDir, "impl.out"))
	wo, wi := bufio.NewWriter(ops), bufio.NewWriter(impl)
	defer func() { wo.Flush(); wi.Flush(); ops.Close(); impl.Close() }()
	objs := &fwObjects{map[string]*x509.Certificate{}, map[int64]*x509.RevocationList{}, map[int64]*ocsp.Response{}}
	wins := windowCases()
	emit := func(o FwOp) {
		res := runFwOp(&o, rng, objs)
		line := o.Line()
		fmt.Fprintln(wo, line)
		fmt.Fprintln(wi, res)
		rep.Evaluations++
		if strings.HasPrefix(res, "panic") {
			rep.count("outcome:panic")
		} else {
			rep.count("outcome:returned")
		}
		if len(rep.Samples) < 3 {
			rep.sample(map[string]string{"op": line, "impl": res})
		}
	}
	single := func(kind string, view ViewSpec, w winCase, src, cfg, app, body string, off bool) {
		l := LintSpec{Name: "e_scripted_one", Source: src, Eff: w.eff, Ineff: w.ineff, Cfg: cfg, App: app, Body: body}
		rep.distinctKey(strings.Join([]string{kind, src, view.String(), cfg, app, w.label, body}, "|"))
		rep.count("kind:" + kind)
		rep.count("cfg:" + cfg)
		rep.count("app:" + app)
		rep.count("body:" + body)
		emit(FwOp{Kind: kind, View: view, Target: time.Unix(w.target, w.nanos).UTC(), Offset: off, Lints: []LintSpec{l}})
	}
	kinds := []string{"cert", "crl", "ocsp"}
	if tier == "thorough" {
		// exhaustive over the abstract space (views sampled per combination for cert)
		for _, k := range kinds {
			for _, src := range fwSources {
				for _, cfg := range fwCfgs {
					for _, app := range fwApps {
						for _, w := range wins {
							for _, body := range fwBodies {
								views := []ViewSpec{{}}
								if k == "cert" {
									views = []ViewSpec{fwViews[rng.Intn(len(fwViews))], fwViews[rng.Intn(len(fwViews))]}
								}
								for _, v := range views {
									single(k, v, w, src, cfg, app, body, rng.Intn(8) == 0)
								}
							}
						}
					}
				}
			}
		}
		// every view against every gated source
		for _, v := range fwViews {
			for _, src := range fwSources {
				single("cert", v, wins[1], src, "n", "T", "s6", false)
			}
		}
	} else {
		n := 6000
		for i := 0; i < n; i++ {
			k := kinds[rng.Intn(3)]
			v := ViewSpec{}
			if k == "cert" {
				v = fwViews[rng.Intn(len(fwViews))]
			}
			single(k, v, wins[rng.Intn(len(wins))], fwSources[rng.Intn(len(fwSources))], fwCfgs[rng.Intn(len(fwCfgs))],
				fwApps[rng.Intn(len(fwApps))], fwBodies[rng.Intn(len(fwBodies))], rng.Intn(8) == 0)
		}
		for _, v := range fwViews {
			for _, src := range fwSources {
				single("cert", v, wins[1], src, "n", "T", "s6", false)
			}
		}
	}
	// OCSP responses without nextUpdate: the window is still read from (zero) NextUpdate
	for _, w := range wins {
		for _, body := range []string{"s3", "s6"} {
			l := LintSpec{Name: "e_scripted_one", Source: "RFC6960", Eff: w.eff, Ineff: w.ineff, Cfg: "n", App: "T", Body: body}
			rep.distinctKey("nonext|" + w.label + body)
			rep.count("ocsp-no-nextupdate")
			emit(FwOp{Kind: "ocsp", NoNext: true, Target: time.Time{}, Lints: []LintSpec{l}})
		}
	}
	// the same object pointer linted twice with different content in between
	for i := 0; i < len(fwViews)*4; i++ {
		a, b := fwViews[rng.Intn(len(fwViews))], fwViews[i%len(fwViews)]
		src := fwSources[rng.Intn(3)]
		l := LintSpec{Name: "e_scripted_one", Source: src, Eff: "Z", Ineff: "Z", Cfg: "n", App: "T", Body: "s6"}
		rep.distinctKey("reuse|" + a.String() + "|" + b.String() + src)
		rep.count("reuse-pointer")
		emit(FwOp{Kind: "cert", View: b, PreView: &a, Target: time.Unix(fwE, 0).UTC(), Lints: []LintSpec{l}})
	}
	// multi-lint registries: mixes of statuses, duplicate-free names, 1..40 lints
	multi := 400
	if tier == "thorough" {
		multi = 4000
	}
	for i := 0; i < multi; i++ {
		k := kinds[rng.Intn(3)]
		n := 1 + rng.Intn(12)
		if rng.Intn(10) == 0 {
			n = 20 + rng.Intn(21)
		}
		var ls []LintSpec
		wellBehaved := rng.Intn(3) != 0
		for j := 0; j < n; j++ {
			w := wins[rng.Intn(len(wins))]
			prefix := []string{"e_", "w_", "n_"}[rng.Intn(3)]
			l := LintSpec{Name: fmt.Sprintf("%sm%02d", prefix, j), Source: fwSources[rng.Intn(len(fwSources))], Eff: w.eff, Ineff: w.ineff,
				Cfg: fwCfgs[rng.Intn(len(fwCfgs))], App: fwApps[rng.Intn(len(fwApps))], Body: fwBodies[rng.Intn(len(fwBodies))]}
			if wellBehaved {
				l.Cfg = []string{"n", "ok", "err"}[rng.Intn(3)]
				l.App = []string{"T", "T", "F"}[rng.Intn(3)]
				l.Body = fmt.Sprintf("s%d", 1+rng.Intn(7))
			}
			ls = append(ls, l)
		}
		v := ViewSpec{}
		if k == "cert" {
			v = fwViews[rng.Intn(len(fwViews))]
		}
		t := []int64{fwE - 1, fwE, fwE + 1, fwI - 1, fwI, fwI + 1}[rng.Intn(6)]
		op := FwOp{Kind: k, View: v, Target: time.Unix(t, 0).UTC(), Lints: ls}
		rep.distinctKey("multi|" + op.Line())
		rep.count("multi")
		emit(op)
	}
	rep.write(filepath.Join(outDir, "report.json"))
}
