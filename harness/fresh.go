package main

// Fresh-process baseline (C05): "the result does not depend on which other objects were linted earlier in the
// same process" is checked against the one history that is certainly empty — a new process that lints exactly one
// object. `lintone` is that child: it reads kind and DER (hex) from stdin, lints with the global registry and prints
// name=status|details-hex per lint. subC05 compares those answers with the ones the long-running parent gives for
// the same objects after everything else has been linted.

import (
	"bufio"
	"bytes"
	"encoding/hex"
	"fmt"
	"os"
	"os/exec"
	"runtime"
	"sort"
	"strings"
	"sync"

	zlint "github.com/zmap/zlint/v3"
	"github.com/zmap/zlint/v3/lint"
)

func init() {
	subs["lintone"] = subLintOne
}

func canonRS(rs *zlint.ResultSet) string {
	var names []string
	for n := range rs.Results {
		names = append(names, n)
	}
	sort.Strings(names)
	var sb strings.Builder
	for _, n := range names {
		r := rs.Results[n]
		if r == nil {
			fmt.Fprintf(&sb, "%s=nil\n", n)
			continue
		}
		fmt.Fprintf(&sb, "%s=%d|%s\n", n, int(r.Status), hex.EncodeToString([]byte(r.Details)))
	}
	return sb.String()
}

func subLintOne(out string, seed uint64, tier string, arg string) {
	in := bufio.NewReader(os.Stdin)
	line, _ := in.ReadString('\n')
	parts := strings.Fields(line)
	if len(parts) != 2 {
		fmt.Println("ERR bad input")
		return
	}
	der, err := hex.DecodeString(parts[1])
	if err != nil {
		fmt.Println("ERR bad hex")
		return
	}
	o := parseObj(parts[0], "one", der)
	if o == nil {
		fmt.Println("ERR rejected")
		return
	}
	rs, p := lintObj(o, lint.GlobalRegistry())
	if p != "" || rs == nil {
		fmt.Println("ERR panic " + p)
		return
	}
	fmt.Print(canonRS(rs))
}

// freshBaselines lints each object in its own new process (in parallel) and returns the canonical result text per index.
func freshBaselines(objs []*Obj) []string {
	res := make([]string, len(objs))
	self, err := os.Executable()
	if err != nil {
		return res
	}
	jobs := make(chan int)
	var wg sync.WaitGroup
	w := runtime.GOMAXPROCS(0)
	if w > 16 {
		w = 16
	}
	for i := 0; i < w; i++ {
		wg.Add(1)
		go func() {
			defer wg.Done()
			for idx := range jobs {
				o := objs[idx]
				cmd := exec.Command(self, "-sub", "lintone", "-repo", repoRoot)
				cmd.Stdin = strings.NewReader(o.Kind + " " + hex.EncodeToString(o.DER) + "\n")
				var buf bytes.Buffer
				cmd.Stdout = &buf
				if err := cmd.Run(); err != nil {
					res[idx] = "ERR run " + err.Error()
					continue
				}
				res[idx] = buf.String()
			}
		}()
	}
	for i := range objs {
		jobs <- i
	}
	close(jobs)
	wg.Wait()
	return res
}

// firstDiff names the first lint whose line differs
func firstDiff(a, b string) string {
	la, lb := strings.Split(a, "\n"), strings.Split(b, "\n")
	for i := 0; i < len(la) && i < len(lb); i++ {
		if la[i] != lb[i] {
			return la[i] + "  vs  " + lb[i]
		}
	}
	return fmt.Sprintf("%d vs %d lines", len(la), len(lb))
}
