module verif/harness

go 1.23.0

toolchain go1.23.5

require (
	github.com/pelletier/go-toml v1.9.5
	github.com/zmap/zcrypto v0.0.0-20250129210703-03c45d0bae98
	github.com/zmap/zlint/v3 v3.0.0
	golang.org/x/crypto v0.36.0
	golang.org/x/net v0.38.0
)

require (
	github.com/weppos/publicsuffix-go v0.40.3-0.20250127173806-e489a31678ca // indirect
	golang.org/x/text v0.23.0 // indirect
)

replace github.com/zmap/zlint/v3 => /repo/v3
