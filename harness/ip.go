package main

import (
	"bufio"
	stdx509 "crypto/x509"
	"fmt"
	"math/big"
	"net"
	"os"
	"path/filepath"
	"strings"

	"github.com/zmap/zlint/v3/lint"
	"github.com/zmap/zlint/v3/util"
)

func init() {
	subs["ip"] = subIP
}

func ipFromBig(width int, v *big.Int) net.IP {
	b := v.Bytes()
	n := width / 8
	out := make([]byte, n)
	if len(b) > n {
		b = b[len(b)-n:]
	}
	copy(out[n-len(b):], b)
	return net.IP(out)
}

func bigFromIP(ip net.IP) *big.Int { return new(big.Int).SetBytes(ip) }

func mapped(v4 *big.Int) *big.Int {
	m := new(big.Int).Lsh(big.NewInt(0xffff), 32)
	return m.Add(m, v4)
}

var specialBlocks = []string{"10.0.0.0/8", "172.16.0.0/12", "192.168.0.0/16", "127.0.0.0/8", "169.254.0.0/16", "100.64.0.0/10", "192.0.2.0/24", "198.51.100.0/24", "203.0.113.0/24",
	"198.18.0.0/15", "224.0.0.0/4", "240.0.0.0/4", "255.255.255.255/32", "0.0.0.0/32", "::1/128", "fc00::/7", "fe80::/10", "ff00::/8", "2001:db8::/32", "2002::/16", "100::/64", "::/128"}

var publicHosts = []string{"8.8.8.8", "1.1.1.1", "93.184.216.34", "2001:4860:4860::8888", "2606:4700:4700::1111", "126.255.255.255", "128.0.0.0", "2a00:1450:4001::1"}

var probeHosts []net.IP

func subIP(out string, seed uint64, tier string, arg string) {
	rng := NewRNG(seed)
	rep := newReport("ip", seed, tier)
	rep.Rule = "util.IsIANAReserved / IntersectsIANAReserved / net.IP.IsGlobalUnicast / IPNet.Contains against the model: first/last address of every table network and special block and their neighbours, every super-prefix and boundary sub-prefix, 4-byte and IPv4-mapped forms (16-byte address with 128-bit mask), random addresses and prefixes; distinct = distinct op lines"
	ops, _ := os.Create(filepath.Join(out, "ops.txt"))
	impl, _ := os.Create(filepath.Join(out, "impl.out"))
	wo, wi := bufio.NewWriter(ops), bufio.NewWriter(impl)
	defer func() { wo.Flush(); wi.Flush(); ops.Close(); impl.Close() }()
	b2s := func(b bool) string {
		if b {
			return "1"
		}
		return "0"
	}
	seen := map[string]bool{}
	emit := func(line, res string) {
		if seen[line] {
			return
		}
		seen[line] = true
		fmt.Fprintln(wo, line)
		fmt.Fprintln(wi, res)
		rep.Evaluations++
		rep.distinctKey(line)
		rep.count(strings.SplitN(line, "\t", 2)[0])
		rep.sample(map[string]string{"op": line, "impl": res})
	}
	host := func(width int, v *big.Int) {
		if v.Sign() < 0 || v.BitLen() > width {
			return
		}
		ip := ipFromBig(width, v)
		emit(fmt.Sprintf("ipres\t%d\t%s", width, v.String()), b2s(util.IsIANAReserved(ip)))
		emit(fmt.Sprintf("ipgu\t%d\t%s", width, v.String()), b2s(ip.IsGlobalUnicast()))
		if width == 32 {
			m := mapped(v)
			ip16 := ipFromBig(128, m)
			emit(fmt.Sprintf("ipres\t128\t%s", m.String()), b2s(util.IsIANAReserved(ip16)))
			emit(fmt.Sprintf("ipgu\t128\t%s", m.String()), b2s(ip16.IsGlobalUnicast()))
		}
	}
	network := func(width int, base *big.Int, plen int) {
		if plen < 0 || plen > width {
			return
		}
		mask := net.CIDRMask(plen, width)
		ip := ipFromBig(width, base).Mask(mask)
		n := net.IPNet{IP: ip, Mask: mask}
		inter := util.IntersectsIANAReserved(n)
		emit(fmt.Sprintf("ipnet\t%d\t%s\t%d", width, bigFromIP(ip).String(), plen), b2s(inter))
		if !inter {
			// the property as an oracle on the real code: a network that contains a reserved address intersects the reserved space
			for _, x := range probeHosts {
				if n.Contains(x) && util.IsIANAReserved(x) {
					rep.violate(Violation{"C19", fmt.Sprintf("IntersectsIANAReserved(%s) is false although the network contains the reserved address %s", n.String(), x.String()),
						"contains-reserved-not-intersecting:" + n.String(), map[string]interface{}{"network": n.String(), "address": x.String()}})
					break
				}
			}
		}
		if width == 32 {
			// the same network as zcrypto hands over a 32-byte iPAddress name constraint: 16-byte address, 16-byte mask
			m16 := net.CIDRMask(96+plen, 128)
			ip16 := ipFromBig(128, mapped(bigFromIP(ip)))
			n16 := net.IPNet{IP: ip16, Mask: m16}
			emit(fmt.Sprintf("ipnet\t128\t%s\t%d", bigFromIP(ip16).String(), 96+plen), b2s(util.IntersectsIANAReserved(n16)))
		}
	}
	// the same, with the address part as given (host bits may be set)
	networkRaw := func(width int, base *big.Int, plen int) {
		if plen < 0 || plen > width {
			return
		}
		n := net.IPNet{IP: ipFromBig(width, base), Mask: net.CIDRMask(plen, width)}
		inter := util.IntersectsIANAReserved(n)
		emit(fmt.Sprintf("ipnet\t%d\t%s\t%d", width, base.String(), plen), b2s(inter))
		if !inter {
			for _, x := range probeHosts {
				if n.Contains(x) && util.IsIANAReserved(x) {
					rep.violate(Violation{"C19", fmt.Sprintf("IntersectsIANAReserved(%s/%d) is false although the network contains the reserved address %s", n.IP.String(), plen, x.String()),
						"contains-reserved-not-intersecting-raw", map[string]interface{}{"network": fmt.Sprintf("%s/%d", n.IP.String(), plen), "address": x.String()}})
					break
				}
			}
		}
	}
	contains := func(nw int, nb *big.Int, plen int, xw int, xv *big.Int) {
		if xv.Sign() < 0 || xv.BitLen() > xw || nb.Sign() < 0 || nb.BitLen() > nw {
			return
		}
		mask := net.CIDRMask(plen, nw)
		ip := ipFromBig(nw, nb).Mask(mask)
		n := net.IPNet{IP: ip, Mask: mask}
		emit(fmt.Sprintf("ipcont\t%d\t%s\t%d\t%d\t%s", nw, bigFromIP(ip).String(), plen, xw, xv.String()), b2s(n.Contains(ipFromBig(xw, xv))))
	}
	one := big.NewInt(1)
	var blocks []string
	blocks = append(blocks, util.VerifReservedNetworks()...)
	blocks = append(blocks, specialBlocks...)
	for _, cidr := range blocks {
		if _, bn, err := net.ParseCIDR(cidr); err == nil {
			w := len(bn.IP) * 8
			pl, _ := bn.Mask.Size()
			first := bigFromIP(bn.IP)
			last := new(big.Int).Sub(new(big.Int).Add(first, new(big.Int).Lsh(one, uint(w-pl))), one)
			probeHosts = append(probeHosts, ipFromBig(w, first), ipFromBig(w, last))
		}
	}
	for _, cidr := range blocks {
		_, n, err := net.ParseCIDR(cidr)
		if err != nil {
			continue
		}
		width := len(n.IP) * 8
		plen, _ := n.Mask.Size()
		first := bigFromIP(n.IP)
		size := new(big.Int).Lsh(one, uint(width-plen))
		last := new(big.Int).Sub(new(big.Int).Add(first, size), one)
		for _, v := range []*big.Int{first, last, new(big.Int).Sub(first, one), new(big.Int).Add(last, one), new(big.Int).Add(first, one), new(big.Int).Rsh(new(big.Int).Add(first, last), 1)} {
			host(width, v)
			network(width, v, width)
			contains(width, first, plen, width, v)
			if width == 32 && v.Sign() >= 0 && v.BitLen() <= 32 {
				contains(32, first, plen, 128, mapped(v))
				contains(128, mapped(first), 96+plen, 32, v)
			}
		}
		for p := 0; p <= plen; p++ { // every super-net
			network(width, first, p)
			network(width, last, p)
		}
		// the same super-nets written with host bits set in their address part, the address being the first one of the block's
		// sibling (10.0.0.0/8 -> 11.0.0.0/7 …): an IPNet need not be canonical, and the parsers hand name-constraint subtrees over as written
		if plen >= 1 && plen <= width {
			sib := new(big.Int).Xor(first, new(big.Int).Lsh(one, uint(width-plen)))
			for p := 0; p < plen; p++ {
				networkRaw(width, sib, p)
			}
			networkRaw(width, new(big.Int).Add(sib, one), plen/2)
		}
		for p := plen; p <= width && p <= plen+12; p++ { // boundary sub-nets
			network(width, first, p)
			network(width, last, p)
			network(width, new(big.Int).Sub(first, one), p)
			network(width, new(big.Int).Add(last, one), p)
		}
	}
	for _, h := range publicHosts {
		ip := net.ParseIP(h)
		if v4 := ip.To4(); v4 != nil {
			host(32, bigFromIP(v4))
			for p := 0; p <= 32; p++ {
				network(32, bigFromIP(v4), p)
			}
		} else {
			host(128, bigFromIP(ip))
			for p := 0; p <= 128; p += 1 {
				network(128, bigFromIP(ip), p)
			}
		}
	}
	nrand := 4000
	if tier == "thorough" {
		nrand = 60000
	}
	for i := 0; i < nrand; i++ {
		if rng.Bool() {
			v := new(big.Int).SetUint64(rng.Next() & 0xffffffff)
			host(32, v)
			network(32, v, rng.Intn(33))
			contains(32, new(big.Int).SetUint64(rng.Next()&0xffffffff), rng.Intn(33), 32, v)
		} else {
			v := new(big.Int).SetBytes(rng.Bytes(16))
			if rng.Intn(4) == 0 { // concentrate on the populated top-level blocks
				v.SetBytes(append([]byte{[]byte{0x20, 0x26, 0x2a, 0xfc, 0xfe, 0xff, 0x00, 0x01, 0x64}[rng.Intn(9)]}, rng.Bytes(15)...))
			}
			host(128, v)
			network(128, v, rng.Intn(129))
			contains(128, new(big.Int).SetBytes(rng.Bytes(16)), rng.Intn(129), 128, v)
		}
	}
	// ---- the two list-reading lints through the framework: several SAN addresses / several permitted subtrees per certificate, in
	// both orders, nested and overlapping — the verdict is about each entry on its own ("any"), whatever else is listed
	regL, lerr := lint.GlobalRegistry().Filter(lint.FilterOptions{IncludeNames: []string{"e_ext_san_contains_reserved_ip", "e_ext_nc_intersects_reserved_ip", "e_subject_contains_reserved_ip"}})
	if lerr == nil {
		enc := func(ip net.IP) string {
			if v4 := ip.To4(); v4 != nil && len(ip) == 4 {
				return "32:" + bigFromIP(v4).String()
			}
			if len(ip) == 16 {
				return "128:" + bigFromIP(ip).String()
			}
			return "32:" + bigFromIP(ip.To4()).String()
		}
		lintSAN := func(ips []net.IP) {
			var raw [][]byte
			var parts []string
			for _, ip := range ips {
				b := []byte(ip)
				if v4 := ip.To4(); v4 != nil {
					b = []byte(v4)
				}
				raw = append(raw, b)
				parts = append(parts, enc(net.IP(b)))
			}
			der, err := BuildCert(CertSpec{DNS: []string{"ip.example.com"}, IPs: raw, EKUs: []stdx509.ExtKeyUsage{stdx509.ExtKeyUsageServerAuth}})
			if err != nil {
				return
			}
			o := parseObj("cert", "kit-ip-san", der)
			if o == nil {
				return
			}
			rs, p := lintObj(o, regL)
			if p != "" || rs == nil || rs.Results["e_ext_san_contains_reserved_ip"] == nil {
				return
			}
			emit("iplint-san\t"+strings.Join(parts, ","), fmt.Sprint(int(rs.Results["e_ext_san_contains_reserved_ip"].Status)))
		}
		lintNC := func(nets []*net.IPNet) {
			var parts []string
			for _, n := range nets {
				ones, _ := n.Mask.Size()
				parts = append(parts, enc(n.IP)+":"+fmt.Sprint(ones))
			}
			der, err := BuildCert(CertSpec{IsCA: true, Subject: pkixName("NC Sub CA"), KeyUsage: stdx509.KeyUsageCertSign, PermittedIPs: nets})
			if err != nil {
				rep.count("iplint-nc-build-error")
				return
			}
			o := parseObj("cert", "kit-ip-nc", der)
			if o == nil || len(o.Cert.PermittedIPAddresses) != len(nets) {
				rep.count("iplint-nc-rejected")
				return
			}
			rs, p := lintObj(o, regL)
			if p != "" || rs == nil || rs.Results["e_ext_nc_intersects_reserved_ip"] == nil {
				return
			}
			emit("iplint-nc\t"+strings.Join(parts, ","), fmt.Sprint(int(rs.Results["e_ext_nc_intersects_reserved_ip"].Status)))
		}
		cidr := func(s string) *net.IPNet {
			_, n, err := net.ParseCIDR(s)
			if err != nil {
				return nil
			}
			if v4 := n.IP.To4(); v4 != nil {
				n.IP = v4
			}
			return n
		}
		pub := []string{"8.0.0.0/8", "8.8.8.0/24", "1.1.1.0/24", "126.0.0.0/8", "2000::/16", "2606:4700::/32", "9.0.0.0/8"}
		wide := []string{"8.0.0.0/6", "8.0.0.0/5", "126.0.0.0/7", "0.0.0.0/0", "2000::/3", "::/0", "10.0.0.0/8", "192.168.0.0/16", "fc00::/7", "100.64.0.0/10", "8.0.0.0/7"}
		for _, a := range pub {
			lintNC([]*net.IPNet{cidr(a)})
			for _, b := range wide {
				lintNC([]*net.IPNet{cidr(a), cidr(b)})
				lintNC([]*net.IPNet{cidr(b), cidr(a)})
				lintNC([]*net.IPNet{cidr(a), cidr(a), cidr(b)})
			}
			for _, b := range pub {
				lintNC([]*net.IPNet{cidr(a), cidr(b)})
			}
		}
		hostsPub := []string{"8.8.8.8", "1.1.1.1", "2606:4700:4700::1111", "9.9.9.9"}
		hostsRes := []string{"10.0.0.1", "192.168.1.1", "127.0.0.1", "169.254.1.1", "::1", "fe80::1", "2001:db8::1", "100.64.0.1", "255.255.255.255", "0.0.0.0", "224.0.0.1", "::ffff:10.0.0.1"}
		for _, a := range hostsPub {
			lintSAN([]net.IP{net.ParseIP(a)})
			for _, b := range hostsRes {
				lintSAN([]net.IP{net.ParseIP(a), net.ParseIP(b)})
				lintSAN([]net.IP{net.ParseIP(b), net.ParseIP(a)})
				lintSAN([]net.IP{net.ParseIP(a), net.ParseIP(a), net.ParseIP(b)})
			}
		}
		// the common-name lint: every textual spelling net.ParseIP accepts (upper- and lower-case hex, compressed and full forms,
		// IPv4-mapped, leading zeros are refused) and strings that only look like addresses
		for _, cn := range []string{"10.0.0.1", "8.8.8.8", "192.168.1.1", "127.0.0.1", "FD00::1", "fd00::1", "FE80::1", "fe80::1", "FF02::1", "2001:DB8::1", "2001:db8::1",
			"2002:C000:204::", "100::DEAD:BEEF", "::FFFF:10.0.0.1", "::ffff:10.0.0.1", "::FFFF:8.8.8.8", "::1", "::", "2606:4700:4700::1111", "2606:4700:4700::111A",
			"0:0:0:0:0:0:0:1", "FE80:0000:0000:0000:0000:0000:0000:0001", "fe80::1%eth0", "010.0.0.1", "10.0.0.1.", "10.0.0", "host.example.com", "fd00::g", "FD00::1 ", ""} {
			der, err := BuildCert(CertSpec{DNS: []string{"ip.example.com"}, Subject: pkixName(cn), EKUs: []stdx509.ExtKeyUsage{stdx509.ExtKeyUsageServerAuth}})
			if err != nil {
				continue
			}
			o := parseObj("cert", "kit-ip-cn", der)
			if o == nil || o.Cert.Subject.CommonName != cn {
				continue
			}
			rs, p := lintObj(o, regL)
			if p != "" || rs == nil || rs.Results["e_subject_contains_reserved_ip"] == nil {
				continue
			}
			arg := "-"
			if ip := net.ParseIP(cn); ip != nil {
				if v4 := ip.To4(); v4 != nil {
					arg = enc(net.IP(v4))
				} else {
					arg = enc(ip)
				}
			}
			emit("iplint-cn\t"+arg+"\t"+hexOrDash(cn), fmt.Sprint(int(rs.Results["e_subject_contains_reserved_ip"].Status)))
		}
		rep.count("iplint-ops")
	}
	rep.write(filepath.Join(out, "report.json"))
}

func hexOrDash(s string) string {
	if s == "" {
		return "-"
	}
	return hexs([]byte(s))
}
