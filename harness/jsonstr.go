package main

// jsonstr: the JSON string codec of encoding/json (lean/ZlModel/JsonString.lean) on the standard library.
//
//   js-quote <html 0|1> <hex>   json.Encoder{EscapeHTML: html}.Encode(string(bytes))           →  hex of the literal
//   js-unquote <hex>            json.Unmarshal(bytes, &string)                                 →  fail | ok <hex>
//   js-sanitize <hex>           what a Marshal/Unmarshal round trip of string(bytes) returns   →  hex

import (
	"bufio"
	"bytes"
	"encoding/json"
	"fmt"
	"os"
	"path/filepath"
	"strings"
)

func init() {
	subs["jsonstr"] = subJSONStr
}

func subJSONStr(out string, seed uint64, tier string, arg string) {
	rng := NewRNG(seed)
	rep := newReport("jsonstr", seed, tier)
	rep.Rule = "encoding/json on strings vs the model: Marshal (escapeHTML on and off) and the Marshal/Unmarshal round trip of every byte string of length <= 3 over 22 bytes (quote, backslash, controls, DEL, HTML characters, UTF-8 lead / continuation bytes incl. E2 80 A8/A9, surrogate and overlong forms) and random strings; Unmarshal of the produced literals and of hand-made ones (every escape letter, \\u forms in both cases, lone and paired surrogates, raw controls, truncated escapes, missing quotes); distinct = distinct op lines"
	ops, _ := os.Create(filepath.Join(out, "ops.txt"))
	impl, _ := os.Create(filepath.Join(out, "impl.out"))
	wo, wi := bufio.NewWriter(ops), bufio.NewWriter(impl)
	defer func() { wo.Flush(); wi.Flush(); ops.Close(); impl.Close() }()
	seen := map[string]bool{}
	emit := func(line, res string) {
		if seen[line] {
			return
		}
		seen[line] = true
		fmt.Fprintln(wo, line)
		fmt.Fprintln(wi, res)
		rep.Evaluations++
		rep.distinctKey(line)
		kind := strings.SplitN(line, "\t", 2)[0]
		if kind == "js-unquote" {
			kind += ":" + strings.SplitN(res, " ", 2)[0]
		}
		rep.count(kind)
		rep.sample(map[string]string{"op": line, "impl": res})
	}
	hx := func(b []byte) string {
		if len(b) == 0 {
			return "-"
		}
		return hexs(b)
	}
	marshal := func(b []byte, html bool) []byte {
		var buf bytes.Buffer
		enc := json.NewEncoder(&buf)
		enc.SetEscapeHTML(html)
		if err := enc.Encode(string(b)); err != nil {
			return nil
		}
		return bytes.TrimSuffix(buf.Bytes(), []byte("\n"))
	}
	doUnq := func(lit []byte) {
		var s string
		if err := json.Unmarshal(lit, &s); err != nil {
			emit("js-unquote\t"+hx(lit), "fail")
			return
		}
		emit("js-unquote\t"+hx(lit), "ok "+hx([]byte(s)))
	}
	doStr := func(b []byte) {
		for _, html := range []bool{true, false} {
			lit := marshal(b, html)
			h := "0"
			if html {
				h = "1"
			}
			emit("js-quote\t"+h+"\t"+hx(b), hx(lit))
			doUnq(lit)
			var back string
			if err := json.Unmarshal(lit, &back); err == nil {
				emit("js-sanitize\t"+hx(b), hx([]byte(back)))
			}
		}
	}
	alpha := []byte{0x22, 0x5c, 0x2f, 0x27, 0x00, 0x08, 0x09, 0x0a, 0x0c, 0x0d, 0x1f, 0x20, 0x41, 0x7f, 0x3c, 0x3e, 0x26, 0x80, 0xa8, 0xa9, 0xc2, 0xe2, 0xed, 0xa0, 0xf0, 0xff}
	maxLen := 2
	if tier == "thorough" {
		maxLen = 3
	}
	enumStrings(alpha, maxLen, doStr)
	for _, s := range [][]byte{{0xe2, 0x80, 0xa8}, {0xe2, 0x80, 0xa9}, {0xe2, 0x80, 0xa7}, {0xe2, 0x80}, {0xed, 0xa0, 0x80}, {0xf0, 0x9f, 0x98, 0x80}, {0xf0, 0x9f, 0x98}, {0xc0, 0x80}, {0xe0, 0x80, 0x80}, {0xf4, 0x90, 0x80, 0x80}, {0x41, 0xe2, 0x80, 0xa8, 0x42}, {0xef, 0xbf, 0xbd}} {
		doStr(s)
	}
	n := 3000
	if tier == "thorough" {
		n = 60000
	}
	for i := 0; i < n; i++ {
		b := rng.Bytes(rng.Intn(10))
		for j := range b {
			if rng.Intn(2) == 0 {
				b[j] = alpha[rng.Intn(len(alpha))]
			}
		}
		doStr(b)
	}
	// hand-made literals
	lits := []string{`""`, `"a"`, `"`, `a`, `"a`, `a"`, `"a"b"`, `"\"`, `"\\"`, `"\/"`, `"\'"`, `"\b\f\n\r\t"`, `"\a"`, `"A"`, `"é"`, `"\U0041"`, `"\u004"`, `"\u00g1"`, `"😀"`, `"😀"`, `"\uD83D"`, `"\uDE00"`, `"\uD83Dx"`,
		`"\uD83DA"`, `"\uD83D😀"`, `"\uDE00\uD83D"`, `"𐀀"`, `"􏿿"`, `"\uD83D\"`, `"\uD83D\u"`, `"\uD83D\uDE0"`, `"  "`, "\"\x01\"", "\"\x1f\"", "\"\x7f\"", "\"\xff\"", "\"\xc3\xa9\"", "\"\xe2\x80\"", `"�"`, `"�"`, `"\u0000"`, `"\`, `"\u`, `"\u12`}
	for _, l := range lits {
		doUnq([]byte(l))
	}
	rep.write(filepath.Join(out, "report.json"))
}
