package main

import (
	"crypto"
	"crypto/ecdsa"
	"crypto/elliptic"
	"crypto/rand"
	"crypto/rsa"
	stdx509 "crypto/x509"
	"crypto/x509/pkix"
	"encoding/asn1"
	"encoding/base64"
	"encoding/hex"
	"encoding/json"
	"encoding/pem"
	"fmt"
	"math/big"
	"net"
	"os"
	"path/filepath"
	"sort"
	"strings"
	"time"

	"github.com/zmap/zcrypto/x509"
)

// ---------- PRNG: every random choice derives from one SplitMix64 state ------

type RNG struct{ s uint64 }

func NewRNG(seed uint64) *RNG { return &RNG{s: seed*0x9E3779B97F4A7C15 + 0x1234567} }
func (r *RNG) Next() uint64 {
	r.s += 0x9E3779B97F4A7C15
	z := r.s
	z = (z ^ (z >> 30)) * 0xBF58476D1CE4E5B9
	z = (z ^ (z >> 27)) * 0x94D049BB133111EB
	return z ^ (z >> 31)
}
func (r *RNG) Intn(n int) int {
	if n <= 0 {
		return 0
	}
	return int(r.Next() % uint64(n))
}
func (r *RNG) Bool() bool { return r.Next()&1 == 1 }
func (r *RNG) Perm(n int) []int {
	p := make([]int, n)
	for i := range p {
		p[i] = i
	}
	for i := n - 1; i > 0; i-- {
		j := r.Intn(i + 1)
		p[i], p[j] = p[j], p[i]
	}
	return p
}
func (r *RNG) Bytes(n int) []byte {
	b := make([]byte, n)
	for i := range b {
		b[i] = byte(r.Next())
	}
	return b
}

// Read implements io.Reader so that the RNG can drive key generation deterministically enough.
func (r *RNG) Read(p []byte) (int, error) {
	for i := range p {
		p[i] = byte(r.Next())
	}
	return len(p), nil
}

// ---------- corpus -------------------------------------------------------------

type CorpusCert struct {
	Name string
	DER  []byte
	Cert *x509.Certificate
}

type CorpusCRL struct {
	Name string
	DER  []byte
	CRL  *x509.RevocationList
}

var repoRoot = "/repo"

func loadCorpus() ([]*CorpusCert, []*CorpusCRL) {
	var certs []*CorpusCert
	var crls []*CorpusCRL
	files, _ := filepath.Glob(filepath.Join(repoRoot, "v3/testdata/*.pem"))
	more, _ := filepath.Glob(filepath.Join(repoRoot, "v3/testdata/*/*.pem"))
	files = append(files, more...)
	sort.Strings(files)
	for _, f := range files {
		data, err := os.ReadFile(f)
		if err != nil {
			continue
		}
		for {
			var blk *pem.Block
			blk, data = pem.Decode(data)
			if blk == nil {
				break
			}
			switch blk.Type {
			case "CERTIFICATE":
				c, err := x509.ParseCertificate(blk.Bytes)
				if err == nil {
					certs = append(certs, &CorpusCert{Name: filepath.Base(f), DER: blk.Bytes, Cert: c})
				}
			case "X509 CRL":
				c, err := x509.ParseRevocationList(blk.Bytes)
				if err == nil {
					crls = append(crls, &CorpusCRL{Name: filepath.Base(f), DER: blk.Bytes, CRL: c})
				}
			}
		}
	}
	return certs, crls
}

// ---------- building certificates ---------------------------------------------

var (
	kitCAKey  *ecdsa.PrivateKey
	kitLeaf   *ecdsa.PrivateKey
	kitRSAKey *rsa.PrivateKey
)

func kitInit() {
	if kitCAKey != nil {
		return
	}
	var err error
	kitCAKey, err = ecdsa.GenerateKey(elliptic.P256(), rand.Reader)
	if err != nil {
		panic(err)
	}
	kitLeaf, _ = ecdsa.GenerateKey(elliptic.P256(), rand.Reader)
	kitRSAKey, _ = rsa.GenerateKey(rand.Reader, 2048)
}

type CertSpec struct {
	NotBefore, NotAfter time.Time
	Subject             pkix.Name
	Issuer              pkix.Name
	DNS                 []string
	Emails              []string
	IPs                 [][]byte
	URIs                []string
	EKUs                []stdx509.ExtKeyUsage
	UnknownEKUs         []asn1.ObjectIdentifier
	Policies            []asn1.ObjectIdentifier
	IsCA                bool
	PubKey              interface{} // default: kitLeaf public key
	ExtraExt            []pkix.Extension
	RawSAN              []*Node // if set, SAN built from these GeneralName nodes (overrides DNS/Emails/…)
	RawIAN              []*Node
	SelfSigned          bool
	SelfSignKey         crypto.Signer // if set: a genuinely self-signed certificate with this key
	KeyUsage            stdx509.KeyUsage
	Serial              int64
	SelfKeyed           bool         // with SelfSignKey: signed by the certificate's own key, but issued under another name (Issuer), subjectKeyId = authorityKeyId
	OCSP                []string     // authorityInfoAccess: id-ad-ocsp URIs
	CAIssuers           []string     // authorityInfoAccess: id-ad-caIssuers URIs
	PermittedIPs        []*net.IPNet // nameConstraints: permitted iPAddress subtrees, in this order
}

// BuildCert creates DER with the Go standard library and returns it.
func BuildCert(s CertSpec) ([]byte, error) {
	kitInit()
	if s.NotBefore.IsZero() {
		s.NotBefore = time.Date(2024, 6, 1, 0, 0, 0, 0, time.UTC)
	}
	if s.NotAfter.IsZero() {
		s.NotAfter = s.NotBefore.Add(90 * 24 * time.Hour)
	}
	if s.Serial == 0 {
		s.Serial = 0x1234567890
	}
	subj := s.Subject
	if len(subj.Names) == 0 && subj.CommonName == "" && len(subj.Organization) == 0 && len(subj.ExtraNames) == 0 {
		subj = pkix.Name{CommonName: "leaf.example.com"}
	}
	iss := s.Issuer
	if len(iss.Names) == 0 && iss.CommonName == "" && len(iss.Organization) == 0 && len(iss.ExtraNames) == 0 {
		iss = pkix.Name{CommonName: "Kit Issuing CA", Organization: []string{"Kit"}, Country: []string{"US"}}
	}
	if s.SelfSigned {
		iss = subj
	}
	tmpl := &stdx509.Certificate{
		SerialNumber:          big.NewInt(s.Serial),
		Subject:               subj,
		NotBefore:             s.NotBefore,
		NotAfter:              s.NotAfter,
		DNSNames:              s.DNS,
		EmailAddresses:        s.Emails,
		ExtKeyUsage:           s.EKUs,
		UnknownExtKeyUsage:    s.UnknownEKUs,
		PolicyIdentifiers:     s.Policies,
		IsCA:                  s.IsCA,
		BasicConstraintsValid: s.IsCA,
		KeyUsage:              s.KeyUsage,
		ExtraExtensions:       s.ExtraExt,
		OCSPServer:            s.OCSP,
		IssuingCertificateURL: s.CAIssuers,
		PermittedIPRanges:     s.PermittedIPs,
	}
	parent := &stdx509.Certificate{Subject: iss, SerialNumber: big.NewInt(1)}
	pub := s.PubKey
	if pub == nil {
		pub = &kitLeaf.PublicKey
	}
	var signer crypto.Signer = kitCAKey
	if s.SelfSignKey != nil {
		parent = tmpl
		pub = s.SelfSignKey.Public()
		signer = s.SelfSignKey
		if s.SelfKeyed {
			ski := []byte{0x5e, 0x1f, 0x4b, 0x0e, 0xd0, 0x01, 0x02, 0x03, 0x04, 0x05, 0x06, 0x07, 0x08, 0x09, 0x0a, 0x0b, 0x0c, 0x0d, 0x0e, 0x0f}
			tmpl.SubjectKeyId = ski
			parent = &stdx509.Certificate{Subject: iss, SerialNumber: big.NewInt(1), SubjectKeyId: ski}
		}
	}
	der, err := stdx509.CreateCertificate(rand.Reader, tmpl, parent, pub, signer)
	if err != nil {
		return nil, err
	}
	if s.RawSAN != nil || s.RawIAN != nil || len(s.IPs) > 0 || len(s.URIs) > 0 {
		cd, err := ParseCertDER(der)
		if err != nil {
			return nil, err
		}
		if s.RawSAN != nil {
			cd.SetGeneralNames(false, s.RawSAN, false)
		} else if len(s.IPs) > 0 || len(s.URIs) > 0 {
			var names []*Node
			for _, d := range s.DNS {
				names = append(names, gnDNS(d))
			}
			for _, e := range s.Emails {
				names = append(names, gnEmail(e))
			}
			for _, u := range s.URIs {
				names = append(names, gnURI(u))
			}
			for _, ip := range s.IPs {
				names = append(names, gnIP(ip))
			}
			cd.SetGeneralNames(false, names, false)
		}
		if s.RawIAN != nil {
			cd.SetGeneralNames(true, s.RawIAN, false)
		}
		der = cd.Bytes()
	}
	return der, nil
}

func mustParse(der []byte) *x509.Certificate {
	c, err := x509.ParseCertificate(der)
	if err != nil {
		return nil
	}
	return c
}

// ---------- output -------------------------------------------------------------

type Violation struct {
	Property string                 `json:"property"`
	What     string                 `json:"what"`
	Key      string                 `json:"key"` // stable identity for known-findings matching
	Replay   map[string]interface{} `json:"replay"`
}

type Report struct {
	Sub         string                 `json:"sub"`
	Seed        uint64                 `json:"seed"`
	Tier        string                 `json:"tier"`
	Evaluations int                    `json:"evaluations"`
	Distinct    int                    `json:"distinct_nontrivial"`
	Rule        string                 `json:"rule"`
	Samples     []interface{}          `json:"samples"`
	Dist        map[string]int         `json:"dist"`
	Violations  []Violation            `json:"violations"`
	Notes       []string               `json:"notes,omitempty"`
	Extra       map[string]interface{} `json:"extra,omitempty"`
	distinct    map[string]bool
}

func newReport(sub string, seed uint64, tier string) *Report {
	return &Report{Sub: sub, Seed: seed, Tier: tier, Dist: map[string]int{}, distinct: map[string]bool{}, Extra: map[string]interface{}{}}
}

func (r *Report) count(k string)       { r.Dist[k]++ }
func (r *Report) distinctKey(k string) { r.distinct[k] = true }
func (r *Report) sample(v interface{}) {
	if len(r.Samples) < 5 {
		r.Samples = append(r.Samples, v)
	}
}
func (r *Report) violate(v Violation) {
	k := "viol:" + v.Property + "|" + v.Key
	r.Dist[k]++
	if r.Dist[k] > 1 { // one representative per (property, key); the count is in dist
		return
	}
	if len(r.Violations) < 200 {
		r.Violations = append(r.Violations, v)
	}
}
func (r *Report) write(path string) {
	r.Distinct = len(r.distinct)
	if r.Violations == nil {
		r.Violations = []Violation{}
	}
	b, _ := json.MarshalIndent(r, "", " ")
	if err := os.WriteFile(path, b, 0o644); err != nil {
		fmt.Fprintln(os.Stderr, "write report:", err)
		os.Exit(2)
	}
}

func hexs(b []byte) string { return hex.EncodeToString(b) }

// esc encodes a string for the line protocol: hex of its bytes ("-" for empty).
func esc(s string) string {
	if s == "" {
		return "-"
	}
	return hex.EncodeToString([]byte(s))
}

func joinInts(xs []int) string {
	var p []string
	for _, x := range xs {
		p = append(p, fmt.Sprint(x))
	}
	return strings.Join(p, ",")
}

func decodeB64(s string) ([]byte, error) {
	s = strings.Join(strings.Fields(s), "")
	return base64Std.DecodeString(s)
}

var base64Std = base64.StdEncoding

type bigInt = big.Int

func pkixName(cn string) pkix.Name { return pkix.Name{CommonName: cn} }

func nextPrime(n *big.Int) *big.Int {
	p := new(big.Int).Set(n)
	if p.Bit(0) == 0 {
		p.Add(p, big.NewInt(1))
	}
	for !p.ProbablyPrime(20) {
		p.Add(p, big.NewInt(2))
	}
	return p
}

// closePrimes returns primes p < q of the given bit size with q the first prime at least `gap` above p.
func closePrimes(bits int, gap int64) (*big.Int, *big.Int) {
	start := new(big.Int).Lsh(big.NewInt(3), uint(bits-2)) // 1.5 * 2^(bits-1)
	start.Add(start, big.NewInt(12345))
	p := nextPrime(start)
	q := nextPrime(new(big.Int).Add(p, big.NewInt(gap)))
	return p, q
}

func mustTime(s string) time.Time {
	t, err := time.Parse("2006-01-02", s)
	if err != nil {
		panic(err)
	}
	return t
}
