// Command harness runs the real zlint code in-process (built with -tags verif)
// and writes, per sub-command, ops.txt / impl.out / report.json into -out.
package main

import (
	"flag"
	"fmt"
	"os"
	"strconv"
)

func main() {
	sub := flag.String("sub", "", "sub-command")
	out := flag.String("out", ".", "output directory")
	tier := flag.String("tier", "quick", "quick|thorough")
	repo := flag.String("repo", "/repo", "repository root")
	seedFlag := flag.Uint64("seed", 0, "seed (default: $VERIF_SEED or 1)")
	arg := flag.String("arg", "", "sub-command specific argument")
	flag.Parse()
	repoRoot = *repo
	seed := *seedFlag
	if seed == 0 {
		if s, err := strconv.ParseUint(os.Getenv("VERIF_SEED"), 10, 64); err == nil {
			seed = s
		} else {
			seed = 1
		}
	}
	os.MkdirAll(*out, 0o755)
	switch *sub {
	case "dump":
		subDump(*out)
	case "framework":
		subFramework(*out, seed, *tier)
	default:
		if f, ok := subs[*sub]; ok {
			f(*out, seed, *tier, *arg)
			return
		}
		fmt.Fprintln(os.Stderr, "unknown sub-command", *sub)
		os.Exit(2)
	}
}

var subs = map[string]func(out string, seed uint64, tier string, arg string){}
