package main

// names: the fourteen rule bodies modelled in lean/ZlModel/Names.lean, run as the real lints through the
// framework on kit certificates whose subject CN and SAN / IAN name lists are chosen (DER surgery, so
// non-IA5 and empty names survive), compared verdict by verdict with the model.
//
//   names <mask> <cn hex> <cnIsIP> <dns hex,…> <uris hex,…> <ianDns hex,…> <ianUris hex,…>  →  s1,…,s8 ('*' where the lint did not run)
//
// The mask says which of the lints actually judged (status >= pass); the model is only asked about those.
// What the parser hands the lints (c.DNSNames etc.) is echoed into the op line, so the model sees the parsed view.

import (
	"bufio"
	stdx509 "crypto/x509"
	"fmt"
	"net"
	"os"
	"path/filepath"
	"strings"

	"github.com/zmap/zlint/v3/lint"
)

func init() {
	subs["names"] = subNames
}

var nameLints = []string{
	"e_rfc_dnsname_label_too_long", "e_dnsname_label_too_long",
	"e_rfc_dnsname_empty_label", "e_dnsname_empty_label",
	"e_ext_san_space_dns_name", "e_ext_ian_space_dns_name",
	"e_ext_san_uri_not_ia5", "e_ext_ian_uri_not_ia5",
	"e_dnsname_wildcard_only_in_left_label", "e_dnsname_left_label_wildcard_correct", "e_underscore_not_permissible_in_dnsname",
	"e_san_dns_name_includes_null_char", "e_san_dns_name_starts_with_period", "e_san_wildcard_not_first",
}

func hexList(xs []string) string {
	if len(xs) == 0 {
		return "." // the empty list; "-" is the empty string as an element
	}
	out := make([]string, len(xs))
	for i, x := range xs {
		if x == "" {
			out[i] = "-"
		} else {
			out[i] = hexs([]byte(x))
		}
	}
	return strings.Join(out, ",")
}

func subNames(out string, seed uint64, tier string, arg string) {
	rng := NewRNG(seed)
	rep := newReport("names", seed, tier)
	rep.Rule = "the eight modelled name lints (label too long, empty label: RFC and CABF copies; space dNSName, URI not IA5: SAN and IAN copies) through the real framework on kit certificates with chosen CN / SAN / IAN lists (DER surgery): every boundary atom alone with CN empty / an IP / the same name / another name, then random lists; the parsed view (DNSNames, URIs, IANDNSNames, IANURIs, CN) is echoed to the model; distinct = distinct op lines"
	ops, _ := os.Create(filepath.Join(out, "ops.txt"))
	impl, _ := os.Create(filepath.Join(out, "impl.out"))
	wo, wi := bufio.NewWriter(ops), bufio.NewWriter(impl)
	defer func() { wo.Flush(); wi.Flush(); ops.Close(); impl.Close() }()
	reg, err := lint.GlobalRegistry().Filter(lint.FilterOptions{IncludeNames: nameLints})
	if err != nil {
		rep.Notes = append(rep.Notes, "filter failed: "+err.Error())
		rep.write(filepath.Join(out, "report.json"))
		return
	}
	seen := map[string]bool{}
	run := func(cn string, dns, uris, idns, iuris []string) {
		spec := CertSpec{DNS: []string{"placeholder.example.com"}, EKUs: []stdx509.ExtKeyUsage{stdx509.ExtKeyUsageServerAuth}}
		if cn == "" {
			spec.Subject = pkixName("")
			spec.Subject.Organization = []string{"Org"}
		} else {
			spec.Subject = pkixName(cn)
		}
		var san, ian []*Node
		for _, d := range dns {
			san = append(san, gnDNS(d))
		}
		for _, u := range uris {
			san = append(san, gnURI(u))
		}
		for _, d := range idns {
			ian = append(ian, gnDNS(d))
		}
		for _, u := range iuris {
			ian = append(ian, gnURI(u))
		}
		if len(san) == 0 {
			san = []*Node{gnEmail("x@example.com")}
		}
		spec.RawSAN = san
		if len(ian) > 0 {
			spec.RawIAN = ian
		}
		der, err := BuildCert(spec)
		if err != nil {
			rep.count("kit-build-error")
			return
		}
		o := parseObj("cert", "kit-names", der)
		if o == nil {
			rep.count("kit-rejected-by-parser")
			return
		}
		rs, p := lintObj(o, reg)
		if p != "" || rs == nil {
			rep.count("lint-panicked")
			return
		}
		c := o.Cert
		mask := make([]byte, len(nameLints))
		res := make([]string, len(nameLints))
		any := false
		for i, n := range nameLints {
			r := rs.Results[n]
			if r != nil && r.Status >= lint.Pass && r.Status != lint.Fatal {
				mask[i] = '1'
				res[i] = fmt.Sprint(int(r.Status))
				any = true
				rep.count(n + ":" + r.Status.String())
			} else {
				mask[i] = '0'
				res[i] = "*"
			}
		}
		if !any {
			rep.count("none-ran")
			return
		}
		ip := "0"
		if net.ParseIP(c.Subject.CommonName) != nil {
			ip = "1"
		}
		cnh := "-"
		if c.Subject.CommonName != "" {
			cnh = hexs([]byte(c.Subject.CommonName))
		}
		line := fmt.Sprintf("names\t%s\t%s\t%s\t%s\t%s\t%s\t%s", mask, cnh, ip, hexList(c.DNSNames), hexList(c.URIs), hexList(c.IANDNSNames), hexList(c.IANURIs))
		if seen[line] {
			return
		}
		seen[line] = true
		fmt.Fprintln(wo, line)
		fmt.Fprintln(wi, strings.Join(res, ","))
		rep.Evaluations++
		rep.distinctKey(line)
		rep.sample(map[string]string{"op": line, "impl": strings.Join(res, ",")})
	}
	var dnsAtoms, uriAtoms []string
	for _, a := range sanAtoms() {
		switch {
		case strings.HasPrefix(a.desc, "dns:"):
			dnsAtoms = append(dnsAtoms, strings.TrimPrefix(a.desc, "dns:"))
		case strings.HasPrefix(a.desc, "uri:"):
			uriAtoms = append(uriAtoms, strings.TrimPrefix(a.desc, "uri:"))
		}
	}
	for _, d := range dnsAtoms {
		for _, cn := range []string{"", "192.0.2.1", d, "other.example.org", strings.Repeat("c", 64) + ".example.com", "a..b.example.com", "2001:db8::1", "*.example.com", "a.*.example.com", "w*.example.com", "*"} {
			run(cn, []string{d}, nil, []string{d}, nil)
		}
		run("", []string{"ok.example.com", d}, nil, []string{d, "ok.example.com"}, nil)
	}
	for _, u := range uriAtoms {
		run("", []string{"u.example.com"}, []string{u}, nil, []string{u})
		run("u.example.com", []string{"u.example.com"}, []string{"https://ok.example.com/", u}, nil, []string{u, "https://ok.example.com/"})
	}
	n := 400
	if tier == "thorough" {
		n = 6000
	}
	pick := func(xs []string, k int) []string {
		var out []string
		for i := 0; i < k; i++ {
			out = append(out, xs[rng.Intn(len(xs))])
		}
		return out
	}
	for i := 0; i < n; i++ {
		dns := pick(dnsAtoms, 1+rng.Intn(4))
		cn := []string{"", "192.0.2.1", dns[0], dnsAtoms[rng.Intn(len(dnsAtoms))]}[rng.Intn(4)]
		run(cn, dns, pick(uriAtoms, rng.Intn(3)), pick(dnsAtoms, rng.Intn(3)), pick(uriAtoms, rng.Intn(3)))
	}
	rep.write(filepath.Join(out, "report.json"))
}
