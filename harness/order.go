package main

import (
	stdx509 "crypto/x509"
	"crypto/x509/pkix"
	"encoding/asn1"
	"encoding/json"
	"fmt"
	"os"
	"path/filepath"
	"sort"
	"strings"
	"time"

	"github.com/zmap/zlint/v3/lint"
)

func init() {
	subs["c17"] = subC17
}

// generalName atoms used to build SAN lists: compliant, non-compliant and unparseable of every type
type gnAtom struct {
	desc string
	node func() *Node
}

func sanAtoms() []gnAtom {
	d := func(s string) gnAtom { return gnAtom{"dns:" + s, func() *Node { return gnDNS(s) }} }
	u := func(s string) gnAtom { return gnAtom{"uri:" + s, func() *Node { return gnURI(s) }} }
	e := func(s string) gnAtom { return gnAtom{"email:" + s, func() *Node { return gnEmail(s) }} }
	ip := func(b ...byte) gnAtom { return gnAtom{fmt.Sprintf("ip:%x", b), func() *Node { return gnIP(b) }} }
	base := boundaryAtoms(d, u, e)
	return append(base, []gnAtom{
		d("www.example.com"), d("example.org"), d("*.example.com"), d("a.*.example.com"), d("under_score.example.com"), d("x--y.example.com"),
		d("-bad.example.com"), d("bad-.example.com"), d("example.notatld"), d("localhost"), d("EXAMPLE.com"), d("Example.COM"), d("example.com"),
		d("a.b.c.d.e.example.com"), d(strings.Repeat("a", 64) + ".example.com"), d("xn--mnchen-3ya.de"), d("xn--abc.example.com"), d("xn--e-xbb.example.com"), d("xn--cafe-yvc.example.org"), d("xn--99999999.example.com"), d("xn---.example.com"), d("a..example.com"),
		d(""), d(" "), d("example.com."), d("co.uk"), d("*.co.uk"), d("*.com"), d("192.168.1.1"), d("foo.onion"), d("_x.example.com"), d("a.b_c.example.com"),
		d("\xc0\xa8.example.com"), d("exa mple.com"), d("ex--ample.co.uk"), d("a-.b.example.com"), d("www.-example.com"),
		u("https://example.com/path"), u("sip:alice@sip.example.com"), u("https://intranet_host/path"), u("mailto:?to=a@example.com"), u("http://[::1]/"), u("urn:x:y"), u("/relative"), u("https://"), u("http://a b/"),
		e("alice@example.com"), e(""), e("not-an-email"), e("A@EXAMPLE.com"), e(" alice@example.com"),
		ip(192, 0, 2, 1), ip(10, 0, 0, 1), ip(8, 8, 8, 8), ip(0x20, 0x01, 0x0d, 0xb8, 0, 0, 0, 0, 0, 0, 0, 0, 0, 0, 0, 1), ip(127, 0, 0, 1), ip(1, 2, 3),
		// reverse-DNS names (both zones, reserved and public addresses, wrong label counts / widths) and names that only look like addresses
		d("1.1.168.192.in-addr.arpa"), d("8.8.8.8.in-addr.arpa"), d("1.0.0.127.in-addr.arpa"), d("1000.1.168.192.in-addr.arpa"), d("1.168.192.in-addr.arpa"), d("in-addr.arpa"), d("x.in-addr.arpa"),
		d("10.20.30.10"), d("8.8.4.4"), d("1.2.3"), d("256.1.1.1"),
		d("1.0.0.0.0.0.0.0.0.0.0.0.0.0.0.0.0.0.0.0.0.0.0.0.8.b.d.0.1.0.0.2.ip6.arpa"), d("8.8.8.8.0.0.0.0.0.0.0.0.0.0.0.0.0.0.0.0.0.0.0.0.0.0.0.0.0.0.0.0.ip6.arpa"),
		d("1.0.0.0.0.0.0.0.0.0.0.0.0.0.0.0.0.0.0.0.0.0.0.0.0.0.0.0.0.0.0.0.ip6.arpa"), d("10.0.0.0.0.0.0.0.0.0.0.0.0.0.0.0.0.0.0.0.0.0.0.0.0.0.0.0.0.0.0.0.ip6.arpa"), d("1.0.ip6.arpa"), d("ip6.arpa"),
		{"other:upn", func() *Node { return gnOtherName("1.3.6.1.4.1.311.20.2.3", "u@x", false) }},
		{"rid", func() *Node { return prim(0x88, []byte{0x2a, 0x03, 0x04}) }},
		{"dirname", func() *Node {
			return cons(0xA4, cons(0x30, cons(0x31, cons(0x30, prim(0x06, []byte{0x55, 0x04, 0x03}), prim(0x0C, []byte("dn"))))))
		}},
	}...)
}

// boundaryAtoms: names at the numeric limits the duplicated rules test (label length 63 in octets vs. in
// characters, empty labels at every position, total length), in ASCII, in multi-byte UTF-8 and in invalid UTF-8.
func boundaryAtoms(d, u, e func(string) gnAtom) []gnAtom {
	var out []gnAtom
	for _, n := range []int{62, 63, 64, 65} {
		out = append(out, d(strings.Repeat("a", n)+".example.com"), d("www."+strings.Repeat("b", n)+".com"), d("x."+strings.Repeat("c", n)))
	}
	for _, k := range []int{31, 32, 33} { // 62, 64, 66 octets but at most 33 characters
		out = append(out, d(strings.Repeat("\u00e9", k)+".example.com"))
	}
	for _, k := range []int{21, 22} { // 63, 66 octets, 21/22 characters
		out = append(out, d(strings.Repeat("\u20ac", k)+".example.com"))
	}
	out = append(out, d(strings.Repeat("\xff", 63)+".example.com"), d(strings.Repeat("\xff", 64)+".example.com"), d(strings.Repeat("a", 60)+"\u00e9\u00e9.example.com"))
	out = append(out, d("a\x00b.example.com"), d("*"), d("**.example.com"), d("w*.example.com"), d("*w.example.com"), d("a.b*.example.com"), d("*.*.example.com"), d("x.example.com*"), d("_"), d("a_b"))
	out = append(out, d(".example.com"), d("example..com"), d("."), d(".."), d("a."), d(".a"), d("a.b..c.d"))
	out = append(out, d(strings.Repeat("a.", 126)+"com"), d(strings.Repeat("a.", 127)+"com"))
	out = append(out, u("https://ex\u00e4mple.com/"), u("https://example.com/p\u00e4th"), u("http://\xff/"), e("\u00e4lice@example.com"), e("alice@ex\u00e4mple.com"))
	return out
}

// atomFamilies groups the dNSName atoms by what they share: the suffix of two labels, a reverse-DNS zone, looking like an address
func atomFamilies(atoms []gnAtom) [][]gnAtom {
	by := map[string][]gnAtom{}
	var keys []string
	add := func(k string, a gnAtom) {
		if _, ok := by[k]; !ok {
			keys = append(keys, k)
		}
		by[k] = append(by[k], a)
	}
	for _, a := range atoms {
		// names that are odd as *encodings* (empty values of several kinds, the constructed kinds) next to a plain one: a walker
		// over the raw SAN that loses its place inside one entry misjudges the entries after it
		switch a.desc {
		case "dns:", "email:", "dirname", "rid", "other:upn", "ip:010203", "dns:example.com", "uri:/relative":
			add("encodings", a)
		}
		if !strings.HasPrefix(a.desc, "dns:") {
			continue
		}
		name := strings.ToLower(strings.TrimSuffix(a.desc[4:], "."))
		labels := strings.Split(name, ".")
		switch {
		case strings.HasSuffix(name, ".arpa") || name == "arpa":
			add("arpa", a)
		case len(labels) >= 2:
			add(strings.Join(labels[len(labels)-2:], "."), a)
		}
		if len(labels) >= 3 && len(labels) <= 4 && strings.Trim(name, "0123456789.") == "" {
			add("arpa", a) // address-like names next to reverse-DNS names
		}
	}
	var out [][]gnAtom
	for _, k := range keys {
		if len(by[k]) >= 3 {
			out = append(out, by[k])
		}
	}
	if len(out) == 0 {
		out = append(out, atoms)
	}
	return out
}

func statusVector(o *Obj, g lint.Registry) (map[string]lint.LintStatus, bool) {
	rs, p := lintObj(o, g)
	if p != "" || rs == nil {
		return nil, false
	}
	m := map[string]lint.LintStatus{}
	for k, r := range rs.Results {
		if r != nil {
			m[k] = r.Status
		}
	}
	return m, true
}

func diffVectors(a, b map[string]lint.LintStatus) []string {
	var out []string
	for k, v := range a {
		if b[k] != v {
			out = append(out, fmt.Sprintf("%s: %s vs %s", k, v, b[k]))
		}
	}
	sort.Strings(out)
	return out
}

// subC17: verdicts do not depend on the order of SAN entries or of extensions.
func subC17(out string, seed uint64, tier string, arg string) {
	rng := NewRNG(seed)
	rep := newReport("c17", seed, tier)
	rep.Rule = "kit certificates whose SAN is a generated list of GeneralNames (compliant, non-compliant and unparseable names of every type) and corpus certificates: SAN entries reversed, rotated and randomly permuted; extension lists permuted when no OID is duplicated; the status of every certificate lint compared; the parser must map a permutation to the same multiset of names (A-PERM); distinct = (certificate, permutation) pairs"
	g := lint.GlobalRegistry()
	atoms := sanAtoms()
	nkit := 250
	nperm := 4
	if tier == "thorough" {
		nkit, nperm = 4000, 10
	}
	permsOf := func(n int) [][]int {
		var ps [][]int
		rev := make([]int, n)
		rot := make([]int, n)
		for i := 0; i < n; i++ {
			rev[i] = n - 1 - i
			rot[i] = (i + 1) % n
		}
		ps = append(ps, rev, rot)
		for k := 0; k < nperm; k++ {
			ps = append(ps, rng.Perm(n))
		}
		return ps
	}
	checkPair := func(base *Obj, perm *Obj, what string, key func(d string) string) {
		rep.Evaluations++
		va, ok1 := statusVector(base, g)
		vb, ok2 := statusVector(perm, g)
		if !ok1 || !ok2 {
			return
		}
		for _, d := range diffVectors(va, vb) {
			name := lintNameOf(d)
			rep.violate(Violation{"C17", fmt.Sprintf("re-ordering %s changes a verdict: %s (%s)", what, d, base.Name), key(name), replayOf(base, map[string]interface{}{"permuted_der_hex": hexs(perm.DER), "diff": d})})
		}
	}
	// ---- kit: generated SAN lists, two or three atoms mostly (pairs are where order effects live), sometimes more
	for i := 0; i < nkit; i++ {
		n := 2 + rng.Intn(2)
		if rng.Intn(5) == 0 {
			n = 4 + rng.Intn(5)
		}
		var names []*Node
		var descs []string
		// two lists in five are drawn from one *family* of related names (same registered domain, same reverse zone, same
		// address class): an effect of one entry on the judgement of another needs entries that have something in common
		pool := atoms
		if rng.Intn(5) < 2 {
			fams := atomFamilies(atoms)
			pool = fams[rng.Intn(len(fams))]
		}
		for j := 0; j < n; j++ {
			a := pool[rng.Intn(len(pool))]
			names = append(names, a.node())
			descs = append(descs, a.desc)
		}
		cn := []string{"", "www.example.com", "192.0.2.1", "Common Name"}[rng.Intn(4)]
		spec := CertSpec{Subject: pkixName(cn), RawSAN: names, EKUs: []stdx509.ExtKeyUsage{stdx509.ExtKeyUsageServerAuth}, IsCA: rng.Intn(6) == 0}
		if cn == "" {
			spec.Subject.Organization = []string{"Org"}
		}
		der, err := BuildCert(spec)
		if err != nil {
			rep.count("kit-build-error")
			continue
		}
		base := parseObj("cert", "kit-san["+strings.Join(descs, ",")+"]", der)
		if base == nil {
			rep.count("kit-rejected-by-parser")
			continue
		}
		for _, p := range permsOf(n) {
			cd, _ := ParseCertDER(der)
			if cd.PermuteSAN(p) != nil {
				continue
			}
			pm := parseObj("cert", base.Name+"~perm", cd.Bytes())
			if pm == nil {
				rep.violate(Violation{"C17", "a permutation of an accepted SAN is rejected by the parser (A-PERM)", "a-perm-reject", replayOf(base, nil)})
				continue
			}
			if !sameMultiset(base.Cert.DNSNames, pm.Cert.DNSNames) || !sameMultiset(base.Cert.EmailAddresses, pm.Cert.EmailAddresses) || !sameMultiset(base.Cert.URIs, pm.Cert.URIs) {
				rep.violate(Violation{"C17", "permuting SAN entries changes the multiset of parsed names (A-PERM)", "a-perm", replayOf(base, nil)})
				continue
			}
			rep.distinctKey(fmt.Sprintf("%s|%v", base.Name, p))
			checkPair(base, pm, "SAN entries", func(n string) string { return "san-order:" + n })
		}
		rep.sample(map[string]interface{}{"san": descs, "cn": cn})
	}
	// ---- kit: S/MIME certificates (mailbox-validated legacy and strict, sponsor-validated) whose subject names a mailbox, with
	// every ordered pair and triple of mailbox-bearing SAN entries: the matching rfc822Name, another one, SmtpUTF8Mailbox
	// otherNames that match, differ, are empty, hold a non-UTF8String or two values, an unrelated otherName, a dNSName
	{
		mbox := "alice@example.com"
		smtp := "1.3.6.1.5.5.7.8.9"
		enc, _ := asn1.Marshal(parseOID(smtp))
		on := func(inner ...*Node) *Node {
			oidNode, _, _ := ParseNode(enc)
			return cons(0xA0, oidNode, cons(0xA0, inner...))
		}
		matoms := []gnAtom{
			{"email:" + mbox, func() *Node { return gnEmail(mbox) }},
			{"email:bob@example.org", func() *Node { return gnEmail("bob@example.org") }},
			{"smtp:" + mbox, func() *Node { return gnOtherName(smtp, mbox, false) }},
			{"smtp:b\u00f6b@example.org", func() *Node { return gnOtherName(smtp, "b\u00f6b@example.org", false) }},
			{"smtp:empty-wrapper", func() *Node { return gnOtherName(smtp, "", true) }},
			{"smtp:ia5", func() *Node { return on(prim(0x16, []byte(mbox))) }},
			{"smtp:two-values", func() *Node { return on(prim(0x0C, []byte(mbox)), prim(0x0C, []byte("x"))) }},
			{"smtp:invalid-utf8", func() *Node { return on(prim(0x0C, []byte("\xff@example.com"))) }},
			{"other:upn", func() *Node { return gnOtherName("1.3.6.1.4.1.311.20.2.3", mbox, false) }},
			{"dns:mail.example.com", func() *Node { return gnDNS("mail.example.com") }},
		}
		smimeNB := time.Date(2023, 10, 1, 0, 0, 0, 0, time.UTC)
		pols := []asn1.ObjectIdentifier{{2, 23, 140, 1, 5, 1, 1}, {2, 23, 140, 1, 5, 1, 3}, {2, 23, 140, 1, 5, 3, 2}}
		var lists [][]gnAtom
		for _, a := range matoms {
			for _, b := range matoms {
				lists = append(lists, []gnAtom{a, b})
			}
		}
		nt := 60
		if tier == "thorough" {
			nt = 600
		}
		for i := 0; i < nt; i++ {
			lists = append(lists, []gnAtom{matoms[rng.Intn(len(matoms))], matoms[rng.Intn(len(matoms))], matoms[rng.Intn(len(matoms))]})
		}
		for i, l := range lists {
			var names []*Node
			var descs []string
			for _, a := range l {
				names = append(names, a.node())
				descs = append(descs, a.desc)
			}
			subj := pkixName(mbox)
			if i%3 == 2 {
				subj = pkixName("Alice Example")
				subj.ExtraNames = []pkix.AttributeTypeAndValue{{Type: asn1.ObjectIdentifier{1, 2, 840, 113549, 1, 9, 1}, Value: mbox}}
			}
			der, err := BuildCert(CertSpec{Subject: subj, RawSAN: names, EKUs: []stdx509.ExtKeyUsage{stdx509.ExtKeyUsageEmailProtection}, Policies: []asn1.ObjectIdentifier{pols[i%len(pols)]},
				KeyUsage: stdx509.KeyUsageDigitalSignature, NotBefore: smimeNB, NotAfter: smimeNB.AddDate(1, 0, 0)})
			if err != nil {
				rep.count("kit-smime-build-error")
				continue
			}
			base := parseObj("cert", "kit-smime-san["+strings.Join(descs, ",")+"]", der)
			if base == nil {
				rep.count("kit-smime-rejected-by-parser")
				continue
			}
			rep.count("kit-smime-san")
			for _, p := range permsOf(len(l))[:2] {
				cd, _ := ParseCertDER(der)
				if cd.PermuteSAN(p) != nil {
					continue
				}
				pm := parseObj("cert", base.Name+"~perm", cd.Bytes())
				if pm == nil {
					rep.violate(Violation{"C17", "a permutation of an accepted SAN is rejected by the parser (A-PERM)", "a-perm-reject", replayOf(base, nil)})
					continue
				}
				rep.distinctKey(fmt.Sprintf("%s|%v", base.Name, p))
				checkPair(base, pm, "SAN entries", func(n string) string { return "san-order:" + n })
			}
		}
	}
	// ---- kit: certificates of four profiles (TLS BR, S/MIME legacy, S/MIME strict, sub CA) carrying two to four *extra* extensions
	// whose OIDs are taken from zlint's own OID table (the extensions lints look for), each critical or not, in every order of the
	// extension list: a rule that walks c.Extensions and stops at the first one of a family is sensitive to it
	extOIDs := lintKnownOIDs()
	rep.count(fmt.Sprintf("lint-known-oids=%d", len(extOIDs)))
	nx := 120
	if tier == "thorough" {
		nx = 3000
	}
	smimeNB := time.Date(2023, 10, 1, 0, 0, 0, 0, time.UTC)
	profiles := []CertSpec{
		{DNS: []string{"x.example.com"}, Subject: pkixName("x.example.com"), EKUs: []stdx509.ExtKeyUsage{stdx509.ExtKeyUsageServerAuth}, Policies: []asn1.ObjectIdentifier{{2, 23, 140, 1, 2, 2}}, NotBefore: smimeNB, NotAfter: smimeNB.AddDate(0, 6, 0)},
		{Emails: []string{"a@example.com"}, Subject: pkixName("Legacy User"), EKUs: []stdx509.ExtKeyUsage{stdx509.ExtKeyUsageEmailProtection}, Policies: []asn1.ObjectIdentifier{{2, 23, 140, 1, 5, 1, 1}}, KeyUsage: stdx509.KeyUsageDigitalSignature, NotBefore: smimeNB, NotAfter: smimeNB.AddDate(1, 0, 0)},
		{Emails: []string{"a@example.com"}, Subject: pkixName("Multi User"), EKUs: []stdx509.ExtKeyUsage{stdx509.ExtKeyUsageEmailProtection, stdx509.ExtKeyUsageClientAuth}, Policies: []asn1.ObjectIdentifier{{2, 23, 140, 1, 5, 3, 2}}, KeyUsage: stdx509.KeyUsageDigitalSignature, NotBefore: smimeNB, NotAfter: smimeNB.AddDate(1, 0, 0)},
		{Emails: []string{"a@example.com"}, Subject: pkixName("Strict User"), EKUs: []stdx509.ExtKeyUsage{stdx509.ExtKeyUsageEmailProtection}, Policies: []asn1.ObjectIdentifier{{2, 23, 140, 1, 5, 2, 3}}, KeyUsage: stdx509.KeyUsageDigitalSignature, NotBefore: smimeNB, NotAfter: smimeNB.AddDate(1, 0, 0)},
		{IsCA: true, Subject: pkixName("Order Sub CA"), KeyUsage: stdx509.KeyUsageCertSign, NotBefore: smimeNB, NotAfter: smimeNB.AddDate(5, 0, 0)},
	}
	// first every pair of neighbours of the name-sorted table (names of one family sort together) in every profile, one critical
	// and one not; then random picks
	nsys := len(extOIDs) * len(profiles)
	for i := 0; i < nsys+nx && len(extOIDs) > 1; i++ {
		spec := profiles[i%len(profiles)]
		k := 2 + rng.Intn(3)
		start := rng.Intn(len(extOIDs))
		systematic := i < nsys
		if systematic {
			k, start = 2, i/len(profiles)
		}
		var picked []string
		for j := 0; j < k; j++ {
			o := extOIDs[(start+j*(1+rng.Intn(2)))%len(extOIDs)]
			if systematic {
				o = extOIDs[(start+j)%len(extOIDs)]
			}
			dup := false
			for _, e := range spec.ExtraExt {
				if e.Id.Equal(o) {
					dup = true
				}
			}
			if dup {
				continue
			}
			crit := rng.Bool()
			if systematic {
				crit = j == 1
			}
			spec.ExtraExt = append(spec.ExtraExt, pkix.Extension{Id: o, Critical: crit, Value: []byte{0x30, 0x00}})
			picked = append(picked, o.String())
		}
		der, err := BuildCert(spec)
		if err != nil {
			rep.count("kit-ext-build-error")
			continue
		}
		base := parseObj("cert", "kit-ext["+strings.Join(picked, ",")+"]", der)
		cd, err2 := ParseCertDER(der)
		if base == nil || err2 != nil || cd.HasDuplicateExtension() {
			rep.count("kit-ext-rejected")
			continue
		}
		ne := cd.NumExtensions()
		for t := 0; t < 4; t++ {
			c2, _ := ParseCertDER(der)
			c2.PermuteExtensions(rng.Perm(ne))
			pm := parseObj("cert", base.Name+"~extperm", c2.Bytes())
			if pm == nil {
				rep.count("kit-ext-perm-rejected")
				continue
			}
			rep.distinctKey(fmt.Sprintf("%s|ext%d", base.Name, t))
			checkPair(base, pm, "extensions", func(n string) string { return "ext-order:" + n })
		}
		rep.count("kit-ext-certs")
	}
	// ---- corpus: SAN and extension permutations
	objs := loadObjects()
	ncorp := 150
	if tier == "thorough" {
		ncorp = 1 << 30
	}
	cnt := 0
	for idx := 0; idx < len(objs) && cnt < ncorp; idx++ {
		o := objs[(idx*37+int(seed))%len(objs)]
		if o.Kind != "cert" {
			continue
		}
		cd, err := ParseCertDER(o.DER)
		if err != nil {
			continue
		}
		if string(cd.IssuerBytes()) == string(cd.SubjectBytes()) {
			// a self-issued certificate's SelfSigned flag depends on its signature verifying over the TBS bytes,
			// which any re-ordering breaks: outside A-PERM
			rep.count("skipped:self-issued")
			continue
		}
		cnt++
		if n := len(cd.SANEntries()); n >= 2 {
			for _, p := range permsOf(n)[:3] {
				cd2, _ := ParseCertDER(o.DER)
				if cd2.PermuteSAN(p) != nil {
					continue
				}
				if pm := parseObj("cert", o.Name+"~sanperm", cd2.Bytes()); pm != nil {
					rep.distinctKey(fmt.Sprintf("%s|san|%v", o.Name, p))
					checkPair(o, pm, "SAN entries", func(n string) string { return "san-order:" + n })
				}
			}
		}
		if n := cd.NumExtensions(); n >= 2 && !cd.HasDuplicateExtension() {
			for _, p := range permsOf(n)[:3] {
				cd2, _ := ParseCertDER(o.DER)
				cd2.PermuteExtensions(p)
				pm := parseObj("cert", o.Name+"~extperm", cd2.Bytes())
				if pm == nil {
					rep.count("ext-perm-rejected")
					continue
				}
				rep.distinctKey(fmt.Sprintf("%s|ext|%v", o.Name, p))
				checkPair(o, pm, "extensions", func(n string) string { return "ext-order:" + n })
			}
		}
	}
	rep.write(filepath.Join(out, "report.json"))
}

func sameMultiset(a, b []string) bool {
	if len(a) != len(b) {
		return false
	}
	x := append([]string{}, a...)
	y := append([]string{}, b...)
	sort.Strings(x)
	sort.Strings(y)
	for i := range x {
		if x[i] != y[i] {
			return false
		}
	}
	return true
}

// lintKnownOIDs: the object identifiers of zlint's own table (util/oid.go, regenerated into facts.json), name-sorted
func lintKnownOIDs() []asn1.ObjectIdentifier {
	exe, _ := os.Executable()
	p := filepath.Join(filepath.Dir(filepath.Dir(exe)), "facts.json")
	if v := os.Getenv("VERIF_FACTS"); v != "" {
		p = v
	}
	data, err := os.ReadFile(p)
	if err != nil {
		return nil
	}
	var f struct {
		Tables struct {
			Oids []struct {
				Name string `json:"name"`
				Arcs []int  `json:"arcs"`
			} `json:"oids"`
		} `json:"tables"`
	}
	if json.Unmarshal(data, &f) != nil {
		return nil
	}
	var out []asn1.ObjectIdentifier
	for _, o := range f.Tables.Oids {
		// extensions the standard library writes itself from the template would be duplicated
		s := asn1.ObjectIdentifier(o.Arcs).String()
		if strings.HasPrefix(s, "2.5.29.") || s == "1.3.6.1.5.5.7.1.1" || len(o.Arcs) < 4 {
			continue
		}
		out = append(out, asn1.ObjectIdentifier(o.Arcs))
	}
	return out
}
