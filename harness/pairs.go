package main

import (
	stdx509 "crypto/x509"
	"crypto/x509/pkix"
	"encoding/asn1"
	"fmt"
	"path/filepath"
	"sort"
	"strings"
	"time"

	"github.com/zmap/zlint/v3/lint"
	"github.com/zmap/zlint/v3/util"
)

func init() {
	subs["c20"] = subC20
}

type rulePair struct {
	a, b string
	kind string // mirror (same conclusion) | implies (error of a => finding of b)
}

var rulePairs = []rulePair{
	{"e_ext_san_dns_not_ia5_string", "e_ext_ian_dns_not_ia5_string", "san-ian"},
	{"e_ext_san_empty_name", "e_ext_ian_empty_name", "san-ian"},
	{"e_ext_san_no_entries", "e_ext_ian_no_entries", "san-ian"},
	{"e_ext_san_rfc822_format_invalid", "e_ext_ian_rfc822_format_invalid", "san-ian"},
	{"e_ext_san_space_dns_name", "e_ext_ian_space_dns_name", "san-ian"},
	{"e_ext_san_uri_format_invalid", "e_ext_ian_uri_format_invalid", "san-ian"},
	{"e_ext_san_uri_host_not_fqdn_or_ip", "e_ext_ian_uri_host_not_fqdn_or_ip", "san-ian"},
	{"e_ext_san_uri_not_ia5", "e_ext_ian_uri_not_ia5", "san-ian"},
	{"e_ext_san_uri_relative", "e_ext_ian_uri_relative", "san-ian"},
	{"e_rfc_dnsname_empty_label", "e_dnsname_empty_label", "rfc-br"},
	{"e_rfc_dnsname_hyphen_in_sld", "e_dnsname_hyphen_in_sld", "rfc-br"},
	{"e_rfc_dnsname_label_too_long", "e_dnsname_label_too_long", "rfc-br"},
	{"e_rfc_dnsname_underscore_in_sld", "e_dnsname_underscore_in_sld", "rfc-br"},
	{"w_rfc_dnsname_underscore_in_trd", "w_dnsname_underscore_in_trd", "rfc-br"},
	{"w_subject_dn_leading_whitespace", "w_issuer_dn_leading_whitespace", "subj-iss"},
	{"w_subject_dn_trailing_whitespace", "w_issuer_dn_trailing_whitespace", "subj-iss"},
	{"n_multiple_subject_rdn", "w_multiple_issuer_rdn", "subj-iss"},
	{"e_subject_dn_country_not_printable_string", "e_issuer_dn_country_not_printable_string", "subj-iss"},
	{"e_prohibit_dsa_usage", "e_br_prohibit_dsa_usage", "any"},
	{"w_sub_cert_aia_contains_internal_names", "w_smime_aia_contains_internal_names", "any"},
	{"e_tls_server_cert_valid_time_longer_than_398_days", "w_tls_server_cert_valid_time_longer_than_397_days", "implies"},
	{"e_subject_given_name_max_length", "w_subject_given_name_recommended_max_length", "implies"},
	{"e_subject_surname_max_length", "w_subject_surname_recommended_max_length", "implies"},
}

func ran(s lint.LintStatus) bool     { return s >= lint.Pass }
func finding(s lint.LintStatus) bool { return s == lint.Notice || s == lint.Warn || s == lint.Error }

// rawName builds a Name: each inner slice is one RDN (a SET) of (oid, tag, value) attributes.
type atv struct {
	oid asn1.ObjectIdentifier
	tag byte
	val string
}

func rawName(rdns [][]atv) []byte {
	var sets []*Node
	for _, rdn := range rdns {
		var atvs []*Node
		for _, a := range rdn {
			enc, _ := asn1.Marshal(a.oid)
			on, _, _ := ParseNode(enc)
			atvs = append(atvs, cons(0x30, on, prim(a.tag, []byte(a.val))))
		}
		sets = append(sets, cons(0x31, atvs...))
	}
	return cons(0x30, sets...).Encode()
}

var (
	oidCN = asn1.ObjectIdentifier{2, 5, 4, 3}
	oidC  = asn1.ObjectIdentifier{2, 5, 4, 6}
	oidO  = asn1.ObjectIdentifier{2, 5, 4, 10}
	oidOU = asn1.ObjectIdentifier{2, 5, 4, 11}
	oidGN = asn1.ObjectIdentifier{2, 5, 4, 42}
	oidSN = asn1.ObjectIdentifier{2, 5, 4, 4}
)

func subC20(out string, seed uint64, tier string, arg string) {
	rng := NewRNG(seed)
	rep := newReport("c20", seed, tier)
	rep.Rule = "for every duplicated rule pair: kit certificates carrying the same content in both places (the same GeneralNames in SAN and IAN; issuer DN bytes = subject DN bytes; DNS names with a CN that is empty, an IP or one of the SAN names, server-auth scope, dated after both effective dates), single atoms first (per-element agreement) then lists; corpus certificates for the DSA and AIA pairs; validity and name-length sweeps around the thresholds; both lints must have run, then their conclusions are compared; distinct = (pair, content) combinations"
	g := lint.GlobalRegistry()
	pairBy := map[string][]rulePair{}
	for _, p := range rulePairs {
		pairBy[p.kind] = append(pairBy[p.kind], p)
	}
	cmp := func(o *Obj, pairs []rulePair, content string) {
		rs, pmsg := lintObj(o, g)
		if pmsg != "" || rs == nil {
			return
		}
		for _, p := range pairs {
			ra, rb := rs.Results[p.a], rs.Results[p.b]
			if ra == nil || rb == nil {
				rep.violate(Violation{"C20", "pair member missing from the registry: " + p.a + " / " + p.b, "pair-missing:" + p.a, map[string]interface{}{}})
				continue
			}
			rep.Evaluations++
			if !ran(ra.Status) || !ran(rb.Status) {
				rep.count("not-both-ran")
				continue
			}
			rep.distinctKey(p.a + "|" + content)
			rep.count("compared:" + p.kind)
			if p.kind == "implies" {
				if ra.Status == lint.Error && !finding(rb.Status) {
					rep.violate(Violation{"C20", fmt.Sprintf("%s reports error but its stricter companion %s reports %s (%s)", p.a, p.b, rb.Status, content), "implies:" + p.a, replayOf(o, map[string]interface{}{"content": content})})
				}
				continue
			}
			agree := finding(ra.Status) == finding(rb.Status) && (ra.Status == lint.Fatal) == (rb.Status == lint.Fatal)
			if p.a[0] == p.b[0] && ra.Status != rb.Status {
				agree = false
			}
			if !agree {
				rep.violate(Violation{"C20", fmt.Sprintf("%s says %s, %s says %s on the same content (%s)", p.a, ra.Status, p.b, rb.Status, content), "pair:" + p.a + ":" + content, replayOf(o, map[string]interface{}{"content": content})})
			}
		}
	}
	atoms := sanAtoms()
	// ---- SAN / IAN mirror: single atoms, then lists
	build := func(names []*Node, descs []string) {
		spec := CertSpec{Subject: pkixName("pair.example.com"), RawSAN: names, RawIAN: names, EKUs: []stdx509.ExtKeyUsage{stdx509.ExtKeyUsageServerAuth}}
		der, err := BuildCert(spec)
		if err != nil {
			return
		}
		o := parseObj("cert", "kit-pair", der)
		if o == nil {
			rep.count("kit-rejected-by-parser")
			return
		}
		cmp(o, pairBy["san-ian"], strings.Join(descs, ","))
	}
	for _, a := range atoms {
		build([]*Node{a.node()}, []string{a.desc})
	}
	build([]*Node{}, []string{"(empty)"})
	nl := 200
	if tier == "thorough" {
		nl = 3000
	}
	// half of the lists hold names of one kind only (a rule about URIs is indifferent to the dNSNames between them: what can go
	// wrong between two entries goes wrong between two entries the rule looks at)
	byKind := map[string][]gnAtom{}
	for _, a := range atoms {
		if i := strings.Index(a.desc, ":"); i > 0 {
			byKind[a.desc[:i]] = append(byKind[a.desc[:i]], a)
		}
	}
	kindsL := []string{"uri", "dns", "email", "ip"}
	for i := 0; i < nl; i++ {
		n := 2 + rng.Intn(3)
		pool := atoms
		if i%2 == 0 {
			if p := byKind[kindsL[(i/2)%len(kindsL)]]; len(p) > 1 {
				pool = p
			}
		}
		var names []*Node
		var descs []string
		for j := 0; j < n; j++ {
			a := pool[rng.Intn(len(pool))]
			names = append(names, a.node())
			descs = append(descs, a.desc)
		}
		build(names, descs)
	}
	// every ordered pair of URI atoms (the URI rules have the most cases per entry: opaque, relative, no host, bad host, …)
	if us := byKind["uri"]; len(us) > 1 {
		for _, a := range us {
			for _, b := range us {
				build([]*Node{a.node(), b.node()}, []string{a.desc, b.desc})
			}
		}
	}
	// ---- RFC / BR DNS-name rules: same certificate, CN empty / an IP / one of the SAN names
	var dnsAtoms []string
	for _, a := range atoms {
		if strings.HasPrefix(a.desc, "dns:") {
			dnsAtoms = append(dnsAtoms, strings.TrimPrefix(a.desc, "dns:"))
		}
	}
	dnsCert := func(dns []string, cn string) {
		// the SAN is written by DER surgery (RawSAN): the standard library refuses to encode non-IA5 names itself
		spec := CertSpec{DNS: []string{"placeholder.example.com"}, EKUs: []stdx509.ExtKeyUsage{stdx509.ExtKeyUsageServerAuth}}
		if cn == "" {
			spec.Subject = pkix.Name{Organization: []string{"Org"}}
		} else {
			spec.Subject = pkixName(cn)
		}
		var names []*Node
		for _, d := range dns {
			names = append(names, gnDNS(d))
		}
		spec.RawSAN = names
		der, err := BuildCert(spec)
		if err != nil {
			rep.count("kit-build-error:dns")
			return
		}
		if o := parseObj("cert", "kit-dns", der); o != nil {
			cmp(o, pairBy["rfc-br"], "dns["+strings.Join(dns, ",")+"] cn="+cn)
		} else {
			rep.count("kit-rejected-by-parser:dns")
		}
	}
	for _, d := range dnsAtoms {
		dnsCert([]string{d}, "")
		dnsCert([]string{d}, "192.0.2.1")
		dnsCert([]string{d}, d)
	}
	for i := 0; i < nl; i++ {
		a, b := dnsAtoms[rng.Intn(len(dnsAtoms))], dnsAtoms[rng.Intn(len(dnsAtoms))]
		dnsCert([]string{a, b}, []string{"", a, "192.0.2.1"}[rng.Intn(3)])
	}
	// ---- subject / issuer mirror: issuer DN bytes = subject DN bytes
	vals := []string{"Example", " Example", "Example ", " ", "", "Exa mple", "\tTab", "Trail\t", "US", "us", "D\xc3\xa9j\xc3\xa0"}
	tags := []byte{0x13, 0x0C, 0x16, 0x1E}
	dnCert := func(rdns [][]atv, desc string) {
		raw := rawName(rdns)
		tmplSubj := pkix.Name{CommonName: "placeholder"}
		der, err := BuildCert(CertSpec{Subject: tmplSubj, DNS: []string{"dn.example.com"}, EKUs: []stdx509.ExtKeyUsage{stdx509.ExtKeyUsageServerAuth}})
		if err != nil {
			return
		}
		cd, err := ParseCertDER(der)
		if err != nil {
			return
		}
		sn, _, err := ParseNode(raw)
		if err != nil {
			return
		}
		cd.tbs.Kids[4+cd.off] = sn
		cd.SetIssuerToSubject()
		o := parseObj("cert", "kit-dn", cd.Bytes())
		if o == nil {
			rep.count("kit-rejected-by-parser")
			return
		}
		if string(o.Cert.RawIssuer) != string(o.Cert.RawSubject) {
			return
		}
		cmp(o, pairBy["subj-iss"], desc)
	}
	for _, v := range vals {
		for _, tg := range tags {
			val := v
			if tg == 0x1E { // BMPString: UTF-16BE
				var b []byte
				for _, r := range v {
					b = append(b, byte(r>>8), byte(r))
				}
				val = string(b)
			}
			dnCert([][]atv{{{oidC, 0x13, "US"}}, {{oidO, tg, val}}, {{oidCN, 0x0C, "dn.example.com"}}}, fmt.Sprintf("O=%q tag %x", v, tg))
			dnCert([][]atv{{{oidC, tg, val}}, {{oidCN, 0x0C, "dn.example.com"}}}, fmt.Sprintf("C=%q tag %x", v, tg))
			dnCert([][]atv{{{oidC, 0x13, "US"}, {oidO, tg, val}}, {{oidCN, 0x0C, "dn.example.com"}}}, fmt.Sprintf("multi-RDN C+O=%q tag %x", v, tg))
		}
	}
	// the *structure* of the name: empty RDNs (a SET with no attribute — the parser accepts it), multi-valued RDNs of two to four
	// attributes, repeated attributes, at every position and in combination — counts of RDNs and of attributes diverge there
	{
		c := atv{oidC, 0x13, "US"}
		o := atv{oidO, 0x0C, "Example Corp"}
		cn := atv{oidCN, 0x0C, "dn.example.com"}
		ou := atv{asn1.ObjectIdentifier{2, 5, 4, 11}, 0x0C, "Unit"}
		for i, sh := range [][][]atv{
			{{c}, {}, {cn, o}}, {{c}, {cn, o}, {}}, {{}, {c, o, cn}}, {{}, {}, {c, o, cn}}, {{c, o}, {}, {cn}}, {{}, {c}, {cn}}, {{c}, {}, {cn}}, {{}},
			{{c}, {c}, {cn}}, {{c, c}, {cn}}, {{cn, o, ou, c}}, {{c}, {o, ou}, {}, {}, {cn}}, {{c, o}, {cn, ou}}, {{}, {}, {}, {c, o, ou, cn}}, {{c}, {o}, {ou}, {cn}},
		} {
			dnCert(sh, fmt.Sprintf("name structure %d", i))
		}
		rep.count("dn-structure-shapes")
		// an attribute type that occurs twice with different encodings or values, in either order, in two RDNs or in one:
		// a rule that stops at the first occurrence and its copy that looks at all of them part ways here
		for _, t := range []asn1.ObjectIdentifier{oidC, oidO, asn1.ObjectIdentifier{2, 5, 4, 8}, asn1.ObjectIdentifier{2, 5, 4, 7}, asn1.ObjectIdentifier{2, 5, 4, 5}, asn1.ObjectIdentifier{2, 5, 4, 11}} {
			good := atv{t, 0x13, "US"}
			for j, bad := range []atv{{t, 0x0C, "DE"}, {t, 0x13, "usa"}, {t, 0x1E, "\x00D\x00E"}, {t, 0x16, "DE"}, {t, 0x0C, " "}, {t, 0x13, ""}, {t, 0x14, "DE"}} {
				for k, sh := range [][][]atv{{{good}, {bad}, {cn}}, {{bad}, {good}, {cn}}, {{good, bad}, {cn}}, {{bad, good}, {cn}}, {{good}, {cn}, {bad}}, {{bad}, {cn}, {good}}} {
					dnCert(sh, fmt.Sprintf("attribute %v twice, variant %d shape %d", t, j, k))
				}
			}
		}
		rep.count("dn-repeated-attribute-shapes")
	}
	// ---- thresholds
	for _, days := range []int{396, 397, 398, 399, 400, 825} {
		for _, ds := range []int{-1, 0, 1} {
			nb := time.Date(2021, 1, 1, 0, 0, 0, 0, time.UTC)
			na := nb.Add(time.Duration(days)*24*time.Hour + time.Duration(ds)*time.Second)
			der, err := BuildCert(CertSpec{NotBefore: nb, NotAfter: na, DNS: []string{"v.example.com"}, EKUs: []stdx509.ExtKeyUsage{stdx509.ExtKeyUsageServerAuth}})
			if err == nil {
				if o := parseObj("cert", "kit-validity", der); o != nil {
					cmp(o, pairBy["implies"][:1], fmt.Sprintf("validity %dd%+ds", days, ds))
				}
			}
		}
	}
	for _, n := range []int{1, 63, 64, 65, 66, 32767, 32768, 32769, 40000} {
		for _, oid := range []asn1.ObjectIdentifier{oidGN, oidSN} {
			val := strings.Repeat("n", n)
			dnCertP := func(rdns [][]atv, desc string) {
				raw := rawName(rdns)
				der, err := BuildCert(CertSpec{Subject: pkixName("placeholder"), DNS: []string{"n.example.com"}})
				if err != nil {
					return
				}
				cd, _ := ParseCertDER(der)
				sn, _, err := ParseNode(raw)
				if err != nil {
					return
				}
				cd.tbs.Kids[4+cd.off] = sn
				if o := parseObj("cert", "kit-namelen", cd.Bytes()); o != nil {
					cmp(o, pairBy["implies"][1:], desc)
				}
			}
			dnCertP([][]atv{{{oidC, 0x13, "US"}}, {{oid, 0x0C, val}}, {{oidCN, 0x0C, "n.example.com"}}}, fmt.Sprintf("%v length %d", oid, n))
		}
	}
	// ---- the BR / S/MIME AIA internal-name pair on certificates in scope of both (serverAuth + emailProtection,
	// an S/MIME BR policy, an rfc822Name), with every shape of AIA host in either position
	aiaURLs := []string{"http://ocsp.example.com", "http://ocsp.example.com:8080/x", "http://intranet/ocsp", "http://intranet:80/", "http://192.0.2.1/", "http://192.0.2.1:8080/",
		"http://[2001:db8::1]/", "http://[2001:db8::1]:80/", "http://10.0.0.1:80", "ldap://dir.example.com/cn=x", "http://%zz", "", "http://example.notatld/", "HTTP://EXAMPLE.COM/",
		"http://user@host.example.com/", "//noscheme.example.com/", "mailto:x@example.com", "http://example.com./", "http://localhost:8080/", "http://[::1]/", "http://256.1.1.1/", "http://1.2.3/"}
	aiaNB := time.Date(2024, 3, 1, 0, 0, 0, 0, time.UTC)
	aiaCert := func(ocsp, ca []string) {
		der, err := BuildCert(CertSpec{Subject: pkixName("Alice"), Emails: []string{"alice@example.com"}, DNS: []string{"aia.example.com"},
			EKUs:     []stdx509.ExtKeyUsage{stdx509.ExtKeyUsageServerAuth, stdx509.ExtKeyUsageEmailProtection},
			Policies: []asn1.ObjectIdentifier{{2, 23, 140, 1, 5, 1, 2}}, OCSP: ocsp, CAIssuers: ca,
			NotBefore: aiaNB})
		if err != nil {
			rep.count("kit-build-error:aia")
			return
		}
		if o := parseObj("cert", "kit-aia", der); o != nil {
			cmp(o, pairBy["any"], fmt.Sprintf("aia ocsp=%q caIssuers=%q", ocsp, ca))
		} else {
			rep.count("kit-rejected-by-parser:aia")
		}
	}
	for _, u := range aiaURLs {
		aiaCert([]string{u}, nil)
		aiaCert(nil, []string{u})
		aiaCert([]string{"http://ocsp.example.com"}, []string{u})
	}
	for i := 0; i < nl; i++ {
		aiaCert([]string{aiaURLs[rng.Intn(len(aiaURLs))], aiaURLs[rng.Intn(len(aiaURLs))]}, []string{aiaURLs[rng.Intn(len(aiaURLs))]})
	}
	// hosts under top-level domains whose standing differs between the instants a rule might ask about (issuance, today): removed
	// from the root zone before or after these certificates' notBefore, delegated only after it — both copies ask the same question
	{
		tm := util.VerifTLDMap()
		var removedBefore, removedAfter, delegatedAfter []string
		for k, p := range tm {
			d, derr := time.Parse("2006-01-02", p.DelegationDate)
			if derr != nil {
				continue
			}
			if p.RemovalDate != "" {
				if r, rerr := time.Parse("2006-01-02", p.RemovalDate); rerr == nil {
					if r.Before(aiaNB) {
						removedBefore = append(removedBefore, k)
					} else if d.Before(aiaNB) {
						removedAfter = append(removedAfter, k)
					}
				}
			} else if d.After(aiaNB) {
				delegatedAfter = append(delegatedAfter, k)
			}
		}
		for _, group := range [][]string{removedBefore, removedAfter, delegatedAfter} {
			sort.Strings(group)
			for i, k := range group {
				if i >= 6 {
					break
				}
				u := "http://ocsp.example." + k + "/"
				aiaCert([]string{u}, nil)
				aiaCert(nil, []string{u})
			}
		}
		rep.count(fmt.Sprintf("aia-tld-standing removed-before=%d removed-after=%d delegated-after=%d", len(removedBefore), len(removedAfter), len(delegatedAfter)))
	}
	// ---- DSA and AIA pairs over the corpus (and mutants): whenever both ran
	objs := loadObjects()
	lim := 400
	if tier == "thorough" {
		lim = len(objs)
	}
	for i := 0; i < lim && i < len(objs); i++ {
		o := objs[(i*3+int(seed))%len(objs)]
		if o.Kind != "cert" {
			continue
		}
		cmp(o, pairBy["any"], "corpus:"+o.Name)
		cmp(o, pairBy["implies"], "corpus:"+o.Name)
	}
	rep.sample(map[string]interface{}{"pairs": len(rulePairs), "atoms": len(atoms)})
	rep.write(filepath.Join(out, "report.json"))
}
