package main

// Direct search on the real code: the properties as executable oracles, run over the
// repository's own test corpus plus generated mutants.

import (
	"bytes"
	"crypto/sha256"
	stdx509 "crypto/x509"
	"crypto/x509/pkix"
	"encoding/asn1"
	"encoding/hex"
	"fmt"
	"hash"
	"math/big"
	"net"
	"net/url"
	"os"
	"path/filepath"
	"reflect"
	"runtime"
	"sort"
	"strings"
	"sync"
	"sync/atomic"
	"time"

	"github.com/zmap/zcrypto/x509"
	zlint "github.com/zmap/zlint/v3"
	"github.com/zmap/zlint/v3/lint"
	"github.com/zmap/zlint/v3/util"
	"golang.org/x/crypto/ocsp"
)

type Obj struct {
	Kind string // cert | crl | ocsp
	Name string
	DER  []byte
	Cert *x509.Certificate
	CRL  *x509.RevocationList
	OCSP *ocsp.Response
}

func parseObj(kind, name string, der []byte) *Obj {
	o := &Obj{Kind: kind, Name: name, DER: der}
	var err error
	func() {
		defer func() {
			if e := recover(); e != nil {
				err = fmt.Errorf("parser panic: %v", e)
			}
		}()
		switch kind {
		case "cert":
			o.Cert, err = x509.ParseCertificate(der)
		case "crl":
			o.CRL, err = x509.ParseRevocationList(der)
		case "ocsp":
			o.OCSP, err = ocsp.ParseResponse(der, nil)
		}
	}()
	if err != nil {
		return nil
	}
	return o
}

func (o *Obj) reparse() *Obj { return parseObj(o.Kind, o.Name, o.DER) }

func (o *Obj) target() time.Time {
	switch o.Kind {
	case "cert":
		return o.Cert.NotBefore
	case "crl":
		return o.CRL.ThisUpdate
	}
	return o.OCSP.NextUpdate
}

// lintTimeout bounds one top-level lint call. C01 says the call returns ("no hang"): a call that has not returned
// after this long is reported as a hang (its goroutine is abandoned; it keeps a core busy until the process exits).
const lintTimeout = 20 * time.Second

const hangMarker = "HANG: no result after "

var hangCount int32 // after three hangs the watchdog shortens: the abandoned goroutines already keep cores busy

// lintObj runs the top-level entry point; a panic reaching the caller is reported, and so is a call that does not return.
func lintObj(o *Obj, reg lint.Registry) (rs *zlint.ResultSet, panicMsg string) {
	type answer struct {
		rs *zlint.ResultSet
		p  string
	}
	ch := make(chan answer, 1)
	go func() {
		var a answer
		defer func() {
			if e := recover(); e != nil {
				a.p = fmt.Sprint(e)
				if a.p == "" {
					a.p = "panic"
				}
				a.rs = nil
			}
			ch <- a
		}()
		switch o.Kind {
		case "cert":
			a.rs = zlint.LintCertificateEx(o.Cert, reg)
		case "crl":
			a.rs = zlint.LintRevocationListEx(o.CRL, reg)
		case "ocsp":
			a.rs = zlint.LintOcspResponseEx(o.OCSP, reg)
		}
	}()
	to := lintTimeout
	if atomic.LoadInt32(&hangCount) >= 3 {
		to = 3 * time.Second
	}
	select {
	case a := <-ch:
		return handOver(a.rs), a.p
	case <-time.After(to):
		atomic.AddInt32(&hangCount, 1)
		return nil, hangMarker + to.String()
	}
}

// handOver gives the harness a private copy of a result set and then scribbles over the original, the way a caller may who
// post-processes what it was handed (waivers, severity re-mapping): a result set belongs to the caller, so nothing the
// library keeps may alias it. A lint (or the framework) that hands out a long-lived result object shows the scribble —
// a finding status and a marker text — in a later run, where every check that compares runs or judges statuses sees it.
func handOver(rs *zlint.ResultSet) *zlint.ResultSet {
	if rs == nil {
		return nil
	}
	c := *rs
	c.Results = make(map[string]*lint.LintResult, len(rs.Results))
	i := 0
	for name, r := range rs.Results {
		if r == nil {
			c.Results[name] = nil
			continue
		}
		cp := *r
		c.Results[name] = &cp
		// the scribble: a status that is a finding in every window and scope, a text no lint writes
		r.Status = []lint.LintStatus{lint.Error, lint.Pass, lint.Warn}[i%3]
		r.Details = "scribbled over by the caller of an earlier run"
		r.LintMetadata = lint.LintMetadata{Name: "scribbled"}
		i++
	}
	rs.Results = nil
	rs.ErrorsPresent, rs.WarningsPresent, rs.NoticesPresent, rs.FatalsPresent = true, true, true, true
	return &c
}

// lintEntry: the public entry points other than Lint*Ex with an explicit registry
func lintEntry(o *Obj, which string) (rs *zlint.ResultSet, panicMsg string) {
	defer func() {
		if e := recover(); e != nil {
			rs, panicMsg = nil, fmt.Sprint(e)
		}
	}()
	switch o.Kind + "/" + which {
	case "cert/plain":
		return zlint.LintCertificate(o.Cert), ""
	case "crl/plain":
		return zlint.LintRevocationList(o.CRL), ""
	case "ocsp/plain":
		return zlint.LintOcspResponse(o.OCSP), ""
	case "cert/nil-registry":
		return zlint.LintCertificateEx(o.Cert, nil), ""
	case "crl/nil-registry":
		return zlint.LintRevocationListEx(o.CRL, nil), ""
	case "ocsp/nil-registry":
		return zlint.LintOcspResponseEx(o.OCSP, nil), ""
	}
	return nil, "unknown entry"
}

type metaOf struct {
	md   lint.LintMetadata
	kind string
}

func registryMetas(reg lint.Registry) map[string]metaOf {
	m := map[string]metaOf{}
	for _, l := range reg.CertificateLints().Lints() {
		m[l.Name] = metaOf{l.LintMetadata, "cert"}
	}
	for _, l := range reg.RevocationListLints().Lints() {
		m[l.Name] = metaOf{l.LintMetadata, "crl"}
	}
	for _, l := range reg.OcspResponseLints().Lints() {
		m[l.Name] = metaOf{l.LintMetadata, "ocsp"}
	}
	return m
}

func kindNames(reg lint.Registry, kind string) []string {
	switch kind {
	case "cert":
		return reg.CertificateLints().Names()
	case "crl":
		return reg.RevocationListLints().Names()
	}
	return reg.OcspResponseLints().Names()
}

// ---------- loading objects ------------------------------------------------------

func loadObjects() []*Obj {
	certs, crls := loadCorpus()
	var out []*Obj
	for _, c := range certs {
		out = append(out, &Obj{Kind: "cert", Name: c.Name, DER: c.DER, Cert: c.Cert})
	}
	for _, c := range crls {
		out = append(out, &Obj{Kind: "crl", Name: c.Name, DER: c.DER, CRL: c.CRL})
	}
	// the two OCSP test responses (base64 of DER) + kit-built ones
	for _, f := range []string{"ocspThisUpdateAfterProducedAt", "ocspThisUpdateNotAfterProducedAt"} {
		data, err := os.ReadFile(filepath.Join(repoRoot, "v3/testdata", f))
		if err != nil {
			continue
		}
		der, err := decodeB64(strings.TrimSpace(string(data)))
		if err != nil {
			continue
		}
		if o := parseObj("ocsp", f, der); o != nil {
			out = append(out, o)
		}
	}
	out = append(out, kitPolicyQualifierCerts()...)
	for i, d := range []time.Time{time.Date(2012, 1, 1, 0, 0, 0, 0, time.UTC), time.Date(2024, 1, 1, 0, 0, 0, 0, time.UTC)} {
		if _, der, err := buildOCSP(d.Add(-time.Hour), d, d.Add(-2*time.Hour)); err == nil {
			if o := parseObj("ocsp", fmt.Sprintf("kit-ocsp-%d", i), der); o != nil {
				out = append(out, o)
			}
		}
		if _, der, err := buildOCSP(d.Add(-time.Hour), time.Time{}, d.Add(-30*time.Minute)); err == nil {
			if o := parseObj("ocsp", fmt.Sprintf("kit-ocsp-nonext-%d", i), der); o != nil {
				out = append(out, o)
			}
		}
	}
	return out
}

// kitPolicyQualifierCerts: certificates (dated 2024, server-auth) whose certificatePolicies carry policy qualifiers in every
// short order — CPS only, user notice only, notice before CPS, CPS-notice-CPS, none, two policies of different shapes. The parser
// fills one list per qualifier *kind* per policy (QualifierId has an entry per qualifier, CPSuri per CPS qualifier only, …), so
// positions in one list are not positions in another.
func kitPolicyQualifierCerts() []*Obj {
	cps := func(uri string) *Node {
		return cons(0x30, prim(0x06, []byte{0x2b, 0x06, 0x01, 0x05, 0x05, 0x07, 0x02, 0x01}), prim(0x16, []byte(uri)))
	}
	notice := func(text string) *Node {
		return cons(0x30, prim(0x06, []byte{0x2b, 0x06, 0x01, 0x05, 0x05, 0x07, 0x02, 0x02}), cons(0x30, prim(0x0C, []byte(text))))
	}
	policy := func(oid []byte, quals ...*Node) *Node {
		if len(quals) == 0 {
			return cons(0x30, prim(0x06, oid))
		}
		return cons(0x30, prim(0x06, oid), cons(0x30, quals...))
	}
	dv := []byte{0x67, 0x81, 0x0c, 0x01, 0x02, 0x01} // 2.23.140.1.2.1
	own := []byte{0x2a, 0x03, 0x04, 0x05}            // 1.2.3.4.5
	shapes := [][]*Node{
		{policy(dv, cps("https://cps.example.com/"))},
		{policy(dv, notice("notice"))},
		{policy(dv, notice("notice"), cps("https://cps.example.com/"))},
		{policy(dv, cps("https://cps.example.com/"), notice("notice"), cps("ldap://bad.example.com/"))},
		{policy(dv, notice("one"), notice("two"), cps("not a uri"))},
		{policy(dv)},
		{policy(own, notice("n")), policy(dv, cps("https://cps.example.com/"))},
		{policy(dv, cps("https://cps.example.com/")), policy(own, notice("n"), cps("ftp://x.example.com"))},
	}
	var out []*Obj
	for i, sh := range shapes {
		val := cons(0x30, sh...).Encode()
		der, err := BuildCert(CertSpec{DNS: []string{"pq.example.com"}, Subject: pkixName("pq.example.com"), EKUs: []stdx509.ExtKeyUsage{stdx509.ExtKeyUsageServerAuth},
			NotBefore: time.Date(2024, 2, 1, 0, 0, 0, 0, time.UTC), ExtraExt: []pkix.Extension{{Id: asn1.ObjectIdentifier{2, 5, 29, 32}, Value: val}}})
		if err != nil {
			continue
		}
		if o := parseObj("cert", fmt.Sprintf("kit-policy-qualifiers-%d", i), der); o != nil {
			out = append(out, o)
		}
	}
	return out
}

// ---------- mutants ---------------------------------------------------------------

var stringTags = []byte{0x0C, 0x13, 0x16, 0x1E, 0x14, 0x1A, 0x1C, 0x04, 0x03, 0x02, 0x05}

// mutateNode applies one random structural mutation somewhere below n; returns false if nothing applicable.
func mutateNode(n *Node, rng *RNG, depth int) bool {
	if n.Prim || depth > 12 {
		return mutatePrim(n, rng)
	}
	if len(n.Kids) == 0 {
		n.Kids = append(n.Kids, prim(0x0C, []byte("x")))
		return true
	}
	switch rng.Intn(10) {
	case 0: // delete a child
		i := rng.Intn(len(n.Kids))
		n.Kids = append(append([]*Node{}, n.Kids[:i]...), n.Kids[i+1:]...)
		return true
	case 1: // duplicate a child
		i := rng.Intn(len(n.Kids))
		n.Kids = append(n.Kids, n.Kids[i])
		return true
	case 2: // empty the sequence
		n.Kids = nil
		return true
	case 3: // swap two children
		if len(n.Kids) > 1 {
			i, j := rng.Intn(len(n.Kids)), rng.Intn(len(n.Kids))
			n.Kids[i], n.Kids[j] = n.Kids[j], n.Kids[i]
			return true
		}
	case 4: // merge two adjacent constructed children of the same tag into one (two RDNs into a multi-valued one, …)
		if len(n.Kids) > 1 && rng.Intn(3) == 0 {
			i := rng.Intn(len(n.Kids) - 1)
			a, b := n.Kids[i], n.Kids[i+1]
			if !a.Prim && !b.Prim && a.Tag == b.Tag {
				m := &Node{Tag: a.Tag, Kids: append(append([]*Node{}, a.Kids...), b.Kids...)}
				n.Kids = append(append(append([]*Node{}, n.Kids[:i]...), m), n.Kids[i+2:]...)
				return true
			}
		}
	}
	return mutateNode(n.Kids[rng.Intn(len(n.Kids))], rng, depth+1)
}

func mutatePrim(n *Node, rng *RNG) bool {
	if !n.Prim {
		return false
	}
	// OCTET STRING / BIT STRING wrapping DER: recurse into it sometimes
	if (n.Tag == 0x04 || n.Tag == 0x03) && len(n.Content) > 2 && rng.Intn(3) != 0 {
		off := 0
		if n.Tag == 0x03 {
			off = 1
		}
		if inner, rest, err := ParseNode(n.Content[off:]); err == nil && len(rest) == 0 {
			if mutateNode(inner, rng, 0) {
				n.Content = append(append([]byte{}, n.Content[:off]...), inner.Encode()...)
				return true
			}
		}
	}
	switch rng.Intn(9) {
	case 0:
		n.Content = nil
	case 1:
		if len(n.Content) > 0 {
			n.Content = n.Content[:len(n.Content)-1]
		}
	case 2:
		n.Tag = stringTags[rng.Intn(len(stringTags))]
	case 3:
		n.Content = append(n.Content, []byte{0xC2, 0xE2, 0x80, 0xFF, 0x00, 0x7F, 0x2E, 0x2A, 0x40}[rng.Intn(9)])
	case 4:
		if len(n.Content) > 0 {
			n.Content[rng.Intn(len(n.Content))] = byte(rng.Next())
		}
	case 5:
		n.Content = append([]byte{[]byte{0xC2, 0x2E, 0x2A, 0x20, 0x3F, 0x2D, 0x78}[rng.Intn(7)]}, n.Content...)
	case 6:
		n.Content = []byte{byte(rng.Next())}
	case 7:
		n.Content = bytes.Repeat([]byte{byte('a' + rng.Intn(26))}, 1+rng.Intn(70))
	case 8:
		if len(n.Content) > 1 {
			n.Content = n.Content[1:]
		}
	}
	return true
}

// spoilValue replaces the value of the (first) attribute below an RDN copy by something a guard may not expect.
func spoilValue(n *Node, rng *RNG) {
	if n.Prim {
		vals := [][]byte{nil, []byte("12345678"), []byte("x"), []byte(" "), []byte("ntrgb-1"), []byte("NTRXX-1"), []byte("A"), []byte("\xc2"), []byte("a.b"), []byte("LEIXG-1"), []byte("PSDDE-BAFIN-1"), []byte("VATDE+BY-1")}
		if n.Tag != 0x06 { // keep the attribute type
			n.Content = append([]byte{}, vals[rng.Intn(len(vals))]...)
		}
		return
	}
	for _, k := range n.Kids {
		spoilValue(k, rng)
	}
}

// mutants returns up to n parseable mutants of o.
func mutants(o *Obj, rng *RNG, n int, rep *Report) []*Obj {
	var out []*Obj
	tries := 0
	for len(out) < n && tries < n*6 {
		tries++
		var der []byte
		mode := rng.Intn(10)
		if mode < 3 {
			// plain byte flip
			der = append([]byte{}, o.DER...)
			if len(der) == 0 {
				continue
			}
			der[rng.Intn(len(der))] = byte(rng.Next())
			rep.count("mutant:byteflip-tried")
		} else {
			root, rest, err := ParseNode(o.DER)
			if err != nil || len(rest) != 0 || len(root.Kids) == 0 {
				continue
			}
			// one to three edits per mutant, each aimed inside an extension value (mostly), at the subject name
			// (duplicate an attribute, then spoil the copy: the shape guards like "every organizationIdentifier
			// matches" have to survive), at a CRL entry, or anywhere below the to-be-signed part
			tbs := root.Kids[0]
			steps := []int{1, 1, 1, 2, 2, 3}[rng.Intn(6)]
			changed := false
			for st := 0; st < steps; st++ {
				target := tbs
				where := rng.Intn(20)
				if o.Kind == "cert" && where < 13 {
					for _, k := range tbs.Kids {
						if k.Tag == 0xA3 && len(k.Kids) == 1 && len(k.Kids[0].Kids) > 0 {
							exts := k.Kids[0]
							ext := exts.Kids[rng.Intn(len(exts.Kids))]
							if len(ext.Kids) > 0 {
								target = ext.Kids[len(ext.Kids)-1] // extnValue
							}
						}
					}
				} else if o.Kind == "cert" && where < 17 {
					// the subject: first SEQUENCE after validity (index 5 with an explicit version, 4 without)
					off := 0
					if len(tbs.Kids) > 0 && tbs.Kids[0].Tag == 0xA0 {
						off = 1
					}
					if len(tbs.Kids) > 4+off {
						target = tbs.Kids[4+off]
						if len(target.Kids) > 1 && rng.Intn(4) == 0 {
							// merge two RDNs into one multi-valued RDN; half the time the issuer becomes the same name
							// (a name that occurs in both roles of one object)
							i := rng.Intn(len(target.Kids) - 1)
							if !target.Kids[i].Prim && !target.Kids[i+1].Prim {
								merged := &Node{Tag: target.Kids[i].Tag, Kids: append(append([]*Node{}, target.Kids[i].Kids...), target.Kids[i+1].Kids...)}
								target.Kids = append(append(append([]*Node{}, target.Kids[:i]...), merged), target.Kids[i+2:]...)
								if rng.Intn(2) == 0 && len(tbs.Kids) > 2+off {
									tbs.Kids[2+off] = target
								}
								changed = true
								rep.count("mutant:merged-rdn")
								continue
							}
						}
						if len(target.Kids) > 0 && rng.Intn(2) == 0 {
							// duplicate one RDN and spoil the value of the copy
							i := rng.Intn(len(target.Kids))
							raw := target.Kids[i].Encode()
							if cp, _, err := ParseNode(raw); err == nil {
								spoilValue(cp, rng)
								target.Kids = append(target.Kids, cp)
								changed = true
								continue
							}
						}
					}
				}
				if mutateNode(target, rng, 0) {
					changed = true
				}
			}
			if !changed {
				continue
			}
			der = root.Encode()
			rep.count("mutant:structural-tried")
		}
		m := parseObj(o.Kind, o.Name+"~m", der)
		if m == nil {
			rep.count("mutant:rejected-by-parser")
			continue
		}
		rep.count("mutant:accepted")
		out = append(out, m)
	}
	return out
}

// ---------- oracles -----------------------------------------------------------------

const panicMarker = "panicked. Error:"

type sweepState struct {
	rep      *Report
	props    map[string]bool
	metas    map[string]metaOf
	observed map[string]map[int]bool // lint -> statuses seen
	global   lint.Registry
}

func replayOf(o *Obj, extra map[string]interface{}) map[string]interface{} {
	m := map[string]interface{}{"kind": o.Kind, "object": o.Name, "der_hex": hex.EncodeToString(o.DER)}
	for k, v := range extra {
		m[k] = v
	}
	return m
}

func (s *sweepState) checkC01(o *Obj, reg lint.Registry, rs *zlint.ResultSet, pmsg string, regDesc string) {
	if s.props["C01"] && strings.HasPrefix(pmsg, hangMarker) {
		s.rep.violate(Violation{"C01", fmt.Sprintf("linting %s (%s, registry %s) does not return: %s", o.Name, o.Kind, regDesc, pmsg), "hang:" + o.Kind, replayOf(o, map[string]interface{}{"registry": regDesc})})
		return
	}
	if !s.props["C01"] {
		return
	}
	if pmsg != "" {
		s.rep.violate(Violation{"C01", fmt.Sprintf("linting %s %s panicked out of the entry point: %s", o.Kind, o.Name, pmsg), "panic:" + o.Kind, replayOf(o, map[string]interface{}{"registry": regDesc, "panic": pmsg})})
		return
	}
	if rs == nil {
		s.rep.violate(Violation{"C01", "nil result set for " + o.Name, "nil-resultset", replayOf(o, nil)})
		return
	}
	names := kindNames(reg, o.Kind)
	bad := func(what, key string) {
		s.rep.violate(Violation{"C01", fmt.Sprintf("%s (%s %s, registry %s)", what, o.Kind, o.Name, regDesc), key, replayOf(o, map[string]interface{}{"registry": regDesc})})
	}
	if len(rs.Results) != len(names) {
		bad(fmt.Sprintf("result set has %d results for %d lints of the kind", len(rs.Results), len(names)), "result-count")
	}
	metas := registryMetas(reg)
	var n, w, e, f bool
	for _, name := range names {
		r, ok := rs.Results[name]
		if !ok {
			bad("no result for lint "+name, "missing:"+name)
			continue
		}
		if r == nil {
			bad("nil result for lint "+name, "nil:"+name)
			continue
		}
		if r.LintMetadata != metas[name].md {
			bad("result of "+name+" does not carry the lint's metadata", "metadata:"+name)
		}
		if r.Status < lint.NA || r.Status > lint.Fatal {
			bad(fmt.Sprintf("lint %s returned undefined status %d", name, int(r.Status)), fmt.Sprintf("status:%s:%d", name, int(r.Status)))
		}
		switch r.Status {
		case lint.Notice:
			n = true
		case lint.Warn:
			w = true
		case lint.Error:
			e = true
		case lint.Fatal:
			f = true
		}
	}
	for name := range rs.Results {
		if _, ok := metas[name]; !ok || metas[name].kind != o.Kind {
			bad("result for "+name+" which is not a lint of this kind in the registry", "extra:"+name)
		}
	}
	if rs.NoticesPresent != n || rs.WarningsPresent != w || rs.ErrorsPresent != e || rs.FatalsPresent != f {
		bad(fmt.Sprintf("presence flags (n=%v w=%v e=%v f=%v) do not match contents (n=%v w=%v e=%v f=%v)", rs.NoticesPresent, rs.WarningsPresent, rs.ErrorsPresent, rs.FatalsPresent, n, w, e, f), "flags")
	}
	if rs.Version != zlint.Version || rs.Version != 3 {
		bad(fmt.Sprintf("version %d", rs.Version), "version")
	}
}

func (s *sweepState) checkC02(o *Obj, rs *zlint.ResultSet, pmsg string) {
	if !s.props["C02"] {
		return
	}
	if pmsg != "" && o.Kind != "cert" && !strings.HasPrefix(pmsg, hangMarker) {
		s.rep.violate(Violation{"C02", fmt.Sprintf("%s linting of %s panicked: %s", o.Kind, o.Name, pmsg), "panic:" + o.Kind + ":" + firstLine(pmsg), replayOf(o, map[string]interface{}{"panic": pmsg})})
	}
	if rs == nil {
		return
	}
	for name, r := range rs.Results {
		if r != nil && r.Status == lint.Fatal && strings.Contains(r.Details, panicMarker) {
			s.rep.violate(Violation{"C02", fmt.Sprintf("lint %s panicked on %s: %s", name, o.Name, r.Details), "recovered:" + name, replayOf(o, map[string]interface{}{"lint": name, "details": r.Details})})
		}
	}
}

func firstLine(s string) string {
	if i := strings.IndexByte(s, '\n'); i >= 0 {
		s = s[:i]
	}
	if len(s) > 80 {
		s = s[:80]
	}
	return s
}

func prefixAllows(name string, st lint.LintStatus) bool {
	switch {
	case strings.HasPrefix(name, "e_"):
		return st != lint.Warn && st != lint.Notice
	case strings.HasPrefix(name, "w_"):
		return st != lint.Error && st != lint.Notice
	case strings.HasPrefix(name, "n_"):
		return st != lint.Warn && st != lint.Error
	}
	return false
}

func (s *sweepState) checkC06(o *Obj, rs *zlint.ResultSet) {
	if rs == nil {
		return
	}
	for name, r := range rs.Results {
		if r == nil {
			continue
		}
		if s.observed[name] == nil {
			s.observed[name] = map[int]bool{}
		}
		s.observed[name][int(r.Status)] = true
		if s.props["C06"] && !prefixAllows(name, r.Status) {
			s.rep.violate(Violation{"C06", fmt.Sprintf("lint %s reported %s on %s", name, r.Status.String(), o.Name), fmt.Sprintf("severity:%s:%s", name, r.Status.String()), replayOf(o, map[string]interface{}{"lint": name, "status": r.Status.String()})})
		}
	}
}

// direct expectation for one lint on one object: what the framework must report (C04)
func directExpect(o *Obj, name string, g lint.Registry) (st lint.LintStatus, details string, ran bool, panicked bool) {
	defer func() {
		if e := recover(); e != nil {
			panicked = true
		}
	}()
	cfg := g.GetConfiguration()
	switch o.Kind {
	case "cert":
		l := g.CertificateLints().ByName(name)
		c := o.Cert
		if (l.Source == lint.CABFBaselineRequirements && !util.IsServerAuthCert(c)) ||
			(l.Source == lint.CABFSMIMEBaselineRequirements && !util.IsEmailProtectionCert(c)) ||
			(l.Source == lint.CABFCSBaselineRequirements && !util.IsCodeSigning(c.PolicyIdentifiers)) {
			return lint.NA, "", false, false
		}
		inst := l.Lint()
		if err := cfg.MaybeConfigure(inst, name); err != nil {
			return lint.Fatal, err.Error(), false, false
		}
		if !inst.CheckApplies(c) {
			return lint.NA, "", false, false
		}
		if !lint.VerifCheckEffective(l.EffectiveDate, l.IneffectiveDate, c.NotBefore) {
			return lint.NE, "", false, false
		}
		r := inst.Execute(c)
		return r.Status, r.Details, true, false
	case "crl":
		l := g.RevocationListLints().ByName(name)
		inst := l.Lint()
		if err := cfg.MaybeConfigure(inst, name); err != nil {
			return lint.Fatal, err.Error(), false, false
		}
		if !inst.CheckApplies(o.CRL) {
			return lint.NA, "", false, false
		}
		if !lint.VerifCheckEffective(l.EffectiveDate, l.IneffectiveDate, o.CRL.ThisUpdate) {
			return lint.NE, "", false, false
		}
		r := inst.Execute(o.CRL)
		return r.Status, r.Details, true, false
	default:
		l := g.OcspResponseLints().ByName(name)
		inst := l.Lint()
		if err := cfg.MaybeConfigure(inst, name); err != nil {
			return lint.Fatal, err.Error(), false, false
		}
		if !inst.CheckApplies(o.OCSP) {
			return lint.NA, "", false, false
		}
		if !lint.VerifCheckEffective(l.EffectiveDate, l.IneffectiveDate, o.OCSP.NextUpdate) {
			return lint.NE, "", false, false
		}
		r := inst.Execute(o.OCSP)
		return r.Status, r.Details, true, false
	}
}

func (s *sweepState) checkC04(o *Obj, rs *zlint.ResultSet) {
	if !s.props["C04"] || rs == nil {
		return
	}
	fresh := o.reparse() // direct calls on an identical, separately parsed object
	if fresh == nil {
		return
	}
	for _, name := range kindNames(s.global, o.Kind) {
		r := rs.Results[name]
		if r == nil {
			continue
		}
		st, det, _, pan := directExpect(fresh, name, s.global)
		if pan {
			if r.Status != lint.Fatal || !strings.Contains(r.Details, panicMarker) {
				s.rep.violate(Violation{"C04", fmt.Sprintf("lint %s panics when called directly on %s but the framework reported %s", name, o.Name, r.Status), "direct-panic:" + name, replayOf(o, map[string]interface{}{"lint": name})})
			}
			continue
		}
		if r.Status != st || r.Details != det {
			s.rep.violate(Violation{"C04", fmt.Sprintf("lint %s on %s: framework reported %s %q, the rule on a fresh configured instance gives %s %q", name, o.Name, r.Status, r.Details, st, det),
				"verdict:" + name, replayOf(o, map[string]interface{}{"lint": name, "framework": r.Status.String(), "direct": st.String()})})
		}
	}
}

// ---------- deep snapshot of exported fields (C05) ---------------------------------

func deepHash(h hash.Hash, v reflect.Value, depth int) {
	if depth > 12 {
		return
	}
	if !v.IsValid() {
		h.Write([]byte{0})
		return
	}
	switch x := safeInterface(v).(type) {
	case *big.Int:
		if x == nil {
			h.Write([]byte("nilbig"))
		} else {
			h.Write([]byte(x.String()))
		}
		return
	case time.Time:
		fmt.Fprintf(h, "%d/%s", x.UnixNano(), x.Location().String())
		return
	case net.IP:
		h.Write(x)
		h.Write([]byte{byte(len(x))})
		return
	case *url.URL:
		if x != nil {
			h.Write([]byte(x.String()))
		}
		return
	}
	switch v.Kind() {
	case reflect.Ptr, reflect.Interface:
		if v.IsNil() {
			h.Write([]byte{1})
			return
		}
		deepHash(h, v.Elem(), depth+1)
	case reflect.Struct:
		t := v.Type()
		for i := 0; i < v.NumField(); i++ {
			if t.Field(i).PkgPath != "" { // unexported
				continue
			}
			h.Write([]byte(t.Field(i).Name))
			deepHash(h, v.Field(i), depth+1)
		}
	case reflect.Slice, reflect.Array:
		if v.Kind() == reflect.Slice && v.IsNil() {
			h.Write([]byte{2})
			return
		}
		fmt.Fprintf(h, "[%d]", v.Len())
		if v.Kind() == reflect.Slice && v.Type().Elem().Kind() == reflect.Uint8 {
			h.Write(v.Bytes())
			return
		}
		for i := 0; i < v.Len(); i++ {
			deepHash(h, v.Index(i), depth+1)
		}
	case reflect.Map:
		if v.IsNil() {
			h.Write([]byte{3})
			return
		}
		var keys []string
		vals := map[string]reflect.Value{}
		for _, k := range v.MapKeys() {
			ks := fmt.Sprint(safeInterface(k))
			keys = append(keys, ks)
			vals[ks] = v.MapIndex(k)
		}
		sort.Strings(keys)
		for _, k := range keys {
			h.Write([]byte(k))
			deepHash(h, vals[k], depth+1)
		}
	case reflect.String:
		fmt.Fprintf(h, "%d:", v.Len())
		h.Write([]byte(v.String()))
	case reflect.Bool:
		if v.Bool() {
			h.Write([]byte{4})
		} else {
			h.Write([]byte{5})
		}
	case reflect.Int, reflect.Int8, reflect.Int16, reflect.Int32, reflect.Int64:
		fmt.Fprintf(h, "%d;", v.Int())
	case reflect.Uint, reflect.Uint8, reflect.Uint16, reflect.Uint32, reflect.Uint64, reflect.Uintptr:
		fmt.Fprintf(h, "%d;", v.Uint())
	case reflect.Float32, reflect.Float64:
		fmt.Fprintf(h, "%v;", v.Float())
	case reflect.Func, reflect.Chan, reflect.UnsafePointer:
		// not part of the observable content
	}
}

func safeInterface(v reflect.Value) interface{} {
	if !v.IsValid() || !v.CanInterface() {
		return nil
	}
	return v.Interface()
}

func snapshot(o *Obj) string {
	h := sha256.New()
	switch o.Kind {
	case "cert":
		deepHash(h, reflect.ValueOf(o.Cert), 0)
	case "crl":
		deepHash(h, reflect.ValueOf(o.CRL), 0)
	case "ocsp":
		deepHash(h, reflect.ValueOf(o.OCSP), 0)
	}
	return hex.EncodeToString(h.Sum(nil))
}

// fieldDiff names the exported top-level fields whose content differs between two objects of the same kind.
func fieldDiff(a, b *Obj) []string {
	var va, vb reflect.Value
	switch a.Kind {
	case "cert":
		va, vb = reflect.ValueOf(a.Cert).Elem(), reflect.ValueOf(b.Cert).Elem()
	case "crl":
		va, vb = reflect.ValueOf(a.CRL).Elem(), reflect.ValueOf(b.CRL).Elem()
	default:
		va, vb = reflect.ValueOf(a.OCSP).Elem(), reflect.ValueOf(b.OCSP).Elem()
	}
	var out []string
	t := va.Type()
	for i := 0; i < va.NumField(); i++ {
		if t.Field(i).PkgPath != "" {
			continue
		}
		h1, h2 := sha256.New(), sha256.New()
		deepHash(h1, va.Field(i), 0)
		deepHash(h2, vb.Field(i), 0)
		if !bytes.Equal(h1.Sum(nil), h2.Sum(nil)) {
			out = append(out, t.Field(i).Name)
		}
	}
	return out
}

func sameResults(a, b *zlint.ResultSet) (string, bool) {
	if a == nil || b == nil {
		if a == nil && b == nil {
			return "", true
		}
		return "one run returned nil", false
	}
	for name, ra := range a.Results {
		rb := b.Results[name]
		if ra == nil || rb == nil {
			if ra != rb {
				return name + ": nil vs non-nil", false
			}
			continue
		}
		if ra.Status != rb.Status {
			return fmt.Sprintf("%s: status %s vs %s", name, ra.Status, rb.Status), false
		}
		if ra.Details != rb.Details {
			return fmt.Sprintf("%s: details %q vs %q", name, ra.Details, rb.Details), false
		}
	}
	if len(a.Results) != len(b.Results) {
		return "different number of results", false
	}
	return "", true
}

func lintNameOf(diff string) string {
	if i := strings.Index(diff, ":"); i > 0 {
		return diff[:i]
	}
	return diff
}

// ---------- the sweep -----------------------------------------------------------------

func init() {
	subs["sweep"] = subSweep
}

// subSweep: -arg is a comma list of the properties whose oracles to evaluate (C01,C02,C04,C06).
func subSweep(out string, seed uint64, tier string, arg string) {
	rng := NewRNG(seed)
	rep := newReport("sweep:"+arg, seed, tier)
	rep.Rule = "every object of /repo/v3/testdata (certificates, CRLs, OCSP responses) plus parser-accepted mutants (byte flips and structural edits inside extensions) through Lint*Ex with the global registry; distinct = distinct DER inputs; non-trivial = accepted by the parser"
	props := map[string]bool{}
	focus := ""
	if i := strings.IndexByte(arg, '@'); i >= 0 {
		// "C02@lintA,lintB": only these lints, with a ten-fold mutation budget (used when a proof obligation about them broke)
		focus, arg = arg[i+1:], arg[:i]
	}
	for _, p := range strings.Split(arg, ",") {
		props[strings.TrimSpace(p)] = true
	}
	g := lint.GlobalRegistry()
	if focus != "" {
		var names []string
		known := map[string]bool{}
		for _, n := range g.Names() {
			known[n] = true
		}
		for _, n := range strings.Split(focus, ",") {
			if known[n] {
				names = append(names, n)
			}
		}
		if fr, err := g.Filter(lint.FilterOptions{IncludeNames: names}); err == nil && len(names) > 0 {
			g = fr
			rep.Rule += "; FOCUSED on lints " + strings.Join(names, ",")
		} else {
			focus = ""
		}
	}
	st := &sweepState{rep: rep, props: props, metas: registryMetas(g), observed: map[string]map[int]bool{}, global: g}
	objs := loadObjects()
	perObj := 24
	if tier == "thorough" {
		perObj = 240
	}
	if props["C04"] && !props["C01"] && !props["C02"] {
		perObj = perObj / 3
	}
	if focus != "" {
		perObj *= 10
	}
	filteredRegs := []struct {
		desc string
		reg  lint.Registry
	}{}
	if props["C01"] {
		for _, fo := range []lint.FilterOptions{
			{IncludeSources: lint.SourceList{lint.RFC5280}},
			{ExcludeSources: lint.SourceList{lint.CABFBaselineRequirements, lint.Community}},
			{IncludeNames: []string{"e_dnsname_not_valid_tld", "w_ext_subject_key_identifier_missing_sub_cert", "e_crl_has_next_update"}},
		} {
			if r, err := g.Filter(fo); err == nil {
				filteredRegs = append(filteredRegs, struct {
					desc string
					reg  lint.Registry
				}{fmt.Sprintf("%+v", fo), r})
			}
		}
	}
	// One job per seed object: the object and its mutants, generated from an RNG derived from (seed, index), so the
	// set of inputs does not depend on scheduling; every job writes into its own report, merged in index order.
	process := func(lst *sweepState, o *Obj) {
		lr := lst.rep
		lr.Evaluations++
		lr.distinctKey(string(sha256Sum(o.DER)))
		lr.count("kind:" + o.Kind)
		rs, pmsg := lintObj(o, g)
		lst.checkC01(o, g, rs, pmsg, "global")
		lst.checkC02(o, rs, pmsg)
		lst.checkAssumptions(o)
		lst.checkC06(o, rs)
		lst.checkC04(o, rs)
		if rs != nil {
			for _, r := range rs.Results {
				if r != nil {
					lr.count("status:" + r.Status.String())
				}
			}
		}
		for _, fr := range filteredRegs {
			rs2, p2 := lintObj(o, fr.reg)
			lst.checkC01(o, fr.reg, rs2, p2, fr.desc)
		}
		// the other public entry points: the functions without "Ex" and "Ex" with a nil registry all mean the global registry
		if lst.props["C01"] && rs != nil && lr.Evaluations%4 == 0 {
			for _, ep := range []string{"plain", "nil-registry"} {
				rsE, pE := lintEntry(o, ep)
				if pE != "" || rsE == nil {
					lr.violate(Violation{"C01", fmt.Sprintf("entry point %s panics or returns nothing on %s, which LintXEx(obj, GlobalRegistry()) lints: %s", ep, o.Name, firstLine(pE)), "entry:" + ep, replayOf(o, nil)})
					continue
				}
				if d, ok := sameResults(rs, rsE); !ok {
					lr.violate(Violation{"C01", fmt.Sprintf("entry point %s and LintXEx(obj, GlobalRegistry()) disagree on %s: %s", ep, o.Name, d), "entry:" + ep, replayOf(o, map[string]interface{}{"diff": d})})
				}
			}
		}
	}
	type jobResult struct {
		rep      *Report
		observed map[string]map[int]bool
	}
	results := make([]*jobResult, len(objs))
	jobs := make(chan int)
	var wg sync.WaitGroup
	workers := runtime.GOMAXPROCS(0)
	if workers > 16 {
		workers = 16
	}
	for w := 0; w < workers; w++ {
		wg.Add(1)
		go func() {
			defer wg.Done()
			for idx := range jobs {
				o := objs[idx]
				lr := newReport(rep.Sub, seed, tier)
				lst := &sweepState{rep: lr, props: props, metas: st.metas, observed: map[string]map[int]bool{}, global: g}
				jr := NewRNG(seed*1000003 + uint64(idx) + 1)
				process(lst, o)
				n := perObj
				if o.Kind != "cert" {
					n = perObj * 8 // few CRL / OCSP seeds: mutate them harder
				}
				for _, m := range mutants(o, jr, n, lr) {
					process(lst, m)
				}
				results[idx] = &jobResult{lr, lst.observed}
			}
		}()
	}
	for i := range objs {
		jobs <- i
	}
	close(jobs)
	wg.Wait()
	_ = rng
	for i, r := range results {
		if r == nil {
			continue
		}
		rep.Evaluations += r.rep.Evaluations
		for k := range r.rep.distinct {
			rep.distinct[k] = true
		}
		for k, v := range r.rep.Dist {
			if !strings.HasPrefix(k, "viol:") {
				rep.Dist[k] += v
			}
		}
		for _, v := range r.rep.Violations {
			rep.violate(v)
			k := "viol:" + v.Property + "|" + v.Key
			if extra := r.rep.Dist[k] - 1; extra > 0 {
				rep.Dist[k] += extra
			}
		}
		for k, v := range r.observed {
			if st.observed[k] == nil {
				st.observed[k] = map[int]bool{}
			}
			for s := range v {
				st.observed[k][s] = true
			}
		}
		if i < 5 {
			rep.sample(map[string]interface{}{"object": objs[i].Name, "kind": objs[i].Kind, "der_len": len(objs[i].DER)})
		}
	}
	obs := map[string][]int{}
	for k, v := range st.observed {
		for s := range v {
			obs[k] = append(obs[k], s)
		}
		sort.Ints(obs[k])
	}
	rep.Extra["observed_statuses"] = obs
	rep.write(filepath.Join(out, "report.json"))
}

func sha256Sum(b []byte) []byte {
	h := sha256.Sum256(b)
	return h[:]
}
