package main

import (
	"crypto/ecdsa"
	"crypto/elliptic"
	"crypto/rand"
	"crypto/rsa"
	"crypto/sha256"
	stdx509 "crypto/x509"
	"crypto/x509/pkix"
	"encoding/asn1"
	"encoding/json"
	"fmt"
	"os"
	"path/filepath"
	"regexp"
	"sort"
	"strings"
	"time"

	zlint "github.com/zmap/zlint/v3"
	"github.com/zmap/zlint/v3/lint"
)

func init() {
	subs["c07"] = subC07
	subs["c05"] = subC05
	subs["c09"] = subC09
	subs["c03"] = subC03
}

// randomFilter draws FilterOptions that are valid for the global registry.
func randomFilter(rng *RNG, names []string, sources []lint.LintSource) lint.FilterOptions {
	var fo lint.FilterOptions
	pick := func(n int) []string {
		var l []string
		for i := 0; i < n; i++ {
			l = append(l, names[rng.Intn(len(names))])
		}
		return l
	}
	switch rng.Intn(6) {
	case 0:
		fo.IncludeNames = pick(1 + rng.Intn(5))
	case 1:
		fo.ExcludeNames = pick(1 + rng.Intn(40))
	case 2:
		fo.IncludeSources = lint.SourceList{sources[rng.Intn(len(sources))]}
		if rng.Bool() {
			fo.IncludeSources = append(fo.IncludeSources, sources[rng.Intn(len(sources))])
		}
	case 3:
		fo.ExcludeSources = lint.SourceList{sources[rng.Intn(len(sources))], sources[rng.Intn(len(sources))]}
		fo.IncludeNames = pick(rng.Intn(30))
	case 4:
		fo.NameFilter = regexp.MustCompile(regexPool[rng.Intn(len(regexPool))])
	case 5:
		fo.IncludeNames = pick(1) // singleton registries
	}
	return fo
}

func describeFilter(fo lint.FilterOptions) string {
	nf := ""
	if fo.NameFilter != nil {
		nf = fo.NameFilter.String()
	}
	return fmt.Sprintf("in=%v ex=%v is=%v xs=%v nf=%q", fo.IncludeNames, fo.ExcludeNames, fo.IncludeSources, fo.ExcludeSources, nf)
}

// subC07: a filtered run is the restriction of the full run.
func subC07(out string, seed uint64, tier string, arg string) {
	rng := NewRNG(seed)
	rep := newReport("c07", seed, tier)
	rep.Rule = "corpus objects (and parser-accepted mutants) linted with the full registry and with registries filtered by random valid FilterOptions (incl. singleton registries), each run on a freshly parsed copy; distinct = (object, options) pairs; non-trivial = the filtered registry has at least one lint of the object's kind"
	g := lint.GlobalRegistry()
	names := g.Names()
	sources := []lint.LintSource(g.Sources())
	sort.Slice(sources, func(i, j int) bool { return sources[i] < sources[j] })
	objs := loadObjects()
	perObj := 3
	nobj := 300
	if tier == "thorough" {
		perObj, nobj = 40, len(objs)
	}
	// singleton registry for every lint, tried on a rotating slice of objects
	for i := 0; i < nobj && i < len(objs); i++ {
		o := objs[(i*13+int(seed))%len(objs)]
		variants := []*Obj{o}
		variants = append(variants, mutants(o, rng, 1, rep)...)
		for _, v := range variants {
			full := v.reparse()
			if full == nil {
				continue
			}
			rsFull, pFull := lintObj(full, g)
			for j := 0; j < perObj; j++ {
				fo := randomFilter(rng, names, sources)
				freg, err := g.Filter(fo)
				if err != nil {
					continue
				}
				cp := v.reparse()
				rsF, pF := lintObj(cp, freg)
				rep.Evaluations++
				if len(kindNames(freg, v.Kind)) > 0 {
					rep.distinctKey(fmt.Sprintf("%x|%s", sha256.Sum256(v.DER), describeFilter(fo)))
				}
				if pFull != "" || pF != "" {
					if (pFull == "") != (pF == "") && pF != "" {
						rep.violate(Violation{"C07", fmt.Sprintf("filtered run panics (%s) where the full run does not, on %s", pF, v.Name), "panic-filtered", replayOf(v, map[string]interface{}{"filter": describeFilter(fo)})})
					}
					continue
				}
				sel := map[string]bool{}
				for _, n := range kindNames(freg, v.Kind) {
					sel[n] = true
				}
				for n, r := range rsF.Results {
					if !sel[n] {
						rep.violate(Violation{"C07", "filtered run reports unselected lint " + n, "unselected:" + n, replayOf(v, map[string]interface{}{"filter": describeFilter(fo)})})
						continue
					}
					fr := rsFull.Results[n]
					if fr == nil || r == nil {
						continue
					}
					if fr.Status != r.Status || fr.Details != r.Details {
						rep.violate(Violation{"C07", fmt.Sprintf("lint %s on %s: %s %q with the filtered registry, %s %q with the full registry", n, v.Name, r.Status, r.Details, fr.Status, fr.Details),
							"differs:" + n, replayOf(v, map[string]interface{}{"filter": describeFilter(fo), "lint": n})})
					}
				}
				if len(rsF.Results) != len(sel) {
					rep.violate(Violation{"C07", fmt.Sprintf("filtered run has %d results for %d selected lints", len(rsF.Results), len(sel)), "count", replayOf(v, map[string]interface{}{"filter": describeFilter(fo)})})
				}
				if (rsF.NoticesPresent && !rsFull.NoticesPresent) || (rsF.WarningsPresent && !rsFull.WarningsPresent) || (rsF.ErrorsPresent && !rsFull.ErrorsPresent) || (rsF.FatalsPresent && !rsFull.FatalsPresent) {
					rep.violate(Violation{"C07", "a presence flag raised by the filtered run is not raised by the full run on " + v.Name, "flags", replayOf(v, map[string]interface{}{"filter": describeFilter(fo)})})
				}
			}
		}
		rep.sample(map[string]interface{}{"object": o.Name})
	}
	// every lint alone vs. in the full registry, on objects where it yields a judgement
	if tier == "thorough" || true {
		step := 9
		if tier == "thorough" {
			step = 1
		}
		for li := int(seed) % step; li < len(names); li += step {
			n := names[li]
			freg, err := g.Filter(lint.FilterOptions{IncludeNames: []string{n}})
			if err != nil {
				continue
			}
			cnt := 0
			for oi := 0; oi < len(objs) && cnt < 25; oi++ {
				o := objs[(oi*7+li)%len(objs)]
				if len(kindNames(freg, o.Kind)) == 0 {
					continue
				}
				a, b := o.reparse(), o.reparse()
				rsFull, p1 := lintObj(a, g)
				rsOne, p2 := lintObj(b, freg)
				if p1 != "" || p2 != "" || rsFull.Results[n] == nil || rsOne.Results[n] == nil {
					continue
				}
				cnt++
				rep.Evaluations++
				rep.distinctKey("single|" + n + "|" + o.Name)
				if rsFull.Results[n].Status != rsOne.Results[n].Status || rsFull.Results[n].Details != rsOne.Results[n].Details {
					rep.violate(Violation{"C07", fmt.Sprintf("lint %s on %s: %s %q alone, %s %q in the full registry", n, o.Name, rsOne.Results[n].Status, rsOne.Results[n].Details, rsFull.Results[n].Status, rsFull.Results[n].Details),
						"differs:" + n, replayOf(o, map[string]interface{}{"lint": n})})
				}
			}
		}
	}
	rep.write(filepath.Join(out, "report.json"))
}

// subC05: determinism, history independence, read-only.
func subC05(out string, seed uint64, tier string, arg string) {
	rng := NewRNG(seed)
	rep := newReport("c05", seed, tier)
	rep.Rule = "each corpus object (plus mutants): snapshot of all exported fields before/after linting; 3 repetitions on the same object; a run on a freshly parsed copy after an intervening history of other objects / registries / configurations; statuses and details compared; distinct = distinct DER inputs"
	g := lint.GlobalRegistry()
	objs := loadObjects()
	names := g.Names()
	sources := []lint.LintSource(g.Sources())
	nobj, perObj := 400, 1
	if tier == "thorough" {
		nobj, perObj = len(objs), 6
	}
	cfgAlt, _ := lint.NewConfigFromString("[e_rsa_fermat_factorization]\nRounds = 3\n[e_subj_contains_html_entities]\n")
	// targeted histories first: caches keyed by TLD / key material must still be cold
	targetedHistories(rep, rng, g, tier)
	sharedBufferHistories(rep, rng, g, objs, tier)
	zoneBoundarySearch(rep, rng, g, objs, tier)
	// every corpus object once, whatever the sample below picks: exported fields (followed through pointers and interfaces:
	// key material, big integers) before and after one run, and a second run on the same parsed object
	for _, o := range objs {
		a := o.reparse()
		if a == nil {
			continue
		}
		before := snapshot(a)
		rs1, p1 := lintObj(a, g)
		if after := snapshot(a); before != after {
			fields := fieldDiff(a, o.reparse())
			rep.violate(Violation{"C05", fmt.Sprintf("linting changed exported fields %v of %s", fields, o.Name), "mutated:" + strings.Join(fields, ","), replayOf(o, map[string]interface{}{"fields": fields})})
		}
		if p1 != "" {
			continue
		}
		if rs2, p2 := lintObj(a, g); p2 == "" {
			if d, ok := sameResults(rs1, rs2); !ok {
				rep.violate(Violation{"C05", fmt.Sprintf("linting the same parsed %s twice gives a different result: %s", o.Name, d), "repeat:" + lintNameOf(d), replayOf(o, map[string]interface{}{"diff": d})})
			}
		}
		rep.count("all-objects-pass")
	}
	var history []*Obj
	for i := 0; i < nobj && i < len(objs); i++ {
		o := objs[(i*11+int(seed))%len(objs)]
		variants := append([]*Obj{o}, mutants(o, rng, perObj, rep)...)
		for _, v := range variants {
			a := v.reparse()
			if a == nil {
				continue
			}
			rep.Evaluations++
			rep.distinctKey(string(sha256Sum(v.DER)))
			before := snapshot(a)
			pristine := v.reparse()
			rs1, p1 := lintObj(a, g)
			after := snapshot(a)
			if before != after {
				fields := fieldDiff(a, pristine)
				rep.violate(Violation{"C05", fmt.Sprintf("linting changed exported fields %v of %s", fields, v.Name), "mutated:" + strings.Join(fields, ","), replayOf(v, map[string]interface{}{"fields": fields})})
			}
			if p1 != "" {
				continue
			}
			// repetitions on the same object
			for k := 0; k < 2; k++ {
				rs2, p2 := lintObj(a, g)
				if p2 != "" {
					break
				}
				if d, ok := sameResults(rs1, rs2); !ok {
					rep.violate(Violation{"C05", fmt.Sprintf("repeating the lint of %s gives a different result: %s", v.Name, d), "repeat:" + lintNameOf(d), replayOf(v, map[string]interface{}{"diff": d})})
					break
				}
			}
			// the process's local time zone is part of the environment: the answer must not depend on it
			if rep.Evaluations%3 == 0 {
				savedLocal := time.Local
				for _, z := range []*time.Location{time.FixedZone("west", -11*3600), time.FixedZone("east", 13*3600+45*60)} {
					time.Local = z
					c := v.reparse()
					if c == nil {
						continue
					}
					rsZ, pZ := lintObj(c, g)
					if pZ == "" && rsZ != nil {
						if d, ok := sameResults(rs1, rsZ); !ok {
							rep.violate(Violation{"C05", fmt.Sprintf("linting %s with the process's local time zone set to %s gives a different result: %s", v.Name, z, d), "timezone:" + lintNameOf(d), replayOf(v, map[string]interface{}{"diff": d, "zone": z.String()})})
						}
					}
				}
				time.Local = savedLocal
				rep.count("timezone-variants")
			}
			// history: other objects, filtered registries, another configuration (on its own registry)
			for k := 0; k < 3 && len(history) > 0; k++ {
				h := history[rng.Intn(len(history))].reparse()
				if h == nil {
					continue
				}
				if freg, err := g.Filter(randomFilter(rng, names, sources)); err == nil {
					if k == 1 {
						freg.SetConfiguration(cfgAlt)
					}
					lintObj(h, freg)
				}
			}
			b := v.reparse()
			rs3, p3 := lintObj(b, g)
			if p3 == "" {
				if d, ok := sameResults(rs1, rs3); !ok {
					rep.violate(Violation{"C05", fmt.Sprintf("linting %s again after other lint calls gives a different result: %s", v.Name, d), "history:" + lintNameOf(d), replayOf(v, map[string]interface{}{"diff": d})})
				}
			}
			history = append(history, v)
			if len(history) > 64 {
				history = history[1:]
			}
		}
		rep.sample(map[string]interface{}{"object": o.Name, "kind": o.Kind})
	}
	// ---- the empty history: every corpus object (plus one mutant each in thorough) linted alone in a new process, compared
	// with what this process — which by now has linted everything else — answers for the same bytes
	var probe []*Obj
	for i, o := range objs {
		if tier != "thorough" && i%2 == 1 {
			continue
		}
		probe = append(probe, o)
		if tier == "thorough" {
			probe = append(probe, mutants(o, rng, 1, rep)...)
		}
	}
	fresh := freshBaselines(probe)
	for i, o := range probe {
		if strings.HasPrefix(fresh[i], "ERR") || fresh[i] == "" {
			rep.count("fresh:" + strings.SplitN(fresh[i]+" ", " ", 3)[1])
			continue
		}
		b := o.reparse()
		if b == nil {
			continue
		}
		rs, p := lintObj(b, g)
		if p != "" || rs == nil {
			continue
		}
		rep.Evaluations++
		rep.count("fresh:compared")
		if here := canonRS(rs); here != fresh[i] {
			d := firstDiff(fresh[i], here)
			name := strings.SplitN(d, "=", 2)[0]
			rep.violate(Violation{"C05", fmt.Sprintf("%s linted alone in a new process and linted here after other objects give different results: %s (fresh vs here)", o.Name, d), "fresh-process:" + name, replayOf(o, map[string]interface{}{"diff": d})})
		}
	}
	rep.write(filepath.Join(out, "report.json"))
}

// targetedHistories builds pairs (A then B) that share a cacheable key (TLD label, RSA modulus, DNS name)
// and checks that B's result does not depend on A having been linted first.
func targetedHistories(rep *Report, rng *RNG, g lint.Registry, tier string) {
	kitInit()
	tlds := []string{"app", "dev", "bank", "com", "xyz", "mcdonalds", "abarth", "onion", "zip", "google"}
	dates := []time.Time{time.Date(2013, 1, 1, 0, 0, 0, 0, time.UTC), time.Date(2016, 6, 1, 0, 0, 0, 0, time.UTC), time.Date(2024, 6, 1, 0, 0, 0, 0, time.UTC)}
	build := func(tld string, nb time.Time, pub interface{}) *Obj {
		der, err := BuildCert(CertSpec{NotBefore: nb, NotAfter: nb.Add(90 * 24 * time.Hour), Subject: pkixName("www.example." + tld), DNS: []string{"www.example." + tld, "Mixed.Example." + tld, "third.example." + tld},
			EKUs: []stdx509.ExtKeyUsage{stdx509.ExtKeyUsageServerAuth}, PubKey: pub})
		if err != nil {
			return nil
		}
		return parseObj("cert", fmt.Sprintf("kit-%s-%d", tld, nb.Year()), der)
	}
	for _, tld := range tlds {
		// low, high, low again: whatever the first call on the early-dated certificate returned must come back
		for _, order := range [][3]int{{0, 2, 0}, {2, 0, 2}, {1, 2, 1}, {0, 1, 0}} {
			objsT := [3]*Obj{build(tld, dates[order[0]], nil), build(tld, dates[order[1]], nil), build(tld, dates[order[2]], nil)}
			if objsT[0] == nil || objsT[1] == nil || objsT[2] == nil {
				continue
			}
			rep.Evaluations++
			rep.distinctKey(fmt.Sprintf("hist-tld|%s|%v", tld, order))
			first, p0 := lintObj(objsT[0], g)
			lintObj(objsT[1], g)
			again, p1 := lintObj(objsT[2], g)
			if p0 == "" && p1 == "" {
				if d, ok := sameResults(first, again); !ok {
					rep.violate(Violation{"C05", fmt.Sprintf("result for a .%s certificate dated %s changes after linting one dated %s: %s", tld, dates[order[0]].Format("2006-01-02"), dates[order[1]].Format("2006-01-02"), d),
						"history:" + lintNameOf(d), replayOf(objsT[0], map[string]interface{}{"then_der_hex": hexs(objsT[1].DER), "diff": d})})
				}
			}
		}
	}
	// the same RSA modulus under two configurations of the Fermat lint (separate registries)
	for i := 0; i < 3; i++ {
		p, q := closePrimes(1024, int64(40+i*50))
		if p == nil {
			continue
		}
		n := new(bigInt).Mul(p, q)
		pub := &rsa.PublicKey{N: n, E: 65537}
		c := build("com", dates[2], pub)
		if c == nil {
			continue
		}
		low, _ := lint.NewConfigFromString("[e_rsa_fermat_factorization]\nRounds = 1\n")
		regLow, _ := g.Filter(lint.FilterOptions{IncludeNames: []string{"e_rsa_fermat_factorization"}})
		regLow.SetConfiguration(low)
		rep.Evaluations++
		rep.distinctKey(fmt.Sprintf("hist-fermat|%d", i))
		base, p0 := lintObj(c.reparse(), g)
		lintObj(c.reparse(), regLow)
		after, p1 := lintObj(c.reparse(), g)
		if p0 == "" && p1 == "" {
			if d, ok := sameResults(base, after); !ok {
				rep.violate(Violation{"C05", "result changes after the same key was linted under another configuration in another registry: " + d, "history:" + lintNameOf(d), replayOf(c, map[string]interface{}{"diff": d})})
			}
		}
	}
}

// subC09: the signature value does not matter.
func subC09(out string, seed uint64, tier string, arg string) {
	rng := NewRNG(seed)
	rep := newReport("c09", seed, tier)
	rep.Rule = "every non-self-issued corpus/kit certificate with its signature BIT STRING replaced by same-length all-zero, all-one, random bytes, a well-formed ECDSA-Sig-Value of the same length with lopsided integers, and (kit certificates) a valid signature by a throw-away key; full result sets compared; distinct = (certificate, replacement) pairs"
	g := lint.GlobalRegistry()
	objs := loadObjects()
	n := 0
	limit := 350
	if tier == "thorough" {
		limit = 1 << 30
	}
	other, _ := ecdsa.GenerateKey(elliptic.P256(), rand.Reader)
	var certs []*Obj
	for _, o := range objs {
		if o.Kind == "cert" {
			certs = append(certs, o)
		}
	}
	// kit certificates with AKI = SKI and different names, ECDSA and RSA
	for i := 0; i < 6; i++ {
		der, err := BuildCert(CertSpec{IsCA: i%2 == 0, Subject: pkixName(fmt.Sprintf("kit-c09-%d.example.com", i)), DNS: []string{"a.example.com"},
			EKUs: []stdx509.ExtKeyUsage{stdx509.ExtKeyUsageServerAuth}, KeyUsage: stdx509.KeyUsageDigitalSignature | stdx509.KeyUsageCertSign})
		if err == nil {
			if o := parseObj("cert", fmt.Sprintf("kit-c09-%d", i), der); o != nil {
				certs = append(certs, o)
			}
		}
	}
	// certificates signed by their *own* key but issued under another name, subjectKeyId = authorityKeyId: the
	// signature verifies under the certificate's key although it is not self-issued — whatever consults a
	// signature check instead of the parser's SelfSigned sees the difference when the bits are replaced
	kitInit()
	var front []*Obj
	for i := 0; i < 4; i++ {
		der, err := BuildCert(CertSpec{IsCA: i%2 == 0, Subject: pkixName(fmt.Sprintf("kit-selfkeyed-%d.example.com", i)), DNS: []string{"sk.example.com"},
			Issuer: pkix.Name{CommonName: "Some Other Issuer", Organization: []string{"Elsewhere"}}, SelfSignKey: kitCAKey, SelfKeyed: true,
			EKUs: []stdx509.ExtKeyUsage{stdx509.ExtKeyUsageServerAuth}, KeyUsage: stdx509.KeyUsageDigitalSignature | stdx509.KeyUsageCertSign})
		if err == nil {
			if o := parseObj("cert", fmt.Sprintf("kit-selfkeyed-%d", i), der); o != nil {
				front = append(front, o)
			}
		} else {
			rep.count("kit-build-error:selfkeyed")
		}
	}
	order := make([]*Obj, 0, len(certs)+len(front))
	order = append(order, front...)
	for idx := 0; idx < len(certs); idx++ {
		order = append(order, certs[(idx*17+int(seed))%len(certs)])
	}
	// the one rule that reads the signature reads its length: certificates declaring an ECDSA algorithm with a signature
	// BIT STRING of every length class that rule distinguishes (and beyond the largest), each then compared with
	// same-length replacements like every other certificate
	var resized []*Obj
	for _, o := range append(append([]*Obj{}, front...), certs...) {
		if len(resized) >= 18 {
			break
		}
		if o.Cert == nil || !strings.Contains(strings.ToUpper(o.Cert.SignatureAlgorithm.String()), "ECDSA") {
			continue
		}
		cd, err := ParseCertDER(o.DER)
		if err != nil || string(cd.IssuerBytes()) == string(cd.SubjectBytes()) {
			continue
		}
		for _, L := range []int{8, 72, 73, 104, 105, 139, 140, 200, 300} {
			cd2, _ := ParseCertDER(o.DER)
			cd2.SetSignature(rng.Bytes(L))
			if m := parseObj("cert", fmt.Sprintf("%s~siglen%d", o.Name, L), cd2.Bytes()); m != nil {
				resized = append(resized, m)
			}
		}
	}
	rep.count(fmt.Sprintf("resized-ecdsa-signatures:%d", len(resized)))
	order = append(resized, order...)
	limit += len(resized)
	for idx := 0; idx < len(order) && n < limit; idx++ {
		o := order[idx]
		cd, err := ParseCertDER(o.DER)
		if err != nil {
			continue
		}
		if string(cd.IssuerBytes()) == string(cd.SubjectBytes()) {
			rep.count("skipped:self-issued")
			// parser assumption A-SELF: SelfSigned only if issuer bytes = subject bytes
			continue
		}
		if o.Cert.SelfSigned {
			rep.violate(Violation{"C09", "parser marks a certificate with issuer != subject as self-signed: " + o.Name, "a-self", replayOf(o, nil)})
		}
		n++
		sig := cd.Signature()
		base, p0 := lintObj(o.reparse(), g)
		if p0 != "" || base == nil {
			continue
		}
		repls := map[string][]byte{
			"zero":   make([]byte, len(sig)),
			"ones":   bytesOf(0xff, len(sig)),
			"random": rng.Bytes(len(sig)),
		}
		if ls := lopsidedECDSASig(len(sig)); ls != nil {
			repls["ecdsa-lopsided"] = ls
		}
		if len(sig) > 8 {
			// a DER SEQUENCE of two small integers padded to length, and a flipped last byte
			fl := append([]byte{}, sig...)
			fl[len(fl)-1] ^= 0x01
			repls["flip-last"] = fl
		}
		if strings.HasPrefix(o.Name, "kit-") {
			// a real signature by a different key over the same TBS (same length not guaranteed for ECDSA; keep only if equal)
			h := sha256.Sum256(cd.tbs.Encode())
			if s2, err := ecdsa.SignASN1(rand.Reader, other, h[:]); err == nil && len(s2) == len(sig) {
				repls["other-key"] = s2
			}
		}
		for kind, rsig := range repls {
			cd2, _ := ParseCertDER(o.DER)
			cd2.SetSignature(rsig)
			m := parseObj("cert", o.Name+"~sig-"+kind, cd2.Bytes())
			rep.Evaluations++
			if m == nil {
				rep.count("replacement-rejected-by-parser")
				continue
			}
			rep.distinctKey(o.Name + "|" + kind)
			rs, p := lintObj(m, g)
			if p != "" {
				rep.violate(Violation{"C09", "linting panics after replacing the signature (" + kind + ") of " + o.Name, "panic", replayOf(m, nil)})
				continue
			}
			if d, ok := sameResults(base, rs); !ok {
				rep.violate(Violation{"C09", fmt.Sprintf("replacing the signature of %s by %s bytes changes a verdict: %s", o.Name, kind, d), "sig:" + lintNameOf(d), replayOf(m, map[string]interface{}{"original_der_hex": hexs(o.DER), "diff": d, "replacement": kind})})
			}
		}
		rep.sample(map[string]interface{}{"object": o.Name, "sig_len": len(sig)})
	}
	rep.write(filepath.Join(out, "report.json"))
}

func bytesOf(b byte, n int) []byte {
	o := make([]byte, n)
	for i := range o {
		o[i] = b
	}
	return o
}

// lopsidedECDSASig builds SEQUENCE{ INTEGER 1, INTEGER <long> } of total length n (or nil).
func lopsidedECDSASig(n int) []byte {
	// 30 LL 02 01 01 02 SL <bytes>: total = 2 + 3 + 2 + sl  (short lengths only)
	if n < 10 || n > 129 {
		return nil
	}
	sl := n - 7
	out := []byte{0x30, byte(n - 2), 0x02, 0x01, 0x01, 0x02, byte(sl)}
	body := make([]byte, sl)
	body[0] = 0x01
	for i := 1; i < sl; i++ {
		body[i] = byte(i * 7)
	}
	return append(out, body...)
}

// subC03: no findings outside the effective window; exact boundaries.
func subC03(out string, seed uint64, tier string, arg string) {
	rep := newReport("c03", seed, tier)
	rep.Rule = "corpus certificates re-dated (notBefore = d-1s, d, d+1s for every distinct effective/ineffective instant d of the registry, validity length kept), CRLs and OCSP responses built at the same instants; every lint: outside its window only NA/NE, and at eff / ineff-1s exactly the verdict of a direct CheckApplies/Execute on a fresh instance; distinct = (object, instant) pairs"
	g := lint.GlobalRegistry()
	metas := registryMetas(g)
	dset := map[int64]bool{}
	for _, m := range metas {
		if !m.md.EffectiveDate.IsZero() {
			dset[m.md.EffectiveDate.Unix()] = true
		}
		if !m.md.IneffectiveDate.IsZero() {
			dset[m.md.IneffectiveDate.Unix()] = true
		}
	}
	var ds []int64
	for d := range dset {
		if d > -2208988800 && d < 4102444800 { // 1900 .. 2100: encodable and meaningful
			ds = append(ds, d)
		}
	}
	sort.Slice(ds, func(i, j int) bool { return ds[i] < ds[j] })
	rep.Extra["distinct_dates"] = len(ds)
	objs := loadObjects()
	var certs []*Obj
	for _, o := range objs {
		if o.Kind == "cert" {
			certs = append(certs, o)
		}
	}
	ncert := 40
	if tier == "thorough" {
		ncert = 400
	}
	check := func(o *Obj, target time.Time, label string) {
		rs, p := lintObj(o, g)
		rep.Evaluations++
		rep.distinctKey(o.Name + "|" + label)
		if p != "" || rs == nil {
			return
		}
		fresh := o.reparse()
		for name, r := range rs.Results {
			md := metas[name].md
			in := lint.VerifCheckEffective(md.EffectiveDate, md.IneffectiveDate, target)
			// independent re-statement of the half-open window on Unix instants
			in2 := (md.EffectiveDate.IsZero() || !target.Before(md.EffectiveDate)) && (md.IneffectiveDate.IsZero() || target.Before(md.IneffectiveDate))
			if in != in2 {
				rep.violate(Violation{"C03", fmt.Sprintf("checkEffective disagrees with the half-open window for %s at %s", name, target.UTC().Format(time.RFC3339)), "window:" + name, replayOf(o, map[string]interface{}{"lint": name})})
			}
			if !in2 {
				if r.Status != lint.NA && r.Status != lint.NE {
					rep.violate(Violation{"C03", fmt.Sprintf("lint %s reports %s for %s dated %s, outside its window [%s, %s)", name, r.Status, o.Name, target.UTC().Format(time.RFC3339), fmtDate(md.EffectiveDate), fmtDate(md.IneffectiveDate)),
						"outside:" + name, replayOf(o, map[string]interface{}{"lint": name, "target": target.UTC().Format(time.RFC3339)})})
				}
				continue
			}
			// inside: the verdict must be the rule's own
			st, det, _, pan := directExpect(fresh, name, g)
			if pan {
				continue
			}
			if r.Status != st || r.Details != det {
				rep.violate(Violation{"C03", fmt.Sprintf("lint %s on %s dated %s (inside its window) reports %s, the rule itself gives %s", name, o.Name, target.UTC().Format(time.RFC3339), r.Status, st),
					"inside:" + name, replayOf(o, map[string]interface{}{"lint": name, "target": target.UTC().Format(time.RFC3339)})})
			}
		}
	}
	// objects that carry other instants besides the one the window is about (embedded SCT timestamps): they come first in the
	// sample, with a validity period long enough to contain those instants — only notBefore may decide the window
	var withSCT []*Obj
	for _, o := range certs {
		if len(o.Cert.SignedCertificateTimestampList) > 0 && len(withSCT) < 3 {
			withSCT = append(withSCT, o)
		}
	}
	rep.count(fmt.Sprintf("certificates-with-embedded-timestamps=%d", len(withSCT)))
	for ci := 0; ci < ncert+len(withSCT) && ci < len(certs); ci++ {
		var o *Obj
		if ci < len(withSCT) {
			o = withSCT[ci]
		} else {
			o = certs[((ci-len(withSCT))*29+int(seed))%len(certs)]
		}
		cd, err := ParseCertDER(o.DER)
		if err != nil {
			continue
		}
		validity := o.Cert.NotAfter.Sub(o.Cert.NotBefore)
		if validity <= 0 || validity > 40*365*24*time.Hour {
			validity = 90 * 24 * time.Hour
		}
		var latest time.Time
		for _, sct := range o.Cert.SignedCertificateTimestampList {
			if sct != nil {
				if ts := time.Unix(int64(sct.Timestamp/1000), 0); ts.After(latest) {
					latest = ts
				}
			}
		}
		for _, d := range ds {
			for _, delta := range []int64{-1, 0, 1} {
				nb := time.Unix(d+delta, 0).UTC()
				if !latest.IsZero() && nb.Add(validity).Before(latest.Add(24*time.Hour)) && latest.Sub(nb) < 40*365*24*time.Hour {
					cd.SetValidity(nb, latest.Add(24*time.Hour).UTC())
					if m := parseObj("cert", o.Name+"+long-validity", cd.Bytes()); m != nil && m.Cert.NotBefore.Equal(nb) {
						check(m, nb, fmt.Sprintf("%d%+d/sct", d, delta))
					}
				}
				cd.SetValidity(nb, nb.Add(validity))
				m := parseObj("cert", o.Name, cd.Bytes())
				if m == nil || !m.Cert.NotBefore.Equal(nb) {
					rep.count("redate-rejected")
					continue
				}
				check(m, nb, fmt.Sprintf("%d%+d", d, delta))
			}
		}
		// the same instants written with a non-UTC offset (time-zone independence)
		if ci < 8 {
			loc := time.FixedZone("", -5*3600)
			for _, d := range ds {
				nb := time.Unix(d, 0).In(loc)
				if nb.Year() < 1950 || nb.Year() >= 2050 {
					continue
				}
				na := nb.Add(validity)
				tag2 := byte(0x17)
				f2 := "060102150405-0700"
				if na.Year() >= 2050 {
					tag2, f2 = 0x18, "20060102150405-0700"
				}
				cd.SetValidityRaw(0x17, nb.Format("060102150405-0700"), tag2, na.Format(f2))
				m := parseObj("cert", o.Name, cd.Bytes())
				if m == nil || !m.Cert.NotBefore.Equal(nb) {
					rep.count("offset-form-rejected")
					continue
				}
				rep.count("offset-form")
				check(m, m.Cert.NotBefore, fmt.Sprintf("%d-offset", d))
			}
		}
		rep.sample(map[string]interface{}{"object": o.Name, "dates": len(ds)})
	}
	// CRLs and OCSP responses at every instant
	for _, d := range ds {
		for _, delta := range []int64{-1, 0, 1} {
			t := time.Unix(d+delta, 0).UTC()
			if _, der, err := buildCRL(t, t.Add(7*24*time.Hour)); err == nil {
				if o := parseObj("crl", "kit-crl", der); o != nil && o.CRL.ThisUpdate.Equal(t) {
					check(o, t, fmt.Sprintf("crl%d%+d", d, delta))
				}
			}
			if _, der, err := buildOCSP(t.Add(-24*time.Hour), t, t.Add(-23*time.Hour)); err == nil {
				if o := parseObj("ocsp", "kit-ocsp", der); o != nil && o.OCSP.NextUpdate.Equal(t) {
					check(o, t, fmt.Sprintf("ocsp%d%+d", d, delta))
				}
			}
		}
	}
	// OCSP without nextUpdate: target is the zero instant
	if _, der, err := buildOCSP(time.Date(2024, 5, 1, 0, 0, 0, 0, time.UTC), time.Time{}, time.Date(2024, 5, 1, 1, 0, 0, 0, time.UTC)); err == nil {
		if o := parseObj("ocsp", "kit-ocsp-nonext", der); o != nil {
			check(o, o.OCSP.NextUpdate, "ocsp-nonext")
		}
	}
	rep.write(filepath.Join(out, "report.json"))
}

func fmtDate(t time.Time) string {
	if t.IsZero() {
		return "-"
	}
	return t.UTC().Format("2006-01-02")
}

var _ = zlint.Version

// sharedBufferHistories: a caller that reads every object into one re-used buffer. The parsed object keeps slices of
// that buffer (Raw, RawSubject, extension values …), so after the next read the *previous* object's slices show the
// new object's bytes — harmless for a linter that is a function of the object it is given, fatal for one that
// remembers an earlier answer under a key that aliases the input. Objects of one length and layout follow each
// other: kit certificates whose subject / issuer strings differ in content but not in length, and corpus objects
// with length-preserving byte edits. Each is linted from the shared buffer and compared with the same bytes linted
// from a private copy.
func sharedBufferHistories(rep *Report, rng *RNG, g lint.Registry, objs []*Obj, tier string) {
	buf := make([]byte, 1<<16)
	lintShared := func(o *Obj) (*zlint.ResultSet, string, bool) {
		if len(o.DER) > len(buf) {
			return nil, "", false
		}
		n := copy(buf, o.DER)
		so := parseObj(o.Kind, o.Name, buf[:n:n])
		if so == nil {
			return nil, "", false
		}
		rs, p := lintObj(so, g)
		return rs, p, true
	}
	// the private-copy answers are computed first, for the whole sequence; the shared-buffer pass then runs with
	// nothing in between (an interleaved private lint would refresh whatever a linter remembers)
	type privRes struct {
		rs *zlint.ResultSet
		p  string
	}
	passes := func(seq []*Obj, what string) {
		priv := make([]privRes, len(seq))
		for i, o := range seq {
			if c := o.reparse(); c != nil {
				priv[i].rs, priv[i].p = lintObj(c, g)
			} else {
				priv[i].p = "unparseable"
			}
		}
		for i, o := range seq {
			if priv[i].p == "unparseable" {
				continue
			}
			rsS, pS, ok := lintShared(o)
			if !ok {
				continue
			}
			rep.Evaluations++
			rep.count("shared-buffer:" + what)
			if pS != priv[i].p {
				rep.violate(Violation{"C05", fmt.Sprintf("%s linted from a re-used read buffer panics differently than linted from its own bytes (%q vs %q)", o.Name, pS, priv[i].p), "shared-buffer:panic", replayOf(o, nil)})
				continue
			}
			if pS != "" || rsS == nil || priv[i].rs == nil {
				continue
			}
			if d, ok := sameResults(priv[i].rs, rsS); !ok {
				extra := map[string]interface{}{"diff": d}
				if i > 0 {
					extra["previous_in_buffer_der_hex"] = hexs(seq[i-1].DER)
				}
				rep.violate(Violation{"C05", fmt.Sprintf("%s linted from a read buffer that held another object before gives a different result than linted from its own bytes: %s", o.Name, d), "shared-buffer:" + lintNameOf(d), replayOf(o, extra)})
			}
		}
	}
	// kit certificates of one layout: same lengths everywhere, different content
	orgs := []string{"Example Org", " xample Org", "Example Or ", "Example_Org", "EXAMPLE ORG", "Example\tOrg"}
	cns := []string{"a-b.example.com", "a_b.example.com", "A-B.EXAMPLE.COM", "*.b.example.com", "a-b.example.co ", " -b.example.com"}
	var kit []*Obj
	for _, selfIssued := range []bool{false, true} {
		for _, og := range orgs {
			for _, cn := range cns {
				subj := pkixName(cn)
				subj.Organization = []string{og}
				subj.Country = []string{"US"}
				spec := CertSpec{Subject: subj, DNS: []string{"a-b.example.com"}, EKUs: []stdx509.ExtKeyUsage{stdx509.ExtKeyUsageServerAuth},
					NotBefore: time.Date(2024, 1, 1, 0, 0, 0, 0, time.UTC), NotAfter: time.Date(2024, 6, 1, 0, 0, 0, 0, time.UTC)}
				if selfIssued {
					spec.Issuer = subj
				} else {
					iss := pkixName("Kit CA 0000000")
					iss.Organization = []string{orgs[(len(kit)+1)%len(orgs)]}
					iss.Country = []string{"US"}
					spec.Issuer = iss
				}
				der, err := BuildCert(spec)
				if err != nil {
					rep.count("shared-buffer:kit-build-error")
					continue
				}
				if o := parseObj("cert", fmt.Sprintf("kit-layout-%d", len(kit)), der); o != nil {
					kit = append(kit, o)
				}
			}
		}
	}
	rounds := 3
	if tier == "thorough" {
		rounds = 12
	}
	for r := 0; r < rounds; r++ {
		var seq []*Obj
		for _, i := range rng.Perm(len(kit)) {
			seq = append(seq, kit[i])
		}
		passes(seq, "kit")
	}
	// corpus objects followed by length-preserving edits of themselves
	nobj := 120
	if tier == "thorough" {
		nobj = len(objs)
	}
	for i := 0; i < nobj && i < len(objs); i++ {
		o := objs[(i*5+3)%len(objs)]
		seq := []*Obj{o}
		for k := 0; k < 4; k++ {
			der := append([]byte{}, o.DER...)
			for f := 0; f < 1+rng.Intn(2); f++ {
				p := rng.Intn(len(der))
				der[p] ^= byte(1 << uint(rng.Intn(8)))
			}
			if m := parseObj(o.Kind, o.Name+"+flip", der); m != nil {
				seq = append(seq, m, o)
			}
		}
		passes(seq, "corpus+flips")
	}
}

// zoneBoundarySearch: the process's local time zone is environment. A rule that does calendar arithmetic on a value that
// picked up time.Local (time.Unix, Local(), In(time.Local)) answers differently only for validity periods that start
// within hours of a month boundary and end within days of "N months later" — so certificates are re-dated to exactly
// those shapes and linted under UTC, a far-western and a far-eastern local zone.
func zoneBoundarySearch(rep *Report, rng *RNG, g lint.Registry, objs []*Obj, tier string) {
	var certs []*Obj
	// kit certificates in the scopes of the validity-period rules: BR DV leaf, EV leaf, sub CA
	for i, spec := range []CertSpec{
		{DNS: []string{"zone.example.com", "x_y.example.com"}, Subject: pkixName("zone.example.com"), EKUs: []stdx509.ExtKeyUsage{stdx509.ExtKeyUsageServerAuth}, Policies: []asn1.ObjectIdentifier{{2, 23, 140, 1, 2, 1}}},
		{DNS: []string{"ev.example.com"}, Subject: pkixName("ev.example.com"), EKUs: []stdx509.ExtKeyUsage{stdx509.ExtKeyUsageServerAuth}, Policies: []asn1.ObjectIdentifier{{2, 23, 140, 1, 1}}},
		{IsCA: true, Subject: pkixName("Zone Sub CA"), KeyUsage: stdx509.KeyUsageCertSign},
	} {
		if der, err := BuildCert(spec); err == nil {
			if o := parseObj("cert", fmt.Sprintf("kit-zone-%d", i), der); o != nil {
				certs = append(certs, o)
			}
		}
	}
	nCorpus := 3
	if tier == "thorough" {
		nCorpus = 60
	}
	var pool []*Obj
	for _, o := range objs {
		if o.Kind == "cert" {
			pool = append(pool, o)
		}
	}
	for i := 0; i < nCorpus && len(pool) > 0; i++ {
		certs = append(certs, pool[rng.Intn(len(pool))])
	}
	// only the rules whose footprint (regenerated from the source) reads a date can be affected; fall back to all of them
	if names := dateReadingLints(); len(names) > 0 {
		if freg, err := g.Filter(lint.FilterOptions{IncludeNames: names}); err == nil {
			g = freg
			rep.count(fmt.Sprintf("zone-boundary-lints=%d", len(names)))
		}
	}
	months := []int{12, 13, 15, 27, 39, 60}
	days := []int{90, 397, 398, 825}
	zones := []*time.Location{time.FixedZone("west", -11*3600), time.FixedZone("east", 13*3600+45*60)}
	savedLocal := time.Local
	defer func() { time.Local = savedLocal }()
	type ym struct {
		y int
		m time.Month
	}
	var yms []ym
	for y := 2012; y <= 2024; y++ {
		ms := []time.Month{1, 3, 5, 12}
		if tier == "thorough" {
			ms = []time.Month{1, 2, 3, 4, 5, 6, 7, 8, 9, 10, 11, 12}
		} else if y%2 == 1 && y != 2017 {
			continue
		}
		for _, m := range ms {
			yms = append(yms, ym{y, m})
		}
	}
	for _, o := range certs {
		for _, when := range yms {
			cd, err := ParseCertDER(o.DER)
			if err != nil {
				continue
			}
			year, month := when.y, when.m
			starts := []time.Time{
				time.Date(year, month, 1, 0, 30, 0, 0, time.UTC),                       // still the previous month west of Greenwich
				time.Date(year, month, 1, 0, 0, 0, 0, time.UTC).Add(-30 * time.Minute), // already the next month east of it
			}
			for _, nb := range starts {
				var ends []time.Time
				for _, m := range months {
					lim := nb.AddDate(0, m, 0)
					for _, d := range []time.Duration{-50 * time.Hour, -26 * time.Hour, -time.Hour, time.Hour, 26 * time.Hour, 50 * time.Hour} {
						ends = append(ends, lim.Add(d))
					}
				}
				for _, dd := range days {
					lim := nb.AddDate(0, 0, dd)
					ends = append(ends, lim.Add(-time.Hour), lim.Add(time.Hour))
				}
				for _, na := range ends {
					cd.SetValidity(nb, na)
					v := parseObj("cert", o.Name+"@zone-boundary", cd.Bytes())
					if v == nil || v.Cert == nil {
						rep.count("zone-boundary-rejected")
						continue
					}
					time.Local = time.UTC
					rs0, p0 := lintObj(v, g)
					if p0 != "" || rs0 == nil {
						continue
					}
					rep.Evaluations++
					rep.count("zone-boundary-certs")
					for _, z := range zones {
						time.Local = z
						c := v.reparse()
						if c == nil {
							continue
						}
						rsZ, pZ := lintObj(c, g)
						if pZ == "" && rsZ != nil {
							if d, ok := sameResults(rs0, rsZ); !ok {
								rep.violate(Violation{"C05", fmt.Sprintf("linting %s (validity %s .. %s) with the process's local time zone set to %s gives a different result than under UTC: %s", v.Name, nb.Format(time.RFC3339), na.Format(time.RFC3339), z, d),
									"timezone:" + lintNameOf(d), replayOf(v, map[string]interface{}{"diff": d, "zone": z.String(), "not_before": nb.Format(time.RFC3339), "not_after": na.Format(time.RFC3339)})})
							}
						}
					}
					time.Local = time.UTC
				}
			}
		}
	}
}

// lints whose regenerated footprint reads a date field of the linted object
func dateReadingLints() []string {
	exe, _ := os.Executable()
	p := filepath.Join(filepath.Dir(filepath.Dir(exe)), "facts.json")
	if v := os.Getenv("VERIF_FACTS"); v != "" {
		p = v
	}
	data, err := os.ReadFile(p)
	if err != nil {
		return nil
	}
	var f struct {
		Registrations []struct {
			Name  string   `json:"name"`
			Kind  string   `json:"kind"`
			Reads []string `json:"reads"`
		} `json:"registrations"`
	}
	if json.Unmarshal(data, &f) != nil {
		return nil
	}
	var out []string
	for _, r := range f.Registrations {
		for _, rd := range r.Reads {
			if strings.Contains(rd, "NotBefore") || strings.Contains(rd, "NotAfter") {
				out = append(out, r.Name)
				break
			}
		}
	}
	return out
}
