package main

// regseq: registries as objects. Random sequences of the public registry operations on several handles that may
// alias, every observation compared with the heap model of lean/ZlModel/RegSeq.lean:
//
//   regseq  N ; R|h|kind|hexname|source ; F|h|nf|inc|exc|isrc|xsrc ; S|h|tag ; C|h ; M|h ; U|h ; L|h ; …
//
// N  lint.NewRegistry()                 R  register a lint of that kind on handle h (through the verif hook)
// F  h.Filter(options) → new handle     S  h.SetConfiguration(tag)     C  h.GetConfiguration() read back
// M  h.Names()    U  h.Sources()        L  h.WriteJSON() decoded
//
// A cache that is not reset by one of the operations, a Filter that hands back a shared object, a listing that
// resolves names through the wrong lookup — all show up as an observation the model does not make.

import (
	"bufio"
	"bytes"
	"encoding/json"
	"fmt"
	"os"
	"path/filepath"
	"regexp"
	"sort"
	"strings"

	"github.com/zmap/zcrypto/x509"
	"github.com/zmap/zlint/v3"
	"github.com/zmap/zlint/v3/lint"
	"golang.org/x/crypto/ocsp"
)

func init() {
	subs["regseq"] = subRegSeq
}

type tagProbe struct{ V string }

func subRegSeq(out string, seed uint64, tier string, arg string) {
	rng := NewRNG(seed)
	rep := newReport("regseq", seed, tier)
	rep.Rule = "random sequences (8-40 operations, up to 8 handles) of NewRegistry / Register{Certificate,RevocationList,OcspResponse}Lint / Filter (names with blanks, unknown names, sources, name patterns, empty options, option sets repeated verbatim) / SetConfiguration / GetConfiguration / Names / Sources / WriteJSON on registries that may alias; every observation compared with the heap model; distinct = distinct sequences"
	ops, _ := os.Create(filepath.Join(out, "ops.txt"))
	impl, _ := os.Create(filepath.Join(out, "impl.out"))
	wo, wi := bufio.NewWriter(ops), bufio.NewWriter(impl)
	defer func() { wo.Flush(); wi.Flush(); ops.Close(); impl.Close() }()
	pool := []string{"e_a", "w_b", "n_c", "e_d", "w_e", "e_f", "e_aa"}
	sources := []string{"RFC5280", "CABF_BR", "Community", "RFC6960", "Mozilla"}
	kinds := []string{"cert", "cert", "crl", "ocsp"}
	patterns := []string{"^e_", "^w_", "a", "^$", ".*", "_[a-c]$"}
	j := func(xs []string) string {
		if len(xs) == 0 {
			return "-"
		}
		var p []string
		for _, x := range xs {
			p = append(p, escElem(x))
		}
		return strings.Join(p, ",")
	}
	plain := func(xs []string) string {
		if len(xs) == 0 {
			return "-"
		}
		return strings.Join(xs, ",")
	}
	fixed := fixedObjects()
	nseq := 400
	if tier == "thorough" {
		nseq = 12000
	}
	for s := 0; s < nseq; s++ {
		var handles []lint.Registry
		var opsTxt, outs []string
		emitOp := func(op, res string) {
			opsTxt = append(opsTxt, op)
			outs = append(outs, res)
			rep.count("op:" + op[:1])
		}
		newReg := func() {
			handles = append(handles, lint.NewRegistry())
			emitOp("N", "ok")
		}
		newReg()
		var lastFilter string
		var lastFilterOpts lint.FilterOptions
		n := 8 + rng.Intn(33)
		for i := 0; i < n; i++ {
			h := rng.Intn(len(handles))
			reg := handles[h]
			switch k := rng.Intn(25); {
			case k < 6: // register
				kind, name, src := kinds[rng.Intn(len(kinds))], pool[rng.Intn(len(pool))], sources[rng.Intn(len(sources))]
				if rng.Intn(25) == 0 {
					name = ""
				}
				md := lint.LintMetadata{Name: name, Description: "d", Source: lint.LintSource(src)}
				var err error
				switch kind {
				case "cert":
					err = lint.VerifRegisterCertificateLint(reg, &lint.CertificateLint{LintMetadata: md, Lint: func() lint.CertificateLintInterface { return nopCert{} }})
				case "crl":
					err = lint.VerifRegisterRevocationListLint(reg, &lint.RevocationListLint{LintMetadata: md, Lint: func() lint.RevocationListLintInterface { return nopCRL{} }})
				case "ocsp":
					err = lint.VerifRegisterOcspResponseLint(reg, &lint.OcspResponseLint{LintMetadata: md, Lint: func() lint.OcspResponseLintInterface { return nopOCSP{} }})
				}
				res := "ok"
				if err != nil {
					switch {
					case strings.Contains(err.Error(), "already been registered"):
						res = "err:dup"
					case strings.Contains(err.Error(), "empty Name"):
						res = "err:empty"
					default:
						res = "err:nil"
					}
				}
				emitOp(fmt.Sprintf("R|%d|%s|%s|%s", h, kind, escElem(name), src), res)
			case k < 11: // filter
				var o lint.FilterOptions
				var nfTxt = "none"
				var in, ex, is, xs []string
				if lastFilter != "" && rng.Intn(3) == 0 {
					// the same option set again (possibly on another handle)
					o = lastFilterOpts
					parts := strings.SplitN(lastFilter, "|", 3)
					txt := fmt.Sprintf("F|%d|%s", h, parts[2])
					// the name-pattern field lists the names the pattern matches in *this* registry
					if o.NameFilter != nil {
						var m []string
						for _, nm := range reg.Names() {
							if o.NameFilter.MatchString(nm) {
								m = append(m, nm)
							}
						}
						f := strings.Split(parts[2], "|")
						f[0] = "set:" + j(m)
						txt = fmt.Sprintf("F|%d|%s", h, strings.Join(f, "|"))
					}
					res, nh := runFilter(reg, o)
					handles = append(handles, nh)
					emitOp(txt, res)
					break
				}
				pick := func(src []string, max int) []string {
					var l []string
					for c := rng.Intn(max + 1); c > 0; c-- {
						v := src[rng.Intn(len(src))]
						l = append(l, v)
					}
					return l
				}
				switch rng.Intn(6) {
				case 0: // empty options: alias
				case 1:
					in = pick(pool, 3)
					if rng.Intn(3) == 0 && len(in) > 0 {
						in[0] = " " + in[0] + "\t"
					}
				case 2:
					ex = pick(pool, 2)
				case 3:
					is = pick(sources, 2)
				case 4:
					xs = pick(sources, 2)
					in = pick(pool, 1)
				case 5:
					p := patterns[rng.Intn(len(patterns))]
					o.NameFilter = regexp.MustCompile(p)
					is = pick(sources, 1)
				}
				o.IncludeNames, o.ExcludeNames = in, ex
				for _, x := range is {
					o.IncludeSources = append(o.IncludeSources, lint.LintSource(x))
				}
				for _, x := range xs {
					o.ExcludeSources = append(o.ExcludeSources, lint.LintSource(x))
				}
				if o.NameFilter != nil {
					var m []string
					for _, nm := range reg.Names() {
						if o.NameFilter.MatchString(nm) {
							m = append(m, nm)
						}
					}
					nfTxt = "set:" + j(m)
				}
				txt := fmt.Sprintf("F|%d|%s|%s|%s|%s|%s", h, nfTxt, j(in), j(ex), j(is), j(xs))
				res, nh := runFilter(reg, o)
				handles = append(handles, nh)
				emitOp(txt, res)
				lastFilter, lastFilterOpts = txt, o
			case k < 14: // set configuration
				tag := fmt.Sprintf("T%d", rng.Intn(1000))
				cfg, err := lint.NewConfigFromString("[tag]\nV = \"" + tag + "\"\n")
				if err != nil {
					continue
				}
				reg.SetConfiguration(cfg)
				emitOp(fmt.Sprintf("S|%d|%s", h, tag), "ok")
			case k < 16:
				var p tagProbe
				_ = reg.GetConfiguration().Configure(&p, "tag")
				emitOp(fmt.Sprintf("C|%d", h), "cfg="+p.V)
			case k < 17:
				emitOp(fmt.Sprintf("M|%d", h), "names="+plain(reg.Names()))
			case k < 18:
				var ss []string
				for _, x := range reg.Sources() {
					ss = append(ss, string(x))
				}
				sort.Strings(ss)
				emitOp(fmt.Sprintf("U|%d", h), "sources="+plain(ss))
			case k < 19:
				var buf bytes.Buffer
				reg.WriteJSON(&buf)
				var rows []string
				for _, ln := range strings.Split(strings.TrimRight(buf.String(), "\n"), "\n") {
					if ln == "" {
						continue
					}
					var m struct {
						Name   string `json:"name"`
						Source string `json:"source"`
					}
					if json.Unmarshal([]byte(ln), &m) != nil {
						rows = append(rows, "undecodable")
						continue
					}
					rows = append(rows, m.Name+"/"+m.Source)
				}
				emitOp(fmt.Sprintf("L|%d", h), "listing="+plain(rows))
			case k < 22: // a lint run with this registry: exactly the lints of the kind registered so far
				kind := []string{"cert", "cert", "crl", "ocsp"}[rng.Intn(4)]
				emitOp(fmt.Sprintf("X|%d|%s", h, kind), "run="+plain(runNames(reg, kind, fixed)))
			case k < 24: // the per-kind views must describe the same set
				emitOp(fmt.Sprintf("K|%d", h), "lk="+lookupViews(reg, append(append([]string{}, pool...), "")))
			default:
				if len(handles) < 8 {
					newReg()
				}
			}
			if len(handles) > 10 {
				break
			}
		}
		line := "regseq\t" + strings.Join(opsTxt, ";")
		fmt.Fprintln(wo, line)
		fmt.Fprintln(wi, strings.Join(outs, ";"))
		rep.Evaluations++
		rep.distinctKey(line)
		rep.sample(map[string]string{"op": line[:min(len(line), 400)], "impl": strings.Join(outs, ";")[:min(len(strings.Join(outs, ";")), 400)]})
	}
	rep.write(filepath.Join(out, "report.json"))
}

func runFilter(reg lint.Registry, o lint.FilterOptions) (string, lint.Registry) {
	f, err := reg.Filter(o)
	if err != nil {
		m := err.Error()
		switch {
		case strings.HasPrefix(m, "unknown lint name"):
			return "err:unknown", reg
		case strings.Contains(m, "NameFilter cannot be used"):
			return "err:conflict", reg
		case strings.Contains(m, "already been registered"):
			return "err:dup", reg
		}
		return "err:other:" + m, reg
	}
	if f == reg {
		return "ok same=1", f
	}
	return "ok same=0", f
}

type fixedObjs struct {
	cert *x509.Certificate
	crl  *x509.RevocationList
	ocsp *ocsp.Response
}

func fixedObjects() fixedObjs {
	var f fixedObjs
	for _, o := range loadObjects() {
		switch {
		case o.Kind == "cert" && f.cert == nil:
			f.cert = o.Cert
		case o.Kind == "crl" && f.crl == nil:
			f.crl = o.CRL
		case o.Kind == "ocsp" && f.ocsp == nil:
			f.ocsp = o.OCSP
		}
	}
	return f
}

// names of the results a lint run with this registry returns for an object of the kind
func runNames(reg lint.Registry, kind string, f fixedObjs) (names []string) {
	defer func() {
		if e := recover(); e != nil {
			names = []string{"panic"}
		}
	}()
	var rs *zlint.ResultSet
	switch kind {
	case "cert":
		rs = zlint.LintCertificateEx(f.cert, reg)
	case "crl":
		rs = zlint.LintRevocationListEx(f.crl, reg)
	default:
		rs = zlint.LintOcspResponseEx(f.ocsp, reg)
	}
	if rs == nil {
		return []string{"nilset"}
	}
	for n, r := range rs.Results {
		if r == nil {
			n += ":nil"
		}
		names = append(names, n)
	}
	sort.Strings(names)
	return names
}

// full listing, by-name and by-source views of each kind; a view that disagrees with the listing is spelled out
func lookupViews(reg lint.Registry, probe []string) string {
	one := func(listing []string, byName func(string) bool, bySource func(lint.LintSource) []string, sources lint.SourceList) string {
		sort.Strings(listing)
		var viaName []string
		for _, n := range probe {
			if byName(n) {
				viaName = append(viaName, n)
			}
		}
		sort.Strings(viaName)
		var viaSource []string
		seen := map[lint.LintSource]bool{}
		for _, s := range sources {
			if seen[s] {
				viaSource = append(viaSource, "dup-source:"+string(s))
			}
			seen[s] = true
			viaSource = append(viaSource, bySource(s)...)
		}
		sort.Strings(viaSource)
		a := strings.Join(listing, ",")
		if len(listing) == 0 {
			a = "-"
		}
		if b := strings.Join(viaName, ","); b != strings.Join(listing, ",") {
			a += "!byName=" + b
		}
		if b := strings.Join(viaSource, ","); b != strings.Join(listing, ",") {
			a += "!bySource=" + b
		}
		// the kind's own source list: exactly the sources its lints have
		var ss []string
		for _, s := range sources {
			ss = append(ss, string(s))
		}
		sort.Strings(ss)
		if len(ss) == 0 {
			return a + "|src=-"
		}
		return a + "|src=" + strings.Join(ss, ",")
	}
	cl, rl, ol := reg.CertificateLints(), reg.RevocationListLints(), reg.OcspResponseLints()
	var cn, rn, on []string
	for _, l := range cl.Lints() {
		cn = append(cn, l.Name)
	}
	for _, l := range rl.Lints() {
		rn = append(rn, l.Name)
	}
	for _, l := range ol.Lints() {
		on = append(on, l.Name)
	}
	c := one(cn, func(n string) bool { return cl.ByName(n) != nil }, func(s lint.LintSource) (out []string) {
		for _, l := range cl.BySource(s) {
			out = append(out, l.Name)
		}
		return
	}, cl.Sources())
	r := one(rn, func(n string) bool { return rl.ByName(n) != nil }, func(s lint.LintSource) (out []string) {
		for _, l := range rl.BySource(s) {
			out = append(out, l.Name)
		}
		return
	}, rl.Sources())
	o := one(on, func(n string) bool { return ol.ByName(n) != nil }, func(s lint.LintSource) (out []string) {
		for _, l := range ol.BySource(s) {
			out = append(out, l.Name)
		}
		return
	}, ol.Sources())
	return c + "/" + r + "/" + o
}
