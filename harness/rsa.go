package main

import (
	"bufio"
	"crypto/rand"
	"crypto/rsa"
	stdx509 "crypto/x509"
	"encoding/asn1"
	"fmt"
	"math/big"
	"os"
	"path/filepath"
	"regexp"
	"sort"
	"strings"
	"time"

	zlint "github.com/zmap/zlint/v3"
	"github.com/zmap/zlint/v3/lint"
	"github.com/zmap/zlint/v3/lints/community"
	"github.com/zmap/zlint/v3/util"
)

func init() {
	subs["rsa"] = subRSA
}

var rsaCommon = []string{"e_rsa_mod_less_than_2048_bits", "w_rsa_mod_not_odd", "w_rsa_mod_factors_smaller_than_752", "e_rsa_public_exponent_not_odd",
	"e_rsa_public_exponent_too_small", "w_rsa_public_exponent_not_in_range", "e_mp_modulus_must_be_2048_bits_or_more", "e_mp_modulus_must_be_divisible_by_8",
	"e_mp_exponent_cannot_be_one", "e_rsa_fermat_factorization"}

type rsaVariant struct {
	name  string
	lints []string
	spec  func(pub *rsa.PublicKey) CertSpec
}

var rsaVariants = []rsaVariant{
	{"leaf2024", rsaCommon, func(pub *rsa.PublicKey) CertSpec {
		return CertSpec{PubKey: pub, DNS: []string{"rsa.example.com"}, EKUs: []stdx509.ExtKeyUsage{stdx509.ExtKeyUsageServerAuth}}
	}},
	{"cs2024", []string{"e_cs_rsa_key_size"}, func(pub *rsa.PublicKey) CertSpec {
		return CertSpec{PubKey: pub, Subject: pkixName("Code Signer"), EKUs: []stdx509.ExtKeyUsage{stdx509.ExtKeyUsageCodeSigning}, Policies: []asn1.ObjectIdentifier{{2, 23, 140, 1, 4, 1}}}
	}},
	{"oldroot", []string{"e_old_root_ca_rsa_mod_less_than_2048_bits"}, func(pub *rsa.PublicKey) CertSpec {
		return CertSpec{PubKey: pub, Subject: pkixName("Old Root"), IsCA: true, SelfSigned: true, KeyUsage: stdx509.KeyUsageCertSign,
			NotBefore: time.Date(2009, 1, 1, 0, 0, 0, 0, time.UTC), NotAfter: time.Date(2029, 1, 1, 0, 0, 0, 0, time.UTC)}
	}},
	{"oldsubca", []string{"e_old_sub_ca_rsa_mod_less_than_1024_bits"}, func(pub *rsa.PublicKey) CertSpec {
		return CertSpec{PubKey: pub, Subject: pkixName("Old Sub CA"), IsCA: true, KeyUsage: stdx509.KeyUsageCertSign,
			NotBefore: time.Date(2009, 1, 1, 0, 0, 0, 0, time.UTC), NotAfter: time.Date(2013, 1, 1, 0, 0, 0, 0, time.UTC)}
	}},
	{"oldleaf", []string{"e_old_sub_cert_rsa_mod_less_than_1024_bits"}, func(pub *rsa.PublicKey) CertSpec {
		return CertSpec{PubKey: pub, DNS: []string{"old.example.com"}, EKUs: []stdx509.ExtKeyUsage{stdx509.ExtKeyUsageServerAuth},
			NotBefore: time.Date(2010, 1, 1, 0, 0, 0, 0, time.UTC), NotAfter: time.Date(2013, 6, 1, 0, 0, 0, 0, time.UTC)}
	}},
}

var fermatRe = regexp.MustCompile(`factored into p: (\d+); q: (\d+)`)

func subRSA(out string, seed uint64, tier string, arg string) {
	rng := NewRNG(seed)
	rep := newReport("rsa", seed, tier)
	rep.Rule = "kit certificates carrying chosen (N, e): bit lengths k-1,k,k+1 around 1024/2048/3072 and around multiples of 8, N = d*m for every d in 2..760, products of primes needing exactly r-1, r, r+1 Fermat rounds for several configured round counts, perfect squares, boundary exponents; verdicts of the fourteen RSA lints (through the real framework) and the reported factorisation vs. the model; plus checkPrimeFactorsTooClose and PrimeNoSmallerThan752 called directly; distinct = distinct op lines"
	ops, _ := os.Create(filepath.Join(out, "ops.txt"))
	impl, _ := os.Create(filepath.Join(out, "impl.out"))
	wo, wi := bufio.NewWriter(ops), bufio.NewWriter(impl)
	defer func() { wo.Flush(); wi.Flush(); ops.Close(); impl.Close() }()
	g := lint.GlobalRegistry()
	emitLine := func(line, res string) {
		fmt.Fprintln(wo, line)
		fmt.Fprintln(wi, res)
		rep.Evaluations++
		rep.distinctKey(line)
		rep.sample(map[string]string{"op": line[:min(len(line), 200)], "impl": res[:min(len(res), 300)]})
	}
	regs := map[int]lint.Registry{}
	regFor := func(rounds int) lint.Registry {
		if r, ok := regs[rounds]; ok {
			return r
		}
		r, _ := g.Filter(lint.FilterOptions{NameFilter: regexp.MustCompile("rsa|modulus|exponent")})
		if rounds >= 0 {
			cfg, err := lint.NewConfigFromString(fmt.Sprintf("[e_rsa_fermat_factorization]\nRounds = %d\n", rounds))
			if err != nil {
				panic(err)
			}
			r.SetConfiguration(cfg)
		}
		regs[rounds] = r
		return r
	}
	// one op: a certificate variant carrying (N, e), linted with Rounds = rounds (-1: default 100)
	certOp := func(v rsaVariant, n *big.Int, e int, rounds int) {
		if n.Sign() <= 0 || e <= 0 {
			return
		}
		pub := &rsa.PublicKey{N: n, E: e}
		der, err := BuildCert(v.spec(pub))
		if err != nil {
			rep.count("build-failed")
			return
		}
		o := parseObj("cert", "kit-rsa", der)
		if o == nil {
			rep.count("rejected-by-parser")
			return
		}
		if k, ok := o.Cert.PublicKey.(*rsa.PublicKey); !ok || k.N.Cmp(n) != 0 || k.E != e {
			rep.violate(Violation{"C16", "parser did not deliver the RSA key that was encoded (A-RSA)", "a-rsa", replayOf(o, nil)})
			return
		}
		rs, p := lintObj(o, regFor(rounds))
		if p != "" || rs == nil {
			emitLine(fmt.Sprintf("rsa\t%s\t%d\t%d\t%s", n.String(), e, rounds, strings.Join(v.lints, ",")), "panic")
			return
		}
		var parts []string
		for _, name := range v.lints {
			r := rs.Results[name]
			if r == nil {
				parts = append(parts, name+"=missing")
				continue
			}
			s := fmt.Sprintf("%s=%d", name, int(r.Status))
			if name == "e_rsa_fermat_factorization" && r.Status == lint.Error {
				if m := fermatRe.FindStringSubmatch(r.Details); m != nil {
					s += ":" + m[1] + ":" + m[2]
				} else {
					s += ":unparsed"
				}
			}
			parts = append(parts, s)
		}
		eff := rounds
		if eff < 0 {
			eff = 100
		}
		rep.count("variant:" + v.name)
		emitLine(fmt.Sprintf("rsa\t%s\t%d\t%d\t%s", n.String(), e, eff, strings.Join(v.lints, ",")), strings.Join(parts, ";"))
	}
	one := big.NewInt(1)
	pow2 := func(k int) *big.Int { return new(big.Int).Lsh(one, uint(k)) }
	oddify := func(n *big.Int) *big.Int {
		if n.Bit(0) == 0 {
			return new(big.Int).Add(n, one)
		}
		return n
	}
	// ---- bit-length boundaries
	for _, k := range []int{1024, 2048, 3072} {
		for _, n := range []*big.Int{new(big.Int).Sub(pow2(k-1), one), pow2(k - 1), oddify(pow2(k - 1)), new(big.Int).Sub(pow2(k), one), pow2(k), new(big.Int).Sub(pow2(k-1), big.NewInt(3)),
			new(big.Int).Add(pow2(k-2), big.NewInt(12345)), new(big.Int).Add(pow2(k+7), big.NewInt(1))} {
			for _, v := range rsaVariants {
				if v.name == "oldroot" {
					continue // needs a real self-signature: handled below with generated keys
				}
				certOp(v, n, 65537, -1)
			}
		}
	}
	for _, k := range []int{2040, 2041, 2047, 2049, 2055, 2056, 2057, 3064, 3065, 3071, 3073, 3079, 3080, 4096, 512, 8, 9, 16, 17} {
		n := oddify(new(big.Int).Add(pow2(k-1), new(big.Int).SetUint64(rng.Next()>>1)))
		if n.BitLen() != k {
			n = oddify(pow2(k - 1))
		}
		for _, v := range rsaVariants[:2] {
			certOp(v, n, 65537, -1)
		}
	}
	// ---- genuinely self-signed old roots with generated keys of boundary sizes
	for _, bits := range []int{1024, 2047, 2048} {
		key, err := rsa.GenerateKey(rand.Reader, bits)
		if err != nil {
			continue
		}
		v := rsaVariants[2]
		spec := v.spec(&key.PublicKey)
		spec.SelfSignKey = key
		der, err := BuildCert(spec)
		if err != nil {
			rep.count("build-failed")
			continue
		}
		o := parseObj("cert", "kit-oldroot", der)
		if o == nil || !o.Cert.SelfSigned {
			rep.count("oldroot-not-selfsigned")
			continue
		}
		rs, p := lintObj(o, regFor(-1))
		if p != "" || rs == nil || rs.Results[v.lints[0]] == nil {
			continue
		}
		rep.count("variant:oldroot")
		emitLine(fmt.Sprintf("rsa\t%s\t%d\t%d\t%s", key.N.String(), key.E, 100, v.lints[0]), fmt.Sprintf("%s=%d", v.lints[0], int(rs.Results[v.lints[0]].Status)))
	}
	// ---- small factors: every d in 2..760 times a cofactor without small factors
	cof, _ := closePrimes(1040, 2)
	for d := int64(2); d <= 760; d++ {
		certOp(rsaVariants[0], new(big.Int).Mul(big.NewInt(d), cof), 65537, 0)
	}
	certOp(rsaVariants[0], cof, 65537, 0)
	// the property itself, on the real code and independently of the table: every d in 2..751 times the (small-factor free) cofactor
	// has a factor below 752 and must be reported; the cofactor alone and 757 / 761 times it must not
	for d := int64(2); d < 752; d++ {
		rep.Evaluations++
		if util.PrimeNoSmallerThan752(new(big.Int).Mul(big.NewInt(d), cof)) {
			rep.violate(Violation{"C16", fmt.Sprintf("PrimeNoSmallerThan752 reports no factor below 752 for %d * (a number without small factors)", d), "small-factor-missed", map[string]interface{}{"d": d, "cofactor": cof.String()}})
		}
	}
	for _, d := range []int64{1, 757, 761, 757 * 761} {
		if !util.PrimeNoSmallerThan752(new(big.Int).Mul(big.NewInt(d), cof)) {
			rep.violate(Violation{"C16", fmt.Sprintf("PrimeNoSmallerThan752 reports a factor below 752 for %d * (a number without small factors)", d), "small-factor-invented", map[string]interface{}{"d": d, "cofactor": cof.String()}})
		}
	}
	for _, p := range util.VerifPrimes() {
		n := new(big.Int).Mul(big.NewInt(p), cof)
		if util.PrimeNoSmallerThan752(n) {
			rep.violate(Violation{"C16", fmt.Sprintf("PrimeNoSmallerThan752 misses table prime %d", p), "prime-missed", map[string]interface{}{"p": p}})
		}
	}
	// ---- exponents
	mod2048, _ := closePrimes(1024, 1<<40)
	mod2048 = new(big.Int).Mul(mod2048, cof)
	for _, e := range []int{1, 2, 3, 4, 5, 17, 65535, 65536, 65537, 65538, 65539, 1<<31 - 1, 1 << 31, 1<<62 - 1, 1 << 62, 1<<63 - 1} {
		certOp(rsaVariants[0], mod2048, e, 0)
	}
	// ---- Fermat: primes at chosen distances, round counts around the exact need
	nf := 12
	if tier == "thorough" {
		nf = 60
	}
	for i := 0; i < nf; i++ {
		bits := 256 + 64*(i%4)
		p, _ := closePrimes(bits, int64(1000+i))
		gap := new(big.Int).Lsh(big.NewInt(int64(1+rng.Intn(60))), uint(bits/2-2))
		if i%5 == 0 {
			gap = big.NewInt(int64(2 + rng.Intn(5000)))
		}
		q := nextPrime(new(big.Int).Add(p, gap))
		n := new(big.Int).Mul(p, q)
		// rounds needed: a* - a0 + 1
		astar := new(big.Int).Rsh(new(big.Int).Add(p, q), 1)
		a0 := new(big.Int).Add(new(big.Int).Sqrt(n), one)
		need := new(big.Int).Add(new(big.Int).Sub(astar, a0), one)
		if !need.IsInt64() || need.Int64() > 3000 || need.Int64() < 1 {
			continue
		}
		k := int(need.Int64())
		rep.count(fmt.Sprintf("fermat-need:%d", k))
		// the same modulus under a sequence of Rounds settings, rising and then falling again: each run must depend on
		// its own configuration only (a verdict remembered from an earlier, larger or smaller, budget shows up here)
		for _, r := range []int{k - 1, k, k + 1, 0, 1, k - 1, k, 0} {
			if r < 0 {
				continue
			}
			certOp(rsaVariants[0], n, 65537, r)
			// direct call of the helper, too
			err := community.VerifCheckPrimeFactorsTooClose(n, r)
			res := "none"
			if err != nil {
				if m := fermatRe.FindStringSubmatch(err.Error()); m != nil {
					res = m[1] + ":" + m[2]
				}
			}
			emitLine(fmt.Sprintf("fermat\t%s\t%d", n.String(), r), res)
		}
		if k <= 100 {
			certOp(rsaVariants[0], n, 65537, -1) // default Rounds = 100
		}
	}
	// perfect squares and tiny moduli
	for _, s := range []int64{3, 5, 7, 11, 101, 65537} {
		emitFermat := func(n *big.Int, r int) {
			err := community.VerifCheckPrimeFactorsTooClose(n, r)
			res := "none"
			if err != nil {
				if m := fermatRe.FindStringSubmatch(err.Error()); m != nil {
					res = m[1] + ":" + m[2]
				}
			}
			emitLine(fmt.Sprintf("fermat\t%s\t%d", n.String(), r), res)
		}
		emitFermat(new(big.Int).Mul(big.NewInt(s), big.NewInt(s)), 5)
		emitFermat(new(big.Int).Mul(big.NewInt(s), big.NewInt(s+2)), 5)
		emitFermat(big.NewInt(s), 3)
	}
	for n := int64(1); n <= 400; n++ {
		err := community.VerifCheckPrimeFactorsTooClose(big.NewInt(n), 4)
		res := "none"
		if err != nil {
			if m := fermatRe.FindStringSubmatch(err.Error()); m != nil {
				res = m[1] + ":" + m[2]
			}
		}
		emitLine(fmt.Sprintf("fermat\t%d\t4", n), res)
	}
	// the runtime prime table equals what the extractor read from the source (checked in Python against facts.json)
	pr := util.VerifPrimes()
	sort.Slice(pr, func(i, j int) bool { return pr[i] < pr[j] })
	rep.Extra["runtime_primes"] = pr
	_ = zlint.Version
	rep.write(filepath.Join(out, "report.json"))
}
