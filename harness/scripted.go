package main

// Scripted synthetic lints: every stage's behaviour is dictated by a spec, and
// every call is logged, so the real framework can be compared with the Lean
// model over the whole abstract behaviour space.

import (
	"crypto/rand"
	stdx509 "crypto/x509"
	"crypto/x509/pkix"
	"fmt"
	"math/big"
	"strings"
	"time"

	"github.com/zmap/zcrypto/x509"
	"github.com/zmap/zlint/v3/lint"
	"golang.org/x/crypto/ocsp"
)

type LintSpec struct {
	Name   string
	Source string
	Eff    string // "Z" or "sec.nsec"
	Ineff  string
	Cfg    string // n | ok | err | tbl | pan
	App    string // T | F | P
	Body   string // s<int> | nil | P
}

func (s LintSpec) String() string {
	return strings.Join([]string{s.Name, s.Source, s.Eff, s.Ineff, s.Cfg, s.App, s.Body}, ",")
}

func parseTimeSpec(s string) time.Time {
	if s == "Z" {
		return time.Time{}
	}
	var sec, nsec int64
	fmt.Sscanf(s, "%d.%d", &sec, &nsec)
	return time.Unix(sec, nsec).UTC()
}

type recorder struct{ log map[string]*strings.Builder }

func (r *recorder) add(name string, c byte) {
	b, ok := r.log[name]
	if !ok {
		b = &strings.Builder{}
		r.log[name] = b
	}
	b.WriteByte(c)
}

type scriptedCfg struct {
	A int
}

type scriptedBase struct {
	spec *LintSpec
	rec  *recorder
}

func (l *scriptedBase) applies() bool {
	l.rec.add(l.spec.Name, 'a')
	switch l.spec.App {
	case "T":
		return true
	case "F":
		return false
	}
	panic("boom-applies-" + l.spec.Name)
}

func (l *scriptedBase) body() *lint.LintResult {
	l.rec.add(l.spec.Name, 'b')
	switch {
	case l.spec.Body == "nil":
		return nil
	case l.spec.Body == "P":
		panic("boom-body-" + l.spec.Name)
	}
	var st int
	fmt.Sscanf(l.spec.Body, "s%d", &st)
	return &lint.LintResult{Status: lint.LintStatus(st), Details: "d-" + l.spec.Name}
}

// plain (not Configurable) variants
type certPlain struct{ scriptedBase }

func (l *certPlain) CheckApplies(c *x509.Certificate) bool        { return l.applies() }
func (l *certPlain) Execute(c *x509.Certificate) *lint.LintResult { return l.body() }

type crlPlain struct{ scriptedBase }

func (l *crlPlain) CheckApplies(c *x509.RevocationList) bool        { return l.applies() }
func (l *crlPlain) Execute(c *x509.RevocationList) *lint.LintResult { return l.body() }

type ocspPlain struct{ scriptedBase }

func (l *ocspPlain) CheckApplies(c *ocsp.Response) bool        { return l.applies() }
func (l *ocspPlain) Execute(c *ocsp.Response) *lint.LintResult { return l.body() }

// Configurable variants
type confMixin struct {
	scriptedBase
	cfg scriptedCfg
}

func (l *confMixin) Configure() interface{} {
	l.rec.add(l.spec.Name, 'f')
	if l.spec.Cfg == "pan" {
		panic("boom-configure-" + l.spec.Name)
	}
	return &l.cfg
}

type certConf struct{ confMixin }

func (l *certConf) CheckApplies(c *x509.Certificate) bool        { return l.applies() }
func (l *certConf) Execute(c *x509.Certificate) *lint.LintResult { return l.body() }

type crlConf struct{ confMixin }

func (l *crlConf) CheckApplies(c *x509.RevocationList) bool        { return l.applies() }
func (l *crlConf) Execute(c *x509.RevocationList) *lint.LintResult { return l.body() }

type ocspConf struct{ confMixin }

func (l *ocspConf) CheckApplies(c *ocsp.Response) bool        { return l.applies() }
func (l *ocspConf) Execute(c *ocsp.Response) *lint.LintResult { return l.body() }

func specMeta(s *LintSpec) lint.LintMetadata {
	return lint.LintMetadata{
		Name:            s.Name,
		Description:     "scripted " + s.Name,
		Citation:        "verif",
		Source:          lint.LintSource(s.Source),
		EffectiveDate:   parseTimeSpec(s.Eff),
		IneffectiveDate: parseTimeSpec(s.Ineff),
	}
}

// registerScripted registers spec into reg (a fresh registry) as the given kind.
func registerScripted(reg lint.Registry, kind string, s *LintSpec, rec *recorder) error {
	base := scriptedBase{spec: s, rec: rec}
	conf := s.Cfg != "n"
	switch kind {
	case "cert":
		return lint.VerifRegisterCertificateLint(reg, &lint.CertificateLint{LintMetadata: specMeta(s), Lint: func() lint.CertificateLintInterface {
			rec.add(s.Name, 'c')
			if conf {
				return &certConf{confMixin{scriptedBase: base}}
			}
			return &certPlain{base}
		}})
	case "crl":
		return lint.VerifRegisterRevocationListLint(reg, &lint.RevocationListLint{LintMetadata: specMeta(s), Lint: func() lint.RevocationListLintInterface {
			rec.add(s.Name, 'c')
			if conf {
				return &crlConf{confMixin{scriptedBase: base}}
			}
			return &crlPlain{base}
		}})
	case "ocsp":
		return lint.VerifRegisterOcspResponseLint(reg, &lint.OcspResponseLint{LintMetadata: specMeta(s), Lint: func() lint.OcspResponseLintInterface {
			rec.add(s.Name, 'c')
			if conf {
				return &ocspConf{confMixin{scriptedBase: base}}
			}
			return &ocspPlain{base}
		}})
	}
	return fmt.Errorf("bad kind %s", kind)
}

// configFor builds the TOML text realising the Cfg column of each spec.
func configFor(specs []LintSpec, rng *RNG) string {
	var b strings.Builder
	var scalars []string
	for _, s := range specs {
		switch s.Cfg {
		case "tbl":
			scalars = append(scalars, fmt.Sprintf("%s = 5\n", s.Name))
		}
	}
	// top-level scalars must precede tables in TOML
	for _, x := range scalars {
		b.WriteString(x)
	}
	for _, s := range specs {
		switch s.Cfg {
		case "ok", "pan":
			if rng.Bool() {
				fmt.Fprintf(&b, "[%s]\nA = %d\n", s.Name, rng.Intn(100))
			}
		case "err":
			fmt.Fprintf(&b, "[%s]\nA = \"not-an-int\"\n", s.Name)
		case "n":
			if rng.Intn(4) == 0 {
				fmt.Fprintf(&b, "[%s]\nA = 1\nB = \"ignored\"\n", s.Name)
			}
		}
	}
	if rng.Intn(3) == 0 {
		b.WriteString("[unrelated_section]\nx = true\n")
	}
	return b.String()
}

// ---------- objects with a chosen target time -----------------------------------

func buildCRL(thisUpdate, nextUpdate time.Time) (*x509.RevocationList, []byte, error) {
	kitInit()
	issuer := &stdx509.Certificate{
		Subject:      pkix.Name{CommonName: "Kit CRL Issuer"},
		SerialNumber: big.NewInt(1),
		KeyUsage:     stdx509.KeyUsageCRLSign,
		SubjectKeyId: []byte{1, 2, 3, 4},
	}
	tmpl := &stdx509.RevocationList{Number: big.NewInt(7), ThisUpdate: thisUpdate, NextUpdate: nextUpdate}
	der, err := stdx509.CreateRevocationList(rand.Reader, tmpl, issuer, kitCAKey)
	if err != nil {
		return nil, nil, err
	}
	crl, err := x509.ParseRevocationList(der)
	return crl, der, err
}

var ocspIssuer *stdx509.Certificate

func buildOCSP(thisUpdate, nextUpdate, producedAt time.Time) (*ocsp.Response, []byte, error) {
	kitInit()
	if ocspIssuer == nil {
		tmpl := &stdx509.Certificate{SerialNumber: big.NewInt(2), Subject: pkix.Name{CommonName: "Kit OCSP CA"},
			NotBefore: time.Date(2020, 1, 1, 0, 0, 0, 0, time.UTC), NotAfter: time.Date(2040, 1, 1, 0, 0, 0, 0, time.UTC),
			IsCA: true, BasicConstraintsValid: true, KeyUsage: stdx509.KeyUsageCertSign | stdx509.KeyUsageDigitalSignature}
		der, err := stdx509.CreateCertificate(rand.Reader, tmpl, tmpl, &kitCAKey.PublicKey, kitCAKey)
		if err != nil {
			return nil, nil, err
		}
		ocspIssuer, err = stdx509.ParseCertificate(der)
		if err != nil {
			return nil, nil, err
		}
	}
	tmpl := ocsp.Response{Status: ocsp.Good, SerialNumber: big.NewInt(99), ThisUpdate: thisUpdate, NextUpdate: nextUpdate, ProducedAt: producedAt}
	der, err := ocsp.CreateResponse(ocspIssuer, ocspIssuer, tmpl, kitCAKey)
	if err != nil {
		return nil, nil, err
	}
	resp, err := ocsp.ParseResponse(der, nil)
	return resp, der, err
}
