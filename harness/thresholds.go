package main

// thresholds: the threshold-companion rule bodies modelled in lean/ZlModel/Thresholds.lean on the real code.
//
//   thr-val <notBefore ns> <notAfter ns>   the two Apple validity lints through the framework  →  s398,s397
//   thr-rc  <hex>                          unicode/utf8.RuneCountInString                     →  n
//   thr-gn  <hex,…>                        the two given-name length lints through the framework on a subject carrying those givenName values → sErr,sWarn

import (
	"bufio"
	stdx509 "crypto/x509"
	"encoding/asn1"
	"fmt"
	"os"
	"path/filepath"
	"strings"
	"time"
	"unicode/utf8"

	"github.com/zmap/zlint/v3/lint"
)

func init() {
	subs["thresholds"] = subThresholds
}

func subThresholds(out string, seed uint64, tier string, arg string) {
	rng := NewRNG(seed)
	rep := newReport("thresholds", seed, tier)
	rep.Rule = "the 398/397-day lints on kit certificates whose validity is 396..400 days -1s/0/+1s, short, multi-year and beyond the range of a Go Duration; utf8.RuneCountInString on every byte string of length <= 3 over 14 boundary bytes plus random strings; the given-name length lints on subjects with 63/64/65-character names in ASCII, multi-byte and invalid UTF-8, and 32767/32768/32769 characters; distinct = distinct op lines"
	ops, _ := os.Create(filepath.Join(out, "ops.txt"))
	impl, _ := os.Create(filepath.Join(out, "impl.out"))
	wo, wi := bufio.NewWriter(ops), bufio.NewWriter(impl)
	defer func() { wo.Flush(); wi.Flush(); ops.Close(); impl.Close() }()
	emit := func(line, res string) {
		fmt.Fprintln(wo, line)
		fmt.Fprintln(wi, res)
		rep.Evaluations++
		rep.distinctKey(line)
		rep.count(strings.SplitN(line, "\t", 2)[0] + ":" + res)
		rep.sample(map[string]string{"op": line, "impl": res})
	}
	g := lint.GlobalRegistry()
	st := func(rs map[string]*lint.LintResult, n string) string {
		r := rs[n]
		if r == nil {
			return "nil"
		}
		return fmt.Sprint(int(r.Status))
	}
	// --- validity
	regV, err := g.Filter(lint.FilterOptions{IncludeNames: []string{"e_tls_server_cert_valid_time_longer_than_398_days", "w_tls_server_cert_valid_time_longer_than_397_days"}})
	if err == nil {
		nb := time.Date(2021, 1, 1, 0, 0, 0, 0, time.UTC)
		doVal := func(na time.Time) {
			der, err := BuildCert(CertSpec{NotBefore: nb, NotAfter: na, DNS: []string{"v.example.com"}, EKUs: []stdx509.ExtKeyUsage{stdx509.ExtKeyUsageServerAuth}})
			if err != nil {
				rep.count("kit-build-error:validity")
				return
			}
			o := parseObj("cert", "kit-validity", der)
			if o == nil {
				rep.count("kit-rejected-by-parser:validity")
				return
			}
			rs, p := lintObj(o, regV)
			if p != "" || rs == nil {
				return
			}
			a, b := rs.Results["e_tls_server_cert_valid_time_longer_than_398_days"], rs.Results["w_tls_server_cert_valid_time_longer_than_397_days"]
			if a == nil || b == nil || a.Status < lint.Pass || b.Status < lint.Pass {
				rep.count("validity:not-both-ran")
				return
			}
			emit(fmt.Sprintf("thr-val\t%d\t%d", o.Cert.NotBefore.UnixNano(), o.Cert.NotAfter.UnixNano()), st(rs.Results, "e_tls_server_cert_valid_time_longer_than_398_days")+","+st(rs.Results, "w_tls_server_cert_valid_time_longer_than_397_days"))
		}
		for _, days := range []int{1, 90, 396, 397, 398, 399, 400, 825, 3650} {
			for _, ds := range []int{-2, -1, 0, 1} {
				doVal(nb.Add(time.Duration(days)*24*time.Hour + time.Duration(ds)*time.Second))
			}
		}
		// beyond the range of a Duration: UnixNano is not defined there, so these are checked against the saturated expectation directly
		for _, y := range []int{2400, 9999} {
			na := time.Date(y, 12, 31, 23, 59, 59, 0, time.UTC)
			der, err := BuildCert(CertSpec{NotBefore: nb, NotAfter: na, DNS: []string{"v.example.com"}, EKUs: []stdx509.ExtKeyUsage{stdx509.ExtKeyUsageServerAuth}})
			if err == nil {
				if o := parseObj("cert", "kit-validity-far", der); o != nil {
					rs, _ := lintObj(o, regV)
					if rs != nil && (st(rs.Results, "e_tls_server_cert_valid_time_longer_than_398_days") != "6" || st(rs.Results, "w_tls_server_cert_valid_time_longer_than_397_days") != "5") {
						rep.violate(Violation{"C20", fmt.Sprintf("validity lints on notAfter year %d: %s / %s (expected error / warn: the duration saturates)", y, st(rs.Results, "e_tls_server_cert_valid_time_longer_than_398_days"), st(rs.Results, "w_tls_server_cert_valid_time_longer_than_397_days")), "validity-far", replayOf(o, nil)})
					}
					rep.count("validity-far-checked")
				}
			}
		}
	}
	// --- RuneCountInString
	hx := func(b []byte) string {
		if len(b) == 0 {
			return "-"
		}
		return hexs(b)
	}
	doRC := func(b []byte) { emit("thr-rc\t"+hx(b), fmt.Sprint(utf8.RuneCountInString(string(b)))) }
	maxLen := 3
	if tier == "thorough" {
		maxLen = 4
	}
	enumStrings([]byte{0x41, 0x7F, 0x80, 0x8F, 0x90, 0x9F, 0xA0, 0xBF, 0xC1, 0xC2, 0xE0, 0xED, 0xF0, 0xF4}, maxLen, doRC)
	for _, b := range []byte{0xC0, 0xDF, 0xE1, 0xEC, 0xEE, 0xEF, 0xF1, 0xF3, 0xF5, 0xFF} {
		for _, c := range []byte{0x7F, 0x80, 0xBF, 0xC0} {
			doRC([]byte{b, c})
			doRC([]byte{b, c, 0x80})
			doRC([]byte{b, c, 0x80, 0x80})
			doRC([]byte{b, 0x80, c, 0x80})
			doRC([]byte{b, 0x80, 0x80, c})
		}
	}
	nr := 2000
	if tier == "thorough" {
		nr = 40000
	}
	for i := 0; i < nr; i++ {
		b := rng.Bytes(rng.Intn(12))
		for j := range b {
			if rng.Intn(2) == 0 {
				b[j] = []byte{0x80, 0xBF, 0xC2, 0xE0, 0xE1, 0xED, 0xF0, 0xF1, 0xF4, 0x9F, 0xA0, 0x8F, 0x90}[rng.Intn(13)]
			}
		}
		doRC(b)
	}
	// --- given-name and surname lints (the same two limits, 32768 and 64 characters, on two attributes)
	for _, attr := range []struct {
		e, w string
		oid  asn1.ObjectIdentifier
		get  func(o *Obj) []string
	}{
		{"e_subject_given_name_max_length", "w_subject_given_name_recommended_max_length", oidGN, func(o *Obj) []string { return o.Cert.Subject.GivenName }},
		{"e_subject_surname_max_length", "w_subject_surname_recommended_max_length", asn1.ObjectIdentifier{2, 5, 4, 4}, func(o *Obj) []string { return o.Cert.Subject.Surname }},
	} {
		attr := attr
		regG, err := g.Filter(lint.FilterOptions{IncludeNames: []string{attr.e, attr.w}})
		if err != nil {
			rep.count("name-length-lints-missing:" + attr.e)
			continue
		}
		doGN := func(vals []string, tag byte) {
			rdns := [][]atv{{{oidC, 0x13, "US"}}}
			for _, v := range vals {
				rdns = append(rdns, []atv{{attr.oid, tag, v}})
			}
			rdns = append(rdns, []atv{{oidCN, 0x0C, "n.example.com"}})
			der, err := BuildCert(CertSpec{Subject: pkixName("placeholder"), DNS: []string{"n.example.com"}})
			if err != nil {
				return
			}
			cd, _ := ParseCertDER(der)
			sn, _, err := ParseNode(rawName(rdns))
			if err != nil {
				return
			}
			cd.tbs.Kids[4+cd.off] = sn
			o := parseObj("cert", "kit-namelength", cd.Bytes())
			if o == nil {
				rep.count("kit-rejected-by-parser:namelength")
				return
			}
			rs, p := lintObj(o, regG)
			if p != "" || rs == nil {
				return
			}
			a, b := rs.Results[attr.e], rs.Results[attr.w]
			if a == nil || b == nil || a.Status < lint.Pass || b.Status < lint.Pass {
				rep.count("namelength:not-both-ran")
				return
			}
			// the property itself, on the real code: an error from the higher limit comes with a finding from the lower one
			if a.Status == lint.Error && b.Status == lint.Pass {
				rep.violate(Violation{"C20", fmt.Sprintf("%s reports error while %s passes on the same certificate (value of %d octets)", attr.e, attr.w, len(strings.Join(vals, ""))), "threshold:" + attr.e,
					replayOf(o, map[string]interface{}{"lints": []string{attr.e, attr.w}})})
			}
			// the model is asked about what the parser hands the lints
			emit("thr-gn\t"+hexList(attr.get(o)), st(rs.Results, attr.e)+","+st(rs.Results, attr.w))
		}
		wide := "\U00020000" // four octets
		for _, n := range []int{1, 63, 64, 65} {
			doGN([]string{strings.Repeat("n", n)}, 0x0C)
			doGN([]string{strings.Repeat("é", n)}, 0x0C)
			doGN([]string{strings.Repeat("€", n)}, 0x0C)
			doGN([]string{strings.Repeat(wide, n)}, 0x0C)
			doGN([]string{strings.Repeat("\xff", n)}, 0x0C)
			doGN([]string{strings.Repeat("n", n)}, 0x13)
			doGN([]string{"ok", strings.Repeat("n", n)}, 0x0C)
		}
		for _, n := range []int{32767, 32768, 32769} {
			doGN([]string{strings.Repeat("n", n)}, 0x0C)
			doGN([]string{strings.Repeat("é", n)}, 0x0C)
		}
		// mixed widths: k characters of one width at the front (or at the back) of a value of n characters of another —
		// a shortcut that measures a prefix, or octets instead of characters, is exact on uniform strings only
		for _, k := range []int{63, 64, 65} {
			for _, n := range []int{64, 65, 66, 130, 32768, 32769, 33000} {
				if n < k {
					continue
				}
				ws := []string{wide, "€", "é"}
				if n > 1000 {
					// long values are costly for the model's list-based decoder: the quick tier keeps the widest characters at the
					// one prefix length that matters for a 64-character limit
					if tier != "thorough" && (k != 64 || n == 33000) {
						continue
					}
					ws = []string{wide}
				}
				for _, w := range ws {
					doGN([]string{strings.Repeat(w, k) + strings.Repeat("n", n-k)}, 0x0C)
					doGN([]string{strings.Repeat("n", n-k) + strings.Repeat(w, k)}, 0x0C)
				}
			}
		}
	}
	rep.write(filepath.Join(out, "report.json"))
}
