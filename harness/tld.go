package main

import (
	"bufio"
	stdx509 "crypto/x509"
	"fmt"
	"net"
	"os"
	"path/filepath"
	"sort"
	"strings"
	"time"

	"github.com/zmap/zlint/v3/lint"
	"github.com/zmap/zlint/v3/util"
	"golang.org/x/net/idna"
)

func init() {
	subs["tld"] = subTLD
}

func subTLD(out string, seed uint64, tier string, arg string) {
	rng := NewRNG(seed)
	rep := newReport("tld", seed, tier)
	rep.Rule = "util.HasValidTLD / IsInTLDMap called at, one second before and one second after the delegation and removal instant of every table entry, with case variants, trailing dots, empty and unknown labels; e_dnsname_not_valid_tld through the framework on certificates dated at those instants; distinct = distinct op lines"
	ops, _ := os.Create(filepath.Join(out, "ops.txt"))
	impl, _ := os.Create(filepath.Join(out, "impl.out"))
	wo, wi := bufio.NewWriter(ops), bufio.NewWriter(impl)
	defer func() { wo.Flush(); wi.Flush(); ops.Close(); impl.Close() }()
	b2s := func(b bool) string {
		if b {
			return "1"
		}
		return "0"
	}
	seen := map[string]bool{}
	emit := func(line, res string) {
		if seen[line] {
			return
		}
		seen[line] = true
		fmt.Fprintln(wo, line)
		fmt.Fprintln(wi, res)
		rep.Evaluations++
		rep.distinctKey(line)
		rep.count(strings.SplitN(line, "\t", 2)[0])
		rep.sample(map[string]string{"op": line, "impl": res})
	}
	valid := func(domain string, t time.Time) {
		emit(fmt.Sprintf("tld\t%s\t%d\t%d", esc(domain), t.Unix(), t.Nanosecond()), b2s(util.HasValidTLD(domain, t)))
	}
	tm := util.VerifTLDMap()
	var keys []string
	for k := range tm {
		keys = append(keys, k)
	}
	sort.Strings(keys)
	locs := []*time.Location{time.UTC, time.FixedZone("", 2*3600), time.FixedZone("", -8*3600)}
	for i, k := range keys {
		p := tm[k]
		var instants []time.Time
		if d, err := time.Parse("2006-01-02", p.DelegationDate); err == nil {
			instants = append(instants, d.Add(-time.Second), d, d.Add(time.Second))
		}
		if p.RemovalDate != "" {
			if d, err := time.Parse("2006-01-02", p.RemovalDate); err == nil {
				instants = append(instants, d.Add(-time.Second), d, d.Add(time.Second), d.Add(12*time.Hour))
			}
		}
		instants = append(instants, time.Date(2024, 6, 1, 12, 0, 0, 0, time.UTC))
		// instants far from today: the earliest and latest dates a certificate can carry (GeneralizedTime years 0001 and
		// 9999, incl. RFC 5280's 99991231235959Z), and years outside the 64-bit nanosecond range (1678..2262)
		far := []time.Time{time.Date(9999, 12, 31, 23, 59, 59, 0, time.UTC), time.Date(9999, 12, 31, 0, 0, 1, 0, time.UTC), time.Date(9999, 12, 30, 23, 59, 59, 0, time.UTC),
			time.Date(1, 1, 1, 0, 0, 1, 0, time.UTC), time.Date(1601, 1, 1, 0, 0, 0, 0, time.UTC), time.Date(1677, 1, 1, 0, 0, 0, 0, time.UTC), time.Date(2263, 1, 1, 0, 0, 0, 0, time.UTC),
			time.Date(2600, 2, 29, 0, 0, 0, 0, time.UTC), time.Date(5000, 1, 1, 0, 0, 0, 0, time.UTC), time.Date(1970, 1, 1, 0, 0, 0, 0, time.UTC), time.Date(1969, 12, 31, 23, 59, 59, 0, time.UTC)}
		if i%16 == 0 {
			instants = append(instants, far...)
		} else {
			instants = append(instants, far[i%len(far)])
		}
		for j, t := range instants {
			dom := "www.example." + k
			switch (i + j) % 5 {
			case 1:
				dom = strings.ToUpper(dom)
			case 2:
				dom = k
			case 3:
				dom = "a." + strings.ToUpper(k[:1]) + k[1:]
			}
			valid(dom, t.In(locs[(i+j)%3])) // the zone must not matter
		}
		emit("tldin\t"+esc(k), b2s(util.IsInTLDMap(k)))
		if i%7 == 0 {
			emit("tldin\t"+esc(strings.ToUpper(k)), b2s(util.IsInTLDMap(strings.ToUpper(k))))
			valid("example."+k+".", time.Date(2024, 6, 1, 0, 0, 0, 0, time.UTC)) // trailing dot: empty last label
		}
	}
	now := time.Date(2024, 6, 1, 0, 0, 0, 0, time.UTC)
	for _, d := range []string{"", ".", "..", "com", "COM", "a.b.c.com", "example.notatld", "example.c0m", "x.y.z.", "localhost", "a.onion", "a.local", "example.com.evil", "com.", ".com", "a..com", "x.xn--p1ai", "x.XN--P1AI", "-", "a.b-c"} {
		valid(d, now)
		emit("tldin\t"+esc(d), b2s(util.IsInTLDMap(d)))
	}
	for i := 0; i < 300; i++ {
		k := keys[rng.Intn(len(keys))]
		t := time.Unix(int64(rng.Intn(2000000000)), int64(rng.Intn(2))*500).UTC()
		valid("r"+fmt.Sprint(i)+"."+k, t)
	}
	// internationalised TLDs are in the table as A-labels only: the U-label spelling of a delegated IDN TLD (and its upper-case
	// form, and other non-ASCII last labels) is *not* a key, whatever some normalisation would make of it
	var uLabels []string
	for _, k := range keys {
		if !strings.HasPrefix(k, "xn--") {
			continue
		}
		ul, err := idna.ToUnicode(k)
		if err != nil || ul == k || strings.ContainsRune(ul, 0x212A) {
			continue
		}
		uLabels = append(uLabels, ul)
		for _, dom := range []string{"www.example." + ul, ul, "пример." + strings.ToUpper(ul)} {
			valid(dom, now)
			valid(dom, time.Date(1990, 1, 1, 0, 0, 0, 0, time.UTC))
		}
		emit("tldin\t"+esc(ul), b2s(util.IsInTLDMap(ul)))
	}
	rep.count(fmt.Sprintf("idn-u-labels=%d", len(uLabels)))
	// "compared case-insensitively": the two letters outside ASCII whose lower case is an ASCII letter (KELVIN SIGN U+212A -> k,
	// LATIN CAPITAL I WITH DOT ABOVE U+0130 -> i) spell table entries too. The model compares octets (it is stated for ASCII
	// names), so these spellings are judged on the real code against the plain spelling of the same name.
	nFold := 0
	for i, k := range keys {
		if i%3 != 0 && tier != "thorough" {
			continue
		}
		for _, sub := range [][2]string{{"k", "\u212a"}, {"i", "\u0130"}} {
			if !strings.Contains(k, sub[0]) {
				continue
			}
			spelled := strings.Replace(k, sub[0], sub[1], 1)
			for _, t := range []time.Time{now, time.Date(1990, 1, 1, 0, 0, 0, 0, time.UTC), time.Date(2016, 6, 1, 0, 0, 0, 0, time.UTC)} {
				a, b := util.HasValidTLD("www.example."+k, t), util.HasValidTLD("www.example."+spelled, t)
				rep.Evaluations++
				nFold++
				if a != b {
					rep.violate(Violation{"C18", fmt.Sprintf("HasValidTLD answers %v for %q and %v for the case-insensitively equal %q at %s", a, "www.example."+k, b, "www.example."+spelled, t.Format(time.RFC3339)),
						"case-fold:" + sub[0], map[string]interface{}{"plain": k, "spelled": spelled, "instant": t.Format(time.RFC3339)}})
				}
			}
			if a, b := util.IsInTLDMap(k), util.IsInTLDMap(spelled); a != b {
				rep.violate(Violation{"C18", fmt.Sprintf("IsInTLDMap answers %v for %q and %v for the case-insensitively equal %q", a, k, b, spelled), "case-fold-in:" + sub[0], map[string]interface{}{"plain": k, "spelled": spelled}})
			}
		}
	}
	rep.count(fmt.Sprintf("unicode-case-fold-spellings=%d", nFold))
	for _, d := range []string{"example.\u00fc", "example.c\u00f6m", "example.com\u0301", "example.\uff43\uff4f\uff4d", "example.co\u200dm", "example.\xff", "example.com\x80"} {
		valid(d, now)
	}
	// ---- the lint through the framework
	g, _ := lint.GlobalRegistry().Filter(lint.FilterOptions{IncludeNames: []string{"e_dnsname_not_valid_tld"}})
	nl := 120
	if tier == "thorough" {
		nl = 1200
	}
	lintOp := func(cn string, dns []string, nb time.Time) {
		der, err := BuildCert(CertSpec{NotBefore: nb, NotAfter: nb.Add(90 * 24 * time.Hour), Subject: pkixName(cn), DNS: dns, EKUs: []stdx509.ExtKeyUsage{stdx509.ExtKeyUsageServerAuth}})
		if err != nil {
			return
		}
		o := parseObj("cert", "kit-tld", der)
		if o == nil {
			return
		}
		rs, p := lintObj(o, g)
		if p != "" || rs == nil || rs.Results["e_dnsname_not_valid_tld"] == nil {
			return
		}
		var hs []string
		for _, d := range dns {
			hs = append(hs, esc(d))
		}
		isIP := net.ParseIP(cn) != nil
		emit(fmt.Sprintf("tldlint\t%s\t%s\t%s\t%d", esc(cn), b2s(isIP), strings.Join(hs, ","), nb.Unix()), fmt.Sprint(int(rs.Results["e_dnsname_not_valid_tld"].Status)))
	}
	for i := 0; i < nl; i++ {
		k := keys[rng.Intn(len(keys))]
		p := tm[k]
		nb := time.Date(2013+rng.Intn(11), time.Month(1+rng.Intn(12)), 1+rng.Intn(28), 0, 0, 0, 0, time.UTC)
		if d, err := time.Parse("2006-01-02", p.DelegationDate); err == nil && d.Year() >= 2012 && rng.Bool() {
			nb = d.Add(time.Duration(rng.Intn(3)-1) * time.Second)
		}
		if p.RemovalDate != "" {
			if d, err := time.Parse("2006-01-02", p.RemovalDate); err == nil && rng.Bool() {
				nb = d.Add(time.Duration(rng.Intn(3)-1) * time.Second)
			}
		}
		good := "ok.example.com"
		bad := "bad.example.notatld"
		name := "www.example." + k
		switch i % 6 {
		case 0:
			lintOp(name, []string{name}, nb)
		case 1:
			lintOp("", []string{good, name}, nb)
		case 2:
			lintOp("192.0.2.1", []string{name, good}, nb)
		case 3:
			lintOp(bad, []string{good}, nb)
		case 4:
			lintOp(good, []string{good, bad, name}, nb)
		case 5:
			lintOp(strings.ToUpper(name), []string{good, strings.ToUpper(name)}, nb)
		}
	}
	// common names that look like IP literals: only what net.ParseIP accepts exempts the CN from the TLD test
	nbIP := time.Date(2024, 6, 1, 0, 0, 0, 0, time.UTC)
	for _, cn := range []string{"192.0.2.1", "2001:db8::1", "::1", "fe80::1%eth0", "::1%www.example.notatld", "2001:db8::1%25.internal", "1.2.3.4%x", "[2001:db8::1]", "192.0.2.1:443",
		"192.0.2.1.", "192.0.2", "192.0.2.256", "0x7f.1", "::ffff:192.0.2.1", "1.2.3.4.example.notatld", "fe80::1%", "%eth0"} {
		lintOp(cn, []string{"ok.example.com"}, nbIP)
		lintOp(cn, []string{"ok.example.com", "www.example.org"}, nbIP)
	}
	// the lint on common names spelled with U-label TLDs (a UTF8String common name may hold them)
	for i, ul := range uLabels {
		if i%4 == 0 || tier == "thorough" {
			lintOp("\u043f\u0440\u0438\u043c\u0435\u0440."+ul, []string{"ok.example.com"}, nbIP)
		}
	}
	// runtime table for the Python-side comparison with the extracted literal
	rep.Extra["runtime_tld_count"] = len(tm)
	rep.write(filepath.Join(out, "report.json"))
}
