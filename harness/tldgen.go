package main

import (
	"bufio"
	"bytes"
	"encoding/hex"
	"fmt"
	"os"
	"os/exec"
	"path/filepath"
	"strings"
	"time"
)

func init() {
	subs["tldgen"] = subTLDGen
}

// subTLDGen drives the real table generator (cmd/zlint-gtld-update built with -tags verif, its
// line driver enabled by ZLINT_VERIF_GTLD_DRIVER) on generated feeds: validateGTLDs,
// delegatedGTLDs and the whole renderGTLDMap with an in-memory transport. The same op lines go
// to the Lean model of the generator.
func subTLDGen(out string, seed uint64, tier string, arg string) {
	rng := NewRNG(seed)
	rep := newReport("tldgen", seed, tier)
	rep.Rule = "validateGTLDs / delegatedGTLDs / renderGTLDMap of the built generator vs the Lean model on generated feeds: valid dates, every malformed date shape, empty delegation, removal before / equal / after delegation, duplicated names, names only in the TLD list, upper-case lines, comments and blank lines; distinct = distinct op lines"
	bin := filepath.Join(filepath.Dir(os.Args[0]), "gtldupd")
	if _, err := os.Stat(bin); err != nil {
		rep.violate(Violation{Property: "C18", Key: "generator-binary-missing", What: "the verif-tagged zlint-gtld-update binary was not built", Replay: toReplay(nil, false)})
		rep.write(filepath.Join(out, "report.json"))
		return
	}
	goodDates := []string{"1985-01-01", "2015-02-18", "2020-02-29", "2024-12-31", "1999-12-31", "0001-01-01", "9999-12-31", "2000-02-29", "2019-06-30"}
	badDates := []string{"2031-2-3", "2031-02-03T00:00:00Z", "20310203", "2031-13-01", "2031-02-30", "2031-00-10", "2031-01-00", "2021-02-29", "1900-02-29",
		"2031-02-03 ", " 2031-02-03", "31-02-03", "2031/02/03", "x", "2031-02-3x", "02-03-2031", "2031-02", "2031-04-31", "12031-01-01", "2031-1-01", "2031-01-1"}
	names := []string{"com", "org", "abc", "xn--p1ai", "zz", "a-b", "x1", "onionx", "museum", "ABC", "Com", "uk", "de"}
	h := func(s string) string { return hex.EncodeToString([]byte(s)) }
	type ent struct{ n, d, r string }
	show := func(es []ent) string {
		if len(es) == 0 {
			return "-"
		}
		var p []string
		for _, e := range es {
			p = append(p, h(e.n)+"|"+h(e.d)+"|"+h(e.r))
		}
		return strings.Join(p, ",")
	}
	pick := func(l []string) string { return l[rng.Intn(len(l))] }
	date := func(pBad int) string {
		if rng.Intn(100) < pBad {
			return pick(badDates)
		}
		return pick(goodDates)
	}
	genEntries := func(n, pBad int) []ent {
		var es []ent
		for i := 0; i < n; i++ {
			e := ent{n: pick(names), d: date(pBad)}
			switch rng.Intn(6) {
			case 0:
				e.d = ""
			case 1, 2:
				e.r = date(pBad)
			case 3:
				e.r = e.d
			}
			es = append(es, e)
		}
		return es
	}
	var lines []string
	seen := map[string]bool{}
	add := func(l string) {
		if seen[l] {
			return
		}
		seen[l] = true
		lines = append(lines, l)
		rep.Evaluations++
		rep.distinctKey(l)
		rep.count(strings.SplitN(l, "\t", 2)[0])
	}
	// every date shape alone, as delegation and as removal
	for _, d := range append(append([]string{""}, goodDates...), badDates...) {
		add("val\t" + show([]ent{{"abc", d, ""}}))
		add("val\t" + show([]ent{{"abc", "2000-01-01", d}}))
		add("val\t" + show([]ent{{"abc", d, "2000-01-01"}}))
		add("val\t" + show([]ent{{"ok", "2000-01-01", ""}, {"abc", d, ""}}))
		add("gen\t" + show([]ent{{"abc", d, ""}}) + "\t" + h("COM"))
		add("gen\t" + show([]ent{{"abc", "2001-01-01", d}}) + "\t-")
	}
	add("val\t-")
	add("del\t-")
	add("gen\t-\t-")
	n := 300
	if tier == "thorough" {
		n = 4000
	}
	tldLines := []string{"# Version 2024, Last Updated", "COM", "ORG", "ZZ", "abc", "", "  ", "UK", "XN--P1AI", "#x", "de", "NEW", "\t"}
	for i := 0; i < n; i++ {
		pBad := []int{0, 0, 5, 30}[rng.Intn(4)]
		es := genEntries(rng.Intn(7), pBad)
		switch rng.Intn(4) {
		case 0:
			add("val\t" + show(es))
		case 1:
			add("del\t" + show(es))
		default:
			var ls []string
			for j := rng.Intn(6); j > 0; j-- {
				ls = append(ls, h(pick(tldLines)))
			}
			l := "-"
			if len(ls) > 0 {
				l = strings.Join(ls, ",")
			}
			add("gen\t" + show(es) + "\t" + l)
		}
	}
	cmd := exec.Command(bin)
	cmd.Env = append(os.Environ(), "ZLINT_VERIF_GTLD_DRIVER=1")
	cmd.Stdin = strings.NewReader(strings.Join(lines, "\n") + "\n")
	var so, se bytes.Buffer
	cmd.Stdout, cmd.Stderr = &so, &se
	err := cmd.Run()
	res := strings.Split(strings.TrimRight(so.String(), "\n"), "\n")
	if err != nil || len(res) != len(lines) {
		rep.violate(Violation{Property: "C18", Key: "generator-driver-failed", What: fmt.Sprintf("the generator's line driver failed (%v) or answered %d of %d operations: %s", err, len(res), len(lines), se.String()), Replay: toReplay(nil, false)})
		rep.write(filepath.Join(out, "report.json"))
		return
	}
	ops, _ := os.Create(filepath.Join(out, "ops.txt"))
	impl, _ := os.Create(filepath.Join(out, "impl.out"))
	wo, wi := bufio.NewWriter(ops), bufio.NewWriter(impl)
	for i, l := range lines {
		fmt.Fprintln(wo, l)
		fmt.Fprintln(wi, res[i])
		kind := "ok"
		if res[i] == "err" {
			kind = "err"
		}
		rep.count(strings.SplitN(l, "\t", 2)[0] + ":" + kind)
		rep.sample(map[string]string{"op": l, "impl": res[i]})
		// direct oracle, independent of the model: no emitted row may carry an unparseable date or a removal before its delegation
		if strings.HasPrefix(l, "gen\t") && res[i] != "err" {
			if strings.HasPrefix(res[i], "rows-not-keyed") || strings.HasPrefix(res[i], "panic") {
				rep.violate(Violation{Property: "C18", Key: "generator-rows", What: "renderGTLDMap wrote a row not keyed by its own name, or panicked: " + res[i], Replay: toReplay(map[string]string{"op": l}, true)})
				continue
			}
			for _, row := range strings.Split(res[i], ",") {
				f := strings.Split(row, "|")
				if len(f) != 3 {
					continue
				}
				nm, _ := hex.DecodeString(f[0])
				d, _ := hex.DecodeString(f[1])
				r, _ := hex.DecodeString(f[2])
				dt, e1 := parseGoDate(string(d))
				bad := e1 != nil
				if !bad && len(r) > 0 {
					rt, e2 := parseGoDate(string(r))
					bad = e2 != nil || rt.Before(dt)
				}
				if bad {
					rep.violate(Violation{Property: "C18", Key: "generator-accepts-malformed-entry", What: fmt.Sprintf("renderGTLDMap wrote the table row %q with delegation %q and removal %q (unparseable date, or removal before delegation)", nm, d, r), Replay: toReplay(map[string]string{"op": l, "rows": res[i]}, true)})
				}
			}
		}
	}
	wo.Flush()
	wi.Flush()
	ops.Close()
	impl.Close()
	rep.write(filepath.Join(out, "report.json"))
}

func toReplay(m map[string]string, concrete bool) map[string]interface{} {
	out := map[string]interface{}{"concrete": concrete}
	for k, v := range m {
		out[k] = v
	}
	return out
}

func parseGoDate(s string) (time.Time, error) { return time.Parse("2006-01-02", s) }
