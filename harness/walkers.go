package main

// walkers: the byte/label walkers modelled in lean/ZlModel/Walkers.lean, run on the real code.
//
//   wcc  <hex>   explicitText UTF8String bytes carried by a certificate through the real
//                w_ext_cert_policy_explicit_text_includes_control lint (framework included):  pass | warn | panic
//   wbmp <hex>   util.ParseBMPString:   err | ok <hex of the returned string> | panic
//   wna  <oid>   util.IsNameAttribute:  0 | 1 | panic
//
// A `panic` answer from the implementation is itself a C02 violation with the input as replay.

import (
	"bufio"
	"encoding/asn1"
	"fmt"
	"os"
	"path/filepath"
	"strings"
	"time"

	zasn1 "github.com/zmap/zcrypto/encoding/asn1"
	"github.com/zmap/zcrypto/x509"
	"github.com/zmap/zlint/v3/lint"
	"github.com/zmap/zlint/v3/util"
)

func init() {
	subs["walkers"] = subWalkers
}

var oidCertPolicies = []byte{0x55, 0x1d, 0x20}

// policiesWithExplicitText: certificatePolicies ::= SEQ { SEQ { anyPolicy-ish OID, SEQ { SEQ { id-qt-unotice, SEQ { <tag> text } } } } }
func policiesWithExplicitText(tag byte, text []byte) *Node {
	polOID := prim(0x06, []byte{0x2b, 0x06, 0x01, 0x04, 0x01, 0x82, 0x37, 0x15, 0x01}) // some private policy
	unotice := prim(0x06, []byte{0x2b, 0x06, 0x01, 0x05, 0x05, 0x07, 0x02, 0x02})
	return cons(0x30, cons(0x30, polOID, cons(0x30, cons(0x30, unotice, cons(0x30, prim(tag, text))))))
}

type ccKit struct {
	base []byte
	reg  lint.Registry
}

func newCCKit() (*ccKit, error) {
	der, err := BuildCert(CertSpec{DNS: []string{"leaf.example.com"}, Policies: []asn1.ObjectIdentifier{{1, 3, 6, 1, 4, 1, 311, 21, 1}}})
	if err != nil {
		return nil, err
	}
	reg, err := lint.GlobalRegistry().Filter(lint.FilterOptions{IncludeNames: []string{"w_ext_cert_policy_explicit_text_includes_control"}})
	if err != nil {
		return nil, err
	}
	return &ccKit{base: der, reg: reg}, nil
}

// run returns pass | warn | panic | na | reject (parser refused) | other:<status>
func (k *ccKit) run(tag byte, text []byte) (string, []byte) {
	cd, err := ParseCertDER(k.base)
	if err != nil {
		return "reject", nil
	}
	e := cd.findExt(oidCertPolicies)
	if e == nil {
		return "reject", nil
	}
	setExtValue(e, policiesWithExplicitText(tag, text))
	der := cd.Bytes()
	c, err := x509.ParseCertificate(der)
	if err != nil {
		return "reject", der
	}
	o := &Obj{Kind: "cert", Name: "explicitText", DER: der, Cert: c}
	rs, pmsg := lintObj(o, k.reg)
	if pmsg != "" || rs == nil {
		return "panic", der
	}
	r := rs.Results["w_ext_cert_policy_explicit_text_includes_control"]
	if r == nil {
		return "other:nil", der
	}
	switch {
	case r.Status == lint.Pass:
		return "pass", der
	case r.Status == lint.Warn:
		return "warn", der
	case r.Status == lint.NA:
		return "na", der
	case r.Status == lint.Fatal && strings.Contains(r.Details, panicMarker):
		return "panic", der
	}
	return "other:" + r.Status.String(), der
}

func enumStrings(alpha []byte, maxLen int, f func([]byte)) {
	var rec func(cur []byte)
	rec = func(cur []byte) {
		f(append([]byte{}, cur...))
		if len(cur) == maxLen {
			return
		}
		for _, a := range alpha {
			rec(append(cur, a))
		}
	}
	rec(nil)
}

func subWalkers(out string, seed uint64, tier string, arg string) {
	rng := NewRNG(seed)
	rep := newReport("walkers", seed, tier)
	rep.Rule = "walkers with computed indices vs. their checked-index Lean models: the explicitText control-character walker through the real lint and framework on every byte string of length <= 4 (quick; 5 thorough) over a 9-symbol alphabet of UTF-8 lead/continuation/control bytes plus random strings; util.ParseBMPString on every string of length <= 4 over 6 symbols plus random; util.IsNameAttribute on OIDs of length 0..6; distinct = distinct op lines"
	ops, _ := os.Create(filepath.Join(out, "ops.txt"))
	impl, _ := os.Create(filepath.Join(out, "impl.out"))
	wo, wi := bufio.NewWriter(ops), bufio.NewWriter(impl)
	defer func() { wo.Flush(); wi.Flush(); ops.Close(); impl.Close() }()
	emit := func(line, res string) {
		fmt.Fprintln(wo, line)
		fmt.Fprintln(wi, res)
		rep.Evaluations++
		rep.distinctKey(line)
		rep.count(strings.SplitN(line, "\t", 2)[0] + ":" + strings.SplitN(res, " ", 2)[0])
		rep.sample(map[string]string{"op": line, "impl": res})
	}
	hx := func(b []byte) string {
		if len(b) == 0 {
			return "-"
		}
		return hexs(b)
	}

	// --- explicitText walker
	kit, err := newCCKit()
	if err != nil {
		rep.Notes = append(rep.Notes, "explicitText kit failed: "+err.Error())
	} else {
		doCC := func(text []byte) {
			res, der := kit.run(0x0C, text)
			if res == "reject" {
				rep.count("wcc:rejected-by-parser")
				return
			}
			if res == "na" {
				rep.count("wcc:not-applicable") // an empty explicitText is dropped by the parser: the walker does not run
				return
			}
			emit("wcc\t"+hx(text), res)
			if res == "panic" {
				rep.violate(Violation{"C02", fmt.Sprintf("lint w_ext_cert_policy_explicit_text_includes_control panicked on a UTF8String explicitText with bytes %s", hx(text)),
					"recovered:w_ext_cert_policy_explicit_text_includes_control", map[string]interface{}{"kind": "cert", "explicit_text_hex": hx(text), "der_hex": hexs(der)}})
			}
		}
		maxLen := 4
		if tier == "thorough" {
			maxLen = 5
		}
		enumStrings([]byte{0x41, 0x0A, 0x7F, 0xC2, 0x85, 0xE2, 0xF0, 0xFC, 0xDF}, maxLen, doCC)
		n := 500
		if tier == "thorough" {
			n = 8000
		}
		lead := []byte{0x41, 0x1F, 0x20, 0x7E, 0x7F, 0x80, 0x9F, 0xA0, 0xC2, 0xC3, 0xDF, 0xE0, 0xEF, 0xF0, 0xF7, 0xF8, 0xFB, 0xFC, 0xFD, 0xFE, 0xFF}
		for i := 0; i < n; i++ {
			l := 1 + rng.Intn(24)
			b := make([]byte, l)
			for j := range b {
				if rng.Intn(3) == 0 {
					b[j] = byte(rng.Next())
				} else {
					b[j] = lead[rng.Intn(len(lead))]
				}
			}
			doCC(b)
		}
		// other string types are not walked: the lint passes them
		for _, tag := range []byte{0x16, 0x1A, 0x1E} {
			res, _ := kit.run(tag, []byte{0xC2})
			rep.count(fmt.Sprintf("wcc-tag-%02x:%s", tag, res))
		}
	}

	// --- ParseBMPString
	doBMP := func(b []byte) {
		res := func() (r string) {
			defer func() {
				if e := recover(); e != nil {
					r = "panic"
				}
			}()
			s, err := util.ParseBMPString(append([]byte{}, b...))
			if err != nil {
				return "err"
			}
			return "ok " + hx([]byte(s))
		}()
		emit("wbmp\t"+hx(b), res)
		if res == "panic" {
			rep.violate(Violation{"C02", "util.ParseBMPString panicked on " + hx(b), "panic:ParseBMPString", map[string]interface{}{"bytes_hex": hx(b)}})
		}
	}
	enumStrings([]byte{0x00, 0x41, 0xD8, 0xDC, 0xFF, 0x20}, 4, doBMP)
	nb := 2000
	if tier == "thorough" {
		nb = 40000
	}
	for i := 0; i < nb; i++ {
		l := rng.Intn(40)
		b := make([]byte, l)
		for j := range b {
			switch rng.Intn(4) {
			case 0:
				b[j] = []byte{0xD8, 0xD9, 0xDB, 0xDC, 0xDF, 0xE0, 0xFF, 0xFE}[rng.Intn(8)]
			case 1:
				b[j] = 0
			default:
				b[j] = byte(rng.Next())
			}
		}
		doBMP(b)
	}

	// --- IsNameAttribute
	doNA := func(oid asn1.ObjectIdentifier) {
		res := func() (r string) {
			defer func() {
				if e := recover(); e != nil {
					r = "panic"
				}
			}()
			if util.IsNameAttribute(zasn1.ObjectIdentifier(oid)) {
				return "1"
			}
			return "0"
		}()
		parts := make([]string, len(oid))
		for i, a := range oid {
			parts[i] = fmt.Sprint(a)
		}
		s := strings.Join(parts, ".")
		if s == "" {
			s = "-"
		}
		emit("wna\t"+s, res)
		if res == "panic" {
			rep.violate(Violation{"C02", "util.IsNameAttribute panicked on " + s, "panic:IsNameAttribute", map[string]interface{}{"oid": s}})
		}
	}
	// --- the DecodeRune walk of e_subject_dn_not_printable_characters over subject attribute values
	if dnReg, err := lint.GlobalRegistry().Filter(lint.FilterOptions{IncludeNames: []string{"e_subject_dn_not_printable_characters"}}); err == nil {
		doDN := func(vals [][]byte, tag byte) {
			rdns := [][]atv{}
			for _, v := range vals {
				rdns = append(rdns, []atv{{oidO, tag, string(v)}})
			}
			rdns = append(rdns, []atv{{oidCN, 0x0C, "dn.example.com"}})
			der, err := BuildCert(CertSpec{Subject: pkixName("placeholder"), DNS: []string{"dn.example.com"}})
			if err != nil {
				return
			}
			cd, _ := ParseCertDER(der)
			sn, _, err := ParseNode(rawName(rdns))
			if err != nil {
				return
			}
			cd.tbs.Kids[4+cd.off] = sn
			o := parseObj("cert", "kit-dnwalk", cd.Bytes())
			if o == nil {
				rep.count(fmt.Sprintf("wdn:rejected-by-parser:tag%02x", tag))
				return
			}
			rep.count(fmt.Sprintf("wdn:accepted:tag%02x", tag))
			rs, p := lintObj(o, dnReg)
			res := "other"
			if p != "" || rs == nil {
				res = "panic"
			} else if r := rs.Results["e_subject_dn_not_printable_characters"]; r != nil {
				switch {
				case r.Status == lint.Pass:
					res = "pass"
				case r.Status == lint.Error:
					res = "error"
				case r.Status == lint.Fatal && strings.Contains(r.Details, panicMarker):
					res = "panic"
				default:
					res = "other:" + r.Status.String()
				}
			}
			var hs []string
			for _, v := range vals {
				hs = append(hs, hx(v))
			}
			hs = append(hs, hx([]byte("dn.example.com")))
			emit("wdn\t"+strings.Join(hs, ","), res)
			if res == "panic" {
				rep.violate(Violation{"C02", "e_subject_dn_not_printable_characters panicked on subject values " + strings.Join(hs, ","), "recovered:e_subject_dn_not_printable_characters", replayOf(o, nil)})
			}
		}
		enumStrings([]byte{0x41, 0x1F, 0x7F, 0x85, 0xC2, 0xE2, 0x82, 0xF0, 0xFF}, 3, func(b []byte) {
			if len(b) > 0 {
				for _, tg := range []byte{0x0C, 0x14, 0x13, 0x16, 0x1C, 0x04} {
					doDN([][]byte{b}, tg)
				}
			}
		})
		for i := 0; i < 300; i++ {
			var vals [][]byte
			for k := 1 + rng.Intn(3); k > 0; k-- {
				vals = append(vals, rng.Bytes(1+rng.Intn(8)))
			}
			doDN(vals, []byte{0x0C, 0x13, 0x16, 0x14}[rng.Intn(4)])
		}
	}
	// --- IsFQDN's prefix stripping, with a watchdog: these helpers loop on their input
	fqHangs := 0
	doFQ := func(b []byte) {
		if fqHangs >= 3 {
			rep.count("wfq:skipped-after-three-hangs") // every abandoned call keeps a core busy; three witnesses are enough
			return
		}
		type ans struct{ arg, fq string }
		ch := make(chan ans, 1)
		go func() {
			defer func() {
				if e := recover(); e != nil {
					ch <- ans{"panic", ""}
				}
			}()
			arg := util.RemovePrependedQuestionMarks(util.RemovePrependedWildcard(string(b)))
			fq := "0"
			if util.IsFQDN(string(b)) {
				fq = "1"
			}
			ch <- ans{hx([]byte(arg)), fq}
		}()
		select {
		case a := <-ch:
			emit("wfq\t"+hx(b), a.arg)
			if a.arg == "panic" {
				rep.violate(Violation{"C02", "util.IsFQDN / its prefix stripping panicked on " + hx(b), "panic:IsFQDN", map[string]interface{}{"bytes_hex": hx(b)}})
			}
		case <-time.After(3 * time.Second):
			fqHangs++
			emit("wfq\t"+hx(b), "hang")
			rep.violate(Violation{"C01", "util.IsFQDN does not return on " + hx(b) + " (it is reached from e_name_constraint_not_fqdn and the SAN/IAN URI host lints)", "hang:IsFQDN", map[string]interface{}{"bytes_hex": hx(b)}})
		}
	}
	enumStrings([]byte{'*', '?', '.', 'a'}, 5, doFQ)
	for _, s := range []string{"*.example.com", "?.?.example.com", "*.?.example.com", "?.*.example.com", "*example.com", "?ost.example.com", "*-example.com", "**.example.com", "?", "*", "?.", "*.", "*.*.a", "example.com"} {
		doFQ([]byte(s))
	}
	for leaf := 0; leaf <= 70; leaf++ {
		doNA(asn1.ObjectIdentifier{2, 5, 4, leaf})
		doNA(asn1.ObjectIdentifier{2, 5, 29, leaf})
		doNA(asn1.ObjectIdentifier{2, 5, 4, leaf, 1})
	}
	for _, o := range []asn1.ObjectIdentifier{{}, {2}, {2, 5}, {2, 5, 4}, {1, 5, 4, 3}, {2, 4, 4, 3}, {2, 5, 4, 3, 0, 0}} {
		doNA(o)
	}
	rep.write(filepath.Join(out, "report.json"))
}
