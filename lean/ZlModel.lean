import ZlModel.Basic
import ZlModel.Key
import ZlModel.Framework
import ZlModel.Scope
import ZlModel.Proto
