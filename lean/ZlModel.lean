import ZlModel.Basic
import ZlModel.Framework
