/-
  ZlModel.Basic — statuses, instants, the effective-window predicate.
  Core-only (no Mathlib) so that the driver links as a `lean_exe`.

  Code modelled: v3/lint/result.go (LintStatus), v3/util/time.go (OnOrAfter,
  BeforeOrOn), v3/lint/base.go (checkEffective).
-/
namespace Zl

/-- Raw lint status as the Go `LintStatus` int (may be out of range). -/
abbrev Status := Int

namespace Status
def reserved : Status := 0
def na : Status := 1
def ne : Status := 2
def pass : Status := 3
def notice : Status := 4
def warn : Status := 5
def error : Status := 6
def fatal : Status := 7
/-- one of the seven defined statuses (NA … fatal) -/
def valid7 (s : Status) : Bool := decide (1 ≤ s) && decide (s ≤ 7)
/-- a "finding-or-pass" status: pass, info, warn, error -/
def judged (s : Status) : Bool := decide (3 ≤ s) && decide (s ≤ 6)
end Status

/-- An instant, as Go's `time.Time` compares them: seconds since the Unix epoch
    plus nanoseconds. There is deliberately no location: `Before`, `After`,
    `Equal` and `IsZero` ignore it. -/
structure Time where
  sec : Int
  nsec : Nat
  deriving DecidableEq, Repr, Inhabited

namespace Time
/-- Unix seconds of Go's zero `time.Time` (0001-01-01T00:00:00Z). -/
def zeroSec : Int := -62135596800
def zero : Time := ⟨zeroSec, 0⟩
def isZero (t : Time) : Bool := t.sec == zeroSec && t.nsec == 0
def before (a b : Time) : Bool := decide (a.sec < b.sec) || (a.sec == b.sec && decide (a.nsec < b.nsec))
def after (a b : Time) : Bool := before b a
def addSec (t : Time) (d : Int) : Time := ⟨t.sec + d, t.nsec⟩
/-- `util.OnOrAfter(left, right) = !left.Before(right)` -/
def onOrAfter (l r : Time) : Bool := !(before l r)
/-- `util.BeforeOrOn(left, right) = !left.After(right)` -/
def beforeOrOn (l r : Time) : Bool := !(after l r)
/-- total order on instants used in statements -/
def le (a b : Time) : Prop := a.sec < b.sec ∨ (a.sec = b.sec ∧ a.nsec ≤ b.nsec)
def lt (a b : Time) : Prop := a.sec < b.sec ∨ (a.sec = b.sec ∧ a.nsec < b.nsec)
end Time

/-- `lint.checkEffective(effective, ineffective, target)` -/
def checkEffective (eff ineff t : Time) : Bool :=
  (eff.isZero || Time.onOrAfter t eff) && (ineff.isZero || Time.before t ineff)

end Zl
