/-
  ZlModel.Cli — the command-line front end's decision logic.
  Code modelled: v3/cmd/zlint/main.go (per-file format override, doLint's dispatch, trimmedList,
  which selector makes setLints filter) and v3/formattedoutput (levels and counts of the summary).
  Process behaviour (exit codes, buffering, log.Fatal) is observed by the harness, not modelled.
-/
import ZlModel.Basic
namespace Zl

def endsWithS (s suffix : String) : Bool := suffix.toList.isSuffixOf s.toList

def lowerAsciiS (s : String) : String := String.ofList (s.toList.map (fun c => if 'A' ≤ c ∧ c ≤ 'Z' then Char.ofNat (c.toNat + 32) else c))

/-- the input format used for one file argument: suffix .der / .pem wins over `-format` -/
def fileFormat (flagFormat path : String) : String :=
  if endsWithS path ".der" then "der" else if endsWithS path ".pem" then "pem" else lowerAsciiS flagFormat

inductive Dispatch where
  | cert | crl | fail
  deriving DecidableEq, Repr

/-- `doLint`: what the bytes are parsed as. `pemType`: type of the first PEM block if there is one;
    `b64ok`: whether the bytes are valid standard base64 -/
def dispatch (inform : String) (pemType : Option String) (b64ok : Bool) : Dispatch :=
  if inform == "pem" then
    match pemType with
    | none => .fail
    | some t => if t == "CERTIFICATE" then .cert else if t == "X509 CRL" then .crl else .fail
  else if inform == "der" then .cert
  else if inform == "base64" then (if b64ok then .cert else .fail)
  else .fail

/-- a PEM input as the sequence of its blocks (type, DER bytes): `pem.Decode` reads the first block, the rest of the input is
    ignored — the linted object is the first block's, whatever follows it -/
def dispatchBlocks (blocks : List (String × List Nat)) : Dispatch × List Nat :=
  match blocks with
  | [] => (.fail, [])
  | (t, der) :: _ => (dispatch "pem" (some t) false, der)

/-- `trimmedList` -/
def isBlankC (c : Char) : Bool := c == ' ' || c == '\t' || c == '\n' || c == '\r'
def trimS (s : String) : String := String.ofList ((s.toList.dropWhile isBlankC).reverse.dropWhile isBlankC).reverse
def trimmedList (raw : String) : List String := (raw.splitOn ",").map trimS

def insertInt (x : Int) : List Int → List Int
  | [] => [x]
  | a :: rest => if x ≤ a then x :: a :: rest else a :: insertInt x rest

def sortInt (l : List Int) : List Int := l.foldr insertInt []

def dedupAdj : List Int → List Int
  | [] => []
  | [a] => [a]
  | a :: b :: rest => if a == b then dedupAdj (b :: rest) else a :: dedupAdj (b :: rest)

/-- levels listed by the summary: the status values above `pass`, ascending, each once
    (`resultCount` is a map keyed by level; `sortedLevels` are its sorted keys) -/
def summaryLevels (allStatuses : List Int) : List Int :=
  dedupAdj (sortInt (allStatuses.filter (fun s => decide (s > Status.pass))))

/-- the summary table: for every listed level the number of results with that status -/
def summaryTable (allStatuses : List Int) (results : List Int) : List (Int × Nat) :=
  (summaryLevels allStatuses).map (fun l => (l, results.count l))

end Zl
