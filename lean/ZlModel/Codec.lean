/-
  ZlModel.Codec — status labels and their JSON codec; the result-set and listing shapes.
  Code modelled: v3/lint/result.go (String, MarshalJSON, UnmarshalJSON, StatusLabelToLintStatus),
  v3/lint/source.go (LintSource.UnmarshalJSON over the regenerated case list), v3/resultset.go (field
  tags), v3/lint/registration.go (WriteJSON).
-/
import ZlModel.Registry
namespace Zl

/-- `LintStatus.String()` over the regenerated switch cases -/
def statusLabel (cases : List (Int × String)) (dflt : String) (s : Int) : String :=
  match cases.find? (fun p => p.1 == s) with
  | some p => p.2
  | none => dflt

/-- `StatusLabelToLintStatus`: built from entries `X.String(): Y`; a Go map literal with a repeated key
    does not compile, later bindings are therefore irrelevant — first match -/
def labelToStatus (cases : List (Int × String)) (dflt : String) (tbl : List (Int × Int)) : List (String × Int) :=
  tbl.map (fun p => (statusLabel cases dflt p.1, p.2))

/-- `strings.ReplaceAll(string(data), "\"", "")` -/
def stripQuotes (s : String) : String := String.ofList (s.toList.filter (· != '"'))

/-- `LintStatus.UnmarshalJSON` -/
def decodeStatus (lt : List (String × Int)) (data : String) : Option Int :=
  (lt.find? (fun p => p.1 == stripQuotes data)).map (·.2)

/-- `LintStatus.MarshalJSON` for labels that need no JSON escaping -/
def encodeStatus (cases : List (Int × String)) (dflt : String) (s : Int) : String :=
  "\"" ++ statusLabel cases dflt s ++ "\""

/-- `LintSource.UnmarshalJSON` on an already JSON-decoded string -/
def decodeSource (cases : List String) (s : String) : Option String := if cases.contains s then some s else none

/-- JSON form of one result: label, and details unless empty (`omitempty`); the string codec of
    encoding/json is abstracted as `sanitize` (invalid UTF-8 bytes become U+FFFD) -/
structure JResult where
  label : String
  details : Option String
  deriving DecidableEq, Repr

def encodeResult (cases : List (Int × String)) (dflt : String) (sanitize : String → String) (status : Int) (details : String) : JResult :=
  { label := statusLabel cases dflt status, details := if details == "" then none else some (sanitize details) }

def decodeResult (lt : List (String × Int)) (j : JResult) : Option (Int × String) :=
  (decodeStatus lt j.label).map (fun s => (s, j.details.getD ""))

/-- `WriteJSON`: certificate lints, then OCSP lints, then CRL lints, one line each -/
def Registry.listing {α Cfg : Type} (r : Registry α Cfg) : List Meta :=
  (r.cert.lints ++ r.ocsp.lints ++ r.crl.lints).map (·.md)

end Zl
