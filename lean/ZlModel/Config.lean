/-
  ZlModel.Config — applying a TOML configuration to a lint.
  Code modelled: v3/lint/configuration.go (MaybeConfigure, Configure, deserializeConfigInto,
  resolveHigherScopedReferences) and Registry.SetConfiguration / Filter's inheritance. go-toml's
  parser and reflection-based Unmarshal are abstracted to a typed-field view (assumption A-TOML):
  a document maps a namespace to `absent`, a table of typed scalars, or something that is not a table.
-/
import ZlModel.Framework
namespace Zl

inductive TKind where
  | int | bool | str | float | array | table
  deriving DecidableEq, Repr

/-- a TOML value as far as decoding into int / bool / string fields can tell -/
structure TVal where
  kind : TKind
  repr : String          -- canonical text of the value (decimal, true/false, the string itself)
  deriving DecidableEq, Repr

inductive Section where
  | absent
  | table (fields : List (String × TVal))
  | notATable
  deriving DecidableEq, Repr

/-- a document: namespace ↦ section -/
abbrev Doc := String → Section

structure FieldSpec where
  name : String
  kind : TKind           -- int, bool or str
  dflt : String          -- default, canonical text
  deriving DecidableEq, Repr

/-- what a configurable lint declares: its fields and the global namespaces its struct embeds -/
structure CfgSpec where
  fields : List FieldSpec
  globals : List String := []
  deriving DecidableEq, Repr

def lowerAscii (s : String) : String := String.ofList (s.toList.map (fun c => if 'A' ≤ c ∧ c ≤ 'Z' then Char.ofNat (c.toNat + 32) else c))
def upperAscii (s : String) : String := String.ofList (s.toList.map (fun c => if 'a' ≤ c ∧ c ≤ 'z' then Char.ofNat (c.toNat - 32) else c))
def lowerFirst (s : String) : String :=
  match s.toList with
  | [] => s
  | c :: rest => String.ofList ((if 'A' ≤ c ∧ c ≤ 'Z' then Char.ofNat (c.toNat + 32) else c) :: rest)

/-- go-toml's key search for a struct field: the name, its lower-case, its upper-case, its
    lower-first form — the first one present in the table wins -/
def keysToTry (name : String) : List String := [name, lowerAscii name, upperAscii name, lowerFirst name]

def findField (tbl : List (String × TVal)) (name : String) : Option TVal :=
  (keysToTry name).findSome? (fun k => (tbl.find? (fun p => p.1 == k)).map (·.2))

/-- decode the fields of a table: a present key must have exactly the field's kind; absent keys keep
    the default; unknown keys are ignored -/
def decodeFields : List FieldSpec → List (String × TVal) → Except String (List (String × String))
  | [], _ => .ok []
  | f :: rest, tbl =>
    match (findField tbl f.name).map (fun v => (f.name, v)) with
    | none => (decodeFields rest tbl).map (fun l => (f.name, f.dflt) :: l)
    | some (_, v) =>
      if v.kind == f.kind then (decodeFields rest tbl).map (fun l => (f.name, v.repr) :: l)
      else .error ("type mismatch for " ++ f.name)

def defaults (fs : List FieldSpec) : List (String × String) := fs.map (fun f => (f.name, f.dflt))

/-- `deserializeConfigInto(target, namespace)` followed by the higher-scoped (global) sections:
    result = the configured field values, or an error -/
def configure (doc : Doc) (spec : CfgSpec) (ns : String) : Except String (List (String × String)) :=
  let own : Except String (List (String × String)) :=
    match doc ns with
    | .absent => .ok (defaults spec.fields)
    | .notATable => .error ("not a table: " ++ ns)
    | .table tbl => decodeFields spec.fields tbl
  match own with
  | .error e => .error e
  | .ok vals =>
    -- embedded global sections have no fields in this code base, but a non-table value still fails
    if spec.globals.any (fun g => doc g == .notATable) then .error "global section is not a table" else .ok vals

/-- `MaybeConfigure`: lints that are not Configurable are untouched -/
def maybeConfigure (doc : Doc) (spec : Option CfgSpec) (ns : String) : Except String (List (String × String)) :=
  match spec with
  | none => .ok []
  | some s => configure doc s ns

/-- the namespaces a lint's configuration outcome can depend on -/
def namespacesOf (spec : Option CfgSpec) (ns : String) : List String :=
  match spec with
  | none => []
  | some s => ns :: s.globals

/-! registries and their configuration: SetConfiguration replaces, Filter inherits -/

inductive CfgOp (D : Type) where
  | set1 (d : D) | set2 (d : D) | filter | lint1 | lint2
  deriving Repr

structure CfgState (D : Type) where
  c1 : D
  c2 : D

/-- two registries: r1 and r2 (r2 := r1.Filter(…) on `filter`); `lint i` observes the configuration in force -/
def cfgStep {D : Type} (s : CfgState D) : CfgOp D → CfgState D × Option D
  | .set1 d => ({ s with c1 := d }, none)
  | .set2 d => ({ s with c2 := d }, none)
  | .filter => ({ s with c2 := s.c1 }, none)
  | .lint1 => (s, some s.c1)
  | .lint2 => (s, some s.c2)

def cfgRun {D : Type} : CfgState D → List (CfgOp D) → List D
  | _, [] => []
  | s, op :: rest =>
    let (s', o) := cfgStep s op
    match o with
    | some d => d :: cfgRun s' rest
    | none => cfgRun s' rest

end Zl
