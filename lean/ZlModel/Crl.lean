/-
  ZlModel.Crl — the rule bodies of seven CRL lints, as the Go code reads, on a view of the parsed revocation list.
  CRL (and OCSP) lints run without the recovery net of certificate lints: what they do on every entry list matters.

  Code modelled (CheckApplies and Execute):
    lints/rfc/lint_crl_has_next_update.go                   e_crl_has_next_update
    lints/rfc/lint_crl_has_authority_key_identifier.go      e_crl_has_authority_key_identifier
    lints/rfc/lint_crl_missing_crl_number.go                e_crl_missing_crl_number
    lints/cabf_br/lint_cabf_crl_reason_code_not_critical.go e_cab_crl_reason_code_not_critical
    lints/cabf_br/lint_cabf_crl_valid_reason_codes.go       e_cab_crl_has_valid_reason_code   (validReasons = {1, 3, 4, 5, 9})
    lints/rfc/lint_crl_valid_reason_codes.go                e_crl_has_valid_reason_code
    lints/community/lint_crl_unique_revoked_certificate.go  e_crl_unique_revoked_certificate
  Tied to the code by the `crlmodel` correspondence (real lints called directly on corpus CRLs, mutants and kit CRLs).
-/
import ZlModel.Basic
namespace Zl.Crl

abbrev Oid := List Nat

/-- one entry of `RevokedCertificates` as these lints see it -/
structure Entry where
  serial : Int                      -- rc.SerialNumber (compared through its decimal string)
  reason : Option Int               -- *rc.ReasonCode, `none` when the pointer is nil
  exts : List (Oid × Bool)          -- rc.Extensions: (Id, Critical)
  deriving Repr, DecidableEq

structure View where
  nextUpdateZero : Bool             -- c.NextUpdate.IsZero()
  exts : List Oid                   -- c.Extensions: Id
  entries : List Entry
  deriving Repr

def oidReasonCode : Oid := [2, 5, 29, 21]
def oidAuthKeyId : Oid := [2, 5, 29, 35]
def oidCRLNumber : Oid := [2, 5, 29, 20]

/-- the key set of `validReasons` in lint_cabf_crl_valid_reason_codes.go -/
def cabfValidReasons : List Int := [1, 3, 4, 5, 9]

inductive Out | notApplicable | result (s : Status)
  deriving Repr, DecidableEq

def hasNextUpdate (v : View) : Out := .result (if v.nextUpdateZero then Status.error else Status.pass)
def hasAuthKeyId (v : View) : Out := .result (if v.exts.contains oidAuthKeyId then Status.pass else Status.error)
def hasCRLNumber (v : View) : Out := .result (if v.exts.contains oidCRLNumber then Status.pass else Status.error)

/-- an entry that carries a reason code whose extension is marked critical -/
def criticalReason (e : Entry) : Bool := e.reason.isSome && e.exts.any (fun x => x.1 == oidReasonCode && x.2)

def reasonNotCritical (v : View) : Out :=
  if v.entries.isEmpty then .notApplicable
  else .result (if v.entries.any criticalReason then Status.error else Status.pass)

/-- a reason code the BRs do not allow: unspecified (0), or outside `validReasons` -/
def cabfBadReason (e : Entry) : Bool := match e.reason with
  | none => false
  | some c => c == 0 || !cabfValidReasons.contains c

def cabfReason (v : View) : Out :=
  if v.entries.isEmpty then .notApplicable
  else .result (if v.entries.any cabfBadReason then Status.error else Status.pass)

/-- the RFC copy returns at the *first* entry that offends, with two different statuses -/
def rfcReasonScan : List Entry → Status
  | [] => Status.pass
  | e :: rest => match e.reason with
    | none => rfcReasonScan rest
    | some c => if c == 0 then Status.warn else if c == 7 || decide (c > 10) then Status.error else rfcReasonScan rest

def rfcReason (v : View) : Out := if v.entries.isEmpty then .notApplicable else .result (rfcReasonScan v.entries)

/-- `serials[rc.SerialNumber.String()]` seen before -/
def dupScan (seen : List Int) : List Entry → Bool
  | [] => false
  | e :: rest => seen.contains e.serial || dupScan (e.serial :: seen) rest

def uniqueSerial (v : View) : Out := .result (if dupScan [] v.entries then Status.warn else Status.pass)

/-- in the order of the driver's `crl` op -/
def verdicts (v : View) : List Out :=
  [hasNextUpdate v, hasAuthKeyId v, hasCRLNumber v, reasonNotCritical v, cabfReason v, rfcReason v, uniqueSerial v]

def lintNames : List String :=
  ["e_crl_has_next_update", "e_crl_has_authority_key_identifier", "e_crl_missing_crl_number", "e_cab_crl_reason_code_not_critical",
   "e_cab_crl_has_valid_reason_code", "e_crl_has_valid_reason_code", "e_crl_unique_revoked_certificate"]

end Zl.Crl
