/-
  ZlModel.Der — the DER element reader of golang.org/x/crypto/cryptobyte (`String.readASN1`, `ReadASN1`,
  `SkipASN1`, `SkipOptionalASN1`, `PeekASN1Tag`) and the one lint that walks a certificate's raw bytes with it:

    v3/lints/rfc/lint_tbs_signature_alg_matches_cert_signature_alg.go   (e_cert_sig_alg_not_match_tbs_sig_alg)

  `tlv` is the matching minimal-length encoder. Proved in ZlProofs.Props.C09: the reader inverts the encoder,
  and the lint's verdict on SEQUENCE { tbs, alg, sig } is a function of tbs and alg alone — whatever the
  signature element is. Tied to the code by the `der` correspondence (real cryptobyte, real lint).
-/
import ZlModel.Basic
namespace Zl.Der

abbrev Bytes := List Nat

/-- big-endian value of a byte string (`readUnsigned`) -/
def beNat : Bytes → Nat
  | [] => 0
  | b :: bs => b * 256 ^ bs.length + beNat bs

/-- `String.readASN1(out, &tag, skipHeader = true)`: tag, contents, remaining input -/
def readAny (s : Bytes) : Option (Nat × Bytes × Bytes) :=
  match s with
  | tag :: lenByte :: body =>
    if tag % 32 == 31 then none                                   -- high-tag-number form is not supported
    else if lenByte < 128 then                                    -- short form
      if body.length < lenByte then none else some (tag, body.take lenByte, body.drop lenByte)
    else
      let lenLen := lenByte - 128
      if lenLen == 0 || lenLen > 4 || body.length < lenLen then none
      else
        let len32 := beNat (body.take lenLen)
        if len32 < 128 then none                                  -- should have used the short form
        else if len32 / 256 ^ (lenLen - 1) == 0 then none         -- leading length octet is zero
        else if 2 + lenLen + len32 ≥ 4294967296 then none         -- uint32 overflow of headerLen + len32
        else
          let rest := body.drop lenLen
          if rest.length < len32 then none else some (tag, rest.take len32, rest.drop len32)
  | _ => none

/-- `ReadASN1(out, tag)` / `SkipASN1(tag)` -/
def readASN1 (tag : Nat) (s : Bytes) : Option (Bytes × Bytes) :=
  match readAny s with
  | some (t, c, r) => if t == tag then some (c, r) else none
  | none => none

/-- `SkipOptionalASN1(tag)`: the remaining input, or `none` when an element with that tag is present but malformed -/
def skipOptional (tag : Nat) (s : Bytes) : Option Bytes :=
  match s with
  | t :: _ => if t == tag then (readASN1 tag s).map (·.2) else some s
  | [] => some s

/-- minimal definite-length encoding -/
def encLen (n : Nat) : Bytes :=
  if n < 128 then [n]
  else if n < 256 then [0x81, n]
  else if n < 65536 then [0x82, n / 256, n % 256]
  else if n < 16777216 then [0x83, n / 65536, n / 256 % 256, n % 256]
  else [0x84, n / 16777216, n / 65536 % 256, n / 256 % 256, n % 256]

def tlv (tag : Nat) (content : Bytes) : Bytes := tag :: (encLen content.length ++ content)

def tagSeq : Nat := 0x30
def tagInt : Nat := 0x02
def tagCtx0 : Nat := 0xA0

inductive Walk where
  | fatalCert | fatalTbs | fatalAlg | fatalVersion | fatalSerial | fatalTbsAlg | error | pass
  deriving DecidableEq, Repr

/-- what the lint does with the tbs contents and the outer algorithm contents -/
def compareAlg (tbs alg : Bytes) : Walk :=
  match skipOptional tagCtx0 tbs with
  | none => .fatalVersion
  | some t1 =>
    match readASN1 tagInt t1 with
    | none => .fatalSerial
    | some (_, t2) =>
      match readASN1 tagSeq t2 with
      | none => .fatalTbsAlg
      | some (tbsAlg, _) => if tbsAlg == alg then .pass else .error

/-- `mismatchingSigAlg.Execute` on `c.Raw` -/
def walk (raw : Bytes) : Walk :=
  match readASN1 tagSeq raw with
  | none => .fatalCert
  | some (cert, _) =>
    match readASN1 tagSeq cert with
    | none => .fatalTbs
    | some (tbs, cert1) =>
      match readASN1 tagSeq cert1 with
      | none => .fatalAlg
      | some (alg, _) => compareAlg tbs alg

end Zl.Der
