import ZlModel
def main : IO Unit := IO.println "zldriver"
