/-
  ZlModel.Driver — reads one operation per line on stdin, runs the model's
  executable definitions, prints one canonical line per operation.
-/
import ZlModel.Proto
import ZlModel.Framework
import ZlModel.Scope
import ZlModel.Generated.Tables
import ZlModel.Generated.Registry
import ZlModel.Registry
import ZlModel.Codec
import ZlModel.Ip
import ZlModel.Rsa
import ZlModel.Tld
import ZlModel.TldGen
import ZlModel.Config
import ZlModel.Cli
import ZlModel.Walkers
import ZlModel.Names
import ZlModel.Thresholds
import ZlModel.Der
import ZlModel.JsonString
import ZlModel.RegSeq
import ZlModel.LintLogic
import ZlModel.Crl
import ZlModel.Generated.Bodies
open Zl Zl.Proto

namespace Zl.Driver

def parseTime (s : String) : Time :=
  if s == "Z" then Time.zero
  else match s.splitOn "." with
    | [a, b] => ⟨a.toInt?.getD 0, b.toNat?.getD 0⟩
    | [a] => ⟨a.toInt?.getD 0, 0⟩
    | _ => Time.zero

/-- a scripted lint, as the harness's `LintSpec` -/
def scriptedLint (spec : String) : Option (Lint Unit Unit × String) :=
  match spec.splitOn "," with
  | [name, source, eff, ineff, cfg, app, body] =>
    let configure : Unit → Stage (Option String) := fun _ =>
      match cfg with
      | "n" | "ok" => .ok none
      | "err" | "tbl" => .ok (some ("CFGERR:" ++ name))
      | _ => .panic ("boom-configure-" ++ name)
    let applies : Unit → Stage Bool := fun _ =>
      match app with
      | "T" => .ok true
      | "F" => .ok false
      | _ => .panic ("boom-applies-" ++ name)
    let bodyF : Unit → Body := fun _ =>
      if body == "nil" then .nil
      else if body == "P" then .panic ("boom-body-" ++ name)
      else .res ((dropS body 1).toInt?.getD 0) ("d-" ++ name)
    some ({ md := { name := name, source := source, eff := parseTime eff, ineff := parseTime ineff, description := "scripted " ++ name, citation := "verif" }
            configure := configure, applies := applies, body := bodyF }, cfg)
  | _ => none

def parseView (s : String) : CertView :=
  if s == "-" then default else
  let parts := s.splitOn "/"
  let get (k : String) : String := match parts.find? (·.startsWith (k ++ "=")) with
    | some p => dropS p (k.length + 1)
    | none => "-"
  { ekus := (splitList (get "ekus") ",").map parseOid
    policies := (splitList (get "pol") ",").map parseOid
    emails := (splitList (get "em") ",").map (fun h => (unhex h).getD "")
    otherNames := (splitList (get "on") ",").map (fun p => match p.splitOn ":" with
      | [o, l] => (parseOid o, l.toNat?.getD 0)
      | _ => ([], 0)) }

def b2s (b : Bool) : String := if b then "1" else "0"

def logString (cfg : String) (calls : List Call) : String :=
  String.ofList (calls.filterMap (fun c => match c with
    | .construct => some 'c'
    | .configure => if cfg == "n" then none else some 'f'
    | .applies => some 'a'
    | .body => some 'b'))

/-- insertion sort of strings (canonical order of result lines) -/
def sortStrings (xs : List String) : List String :=
  xs.foldl (fun acc x =>
    let (lo, hi) := acc.span (fun y => y < x)
    lo ++ [x] ++ hi) []

def opFw (fields : List String) : String :=
  match fields with
  | [kindS, viewS, tsec, tnsec, lintsS] =>
    let kind : Kind := if kindS == "cert" then .cert else if kindS == "crl" then .crl else .ocsp
    let view := parseView viewS
    let sc := scopeOf view
    let target : Time := ⟨tsec.toInt?.getD 0, tnsec.toNat?.getD 0⟩
    let specs := (lintsS.splitOn ";").filterMap scriptedLint
    let lints := specs.map (·.1)
    match runAll Generated.version kind sc target lints () () with
    | .panicked _ => "panic"
    | .returned rs =>
      let results := sortStrings (rs.results.map (fun p =>
        p.1 ++ "=" ++ toString p.2.status ++ ":" ++ hexOf p.2.details ++ ":" ++ p.2.md.name ++ ":" ++ p.2.md.source))
      -- the call log of each lint: calls made before a panic of an earlier lint are not observable when the run panics
      let logs := sortStrings (specs.map (fun (l, cfg) => l.md.name ++ "=" ++ logString cfg (execute kind sc target l () ()).2))
      "ok v=" ++ toString rs.version ++ " n=" ++ b2s rs.notices ++ " w=" ++ b2s rs.warnings ++ " e=" ++ b2s rs.errors ++ " f=" ++ b2s rs.fatals
        ++ " | " ++ " ".intercalate results ++ " | " ++ " ".intercalate logs
  | _ => "bad-op"


/-! ### registry / filter ops -/

def kindOfNat (n : Nat) : Kind := if n == 0 then .cert else if n == 1 then .crl else .ocsp

def regErrName : RegErr → String
  | .nilLint => "nilLint" | .nilLintPtr => "nilLintPtr" | .emptyName => "emptyName" | .duplicate _ => "duplicate"

/-- registry of a default build, rebuilt by registering the regenerated runtime table in order -/
def globalModelRegistry : Registry Unit Unit :=
  Generated.runtimeLints.foldl (fun r l =>
    match r.register (kindOfNat l.kind) { md := { name := l.name, source := l.source }, payload := () } with
    | .ok r' => r'
    | .error _ => r) { cfg := () }

/-- "H:kind:hexname:source:outcome;…" → registry after the registration sequence, with the model's outcomes -/
def buildModelRegistry (spec : String) : Registry Unit Unit × List String :=
  if spec == "G" then (globalModelRegistry, []) else
  let body := dropS spec 2
  (splitList body ";").foldl (fun (acc : Registry Unit Unit × List String) part =>
    match part.splitOn ":" with
    | [kind, hname, source, _] =>
      let name := (unhex hname).getD ""
      let k : Kind := if kind == "crl" then .crl else if kind == "ocsp" then .ocsp else .cert
      let e : Entry Unit := { md := { name := name, source := source, description := "d" }, payload := (),
                              ctorNil := kind == "nil", instNil := kind == "certnilctor" }
      match acc.1.register k e with
      | .ok r' => (r', acc.2 ++ ["ok"])
      | .error err => (acc.1, acc.2 ++ [regErrName err])
    | _ => acc) ({ cfg := () }, [])

def hexList (xs : List String) : String := if xs.isEmpty then "-" else ",".intercalate (xs.map (fun x => if x == "" then "_" else hexOf x))

def regDump (r : Registry Unit Unit) : String :=
  let ls (lk : Lookup Unit) := hexList (lk.lints.map (fun e => e.md.name ++ "/" ++ e.md.source))
  let agree (lk : Lookup Unit) : Bool := lk.lints.all (fun e => match lk.byNameGet e.md.name with
    | some e' => e'.md == e.md
    | none => false)
  "cert=" ++ ls r.cert ++ "|crl=" ++ ls r.crl ++ "|ocsp=" ++ ls r.ocsp ++ "|names=" ++ hexList r.names
    ++ "|sources=" ++ hexList (sortStrings r.sources)
    ++ "|kn=" ++ hexList r.cert.names ++ ";" ++ hexList r.crl.names ++ ";" ++ hexList r.ocsp.names
    ++ "|agree=" ++ b2s (agree r.cert && agree r.crl && agree r.ocsp)

def unhexList (s : String) : List String := (splitList s ",").map (fun h => if h == "_" then "" else (unhex h).getD "")

def opRegister (fields : List String) : String :=
  match fields with
  | [spec] =>
    let (r, outcomes) := buildModelRegistry spec
    -- the outcome column of the spec is the implementation's; a differing model outcome is made visible
    let implOutcomes := (splitList (dropS spec 2) ";").map (fun part => (part.splitOn ":").getLast?.getD "")
    if implOutcomes != outcomes then "reg OUTCOMES-DIFFER model=" ++ ",".intercalate outcomes
    else "reg " ++ regDump r
  | _ => "bad-op"

def opFilter (fields : List String) : String :=
  match fields with
  | [spec, nf, inc, exc, isrc, xsrc] =>
    let (r, _) := buildModelRegistry spec
    let nameFilter : Option (String → Bool) :=
      if nf == "none" then none else
      let set := unhexList (dropS nf 4)
      some (fun n => set.contains n)
    let opts : FilterOptions := { nameFilter := nameFilter, includeNames := unhexList inc, excludeNames := unhexList exc,
                                  includeSources := unhexList isrc, excludeSources := unhexList xsrc }
    match filter r opts with
    | .error (.unknownName _) => "err:unknown src-unchanged=1"
    | .error .nameFilterConflict => "err:conflict src-unchanged=1"
    | .error (.register e) => "err:register:" ++ regErrName e ++ " src-unchanged=1"
    | .ok r' => "ok " ++ regDump r' ++ "|same=" ++ b2s opts.empty ++ "|cfg=1|src-unchanged=1"
  | _ => "bad-op"


/-! ### codec ops -/

def opEnc (fields : List String) : String :=
  match fields with
  | [n] => "enc:" ++ hexOf (encodeStatus Generated.statusString Generated.statusStringDefault (n.toInt?.getD 0))
  | _ => "bad-op"

def opDec (fields : List String) : String :=
  match fields with
  | [h] =>
    let data := (unhex h).getD ""
    match decodeStatus (labelToStatus Generated.statusString Generated.statusStringDefault Generated.statusLabelTable) data with
    | some s => "dec:" ++ toString s
    | none => "dec-err"
  | _ => "bad-op"

def opSrc (fields : List String) : String :=
  match fields with
  | [h] => match decodeSource Generated.unmarshalCases ((unhex h).getD "") with
    | some s => "src:" ++ hexOf s
    | none => "src-err"
  | _ => "bad-op"

def opSrcList (fields : List String) : String :=
  match fields with
  | [h] => match sourceListFromString Generated.fromStringCases ((unhex h).getD "") with
    | .ok l => "sl:" ++ ",".intercalate (l.map hexOf)
    | .error _ => "sl-err"
  | _ => "bad-op"


/-! ### IP ops -/

def natOf (s : String) : Nat := s.toNat?.getD 0

def opIp (kind : String) (fields : List String) : String :=
  match kind, fields with
  | "ipres", [w, v] => b2s (isReserved ⟨natOf w, natOf v⟩)
  | "ipgu", [w, v] => b2s (Addr.isGlobalUnicast ⟨natOf w, natOf v⟩)
  | "ipnet", [w, v, p] => b2s (intersectsReserved ⟨⟨natOf w, natOf v⟩, natOf p⟩)
  | "ipcont", [w, v, p, xw, xv] => b2s (Net.contains ⟨⟨natOf w, natOf v⟩, natOf p⟩ ⟨natOf xw, natOf xv⟩)
  -- the two list-reading reserved-address lints: an error exactly when some listed address / permitted subtree is (intersects) reserved
  | "iplint-san", [as] =>
    let addrs : List Addr := (splitList as ",").filterMap (fun a => match a.splitOn ":" with
      | [w, v] => some ⟨natOf w, natOf v⟩
      | _ => none)
    toString (if addrs.any isReserved then Status.error else Status.pass)
  | "iplint-cn", [a, _spelling] =>
    -- the common-name lint: `net.ParseIP(cn)` is done by the harness ("-" = not an address literal)
    if a == "-" then toString Status.pass else
    match a.splitOn ":" with
    | [w, v] => toString (if isReserved ⟨natOf w, natOf v⟩ then Status.error else Status.pass)
    | _ => "bad-op"
  | "iplint-nc", [ns] =>
    let nets : List Net := (splitList ns ",").filterMap (fun a => match a.splitOn ":" with
      | [w, v, p] => some ⟨⟨natOf w, natOf v⟩, natOf p⟩
      | _ => none)
    toString (if nets.any intersectsReserved then Status.error else Status.pass)
  | _, _ => "bad-op"


/-! ### RSA ops -/

def rsaVerdict (name : String) (n e rounds : Nat) : String :=
  let st (s : Status) := name ++ "=" ++ toString s
  match name with
  | "e_rsa_mod_less_than_2048_bits" => st (modLessThan 2048 n)
  | "e_mp_modulus_must_be_2048_bits_or_more" => st (modLessThan 2048 n)
  | "e_old_root_ca_rsa_mod_less_than_2048_bits" => st (modLessThan 2048 n)
  | "e_old_sub_ca_rsa_mod_less_than_1024_bits" => st (modLessThan 1024 n)
  | "e_old_sub_cert_rsa_mod_less_than_1024_bits" => st (modLessThan 1024 n)
  | "e_cs_rsa_key_size" => st (modLessThan 3072 n)
  | "e_mp_modulus_must_be_divisible_by_8" => st (modDiv8 n)
  | "w_rsa_mod_not_odd" => st (modNotOdd n)
  | "w_rsa_mod_factors_smaller_than_752" => st (modSmallFactor Generated.primes n)
  | "e_rsa_public_exponent_not_odd" => st (expNotOdd e)
  | "e_rsa_public_exponent_too_small" => st (expTooSmall e)
  | "w_rsa_public_exponent_not_in_range" => st (expNotInRange e)
  | "e_mp_exponent_cannot_be_one" => st (expIsOne e)
  | "e_rsa_fermat_factorization" =>
    match fermat n rounds with
    | some (p, q) => name ++ "=6:" ++ toString p ++ ":" ++ toString q
    | none => name ++ "=3"
  | _ => name ++ "=unmodelled"

def opRsa (fields : List String) : String :=
  match fields with
  | [n, e, r, names] => ";".intercalate ((names.splitOn ",").map (fun nm => rsaVerdict nm (natOf n) (natOf e) (natOf r)))
  | _ => "bad-op"

def opFermat (fields : List String) : String :=
  match fields with
  | [n, r] => match fermat (natOf n) (natOf r) with
    | some (p, q) => toString p ++ ":" ++ toString q
    | none => "none"
  | _ => "bad-op"


/-! ### TLD ops -/

def intOf (s : String) : Int := s.toInt?.getD 0

def opTld (kind : String) (fields : List String) : String :=
  match kind, fields with
  | "tld", [d, sec, nsec] => b2s (hasValidTLD ((unhexBytes d).getD []) ⟨intOf sec, natOf nsec⟩)
  | "tldin", [l] => b2s (isInTLDMap ((unhexBytes l).getD []))
  | "tldlint", [cn, ip, dns, sec] =>
    toString (tldLint ((unhexBytes cn).getD []) (ip == "1") ((splitList dns ",").map (fun h => (unhexBytes h).getD [])) ⟨intOf sec, 0⟩)
  | _, _ => "bad-op"


/-! ### configuration ops -/

def probeSpec : CfgSpec := { fields := [⟨"A", .int, "7"⟩, ⟨"B", .bool, "false"⟩, ⟨"S", .str, "d"⟩] }
def probeGSpec : CfgSpec := { fields := [⟨"A", .int, "7"⟩], globals := ["Global"] }

def parseKind (s : String) : TKind :=
  match s with
  | "int" => .int | "bool" => .bool | "str" => .str | "float" => .float | "array" => .array | _ => .table

def parseSection (s : String) : Section :=
  if s == "absent" then .absent
  else if s == "nat" then .notATable
  else
    let body := dropS s 4
    .table ((splitList body ",").filterMap (fun f => match f.splitOn ":" with
      | [k, kind, h] => some (k, ⟨parseKind kind, (unhex h).getD ""⟩)
      | _ => none))

def parseDoc (s : String) : Doc :=
  let entries := (splitList s ";").filterMap (fun e => match e.splitOn "=" with
    | [k, v] => some (k, parseSection v)
    | _ => none)
  fun ns => match entries.find? (fun p => p.1 == ns) with
    | some p => p.2
    | none => .absent

def showProbe (full : Bool) (r : Except String (List (String × String))) : String :=
  match r with
  | .error _ => "err"
  | .ok vals =>
    let get (k : String) := (vals.find? (fun p => p.1 == k)).map (·.2) |>.getD "?"
    if full then "ok A=" ++ get "A" ++ ";B=" ++ get "B" ++ ";S=" ++ hexOf (get "S") else "ok A=" ++ get "A"

def opCfg (fields : List String) : String :=
  match fields with
  | [kind, docS] =>
    let doc := parseDoc docS
    let p1 := "e_cfg_probe=" ++ showProbe true (configure doc probeSpec "e_cfg_probe")
    let p2 := "e_cfg_probe2=" ++ showProbe true (configure doc probeSpec "e_cfg_probe2")
    let pg := "e_cfg_probeg=" ++ showProbe false (configure doc probeGSpec "e_cfg_probeg")
    -- e_other is not Configurable: whatever its namespace holds, it passes
    let other := match maybeConfigure doc none "e_other" with | .ok _ => "e_other=3" | .error _ => "e_other=7"
    if kind == "cert" then "r " ++ "|".intercalate [p1, p2, pg, other] else "r " ++ "|".intercalate [p1, p2, other]
  | _ => "bad-op"

def seqDoc (id : String) : Doc :=
  match id with
  | "d1" => fun ns => if ns == "e_cfg_probe" then .table [("A", ⟨.int, "1"⟩)] else .absent
  | "d2" => fun ns => if ns == "e_cfg_probe" then .table [("A", ⟨.int, "2"⟩), ("B", ⟨.bool, "true"⟩)] else .absent
  | "d3" => fun ns => if ns == "e_cfg_probe" then .notATable else .absent
  | "d4" => fun ns => if ns == "unrelated" then .table [("x", ⟨.int, "1"⟩)] else .absent
  | _ => fun _ => .absent

def opCfgSeq (fields : List String) : String :=
  match fields with
  | [seq] =>
    let ops : List (CfgOp String) := (splitList seq ",").filterMap (fun o =>
      if o == "F" then some .filter else if o == "L1" then some .lint1 else if o == "L2" then some .lint2
      else if o.startsWith "S1:" then some (.set1 (dropS o 3)) else if o.startsWith "S2:" then some (.set2 (dropS o 3)) else none)
    let seen := cfgRun ⟨"d0", "d0"⟩ ops
    "s " ++ "|".intercalate (seen.map (fun d => showProbe true (configure (seqDoc d) probeSpec "e_cfg_probe")))
  | _ => "bad-op"


/-! ### CLI ops -/

def opCliDisp (fields : List String) : String :=
  match fields with
  | [inform, pt, b64] =>
    match dispatch inform (if pt == "-" then none else some pt) (b64 == "1") with
    | .cert => "cert" | .crl => "crl" | .fail => "fail"
  | _ => "bad-op"

def opCliSum (fields : List String) : String :=
  match fields with
  | [sts] =>
    let results := (splitList sts ",").map (fun s => s.toInt?.getD 0)
    ",".intercalate ((summaryTable (Generated.statusLabelTable.map (·.2)) results).map (fun p => toString p.1 ++ ":" ++ toString p.2))
  | _ => "bad-op"

def hexPlain (bs : List Nat) : String := String.ofList (bs.flatMap (fun b => [hexDigit (b / 16), hexDigit (b % 16)]))

def parseGEntries (s : String) : List GEntry :=
  (splitList s ",").map (fun e => match e.splitOn "|" with
    | [n, d, r] => ⟨(unhexBytes n).getD [], (unhexBytes d).getD [], (unhexBytes r).getD []⟩
    | _ => ⟨[], [], []⟩)

def showGEntries (es : List GEntry) : String :=
  if es.isEmpty then "-" else ",".intercalate (es.map (fun e => hexPlain e.name ++ "|" ++ hexPlain e.deleg ++ "|" ++ hexPlain e.rem))

def opTldGen (kind : String) (fields : List String) : String :=
  match kind, fields with
  | "val", [es] => if validateG (parseGEntries es) then "ok" else "err"
  | "del", [es] => showGEntries (delegatedG (parseGEntries es))
  | "gen", [es, ls] =>
    match generate (parseGEntries es) ((splitList ls ",").map (fun h => (unhexBytes h).getD [])) with
    | none => "err"
    | some rows => showGEntries (sortRows rows)
  | _, _ => "bad-op"

/-! ### walkers (C02) -/

def hexNames (s : String) : List (List Nat) := if s == "." then [] else (s.splitOn ",").map (fun h => (unhexBytes h).getD [])

def opWalk (kind : String) (fields : List String) : String :=
  match kind, fields with
  | "wcc", [h] =>
    match unhexBytes h with
    | none => "bad-op"
    | some bs => match Walkers.controlChar bs with
      | .pass => "pass" | .warn => "warn" | .panic => "panic" | .outOfFuel => "out-of-fuel"
  | "wbmp", [h] =>
    match unhexBytes h with
    | none => "bad-op"
    | some bs => match Walkers.parseBMP bs with
      | none => "panic" | some none => "err" | some (some out) => "ok " ++ hexOfBytes out
  | "wdn", [hs] =>
    match Thresholds.dnNotPrintable (hexNames hs) with
    | .pass => "pass" | .error => "error" | .panic => "panic"
  | "wfq", [h] => hexOfBytes (Walkers.fqdnArg ((unhexBytes h).getD []))
  | "wna", [o] =>
    match Walkers.isNameAttribute (if o == "-" then [] else parseOid o) with
    | .val true => "1" | .val false => "0" | .panic => "panic"
  | _, _ => "bad-op"

/-! ### modelled name lints (C17 / C20) -/


def opNames (fields : List String) : String :=
  match fields with
  | [mask, cn, ip, dns, uris, idns, iuris] =>
    let v : Names.View := { cn := (unhexBytes cn).getD [], cnIsIP := ip == "1", dns := hexNames dns, uris := hexNames uris,
                            ianDns := hexNames idns, ianUris := hexNames iuris }
    let vs := Names.verdicts v
    let ms := mask.toList
    ",".intercalate ((vs.zip ms).map (fun p => if p.2 == '1' then toString p.1 else "*"))
  | _ => "bad-op"

/-! ### threshold companions (C20) -/

def opThr (kind : String) (fields : List String) : String :=
  match kind, fields with
  | "thr-val", [nb, na] =>
    let nbI := nb.toInt?.getD 0
    let naI := na.toInt?.getD 0
    toString (Thresholds.validity398 nbI naI) ++ "," ++ toString (Thresholds.validity397 nbI naI)
  | "thr-rc", [h] => toString (Thresholds.runeCount ((unhexBytes h).getD []))
  | "thr-gn", [hs] =>
    let names := hexNames hs
    toString (Thresholds.givenNameMax names) ++ "," ++ toString (Thresholds.givenNameRecommended names)
  | _, _ => "bad-op"

/-! ### DER reader and the raw-bytes walk (C09) -/

def opDer (kind : String) (fields : List String) : String :=
  match kind, fields with
  | "der-read", [h] =>
    match Der.readAny ((unhexBytes h).getD []) with
    | none => "fail"
    | some (t, c, r) => toString t ++ " " ++ hexOfBytes c ++ " " ++ hexOfBytes r
  | "der-walk", [h] =>
    match Der.walk ((unhexBytes h).getD []) with
    | .fatalCert => "fatal:certificate" | .fatalTbs => "fatal:tbsCertificate" | .fatalAlg => "fatal:signatureAlgorithm"
    | .fatalVersion => "fatal:version" | .fatalSerial => "fatal:serialNumber" | .fatalTbsAlg => "fatal:signature"
    | .error => "error" | .pass => "pass"
  | _, _ => "bad-op"

/-! ### JSON string codec (C14) -/

def opJs (kind : String) (fields : List String) : String :=
  match kind, fields with
  | "js-quote", [html, h] => hexOfBytes (JsonString.quote (html == "1") ((unhexBytes h).getD []))
  | "js-unquote", [h] =>
    match JsonString.unquote ((unhexBytes h).getD []) with
    | none => "fail"
    | some out => "ok " ++ hexOfBytes out
  | "js-sanitize", [h] => hexOfBytes (JsonString.sanitize ((unhexBytes h).getD []))
  | _, _ => "bad-op"

/-! ### registries as objects (C08 / C11 / C12 / C13 / C14) -/

def parseRegSeqOp (s : String) : Option RegSeq.Op :=
  match s.splitOn "|" with
  | ["N"] => some .newReg
  | ["R", h, kind, hname, src] =>
    let k : Kind := if kind == "crl" then .crl else if kind == "ocsp" then .ocsp else .cert
    some (.reg (natOf h) k ((unhex hname).getD "") src)
  | ["F", h, nf, inc, exc, isrc, xsrc] =>
    let nameFilter : Option (String → Bool) :=
      if nf == "none" then none else
      let set := unhexList (dropS nf 4)
      some (fun n => set.contains n)
    some (.filter (natOf h) { nameFilter := nameFilter, includeNames := unhexList inc, excludeNames := unhexList exc,
                              includeSources := unhexList isrc, excludeSources := unhexList xsrc })
  | ["S", h, tag] => some (.setCfg (natOf h) tag)
  | ["C", h] => some (.getCfg (natOf h))
  | ["M", h] => some (.names (natOf h))
  | ["U", h] => some (.sources (natOf h))
  | ["L", h] => some (.listing (natOf h))
  | ["X", h, kind] => some (.runKind (natOf h) (if kind == "crl" then .crl else if kind == "ocsp" then .ocsp else .cert))
  | ["K", h] => some (.lookups (natOf h))
  | _ => none

def opRegSeq (fields : List String) : String :=
  match fields with
  | [seq] =>
    let ops := (seq.splitOn ";").filterMap parseRegSeqOp
    ";".intercalate (RegSeq.run {} ops)
  | _ => "bad-op"

/-! ### translated rule bodies (lint-logic terms regenerated from the Go source) -/

def parsePairs (s : String) (sep : String) : List (Nat × String) :=
  if s == "." then [] else
  (s.splitOn sep).filterMap (fun p => match p.splitOn "=" with
    | [k, v] => k.toNat?.map (fun n => (n, v))
    | _ => none)

def parseListVal (s : String) : LL.ListVal :=
  match s.splitOn "|" with
  | [nilS, lenS, elems] =>
    let es := if elems == "" then [] else elems.splitOn ":"
    { isNil := nilS == "1", len := lenS.toNat?.getD 0,
      strs := es.map (fun e => if e == "-" then [] else (unhexBytes e).getD []),
      oids := es.map (fun e => if e == "e" then [] else parseOid e),
      ints := es.filterMap (·.toInt?) }
  | _ => {}

def opBodies (fields0 : List String) : String :=
  -- optional 8th field: the names of the util predicates the harness calls for real on this certificate
  let (fields, upNames) := match fields0 with
    | [a, b, c, d, e, f, g, h] => ([a, b, c, d, e, f, g], if h == "." then [] else h.splitOn ",")
    | other => (other, [])
  match fields with
  | [bools, ints, strs, lists, exts, times, envS] =>
    -- the environment: what the real external functions answered for the strings of this view
    let entries := if envS == "." then [] else envS.splitOn ","
    let unh (h : String) : List Nat := if h == "-" then [] else (unhexBytes h).getD []
    let fnTab : List (Nat × List Nat × Option (List Nat)) := entries.filterMap (fun e => match e.splitOn ":" with
      | [k, h, r] => if k.startsWith "f" then some ((dropS k 1).toNat?.getD 0, unh h, if r == "F" then none else some (unh (dropS r 1))) else none
      | _ => none)
    let prTab : List (Nat × List Nat × Bool) := entries.filterMap (fun e => match e.splitOn ":" with
      | [k, h, r] => if k.startsWith "p" then some ((dropS k 1).toNat?.getD 0, unh h, r == "1") else none
      | _ => none)
    let env : LL.Env := {
      fn := fun i s => match fnTab.find? (fun t => t.1 == i && t.2.1 == s) with | some t => t.2.2 | none => none
      pred := fun i s => match prTab.find? (fun t => t.1 == i && t.2.1 == s) with | some t => t.2.2 | none => false }
    let v : LL.View := {
      times := (parsePairs times ",").map (fun p => (p.1, parseTime p.2))
      bools := (parsePairs bools ",").map (fun p => (p.1, p.2 == "1"))
      ints := (parsePairs ints ",").map (fun p => (p.1, p.2.toInt?.getD 0))
      strs := (parsePairs strs ",").map (fun p => (p.1, if p.2 == "-" then [] else (unhexBytes p.2).getD []))
      lists := (parsePairs lists ";").map (fun p => (p.1, parseListVal p.2))
      exts := if exts == "." then [] else (exts.splitOn ",").filterMap (fun p => match p.splitOn "=" with
        | [o, c] => some (if o == "e" then [] else parseOid o, c == "1")
        | _ => none) }
    -- every field the table names must be in the view: a missing field is an error, never a default
    let have_ (k : Nat) (kind : String) : Bool :=
      if kind == "bool" then v.bools.any (·.1 == k) else if kind == "int" then v.ints.any (·.1 == k)
      else if kind == "str" then v.strs.any (·.1 == k) else if kind == "time" then v.times.any (·.1 == k) else v.lists.any (·.1 == k)
    let missing := ((List.range Generated.bodyFieldNames.length).zip Generated.bodyFieldNames).filter (fun p => !have_ p.1 p.2.2)
    if !missing.isEmpty then "missing-field " ++ " ".intercalate (missing.map (·.2.1)) else
    let rules := ",".intercalate (Generated.bodyRules.map (fun r => match r.run env v with
      | .panic => "P"
      | .notApplicable => "N"
      | .result s => toString s))
    let ups := upNames.map (fun n => match Generated.utilPreds.find? (fun p => p.1 == n) with
      | none => "U"
      | some p => match LL.evalC env v p.2 with
        | none => "P"
        | some true => "1"
        | some false => "0")
    if upNames.isEmpty then rules else rules ++ ";" ++ ",".intercalate ups
  | _ => "bad-op"

/-! ### CRL rule bodies (hand-written models of ZlModel/Crl.lean) -/

def opCrl (fields : List String) : String :=
  match fields with
  | [nz, extsS, entriesS] =>
    let exts := if extsS == "." then [] else (extsS.splitOn ",").map parseOid
    let entries : List Crl.Entry := if entriesS == "." then [] else (entriesS.splitOn ";").filterMap (fun e => match e.splitOn "|" with
      | [ser, rsn, xs] => some {
          serial := ser.toInt?.getD 0
          reason := if rsn == "-" then none else rsn.toInt?
          exts := if xs == "." then [] else (xs.splitOn ",").filterMap (fun p => match p.splitOn "=" with
            | [o, c] => some (parseOid o, c == "1")
            | _ => none) }
      | _ => none)
    let v : Crl.View := { nextUpdateZero := nz == "1", exts := exts, entries := entries }
    ",".intercalate ((Crl.verdicts v).map (fun o => match o with
      | .notApplicable => "N"
      | .result s => toString s))
  | _ => "bad-op"

def step (line : String) : String :=
  match line.splitOn "\t" with
  | "crl" :: rest => opCrl rest
  | "fw" :: rest => opFw rest
  | "filter" :: rest => opFilter rest
  | "register" :: rest => opRegister rest
  | "ipres" :: rest => opIp "ipres" rest
  | "ipgu" :: rest => opIp "ipgu" rest
  | "ipnet" :: rest => opIp "ipnet" rest
  | "ipcont" :: rest => opIp "ipcont" rest
  | "iplint-san" :: rest => opIp "iplint-san" rest
  | "iplint-nc" :: rest => opIp "iplint-nc" rest
  | "iplint-cn" :: rest => opIp "iplint-cn" rest
  | "rsa" :: rest => opRsa rest
  | "fermat" :: rest => opFermat rest
  | "tld" :: rest => opTld "tld" rest
  | "tldin" :: rest => opTld "tldin" rest
  | "tldlint" :: rest => opTld "tldlint" rest
  | "val" :: rest => opTldGen "val" rest
  | "del" :: rest => opTldGen "del" rest
  | "gen" :: rest => opTldGen "gen" rest
  | "cfg" :: rest => opCfg rest
  | "cfgseq" :: rest => opCfgSeq rest
  | "clidisp" :: rest => opCliDisp rest
  | "clisum" :: rest => opCliSum rest
  | "enc" :: rest => opEnc rest
  | "dec" :: rest => opDec rest
  | "src" :: rest => opSrc rest
  | "srclist" :: rest => opSrcList rest
  | "der-read" :: rest => opDer "der-read" rest
  | "der-walk" :: rest => opDer "der-walk" rest
  | "js-quote" :: rest => opJs "js-quote" rest
  | "js-unquote" :: rest => opJs "js-unquote" rest
  | "js-sanitize" :: rest => opJs "js-sanitize" rest
  | "caclass" :: a :: b :: [] =>
    let v : CAView := ⟨a == "1", b == "1"⟩
    b2s (isRootCA v) ++ b2s (isSubCA v) ++ b2s (isSubscriberCert v)
  | "regseq" :: rest => opRegSeq rest
  | "names" :: rest => opNames rest
  | "bodies" :: rest => opBodies rest
  | "thr-val" :: rest => opThr "thr-val" rest
  | "thr-rc" :: rest => opThr "thr-rc" rest
  | "thr-gn" :: rest => opThr "thr-gn" rest
  | "wcc" :: rest => opWalk "wcc" rest
  | "wbmp" :: rest => opWalk "wbmp" rest
  | "wna" :: rest => opWalk "wna" rest
  | "wfq" :: rest => opWalk "wfq" rest
  | "wdn" :: rest => opWalk "wdn" rest
  | _ => "bad-op"

partial def loop (h : IO.FS.Stream) (out : IO.FS.Stream) : IO Unit := do
  let line ← h.getLine
  if line.isEmpty then return ()
  let l := chomp line
  out.putStrLn (step l)
  loop h out

end Zl.Driver

def main : IO Unit := do
  let stdin ← IO.getStdin
  let stdout ← IO.getStdout
  Zl.Driver.loop stdin stdout
