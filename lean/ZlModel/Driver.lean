/-
  ZlModel.Driver — reads one operation per line on stdin, runs the model's
  executable definitions, prints one canonical line per operation.
-/
import ZlModel.Proto
import ZlModel.Framework
import ZlModel.Scope
import ZlModel.Generated.Tables
open Zl Zl.Proto

namespace Zl.Driver

def parseTime (s : String) : Time :=
  if s == "Z" then Time.zero
  else match s.splitOn "." with
    | [a, b] => ⟨a.toInt?.getD 0, b.toNat?.getD 0⟩
    | [a] => ⟨a.toInt?.getD 0, 0⟩
    | _ => Time.zero

/-- a scripted lint, as the harness's `LintSpec` -/
def scriptedLint (spec : String) : Option (Lint Unit Unit × String) :=
  match spec.splitOn "," with
  | [name, source, eff, ineff, cfg, app, body] =>
    let configure : Unit → Stage (Option String) := fun _ =>
      match cfg with
      | "n" | "ok" => .ok none
      | "err" | "tbl" => .ok (some ("CFGERR:" ++ name))
      | _ => .panic ("boom-configure-" ++ name)
    let applies : Unit → Stage Bool := fun _ =>
      match app with
      | "T" => .ok true
      | "F" => .ok false
      | _ => .panic ("boom-applies-" ++ name)
    let bodyF : Unit → Body := fun _ =>
      if body == "nil" then .nil
      else if body == "P" then .panic ("boom-body-" ++ name)
      else .res ((dropS body 1).toInt?.getD 0) ("d-" ++ name)
    some ({ md := { name := name, source := source, eff := parseTime eff, ineff := parseTime ineff, description := "scripted " ++ name, citation := "verif" }
            configure := configure, applies := applies, body := bodyF }, cfg)
  | _ => none

def parseView (s : String) : CertView :=
  if s == "-" then default else
  let parts := s.splitOn "/"
  let get (k : String) : String := match parts.find? (·.startsWith (k ++ "=")) with
    | some p => dropS p (k.length + 1)
    | none => "-"
  { ekus := (splitList (get "ekus") ",").map parseOid
    policies := (splitList (get "pol") ",").map parseOid
    emails := (splitList (get "em") ",").map (fun h => (unhex h).getD "")
    otherNames := (splitList (get "on") ",").map (fun p => match p.splitOn ":" with
      | [o, l] => (parseOid o, l.toNat?.getD 0)
      | _ => ([], 0)) }

def b2s (b : Bool) : String := if b then "1" else "0"

def logString (cfg : String) (calls : List Call) : String :=
  String.ofList (calls.filterMap (fun c => match c with
    | .construct => some 'c'
    | .configure => if cfg == "n" then none else some 'f'
    | .applies => some 'a'
    | .body => some 'b'))

/-- insertion sort of strings (canonical order of result lines) -/
def sortStrings (xs : List String) : List String :=
  xs.foldl (fun acc x =>
    let (lo, hi) := acc.span (fun y => y < x)
    lo ++ [x] ++ hi) []

def opFw (fields : List String) : String :=
  match fields with
  | [kindS, viewS, tsec, tnsec, lintsS] =>
    let kind : Kind := if kindS == "cert" then .cert else if kindS == "crl" then .crl else .ocsp
    let view := parseView viewS
    let sc := scopeOf view
    let target : Time := ⟨tsec.toInt?.getD 0, tnsec.toNat?.getD 0⟩
    let specs := (lintsS.splitOn ";").filterMap scriptedLint
    let lints := specs.map (·.1)
    match runAll Generated.version kind sc target lints () () with
    | .panicked _ => "panic"
    | .returned rs =>
      let results := sortStrings (rs.results.map (fun p =>
        p.1 ++ "=" ++ toString p.2.status ++ ":" ++ hexOf p.2.details ++ ":" ++ p.2.md.name ++ ":" ++ p.2.md.source))
      -- the call log of each lint: calls made before a panic of an earlier lint are not observable when the run panics
      let logs := sortStrings (specs.map (fun (l, cfg) => l.md.name ++ "=" ++ logString cfg (execute kind sc target l () ()).2))
      "ok v=" ++ toString rs.version ++ " n=" ++ b2s rs.notices ++ " w=" ++ b2s rs.warnings ++ " e=" ++ b2s rs.errors ++ " f=" ++ b2s rs.fatals
        ++ " | " ++ " ".intercalate results ++ " | " ++ " ".intercalate logs
  | _ => "bad-op"

def step (line : String) : String :=
  match line.splitOn "\t" with
  | "fw" :: rest => opFw rest
  | _ => "bad-op"

partial def loop (h : IO.FS.Stream) (out : IO.FS.Stream) : IO Unit := do
  let line ← h.getLine
  if line.isEmpty then return ()
  let l := chomp line
  out.putStrLn (step l)
  loop h out

end Zl.Driver

def main : IO Unit := do
  let stdin ← IO.getStdin
  let stdout ← IO.getStdout
  Zl.Driver.loop stdin stdout
