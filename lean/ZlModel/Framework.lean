/-
  ZlModel.Framework — the lint life-cycle and the result set, over *abstract*
  lints (every stage may succeed, fail or panic; the body may return any raw
  status, or nil).

  Code modelled: v3/lint/base.go (CertificateLint.Execute/execute,
  RevocationListLint.Execute, OcspResponseLint.Execute), v3/resultset.go,
  v3/zlint.go (Lint*Ex).
-/
import ZlModel.Basic
namespace Zl

/-- outcome of a stage that may panic -/
inductive Stage (α : Type) where
  | ok (a : α)
  | panic (msg : String)
  deriving Repr

/-- outcome of a rule body -/
inductive Body where
  | res (status : Status) (details : String)
  | nil
  | panic (msg : String)
  deriving DecidableEq, Repr

structure Meta where
  name : String
  description : String := ""
  citation : String := ""
  source : String := ""
  eff : Time := Time.zero
  ineff : Time := Time.zero
  deriving DecidableEq, Repr, Inhabited

inductive Kind where
  | cert | crl | ocsp
  deriving DecidableEq, Repr, Inhabited

/-- An abstract lint over object type `Obj` and configuration type `Cfg`.
    `configure` models `l.Lint()` followed by `config.MaybeConfigure`:
    `ok none` = not configurable or configured fine, `ok (some e)` = error `e`. -/
structure Lint (Obj Cfg : Type) where
  md : Meta
  configure : Cfg → Stage (Option String)
  applies : Obj → Stage Bool
  body : Obj → Body

/-- what `lint.Execute` hands back to the result-set loop -/
inductive Exec where
  | result (status : Status) (details : String)
  | nilResult
  | panic (msg : String)
  deriving DecidableEq, Repr

inductive Call where
  | construct | configure | applies | body
  deriving DecidableEq, Repr

/-- the three scope predicates of a certificate, as the framework sees them -/
structure Scope where
  serverAuth : Bool
  emailProtection : Bool
  codeSigning : Bool
  deriving DecidableEq, Repr, Inhabited

def srcBR : String := "CABF_BR"
def srcSMIME : String := "CABF_SMIME_BR"
def srcCS : String := "CABF_CS_BR"

/-- the source gate at the top of `CertificateLint.execute` -/
def inScope (source : String) (sc : Scope) : Bool :=
  !((source == srcBR && !sc.serverAuth) ||
    (source == srcSMIME && !sc.emailProtection) ||
    (source == srcCS && !sc.codeSigning))

/-- construct → configure → applies → window → body, with the log of calls made.
    `gate` is the outcome of the scope gate (always `true` for CRL / OCSP). -/
def executeRaw {Obj Cfg : Type} (gate : Bool) (target : Time) (l : Lint Obj Cfg) (o : Obj) (cfg : Cfg) :
    Exec × List Call :=
  if !gate then (.result Status.na "", [])
  else match l.configure cfg with
    | .panic m => (.panic m, [.construct, .configure])
    | .ok (some err) => (.result Status.fatal err, [.construct, .configure])
    | .ok none =>
      match l.applies o with
      | .panic m => (.panic m, [.construct, .configure, .applies])
      | .ok false => (.result Status.na "", [.construct, .configure, .applies])
      | .ok true =>
        if !checkEffective l.md.eff l.md.ineff target then
          (.result Status.ne "", [.construct, .configure, .applies])
        else match l.body o with
          | .res s d => (.result s d, [.construct, .configure, .applies, .body])
          | .nil => (.nilResult, [.construct, .configure, .applies, .body])
          | .panic m => (.panic m, [.construct, .configure, .applies, .body])

def panicDetails (name msg : String) : String := "'" ++ name ++ "' panicked. Error: " ++ msg

/-- `CertificateLint.Execute`: the deferred `recover` turns a panic into a fatal result. -/
def recoverExec (name : String) : Exec → Exec
  | .panic m => .result Status.fatal (panicDetails name m)
  | e => e

/-- `lint.Execute` for a lint of kind `k`. -/
def execute {Obj Cfg : Type} (k : Kind) (sc : Scope) (target : Time) (l : Lint Obj Cfg) (o : Obj) (cfg : Cfg) :
    Exec × List Call :=
  match k with
  | .cert =>
    let r := executeRaw (inScope l.md.source sc) target l o cfg
    (recoverExec l.md.name r.1, r.2)
  | _ => executeRaw true target l o cfg

structure Result where
  status : Status
  details : String
  md : Meta
  deriving Repr

structure ResultSet where
  version : Int := 0
  results : List (String × Result) := []   -- Go map: newest binding first, keys unique
  notices : Bool := false
  warnings : Bool := false
  errors : Bool := false
  fatals : Bool := false
  deriving Repr

/-- Go map assignment `m[k] = v` -/
def mapInsert {β : Type} (m : List (String × β)) (k : String) (v : β) : List (String × β) :=
  (k, v) :: m.filter (fun p => p.1 != k)

/-- `updateErrorStatePresent` -/
def updateFlags (rs : ResultSet) (s : Status) : ResultSet :=
  if s == Status.notice then { rs with notices := true }
  else if s == Status.warn then { rs with warnings := true }
  else if s == Status.error then { rs with errors := true }
  else if s == Status.fatal then { rs with fatals := true }
  else rs

inductive Run where
  | returned (rs : ResultSet)
  | panicked (msg : String)
  deriving Repr

/-- one iteration of the loop in `executeCertificate` / `executeRevocationList` / `executeOcspResponse` -/
def stepRun {Obj Cfg : Type} (k : Kind) (sc : Scope) (target : Time) (o : Obj) (cfg : Cfg)
    (acc : Run) (l : Lint Obj Cfg) : Run :=
  match acc with
  | .panicked m => .panicked m
  | .returned rs =>
    match (execute k sc target l o cfg).1 with
    | .panic m => .panicked m
    | .nilResult => .panicked "nil pointer dereference"   -- `res.LintMetadata = …` on a nil result
    | .result s d =>
      .returned (updateFlags { rs with results := mapInsert rs.results l.md.name ⟨s, d, l.md⟩ } s)

/-- `Lint{Certificate,RevocationList,OcspResponse}Ex` on a non-nil object with the lints of kind `k` -/
def runAll {Obj Cfg : Type} (version : Int) (k : Kind) (sc : Scope) (target : Time)
    (ls : List (Lint Obj Cfg)) (o : Obj) (cfg : Cfg) : Run :=
  match ls.foldl (stepRun k sc target o cfg) (.returned {}) with
  | .returned rs => .returned { rs with version := version }
  | .panicked m => .panicked m

end Zl
