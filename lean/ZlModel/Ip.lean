/-
  ZlModel.Ip — reserved-address classification for hosts and networks.
  Code modelled: v3/util/ip.go (IsIANAReserved, IntersectsIANAReserved) over the regenerated CIDR
  table; the parts of Go's net package they rely on (IP.To4, IP.IsGlobalUnicast, IPNet.Contains for
  contiguous masks) are modelled by hand (assumption A-NET, validated by the `ip` correspondence).
-/
import ZlModel.Generated.Numeric
namespace Zl

/-- a `net.IP` of 4 or 16 bytes as (width in bits, value) -/
structure Addr where
  width : Nat
  val : Nat
  deriving DecidableEq, Repr, Inhabited

/-- a `net.IPNet` with a contiguous mask: base address and prefix length (relative to the base's width) -/
structure Net where
  base : Addr
  plen : Nat
  deriving DecidableEq, Repr, Inhabited

def mappedPrefix : Nat := 0xffff

/-- `IP.To4()`: a 4-byte address, or a 16-byte one in ::ffff:0:0/96 -/
def Addr.to4 (a : Addr) : Option Nat :=
  if a.width == 32 then some a.val
  else if a.width == 128 && a.val / 2 ^ 32 == mappedPrefix then some (a.val % 2 ^ 32)
  else none

/-- canonical form: IPv4 (also when written IPv4-mapped) as width 32, everything else as is -/
def Addr.norm (a : Addr) : Addr :=
  match a.to4 with
  | some v => ⟨32, v⟩
  | none => a

/-- `IP.IsGlobalUnicast()` -/
def Addr.isGlobalUnicast (a : Addr) : Bool :=
  let n := a.norm
  if n.width == 32 then
    n.val != 0xffffffff               -- limited broadcast
    && n.val != 0                     -- unspecified
    && n.val / 2 ^ 24 != 127          -- loopback
    && n.val / 2 ^ 28 != 0xe          -- multicast
    && n.val / 2 ^ 16 != 0xa9fe       -- link-local 169.254/16
  else if n.width == 128 then
    n.val != 0                        -- unspecified
    && n.val != 1                     -- loopback
    && n.val / 2 ^ 120 != 0xff        -- multicast
    && n.val / 2 ^ 118 != 0x3fa       -- link-local fe80::/10
  else false

/-- `networkNumberAndMask` + the prefix it leaves: an IPv4-mapped network with a 128-bit mask is
    compared as the IPv4 network with the last 32 mask bits -/
def Net.norm (n : Net) : Net :=
  match n.base.to4 with
  | some v => if n.base.width == 32 then ⟨⟨32, v⟩, n.plen⟩ else ⟨⟨32, v⟩, n.plen - 96⟩
  | none => n

/-- `IPNet.Contains(ip)` -/
def Net.contains (n : Net) (x : Addr) : Bool :=
  let nn := n.norm
  let xx := x.norm
  nn.base.width == xx.width && xx.val / 2 ^ (nn.base.width - nn.plen) == nn.base.val / 2 ^ (nn.base.width - nn.plen)

/-- the regenerated `reservedNetworks` -/
def reservedNets : List Net := Generated.networks.map (fun t => ⟨⟨t.1, t.2.1⟩, t.2.2.1⟩)

/-- `util.IsIANAReserved` over a table -/
def isReservedIn (tbl : List Net) (x : Addr) : Bool :=
  !x.isGlobalUnicast || tbl.any (fun r => r.contains x)

/-- `util.IntersectsIANAReserved` over a table -/
def intersectsIn (tbl : List Net) (n : Net) : Bool :=
  !n.base.isGlobalUnicast || tbl.any (fun r => r.contains n.base || n.contains r.base)

def isReserved (x : Addr) : Bool := isReservedIn reservedNets x
def intersectsReserved (n : Net) : Bool := intersectsIn reservedNets n

end Zl
