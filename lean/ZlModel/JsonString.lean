/-
  ZlModel.JsonString — the string codec of encoding/json as zlint uses it (Go 1.23):

    quote   = encoding/json `appendString(dst, s, escapeHTML)`   (json.Marshal: escapeHTML = true;
              the lint listing's Encoder sets it to false)
    unquote = encoding/json's scanner + `unquoteBytes` (decode.go) on a quoted string literal, i.e. json.Unmarshal
              into a string, without surrounding white space

  on byte strings. `sanitize` is what survives a round trip: every byte that does not start a valid UTF-8
  sequence becomes U+FFFD (EF BF BD). Proved in ZlProofs.Props.C14: `unquote (quote html s) = some (sanitize s)`
  for every byte string — so details texts come back exactly, up to that replacement. Tied to the standard
  library by the `jsonstr` correspondence.
-/
import ZlModel.Thresholds
namespace Zl.JsonString
open Zl.Thresholds (width)

abbrev Bytes := List Nat

def hexDigit (n : Nat) : Nat := if n < 10 then 48 + n else 87 + n          -- '0'..'9', 'a'..'f'
def u00 (b : Nat) : Bytes := [0x5c, 0x75, 0x30, 0x30, hexDigit (b / 16), hexDigit (b % 16)]   -- \u00XX
def replacement : Bytes := [0xEF, 0xBF, 0xBD]
def escFFFD : Bytes := [0x5c, 0x75, 0x66, 0x66, 0x66, 0x64]                -- �

/-- ASCII bytes that are copied unescaped (`safeSet` / `htmlSafeSet`) -/
def safe (html : Bool) (b : Nat) : Bool :=
  decide (0x20 ≤ b) && b != 0x22 && b != 0x5c && !(html && (b == 0x3c || b == 0x3e || b == 0x26))

/-- one step of `appendString`: the output and how many input bytes it consumed (input non-empty) -/
def quoteStep (html : Bool) (bs : Bytes) : Bytes × Nat :=
  match bs with
  | [] => ([], 0)
  | b :: _ =>
    if b < 0x80 then
      if safe html b then ([b], 1)
      else if b == 0x5c || b == 0x22 then ([0x5c, b], 1)
      else if b == 8 then ([0x5c, 0x62], 1)
      else if b == 12 then ([0x5c, 0x66], 1)
      else if b == 10 then ([0x5c, 0x6e], 1)
      else if b == 13 then ([0x5c, 0x72], 1)
      else if b == 9 then ([0x5c, 0x74], 1)
      else (u00 b, 1)
    else
      let w := width bs
      if w ≤ 1 then (escFFFD, 1)
      else
        let seq := bs.take w
        if seq == [0xE2, 0x80, 0xA8] then ([0x5c, 0x75, 0x32, 0x30, 0x32, 0x38], w)       --  
        else if seq == [0xE2, 0x80, 0xA9] then ([0x5c, 0x75, 0x32, 0x30, 0x32, 0x39], w)  --  
        else (seq, w)

def quoteBody (html : Bool) : Nat → Bytes → Bytes
  | 0, _ => []
  | _, [] => []
  | fuel + 1, bs => let (out, k) := quoteStep html bs; out ++ quoteBody html fuel (bs.drop k)

def quote (html : Bool) (bs : Bytes) : Bytes := 0x22 :: (quoteBody html bs.length bs ++ [0x22])

/-- what a round trip preserves: valid sequences as they are, every other byte replaced by U+FFFD -/
def sanitizeFuel : Nat → Bytes → Bytes
  | 0, _ => []
  | _, [] => []
  | fuel + 1, b :: rest =>
    if b < 0x80 then b :: sanitizeFuel fuel rest
    else
      let w := width (b :: rest)
      if w ≤ 1 then replacement ++ sanitizeFuel fuel rest
      else (b :: rest).take w ++ sanitizeFuel fuel ((b :: rest).drop w)

def sanitize (bs : Bytes) : Bytes := sanitizeFuel bs.length bs

/-! ### unquote -/

def hexVal (c : Nat) : Option Nat :=
  if 48 ≤ c ∧ c ≤ 57 then some (c - 48)
  else if 97 ≤ c ∧ c ≤ 102 then some (c - 87)
  else if 65 ≤ c ∧ c ≤ 70 then some (c - 55)
  else none

/-- `getu4` on the four bytes after `\u` -/
def getu4 (a b c d : Nat) : Option Nat :=
  match hexVal a, hexVal b, hexVal c, hexVal d with
  | some w, some x, some y, some z => some (w * 4096 + x * 256 + y * 16 + z)
  | _, _, _, _ => none

/-- `utf8.EncodeRune` (surrogates and values above U+10FFFF become U+FFFD) -/
def encodeRune (r : Nat) : Bytes :=
  let r := if (0xd800 ≤ r && r < 0xe000) || r > 0x10ffff then 0xfffd else r
  if r < 0x80 then [r]
  else if r < 0x800 then [0xc0 + r / 64, 0x80 + r % 64]
  else if r < 0x10000 then [0xe0 + r / 4096, 0x80 + (r / 64) % 64, 0x80 + r % 64]
  else [0xf0 + r / 262144, 0x80 + (r / 4096) % 64, 0x80 + (r / 64) % 64, 0x80 + r % 64]

def isSurrogate (r : Nat) : Bool := decide (0xd800 ≤ r) && decide (r < 0xe000)

/-- one token of `unquoteBytes` after the opening quote; `k` decodes what follows the token -/
def unquoteStep (k : Bytes → Option Bytes) (s : Bytes) : Option Bytes :=
  match s with
  | [] => none                                        -- no closing quote
  | c :: rest =>
    if c == 0x22 then (if rest.isEmpty then some [] else none)          -- a raw quote must be the last byte
    else if c < 0x20 then none                                           -- raw control character
    else if c == 0x5c then
      match rest with
      | [] => none
      | e :: r1 =>
        let simple (b : Nat) := (k r1).map (b :: ·)
        if e == 0x22 || e == 0x5c || e == 0x2f then simple e     -- (unquoteBytes also lists \' but the scanner that runs first rejects it)
        else if e == 0x62 then simple 8
        else if e == 0x66 then simple 12
        else if e == 0x6e then simple 10
        else if e == 0x72 then simple 13
        else if e == 0x74 then simple 9
        else if e == 0x75 then
          match r1 with
          | a :: b :: c' :: d :: r2 =>
            match getu4 a b c' d with
            | none => none
            | some rr =>
              if isSurrogate rr then
                -- a following \uXXXX that completes a valid pair is consumed with it
                match r2 with
                | 0x5c :: 0x75 :: a2 :: b2 :: c2 :: d2 :: r3 =>
                  match getu4 a2 b2 c2 d2 with
                  | some rr1 =>
                    if 0xd800 ≤ rr ∧ rr < 0xdc00 ∧ 0xdc00 ≤ rr1 ∧ rr1 < 0xe000 then
                      (k r3).map (encodeRune ((rr - 0xd800) * 1024 + (rr1 - 0xdc00) + 0x10000) ++ ·)
                    else (k r2).map (replacement ++ ·)
                  | none => (k r2).map (replacement ++ ·)
                | _ => (k r2).map (replacement ++ ·)
              else (k r2).map (encodeRune rr ++ ·)
          | _ => none
        else none
    else if c < 0x80 then (k rest).map (c :: ·)
    else
      let w := width (c :: rest)
      if w ≤ 1 then (k rest).map (replacement ++ ·)
      else (k ((c :: rest).drop w)).map ((c :: rest).take w ++ ·)   -- EncodeRune (DecodeRune seq) = seq for a valid sequence

/-- the body of `unquoteBytes`, after the opening quote; succeeds only if the input ends with the closing quote
    (one unit of fuel per token) -/
def unquoteBody : Nat → Bytes → Option Bytes
  | 0, _ => none
  | fuel + 1, s => unquoteStep (unquoteBody fuel) s

/-- `unquoteBytes` on a string literal: must start with a quote -/
def unquote (s : Bytes) : Option Bytes :=
  match s with
  | 0x22 :: body => unquoteBody (body.length + 1) body
  | _ => none

end Zl.JsonString
