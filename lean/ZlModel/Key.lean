/-
  ZlModel.Key — byte strings as natural numbers, so that kernel evaluation over
  generated tables is fast (GMP-backed `Nat` operations instead of `String`).
-/
namespace Zl

/-- injective key of a byte list: big-endian number of `1 :: bytes` -/
def keyOfBytes (bs : List Nat) : Nat := bs.foldl (fun acc b => acc * 256 + b) 1

/-- UTF-8 bytes of a code point (kernel-reducible: plain arithmetic, no ByteArray) -/
def utf8Bytes (c : Nat) : List Nat :=
  if c < 0x80 then [c]
  else if c < 0x800 then [0xC0 + c / 64, 0x80 + c % 64]
  else if c < 0x10000 then [0xE0 + c / 4096, 0x80 + (c / 64) % 64, 0x80 + c % 64]
  else [0xF0 + c / 262144, 0x80 + (c / 4096) % 64, 0x80 + (c / 64) % 64, 0x80 + c % 64]

def utf8OfString (s : String) : List Nat := s.toList.flatMap (fun ch => utf8Bytes ch.toNat)

def keyOf (s : String) : Nat := keyOfBytes (utf8OfString s)

/-- order-preserving key: bytes right-padded with NUL to `width`, big-endian -/
def padKeyOfBytes (width : Nat) (bs : List Nat) : Nat :=
  (bs ++ List.replicate (width - bs.length) 0).foldl (fun acc b => acc * 256 + b) 0

def padKeyOf (width : Nat) (s : String) : Nat := padKeyOfBytes width (utf8OfString s)

/-- the bytes of an injective key (inverse of `keyOfBytes`), most significant first -/
def bytesOfKey (k : Nat) : List Nat :=
  let rec go (fuel : Nat) (k : Nat) (acc : List Nat) : List Nat :=
    match fuel with
    | 0 => acc
    | fuel + 1 => if k ≤ 1 then acc else go fuel (k / 256) ((k % 256) :: acc)
  go k k []

/-- the non-NUL prefix bytes of a padded key of the given width -/
def bytesOfPadKey (width : Nat) (k : Nat) : List Nat :=
  ((List.range width).map (fun i => (k / 256 ^ (width - 1 - i)) % 256)).takeWhile (· != 0)

/-- strictly increasing list of numbers (⇒ no duplicates) -/
def strictSorted : List Nat → Bool
  | [] => true
  | [_] => true
  | a :: b :: rest => decide (a < b) && strictSorted (b :: rest)

theorem strictSorted_tail {a : Nat} {l : List Nat} (h : strictSorted (a :: l) = true) : strictSorted l = true := by
  cases l with
  | nil => rfl
  | cons b rest => simp [strictSorted] at h; exact h.2

theorem strictSorted_lt_all : ∀ (l : List Nat) (a : Nat), strictSorted (a :: l) = true → ∀ x ∈ l, a < x := by
  intro l
  induction l with
  | nil => intro a _ x hx; cases hx
  | cons b rest ih =>
    intro a h x hx
    simp [strictSorted] at h
    rcases List.mem_cons.mp hx with rfl | hx
    · exact h.1
    · exact Nat.lt_trans h.1 (ih b h.2 x hx)

theorem strictSorted_nodup : ∀ (l : List Nat), strictSorted l = true → l.Nodup := by
  intro l
  induction l with
  | nil => intro _; exact List.nodup_nil
  | cons a rest ih =>
    intro h
    refine List.nodup_cons.mpr ⟨?_, ih (strictSorted_tail h)⟩
    intro hm
    exact Nat.lt_irrefl a (strictSorted_lt_all rest a h a hm)

end Zl
