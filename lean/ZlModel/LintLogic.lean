/-
  ZlModel.LintLogic — the lint-logic language: the fragment of Go in which most certificate rule bodies
  are written, with its evaluation on a *view* of the parsed certificate.

  The terms of this language are not written by hand: `/verif/extract/bodies.go` translates the
  `CheckApplies` / `Execute` methods of every certificate lint that stays inside the fragment (helpers of
  `v3/util` are inlined from their own source) into `Generated/Bodies.lean` on every run. The theorems of
  `ZlProofs/Props/Bodies.lean` are about `evalC` / `evalS` for *every* term and *every* view, and are
  instantiated on the regenerated table by kernel evaluation. The `bodies` correspondence runs the real
  lints and this evaluator on the same certificates (view dumped by reflection from the parsed object).

  Panics are outcomes: dereferencing the extension `util.GetExtFromCert` did not find is `none`.
-/
import ZlModel.Basic
import ZlModel.Thresholds
import ZlModel.Rsa
import ZlModel.Names
namespace Zl.LL

abbrev Oid := List Nat
abbrev Bytes := List Nat

inductive Cmp | eq | ne | lt | le | gt | ge
  deriving DecidableEq, Repr

def Cmp.eval : Cmp → Int → Int → Bool
  | .eq, a, b => a == b
  | .ne, a, b => a != b
  | .lt, a, b => decide (a < b)
  | .le, a, b => decide (a ≤ b)
  | .gt, a, b => decide (a > b)
  | .ge, a, b => decide (a ≥ b)

/-- `strings.Contains(s, sub)` on byte strings -/
def containsSub (s sub : Bytes) : Bool :=
  match s with
  | [] => sub.isEmpty
  | c :: cs => sub.isPrefixOf (c :: cs) || containsSub cs sub

/-- functions of the standard library (and zlint helpers built on regular expressions or the public-suffix list) that a
    rule applies to a string: parameters of the model. `fn` = a string-valued projection of a parse (`url.Parse(s).Scheme`;
    `none` when the parse failed), `pred` = a boolean (`url.Parse(s)` fails, `util.IsFQDNOrIP(s)`, …). Every theorem holds
    for every environment; the correspondence computes the environment with the real functions. -/
structure Env where
  fn : Nat → Bytes → Option Bytes
  pred : Nat → Bytes → Bool

/-- predicate on one string element of a list field -/
inductive SPred
  | hasPrefix (lit : Bytes)
  | hasSuffix (lit : Bytes)
  | contains (lit : Bytes)
  | eq (lit : Bytes)
  | lenCmp (c : Cmp) (k : Int)      -- len(s) OP k (octets)
  | runesCmp (c : Cmp) (k : Int)    -- utf8.RuneCountInString(s) OP k
  | ext (id : Nat)                  -- an external predicate of the environment
  | proj (id : Nat) (p : SPred)     -- p on an external projection of the string; false when the projection failed
  | anyByte (frm : Nat) (c : Cmp) (b : Nat)  -- some octet s[i], i ≥ frm, satisfies `s[i] OP b`
  | anyLabel (p : SPred)            -- some element of strings.Split(s, ".") satisfies p
  | firstLabel (p : SPred)          -- p on strings.Split(s, ".")[0] (Split never returns an empty slice)
  | restLabels (p : SPred)          -- some element of strings.Split(s, ".")[1:] satisfies p
  | not (p : SPred)
  | and (p q : SPred)
  | or (p q : SPred)
  deriving Repr, DecidableEq

def SPred.eval (env : Env) : SPred → Bytes → Bool
  | .hasPrefix l, s => l.isPrefixOf s
  | .hasSuffix l, s => l.isSuffixOf s
  | .contains l, s => containsSub s l
  | .eq l, s => s == l
  | .lenCmp c k, s => c.eval s.length k
  | .runesCmp c k, s => c.eval (Thresholds.runeCount s) k
  | .ext id, s => env.pred id s
  | .proj id p, s => match env.fn id s with
    | some t => p.eval env t
    | none => false
  | .anyByte frm c b, s => (s.drop frm).any (fun x => c.eval x b)
  | .anyLabel p, s => (Names.splitDot s).any (fun l => p.eval env l)
  | .firstLabel p, s => match Names.splitDot s with
    | l :: _ => p.eval env l
    | [] => false
  | .restLabels p, s => ((Names.splitDot s).drop 1).any (fun l => p.eval env l)
  | .not p, s => !(p.eval env s)
  | .and p q, s => p.eval env s && q.eval env s
  | .or p q, s => p.eval env s || q.eval env s

/-- a list-valued field as the lints can observe it -/
structure ListVal where
  isNil : Bool := true
  len : Nat := 0
  strs : List Bytes := []     -- the elements, when they are strings
  oids : List Oid := []       -- …, when they are OIDs
  ints : List Int := []       -- …, when they are integers
  deriving Repr, Inhabited

/-- the view of a parsed certificate: fields by index into `Generated.bodyFieldNames`, and `ExtensionsMap` -/
structure View where
  bools : List (Nat × Bool) := []
  ints : List (Nat × Int) := []
  strs : List (Nat × Bytes) := []
  lists : List (Nat × ListVal) := []
  times : List (Nat × Time) := []  -- time.Time fields, as instants
  exts : List (Oid × Bool) := []   -- c.ExtensionsMap: OID ↦ Critical (a map: one entry per OID)
  deriving Repr, Inhabited

def lookup {α : Type} (d : α) (f : Nat) : List (Nat × α) → α
  | [] => d
  | (k, v) :: r => if k == f then v else lookup d f r

def View.bool (v : View) (f : Nat) : Bool := lookup false f v.bools
def View.int (v : View) (f : Nat) : Int := lookup 0 f v.ints
def View.str (v : View) (f : Nat) : Bytes := lookup [] f v.strs
def View.list (v : View) (f : Nat) : ListVal := lookup {} f v.lists
def View.time (v : View) (f : Nat) : Time := lookup Time.zero f v.times
/-- `util.GetExtFromCert(c, o)`: the map entry, if any -/
def View.ext? (v : View) (o : Oid) : Option Bool := (v.exts.find? (fun e => e.1 == o)).map (·.2)

/-- `a.Before(b)` / `a.After(b)` / `a.Equal(b)` on instants -/
inductive TOp | before | after | equal
  deriving DecidableEq, Repr
def TOp.eval : TOp → Time → Time → Bool
  | .before, a, b => Time.before a b
  | .after, a, b => Time.after a b
  | .equal, a, b => a.sec == b.sec && a.nsec == b.nsec

/-- what a condition can establish about the certificate: facts a later dereference / type assertion relies on -/
inductive Fact
  | ext (o : Oid)               -- the extension is present in `ExtensionsMap`
  | intEq (f : Nat) (k : Int)   -- the integer field has this value (the dynamic type tag of `c.PublicKey`)
  deriving DecidableEq, Repr

/-- integer expressions (machine integers and `*big.Int`, both as unbounded integers: the fragment has no
    arithmetic that can overflow). `none` = the Go expression panics. -/
inductive IExp
  | lit (k : Int)
  | fld (f : Nat)                        -- an integer field of the certificate
  | kfld (f : Nat) (tf : Nat) (k : Int)  -- a field of the key obtained by `c.PublicKey.(*T)`, T = type tag `k` of field `tf`:
                                         -- when the dynamic type is another one the variable is a nil pointer and the read panics
  | bitLen (e : IExp)                    -- `(*big.Int).BitLen`
  | tmod (e : IExp) (k : Int)            -- Go's `%` on machine integers (truncated division), constant divisor
  | emod (e : IExp) (k : Int)            -- `(*big.Int).Mod` (Euclidean), constant divisor
  deriving DecidableEq, Repr

inductive Cond
  | const (b : Bool)
  | bool (f : Nat)                          -- c.F
  | int (f : Nat) (c : Cmp) (k : Int)       -- c.F OP k
  | mask (f : Nat) (m : Nat)                -- c.F & m != 0
  | strEq (f : Nat) (lit : Bytes)           -- c.F == "lit"
  | strP (f : Nat) (p : SPred)              -- a predicate on a string field (len(c.F) > 0, rune counts)
  | maskEq (f : Nat) (m k : Nat)            -- c.F & m == k
  | time (f : Nat) (op : TOp) (t : Time)    -- c.F.Before(t) / After / Equal, t a date constant of the source
  | time2 (f : Nat) (op : TOp) (g : Nat)    -- c.F.Before(c.G) …
  | isNil (f : Nat)                         -- c.F == nil
  | len (f : Nat) (c : Cmp) (k : Int)       -- len(c.F) OP k
  | anyS (f : Nat) (p : SPred)              -- some element of the string list satisfies p
  | anyO (f : Nat) (os : List Oid)          -- some element of the OID list is one of `os`
  | anyI (f : Nat) (is : List Int)          -- some element of the integer list is one of `is`
  | ext (o : Oid)                           -- util.GetExtFromCert(c, o) != nil
  | crit (o : Oid)                          -- util.GetExtFromCert(c, o).Critical — panics when absent
  | icmp (a : IExp) (c : Cmp) (b : IExp)    -- integer comparison (`key.N.BitLen() < 2048`, `x.Cmp(y) == 0` as `x == y`)
  | primes752 (e : IExp)                    -- util.PrimeNoSmallerThan752(e): no prime of the regenerated table divides e
  | not (c : Cond)
  | and (a b : Cond)                        -- Go's short-circuit &&
  | or (a b : Cond)                         -- Go's short-circuit ||
  deriving Repr, DecidableEq

def IExp.eval (v : View) : IExp → Option Int
  | .lit k => some k
  | .fld f => some (v.int f)
  | .kfld f tf k => if v.int tf == k then some (v.int f) else none
  | .bitLen e => (e.eval v).map (fun n => ((Zl.bitLen n.natAbs : Nat) : Int))
  | .tmod e k => if k == 0 then none else (e.eval v).map (fun n => Int.tmod n k)
  | .emod e k => if k == 0 then none else (e.eval v).map (fun n => n % k)

/-- evaluation; `none` = the Go expression panics (nil dereference) -/
def evalC (env : Env) (v : View) : Cond → Option Bool
  | .const b => some b
  | .bool f => some (v.bool f)
  | .int f c k => some (c.eval (v.int f) k)
  | .mask f m => some ((v.int f).toNat &&& m != 0)
  | .strEq f l => some (v.str f == l)
  | .strP f p => some (p.eval env (v.str f))
  | .maskEq f m k => some ((v.int f).toNat &&& m == k)
  | .time f op t => some (op.eval (v.time f) t)
  | .time2 f op g => some (op.eval (v.time f) (v.time g))
  | .isNil f => some (v.list f).isNil
  | .len f c k => some (c.eval (v.list f).len k)
  | .anyS f p => some ((v.list f).strs.any (p.eval env))
  | .anyO f os => some ((v.list f).oids.any (fun o => os.contains o))
  | .anyI f is => some ((v.list f).ints.any (fun i => is.contains i))
  | .ext o => some (v.ext? o).isSome
  | .crit o => v.ext? o
  | .icmp a c b => match a.eval v, b.eval v with
    | some x, some y => some (c.eval x y)
    | _, _ => none
  | .primes752 e => (e.eval v).map (fun n => primeNoSmallerThan752 Generated.primes n.natAbs)
  | .not c => (evalC env v c).map (!·)
  | .and a b => match evalC env v a with
    | none => none
    | some false => some false
    | some true => evalC env v b
  | .or a b => match evalC env v a with
    | none => none
    | some true => some true
    | some false => evalC env v b

inductive Stmt
  | ret (s : Status)
  | ite (c : Cond) (t e : Stmt)
  | assertInt (f : Nat) (k : Int) (s : Stmt)   -- the unchecked type assertion `key := c.PublicKey.(*T)` (T = tag `k` of field `f`): panics unless the tag is `k`, then goes on
  deriving Repr, DecidableEq

def evalS (env : Env) (v : View) : Stmt → Option Status
  | .ret s => some s
  | .ite c t e => match evalC env v c with
    | none => none
    | some true => evalS env v t
    | some false => evalS env v e
  | .assertInt f k s => if v.int f == k then evalS env v s else none

/-- every status some path of the statement returns -/
def Stmt.statuses : Stmt → List Status
  | .ret s => [s]
  | .ite _ t e => t.statuses ++ e.statuses
  | .assertInt _ _ s => s.statuses

/-- a translated rule: `CheckApplies` and `Execute` -/
structure Rule where
  name : String
  nameB : Bytes
  applies : Cond
  body : Stmt
  knownBad : List Int := []   -- statuses excused by /verif/known_findings.json (C06), emitted with the table
  deriving Repr

inductive Outcome
  | panic                -- CheckApplies or Execute panics
  | notApplicable        -- CheckApplies = false: the framework answers NA without running the body
  | result (s : Status)  -- what Execute returns
  deriving Repr, DecidableEq

def Rule.run (env : Env) (r : Rule) (v : View) : Outcome :=
  match evalC env v r.applies with
  | none => .panic
  | some false => .notApplicable
  | some true => match evalS env v r.body with
    | none => .panic
    | some s => .result s

/-! ### the guard analysis: which extensions a condition establishes -/

mutual
/-- OIDs whose extension is present whenever the condition evaluates to `true` -/
def Cond.posFacts : Cond → List Fact
  | .ext o => [.ext o]
  | .crit o => [.ext o]
  | .int f .eq k => [.intEq f k]

  | .and a b => a.posFacts ++ b.posFacts
  | .or a b => a.posFacts.filter (fun o => b.posFacts.contains o)
  | .not c => c.negFacts
  | _ => []
/-- … whenever it evaluates to `false` -/
def Cond.negFacts : Cond → List Fact
  | .crit o => [.ext o]
  | .int f .ne k => [.intEq f k]
  | .or a b => a.negFacts ++ b.negFacts
  | .and a b => a.negFacts.filter (fun o => b.negFacts.contains o)
  | .not c => c.posFacts
  | _ => []
end

/-- the condition cannot panic when the extensions in `g` are present -/
def IExp.safe (g : List Fact) : IExp → Bool
  | .kfld _ tf k => g.contains (.intEq tf k)
  | .bitLen e => e.safe g
  | .tmod e k => k != 0 && e.safe g
  | .emod e k => k != 0 && e.safe g
  | _ => true

def Cond.safe (g : List Fact) : Cond → Bool
  | .crit o => g.contains (.ext o)
  | .icmp a _ b => a.safe g && b.safe g
  | .primes752 e => e.safe g
  | .not c => c.safe g
  | .and a b => a.safe g && b.safe (a.posFacts ++ g)
  | .or a b => a.safe g && b.safe (a.negFacts ++ g)
  | _ => true

def Stmt.safe (g : List Fact) : Stmt → Bool
  | .ret _ => true
  | .ite c t e => c.safe g && t.safe (c.posFacts ++ g) && e.safe (c.negFacts ++ g)
  | .assertInt f k s => g.contains (.intEq f k) && s.safe g

/-- `CheckApplies` cannot panic, and `Execute` cannot panic on a certificate for which it answered true -/
def Rule.safe (r : Rule) : Bool := r.applies.safe [] && r.body.safe r.applies.posFacts

/-! ### which fields a term reads -/

def IExp.fields : IExp → List Nat
  | .lit _ => []
  | .fld f => [f]
  | .kfld f tf _ => [f, tf]
  | .bitLen e | .tmod e _ | .emod e _ => e.fields

def Cond.fields : Cond → List Nat
  | .bool f | .int f _ _ | .mask f _ | .strEq f _ | .isNil f | .len f _ _ | .anyS f _ | .anyO f _ | .anyI f _ => [f]
  | .strP f _ | .maskEq f _ _ | .time f _ _ => [f]
  | .time2 f _ g => [f, g]
  | .icmp a _ b => a.fields ++ b.fields
  | .primes752 e => e.fields
  | .not c => c.fields
  | .and a b | .or a b => a.fields ++ b.fields
  | _ => []
def Stmt.fields : Stmt → List Nat
  | .ret _ => []
  | .ite c t e => c.fields ++ t.fields ++ e.fields
  | .assertInt f _ s => f :: s.fields
def Rule.fields (r : Rule) : List Nat := r.applies.fields ++ r.body.fields

/-! ### mirror images: the same rule about another field / another extension -/

/-- renaming of field ids and of extension OIDs inside a term (subjectAltName ↦ issuerAltName, …) -/
def IExp.rename (ρ : Nat → Nat) : IExp → IExp
  | .lit k => .lit k
  | .fld f => .fld (ρ f)
  | .kfld f tf k => .kfld (ρ f) (ρ tf) k
  | .bitLen e => .bitLen (e.rename ρ)
  | .tmod e k => .tmod (e.rename ρ) k
  | .emod e k => .emod (e.rename ρ) k

def Cond.rename (ρ : Nat → Nat) (σ : Oid → Oid) : Cond → Cond
  | .const b => .const b
  | .bool f => .bool (ρ f)
  | .int f c k => .int (ρ f) c k
  | .mask f m => .mask (ρ f) m
  | .strEq f l => .strEq (ρ f) l
  | .strP f p => .strP (ρ f) p
  | .maskEq f m k => .maskEq (ρ f) m k
  | .time f op t => .time (ρ f) op t
  | .time2 f op g => .time2 (ρ f) op (ρ g)
  | .isNil f => .isNil (ρ f)
  | .len f c k => .len (ρ f) c k
  | .anyS f p => .anyS (ρ f) p
  | .anyO f os => .anyO (ρ f) os
  | .anyI f is => .anyI (ρ f) is
  | .ext o => .ext (σ o)
  | .crit o => .crit (σ o)
  | .icmp a c b => .icmp (a.rename ρ) c (b.rename ρ)
  | .primes752 e => .primes752 (e.rename ρ)
  | .not c => .not (c.rename ρ σ)
  | .and a b => .and (a.rename ρ σ) (b.rename ρ σ)
  | .or a b => .or (a.rename ρ σ) (b.rename ρ σ)

def Stmt.rename (ρ : Nat → Nat) (σ : Oid → Oid) : Stmt → Stmt
  | .ret s => .ret s
  | .ite c t e => .ite (c.rename ρ σ) (t.rename ρ σ) (e.rename ρ σ)
  | .assertInt f k s => .assertInt (ρ f) k (s.rename ρ σ)

end Zl.LL
