/-
  ZlModel.Names — hand-written models of fourteen list-scanning rule bodies whose content is pure string
  arithmetic (no parser, no public-suffix list), in four duplicated pairs:

    e_rfc_dnsname_label_too_long   / e_dnsname_label_too_long        (lints/rfc, lints/cabf_br)
    e_rfc_dnsname_empty_label      / e_dnsname_empty_label
    e_ext_san_space_dns_name       / e_ext_ian_space_dns_name        (lints/rfc)
    e_ext_san_uri_not_ia5          / e_ext_ian_uri_not_ia5

  Each function is the `Execute` body as the Go code reads (the framework around it is Zl.execute).
  Strings are byte lists; `net.ParseIP(cn) != nil` is a parameter of the view (external function).
  Tied to the code by the `names` correspondence (real lints through the framework on kit certificates).
-/
import ZlModel.Scan
namespace Zl.Names

abbrev Bytes := List Nat

/-- `strings.Split(s, ".")`: always at least one label -/
def splitDot : Bytes → List Bytes
  | [] => [[]]
  | c :: cs =>
    match splitDot cs with
    | [] => [[c]]            -- not reached: splitDot never returns []
    | l :: ls => if c == 46 then [] :: l :: ls else (c :: l) :: ls

/-- `labelLengthTooLong`: some label longer than 63 octets -/
def labelTooLong (d : Bytes) : Bool := (splitDot d).any (fun l => decide (63 < l.length))

/-- `domainHasEmptyLabel` -/
def hasEmptyLabel (d : Bytes) : Bool := (splitDot d).any (fun l => l.isEmpty)

/-- `for _, c := range s { if c > unicode.MaxASCII … }`: ranging over a Go string yields a rune above 127
    exactly when a byte above 127 occurs (a valid multi-byte sequence or U+FFFD for an invalid byte) -/
def notAscii (s : Bytes) : Bool := s.any (fun b => decide (127 < b))

def isSpace (s : Bytes) : Bool := s == [32]

/-- the parsed view these lints read -/
structure View where
  cn : Bytes
  cnIsIP : Bool            -- util.CommonNameIsIP: net.ParseIP(cn) != nil
  dns : List Bytes         -- c.DNSNames
  uris : List Bytes        -- c.URIs
  ianDns : List Bytes      -- c.IANDNSNames
  ianUris : List Bytes     -- c.IANURIs
  deriving Repr

/-- the CABF copies look at the subject common name first, unless it is empty or an IP address -/
def cnJudged (v : View) : Bool := !v.cn.isEmpty && !v.cnIsIP

def rfcLabelTooLong (v : View) : Status := anyFinding labelTooLong Status.error v.dns
def brLabelTooLong (v : View) : Status :=
  if cnJudged v && labelTooLong v.cn then Status.error else anyFinding labelTooLong Status.error v.dns

def rfcEmptyLabel (v : View) : Status := anyFinding hasEmptyLabel Status.error v.dns
def brEmptyLabel (v : View) : Status :=
  if cnJudged v && hasEmptyLabel v.cn then Status.error else anyFinding hasEmptyLabel Status.error v.dns

def sanSpaceDNS (v : View) : Status := anyFinding isSpace Status.error v.dns
def ianSpaceDNS (v : View) : Status := anyFinding isSpace Status.error v.ianDns

def sanUriNotIA5 (v : View) : Status := anyFinding notAscii Status.error v.uris
def ianUriNotIA5 (v : View) : Status := anyFinding notAscii Status.error v.ianUris

/-! six more single-copy DNS-name rules (lints/cabf_br, lints/community) -/

/-- `wildcardNotInLeftLabel`: a `*` in any label but the first -/
def wildcardNotInLeftLabel (d : Bytes) : Bool := ((splitDot d).drop 1).any (fun l => l.contains 42)
/-- `wildcardInLeftLabelIncorrect`: the first label contains `*` but is not exactly `*` -/
def wildcardInLeftLabelIncorrect (d : Bytes) : Bool :=
  match splitDot d with
  | l :: _ => l.contains 42 && l != [42]
  | [] => false
def hasUnderscore (d : Bytes) : Bool := d.contains 95
def hasNull (d : Bytes) : Bool := d.contains 0
def startsWithPeriod (d : Bytes) : Bool := d.head? == some 46
/-- `for i := 1; i < len(dns); i++ { dns[i] == '*' }` -/
def wildcardNotFirst (d : Bytes) : Bool := (d.drop 1).contains 42

/-- e_dnsname_wildcard_only_in_left_label: the CN is judged unconditionally, then the SAN names -/
def wildcardOnlyLeft (v : View) : Status :=
  if wildcardNotInLeftLabel v.cn then Status.error else anyFinding wildcardNotInLeftLabel Status.error v.dns
def leftLabelWildcard (v : View) : Status :=
  if wildcardInLeftLabelIncorrect v.cn then Status.error else anyFinding wildcardInLeftLabelIncorrect Status.error v.dns
/-- e_underscore_not_permissible_in_dnsname and its dated predecessor e_no_underscores_before_1_6_2 share one body -/
def underscoreInDNS (v : View) : Status := anyFinding hasUnderscore Status.error v.dns
def sanNullChar (v : View) : Status := anyFinding hasNull Status.error v.dns
def sanStartsWithPeriod (v : View) : Status := anyFinding startsWithPeriod Status.error v.dns
def sanWildcardNotFirst (v : View) : Status := anyFinding wildcardNotFirst Status.error v.dns

/-- the verdicts in the order of the driver's `names` op -/
def verdicts (v : View) : List Status :=
  [rfcLabelTooLong v, brLabelTooLong v, rfcEmptyLabel v, brEmptyLabel v, sanSpaceDNS v, ianSpaceDNS v, sanUriNotIA5 v, ianUriNotIA5 v,
   wildcardOnlyLeft v, leftLabelWildcard v, underscoreInDNS v, sanNullChar v, sanStartsWithPeriod v, sanWildcardNotFirst v]

end Zl.Names
