/- line-protocol helpers for the driver -/
namespace Zl.Proto

def hexVal (c : Char) : Option Nat :=
  if '0' ≤ c ∧ c ≤ '9' then some (c.toNat - '0'.toNat)
  else if 'a' ≤ c ∧ c ≤ 'f' then some (c.toNat - 'a'.toNat + 10)
  else if 'A' ≤ c ∧ c ≤ 'F' then some (c.toNat - 'A'.toNat + 10)
  else none

/-- hex → bytes; "-" is the empty string -/
def unhexBytes (s : String) : Option (List Nat) :=
  if s == "-" then some [] else
  let rec go : List Char → List Nat → Option (List Nat)
    | [], acc => some acc.reverse
    | [_], _ => none
    | a :: b :: rest, acc =>
      match hexVal a, hexVal b with
      | some x, some y => go rest ((x * 16 + y) :: acc)
      | _, _ => none
  go s.toList []

def bytesToString (bs : List Nat) : String :=
  match String.fromUTF8? (ByteArray.mk (bs.map (fun b => UInt8.ofNat b)).toArray) with
  | some s => s
  | none => String.ofList (bs.map (fun b => Char.ofNat b))   -- not valid UTF-8: Latin-1 view (only used for display)

def unhex (s : String) : Option String := (unhexBytes s).map bytesToString

def hexDigit (n : Nat) : Char := if n < 10 then Char.ofNat (n + 48) else Char.ofNat (n - 10 + 97)

def hexOfBytes (bs : List Nat) : String :=
  if bs.isEmpty then "-" else String.ofList (bs.flatMap (fun b => [hexDigit (b / 16), hexDigit (b % 16)]))

def hexOf (s : String) : String := hexOfBytes (s.toUTF8.toList.map (·.toNat))

def parseOid (s : String) : List Nat := (s.splitOn ".").filterMap (·.toNat?)

def splitList (s : String) (sep : String) : List String := if s == "-" || s == "" then [] else s.splitOn sep

def dropS (s : String) (n : Nat) : String := String.ofList (s.toList.drop n)
def takeS (s : String) (n : Nat) : String := String.ofList (s.toList.take n)
def chomp (s : String) : String :=
  match s.toList.reverse with
  | '\n' :: rest => String.ofList rest.reverse
  | _ => s

def joinWith (sep : String) (xs : List String) : String := sep.intercalate xs

end Zl.Proto
