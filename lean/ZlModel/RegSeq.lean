/-
  ZlModel.RegSeq — registries as *objects*: a heap of registries and handles that may alias, driven by arbitrary
  sequences of the public operations (Register*, Filter, SetConfiguration, GetConfiguration, Names, Sources,
  WriteJSON). `Filter` with empty options returns its receiver (an alias); any other successful `Filter`
  allocates a new registry holding the selected entries and a copy of the configuration *as it is at that
  moment*. Every read is a function of the current heap — there is no hidden state for a cache to live in,
  which is what the `regseq` correspondence checks the implementation against.

  Code modelled: v3/lint/registration.go (registryImpl: register…Lint, Filter, SetConfiguration,
  GetConfiguration, Names, Sources, WriteJSON), v3/lint/lint_lookup.go.
-/
import ZlModel.Registry
namespace Zl.RegSeq

abbrev Reg := Registry Unit String          -- payload-free entries; the configuration is a tag

structure Heap where
  regs : List Reg := []
  handles : List Nat := []                   -- handle ↦ index into `regs`
  deriving Inhabited

inductive Op where
  | newReg                                                   -- lint.NewRegistry(): a new handle on a new empty registry
  | reg (h : Nat) (k : Kind) (name source : String)
  | filter (h : Nat) (o : FilterOptions)
  | setCfg (h : Nat) (tag : String)
  | getCfg (h : Nat)
  | names (h : Nat)
  | sources (h : Nat)
  | listing (h : Nat)
  | runKind (h : Nat) (k : Kind)                              -- Lint{Certificate,RevocationList,OcspResponse}Ex with this registry: the names in the result set
  | lookups (h : Nat)                                        -- the per-kind views: full listing, by-name and by-source lookups

def Heap.regOf (hp : Heap) (h : Nat) : Option (Nat × Reg) :=
  match hp.handles[h]? with
  | some i => (hp.regs[i]?).map (fun r => (i, r))
  | none => none

def Heap.setReg (hp : Heap) (i : Nat) (r : Reg) : Heap := { hp with regs := hp.regs.set i r }

def join (xs : List String) : String := if xs.isEmpty then "-" else ",".intercalate xs

def kindNames (r : Reg) (k : Kind) : String :=
  join (sortStrings ((r.lookupOf k).lints.map (fun e => e.md.name))) ++ "|src=" ++ join (sortStrings (r.lookupOf k).sources)

/-- the two observations added for C01 / C12: a lint run holds exactly one result per registered lint of the
    kind — whenever it was registered — and the three per-kind views of a registry describe the same set -/
def stepObs (hp : Heap) : Op → Option String
  | .runKind h k => some (match hp.regOf h with
      | none => "bad-handle"
      | some (_, r) => "run=" ++ join (sortStrings ((r.lookupOf k).lints.map (fun e => e.md.name))))
  | .lookups h => some (match hp.regOf h with
      | none => "bad-handle"
      | some (_, r) => "lk=" ++ kindNames r .cert ++ "/" ++ kindNames r .crl ++ "/" ++ kindNames r .ocsp)
  | _ => none

/-- one operation: the new heap and what the caller observes -/
def step (hp : Heap) : Op → Heap × String
  | .newReg => ({ regs := hp.regs ++ [{ cfg := "" }], handles := hp.handles ++ [hp.regs.length] }, "ok")
  | .reg h k name source =>
    match hp.regOf h with
    | none => (hp, "bad-handle")
    | some (i, r) =>
      match r.register k { md := { name := name, source := source }, payload := () } with
      | .ok r' => (hp.setReg i r', "ok")
      | .error .emptyName => (hp, "err:empty")
      | .error (.duplicate _) => (hp, "err:dup")
      | .error _ => (hp, "err:nil")
  | .filter h o =>
    match hp.regOf h with
    | none => (hp, "bad-handle")
    | some (i, r) =>
      match filter r o with
      | .error (.unknownName _) => ({ hp with handles := hp.handles ++ [i] }, "err:unknown")
      | .error .nameFilterConflict => ({ hp with handles := hp.handles ++ [i] }, "err:conflict")
      | .error (.register _) => ({ hp with handles := hp.handles ++ [i] }, "err:dup")
      | .ok r' =>
        if o.empty then ({ hp with handles := hp.handles ++ [i] }, "ok same=1")
        else ({ regs := hp.regs ++ [r'], handles := hp.handles ++ [hp.regs.length] }, "ok same=0")
  | .setCfg h tag =>
    match hp.regOf h with
    | none => (hp, "bad-handle")
    | some (i, r) => (hp.setReg i { r with cfg := tag }, "ok")
  | .getCfg h => (hp, match hp.regOf h with | none => "bad-handle" | some (_, r) => "cfg=" ++ r.cfg)
  | .names h => (hp, match hp.regOf h with | none => "bad-handle" | some (_, r) => "names=" ++ join r.names)
  | .sources h => (hp, match hp.regOf h with | none => "bad-handle" | some (_, r) => "sources=" ++ join (sortStrings r.sources))
  | .listing h =>
    (hp, match hp.regOf h with
      | none => "bad-handle"
      | some (_, r) => "listing=" ++ join ((r.cert.lints ++ r.ocsp.lints ++ r.crl.lints).map (fun e => e.md.name ++ "/" ++ e.md.source)))
  | .runKind h k => (hp, (stepObs hp (.runKind h k)).getD "")
  | .lookups h => (hp, (stepObs hp (.lookups h)).getD "")

def run : Heap → List Op → List String
  | _, [] => []
  | hp, op :: rest => let (hp', out) := step hp op; out :: run hp' rest

end Zl.RegSeq
