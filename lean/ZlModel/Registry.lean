/-
  ZlModel.Registry — registration, the per-kind lookups, Names/Sources, Filter.

  Code modelled: v3/lint/lint_lookup.go (register, ByName, BySource, Lints, Names, Sources),
  v3/lint/registration.go (registerCertificateLint …, Names, Sources, lintNamesToMap,
  sourceListToMap, Filter, FilterOptions.Empty), v3/lint/source.go (SourceList.FromString,
  LintSource.FromString over the regenerated case list).
-/
import ZlModel.Framework
namespace Zl

/-- a registered lint: metadata, whether the Go value had a nil constructor / returns a nil
    instance, and an opaque payload (the implementation) -/
structure Entry (α : Type) where
  md : Meta
  ctorNil : Bool := false
  instNil : Bool := false
  payload : α
  deriving Repr

/-- one of the three `…LinterLookupImpl`s -/
structure Lookup (α : Type) where
  lints : List (Entry α) := []                         -- registration order (`lints`)
  names : List String := []                            -- `lintNames`, kept sorted
  byName : List (String × Entry α) := []               -- `lintsByName`
  bySource : List (String × List (Entry α)) := []      -- `lintsBySource`
  sources : List String := []                          -- `sources` (a set)
  deriving Repr

inductive RegErr where
  | nilLint | nilLintPtr | emptyName | duplicate (name : String)
  deriving DecidableEq, Repr

def sortStrings (l : List String) : List String := l.mergeSort (fun a b => decide (a ≤ b))

def assocGet {β : Type} (m : List (String × β)) (k : String) : Option β := (m.find? (fun p => p.1 == k)).map (·.2)

def assocAppend {β : Type} (m : List (String × List β)) (k : String) (v : β) : List (String × List β) :=
  if m.any (fun p => p.1 == k) then m.map (fun p => if p.1 == k then (p.1, p.2 ++ [v]) else p)
  else m ++ [(k, [v])]

namespace Lookup
variable {α : Type}

def byNameGet (lk : Lookup α) (n : String) : Option (Entry α) := assocGet lk.byName n
def bySourceGet (lk : Lookup α) (s : String) : List (Entry α) := (assocGet lk.bySource s).getD []

/-- `lookup.register(lint, name, source)` preceded by the nil checks of `registry.register…Lint` -/
def register (lk : Lookup α) (e : Entry α) : Except RegErr (Lookup α) :=
  if e.ctorNil then .error .nilLint            -- (nil lint value; modelled as a flag)
  else if e.instNil then .error .nilLintPtr
  else if e.md.name == "" then .error .emptyName
  else if (lk.byNameGet e.md.name).isSome then .error (.duplicate e.md.name)
  else .ok {
    lints := lk.lints ++ [e]
    names := sortStrings (lk.names ++ [e.md.name])
    byName := (e.md.name, e) :: lk.byName
    bySource := assocAppend lk.bySource e.md.source e
    sources := if lk.sources.contains e.md.source then lk.sources else lk.sources ++ [e.md.source] }

end Lookup

structure Registry (α Cfg : Type) where
  cert : Lookup α := {}
  ocsp : Lookup α := {}
  crl : Lookup α := {}
  cfg : Cfg

namespace Registry
variable {α Cfg : Type}

def lookupOf (r : Registry α Cfg) : Kind → Lookup α
  | .cert => r.cert
  | .crl => r.crl
  | .ocsp => r.ocsp

def setLookup (r : Registry α Cfg) (k : Kind) (lk : Lookup α) : Registry α Cfg :=
  match k with
  | .cert => { r with cert := lk }
  | .crl => { r with crl := lk }
  | .ocsp => { r with ocsp := lk }

def register (r : Registry α Cfg) (k : Kind) (e : Entry α) : Except RegErr (Registry α Cfg) :=
  match (r.lookupOf k).register e with
  | .ok lk => .ok (r.setLookup k lk)
  | .error err => .error err

/-- `registryImpl.Names()` -/
def names (r : Registry α Cfg) : List String := sortStrings (r.cert.names ++ r.ocsp.names ++ r.crl.names)

/-- `registryImpl.Sources()` as a set (order unspecified in Go) -/
def sources (r : Registry α Cfg) : List String := (r.cert.sources ++ r.crl.sources ++ r.ocsp.sources).eraseDups

/-- which lookup answers for a name, in the order `Filter` and `lintNamesToMap` ask: cert, ocsp, crl -/
def find (r : Registry α Cfg) (n : String) : Option (Kind × Entry α) :=
  match r.cert.byNameGet n with
  | some e => some (.cert, e)
  | none => match r.ocsp.byNameGet n with
    | some e => some (.ocsp, e)
    | none => match r.crl.byNameGet n with
      | some e => some (.crl, e)
      | none => none

end Registry

/-- Go's `strings.TrimSpace` restricted to the ASCII blanks it strips (space, \t, \n, \v, \f, \r);
    names with other Unicode white space are outside the generators and the theorems do not depend
    on which characters are stripped -/
def isBlank (c : Char) : Bool := c == ' ' || c == '\t' || c == '\n' || c == '\r' || c.toNat == 11 || c.toNat == 12 || c.toNat == 0x85 || c.toNat == 0xA0

def trimSpace (s : String) : String :=
  String.ofList ((s.toList.dropWhile isBlank).reverse.dropWhile isBlank).reverse

structure FilterOptions where
  nameFilter : Option (String → Bool) := none     -- the regexp, as the predicate it denotes
  includeNames : List String := []
  excludeNames : List String := []
  includeSources : List String := []
  excludeSources : List String := []

def FilterOptions.empty (o : FilterOptions) : Bool :=
  o.nameFilter.isNone && o.includeNames.isEmpty && o.excludeNames.isEmpty && o.includeSources.isEmpty && o.excludeSources.isEmpty

inductive FilterErr where
  | unknownName (n : String)
  | nameFilterConflict
  | register (e : RegErr)
  deriving DecidableEq, Repr

/-- `lintNamesToMap`: `none` for an empty list (a nil map), else the set of trimmed names; an unknown name is an error -/
def lintNamesToMap {α Cfg : Type} (r : Registry α Cfg) (names : List String) : Except FilterErr (Option (List String)) :=
  if names.isEmpty then .ok none
  else
    let rec go : List String → List String → Except FilterErr (Option (List String))
      | [], acc => .ok (some acc)
      | n :: rest, acc =>
        let n' := trimSpace n
        match r.find n' with
        | some _ => go rest (if acc.contains n' then acc else acc ++ [n'])
        | none => .error (.unknownName n')
    go names []

/-- `sourceListToMap`: nil for an empty list -/
def sourceListToMap (l : List String) : Option (List String) := if l.isEmpty then none else some l

/-- the five-clause selection test of `Filter`'s loop body -/
def selectedBy (srcEx srcIn : Option (List String)) (nf : Option (String → Bool))
    (nameEx nameIn : Option (List String)) (name source : String) : Bool :=
  !(match srcEx with | some m => m.contains source | none => false)
  && (match srcIn with | some m => m.contains source | none => true)
  && (match nf with | some f => f name | none => true)
  && !(match nameEx with | some m => m.contains name | none => false)
  && (match nameIn with | some m => m.contains name | none => true)

/-- the loop of `Filter` over `r.Names()` -/
def filterLoop {α Cfg : Type} (r : Registry α Cfg) (sel : String → String → Bool) :
    List String → Registry α Cfg → Except FilterErr (Registry α Cfg)
  | [], acc => .ok acc
  | n :: rest, acc =>
    match r.find n with
    | none => filterLoop r sel rest acc      -- cannot happen for names taken from the lookups; Go would skip via a nil registerFunc … (see note)
    | some (k, e) =>
      if sel n e.md.source then
        match acc.register k e with
        | .ok acc' => filterLoop r sel rest acc'
        | .error err => .error (.register err)
      else filterLoop r sel rest acc

/-- `registryImpl.Filter` -/
def filter {α Cfg : Type} (r : Registry α Cfg) (o : FilterOptions) : Except FilterErr (Registry α Cfg) :=
  if o.empty then .ok r
  else
    match lintNamesToMap r o.excludeNames with
    | .error e => .error e
    | .ok nameEx =>
      match lintNamesToMap r o.includeNames with
      | .error e => .error e
      | .ok nameIn =>
        if o.nameFilter.isSome && ((nameEx.getD []).length != 0 || (nameIn.getD []).length != 0) then .error .nameFilterConflict
        else
          filterLoop r (selectedBy (sourceListToMap o.excludeSources) (sourceListToMap o.includeSources) o.nameFilter nameEx nameIn)
            r.names { cfg := r.cfg }

/-- `SourceList.FromString` over a case list (the regenerated `fromStringCases`): comma separated,
    each value trimmed, empty values skipped, an unknown value is an error -/
def sourceListFromString (cases : List String) (raw : String) : Except String (List String) :=
  let rec go : List String → List String → Except String (List String)
    | [], acc => .ok acc
    | v :: rest, acc =>
      let v' := trimSpace v
      if v' == "" then go rest acc
      else if cases.contains v' then go rest (acc ++ [v'])
      else .error v'
  go (raw.splitOn ",") []

end Zl
