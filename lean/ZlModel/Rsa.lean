/-
  ZlModel.Rsa — the RSA key-quality verdicts, over unbounded naturals.
  Code modelled (bodies as written): the thirteen size / parity / exponent lints listed in property
  C16, util.PrimeNoSmallerThan752 over the regenerated prime table, and
  checkPrimeFactorsTooClose of lints/community/lint_rsa_fermat_factorization.go.
  Parser guarantees assumed (A-RSA): modulus N > 0, exponent 0 < E < 2^63.
-/
import ZlModel.Basic
import ZlModel.Generated.Numeric
namespace Zl

/-- `big.Int.BitLen` -/
def bitLen (n : Nat) : Nat := if n = 0 then 0 else Nat.log2 n + 1

/-- `key.N.BitLen() < k` ⇒ error (the six size lints; k = 2048, 1024 or 3072) -/
def modLessThan (k n : Nat) : Status := if bitLen n < k then Status.error else Status.pass

/-- `e_mp_modulus_must_be_divisible_by_8` -/
def modDiv8 (n : Nat) : Status := if bitLen n % 8 != 0 then Status.error else Status.pass

/-- `w_rsa_mod_not_odd`: `N mod 2 == 1` ⇒ pass -/
def modNotOdd (n : Nat) : Status := if n % 2 == 1 then Status.pass else Status.warn

/-- `util.PrimeNoSmallerThan752` over a prime table -/
def primeNoSmallerThan752 (primes : List Nat) (n : Nat) : Bool := primes.all (fun p => n % p != 0)

/-- `w_rsa_mod_factors_smaller_than_752` -/
def modSmallFactor (primes : List Nat) (n : Nat) : Status :=
  if primeNoSmallerThan752 primes n then Status.pass else Status.warn

/-- `e_rsa_public_exponent_not_odd` (E > 0) -/
def expNotOdd (e : Nat) : Status := if e % 2 == 1 then Status.pass else Status.error

/-- `e_rsa_public_exponent_too_small` -/
def expTooSmall (e : Nat) : Status := if e ≥ 3 then Status.pass else Status.error

/-- `w_rsa_public_exponent_not_in_range`: 2^16+1 ≤ E < 2^256 -/
def expNotInRange (e : Nat) : Status := if e ≥ 65537 && decide (e < 2 ^ 256) then Status.pass else Status.warn

/-- `e_mp_exponent_cannot_be_one` -/
def expIsOne (e : Nat) : Status := if e == 1 then Status.error else Status.pass

/-- the loop of `checkPrimeFactorsTooClose`: `rounds` candidates starting at `a` -/
def fermatLoop (n : Nat) : Nat → Nat → Option (Nat × Nat)
  | 0, _ => none
  | rounds + 1, a =>
    let b2 := a * a - n
    let bb := Nat.sqrt b2
    if bb * bb == b2 then some (a + bb, a - bb) else fermatLoop n rounds (a + 1)

/-- `checkPrimeFactorsTooClose(n, rounds)`: `some (p, q)` is the reported factorisation -/
def fermat (n rounds : Nat) : Option (Nat × Nat) := fermatLoop n rounds (Nat.sqrt n + 1)

/-- `e_rsa_fermat_factorization` -/
def fermatVerdict (n rounds : Nat) : Status := if (fermat n rounds).isSome then Status.error else Status.pass

end Zl
