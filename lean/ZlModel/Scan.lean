/-
  ZlModel.Scan — the shapes in which lints consume name lists (SAN entries, parsed DNS names, …).
  `scan f dflt l`: report the verdict of the first element that has one ("first match" — the shape of
  almost every list-reading lint); `anyFinding`: a finding iff some element offends; `dupFinding`:
  a function of the multiset (duplicates).
-/
import ZlModel.Basic
namespace Zl

/-- first-match scan -/
def scan {α : Type} (f : α → Option Status) (dflt : Status) : List α → Status
  | [] => dflt
  | x :: xs => match f x with
    | some s => s
    | none => scan f dflt xs

/-- `finding` if some element offends, else `pass` -/
def anyFinding {α : Type} (bad : α → Bool) (finding : Status) (l : List α) : Status :=
  if l.any bad then finding else Status.pass

/-- number of occurrences, for duplicate detection -/
def hasDuplicate {α : Type} [DecidableEq α] (l : List α) : Bool := l.any (fun x => l.count x > 1)

end Zl
