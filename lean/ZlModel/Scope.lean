/-
  ZlModel.Scope — the three scope predicates the framework gates on.
  Code modelled: v3/util/ca.go (IsServerAuthCert, IsEmailProtectionCert),
  v3/util/cs.go (IsCodeSigning), v3/util/san.go (HasEmailSAN),
  v3/util/smime_policies.go (IsSMIMEBRCertificate).
  Policy OIDs come from the regenerated table of util/oid.go.
-/
import ZlModel.Framework
import ZlModel.Generated.Oids
namespace Zl

abbrev Oid := List Nat

/-- what the scope predicates read of a parsed certificate -/
structure CertView where
  ekus : List Oid                 -- every OID in the EKU extension (known to the parser or not)
  policies : List Oid
  emails : List String            -- rfc822Name SAN entries
  otherNames : List (Oid × Nat)   -- (type id, length of the value bytes)
  deriving Repr, Inhabited

def oidEkuAny : Oid := [2, 5, 29, 37, 0]
def oidEkuServerAuth : Oid := [1, 3, 6, 1, 5, 5, 7, 3, 1]
def oidEkuEmailProtection : Oid := [1, 3, 6, 1, 5, 5, 7, 3, 4]
/-- the two constants of util/cs.go (string constants, not in the OID table) -/
def oidEvCodeSigning : Oid := [2, 23, 140, 1, 3]
def oidCodeSigning : Oid := [2, 23, 140, 1, 4, 1]

def brPolicies : List Oid :=
  [Generated.oid "BRDomainValidatedOID", Generated.oid "BROrganizationValidatedOID",
   Generated.oid "BRIndividualValidatedOID", Generated.oid "BRExtendedValidatedOID"]

def smimePolicies : List Oid :=
  ["SMIMEBRMailboxValidatedLegacyOID", "SMIMEBROrganizationValidatedLegacyOID", "SMIMEBRSponsorValidatedLegacyOID", "SMIMEBRIndividualValidatedLegacyOID",
   "SMIMEBRMailboxValidatedMultipurposeOID", "SMIMEBROrganizationValidatedMultipurposeOID", "SMIMEBRSponsorValidatedMultipurposeOID", "SMIMEBRIndividualValidatedMultipurposeOID",
   "SMIMEBRMailboxValidatedStrictOID", "SMIMEBROrganizationValidatedStrictOID", "SMIMEBRSponsorValidatedStrictOID", "SMIMEBRIndividualValidatedStrictOID"].map Generated.oid

def oidSmtpUtf8Mailbox : Oid := Generated.oid "OidIdOnSmtpUtf8Mailbox"

def isServerAuth (v : CertView) : Bool :=
  v.ekus.isEmpty
  || v.ekus.any (fun e => e == oidEkuAny || e == oidEkuServerAuth)
  || v.policies.any (fun p => brPolicies.contains p)

def hasEmailSAN (v : CertView) : Bool :=
  v.emails.any (fun e => e != "")
  || v.otherNames.any (fun n => n.1 == oidSmtpUtf8Mailbox && n.2 != 0)

def isSMIMEBR (v : CertView) : Bool := v.policies.any (fun p => smimePolicies.contains p)

def isEmailProtection (v : CertView) : Bool :=
  (hasEmailSAN v && (v.ekus.isEmpty || v.ekus.any (fun e => e == oidEkuAny || e == oidEkuEmailProtection)))
  || isSMIMEBR v

def isCodeSigning (v : CertView) : Bool :=
  v.policies.any (fun p => p == oidEvCodeSigning || p == oidCodeSigning)

def scopeOf (v : CertView) : Scope := ⟨isServerAuth v, isEmailProtection v, isCodeSigning v⟩

end Zl

/-! ### CA classification (v3/util/ca.go: IsCACert, IsSelfSigned, IsRootCA, IsSubCA, IsSubscriberCert)

  The four predicates read two parsed fields only: `IsCA` and `SelfSigned` (the latter is the only way the
  signature value reaches any lint — C09). -/
namespace Zl

structure CAView where
  isCA : Bool
  selfSigned : Bool
  deriving DecidableEq, Repr

def isRootCA (v : CAView) : Bool := v.isCA && v.selfSigned
def isSubCA (v : CAView) : Bool := v.isCA && !v.selfSigned
def isSubscriberCert (v : CAView) : Bool := !v.isCA && !v.selfSigned

end Zl
