/-
  Panic-capable sites (C02): the guard schemas the extractor may claim for a site, and the
  checker `discharged` that re-does each schema's arithmetic. What each schema means and why a
  discharged certificate rules out the panic is proved in ZlProofs/Lemmas/Sites.lean.

  Checked operations mirror Go's run-time checks:
    xs[i]      panics unless 0 ≤ i < len xs
    xs[lo:hi]  panics unless 0 ≤ lo ≤ hi ≤ len xs   (cap = len for strings and for every slice the lints take)
    a / b      panics when b = 0
    *p, p.f    panics when p = nil
-/
namespace Zl.Sites

inductive Rel | ge | gt | eq | ne | lt | le
  deriving Repr, DecidableEq

/-- a fact about the length `n` of the indexed container, read off a dominating branch condition -/
structure LenFact where
  rel : Rel
  c : Int
  deriving Repr, DecidableEq

def LenFact.holds (f : LenFact) (n : Nat) : Bool :=
  match f.rel with
  | .ge => decide (f.c ≤ (n : Int))
  | .gt => decide (f.c < (n : Int))
  | .eq => decide ((n : Int) = f.c)
  | .ne => decide ((n : Int) ≠ f.c)
  | .lt => decide ((n : Int) < f.c)
  | .le => decide ((n : Int) ≤ f.c)

/-- the lower bound on `n` one fact gives -/
def LenFact.lb (f : LenFact) : Nat :=
  match f.rel with
  | .ge => f.c.toNat
  | .gt => (f.c + 1).toNat
  | .eq => f.c.toNat
  | .ne => if f.c = 0 then 1 else 0
  | .lt => 0
  | .le => 0

def lowerBound : List LenFact → Nat
  | [] => 0
  | f :: fs => max f.lb (lowerBound fs)

inductive Schema
  | idxConst (k : Int) (facts : List LenFact)      -- xs[k]
  | idxLenMinus (k : Int) (facts : List LenFact)   -- xs[len xs - k]
  | idxVar (k a : Int)                             -- xs[v + k] with v ≥ 0 and a dominating v + a < len xs
  | sliceLo (k : Int) (facts : List LenFact)       -- xs[k:]
  | sliceHi (k : Int) (facts : List LenFact)       -- xs[:k]
  | sliceHiLen (k : Int) (facts : List LenFact)    -- xs[:len xs - k]
  | divConst (k : Int)                             -- a / k, a % k
  | nilChecked                                     -- *p under a dominating p != nil
  | errPaired                                      -- *p where (p, err) := f(..) and err == nil dominates
  | okPaired                                       -- *p where (p, ok) := .. and ok dominates
  | applies                                        -- established by the lint's CheckApplies (C04: Execute runs only after it)
  | assumed                                        -- a named parser assumption
  | residual
  deriving Repr

/-- does the certificate rule the panic out? (the arithmetic of each schema) -/
def discharged : Schema → Bool
  | .idxConst k fs => decide (0 ≤ k) && decide (k < (lowerBound fs : Int))
  | .idxLenMinus k fs => decide (1 ≤ k) && decide (k ≤ (lowerBound fs : Int))
  | .idxVar k a => decide (0 ≤ k) && decide (k ≤ a)
  | .sliceLo k fs => decide (0 ≤ k) && decide (k ≤ (lowerBound fs : Int))
  | .sliceHi k fs => decide (0 ≤ k) && decide (k ≤ (lowerBound fs : Int))
  | .sliceHiLen k fs => decide (0 ≤ k) && decide (k ≤ (lowerBound fs : Int))
  | .divConst k => decide (k ≠ 0)
  | .nilChecked => true
  | .errPaired => true
  | .okPaired => true
  | .applies => true
  | .assumed => true
  | .residual => false

/-- checked slice: Go's `xs[lo:hi]` on a list -/
def slice? {α : Type} (xs : List α) (lo hi : Int) : Option (List α) :=
  if 0 ≤ lo ∧ lo ≤ hi ∧ hi ≤ (xs.length : Int) then some ((xs.drop lo.toNat).take (hi.toNat - lo.toNat)) else none

/-- checked index with a (possibly negative) Go `int` index -/
def index? {α : Type} (xs : List α) (i : Int) : Option α :=
  if 0 ≤ i then xs[i.toNat]? else none

def div? (a b : Int) : Option Int := if b = 0 then none else some (a / b)

/-- one census row -/
structure PSite where
  key : Nat        -- Nat encoding of "func|kind|expr|ordinal"
  ctx : Nat        -- hash of the enclosing function's text and of the CheckApplies bodies that reach it
  schema : Schema
  deriving Repr

/-- a site is accounted for when its certificate checks, or when the committed review lists exactly
    this site in exactly this context -/
def accounted (reviewed : List (Nat × Nat)) (s : PSite) : Bool :=
  discharged s.schema || reviewed.contains (s.key, s.ctx)

end Zl.Sites
