/-
  ZlModel.Thresholds — the threshold companions of C20, modelled as the rule bodies read:

    e_tls_server_cert_valid_time_longer_than_398_days / w_tls_server_cert_valid_time_longer_than_397_days  (lints/apple)
    e_subject_given_name_max_length / w_subject_given_name_recommended_max_length                          (lints/rfc)
    e_subject_surname_max_length    / w_subject_surname_recommended_max_length

  together with what they lean on: Go's saturating `time.Time.Sub` and `unicode/utf8.RuneCountInString`
  (invalid bytes count as one rune each). Tied to the code by the `thresholds` correspondence.
-/
import ZlModel.Scan
namespace Zl.Thresholds

/-! ### validity period -/

def maxDuration : Int := 9223372036854775807      -- math.MaxInt64 nanoseconds
def minDuration : Int := -9223372036854775808

/-- `t.Sub(u)`: the difference in nanoseconds, saturated to the range of `time.Duration` -/
def subSat (tNs uNs : Int) : Int :=
  let d := tNs - uNs
  if d > maxDuration then maxDuration else if d < minDuration then minDuration else d

def second : Int := 1000000000
def appleDayLength : Int := 86400 * second

/-- `c.NotAfter.Add(1 * time.Second).Sub(c.NotBefore)` with instants in nanoseconds since the epoch -/
def certValidity (notBeforeNs notAfterNs : Int) : Int := subSat (notAfterNs + second) notBeforeNs

def validity398 (nb na : Int) : Status := if certValidity nb na > 398 * appleDayLength then Status.error else Status.pass
def validity397 (nb na : Int) : Status := if certValidity nb na > 397 * appleDayLength then Status.warn else Status.pass

/-! ### utf8.RuneCountInString -/

/-- the continuation-byte range a lead byte accepts for its *second* byte, and the sequence length;
    `none` for bytes that cannot start a sequence (0x80–0xC1, 0xF5–0xFF) -/
def lead (b : Nat) : Option (Nat × Nat × Nat) :=     -- (size, lo, hi)
  if 0xC2 ≤ b ∧ b ≤ 0xDF then some (2, 0x80, 0xBF)
  else if b = 0xE0 then some (3, 0xA0, 0xBF)
  else if 0xE1 ≤ b ∧ b ≤ 0xEC then some (3, 0x80, 0xBF)
  else if b = 0xED then some (3, 0x80, 0x9F)
  else if 0xEE ≤ b ∧ b ≤ 0xEF then some (3, 0x80, 0xBF)
  else if b = 0xF0 then some (4, 0x90, 0xBF)
  else if 0xF1 ≤ b ∧ b ≤ 0xF3 then some (4, 0x80, 0xBF)
  else if b = 0xF4 then some (4, 0x80, 0x8F)
  else none

def cont (c : Nat) : Bool := decide (0x80 ≤ c) && decide (c ≤ 0xBF)

/-- how many bytes the decoder consumes at the head of `bs` (1 for ASCII, for an invalid or truncated sequence) -/
def width (bs : List Nat) : Nat :=
  match bs with
  | [] => 0
  | b :: rest =>
    if b < 0x80 then 1
    else match lead b with
      | none => 1
      | some (size, lo, hi) =>
        if rest.length + 1 < size then 1
        else match rest with
          | c1 :: r1 =>
            if c1 < lo ∨ hi < c1 then 1
            else if size = 2 then 2
            else match r1 with
              | c2 :: r2 =>
                if !cont c2 then 1
                else if size = 3 then 3
                else match r2 with
                  | c3 :: _ => if !cont c3 then 1 else 4
                  | [] => 1
              | [] => 1
          | [] => 1

/-- `utf8.RuneCountInString` (fuel = length: every step consumes at least one byte) -/
def runeCountFuel : Nat → List Nat → Nat
  | 0, _ => 0
  | _, [] => 0
  | fuel + 1, bs => 1 + runeCountFuel fuel (bs.drop (width bs))

def runeCount (bs : List Nat) : Nat := runeCountFuel bs.length bs

def nameTooLong (limit : Nat) (finding : Status) (names : List (List Nat)) : Status :=
  anyFinding (fun n => decide (limit < runeCount n)) finding names

def givenNameMax (names : List (List Nat)) : Status := nameTooLong 32768 Status.error names
def givenNameRecommended (names : List (List Nat)) : Status := nameTooLong 64 Status.warn names

end Zl.Thresholds

/-! ### utf8.DecodeRune and the walk of e_subject_dn_not_printable_characters (lints/rfc) -/
namespace Zl.Thresholds

/-- `utf8.DecodeRune`: (rune, width); an invalid or truncated sequence is (U+FFFD, 1), empty input (U+FFFD, 0) -/
def decodeRune (bs : List Nat) : Nat × Nat :=
  match bs with
  | [] => (0xFFFD, 0)
  | b :: rest =>
    let w := width (b :: rest)
    if b < 0x80 then (b, 1)
    else if w ≤ 1 then (0xFFFD, 1)
    else match w, rest with
      | 2, c1 :: _ => ((b % 32) * 64 + c1 % 64, 2)
      | 3, c1 :: c2 :: _ => ((b % 16) * 4096 + (c1 % 64) * 64 + c2 % 64, 3)
      | 4, c1 :: c2 :: c3 :: _ => ((b % 8) * 262144 + (c1 % 64) * 4096 + (c2 % 64) * 64 + c3 % 64, 4)
      | _, _ => (0xFFFD, 1)

inductive WalkOut where
  | pass | error | panic
  deriving DecidableEq, Repr

/-- `for len(bytes) > 0 { r, size := utf8.DecodeRune(bytes); …; bytes = bytes[size:] }` with a checked re-slice -/
def printableWalk : Nat → List Nat → WalkOut
  | 0, [] => .pass
  | 0, _ :: _ => .panic                      -- out of fuel (fuel = length suffices: every round consumes a byte)
  | _ + 1, [] => .pass
  | fuel + 1, b :: rest =>
    let (r, size) := decodeRune (b :: rest)
    if r < 0x20 then .error
    else if 0x7F ≤ r ∧ r ≤ 0x9F then .error
    else if size ≤ (b :: rest).length then printableWalk fuel ((b :: rest).drop size) else .panic

/-- the lint over the attribute values of the subject, in order -/
def dnNotPrintable : List (List Nat) → WalkOut
  | [] => .pass
  | v :: vs =>
    match printableWalk v.length v with
    | .pass => dnNotPrintable vs
    | o => o

end Zl.Thresholds
