/-
  ZlModel.Tld — TLD validity against the delegation table.
  Code modelled: v3/util/gtld.go (GTLDPeriod.Valid, HasValidTLD, IsInTLDMap) over the regenerated
  `tldMap`, the TLD lint of lints/cabf_br/lint_dnsname_right_label_valid_tld.go.
  Go's `time.Parse("2006-01-02", s)` is modelled by `parseDate` (civil date → instant at 00:00:00 UTC;
  on failure Go returns the zero time together with an error the code ignores). `strings.ToLower` is
  modelled on ASCII (assumption: domain strings are ASCII; others are outside the theorem).
-/
import ZlModel.Basic
import ZlModel.Key
import ZlModel.Generated.Tld
namespace Zl

def isDigit (b : Nat) : Bool := 48 ≤ b && b ≤ 57

def isLeap (y : Int) : Bool := (y % 4 == 0 && y % 100 != 0) || y % 400 == 0

def daysInMonth (y : Int) (m : Nat) : Nat :=
  match m with
  | 1 => 31 | 2 => if isLeap y then 29 else 28 | 3 => 31 | 4 => 30 | 5 => 31 | 6 => 30
  | 7 => 31 | 8 => 31 | 9 => 30 | 10 => 31 | 11 => 30 | 12 => 31 | _ => 0

/-- days since 1970-01-01 of a proleptic Gregorian civil date (H. Hinnant's algorithm) -/
def daysFromCivil (y : Int) (m d : Nat) : Int :=
  let y' : Int := if m ≤ 2 then y - 1 else y
  let era : Int := (if y' ≥ 0 then y' else y' - 399) / 400
  let yoe : Int := y' - era * 400
  let mp : Int := ((m : Int) + 9) % 12
  let doy : Int := (153 * mp + 2) / 5 + (d : Int) - 1
  let doe : Int := yoe * 365 + yoe / 4 - yoe / 100 + doy
  era * 146097 + doe - 719468

/-- `time.Parse("2006-01-02", s)`: `some instant` or `none` (Go: zero time + error) -/
def parseDate (bs : List Nat) : Option Time :=
  match bs with
  | [y1, y2, y3, y4, 45, m1, m2, 45, d1, d2] =>
    if [y1, y2, y3, y4, m1, m2, d1, d2].all isDigit then
      let y : Int := ((y1 - 48) * 1000 + (y2 - 48) * 100 + (y3 - 48) * 10 + (y4 - 48) : Nat)
      let m := (m1 - 48) * 10 + (m2 - 48)
      let d := (d1 - 48) * 10 + (d2 - 48)
      if 1 ≤ m && m ≤ 12 && 1 ≤ d && d ≤ daysInMonth y m then some ⟨daysFromCivil y m d * 86400, 0⟩ else none
    else none
  | _ => none

/-- what the code does with the parse result: errors are discarded, the zero time is used -/
def parseDateOrZero (bs : List Nat) : Time := (parseDate bs).getD Time.zero

/-- `GTLDPeriod.Valid(when) == nil` -/
def periodValid (deleg rem : List Nat) (t : Time) : Bool :=
  if Time.before t (parseDateOrZero deleg) then false
  else if !rem.isEmpty then !(Time.after t (parseDateOrZero rem))
  else true

def lowerByte (b : Nat) : Nat := if 65 ≤ b && b ≤ 90 then b + 32 else b

/-- the bytes after the last '.' (the whole string if there is none), lower-cased -/
def lastLabelLower (bs : List Nat) : List Nat :=
  ((bs.map lowerByte).reverse.takeWhile (· != 46)).reverse

/-- lookup in the regenerated table by label bytes -/
def tldLookup (label : List Nat) : Option Generated.TldRow :=
  if label.length ≥ Generated.tldWidth || label.contains 0 then none
  else
    let k := padKeyOfBytes Generated.tldWidth label
    Generated.tld.find? (fun r => r.key == k)

/-- `util.HasValidTLD(domain, when)` -/
def hasValidTLD (domain : List Nat) (t : Time) : Bool :=
  match tldLookup (lastLabelLower domain) with
  | none => false
  | some r => periodValid (bytesOfKey r.deleg) (bytesOfKey r.rem) t

/-- `util.IsInTLDMap(label)` -/
def isInTLDMap (label : List Nat) : Bool := (tldLookup (label.map lowerByte)).isSome

/-- `e_dnsname_not_valid_tld` Execute on (CN, cnIsIP, DNS names, notBefore) -/
def tldLint (cn : List Nat) (cnIsIP : Bool) (dns : List (List Nat)) (nb : Time) : Status :=
  if !cn.isEmpty && !cnIsIP && !hasValidTLD cn nb then Status.error
  else if dns.any (fun d => !hasValidTLD d nb) then Status.error
  else Status.pass

end Zl
