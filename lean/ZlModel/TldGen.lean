/-
  ZlModel.TldGen — the generator of the delegation table.
  Code modelled: v3/cmd/zlint-gtld-update/main.go — delegatedGTLDs, validateGTLDs, the merge of the
  gTLD feed with the root-zone TLD list in renderGTLDMap (a Go map: later gTLD entries of the same
  name replace earlier ones, TLD-list entries only fill gaps) and the fixed "onion" row of the template.
  Not modelled: HTTP, encoding/json, html/template and go/format (the correspondence drives the real
  renderGTLDMap with an in-memory transport and reads the rows back from the rendered Go source;
  names and dates are restricted there to characters html/template leaves alone).
-/
import ZlModel.Tld
namespace Zl

structure GEntry where
  name : List Nat
  deleg : List Nat
  rem : List Nat
  deriving DecidableEq, Repr, Inhabited

/-- `delegatedGTLDs` -/
def delegatedG (es : List GEntry) : List GEntry := es.filter (fun e => !e.deleg.isEmpty)

/-- one iteration of `validateGTLDs`' loop: `true` = no error returned for this entry -/
def entryOk (e : GEntry) : Bool :=
  match parseDate e.deleg with
  | none => false
  | some d =>
    if e.rem.isEmpty then true
    else match parseDate e.rem with
      | none => false
      | some r => !(Time.before r d)

/-- `validateGTLDs(entries) == nil` -/
def validateG (es : List GEntry) : Bool := es.all entryOk

def isSpaceByte (b : Nat) : Bool := b == 32 || (9 ≤ b && b ≤ 13)

/-- `strings.TrimSpace(tld) == "" || strings.HasPrefix(tld, "#")` negated (ASCII) -/
def tldLineKept (l : List Nat) : Bool := !(l.all isSpaceByte) && l.head? != some 35

def date1985 : List Nat := [49, 57, 56, 53, 45, 48, 49, 45, 48, 49]   -- "1985-01-01"

/-- `getTLDData` on the lines of the list -/
def tldEntries (lines : List (List Nat)) : List GEntry :=
  (lines.filter tldLineKept).map (fun l => ⟨l.map lowerByte, date1985, []⟩)

/-- `tldMap[e.GTLD] = e` on an association list -/
def putG (m : List GEntry) (e : GEntry) : List GEntry :=
  if m.any (fun x => x.name == e.name) then m.map (fun x => if x.name == e.name then e else x) else m ++ [e]

/-- `if _, found := tldMap[e.GTLD]; !found { tldMap[e.GTLD] = e }` -/
def putIfAbsent (m : List GEntry) (e : GEntry) : List GEntry :=
  if m.any (fun x => x.name == e.name) then m else m ++ [e]

def onionRow : GEntry :=
  ⟨[111, 110, 105, 111, 110], [50, 48, 49, 53, 45, 48, 50, 45, 49, 56], []⟩   -- "onion", "2015-02-18"

/-- the map built by `renderGTLDMap` before rendering -/
def mergedMap (d : List GEntry) (lines : List (List Nat)) : List GEntry :=
  (tldEntries lines).foldl putIfAbsent (d.foldl putG [])

/-- `renderGTLDMap`: `none` = an error is returned and nothing is written; `some rows` = the rows of
    the generated `tldMap` literal (the map's rows, then the fixed onion row) -/
def generate (gs : List GEntry) (lines : List (List Nat)) : Option (List GEntry) :=
  let d := delegatedG gs
  if validateG d then some (mergedMap d lines ++ [onionRow]) else none

/-! canonical presentation for the line protocol: rows stably sorted by name -/
def ltBytes : List Nat → List Nat → Bool
  | [], [] => false
  | [], _ :: _ => true
  | _ :: _, [] => false
  | a :: as, b :: bs => if a < b then true else if b < a then false else ltBytes as bs

/-- stable insertion sort (an element goes after the equal ones already placed; fold from the right) -/
def sortRows (l : List GEntry) : List GEntry := l.foldr (fun e acc =>
  -- inserting from the right end first keeps equal names in input order when `e` goes before equals
  let rec ins : List GEntry → List GEntry
    | [] => [e]
    | x :: xs => if ltBytes x.name e.name then x :: ins xs else e :: x :: xs
  ins acc) []

end Zl
