/-
  ZlModel.Walkers — byte/label walkers of lint and util code that compute their own indices,
  modelled with *checked* indexing: an out-of-range access is the explicit outcome `.panic`,
  never a default value. Totality (`≠ .panic` for every input) is proved in ZlProofs.Props.C02.

  Code modelled:
    v3/lints/rfc/lint_ext_cert_policy_explicit_text_includes_control.go  (controlChar.Execute, the UTF8String branch)
    v3/util/encodings.go    ParseBMPString (+ unicode/utf16.Decode and Go's string(rune) conversion)
    v3/util/names.go        IsNameAttribute
    v3/lints/cabf_br/lint_subject_contains_reserved_arpa_ip.go  reversedLabelsToIPv4 / reversedLabelsToIPv6 (index arithmetic)
-/
import ZlModel.Generated.Numeric
namespace Zl.Walkers

inductive WOut where
  | pass | warn | panic | outOfFuel
  deriving DecidableEq, Repr

/-- checked read -/
def at? (bs : List Nat) (i : Nat) : Option Nat := bs[i]?

/-- The loop of `controlChar.Execute` over one UTF8String (`text.Tag == 12`): `i` is the loop
    variable, one unit of fuel per iteration (each iteration advances `i` by at least one).
    `guarded = true` is the code as it stands (`… == 0xc2 && i+1 < len(text.Bytes) && …`);
    `guarded = false` is the code before the repair recorded for C02 (no `i+1 < len` test), kept only to
    state what the defect was (`C02.controlChar_unguarded_panics`). -/
def ccLoop (guarded : Bool) (bs : List Nat) (i : Nat) (fuel : Nat) : WOut :=
  if i < bs.length then
    match fuel with
    | 0 => .outOfFuel
    | fuel + 1 =>
      match at? bs i with
      | none => .panic
      | some b =>
        if b &&& 0x80 == 0 then
          if b < 0x20 || b == 0x7f then .warn else ccLoop guarded bs (i + 1) fuel
        else if b &&& 0x20 == 0 then
          if b == 0xc2 && (!guarded || decide (i + 1 < bs.length)) then
            match at? bs (i + 1) with
            | none => .panic
            | some c => if 0x80 ≤ c && c ≤ 0x9f then .warn else ccLoop guarded bs (i + 2) fuel
          else ccLoop guarded bs (i + 2) fuel
        else if b &&& 0x10 == 0 then ccLoop guarded bs (i + 3) fuel
        else if b &&& 0x08 == 0 then ccLoop guarded bs (i + 4) fuel
        else if b &&& 0x04 == 0 then ccLoop guarded bs (i + 5) fuel
        else if b &&& 0x02 == 0 then ccLoop guarded bs (i + 6) fuel
        else ccLoop guarded bs (i + 1) fuel
  else .pass

def controlChar (bs : List Nat) : WOut := ccLoop true bs 0 bs.length

def controlCharUnguarded (bs : List Nat) : WOut := ccLoop false bs 0 bs.length

/-! ### ParseBMPString -/

inductive BmpOut where
  | ok (units : List Nat)     -- the uint16 code units handed to utf16.Decode
  | err                       -- "odd-length BMP string"
  | panic
  deriving DecidableEq, Repr

/-- `for len(b) > 0 { s = append(s, b[0]<<8 + b[1]); b = b[2:] }` with checked accesses -/
def bmpLoop : List Nat → Nat → List Nat → BmpOut
  | [], _, acc => .ok acc.reverse
  | _ :: _, 0, _ => .panic               -- out of fuel; not reached with fuel = length (C02.bmpLoop_total)
  | b, fuel + 1, acc =>
    match b[0]?, b[1]? with
    | some hi, some lo =>
      if 2 ≤ b.length then bmpLoop (b.drop 2) fuel ((hi * 256 + lo) % 65536 :: acc) else .panic
    | _, _ => .panic

def parseBMPUnits (b : List Nat) : BmpOut :=
  if b.length % 2 != 0 then .err
  else
    let l := b.length
    let b' := if l ≥ 2 && b[l - 1]? == some 0 && b[l - 2]? == some 0 then b.take (l - 2) else b
    bmpLoop b' b'.length []

/-- unicode/utf16.Decode -/
def utf16Decode : List Nat → List Nat
  | [] => []
  | [u] => [if 0xd800 ≤ u && u < 0xe000 then 0xfffd else u]
  | u :: v :: rest =>
    if u < 0xd800 || 0xe000 ≤ u then u :: utf16Decode (v :: rest)
    else if 0xd800 ≤ u && u < 0xdc00 && 0xdc00 ≤ v && v < 0xe000 then
      (((u - 0xd800) * 1024 + (v - 0xdc00)) + 0x10000) :: utf16Decode rest
    else 0xfffd :: utf16Decode (v :: rest)

/-- Go's `string([]rune)`: UTF-8 encoding, surrogates and out-of-range values become U+FFFD -/
def utf8Encode (r : Nat) : List Nat :=
  let r := if (0xd800 ≤ r && r < 0xe000) || r > 0x10ffff then 0xfffd else r
  if r < 0x80 then [r]
  else if r < 0x800 then [0xc0 + r / 64, 0x80 + r % 64]
  else if r < 0x10000 then [0xe0 + r / 4096, 0x80 + (r / 64) % 64, 0x80 + r % 64]
  else [0xf0 + r / 262144, 0x80 + (r / 4096) % 64, 0x80 + (r / 64) % 64, 0x80 + r % 64]

/-- `util.ParseBMPString` as bytes of the returned string -/
def parseBMP (b : List Nat) : Option (Option (List Nat)) :=   -- none = panic, some none = error
  match parseBMPUnits b with
  | .panic => none
  | .err => some none
  | .ok us => some (some ((utf16Decode us).flatMap utf8Encode))

/-! ### IsNameAttribute -/

inductive BOut where
  | val (b : Bool)
  | panic
  deriving DecidableEq, Repr

/-- `len(oid) != 4 → false; !prefix.Equal(oid[0:3]) → false; _, ok := leaves[oid[3]]` -/
def isNameAttribute (oid : List Nat) : BOut :=
  if oid.length != 4 then .val false
  else if 3 ≤ oid.length then        -- oid[0:3]
    if oid.take 3 != Generated.nameAttributePrefix then .val false
    else match oid[3]? with
      | none => .panic
      | some leaf => .val (Generated.nameAttributeLeaves.contains leaf)   -- the table is regenerated from util/names.go
  else .panic

/-! ### IsFQDN's prefix stripping (v3/util/fqdn.go) -/

/-- `RemovePrependedQuestionMarks`: `for strings.HasPrefix(domain, "?.") { domain = domain[2:] }` — structural
    recursion: every round removes two bytes, so the loop ends -/
def removeQuestionMarks : List Nat → List Nat
  | 63 :: 46 :: rest => removeQuestionMarks rest
  | s => s

/-- `RemovePrependedWildcard`: `strings.TrimPrefix(domain, "*.")` -/
def removeWildcard : List Nat → List Nat
  | 42 :: 46 :: rest => rest
  | s => s

/-- what `IsFQDN` hands to zcrypto's `IsURL` -/
def fqdnArg (s : List Nat) : List Nat := removeQuestionMarks (removeWildcard s)

/-! ### reversed-label index arithmetic -/

/-- indices touched by `for i := len-1; i >= 0; i -= 4 { labels[i], labels[i-1], labels[i-2], labels[i-3] }` -/
def v6Indices (len : Nat) : Nat → Int → List Int
  | 0, _ => []
  | fuel + 1, i => if 0 ≤ i then [i, i - 1, i - 2, i - 3] ++ v6Indices len fuel (i - 4) else []

def v6AllIndices (len : Nat) : List Int := v6Indices len (len + 1) ((len : Int) - 1)

end Zl.Walkers
