/-
  ZlModel.World — effects: histories of lint calls over a shared world, and interleavings of threads.

  A lint call of the real code may in principle read and write package-level state (the "world") and
  the linted object. `Eff` is such an arbitrary effectful step; the regenerated footprints say which
  steps are read-only. The theorems in Props/C05, C09, C10 are about arbitrary `Eff`s under exactly
  the hypotheses that the footprint obligations establish.
-/
namespace Zl

/-- one effectful call: from the shared world and the caller's own object to an output, the new
    world and the (possibly modified) object -/
structure Eff (G Obj Out : Type) where
  run : G → Obj → Out × G × Obj

/-- the step leaves the shared world and the object exactly as it found them -/
def Eff.readOnly {G Obj Out : Type} (c : Eff G Obj Out) : Prop := ∀ g o, (c.run g o).2 = (g, o)

/-- run a history of calls, each on its own object; returns outputs in order and the final world -/
def runHistory {G Obj Out : Type} : List (Eff G Obj Out × Obj) → G → List Out × G
  | [], g => ([], g)
  | (c, o) :: rest, g =>
    let r := c.run g o
    let (outs, g') := runHistory rest r.2.1
    (r.1 :: outs, g')

/-- threads: each has a local object and a program (list of calls on that object) -/
structure Thread (G Obj Out : Type) where
  obj : Obj
  prog : List (Eff G Obj Out)
  outs : List Out := []

/-- run one step of thread `i` (if it has one left) -/
def stepThread {G Obj Out : Type} (g : G) (t : Thread G Obj Out) : G × Thread G Obj Out :=
  match t.prog with
  | [] => (g, t)
  | c :: rest =>
    let r := c.run g t.obj
    (r.2.1, { obj := r.2.2, prog := rest, outs := t.outs ++ [r.1] })

def updateAt {α : Type} : List α → Nat → α → List α
  | [], _, _ => []
  | _ :: xs, 0, a => a :: xs
  | x :: xs, n + 1, a => x :: updateAt xs n a

/-- run a schedule: a list of thread indices, each entry executing that thread's next step -/
def runSchedule {G Obj Out : Type} : List Nat → G → List (Thread G Obj Out) → G × List (Thread G Obj Out)
  | [], g, ts => (g, ts)
  | i :: sched, g, ts =>
    match ts[i]? with
    | none => runSchedule sched g ts
    | some t =>
      let (g', t') := stepThread g t
      runSchedule sched g' (updateAt ts i t')

/-- a thread run alone to the same progress: `n` steps from world `g` -/
def runAlone {G Obj Out : Type} : Nat → G → Thread G Obj Out → G × Thread G Obj Out
  | 0, g, t => (g, t)
  | n + 1, g, t => let (g', t') := stepThread g t; runAlone n g' t'

end Zl
