/-
  The DER element reader inverts the minimal-length encoder (`readAny_tlv`), hence the raw-bytes walk of
  e_cert_sig_alg_not_match_tbs_sig_alg never looks at the third element of the certificate SEQUENCE.
-/
import ZlModel.Der
namespace Zl.Der

theorem readAny_tlv (t : Nat) (c rest : Bytes) (ht : t % 32 ≠ 31) (hc : c.length + 6 < 4294967296) :
    readAny (tlv t c ++ rest) = some (t, c, rest) := by
  have htb : (t % 32 == 31) = false := by simpa using ht
  unfold tlv encLen
  by_cases h1 : c.length < 128
  · simp only [h1, if_true, List.cons_append, List.nil_append]
    unfold readAny
    simp only [htb, h1, if_true, List.length_append]
    have : ¬ (c.length + rest.length < c.length) := by omega
    simp [this]
  · have hne : c ≠ [] := by intro h; subst h; simp at h1
    by_cases h2 : c.length < 256
    · simp only [h1, h2, if_true, if_false, List.cons_append, List.nil_append]
      unfold readAny
      have e1 : ¬ ((0x81 : Nat) < 128) := by omega
      simp only [htb, e1, if_false]
      simp [beNat, List.length_append]
      exact ⟨by omega, hne, by omega⟩
    · by_cases h3 : c.length < 65536
      · simp only [h1, h2, h3, if_true, if_false, List.cons_append, List.nil_append]
        unfold readAny
        have e1 : ¬ ((0x82 : Nat) < 128) := by omega
        simp only [htb, e1, if_false]
        simp [beNat, List.length_append]
        have e : c.length / 256 * 256 + c.length % 256 = c.length := by omega
        simp only [e]
        refine ⟨by omega, by omega, by omega, by omega, by simp, by simp⟩
      · by_cases h4 : c.length < 16777216
        · simp only [h1, h2, h3, h4, if_true, if_false, List.cons_append, List.nil_append]
          unfold readAny
          have e1 : ¬ ((0x83 : Nat) < 128) := by omega
          simp only [htb, e1, if_false]
          simp [beNat, List.length_append]
          have e : c.length / 65536 * 65536 + (c.length / 256 % 256 * 256 + c.length % 256) = c.length := by omega
          simp only [e]
          refine ⟨by omega, by omega, by omega, by omega, by simp, by simp⟩
        · simp only [h1, h2, h3, h4, if_false, List.cons_append, List.nil_append]
          unfold readAny
          have e1 : ¬ ((0x84 : Nat) < 128) := by omega
          simp only [htb, e1, if_false]
          simp [beNat, List.length_append]
          have e : c.length / 16777216 * 16777216 + (c.length / 65536 % 256 * 65536 + (c.length / 256 % 256 * 256 + c.length % 256)) = c.length := by omega
          simp only [e]
          refine ⟨by omega, by omega, by omega, by omega, by simp, by simp⟩

theorem readASN1_tlv (t : Nat) (c rest : Bytes) (ht : t % 32 ≠ 31) (hc : c.length + 6 < 4294967296) :
    readASN1 t (tlv t c ++ rest) = some (c, rest) := by
  unfold readASN1
  rw [readAny_tlv t c rest ht hc]
  simp

/-- the verdict on SEQUENCE { SEQUENCE tbs, SEQUENCE alg, anything } is `compareAlg tbs alg`: the third element
    (the signature BIT STRING in a certificate) is never read -/
theorem walk_tlv (tbs alg sig : Bytes)
    (h1 : tbs.length + 6 < 4294967296) (h2 : alg.length + 6 < 4294967296)
    (h3 : (tlv tagSeq tbs ++ (tlv tagSeq alg ++ sig)).length + 6 < 4294967296) :
    walk (tlv tagSeq (tlv tagSeq tbs ++ (tlv tagSeq alg ++ sig))) = compareAlg tbs alg := by
  have hs : tagSeq % 32 ≠ 31 := by decide
  unfold walk
  have := readASN1_tlv tagSeq (tlv tagSeq tbs ++ (tlv tagSeq alg ++ sig)) [] hs h3
  rw [List.append_nil] at this
  rw [this]
  simp only
  rw [readASN1_tlv tagSeq tbs _ hs h1]
  simp only
  rw [readASN1_tlv tagSeq alg _ hs h2]

theorem sigAlgWalk_blind (tbs alg sig sig' : Bytes)
    (h1 : tbs.length + 6 < 4294967296) (h2 : alg.length + 6 < 4294967296)
    (h3 : (tlv tagSeq tbs ++ (tlv tagSeq alg ++ sig)).length + 6 < 4294967296)
    (h3' : (tlv tagSeq tbs ++ (tlv tagSeq alg ++ sig')).length + 6 < 4294967296) :
    walk (tlv tagSeq (tlv tagSeq tbs ++ (tlv tagSeq alg ++ sig))) = walk (tlv tagSeq (tlv tagSeq tbs ++ (tlv tagSeq alg ++ sig'))) := by
  rw [walk_tlv tbs alg sig h1 h2 h3, walk_tlv tbs alg sig' h1 h2 h3']

end Zl.Der
