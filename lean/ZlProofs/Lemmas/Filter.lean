import ZlProofs.Lemmas.Registry
namespace Zl

variable {α Cfg : Type}

def nameIn (lk : Lookup α) (n : String) : Prop := n ∈ lk.lints.map (·.md.name)

/-- registry invariant: each lookup consistent, and no name shared between kinds
    (`register` does not enforce the latter; it holds of the real registry by a generated-table theorem, C12) -/
structure RInv (r : Registry α Cfg) : Prop where
  cert : LInv r.cert
  ocsp : LInv r.ocsp
  crl : LInv r.crl
  cross1 : ∀ n, nameIn r.cert n → ¬ nameIn r.ocsp n ∧ ¬ nameIn r.crl n
  cross2 : ∀ n, nameIn r.ocsp n → ¬ nameIn r.crl n

theorem RInv.lookup {r : Registry α Cfg} (h : RInv r) (k : Kind) : LInv (r.lookupOf k) := by
  cases k <;> simp [Registry.lookupOf, h.cert, h.crl, h.ocsp]

theorem RInv.cross {r : Registry α Cfg} (h : RInv r) (k k' : Kind) (hk : k ≠ k') (n : String)
    (h1 : nameIn (r.lookupOf k) n) : ¬ nameIn (r.lookupOf k') n := by
  cases k <;> cases k' <;> simp only [Registry.lookupOf] at * <;> (try exact absurd rfl hk)
  · exact (h.cross1 n h1).2
  · exact (h.cross1 n h1).1
  · intro h2; exact (h.cross1 n h2).2 h1
  · intro h2; exact h.cross2 n h2 h1
  · intro h2; exact (h.cross1 n h2).1 h1
  · exact h.cross2 n h1

theorem RInv.empty (cfg : Cfg) : RInv ({ cfg := cfg } : Registry α Cfg) := by
  refine ⟨LInv.empty, LInv.empty, LInv.empty, ?_, ?_⟩ <;> intro n h <;> simp [nameIn] at h

theorem lookupOf_setLookup (r : Registry α Cfg) (k k' : Kind) (lk : Lookup α) :
    (r.setLookup k lk).lookupOf k' = if k' = k then lk else r.lookupOf k' := by
  cases k <;> cases k' <;> simp [Registry.setLookup, Registry.lookupOf]

theorem setLookup_cfg (r : Registry α Cfg) (k : Kind) (lk : Lookup α) : (r.setLookup k lk).cfg = r.cfg := by
  cases k <;> rfl

/-- which lookup answers for a name -/
theorem find_some_iff {r : Registry α Cfg} (h : RInv r) (n : String) (k : Kind) (e : Entry α) :
    r.find n = some (k, e) ↔ e ∈ (r.lookupOf k).lints ∧ e.md.name = n := by
  unfold Registry.find
  constructor
  · intro hf
    cases hc : r.cert.byNameGet n with
    | some e' =>
      simp only [hc] at hf; cases hf
      exact (h.cert.byName_some n _).mp hc
    | none =>
      simp only [hc] at hf
      cases ho : r.ocsp.byNameGet n with
      | some e' =>
        simp only [ho] at hf; cases hf
        exact (h.ocsp.byName_some n _).mp ho
      | none =>
        simp only [ho] at hf
        cases hl : r.crl.byNameGet n with
        | some e' =>
          simp only [hl] at hf; cases hf
          exact (h.crl.byName_some n _).mp hl
        | none => simp [hl] at hf
  · rintro ⟨he, hn⟩
    have hin : nameIn (r.lookupOf k) n := List.mem_map.mpr ⟨e, he, hn⟩
    have none_of : ∀ k', k' ≠ k → (r.lookupOf k').byNameGet n = none := by
      intro k' hk'
      have := h.cross k k' (Ne.symm hk') n hin
      cases hb : (r.lookupOf k').byNameGet n with
      | none => rfl
      | some e' =>
        exfalso; apply this
        exact ((h.lookup k').byName_isSome n).mp (by simp [hb])
    have some_of : (r.lookupOf k).byNameGet n = some e := ((h.lookup k).byName_some n e).mpr ⟨he, hn⟩
    cases k with
    | cert => simp only [Registry.lookupOf] at some_of; simp [some_of]
    | ocsp =>
      have h1 := none_of .cert (by decide)
      simp only [Registry.lookupOf] at some_of h1
      simp [some_of, h1]
    | crl =>
      have h1 := none_of .cert (by decide)
      have h2 := none_of .ocsp (by decide)
      simp only [Registry.lookupOf] at some_of h1 h2
      simp [some_of, h1, h2]

theorem find_none_iff {r : Registry α Cfg} (h : RInv r) (n : String) :
    r.find n = none ↔ ∀ k, ¬ nameIn (r.lookupOf k) n := by
  constructor
  · intro hf k hin
    obtain ⟨e, he, hn⟩ := List.mem_map.mp hin
    have := (find_some_iff h n k e).mpr ⟨he, hn⟩
    rw [hf] at this; cases this
  · intro hall
    cases hf : r.find n with
    | none => rfl
    | some p =>
      obtain ⟨k, e⟩ := p
      have := (find_some_iff h n k e).mp hf
      exact absurd (List.mem_map.mpr ⟨e, this.1, this.2⟩) (hall k)

/-- registering a valid, everywhere-fresh entry succeeds and preserves the registry invariant -/
theorem registry_register_ok {acc : Registry α Cfg} (ha : RInv acc) (k : Kind) (e : Entry α) (hv : e.valid)
    (hfresh : ∀ k', ¬ nameIn (acc.lookupOf k') e.md.name) :
    ∃ acc', acc.register k e = .ok acc' ∧ RInv acc' ∧ acc'.cfg = acc.cfg ∧
      (acc'.lookupOf k).lints = (acc.lookupOf k).lints ++ [e] ∧ ∀ k', k' ≠ k → acc'.lookupOf k' = acc.lookupOf k' := by
  unfold Registry.register
  cases hreg : (acc.lookupOf k).register e with
  | error err =>
    exfalso
    rcases (register_error_iff _ e (ha.lookup k)).mp ⟨err, hreg⟩ with h | h
    · exact h hv
    · exact hfresh k h
  | ok lk =>
    obtain ⟨hinv, hl, _, _⟩ := register_inv _ lk e (ha.lookup k) hreg
    refine ⟨acc.setLookup k lk, rfl, ?_, setLookup_cfg _ _ _, ?_, ?_⟩
    · have hname : ∀ k' n, nameIn ((acc.setLookup k lk).lookupOf k') n ↔
          nameIn (acc.lookupOf k') n ∨ (k' = k ∧ n = e.md.name) := by
        intro k' n
        rw [lookupOf_setLookup]
        by_cases hk : k' = k
        · subst hk
          simp only [↓reduceIte, nameIn, hl, List.map_append, List.map_cons, List.map_nil, List.mem_append, List.mem_singleton, true_and]
        · simp [hk]
      have hlk : ∀ k', LInv ((acc.setLookup k lk).lookupOf k') := by
        intro k'
        rw [lookupOf_setLookup]
        by_cases hk : k' = k
        · simp [hk, hinv]
        · simp [hk, ha.lookup k']
      have hcross : ∀ k1 k2, k1 ≠ k2 → ∀ n, nameIn ((acc.setLookup k lk).lookupOf k1) n → ¬ nameIn ((acc.setLookup k lk).lookupOf k2) n := by
        intro k1 k2 hne n h1 h2
        rcases (hname k1 n).mp h1 with g1 | ⟨g1, g1n⟩
        · rcases (hname k2 n).mp h2 with g2 | ⟨g2, g2n⟩
          · exact ha.cross k1 k2 hne n g1 g2
          · rw [g2n] at g1; exact hfresh k1 g1
        · rcases (hname k2 n).mp h2 with g2 | ⟨g2, g2n⟩
          · rw [g1n] at g2; exact hfresh k2 g2
          · exact hne (g1.trans g2.symm)
      exact ⟨hlk .cert, hlk .ocsp, hlk .crl,
        fun n h => ⟨hcross .cert .ocsp (by decide) n h, hcross .cert .crl (by decide) n h⟩,
        fun n h => hcross .ocsp .crl (by decide) n h⟩
    · rw [lookupOf_setLookup]; simp [hl]
    · intro k' hk'; rw [lookupOf_setLookup]; simp [hk']

/-- **The loop of `Filter`**, for any selection predicate, over any duplicate-free list of names that are fresh in `acc`. -/
theorem filterLoop_spec {r : Registry α Cfg} (hr : RInv r) (sel : String → String → Bool) :
    ∀ (ns : List String) (acc : Registry α Cfg), RInv acc → ns.Nodup →
      (∀ n ∈ ns, ∀ k, ¬ nameIn (acc.lookupOf k) n) →
      ∃ acc', filterLoop r sel ns acc = .ok acc' ∧ RInv acc' ∧ acc'.cfg = acc.cfg ∧
        ∀ k e, e ∈ (acc'.lookupOf k).lints ↔
          e ∈ (acc.lookupOf k).lints ∨ (e.md.name ∈ ns ∧ e ∈ (r.lookupOf k).lints ∧ sel e.md.name e.md.source = true) := by
  intro ns
  induction ns with
  | nil =>
    intro acc ha _ _
    exact ⟨acc, rfl, ha, rfl, by intro k e; simp⟩
  | cons n rest ih =>
    intro acc ha hnd hfresh
    have hnd' := (List.nodup_cons.mp hnd)
    have hfresh_rest : ∀ m ∈ rest, ∀ k, ¬ nameIn (acc.lookupOf k) m := fun m hm => hfresh m (List.mem_cons_of_mem _ hm)
    unfold filterLoop
    cases hf : r.find n with
    | none =>
      simp only []
      obtain ⟨acc', h1, h2, h3, h4⟩ := ih acc ha hnd'.2 hfresh_rest
      refine ⟨acc', h1, h2, h3, ?_⟩
      intro k e
      rw [h4 k e]
      constructor
      · rintro (h | ⟨hm, he, hs⟩)
        · exact Or.inl h
        · exact Or.inr ⟨List.mem_cons_of_mem _ hm, he, hs⟩
      · rintro (h | ⟨hm, he, hs⟩)
        · exact Or.inl h
        · rcases List.mem_cons.mp hm with hm | hm
          · exfalso
            exact (find_none_iff hr n).mp hf k (List.mem_map.mpr ⟨e, he, hm⟩)
          · exact Or.inr ⟨hm, he, hs⟩
    | some p =>
      obtain ⟨k0, e0⟩ := p
      obtain ⟨he0, hn0⟩ := (find_some_iff hr n k0 e0).mp hf
      simp only []
      -- any entry of `r` named `n` is `e0` in kind `k0`
      have huniq : ∀ k e, e ∈ (r.lookupOf k).lints → e.md.name = n → k = k0 ∧ e = e0 := by
        intro k e he hn
        have := (find_some_iff hr n k e).mpr ⟨he, hn⟩
        rw [hf] at this
        cases this; exact ⟨rfl, rfl⟩
      by_cases hsel : sel n e0.md.source = true
      · simp only [hsel, ↓reduceIte]
        have hv : e0.valid := (hr.lookup k0).valid e0 he0
        obtain ⟨acc1, hreg, hinv1, hcfg1, hl1, hoth1⟩ := registry_register_ok ha k0 e0 hv (by rw [hn0]; exact hfresh n List.mem_cons_self)
        rw [hreg]
        simp only []
        have hfresh1 : ∀ m ∈ rest, ∀ k, ¬ nameIn (acc1.lookupOf k) m := by
          intro m hm k hin
          by_cases hk : k = k0
          · subst hk
            simp only [nameIn, hl1, List.map_append, List.map_cons, List.map_nil, List.mem_append, List.mem_singleton] at hin
            rcases hin with hin | hin
            · exact hfresh_rest m hm k hin
            · rw [hn0] at hin; subst hin; exact hnd'.1 hm
          · rw [hoth1 k hk] at hin; exact hfresh_rest m hm k hin
        obtain ⟨acc', h1, h2, h3, h4⟩ := ih acc1 hinv1 hnd'.2 hfresh1
        refine ⟨acc', h1, h2, h3.trans hcfg1, ?_⟩
        intro k e
        rw [h4 k e]
        have hacc1 : e ∈ (acc1.lookupOf k).lints ↔ e ∈ (acc.lookupOf k).lints ∨ (k = k0 ∧ e = e0) := by
          by_cases hk : k = k0
          · subst hk; simp [hl1]
          · rw [hoth1 k hk]; simp [hk]
        rw [hacc1]
        constructor
        · rintro ((h | ⟨rfl, rfl⟩) | ⟨hm, he, hs⟩)
          · exact Or.inl h
          · exact Or.inr ⟨by rw [hn0]; exact List.mem_cons_self, he0, by rw [hn0]; exact hsel⟩
          · exact Or.inr ⟨List.mem_cons_of_mem _ hm, he, hs⟩
        · rintro (h | ⟨hm, he, hs⟩)
          · exact Or.inl (Or.inl h)
          · rcases List.mem_cons.mp hm with hm | hm
            · exact Or.inl (Or.inr (huniq k e he hm))
            · exact Or.inr ⟨hm, he, hs⟩
      · simp only [hsel, Bool.false_eq_true, ↓reduceIte]
        obtain ⟨acc', h1, h2, h3, h4⟩ := ih acc ha hnd'.2 hfresh_rest
        refine ⟨acc', h1, h2, h3, ?_⟩
        intro k e
        rw [h4 k e]
        constructor
        · rintro (h | ⟨hm, he, hs⟩)
          · exact Or.inl h
          · exact Or.inr ⟨List.mem_cons_of_mem _ hm, he, hs⟩
        · rintro (h | ⟨hm, he, hs⟩)
          · exact Or.inl h
          · rcases List.mem_cons.mp hm with hm | hm
            · exfalso
              obtain ⟨_, rfl⟩ := huniq k e he hm
              rw [hm] at hs; exact hsel hs
            · exact Or.inr ⟨hm, he, hs⟩

/-- `Names()` of a registry satisfying the invariant lists every lint name exactly once -/
theorem names_spec {r : Registry α Cfg} (hr : RInv r) :
    r.names.Nodup ∧ ∀ n, n ∈ r.names ↔ ∃ k, nameIn (r.lookupOf k) n := by
  have hperm : r.names.Perm (r.cert.lints.map (·.md.name) ++ r.ocsp.lints.map (·.md.name) ++ r.crl.lints.map (·.md.name)) := by
    unfold Registry.names
    exact (sortStrings_perm _).trans ((hr.cert.namesPerm.append hr.ocsp.namesPerm).append hr.crl.namesPerm)
  constructor
  · rw [hperm.nodup_iff]
    refine List.nodup_append.mpr ⟨List.nodup_append.mpr ⟨hr.cert.nodup, hr.ocsp.nodup, ?_⟩, hr.crl.nodup, ?_⟩
    · intro a ha b hb hab; subst hab; exact (hr.cross1 a ha).1 hb
    · intro a ha b hb hab; subst hab
      rcases List.mem_append.mp ha with ha | ha
      · exact (hr.cross1 a ha).2 hb
      · exact hr.cross2 a ha hb
  · intro n
    rw [hperm.mem_iff]
    simp only [List.mem_append]
    constructor
    · rintro ((h | h) | h)
      · exact ⟨.cert, h⟩
      · exact ⟨.ocsp, h⟩
      · exact ⟨.crl, h⟩
    · rintro ⟨k, h⟩
      cases k
      · exact Or.inl (Or.inl h)
      · exact Or.inr h
      · exact Or.inl (Or.inr h)

/-! ## `lintNamesToMap` -/

theorem lintNamesToMap_go_ok (r : Registry α Cfg) :
    ∀ (names acc : List String), (∀ n ∈ names, (r.find (trimSpace n)).isSome = true) →
      ∃ m, lintNamesToMap.go r names acc = .ok (some m) ∧ ∀ x, x ∈ m ↔ x ∈ acc ∨ ∃ n ∈ names, trimSpace n = x := by
  intro names
  induction names with
  | nil => intro acc _; exact ⟨acc, rfl, by simp⟩
  | cons n rest ih =>
    intro acc hall
    have hn := hall n List.mem_cons_self
    obtain ⟨p, hp⟩ := Option.isSome_iff_exists.mp hn
    simp only [lintNamesToMap.go, hp]
    obtain ⟨m, hm, hmem⟩ := ih (if acc.contains (trimSpace n) then acc else acc ++ [trimSpace n]) (fun x hx => hall x (List.mem_cons_of_mem _ hx))
    refine ⟨m, hm, ?_⟩
    intro x
    rw [hmem x]
    by_cases hc : acc.contains (trimSpace n) = true
    · simp only [hc, ↓reduceIte]
      constructor
      · rintro (h | ⟨y, hy, hyx⟩)
        · exact Or.inl h
        · exact Or.inr ⟨y, List.mem_cons_of_mem _ hy, hyx⟩
      · rintro (h | ⟨y, hy, hyx⟩)
        · exact Or.inl h
        · rcases List.mem_cons.mp hy with rfl | hy
          · left; rw [← hyx]; simpa using hc
          · exact Or.inr ⟨y, hy, hyx⟩
    · simp only [hc, Bool.false_eq_true, ↓reduceIte]
      constructor
      · rintro (h | ⟨y, hy, hyx⟩)
        · rcases List.mem_append.mp h with h | h
          · exact Or.inl h
          · exact Or.inr ⟨n, List.mem_cons_self, (List.mem_singleton.mp h).symm⟩
        · exact Or.inr ⟨y, List.mem_cons_of_mem _ hy, hyx⟩
      · rintro (h | ⟨y, hy, hyx⟩)
        · exact Or.inl (List.mem_append.mpr (Or.inl h))
        · rcases List.mem_cons.mp hy with rfl | hy
          · exact Or.inl (List.mem_append.mpr (Or.inr (List.mem_singleton.mpr hyx.symm)))
          · exact Or.inr ⟨y, hy, hyx⟩

theorem lintNamesToMap_go_err (r : Registry α Cfg) :
    ∀ (names acc : List String), (∃ n ∈ names, r.find (trimSpace n) = none) →
      ∃ x, lintNamesToMap.go r names acc = .error (.unknownName x) := by
  intro names
  induction names with
  | nil => intro acc h; obtain ⟨n, hn, _⟩ := h; cases hn
  | cons n rest ih =>
    intro acc h
    cases hf : r.find (trimSpace n) with
    | none => simp only [lintNamesToMap.go, hf]; exact ⟨_, rfl⟩
    | some p =>
      simp only [lintNamesToMap.go, hf]
      apply ih
      obtain ⟨x, hx, hxn⟩ := h
      rcases List.mem_cons.mp hx with rfl | hx
      · rw [hf] at hxn; cases hxn
      · exact ⟨x, hx, hxn⟩

/-- full characterisation of `lintNamesToMap` -/
theorem lintNamesToMap_spec (r : Registry α Cfg) (names : List String) :
    (names = [] ∧ lintNamesToMap r names = .ok none)
    ∨ (names ≠ [] ∧ (∀ n ∈ names, (r.find (trimSpace n)).isSome = true) ∧
        ∃ m, lintNamesToMap r names = .ok (some m) ∧ m ≠ [] ∧ ∀ x, x ∈ m ↔ ∃ n ∈ names, trimSpace n = x)
    ∨ (names ≠ [] ∧ (∃ n ∈ names, r.find (trimSpace n) = none) ∧ ∃ x, lintNamesToMap r names = .error (.unknownName x)) := by
  unfold lintNamesToMap
  cases names with
  | nil => left; exact ⟨rfl, rfl⟩
  | cons a rest =>
    right
    simp only [List.isEmpty_cons, Bool.false_eq_true, ↓reduceIte]
    by_cases hall : ∀ n ∈ a :: rest, (r.find (trimSpace n)).isSome = true
    · left
      obtain ⟨m, hm, hmem⟩ := lintNamesToMap_go_ok r (a :: rest) [] hall
      refine ⟨by simp, hall, m, hm, ?_, by intro x; rw [hmem x]; simp⟩
      intro hnil
      have := (hmem (trimSpace a)).mpr (Or.inr ⟨a, List.mem_cons_self, rfl⟩)
      rw [hnil] at this; cases this
    · right
      have hex : ∃ n ∈ a :: rest, r.find (trimSpace n) = none := by
        apply Classical.byContradiction
        intro hne
        apply hall
        intro n hn
        cases hf : r.find (trimSpace n) with
        | none => exact absurd ⟨n, hn, hf⟩ hne
        | some _ => rfl
      exact ⟨by simp, hex, lintNamesToMap_go_err r (a :: rest) [] hex⟩

end Zl
