import ZlModel.Framework
namespace Zl

theorem Time.before_iff (a b : Time) : Time.before a b = true ↔ Time.lt a b := by
  unfold Time.before Time.lt
  simp only [Bool.or_eq_true, Bool.and_eq_true, decide_eq_true_eq, beq_iff_eq]

theorem Time.onOrAfter_iff (t e : Time) : Time.onOrAfter t e = true ↔ Time.le e t := by
  unfold Time.onOrAfter
  rw [Bool.not_eq_true', ← Bool.not_eq_true, Time.before_iff]
  unfold Time.lt Time.le
  omega

theorem Time.lt_irrefl (a : Time) : ¬ Time.lt a a := by
  unfold Time.lt; omega

theorem Time.le_refl (a : Time) : Time.le a a := by
  unfold Time.le; omega

/-- the statuses the framework itself can produce -/
def frameworkStatus (s : Status) : Prop := s = Status.na ∨ s = Status.ne ∨ s = Status.fatal

/-- Full case analysis of `executeRaw`. -/
theorem executeRaw_result {Obj Cfg : Type} (gate : Bool) (t : Time) (l : Lint Obj Cfg) (o : Obj) (cfg : Cfg)
    (s : Status) (d : String) (h : (executeRaw gate t l o cfg).1 = .result s d) :
    (gate = false ∧ s = Status.na ∧ d = "")
    ∨ (gate = true ∧ ∃ e, l.configure cfg = .ok (some e) ∧ s = Status.fatal ∧ d = e)
    ∨ (gate = true ∧ l.configure cfg = .ok none ∧ l.applies o = .ok false ∧ s = Status.na ∧ d = "")
    ∨ (gate = true ∧ l.configure cfg = .ok none ∧ l.applies o = .ok true ∧
        checkEffective l.md.eff l.md.ineff t = false ∧ s = Status.ne ∧ d = "")
    ∨ (gate = true ∧ l.configure cfg = .ok none ∧ l.applies o = .ok true ∧
        checkEffective l.md.eff l.md.ineff t = true ∧ l.body o = .res s d) := by
  unfold executeRaw at h
  cases gate with
  | false => simp at h; simp [h.1, h.2]
  | true =>
    simp only [Bool.not_true, Bool.false_eq_true, ↓reduceIte] at h
    cases hc : l.configure cfg with
    | panic m => simp [hc] at h
    | ok oe =>
      cases oe with
      | some e => simp [hc] at h; right; left; exact ⟨rfl, e, rfl, by simp_all, by simp_all⟩
      | none =>
        simp only [hc] at h
        cases ha : l.applies o with
        | panic m => simp [ha] at h
        | ok b =>
          cases b with
          | false => simp [ha] at h; right; right; left; exact ⟨rfl, rfl, rfl, by simp_all, by simp_all⟩
          | true =>
            simp only [ha] at h
            cases hw : checkEffective l.md.eff l.md.ineff t with
            | false => simp [hw] at h; right; right; right; left; exact ⟨rfl, rfl, rfl, rfl, by simp_all, by simp_all⟩
            | true =>
              simp only [hw, Bool.not_true, Bool.false_eq_true, ↓reduceIte] at h
              cases hb : l.body o with
              | res s' d' => simp [hb] at h; right; right; right; right; exact ⟨rfl, rfl, rfl, rfl, by rw [h.1, h.2]⟩
              | nil => simp [hb] at h
              | panic m => simp [hb] at h

end Zl

namespace Zl

/-- the certificate wrapper never lets a panic out -/
theorem execute_cert_no_panic {Obj Cfg : Type} (sc : Scope) (t : Time) (l : Lint Obj Cfg) (o : Obj) (cfg : Cfg) (m : String) :
    (execute .cert sc t l o cfg).1 ≠ .panic m := by
  simp only [execute]
  cases (executeRaw (inScope l.md.source sc) t l o cfg).1 <;> simp [recoverExec]

/-- `executeRaw` returns nil exactly when the body is reached and returns nil -/
theorem executeRaw_nil_iff {Obj Cfg : Type} (gate : Bool) (t : Time) (l : Lint Obj Cfg) (o : Obj) (cfg : Cfg) :
    (executeRaw gate t l o cfg).1 = .nilResult ↔
      gate = true ∧ l.configure cfg = .ok none ∧ l.applies o = .ok true ∧
      checkEffective l.md.eff l.md.ineff t = true ∧ l.body o = .nil := by
  unfold executeRaw
  cases gate
  · simp
  · cases hc : l.configure cfg with
    | panic m => simp
    | ok oe =>
      cases oe with
      | some e => simp
      | none =>
        cases ha : l.applies o with
        | panic m => simp
        | ok b =>
          cases b with
          | false => simp
          | true =>
            cases hw : checkEffective l.md.eff l.md.ineff t with
            | false => simp
            | true => cases hb : l.body o <;> simp

/-- `executeRaw` panics exactly when the first stage reached that does not complete panics -/
theorem executeRaw_panic_iff {Obj Cfg : Type} (gate : Bool) (t : Time) (l : Lint Obj Cfg) (o : Obj) (cfg : Cfg) (m : String) :
    (executeRaw gate t l o cfg).1 = .panic m ↔
      gate = true ∧ (l.configure cfg = .panic m
        ∨ (l.configure cfg = .ok none ∧ (l.applies o = .panic m
          ∨ (l.applies o = .ok true ∧ checkEffective l.md.eff l.md.ineff t = true ∧ l.body o = .panic m)))) := by
  unfold executeRaw
  cases gate
  · simp
  · cases hc : l.configure cfg with
    | panic m' => simp
    | ok oe =>
      cases oe with
      | some e => simp
      | none =>
        cases ha : l.applies o with
        | panic m' => simp
        | ok b =>
          cases b with
          | false => simp
          | true =>
            cases hw : checkEffective l.md.eff l.md.ineff t with
            | false => simp
            | true => cases hb : l.body o <;> simp

/-- Every status that comes out of `Execute` is NA, NE, fatal, or the body's own status
    (with the body's details). The framework adds nothing else. -/
theorem execute_status_from {Obj Cfg : Type} (k : Kind) (sc : Scope) (t : Time) (l : Lint Obj Cfg) (o : Obj) (cfg : Cfg)
    (s : Status) (d : String) (h : (execute k sc t l o cfg).1 = .result s d) :
    frameworkStatus s ∨ l.body o = .res s d := by
  have key : ∀ gate s d, (executeRaw gate t l o cfg).1 = .result s d → frameworkStatus s ∨ l.body o = .res s d := by
    intro gate s d h
    rcases executeRaw_result gate t l o cfg s d h with h | h | h | h | h
    · exact Or.inl (Or.inl h.2.1)
    · obtain ⟨_, e, _, hs, _⟩ := h; exact Or.inl (Or.inr (Or.inr hs))
    · exact Or.inl (Or.inl h.2.2.2.1)
    · exact Or.inl (Or.inr (Or.inl h.2.2.2.2.1))
    · exact Or.inr h.2.2.2.2
  cases k with
  | cert =>
    simp only [execute] at h
    generalize hr : (executeRaw (inScope l.md.source sc) t l o cfg).1 = r at h
    cases r with
    | result s' d' => simp [recoverExec] at h; rw [← h.1, ← h.2]; exact key _ s' d' hr
    | nilResult => simp [recoverExec] at h
    | panic m => simp [recoverExec] at h; exact Or.inl (Or.inr (Or.inr h.1.symm))
  | crl => exact key true s d h
  | ocsp => exact key true s d h

theorem frameworkStatus_valid7 (s : Status) (h : frameworkStatus s) : Status.valid7 s = true := by
  rcases h with h | h | h <;> rw [h] <;> decide

end Zl
