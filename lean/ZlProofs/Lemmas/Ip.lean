import ZlModel.Ip
namespace Zl

/-- CIDR containment on numbers: width `w`, base `b`, prefix `p`, address `x` -/
def cont (w b p x : Nat) : Bool := x / 2 ^ (w - p) == b / 2 ^ (w - p)

theorem div_pow_nest (y w p q : Nat) (hqp : q ≤ p) (hpw : p ≤ w) :
    y / 2 ^ (w - q) = y / 2 ^ (w - p) / 2 ^ (p - q) := by
  have hsplit : w - q = (w - p) + (p - q) := by omega
  rw [hsplit, Nat.pow_add, Nat.div_div_eq_div_mul]

/-- agreeing on a longer prefix implies agreeing on a shorter one -/
theorem cont_shorter (w a b p q : Nat) (hqp : q ≤ p) (hpw : p ≤ w) (h : a / 2 ^ (w - p) = b / 2 ^ (w - p)) :
    a / 2 ^ (w - q) = b / 2 ^ (w - q) := by
  rw [div_pow_nest a w p q hqp hpw, div_pow_nest b w p q hqp hpw, h]

/-- two CIDR blocks that share an address are nested: the one with the shorter prefix contains the
    whole of the other -/
theorem nested (w a p b q x : Nat) (hqp : q ≤ p) (hpw : p ≤ w)
    (hxa : cont w a p x = true) (hxb : cont w b q x = true) : ∀ y, cont w a p y = true → cont w b q y = true := by
  intro y hy
  simp only [cont, beq_iff_eq] at *
  have h1 : y / 2 ^ (w - q) = a / 2 ^ (w - q) := cont_shorter w y a p q hqp hpw hy
  have h2 : x / 2 ^ (w - q) = a / 2 ^ (w - q) := cont_shorter w x a p q hqp hpw hxa
  rw [h1, ← h2, hxb]

theorem cont_self (w b p : Nat) : cont w b p b = true := by simp [cont]

/-! ### normal forms -/

theorem Addr.norm_width (a : Addr) : a.norm.width = 32 ∨ a.norm = a := by
  unfold Addr.norm
  cases a.to4 with
  | some v => left; rfl
  | none => right; rfl

theorem Addr.to4_of_32 (v : Nat) : (⟨32, v⟩ : Addr).to4 = some v := by simp [Addr.to4]

theorem Addr.norm_idem (a : Addr) : a.norm.norm = a.norm := by
  unfold Addr.norm
  cases h : a.to4 with
  | some v => simp [Addr.to4_of_32]
  | none => simp [h]

theorem Net.norm_base (n : Net) : n.norm.base = n.base.norm := by
  unfold Net.norm Addr.norm
  cases h : n.base.to4 with
  | some v => simp only []; split <;> rfl
  | none => rfl

/-- `contains` only looks at normal forms -/
theorem Net.contains_eq (n : Net) (x : Addr) :
    n.contains x = (n.norm.base.width == x.norm.width && cont n.norm.base.width n.norm.base.val n.norm.plen x.norm.val) := rfl

theorem Net.contains_norm_arg (n : Net) (x : Addr) : n.contains x.norm = n.contains x := by
  simp only [Net.contains_eq, Addr.norm_idem]

theorem Addr.isGlobalUnicast_norm (a : Addr) : a.norm.isGlobalUnicast = a.isGlobalUnicast := by
  simp only [Addr.isGlobalUnicast, Addr.norm_idem]

theorem isReservedIn_norm (tbl : List Net) (x : Addr) : isReservedIn tbl x.norm = isReservedIn tbl x := by
  simp only [isReservedIn, Addr.isGlobalUnicast_norm, Net.contains_norm_arg]

/-! ### the non-global-unicast classes as CIDR blocks -/

/-- (width, base, prefix) of the address classes `IsGlobalUnicast` excludes:
    255.255.255.255/32, 0.0.0.0/32, 127/8, 224/4, 169.254/16; ::/128, ::1/128, ff00::/8, fe80::/10 -/
def nonGUBlocks : List (Nat × Nat × Nat) :=
  [ (32, 4294967295, 32), (32, 0, 32), (32, 2130706432, 8), (32, 3758096384, 4), (32, 2851995648, 16),
    (128, 0, 128), (128, 1, 128), (128, 338953138925153547590470800371487866880, 8), (128, 338288524927261089654018896841347694592, 10) ]

def inNonGU (w v : Nat) : Bool := nonGUBlocks.any (fun B => B.1 == w && cont B.1 B.2.1 B.2.2 v)

theorem gu32 (v : Nat) : Addr.isGlobalUnicast ⟨32, v⟩ = !(inNonGU 32 v) := by
  simp [Addr.isGlobalUnicast, Addr.norm, Addr.to4, inNonGU, nonGUBlocks, cont, bne, Bool.not_or, Bool.and_assoc]

theorem gu128 (v : Nat) (h : (⟨128, v⟩ : Addr).to4 = none) : Addr.isGlobalUnicast ⟨128, v⟩ = !(inNonGU 128 v) := by
  simp [Addr.isGlobalUnicast, Addr.norm, h, inNonGU, nonGUBlocks, cont, bne, Bool.not_or, Bool.and_assoc]

/-- a normalised address of width 32 or 128 is global unicast iff it lies in none of the blocks -/
theorem gu_norm (x : Addr) (hx : x.norm = x) (hw : x.width = 32 ∨ x.width = 128) :
    x.isGlobalUnicast = !(inNonGU x.width x.val) := by
  obtain ⟨w, v⟩ := x
  simp only at hw
  rcases hw with rfl | rfl
  · exact gu32 v
  · apply gu128
    cases h : (⟨128, v⟩ : Addr).to4 with
    | none => rfl
    | some u => simp [Addr.norm, h] at hx

theorem inNonGU_iff (w v : Nat) : inNonGU w v = true ↔ ∃ B ∈ nonGUBlocks, B.1 = w ∧ cont B.1 B.2.1 B.2.2 v = true := by
  simp only [inNonGU, List.any_eq_true, Bool.and_eq_true, beq_iff_eq]

/-- every block of the list has its prefix within its width -/
theorem nonGUBlocks_wf : ∀ B ∈ nonGUBlocks, B.2.2 ≤ B.1 := by decide

end Zl
