/-
  encoding/json string codec (ZlModel/JsonString.lean): decoding the encoding of any byte string gives the
  sanitised string. Token lemmas, then induction over the encoder.
-/
import ZlModel.JsonString
import ZlProofs.Lemmas.Thresholds
namespace Zl.JsonString
open Zl.Thresholds

theorem lead_size (b size lo hi : Nat) (h : lead b = some (size, lo, hi)) : size = 2 ∨ size = 3 ∨ size = 4 := by
  unfold lead at h
  repeat (split at h <;> try (simp at h; omega))

/-- the width of a valid multi-byte sequence depends only on the sequence itself -/
theorem width_take_append (bs t : List Nat) (h : 2 ≤ width bs) : width (bs.take (width bs) ++ t) = width bs := by
  cases bs with
  | nil => simp [width] at h
  | cons b rest =>
    by_cases hb : b < 0x80
    · have : width (b :: rest) = 1 := by unfold width; simp [hb]
      omega
    · cases hl : lead b with
      | none =>
        have : width (b :: rest) = 1 := by unfold width; simp [hb, hl]
        omega
      | some p =>
        obtain ⟨size, lo, hi⟩ := p
        rcases lead_size b size lo hi hl with rfl | rfl | rfl
        · -- two-byte sequences
          match rest with
          | [] => unfold width at h; simp [hb, hl] at h
          | c1 :: r1 =>
            by_cases hbad : c1 < lo ∨ hi < c1
            · unfold width at h; simp [hb, hl, hbad] at h
            · have hw : width (b :: c1 :: r1) = 2 := by unfold width; simp [hb, hl, hbad]
              rw [hw]
              simp only [List.take_succ_cons, List.take_zero, List.cons_append, List.nil_append]
              unfold width; simp [hb, hl, hbad]
        · match rest with
          | [] => unfold width at h; simp [hb, hl] at h
          | [c1] => unfold width at h; simp [hb, hl] at h
          | c1 :: c2 :: r2 =>
            by_cases hbad : c1 < lo ∨ hi < c1
            · unfold width at h; simp [hb, hl, hbad] at h
            · by_cases hc2 : cont c2 = true
              · have hw : width (b :: c1 :: c2 :: r2) = 3 := by unfold width; simp [hb, hl, hbad, hc2]
                rw [hw]
                simp only [List.take_succ_cons, List.take_zero, List.cons_append, List.nil_append]
                unfold width; simp [hb, hl, hbad, hc2]
              · unfold width at h; simp [hb, hl, hbad, hc2] at h
        · match rest with
          | [] => unfold width at h; simp [hb, hl] at h
          | [c1] => unfold width at h; simp [hb, hl] at h
          | [c1, c2] => unfold width at h; simp [hb, hl] at h
          | c1 :: c2 :: c3 :: r3 =>
            by_cases hbad : c1 < lo ∨ hi < c1
            · unfold width at h; simp [hb, hl, hbad] at h
            · by_cases hc2 : cont c2 = true
              · by_cases hc3 : cont c3 = true
                · have hw : width (b :: c1 :: c2 :: c3 :: r3) = 4 := by unfold width; simp [hb, hl, hbad, hc2, hc3]
                  rw [hw]
                  simp only [List.take_succ_cons, List.take_zero, List.cons_append, List.nil_append]
                  unfold width; simp [hb, hl, hbad, hc2, hc3]
                · unfold width at h; simp [hb, hl, hbad, hc2, hc3] at h
              · unfold width at h; simp [hb, hl, hbad, hc2] at h
end Zl.JsonString

namespace Zl.JsonString
open Zl.Thresholds

theorem hexVal_hexDigit (n : Nat) (h : n < 16) : hexVal (hexDigit n) = some n := by
  have : n = 0 ∨ n = 1 ∨ n = 2 ∨ n = 3 ∨ n = 4 ∨ n = 5 ∨ n = 6 ∨ n = 7 ∨ n = 8 ∨ n = 9 ∨ n = 10 ∨ n = 11 ∨ n = 12 ∨ n = 13 ∨ n = 14 ∨ n = 15 := by omega
  rcases this with rfl | rfl | rfl | rfl | rfl | rfl | rfl | rfl | rfl | rfl | rfl | rfl | rfl | rfl | rfl | rfl <;> decide

theorem getu4_u00 (b : Nat) (h : b < 256) : getu4 0x30 0x30 (hexDigit (b / 16)) (hexDigit (b % 16)) = some b := by
  unfold getu4
  have h0 : hexVal 0x30 = some 0 := by decide
  rw [h0, hexVal_hexDigit (b / 16) (by omega), hexVal_hexDigit (b % 16) (by omega)]
  simp only [Option.some.injEq]
  omega

theorem tok_safe (html : Bool) (b F : Nat) (tail : Bytes) (hs : safe html b = true) (hb : b < 0x80) :
    unquoteBody (F + 1) (b :: tail) = (unquoteBody F tail).map (b :: ·) := by
  unfold safe at hs
  simp only [Bool.and_eq_true, decide_eq_true_eq, bne_iff_ne, ne_eq] at hs
  obtain ⟨⟨⟨h20, h22⟩, h5c⟩, _⟩ := hs
  rw [unquoteBody]; unfold unquoteStep
  have e1 : (b == 0x22) = false := by simpa using h22
  have e2 : ¬ b < 0x20 := by omega
  have e3 : (b == 0x5c) = false := by simpa using h5c
  simp [e1, e2, e3, hb]

theorem tok_esc (F e d : Nat) (tail : Bytes)
    (h : (e = 0x22 ∧ d = 0x22) ∨ (e = 0x5c ∧ d = 0x5c) ∨ (e = 0x62 ∧ d = 8) ∨ (e = 0x66 ∧ d = 12) ∨ (e = 0x6e ∧ d = 10) ∨ (e = 0x72 ∧ d = 13) ∨ (e = 0x74 ∧ d = 9)) :
    unquoteBody (F + 1) (0x5c :: e :: tail) = (unquoteBody F tail).map (d :: ·) := by
  rw [unquoteBody]; unfold unquoteStep
  rcases h with ⟨rfl, rfl⟩ | ⟨rfl, rfl⟩ | ⟨rfl, rfl⟩ | ⟨rfl, rfl⟩ | ⟨rfl, rfl⟩ | ⟨rfl, rfl⟩ | ⟨rfl, rfl⟩ <;> simp

theorem tok_u00 (F b : Nat) (tail : Bytes) (hb : b < 0x80) :
    unquoteBody (F + 1) (u00 b ++ tail) = (unquoteBody F tail).map (b :: ·) := by
  unfold u00
  simp only [List.cons_append, List.nil_append]
  rw [unquoteBody]; unfold unquoteStep
  simp only [getu4_u00 b (by omega)]
  have hns : isSurrogate b = false := by unfold isSurrogate; simp; omega
  have henc : encodeRune b = [b] := by
    unfold encodeRune
    have h1 : ¬ (0xd800 ≤ b) := by omega
    have h2 : ¬ (b > 0x10ffff) := by omega
    simp [h1, h2, hb]
  simp [hns, henc]

theorem tok_fffd (F : Nat) (tail : Bytes) :
    unquoteBody (F + 1) (escFFFD ++ tail) = (unquoteBody F tail).map (replacement ++ ·) := by
  unfold escFFFD
  simp only [List.cons_append, List.nil_append]
  rw [unquoteBody]; unfold unquoteStep
  have hg : getu4 0x66 0x66 0x66 0x64 = some 0xfffd := by decide
  have hns : isSurrogate 0xfffd = false := by decide
  have henc : encodeRune 0xfffd = replacement := by decide
  simp [hg, hns, henc]

theorem tok_2028 (F d : Nat) (tail : Bytes) (hd : d = 0x38 ∨ d = 0x39) :
    unquoteBody (F + 1) ([0x5c, 0x75, 0x32, 0x30, 0x32, d] ++ tail) = (unquoteBody F tail).map ([0xE2, 0x80, 0xA0 + (d - 0x30)] ++ ·) := by
  simp only [List.cons_append, List.nil_append]
  rw [unquoteBody]; unfold unquoteStep
  rcases hd with rfl | rfl
  · have hg : getu4 0x32 0x30 0x32 0x38 = some 0x2028 := by decide
    have hns : isSurrogate 0x2028 = false := by decide
    have henc : encodeRune 0x2028 = [0xE2, 0x80, 0xA8] := by decide
    simp [hg, hns, henc]
  · have hg : getu4 0x32 0x30 0x32 0x39 = some 0x2029 := by decide
    have hns : isSurrogate 0x2029 = false := by decide
    have henc : encodeRune 0x2029 = [0xE2, 0x80, 0xA9] := by decide
    simp [hg, hns, henc]

theorem tok_raw (F : Nat) (b : Nat) (rest tail : Bytes) (hb : ¬ b < 0x80) (hw : 2 ≤ width (b :: rest)) :
    unquoteBody (F + 1) ((b :: rest).take (width (b :: rest)) ++ tail)
      = (unquoteBody F tail).map ((b :: rest).take (width (b :: rest)) ++ ·) := by
  have hwa := width_take_append (b :: rest) tail hw
  have hlen : ((b :: rest).take (width (b :: rest))).length = width (b :: rest) := by
    simp only [List.length_take]; have := Zl.Thresholds.width_le_length (b :: rest); omega
  obtain ⟨w, hwe⟩ : ∃ w, width (b :: rest) = w + 2 := ⟨width (b :: rest) - 2, by omega⟩
  rw [hwe] at hwa hlen ⊢
  simp only [List.take_succ_cons, List.cons_append] at hwa hlen ⊢
  rw [unquoteBody]; unfold unquoteStep
  have e1 : (b == 0x22) = false := by simp; omega
  have e2 : ¬ b < 0x20 := by omega
  have e3 : (b == 0x5c) = false := by simp; omega
  simp only [e1, e2, e3, hb, if_false, Bool.false_eq_true]
  rw [hwa]
  have : ¬ (w + 2 ≤ 1) := by omega
  simp only [this, if_false]
  have hd : List.drop (w + 2) (b :: (List.take (w + 1) rest ++ tail)) = tail := by
    simp only [List.drop_succ_cons]
    have hl1 : (List.take (w + 1) rest).length = w + 1 := by simpa using hlen
    have h := List.drop_left (l₁ := List.take (w + 1) rest) (l₂ := tail)
    rw [hl1] at h; exact h
  have ht : List.take (w + 2) (b :: (List.take (w + 1) rest ++ tail)) = b :: List.take (w + 1) rest := by
    simp only [List.take_succ_cons]
    have hl1 : (List.take (w + 1) rest).length = w + 1 := by simpa using hlen
    have h := List.take_left (l₁ := List.take (w + 1) rest) (l₂ := tail)
    rw [hl1] at h; rw [h]
  rw [hd, ht]
  simp

end Zl.JsonString

namespace Zl.JsonString
open Zl.Thresholds

theorem unquoteBody_close (F : Nat) : unquoteBody (F + 1) [0x22] = some [] := by
  rw [unquoteBody]; unfold unquoteStep; simp

theorem quoteStep_out_pos (html : Bool) (b : Nat) (rest : Bytes) : 1 ≤ (quoteStep html (b :: rest)).1.length := by
  unfold quoteStep
  simp only
  split
  · split
    · simp
    · split
      · simp
      · split
        · simp
        · split
          · simp
          · split
            · simp
            · split
              · simp
              · split
                · simp
                · simp [u00]
  · split
    · simp [escFFFD]
    · rename_i hw
      split
      · simp
      · split
        · simp
        · simp only [List.length_take]
          have := width_le_length (b :: rest)
          omega

/-- The round trip, token by token: decoding the quoted body (with its closing quote) yields the sanitised input. -/
theorem roundtrip_body (html : Bool) : ∀ fuel (bs : Bytes), bs.length ≤ fuel →
    ∀ F, (quoteBody html fuel bs).length + 1 ≤ F →
      unquoteBody F (quoteBody html fuel bs ++ [0x22]) = some (sanitizeFuel fuel bs) := by
  intro fuel
  induction fuel with
  | zero =>
    intro bs hlen F hF
    have : bs = [] := List.length_eq_zero_iff.mp (by omega)
    subst this
    simp only [quoteBody, sanitizeFuel, List.nil_append]
    obtain ⟨F', rfl⟩ : ∃ F', F = F' + 1 := ⟨F - 1, by simp [quoteBody] at hF; omega⟩
    exact unquoteBody_close F'
  | succ n ih =>
    intro bs hlen F hF
    cases bs with
    | nil =>
      simp only [quoteBody, sanitizeFuel, List.nil_append]
      obtain ⟨F', rfl⟩ : ∃ F', F = F' + 1 := ⟨F - 1, by simp [quoteBody] at hF; omega⟩
      exact unquoteBody_close F'
    | cons b rest =>
      have hpos := quoteStep_out_pos html b rest
      simp only [quoteBody] at hF ⊢
      simp only [List.length_append] at hF
      obtain ⟨F', rfl⟩ : ∃ F', F = F' + 1 := ⟨F - 1, by omega⟩
      rw [List.append_assoc]
      -- the continuation after this token
      have cont : ∀ k, k ≥ 1 → (b :: rest).length - k ≤ n → (quoteBody html n ((b :: rest).drop k)).length + 1 ≤ F' →
          unquoteBody F' (quoteBody html n ((b :: rest).drop k) ++ [0x22]) = some (sanitizeFuel n ((b :: rest).drop k)) := by
        intro k _ hk hF'
        exact ih _ (by simp only [List.length_drop]; exact hk) F' hF'
      by_cases hb : b < 0x80
      · -- ASCII
        have hstep : (quoteStep html (b :: rest)).2 = 1 := by
          unfold quoteStep; simp only [hb, if_true]
          repeat (first | rfl | split)
        have hdrop : (b :: rest).drop (quoteStep html (b :: rest)).2 = rest := by rw [hstep]; rfl
        have hsan : sanitizeFuel (n + 1) (b :: rest) = b :: sanitizeFuel n rest := by simp [sanitizeFuel, hb]
        rw [hdrop] at hF ⊢
        rw [hsan]
        have hlen' : rest.length ≤ n := by simp only [List.length_cons] at hlen; omega
        have hrec : ∀ out, (quoteStep html (b :: rest)).1 = out →
            unquoteBody (F' + 1) (out ++ (quoteBody html n rest ++ [0x22])) = (unquoteBody F' (quoteBody html n rest ++ [0x22])).map (b :: ·) →
            unquoteBody (F' + 1) ((quoteStep html (b :: rest)).1 ++ (quoteBody html n rest ++ [0x22])) = some (b :: sanitizeFuel n rest) := by
          intro out ho htok
          rw [ho, htok, ih rest hlen' F' (by rw [ho] at hF hpos; omega)]
          rfl
        unfold quoteStep at hrec hF hpos ⊢
        simp only [hb, if_true] at hrec hF hpos ⊢
        by_cases hsafe : safe html b = true
        · simp only [hsafe, if_true] at hrec hF hpos ⊢
          exact hrec [b] rfl (tok_safe html b F' _ hsafe hb)
        · simp only [hsafe] at hrec hF hpos ⊢
          by_cases h1 : (b == 0x5c || b == 0x22) = true
          · simp only [h1, if_true] at hrec hF hpos ⊢
            have : b = 0x5c ∨ b = 0x22 := by simpa using h1
            exact hrec _ rfl (tok_esc F' b b _ (by rcases this with rfl | rfl <;> simp))
          · simp only [h1] at hrec hF hpos ⊢
            by_cases h2 : (b == 8) = true
            · have : b = 8 := by simpa using h2
              subst this; simp only [beq_self_eq_true, if_true] at hrec hF hpos ⊢
              exact hrec _ rfl (tok_esc F' 0x62 8 _ (by simp))
            · simp only [h2] at hrec hF hpos ⊢
              by_cases h3 : (b == 12) = true
              · have : b = 12 := by simpa using h3
                subst this; simp only [beq_self_eq_true, if_true] at hrec hF hpos ⊢
                exact hrec _ rfl (tok_esc F' 0x66 12 _ (by simp))
              · simp only [h3] at hrec hF hpos ⊢
                by_cases h4 : (b == 10) = true
                · have : b = 10 := by simpa using h4
                  subst this; simp only [beq_self_eq_true, if_true] at hrec hF hpos ⊢
                  exact hrec _ rfl (tok_esc F' 0x6e 10 _ (by simp))
                · simp only [h4] at hrec hF hpos ⊢
                  by_cases h5 : (b == 13) = true
                  · have : b = 13 := by simpa using h5
                    subst this; simp only [beq_self_eq_true, if_true] at hrec hF hpos ⊢
                    exact hrec _ rfl (tok_esc F' 0x72 13 _ (by simp))
                  · simp only [h5] at hrec hF hpos ⊢
                    by_cases h6 : (b == 9) = true
                    · have : b = 9 := by simpa using h6
                      subst this; simp only [beq_self_eq_true, if_true] at hrec hF hpos ⊢
                      exact hrec _ rfl (tok_esc F' 0x74 9 _ (by simp))
                    · simp only [h6] at hrec hF hpos ⊢
                      exact hrec _ rfl (tok_u00 F' b _ hb)
      · -- a byte above 0x7F
        have hlen' : ∀ k, 1 ≤ k → ((b :: rest).drop k).length ≤ n := by
          intro k hk; simp only [List.length_drop, List.length_cons] at hlen ⊢; omega
        unfold quoteStep at hF hpos ⊢
        simp only [hb, if_false] at hF hpos ⊢
        by_cases hw : width (b :: rest) ≤ 1
        · simp only [hw, if_true] at hF hpos ⊢
          have hsan : sanitizeFuel (n + 1) (b :: rest) = replacement ++ sanitizeFuel n rest := by simp [sanitizeFuel, hb, hw]
          rw [hsan, tok_fffd]
          have : List.drop 1 (b :: rest) = rest := rfl
          rw [this] at hF ⊢
          rw [ih rest (by simp only [List.length_cons] at hlen; omega) F' (by simp [escFFFD] at hF; omega)]
          rfl
        · simp only [hw, if_false] at hF hpos ⊢
          have hw2 : 2 ≤ width (b :: rest) := by omega
          have hsan : sanitizeFuel (n + 1) (b :: rest) =
              (b :: rest).take (width (b :: rest)) ++ sanitizeFuel n ((b :: rest).drop (width (b :: rest))) := by
            simp [sanitizeFuel, hb, hw]
          rw [hsan]
          by_cases h28 : ((b :: rest).take (width (b :: rest)) == [0xE2, 0x80, 0xA8]) = true
          · simp only [h28, if_true] at hF hpos ⊢
            have e : (b :: rest).take (width (b :: rest)) = [0xE2, 0x80, 0xA8] := by simpa using h28
            rw [e]
            have := tok_2028 F' 0x38 (quoteBody html n (List.drop (width (b :: rest)) (b :: rest)) ++ [0x22]) (Or.inl rfl)
            simp only [List.cons_append, List.nil_append] at this ⊢
            rw [this, ih _ (hlen' _ (by omega)) F' (by simp at hF; omega)]
            rfl
          · have h28f : ((b :: rest).take (width (b :: rest)) == [0xE2, 0x80, 0xA8]) = false := by simpa using h28
            simp only [h28f, Bool.false_eq_true, if_false] at hF hpos ⊢
            by_cases h29 : ((b :: rest).take (width (b :: rest)) == [0xE2, 0x80, 0xA9]) = true
            · simp only [h29, if_true] at hF hpos ⊢
              have e : (b :: rest).take (width (b :: rest)) = [0xE2, 0x80, 0xA9] := by simpa using h29
              rw [e]
              have := tok_2028 F' 0x39 (quoteBody html n (List.drop (width (b :: rest)) (b :: rest)) ++ [0x22]) (Or.inr rfl)
              simp only [List.cons_append, List.nil_append] at this ⊢
              rw [this, ih _ (hlen' _ (by omega)) F' (by simp at hF; omega)]
              rfl
            · have h29f : ((b :: rest).take (width (b :: rest)) == [0xE2, 0x80, 0xA9]) = false := by simpa using h29
              simp only [h29f, Bool.false_eq_true, if_false] at hF hpos ⊢
              rw [tok_raw F' b rest _ hb hw2, ih _ (hlen' _ (by omega)) F' (by omega)]
              rfl

end Zl.JsonString

namespace Zl.JsonString

/-- **JSON string round trip.** For every byte string and either escaping mode, decoding the encoding gives the
    sanitised string: exactly the input, with each byte that does not begin a valid UTF-8 sequence replaced by U+FFFD. -/
theorem unquote_quote (html : Bool) (bs : Bytes) : unquote (quote html bs) = some (sanitize bs) := by
  unfold unquote quote sanitize
  simp only
  exact roundtrip_body html bs.length bs (Nat.le_refl _) _ (by simp)

end Zl.JsonString
