/-
  Facts about `Names.splitDot` (the model of `strings.Split(s, ".")`): labels contain no dot, joining them
  with dots gives the string back, and there is one more label than there are dots.
-/
import ZlModel.Names
namespace Zl.Names

theorem splitDot_ne_nil (s : Bytes) : splitDot s ≠ [] := by
  induction s with
  | nil => simp [splitDot]
  | cons c cs ih =>
    unfold splitDot
    cases h : splitDot cs with
    | nil => simp
    | cons l ls => by_cases hc : (c == 46) = true <;> simp [hc]

theorem splitDot_no_dot (s : Bytes) : ∀ l ∈ splitDot s, 46 ∉ l := by
  induction s with
  | nil => simp [splitDot]
  | cons c cs ih =>
    unfold splitDot
    cases h : splitDot cs with
    | nil => exact absurd h (splitDot_ne_nil cs)
    | cons l ls =>
      rw [h] at ih
      by_cases hc : (c == 46) = true
      · simp only [hc, if_true]
        intro x hx
        rcases List.mem_cons.mp hx with rfl | hx
        · simp
        · exact ih x hx
      · simp only [hc]
        intro x hx
        rcases List.mem_cons.mp hx with rfl | hx
        · have hl := ih l (by simp)
          have : c ≠ 46 := by simpa using hc
          simp [hl, this.symm]
        · exact ih x (by simp [hx])

/-- `strings.Join(labels, ".")` -/
def joinDot : List Bytes → Bytes
  | [] => []
  | [l] => l
  | l :: l' :: ls => l ++ 46 :: joinDot (l' :: ls)

theorem joinDot_splitDot (s : Bytes) : joinDot (splitDot s) = s := by
  induction s with
  | nil => simp [splitDot, joinDot]
  | cons c cs ih =>
    unfold splitDot
    cases h : splitDot cs with
    | nil => exact absurd h (splitDot_ne_nil cs)
    | cons l ls =>
      rw [h] at ih
      by_cases hc : (c == 46) = true
      · have : c = 46 := by simpa using hc
        subst this
        simp only [beq_self_eq_true, if_true, joinDot, List.nil_append, ih]
      · have hf : (c == 46) = false := by simpa using hc
        simp only [hf]
        cases ls with
        | nil => simp [joinDot] at ih ⊢; exact ih
        | cons l' ls' => simp [joinDot] at ih ⊢; exact ih

theorem splitDot_length (s : Bytes) : (splitDot s).length = s.count 46 + 1 := by
  induction s with
  | nil => simp [splitDot]
  | cons c cs ih =>
    unfold splitDot
    cases h : splitDot cs with
    | nil => exact absurd h (splitDot_ne_nil cs)
    | cons l ls =>
      rw [h] at ih
      by_cases hc : (c == 46) = true
      · have : c = 46 := by simpa using hc
        subst this
        simp only [beq_self_eq_true, if_true, List.length_cons, List.count_cons_self] at ih ⊢
        omega
      · have hne : c ≠ 46 := by simpa using hc
        have hf : (c == 46) = false := by simpa using hc
        simp only [hf, List.length_cons] at ih ⊢
        rw [List.count_cons_of_ne (by simpa using hne)]
        simpa using ih

end Zl.Names
