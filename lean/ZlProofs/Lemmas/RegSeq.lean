import ZlModel.RegSeq
import ZlProofs.Lemmas.Filter
namespace Zl.RegSeq
open Zl

theorem register_cfg {α Cfg : Type} (r r' : Registry α Cfg) (k : Kind) (e : Entry α) (h : r.register k e = .ok r') : r'.cfg = r.cfg := by
  unfold Registry.register at h
  split at h
  · injection h with h; rw [← h]; exact setLookup_cfg _ _ _
  · cases h

theorem filterLoop_cfg {α Cfg : Type} (r : Registry α Cfg) (sel : String → String → Bool) :
    ∀ (ns : List String) (acc acc' : Registry α Cfg), filterLoop r sel ns acc = .ok acc' → acc'.cfg = acc.cfg := by
  intro ns
  induction ns with
  | nil => intro acc acc' h; simp [filterLoop] at h; rw [← h]
  | cons n rest ih =>
    intro acc acc' h
    unfold filterLoop at h
    split at h
    · exact ih _ _ h
    · split at h
      · split at h
        · rename_i acc1 hreg
          rw [ih _ _ h, register_cfg _ _ _ _ hreg]
        · cases h
      · exact ih _ _ h

theorem filter_cfg {α Cfg : Type} (r r' : Registry α Cfg) (o : FilterOptions) (h : filter r o = .ok r') : r'.cfg = r.cfg := by
  unfold filter at h
  split at h
  · injection h with h; rw [← h]
  · split at h
    · cases h
    · split at h
      · cases h
      · split at h
        · cases h
        · have := filterLoop_cfg r _ _ _ _ h
          exact this

/-- reads never change the heap -/
theorem reads_pure (hp : Heap) (h : Nat) :
    (step hp (.getCfg h)).1 = hp ∧ (step hp (.names h)).1 = hp ∧ (step hp (.sources h)).1 = hp ∧ (step hp (.listing h)).1 = hp := by
  simp [step]

/-- `SetConfiguration` on one registry object leaves every other registry object as it was -/
theorem setCfg_frame (hp : Heap) (h : Nat) (tag : String) (j : Nat) (hj : hp.handles[h]? ≠ some j) :
    (step hp (.setCfg h tag)).1.regs[j]? = hp.regs[j]? := by
  cases hr : hp.regOf h with
  | none => simp [step, hr]
  | some p =>
    obtain ⟨i, r⟩ := p
    simp only [step, hr]
    have hi : hp.handles[h]? = some i := by
      unfold Heap.regOf at hr
      cases hh : hp.handles[h]? with
      | none => simp [hh] at hr
      | some i' =>
        simp only [hh] at hr
        cases hreg : hp.regs[i']? with
        | none => simp [hreg] at hr
        | some r0 => simp [hreg] at hr; rw [hr.1]
    have hne : i ≠ j := by intro e; rw [e] at hi; exact hj hi
    simp [Heap.setReg, List.getElem?_set, hne]

/-- a successful `Filter` with non-empty options allocates a new registry object that carries the configuration
    its source has at that moment, and leaves every existing registry object untouched -/
theorem filter_allocates (hp : Heap) (h i : Nat) (r r' : Reg) (o : FilterOptions)
    (hr : hp.regOf h = some (i, r)) (hf : filter r o = .ok r') (hne : o.empty = false) :
    let hp' := (step hp (.filter h o)).1
    hp'.regs = hp.regs ++ [r'] ∧ hp'.handles = hp.handles ++ [hp.regs.length] ∧ r'.cfg = r.cfg := by
  simp only [step, hr, hf, hne]
  exact ⟨rfl, rfl, filter_cfg r r' o hf⟩

/-- so a later `SetConfiguration` on the source does not reach the filtered registry (and vice versa): no leak -/
theorem no_leak_after_filter (hp : Heap) (h i : Nat) (r r' : Reg) (o : FilterOptions) (tag : String)
    (hr : hp.regOf h = some (i, r)) (hf : filter r o = .ok r') (hne : o.empty = false) (hi : i < hp.regs.length) :
    let hp1 := (step hp (.filter h o)).1
    let hp2 := (step hp1 (.setCfg h tag)).1
    hp2.regs[hp.regs.length]? = some r' := by
  intro hp1 hp2
  have ha := filter_allocates hp h i r r' o hr hf hne
  simp only at ha
  have hh : hp.handles[h]? = some i := by
    unfold Heap.regOf at hr
    cases hh : hp.handles[h]? with
    | none => simp [hh] at hr
    | some i' =>
      simp only [hh] at hr
      cases hreg : hp.regs[i']? with
      | none => simp [hreg] at hr
      | some r0 => simp [hreg] at hr; rw [hr.1]
  have hh1 : hp1.handles[h]? = some i := by
    show (step hp (.filter h o)).1.handles[h]? = some i
    rw [ha.2.1]
    have hlt : h < hp.handles.length := by
      cases hx : hp.handles[h]? with
      | none => rw [hx] at hh; cases hh
      | some _ => exact (List.getElem?_eq_some_iff.mp hx).1
    rw [List.getElem?_append_left hlt]; exact hh
  have := setCfg_frame hp1 h tag hp.regs.length (by rw [hh1]; intro e; injection e with e; omega)
  show (step hp1 (.setCfg h tag)).1.regs[hp.regs.length]? = some r'
  rw [this]
  show (step hp (.filter h o)).1.regs[hp.regs.length]? = some r'
  rw [ha.1]; simp

end Zl.RegSeq
