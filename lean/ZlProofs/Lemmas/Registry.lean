import ZlModel.Registry
namespace Zl

/-! ## association lists -/

theorem assocGet_cons {β : Type} (m : List (String × β)) (k k' : String) (v : β) :
    assocGet ((k', v) :: m) k = if k' == k then some v else assocGet m k := by
  unfold assocGet
  simp only [List.find?_cons]
  split <;> simp_all

theorem assocGet_nil {β : Type} (k : String) : assocGet ([] : List (String × β)) k = none := rfl

theorem assocGet_append_single {β : Type} (m : List (String × β)) (k k' : String) (v : β) :
    assocGet (m ++ [(k', v)]) k = match assocGet m k with
      | some x => some x
      | none => if k' == k then some v else none := by
  induction m with
  | nil => simp [assocGet_cons, assocGet_nil]
  | cons p m ih =>
    obtain ⟨pk, pv⟩ := p
    simp only [List.cons_append, assocGet_cons]
    split
    · rfl
    · exact ih

theorem assocGet_map_update {β : Type} (m : List (String × List β)) (k k' : String) (v : β) :
    assocGet (m.map (fun p => if p.1 == k' then (p.1, p.2 ++ [v]) else p)) k =
      (assocGet m k).map (fun l => if k == k' then l ++ [v] else l) := by
  induction m with
  | nil => rfl
  | cons p m ih =>
    obtain ⟨pk, pv⟩ := p
    rw [List.map_cons]
    by_cases hk : pk = k'
    · subst hk
      simp only [beq_self_eq_true, ↓reduceIte, assocGet_cons]
      by_cases hpk : pk = k
      · subst hpk; simp
      · have : (pk == k) = false := by simpa using hpk
        have h2 : (k == pk) = false := by simpa using (fun h => hpk h.symm)
        simp only [this, Bool.false_eq_true, ↓reduceIte]
        rw [ih]
    · have hk' : (pk == k') = false := by simpa using hk
      simp only [hk', Bool.false_eq_true, ↓reduceIte, assocGet_cons]
      by_cases hpk : pk = k
      · subst hpk
        simp [hk']
      · have : (pk == k) = false := by simpa using hpk
        simp only [this, Bool.false_eq_true, ↓reduceIte]; exact ih

theorem assocGet_isSome_iff_any {β : Type} (m : List (String × β)) (k : String) :
    (assocGet m k).isSome = m.any (fun p => p.1 == k) := by
  induction m with
  | nil => rfl
  | cons p m ih =>
    obtain ⟨pk, pv⟩ := p
    simp only [assocGet_cons, List.any_cons]
    by_cases h : pk == k <;> simp [h, ih]

/-- `bySource` after one more registration -/
theorem assocAppend_get {β : Type} (m : List (String × List β)) (k k' : String) (v : β) :
    (assocGet (assocAppend m k' v) k).getD [] = (assocGet m k).getD [] ++ (if k == k' then [v] else []) := by
  unfold assocAppend
  split
  · rename_i hany
    rw [assocGet_map_update]
    by_cases hk : k == k'
    · have hk' : k = k' := by simpa using hk
      subst hk'
      have : (assocGet m k).isSome = true := by rw [assocGet_isSome_iff_any]; exact hany
      obtain ⟨l, hl⟩ := Option.isSome_iff_exists.mp this
      simp [hl]
    · simp only [hk, Bool.false_eq_true, ↓reduceIte, List.append_nil]
      cases assocGet m k <;> simp
  · rename_i hany
    rw [assocGet_append_single]
    by_cases hk : k == k'
    · have hk' : k = k' := by simpa using hk
      subst hk'
      have : (assocGet m k).isSome = false := by rw [assocGet_isSome_iff_any]; exact Bool.eq_false_iff.mpr hany
      have hn : assocGet m k = none := by simpa using this
      simp [hn]
    · have hk2 : (k' == k) = false := by
        cases h : k' == k with
        | false => rfl
        | true => simp_all
      cases hm : assocGet m k <;> simp [hk, hk2]

/-! ## the per-kind lookup invariant -/

/-- entries the registration functions accept -/
def Entry.valid {α : Type} (e : Entry α) : Prop := e.ctorNil = false ∧ e.instNil = false ∧ e.md.name ≠ ""

/-- mutual consistency of the tables of one lookup (what C12 calls "lookup by name, lookup by source,
    the full listing and the source list agree with each other") -/
structure LInv {α : Type} (lk : Lookup α) : Prop where
  namesPerm : lk.names.Perm (lk.lints.map (·.md.name))
  nodup : (lk.lints.map (·.md.name)).Nodup
  byName : ∀ n, lk.byNameGet n = lk.lints.find? (fun e => e.md.name == n)
  bySource : ∀ s, lk.bySourceGet s = lk.lints.filter (fun e => e.md.source == s)
  sources : ∀ s, s ∈ lk.sources ↔ ∃ e ∈ lk.lints, e.md.source = s
  valid : ∀ e ∈ lk.lints, e.valid

theorem LInv.empty {α : Type} : LInv ({} : Lookup α) := by
  refine ⟨List.Perm.refl _, List.nodup_nil, ?_, ?_, ?_, ?_⟩
  · intro n; rfl
  · intro s; rfl
  · intro s; simp
  · intro e he; cases he

theorem sortStrings_perm (l : List String) : (sortStrings l).Perm l := List.mergeSort_perm _ _

theorem find?_append_single {α : Type} (l : List α) (a : α) (p : α → Bool) :
    (l ++ [a]).find? p = match l.find? p with | some x => some x | none => if p a then some a else none := by
  induction l with
  | nil => simp only [List.nil_append, List.find?_cons, List.find?_nil]; cases p a <;> rfl
  | cons b l ih =>
    simp only [List.cons_append, List.find?_cons]
    split
    · rfl
    · exact ih

/-- a name is registered iff `byNameGet` answers -/
theorem LInv.byName_isSome {α : Type} {lk : Lookup α} (h : LInv lk) (n : String) :
    (lk.byNameGet n).isSome = true ↔ n ∈ lk.lints.map (·.md.name) := by
  rw [h.byName, List.find?_isSome]
  constructor
  · rintro ⟨e, he, hn⟩; exact List.mem_map.mpr ⟨e, he, by simpa using hn⟩
  · intro hm; obtain ⟨e, he, hn⟩ := List.mem_map.mp hm; exact ⟨e, he, by simpa using hn⟩

theorem LInv.byName_some {α : Type} {lk : Lookup α} (h : LInv lk) (n : String) (e : Entry α) :
    lk.byNameGet n = some e ↔ e ∈ lk.lints ∧ e.md.name = n := by
  rw [h.byName]
  constructor
  · intro hf
    exact ⟨List.mem_of_find?_eq_some hf, by simpa using List.find?_some hf⟩
  · rintro ⟨he, hn⟩
    -- uniqueness of names makes the first match the only match
    have hnd := h.nodup
    clear h
    generalize lk.lints = ls at *
    induction ls with
    | nil => cases he
    | cons a l ih =>
      simp only [List.find?_cons]
      rcases List.mem_cons.mp he with rfl | hl
      · simp [hn]
      · have hne : a.md.name ≠ n := by
          intro heq
          have : a.md.name ∈ l.map (·.md.name) := List.mem_map.mpr ⟨e, hl, by rw [hn, heq]⟩
          exact (List.nodup_cons.mp hnd).1 this
        have hne' : (a.md.name == n) = false := by simpa using hne
        rw [hne']
        exact ih hl (List.nodup_cons.mp hnd).2

/-- **register preserves the invariant** and appends exactly the new lint; any rejected
    registration leaves the state unchanged (it returns no state at all). -/
theorem register_inv {α : Type} (lk lk' : Lookup α) (e : Entry α) (h : LInv lk)
    (hr : lk.register e = .ok lk') : LInv lk' ∧ lk'.lints = lk.lints ++ [e] ∧ e.valid ∧ e.md.name ∉ lk.lints.map (·.md.name) := by
  unfold Lookup.register at hr
  split at hr
  · cases hr
  · rename_i h1
    split at hr
    · cases hr
    · rename_i h2
      split at hr
      · cases hr
      · rename_i h3
        split at hr
        · cases hr
        · rename_i h4
          have hfresh : e.md.name ∉ lk.lints.map (·.md.name) := by
            intro hm
            exact h4 ((h.byName_isSome _).mpr hm)
          have hvalid : e.valid := ⟨by simpa using h1, by simpa using h2, by simpa using h3⟩
          cases hr
          refine ⟨⟨?_, ?_, ?_, ?_, ?_, ?_⟩, rfl, hvalid, hfresh⟩
          · simp only [List.map_append, List.map_cons, List.map_nil]
            exact (sortStrings_perm _).trans (List.Perm.append_right _ h.namesPerm)
          · simp only [List.map_append, List.map_cons, List.map_nil]
            refine List.nodup_append.mpr ⟨h.nodup, by simp, ?_⟩
            intro a ha b hb
            simp only [List.mem_singleton] at hb
            subst hb
            intro hab; subst hab; exact hfresh ha
          · intro n
            simp only [Lookup.byNameGet, assocGet_cons, find?_append_single]
            have := h.byName n
            simp only [Lookup.byNameGet] at this
            by_cases hn : e.md.name == n
            · have hn' : e.md.name = n := by simpa using hn
              have hnone : lk.lints.find? (fun e => e.md.name == n) = none := by
                rw [List.find?_eq_none]
                intro x hx hxn
                exact hfresh (List.mem_map.mpr ⟨x, hx, by rw [hn']; simpa using hxn⟩)
              simp [hn, hnone]
            · simp only [hn, Bool.false_eq_true, ↓reduceIte, this]
              cases lk.lints.find? (fun e => e.md.name == n) <;> simp
          · intro s
            simp only [Lookup.bySourceGet]
            rw [assocAppend_get]
            have := h.bySource s
            simp only [Lookup.bySourceGet] at this
            rw [this, List.filter_append]
            congr 1
            by_cases hs : s == e.md.source
            · have : (e.md.source == s) = true := by simp_all
              simp [hs, this]
            · have : (e.md.source == s) = false := by
                cases h' : e.md.source == s with
                | false => rfl
                | true => simp_all
              simp [hs, this]
          · intro s
            by_cases hc : lk.sources.contains e.md.source = true
            · simp only [hc, ↓reduceIte, h.sources s, List.mem_append, List.mem_singleton]
              constructor
              · rintro ⟨x, hx, hs⟩; exact ⟨x, Or.inl hx, hs⟩
              · rintro ⟨x, hx | hx, hs⟩
                · exact ⟨x, hx, hs⟩
                · rw [hx] at hs
                  have : e.md.source ∈ lk.sources := by simpa using hc
                  rw [h.sources] at this
                  rw [← hs]; exact this
            · simp only [hc, Bool.false_eq_true, ↓reduceIte, List.mem_append, List.mem_singleton, h.sources s]
              constructor
              · rintro (⟨x, hx, hs⟩ | hs)
                · exact ⟨x, Or.inl hx, hs⟩
                · exact ⟨e, Or.inr rfl, hs.symm⟩
              · rintro ⟨x, hx | hx, hs⟩
                · exact Or.inl ⟨x, hx, hs⟩
                · rw [hx] at hs; exact Or.inr hs.symm
          · intro x hx
            rcases List.mem_append.mp hx with hx | hx
            · exact h.valid x hx
            · simp only [List.mem_singleton] at hx; subst hx; exact hvalid

/-- exact characterisation of the four rejections -/
theorem register_error_iff {α : Type} (lk : Lookup α) (e : Entry α) (h : LInv lk) :
    (∃ err, lk.register e = .error err) ↔ ¬ e.valid ∨ e.md.name ∈ lk.lints.map (·.md.name) := by
  unfold Lookup.register Entry.valid
  by_cases h1 : e.ctorNil = true
  · simp [h1]
  · by_cases h2 : e.instNil = true
    · simp [h1, h2]
    · by_cases h3 : e.md.name = ""
      · simp [h1, h2, h3]
      · have h1' : e.ctorNil = false := by simpa using h1
        have h2' : e.instNil = false := by simpa using h2
        simp only [h1', h2', Bool.false_eq_true, ↓reduceIte, beq_iff_eq, h3, ne_eq, not_false_eq_true, and_self, not_true_eq_false, false_or]
        by_cases h4 : (lk.byNameGet e.md.name).isSome = true
        · simp only [h4, ↓reduceIte]
          exact ⟨fun _ => (h.byName_isSome _).mp h4, fun _ => ⟨_, rfl⟩⟩
        · simp only [h4, Bool.false_eq_true, ↓reduceIte]
          constructor
          · rintro ⟨err, herr⟩; cases herr
          · intro hm; exact absurd ((h.byName_isSome _).mpr hm) h4

end Zl
