import ZlProofs.Lemmas.Framework
namespace Zl

/-! Fold invariants of the result-set loop. -/

theorem updateFlags_results (rs : ResultSet) (s : Status) : (updateFlags rs s).results = rs.results := by
  unfold updateFlags; split <;> (try split) <;> (try split) <;> (try split) <;> rfl

theorem updateFlags_version (rs : ResultSet) (s : Status) : (updateFlags rs s).version = rs.version := by
  unfold updateFlags; split <;> (try split) <;> (try split) <;> (try split) <;> rfl

theorem updateFlags_notices (rs : ResultSet) (s : Status) :
    (updateFlags rs s).notices = (rs.notices || s == Status.notice) := by
  unfold updateFlags Status.notice Status.warn Status.error Status.fatal
  split <;> (try split) <;> (try split) <;> (try split) <;> simp_all <;> omega

theorem updateFlags_warnings (rs : ResultSet) (s : Status) :
    (updateFlags rs s).warnings = (rs.warnings || s == Status.warn) := by
  unfold updateFlags Status.notice Status.warn Status.error Status.fatal
  split <;> (try split) <;> (try split) <;> (try split) <;> simp_all <;> omega

theorem updateFlags_errors (rs : ResultSet) (s : Status) :
    (updateFlags rs s).errors = (rs.errors || s == Status.error) := by
  unfold updateFlags Status.notice Status.warn Status.error Status.fatal
  split <;> (try split) <;> (try split) <;> (try split) <;> simp_all <;> omega

theorem updateFlags_fatals (rs : ResultSet) (s : Status) :
    (updateFlags rs s).fatals = (rs.fatals || s == Status.fatal) := by
  unfold updateFlags Status.notice Status.warn Status.error Status.fatal
  split <;> (try split) <;> (try split) <;> (try split) <;> simp_all <;> omega

theorem mapInsert_fresh {β : Type} (m : List (String × β)) (k : String) (v : β)
    (h : k ∉ m.map (·.1)) : mapInsert m k v = (k, v) :: m := by
  unfold mapInsert
  congr 1
  apply List.filter_eq_self.mpr
  intro p hp
  simp only [bne_iff_ne, ne_eq]
  intro heq
  exact h (List.mem_map.mpr ⟨p, hp, heq⟩)

/-- flags agree with contents -/
structure FlagsOK (rs : ResultSet) : Prop where
  notices : rs.notices = true ↔ ∃ p ∈ rs.results, p.2.status = Status.notice
  warnings : rs.warnings = true ↔ ∃ p ∈ rs.results, p.2.status = Status.warn
  errors : rs.errors = true ↔ ∃ p ∈ rs.results, p.2.status = Status.error
  fatals : rs.fatals = true ↔ ∃ p ∈ rs.results, p.2.status = Status.fatal

/-- state of the loop after the lints `done` (in order) have been processed -/
structure Good {Obj Cfg : Type} (ex : Lint Obj Cfg → Exec) (done : List (Lint Obj Cfg)) (rs : ResultSet) : Prop where
  keys : rs.results.map (·.1) = (done.map (·.md.name)).reverse
  flags : FlagsOK rs
  entries : ∀ l ∈ done, ∃ s d, ex l = .result s d ∧ (l.md.name, (⟨s, d, l.md⟩ : Result)) ∈ rs.results
  only : ∀ p ∈ rs.results, ∃ l ∈ done, ∃ s d, ex l = .result s d ∧ p = (l.md.name, (⟨s, d, l.md⟩ : Result))

/-- the loop body with the per-lint outcome abstracted -/
def stepWith {Obj Cfg : Type} (ex : Lint Obj Cfg → Exec) (acc : Run) (l : Lint Obj Cfg) : Run :=
  match acc with
  | .panicked m => .panicked m
  | .returned rs =>
    match ex l with
    | .panic m => .panicked m
    | .nilResult => .panicked "nil pointer dereference"
    | .result s d =>
      .returned (updateFlags { rs with results := mapInsert rs.results l.md.name ⟨s, d, l.md⟩ } s)

theorem stepRun_eq_stepWith {Obj Cfg : Type} (k : Kind) (sc : Scope) (t : Time) (o : Obj) (cfg : Cfg) :
    stepRun k sc t o cfg = stepWith (fun l : Lint Obj Cfg => (execute k sc t l o cfg).1) := by
  funext acc l; cases acc <;> rfl

theorem foldl_panicked {Obj Cfg : Type} (ex : Lint Obj Cfg → Exec) (ls : List (Lint Obj Cfg)) (m : String) :
    ls.foldl (stepWith ex) (.panicked m) = .panicked m := by
  induction ls with
  | nil => rfl
  | cons l ls ih => simpa [List.foldl, stepWith] using ih

theorem good_step {Obj Cfg : Type} (ex : Lint Obj Cfg → Exec) (done : List (Lint Obj Cfg)) (rs : ResultSet)
    (l : Lint Obj Cfg) (hg : Good ex done rs) (hfresh : l.md.name ∉ done.map (·.md.name))
    (s : Status) (d : String) (he : ex l = .result s d) :
    Good ex (done ++ [l]) (updateFlags { rs with results := mapInsert rs.results l.md.name ⟨s, d, l.md⟩ } s) := by
  have hk : l.md.name ∉ rs.results.map (·.1) := by
    rw [hg.keys]; simpa using hfresh
  have hres : (updateFlags { rs with results := mapInsert rs.results l.md.name ⟨s, d, l.md⟩ } s).results
      = (l.md.name, ⟨s, d, l.md⟩) :: rs.results := by
    rw [updateFlags_results]; exact mapInsert_fresh _ _ _ hk
  have flag : ∀ (c : Status) (b : Bool), (b = true ↔ ∃ p ∈ rs.results, p.2.status = c) →
      ((b || s == c) = true ↔ ∃ p ∈ (l.md.name, (⟨s, d, l.md⟩ : Result)) :: rs.results, p.2.status = c) := by
    intro c b hb
    simp only [Bool.or_eq_true, beq_iff_eq, List.mem_cons, exists_eq_or_imp, hb]
    exact Or.comm
  refine ⟨?_, ⟨?_, ?_, ?_, ?_⟩, ?_, ?_⟩
  · rw [hres]; simp [hg.keys]
  · rw [updateFlags_notices, hres]; exact flag _ _ hg.flags.notices
  · rw [updateFlags_warnings, hres]; exact flag _ _ hg.flags.warnings
  · rw [updateFlags_errors, hres]; exact flag _ _ hg.flags.errors
  · rw [updateFlags_fatals, hres]; exact flag _ _ hg.flags.fatals
  · intro l' hl'
    rw [hres]
    rcases List.mem_append.mp hl' with h | h
    · obtain ⟨s', d', h1, h2⟩ := hg.entries l' h
      exact ⟨s', d', h1, List.mem_cons_of_mem _ h2⟩
    · simp only [List.mem_singleton] at h; subst h
      exact ⟨s, d, he, List.mem_cons_self⟩
  · intro p hp
    rw [hres] at hp
    rcases List.mem_cons.mp hp with h | h
    · exact ⟨l, by simp, s, d, he, h⟩
    · obtain ⟨l', hl', s', d', h1, h2⟩ := hg.only p h
      exact ⟨l', by simp [hl'], s', d', h1, h2⟩

/-- Main fold invariant: if the loop returns, the result set is `Good` for all lints. -/
theorem fold_good {Obj Cfg : Type} (ex : Lint Obj Cfg → Exec) :
    ∀ (ls done : List (Lint Obj Cfg)) (rs : ResultSet), Good ex done rs →
      ((done ++ ls).map (·.md.name)).Nodup →
      ∀ rs', ls.foldl (stepWith ex) (.returned rs) = .returned rs' → Good ex (done ++ ls) rs' := by
  intro ls
  induction ls with
  | nil => intro done rs hg _ rs' h; simp [List.foldl] at h; subst h; simpa using hg
  | cons l ls ih =>
    intro done rs hg hnd rs' h
    have hfresh : l.md.name ∉ done.map (·.md.name) := by
      simp only [List.map_append, List.map_cons] at hnd
      have := (List.nodup_append.mp hnd).2.2
      intro hmem
      exact this _ hmem _ List.mem_cons_self rfl
    simp only [List.foldl] at h
    cases he : ex l with
    | panic m => simp [stepWith, he, foldl_panicked] at h
    | nilResult => simp [stepWith, he, foldl_panicked] at h
    | result s d =>
      simp only [stepWith, he] at h
      have := ih (done ++ [l]) _ (good_step ex done rs l hg hfresh s d he) (by simpa using hnd) rs' h
      simpa using this

/-- The loop panics exactly when some lint's `Execute` panics or returns nil. -/
theorem fold_panics_iff {Obj Cfg : Type} (ex : Lint Obj Cfg → Exec) :
    ∀ (ls : List (Lint Obj Cfg)) (rs : ResultSet),
      (∃ m, ls.foldl (stepWith ex) (.returned rs) = .panicked m) ↔
      ∃ l ∈ ls, (∃ m, ex l = .panic m) ∨ ex l = .nilResult := by
  intro ls
  induction ls with
  | nil => intro rs; simp [List.foldl]
  | cons l ls ih =>
    intro rs
    simp only [List.foldl, List.mem_cons, exists_eq_or_imp]
    cases he : ex l with
    | panic m => simp [stepWith, he, foldl_panicked]
    | nilResult => simp [stepWith, he, foldl_panicked]
    | result s d =>
      simp only [stepWith, he]
      rw [ih]
      simp

theorem good_init {Obj Cfg : Type} (ex : Lint Obj Cfg → Exec) : Good ex [] ({} : ResultSet) := by
  refine ⟨rfl, ⟨?_, ?_, ?_, ?_⟩, ?_, ?_⟩ <;> simp

end Zl
