/-
  Soundness of the guard schemas of ZlModel/Sites.lean: a certificate that `discharged` accepts
  rules the panic out for every container length / index value the facts allow.
-/
import ZlModel.Sites
namespace Zl.Sites

theorem lb_le_of_holds (f : LenFact) (n : Nat) (h : f.holds n = true) : f.lb ≤ n := by
  unfold LenFact.holds at h
  unfold LenFact.lb
  cases hr : f.rel <;> simp [hr] at h ⊢ <;> try omega
  · split <;> omega

theorem lowerBound_le (fs : List LenFact) (n : Nat) (h : ∀ f ∈ fs, f.holds n = true) : lowerBound fs ≤ n := by
  induction fs with
  | nil => simp [lowerBound]
  | cons f fs ih =>
    simp only [lowerBound]
    have h1 := lb_le_of_holds f n (h f (by simp))
    have h2 := ih (fun g hg => h g (by simp [hg]))
    omega

/-- xs[k] with a constant k: safe for every list whose length satisfies the dominating facts -/
theorem idxConst_sound {α : Type} (k : Int) (fs : List LenFact) (hd : discharged (.idxConst k fs) = true)
    (xs : List α) (hf : ∀ f ∈ fs, f.holds xs.length = true) : (index? xs k).isSome = true := by
  simp only [discharged, Bool.and_eq_true, decide_eq_true_eq] at hd
  have := lowerBound_le fs xs.length hf
  unfold index?
  rw [if_pos hd.1]
  have : k.toNat < xs.length := by omega
  simp [this]

/-- xs[len xs - k] -/
theorem idxLenMinus_sound {α : Type} (k : Int) (fs : List LenFact) (hd : discharged (.idxLenMinus k fs) = true)
    (xs : List α) (hf : ∀ f ∈ fs, f.holds xs.length = true) : (index? xs ((xs.length : Int) - k)).isSome = true := by
  simp only [discharged, Bool.and_eq_true, decide_eq_true_eq] at hd
  have := lowerBound_le fs xs.length hf
  unfold index?
  have h0 : 0 ≤ (xs.length : Int) - k := by omega
  rw [if_pos h0]
  have : ((xs.length : Int) - k).toNat < xs.length := by omega
  simp [this]

/-- xs[v + k] where v ≥ 0 and the dominating test gives v + a < len xs, k ≤ a -/
theorem idxVar_sound {α : Type} (k a : Int) (hd : discharged (.idxVar k a) = true)
    (xs : List α) (v : Int) (hv : 0 ≤ v) (hup : v + a < (xs.length : Int)) : (index? xs (v + k)).isSome = true := by
  simp only [discharged, Bool.and_eq_true, decide_eq_true_eq] at hd
  unfold index?
  have h0 : 0 ≤ v + k := by omega
  rw [if_pos h0]
  have : (v + k).toNat < xs.length := by omega
  simp [this]

/-- the guard of `idxVar` is tight: with k = a + 1 the access can fail (so `k ≤ a` is what is needed) -/
theorem idxVar_tight : ∃ (xs : List Nat) (v : Int), 0 ≤ v ∧ v + 0 < (xs.length : Int) ∧ index? xs (v + 1) = none :=
  ⟨[7], 0, by decide, by decide, by decide⟩

theorem sliceLo_sound {α : Type} (k : Int) (fs : List LenFact) (hd : discharged (.sliceLo k fs) = true)
    (xs : List α) (hf : ∀ f ∈ fs, f.holds xs.length = true) : (slice? xs k xs.length).isSome = true := by
  simp only [discharged, Bool.and_eq_true, decide_eq_true_eq] at hd
  have := lowerBound_le fs xs.length hf
  unfold slice?
  rw [if_pos ⟨hd.1, by omega, by omega⟩]; rfl

theorem sliceHi_sound {α : Type} (k : Int) (fs : List LenFact) (hd : discharged (.sliceHi k fs) = true)
    (xs : List α) (hf : ∀ f ∈ fs, f.holds xs.length = true) : (slice? xs 0 k).isSome = true := by
  simp only [discharged, Bool.and_eq_true, decide_eq_true_eq] at hd
  have := lowerBound_le fs xs.length hf
  unfold slice?
  rw [if_pos ⟨by omega, hd.1, by omega⟩]; rfl

theorem sliceHiLen_sound {α : Type} (k : Int) (fs : List LenFact) (hd : discharged (.sliceHiLen k fs) = true)
    (xs : List α) (hf : ∀ f ∈ fs, f.holds xs.length = true) : (slice? xs 0 ((xs.length : Int) - k)).isSome = true := by
  simp only [discharged, Bool.and_eq_true, decide_eq_true_eq] at hd
  have := lowerBound_le fs xs.length hf
  unfold slice?
  rw [if_pos ⟨by omega, by omega, by omega⟩]; rfl

theorem divConst_sound (k : Int) (hd : discharged (.divConst k) = true) (a : Int) : (div? a k).isSome = true := by
  simp only [discharged, decide_eq_true_eq] at hd
  simp [div?, hd]

/-- A dereference is the elimination of an `Option`; each nil schema names the fact that makes it `some`. -/
def deref? {α : Type} (p : Option α) : Option α := p

theorem nilChecked_sound {α : Type} (p : Option α) (guard : p.isSome = true) : (deref? p).isSome = true := guard

/-- `(p, err) := f(..)`; the callee's contract `err = none → p ≠ nil` is the named assumption A-ERRPAIR -/
theorem errPaired_sound {α ε : Type} (p : Option α) (err : Option ε) (contract : err = none → p.isSome = true)
    (guard : err = none) : (deref? p).isSome = true := contract guard

theorem okPaired_sound {α : Type} (p : Option α) (ok : Bool) (contract : ok = true → p.isSome = true)
    (guard : ok = true) : (deref? p).isSome = true := contract guard

/-- `applies`: the fact is implied by CheckApplies = true on the same, unmodified object; Execute runs only then
    (ZlProofs.Props.C04.execute_only_after_applies), so inside Execute the fact holds. -/
theorem applies_sound {Obj α : Type} (applies : Obj → Bool) (get : Obj → Option α)
    (implied : ∀ o, applies o = true → (get o).isSome = true) (o : Obj) (ran : applies o = true) :
    (deref? (get o)).isSome = true := implied o ran

/-- no non-trivial certificate is accepted vacuously: an index certificate with no facts is rejected -/
example : discharged (.idxConst 0 []) = false := by decide
example : discharged (.idxConst 1 [⟨.ge, 1⟩]) = false := by decide
example : discharged (.idxConst 1 [⟨.gt, 1⟩]) = true := by decide
example : discharged (.idxLenMinus 1 [⟨.ne, 0⟩]) = true := by decide
example : discharged (.idxVar 1 0) = false := by decide
example : discharged .residual = false := by decide

end Zl.Sites
