import ZlModel.Key
import ZlModel.Generated.Registry
import ZlModel.Generated.Tables
namespace Zl
open Generated

/-- first and second byte of a padded name key -/
def firstByte (w k : Nat) : Nat := k / 256 ^ (w - 1)
def secondByte (w k : Nat) : Nat := (k / 256 ^ (w - 2)) % 256

/-- 0 = `e_`, 1 = `w_`, 2 = `n_`, 3 = anything else -/
def prefixClass (w k : Nat) : Nat :=
  if secondByte w k != 95 then 3
  else if firstByte w k == 101 then 0
  else if firstByte w k == 119 then 1
  else if firstByte w k == 110 then 2
  else 3

/-- severity rule: e_ ⇒ no warn/info, w_ ⇒ no error/info, n_ ⇒ no warn/error; anything else about a
    known prefix is allowed; an unknown prefix allows nothing -/
def allowedStatus (pc : Nat) (s : Int) : Bool :=
  match pc with
  | 0 => s != 5 && s != 4
  | 1 => s != 6 && s != 4
  | 2 => s != 5 && s != 6
  | _ => false

def nodupB : List Nat → Bool
  | [] => true
  | a :: rest => !rest.contains a && nodupB rest

def insertSorted (x : Nat) : List Nat → List Nat
  | [] => [x]
  | a :: rest => if x ≤ a then x :: a :: rest else a :: insertSorted x rest

def sortNat (l : List Nat) : List Nat := l.foldr insertSorted []

def dedupSorted : List Nat → List Nat
  | [] => []
  | [a] => [a]
  | a :: b :: rest => if a == b then dedupSorted (b :: rest) else a :: dedupSorted (b :: rest)

/-- lower-case letters, digits and underscore -/
def nameChar (b : Nat) : Bool := (97 ≤ b && b ≤ 122) || (48 ≤ b && b ≤ 57) || b == 95

end Zl
