import ZlModel.Key
import ZlModel.Generated.Registry
import ZlModel.Generated.Tables
namespace Zl
open Generated

/-- first and second byte of a padded name key -/
def firstByte (w k : Nat) : Nat := k / 256 ^ (w - 1)
def secondByte (w k : Nat) : Nat := (k / 256 ^ (w - 2)) % 256

/-- 0 = `e_`, 1 = `w_`, 2 = `n_`, 3 = anything else -/
def prefixClass (w k : Nat) : Nat :=
  if secondByte w k != 95 then 3
  else if firstByte w k == 101 then 0
  else if firstByte w k == 119 then 1
  else if firstByte w k == 110 then 2
  else 3

/-- severity rule: e_ ⇒ no warn/info, w_ ⇒ no error/info, n_ ⇒ no warn/error; anything else about a
    known prefix is allowed; an unknown prefix allows nothing -/
def allowedStatus (pc : Nat) (s : Int) : Bool :=
  match pc with
  | 0 => s != 5 && s != 4
  | 1 => s != 6 && s != 4
  | 2 => s != 5 && s != 6
  | _ => false

def nodupB : List Nat → Bool
  | [] => true
  | a :: rest => !rest.contains a && nodupB rest

def insertSorted (x : Nat) : List Nat → List Nat
  | [] => [x]
  | a :: rest => if x ≤ a then x :: a :: rest else a :: insertSorted x rest

def sortNat (l : List Nat) : List Nat := l.foldr insertSorted []

def dedupSorted : List Nat → List Nat
  | [] => []
  | [a] => [a]
  | a :: b :: rest => if a == b then dedupSorted (b :: rest) else a :: dedupSorted (b :: rest)

/-- a byte allowed in a lint name: visible ASCII that is not an upper-case letter ("lower-case name";
    two registered names contain a hyphen, so the set is not narrowed to [a-z0-9_]) -/
def nameChar (b : Nat) : Bool := (33 ≤ b && b ≤ 126) && !(65 ≤ b && b ≤ 90)


/-- merge of two sorted lists (structural on the sum of lengths via fuel) -/
def mergeNat : Nat → List Nat → List Nat → List Nat
  | 0, a, b => a ++ b
  | _ + 1, [], b => b
  | _ + 1, a, [] => a
  | f + 1, x :: xs, y :: ys => if x ≤ y then x :: mergeNat f xs (y :: ys) else y :: mergeNat f (x :: xs) ys

def splitAlt : List Nat → List Nat × List Nat
  | [] => ([], [])
  | [a] => ([a], [])
  | a :: b :: rest => let (l, r) := splitAlt rest; (a :: l, b :: r)

/-- merge sort with explicit fuel (depth); `msort` uses enough fuel for lists below 2^32 elements -/
def msortFuel : Nat → List Nat → List Nat
  | 0, l => l
  | _ + 1, [] => []
  | _ + 1, [a] => [a]
  | f + 1, l => let (a, b) := splitAlt l; mergeNat l.length (msortFuel f a) (msortFuel f b)

def msort (l : List Nat) : List Nat := msortFuel 32 l

/-- bytes of a number, least significant first, `fuel` of them -/
def bytesLE : Nat → Nat → List Nat
  | 0, _ => []
  | f + 1, k => (k % 256) :: bytesLE f (k / 256)

/-- a padded key read from the least significant end: NUL padding first, then only allowed name bytes -/
def paddedNameOK : List Nat → Bool
  | [] => true
  | b :: rest => if b == 0 then paddedNameOK rest else (b :: rest).all nameChar

end Zl
