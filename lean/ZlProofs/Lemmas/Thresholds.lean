import ZlModel.Thresholds
namespace Zl.Thresholds

theorem subSat_mono (a b u : Int) (h : a ≤ b) : subSat a u ≤ subSat b u := by
  unfold subSat maxDuration minDuration
  simp only
  split <;> split <;> (try split) <;> (try split) <;> omega

theorem width_le_length (bs : List Nat) : width bs ≤ bs.length := by
  unfold width
  cases bs with
  | nil => simp
  | cons b rest =>
    simp only [List.length_cons]
    split
    · omega
    · split
      · omega
      · rename_i size lo hi _
        split
        · omega
        · rename_i hlen
          cases rest with
          | nil => simp
          | cons c1 r1 =>
            simp only [List.length_cons] at hlen ⊢
            split
            · omega
            · split
              · omega
              · cases r1 with
                | nil => simp
                | cons c2 r2 =>
                  simp only [List.length_cons] at hlen ⊢
                  split
                  · omega
                  · split
                    · omega
                    · cases r2 with
                      | nil => simp
                      | cons c3 r3 =>
                        simp only [List.length_cons]
                        split <;> omega

theorem width_pos (b : Nat) (rest : List Nat) : 1 ≤ width (b :: rest) := by
  unfold width
  simp only
  split
  · omega
  · split
    · omega
    · split
      · omega
      · cases rest with
        | nil => simp
        | cons c1 r1 =>
          simp only
          split
          · omega
          · split
            · omega
            · cases r1 with
              | nil => simp
              | cons c2 r2 =>
                simp only
                split
                · omega
                · split
                  · omega
                  · cases r2 with
                    | nil => simp
                    | cons c3 r3 => simp only; split <;> omega

theorem width_le_four (bs : List Nat) : width bs ≤ 4 := by
  unfold width
  cases bs with
  | nil => simp
  | cons b rest =>
    simp only
    split
    · omega
    · split
      · omega
      · split
        · omega
        · cases rest with
          | nil => simp
          | cons c1 r1 =>
            simp only
            split
            · omega
            · split
              · omega
              · cases r1 with
                | nil => simp
                | cons c2 r2 =>
                  simp only
                  split
                  · omega
                  · split
                    · omega
                    · cases r2 with
                      | nil => simp
                      | cons c3 r3 => simp only; split <;> omega

theorem runeCountFuel_le (fuel : Nat) : ∀ bs : List Nat, runeCountFuel fuel bs ≤ bs.length := by
  induction fuel with
  | zero => intro bs; simp [runeCountFuel]
  | succ n ih =>
    intro bs
    cases bs with
    | nil => simp [runeCountFuel]
    | cons b rest =>
      simp only [runeCountFuel]
      have h1 := width_pos b rest
      have h2 := width_le_length (b :: rest)
      have := ih ((b :: rest).drop (width (b :: rest)))
      simp only [List.length_drop] at this
      omega

theorem runeCount_le_length (bs : List Nat) : runeCount bs ≤ bs.length := runeCountFuel_le _ bs

theorem length_le_four_mul (fuel : Nat) : ∀ bs : List Nat, bs.length ≤ fuel → bs.length ≤ 4 * runeCountFuel fuel bs := by
  induction fuel with
  | zero => intro bs h; omega
  | succ n ih =>
    intro bs h
    cases bs with
    | nil => simp
    | cons b rest =>
      simp only [runeCountFuel]
      have h1 := width_pos b rest
      have h2 := width_le_length (b :: rest)
      have h4 := width_le_four (b :: rest)
      have := ih ((b :: rest).drop (width (b :: rest))) (by simp only [List.length_drop]; simp only [List.length_cons] at h ⊢; omega)
      simp only [List.length_drop] at this
      omega

theorem length_le_four_mul_runeCount (bs : List Nat) : bs.length ≤ 4 * runeCount bs :=
  length_le_four_mul _ bs (Nat.le_refl _)

theorem runeCountFuel_ascii (fuel : Nat) : ∀ bs : List Nat, (∀ b ∈ bs, b < 128) → bs.length ≤ fuel → runeCountFuel fuel bs = bs.length := by
  induction fuel with
  | zero => intro bs _ h; have : bs = [] := List.length_eq_zero_iff.mp (by omega); subst this; simp [runeCountFuel]
  | succ n ih =>
    intro bs hall h
    cases bs with
    | nil => simp [runeCountFuel]
    | cons b rest =>
      have hb : b < 0x80 := hall b (by simp)
      have hw : width (b :: rest) = 1 := by unfold width; simp [hb]
      simp only [runeCountFuel, hw, List.drop_succ_cons, List.drop_zero, List.length_cons]
      rw [ih rest (fun x hx => hall x (by simp [hx])) (by simp only [List.length_cons] at h; omega)]
      omega

theorem runeCount_ascii (bs : List Nat) (h : ∀ b ∈ bs, b < 128) : runeCount bs = bs.length :=
  runeCountFuel_ascii _ bs h (Nat.le_refl _)

theorem decodeRune_size (b : Nat) (rest : List Nat) : 1 ≤ (decodeRune (b :: rest)).2 ∧ (decodeRune (b :: rest)).2 ≤ (b :: rest).length := by
  have hw := width_le_length (b :: rest)
  unfold decodeRune
  simp only
  split
  · simp
  · split
    · simp
    · split <;> simp only [List.length_cons] at hw ⊢ <;> simp <;> omega

theorem printableWalk_total : ∀ (fuel : Nat) (bs : List Nat), bs.length ≤ fuel → printableWalk fuel bs ≠ .panic := by
  intro fuel
  induction fuel with
  | zero =>
    intro bs h
    have : bs = [] := List.length_eq_zero_iff.mp (by omega)
    subst this; simp [printableWalk]
  | succ n ih =>
    intro bs h
    cases bs with
    | nil => simp [printableWalk]
    | cons b rest =>
      have hs := decodeRune_size b rest
      unfold printableWalk
      simp only
      split
      · simp
      · split
        · simp
        · rw [if_pos hs.2]
          apply ih
          simp only [List.length_drop, List.length_cons] at h ⊢
          omega

theorem dnNotPrintable_total : ∀ vs : List (List Nat), dnNotPrintable vs ≠ .panic := by
  intro vs
  induction vs with
  | nil => simp [dnNotPrintable]
  | cons v vs ih =>
    unfold dnNotPrintable
    have := printableWalk_total v.length v (Nat.le_refl _)
    cases h : printableWalk v.length v with
    | pass => exact ih
    | error => simp
    | panic => exact absurd h this



end Zl.Thresholds
