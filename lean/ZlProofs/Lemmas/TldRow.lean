import ZlModel.Tld
import ZlProofs.Lemmas.Tables
namespace Zl
open Generated

/-- a byte allowed in a table key: lower-case letter, digit or hyphen -/
def keyChar (b : Nat) : Bool := (97 ≤ b && b ≤ 122) || (48 ≤ b && b ≤ 57) || b == 45

def paddedKeyOK : List Nat → Bool
  | [] => true
  | b :: rest => if b == 0 then paddedKeyOK rest else (b :: rest).all keyChar

def instantLe (a b : Time) : Bool := !(Time.before b a)

/-- one row is well-formed: keyed by its own lower-case name, parseable delegation date, removal date
    empty or parseable and not earlier than the delegation -/
def rowOK (r : TldRow) : Bool :=
  r.key == r.gtld
  && r.key != 0
  && paddedKeyOK (bytesLE tldWidth r.key)
  && (parseDate (bytesOfKey r.deleg)).isSome
  && ((bytesOfKey r.rem).isEmpty
      || ((parseDate (bytesOfKey r.rem)).isSome && instantLe (parseDateOrZero (bytesOfKey r.deleg)) (parseDateOrZero (bytesOfKey r.rem))))

end Zl
