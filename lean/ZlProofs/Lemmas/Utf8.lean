/-
  UTF-8: `utf8.EncodeRune ∘ utf8.DecodeRune` is the identity on every well-formed multi-byte sequence.
  This is the fact the JSON-string model's copy-through of valid sequences stands on
  (`unquoteStep`, last branch): the real `unquoteBytes` decodes the rune and re-encodes it.
-/
import ZlModel.Thresholds
import ZlModel.JsonString

namespace Zl.Utf8
open Zl.Thresholds Zl.JsonString

theorem lead_some {b s lo hi : Nat} (h : lead b = some (s, lo, hi)) :
    0x80 ≤ lo ∧ hi ≤ 0xBF ∧
    ((s = 2 ∧ 0xC2 ≤ b ∧ b ≤ 0xDF) ∨
     (s = 3 ∧ 0xE0 ≤ b ∧ b ≤ 0xEF ∧ (b = 0xE0 → lo = 0xA0) ∧ (b = 0xED → hi = 0x9F)) ∨
     (s = 4 ∧ 0xF0 ≤ b ∧ b ≤ 0xF4 ∧ (b = 0xF0 → lo = 0x90) ∧ (b = 0xF4 → hi = 0x8F))) := by
  unfold lead at h
  repeat' split at h
  all_goals simp at h
  all_goals obtain ⟨rfl, rfl, rfl⟩ := h
  all_goals omega

/-- the characterisation of a multi-byte head: what `width ≥ 2` says about the bytes -/
theorem width_ge_two {b : Nat} {rest : List Nat} (hw : 2 ≤ width (b :: rest)) :
    (∃ c1 r, rest = c1 :: r ∧ width (b :: rest) = 2 ∧ 0xC2 ≤ b ∧ b ≤ 0xDF ∧ 0x80 ≤ c1 ∧ c1 ≤ 0xBF) ∨
    (∃ c1 c2 r, rest = c1 :: c2 :: r ∧ width (b :: rest) = 3 ∧ 0xE0 ≤ b ∧ b ≤ 0xEF ∧ 0x80 ≤ c1 ∧ c1 ≤ 0xBF ∧
        (b = 0xE0 → 0xA0 ≤ c1) ∧ (b = 0xED → c1 ≤ 0x9F) ∧ 0x80 ≤ c2 ∧ c2 ≤ 0xBF) ∨
    (∃ c1 c2 c3 r, rest = c1 :: c2 :: c3 :: r ∧ width (b :: rest) = 4 ∧ 0xF0 ≤ b ∧ b ≤ 0xF4 ∧ 0x80 ≤ c1 ∧ c1 ≤ 0xBF ∧
        (b = 0xF0 → 0x90 ≤ c1) ∧ (b = 0xF4 → c1 ≤ 0x8F) ∧ 0x80 ≤ c2 ∧ c2 ≤ 0xBF ∧ 0x80 ≤ c3 ∧ c3 ≤ 0xBF) := by
  by_cases hb : b < 0x80
  · simp [width, hb] at hw
  · cases hl : lead b with
    | none => simp [width, hb, hl] at hw
    | some t =>
      obtain ⟨s, lo, hi⟩ := t
      have hs := lead_some hl
      match rest with
      | [] => simp [width, hb, hl] at hw
      | c1 :: r1 =>
        by_cases h1 : c1 < lo ∨ hi < c1
        · simp [width, hb, hl, h1] at hw
        · have h1' : ¬ c1 < lo ∧ ¬ hi < c1 := by omega
          rcases hs with ⟨hlo, hhi, h2 | h3 | h4⟩
          · obtain ⟨rfl, hb1, hb2⟩ := h2
            left
            refine ⟨c1, r1, rfl, ?_, hb1, hb2, by omega, by omega⟩
            simp [width, hb, hl, h1]
          · obtain ⟨rfl, hb1, hb2, he0, hed⟩ := h3
            right; left
            match r1 with
            | [] => simp [width, hb, hl] at hw
            | c2 :: r2 =>
              by_cases hc2 : cont c2
              · refine ⟨c1, c2, r2, rfl, ?_, hb1, hb2, by omega, by omega, ?_, ?_, ?_, ?_⟩
                · simp [width, hb, hl, h1, hc2]
                · intro h; have := he0 h; omega
                · intro h; have := hed h; omega
                · simp [cont] at hc2; omega
                · simp [cont] at hc2; omega
              · simp [width, hb, hl, h1, hc2] at hw
          · obtain ⟨rfl, hb1, hb2, hf0, hf4⟩ := h4
            right; right
            match r1 with
            | [] => simp [width, hb, hl] at hw
            | [c2] =>
              simp [width, hb, hl] at hw
            | c2 :: c3 :: r3 =>
              by_cases hc2 : cont c2
              · by_cases hc3 : cont c3
                · refine ⟨c1, c2, c3, r3, rfl, ?_, hb1, hb2, by omega, by omega, ?_, ?_, ?_, ?_, ?_, ?_⟩
                  · simp [width, hb, hl, h1, hc2, hc3]
                  · intro h; have := hf0 h; omega
                  · intro h; have := hf4 h; omega
                  · simp [cont] at hc2; omega
                  · simp [cont] at hc2; omega
                  · simp [cont] at hc3; omega
                  · simp [cont] at hc3; omega
                · simp [width, hb, hl, h1, hc2, hc3] at hw
              · simp [width, hb, hl, h1, hc2] at hw

theorem encodeRune_two {r : Nat} (h1 : 0x80 ≤ r) (h2 : r < 0x800) :
    encodeRune r = [0xc0 + r / 64, 0x80 + r % 64] := by
  have hs : ¬ (55296 ≤ r ∧ r < 57344 ∨ 1114111 < r) := by omega
  have ha : ¬ r < 128 := by omega
  simp [encodeRune, hs, ha, h2]

theorem encodeRune_three {r : Nat} (h1 : 0x800 ≤ r) (h2 : r < 0x10000) (hs : ¬ (0xd800 ≤ r ∧ r < 0xe000)) :
    encodeRune r = [0xe0 + r / 4096, 0x80 + (r / 64) % 64, 0x80 + r % 64] := by
  have hs : ¬ (55296 ≤ r ∧ r < 57344 ∨ 1114111 < r) := by omega
  have ha : ¬ r < 128 := by omega
  have hb : ¬ r < 2048 := by omega
  simp [encodeRune, hs, ha, hb, h2]

theorem encodeRune_four {r : Nat} (h1 : 0x10000 ≤ r) (h2 : r ≤ 0x10ffff) :
    encodeRune r = [0xf0 + r / 262144, 0x80 + (r / 4096) % 64, 0x80 + (r / 64) % 64, 0x80 + r % 64] := by
  have hs : ¬ (55296 ≤ r ∧ r < 57344 ∨ 1114111 < r) := by omega
  have ha : ¬ r < 128 := by omega
  have hb : ¬ r < 2048 := by omega
  have hc : ¬ r < 65536 := by omega
  simp [encodeRune, hs, ha, hb, hc]

/-- **re-encoding a decoded well-formed sequence gives the sequence back**, and the decoder consumed exactly it -/
theorem encode_decode (b : Nat) (rest : List Nat) (hw : 2 ≤ width (b :: rest)) :
    encodeRune (decodeRune (b :: rest)).1 = (b :: rest).take (width (b :: rest)) ∧
    (decodeRune (b :: rest)).2 = width (b :: rest) := by
  rcases width_ge_two hw with ⟨c1, r, rfl, hw2, h⟩ | ⟨c1, c2, r, rfl, hw3, h⟩ | ⟨c1, c2, c3, r, rfl, hw4, h⟩
  · have hb : ¬ b < 128 := by omega
    simp only [decodeRune, hw2, hb, if_false, show ¬ ((2:Nat) ≤ 1) by omega]
    rw [encodeRune_two (by omega) (by omega)]
    simp
    omega
  · have hb : ¬ b < 128 := by omega
    simp only [decodeRune, hw3, hb, if_false, show ¬ ((3:Nat) ≤ 1) by omega]
    rw [encodeRune_three (by omega) (by omega) (by omega)]
    simp
    omega
  · have hb : ¬ b < 128 := by omega
    simp only [decodeRune, hw4, hb, if_false, show ¬ ((4:Nat) ≤ 1) by omega]
    rw [encodeRune_four (by omega) (by omega)]
    simp
    omega

end Zl.Utf8
