/-
  Bodies — theorems about the rule bodies themselves, for the certificate lints whose `CheckApplies` and
  `Execute` are translated from the Go source into the lint-logic language (`Generated.bodyRules`,
  regenerated on every run by /verif/extract/bodies.go).

  General part (every term, every view):  a body returns only statuses that occur in it; the guard
  analysis is sound (a rule that passes `Rule.safe` never panics); evaluation only depends on the fields a
  term mentions, is blind to the order of list elements and of the extension map's entries, and never sees
  the signature (a view has no such field).

  Table part (kernel evaluation over the regenerated terms): every translated rule is safe, respects the
  severity prefix, and reads no field outside the allowed set.

  These theorems serve C02 (no internal failure), C05 (function of the object), C06 (severity),
  C09 (signature independence) and C17 (order independence) for the translated lints; the `bodies`
  correspondence ties the translation to the real methods.
-/
import ZlModel.Generated.Bodies
import ZlProofs.Lemmas.Tables
namespace Zl.Bodies
open Zl Zl.LL

/-! ### statuses -/

/-- a body returns only a status that is written in it -/
theorem evalS_mem_statuses (env : Env) (v : View) : ∀ (s : Stmt) (st : Status), evalS env v s = some st → st ∈ s.statuses := by
  intro s
  induction s with
  | ret s0 => intro st h; simp [evalS] at h; simp [Stmt.statuses, h]
  | ite c t e iht ihe =>
    intro st h
    simp only [evalS] at h
    cases hc : evalC env v c with
    | none => simp [hc] at h
    | some b =>
      cases b with
      | true => simp only [hc] at h; simp [Stmt.statuses, iht st h]
      | false => simp only [hc] at h; simp [Stmt.statuses, ihe st h]
  | assertInt f k s0 ih =>
    intro st h
    simp only [evalS] at h
    by_cases hk : v.int f = k
    · simp only [hk, beq_self_eq_true, if_true] at h; simpa [Stmt.statuses] using ih st h
    · simp [hk] at h

/-- what a rule can answer: a panic, "not applicable", or one of the statuses written in its body -/
theorem run_cases (env : Env) (r : Rule) (v : View) :
    r.run env v = .panic ∨ r.run env v = .notApplicable ∨ ∃ s ∈ r.body.statuses, r.run env v = .result s := by
  unfold Rule.run
  cases ha : evalC env v r.applies with
  | none => simp
  | some b =>
    cases b with
    | false => simp
    | true =>
      cases hb : evalS env v r.body with
      | none => simp
      | some s => exact Or.inr (Or.inr ⟨s, evalS_mem_statuses env v _ s hb, by simp⟩)

/-! ### the guard analysis is sound -/

/-- what a fact says about a view -/
def _root_.Zl.LL.Fact.holds (v : View) : Fact → Prop
  | .ext o => (v.ext? o).isSome = true
  | .intEq f k => v.int f = k

def Present (v : View) (g : List Fact) : Prop := ∀ o ∈ g, o.holds v

theorem present_nil (v : View) : Present v [] := by intro o ho; simp at ho
theorem present_one {v : View} {x : Fact} (h : x.holds v) : Present v [x] := by
  intro o ho; simp at ho; subst ho; exact h

theorem present_append {v : View} {a b : List Fact} (ha : Present v a) (hb : Present v b) : Present v (a ++ b) := by
  intro o ho
  rcases List.mem_append.mp ho with h | h
  · exact ha o h
  · exact hb o h

theorem facts_sound (env : Env) (v : View) : ∀ c : Cond,
    (evalC env v c = some true → Present v c.posFacts) ∧ (evalC env v c = some false → Present v c.negFacts) := by
  intro c
  induction c with
  | const b => constructor <;> intro _ o ho <;> simp [Cond.posFacts, Cond.negFacts] at ho
  | bool f => constructor <;> intro _ o ho <;> simp [Cond.posFacts, Cond.negFacts] at ho
  | int f c k =>
    cases c <;> (constructor <;> intro h) <;>
      first
        | (intro o ho; simp [Cond.posFacts, Cond.negFacts] at ho; done)
        | (simp only [Cond.posFacts, Cond.negFacts]; apply present_one; simp [evalC, Cmp.eval] at h; simpa [Fact.holds] using h)
  | icmp a c b => constructor <;> intro _ o ho <;> simp [Cond.posFacts, Cond.negFacts] at ho
  | primes752 e => constructor <;> intro _ o ho <;> simp [Cond.posFacts, Cond.negFacts] at ho
  | mask f m => constructor <;> intro _ o ho <;> simp [Cond.posFacts, Cond.negFacts] at ho
  | strEq f l => constructor <;> intro _ o ho <;> simp [Cond.posFacts, Cond.negFacts] at ho
  | strP f q => constructor <;> intro _ o ho <;> simp [Cond.posFacts, Cond.negFacts] at ho
  | maskEq f m k => constructor <;> intro _ o ho <;> simp [Cond.posFacts, Cond.negFacts] at ho
  | time f op t => constructor <;> intro _ o ho <;> simp [Cond.posFacts, Cond.negFacts] at ho
  | time2 f op g => constructor <;> intro _ o ho <;> simp [Cond.posFacts, Cond.negFacts] at ho
  | isNil f => constructor <;> intro _ o ho <;> simp [Cond.posFacts, Cond.negFacts] at ho
  | len f c k => constructor <;> intro _ o ho <;> simp [Cond.posFacts, Cond.negFacts] at ho
  | anyS f p => constructor <;> intro _ o ho <;> simp [Cond.posFacts, Cond.negFacts] at ho
  | anyO f os => constructor <;> intro _ o ho <;> simp [Cond.posFacts, Cond.negFacts] at ho
  | anyI f is => constructor <;> intro _ o ho <;> simp [Cond.posFacts, Cond.negFacts] at ho
  | ext o =>
    constructor
    · intro h o' ho'
      simp [Cond.posFacts] at ho'
      subst ho'
      simpa [evalC, Fact.holds] using h
    · intro _ o' ho'; simp [Cond.negFacts] at ho'
  | crit o =>
    constructor
    · intro h o' ho'
      simp [Cond.posFacts] at ho'
      subst ho'
      simp only [evalC] at h
      simp [Fact.holds, h]
    · intro h o' ho'
      simp [Cond.negFacts] at ho'
      subst ho'
      simp only [evalC] at h
      simp [Fact.holds, h]
  | not c ih =>
    constructor
    · intro h
      simp only [evalC, Option.map_eq_some_iff] at h
      obtain ⟨b, hb, hnb⟩ := h
      have : b = false := by cases b <;> simp_all
      subst this
      simpa [Cond.posFacts] using ih.2 hb
    · intro h
      simp only [evalC, Option.map_eq_some_iff] at h
      obtain ⟨b, hb, hnb⟩ := h
      have : b = true := by cases b <;> simp_all
      subst this
      simpa [Cond.negFacts] using ih.1 hb
  | and a b iha ihb =>
    constructor
    · intro h
      simp only [evalC] at h
      cases ha : evalC env v a with
      | none => simp [ha] at h
      | some x =>
        cases x with
        | false => simp [ha] at h
        | true =>
          simp only [ha] at h
          simpa [Cond.posFacts] using present_append (iha.1 ha) (ihb.1 h)
    · intro h o ho
      simp only [Cond.negFacts, List.mem_filter, List.contains_eq_mem, decide_eq_true_eq] at ho
      simp only [evalC] at h
      cases ha : evalC env v a with
      | none => simp [ha] at h
      | some x =>
        cases x with
        | false => exact iha.2 ha o ho.1
        | true => simp only [ha] at h; exact ihb.2 h o ho.2
  | or a b iha ihb =>
    constructor
    · intro h o ho
      simp only [Cond.posFacts, List.mem_filter, List.contains_eq_mem, decide_eq_true_eq] at ho
      simp only [evalC] at h
      cases ha : evalC env v a with
      | none => simp [ha] at h
      | some x =>
        cases x with
        | true => exact iha.1 ha o ho.1
        | false => simp only [ha] at h; exact ihb.1 h o ho.2
    · intro h
      simp only [evalC] at h
      cases ha : evalC env v a with
      | none => simp [ha] at h
      | some x =>
        cases x with
        | true => simp [ha] at h
        | false =>
          simp only [ha] at h
          simpa [Cond.negFacts] using present_append (iha.2 ha) (ihb.2 h)

/-- an integer expression that passes the guard analysis has a value -/
theorem safeI_sound (v : View) : ∀ (e : IExp) (g : List Fact), Present v g → e.safe g = true → (e.eval v).isSome = true := by
  intro e
  induction e with
  | lit k => intros; simp [IExp.eval]
  | fld f => intros; simp [IExp.eval]
  | kfld f tf k =>
    intro g hg hs
    simp only [IExp.safe, List.contains_eq_mem, decide_eq_true_eq] at hs
    have := hg _ hs
    simp only [Fact.holds] at this
    simp [IExp.eval, this]
  | bitLen e ih =>
    intro g hg hs
    simp only [IExp.safe] at hs
    have := ih g hg hs
    simp only [IExp.eval]
    cases h : e.eval v <;> simp_all
  | tmod e k ih =>
    intro g hg hs
    simp only [IExp.safe, Bool.and_eq_true, bne_iff_ne, ne_eq] at hs
    have := ih g hg hs.2
    simp only [IExp.eval]
    cases h : e.eval v <;> simp_all
  | emod e k ih =>
    intro g hg hs
    simp only [IExp.safe, Bool.and_eq_true, bne_iff_ne, ne_eq] at hs
    have := ih g hg hs.2
    simp only [IExp.eval]
    cases h : e.eval v <;> simp_all

/-- a condition that passes the guard analysis does not panic when the extensions it relies on are present -/
theorem safeC_sound (env : Env) (v : View) : ∀ (c : Cond) (g : List Fact), Present v g → c.safe g = true → (evalC env v c).isSome = true := by
  intro c
  induction c with
  | crit o =>
    intro g hg hs
    simp only [Cond.safe, List.contains_eq_mem, decide_eq_true_eq] at hs
    simpa [evalC, Fact.holds] using hg _ hs
  | icmp a c b =>
    intro g hg hs
    simp only [Cond.safe, Bool.and_eq_true] at hs
    have h1 := safeI_sound v a g hg hs.1
    have h2 := safeI_sound v b g hg hs.2
    simp only [evalC]
    cases ha : a.eval v <;> cases hb : b.eval v <;> simp_all
  | primes752 e =>
    intro g hg hs
    simp only [Cond.safe] at hs
    have := safeI_sound v e g hg hs
    simp only [evalC]
    cases h : e.eval v <;> simp_all
  | not c ih =>
    intro g hg hs
    simp only [Cond.safe] at hs
    have := ih g hg hs
    simp only [evalC]
    cases h : evalC env v c <;> simp_all
  | and a b iha ihb =>
    intro g hg hs
    simp only [Cond.safe, Bool.and_eq_true] at hs
    have h1 := iha g hg hs.1
    simp only [evalC]
    cases ha : evalC env v a with
    | none => simp [ha] at h1
    | some x =>
      cases x with
      | false => simp
      | true => exact ihb _ (present_append ((facts_sound env v a).1 ha) hg) hs.2
  | or a b iha ihb =>
    intro g hg hs
    simp only [Cond.safe, Bool.and_eq_true] at hs
    have h1 := iha g hg hs.1
    simp only [evalC]
    cases ha : evalC env v a with
    | none => simp [ha] at h1
    | some x =>
      cases x with
      | true => simp
      | false => exact ihb _ (present_append ((facts_sound env v a).2 ha) hg) hs.2
  | const b => intros; simp [evalC]
  | bool f => intros; simp [evalC]
  | int f c k => intros; simp [evalC]
  | mask f m => intros; simp [evalC]
  | strEq f l => intros; simp [evalC]
  | strP f q => intros; simp [evalC]
  | maskEq f m k => intros; simp [evalC]
  | time f op t => intros; simp [evalC]
  | time2 f op g => intros; simp [evalC]
  | isNil f => intros; simp [evalC]
  | len f c k => intros; simp [evalC]
  | anyS f p => intros; simp [evalC]
  | anyO f os => intros; simp [evalC]
  | anyI f is => intros; simp [evalC]
  | ext o => intros; simp [evalC]

theorem safeS_sound (env : Env) (v : View) : ∀ (s : Stmt) (g : List Fact), Present v g → s.safe g = true → (evalS env v s).isSome = true := by
  intro s
  induction s with
  | ret s0 => intros; simp [evalS]
  | ite c t e iht ihe =>
    intro g hg hs
    simp only [Stmt.safe, Bool.and_eq_true] at hs
    have h1 := safeC_sound env v c g hg hs.1.1
    simp only [evalS]
    cases hc : evalC env v c with
    | none => simp [hc] at h1
    | some x =>
      cases x with
      | true => exact iht _ (present_append ((facts_sound env v c).1 hc) hg) hs.1.2
      | false => exact ihe _ (present_append ((facts_sound env v c).2 hc) hg) hs.2
  | assertInt f k s0 ih =>
    intro g hg hs
    simp only [Stmt.safe, Bool.and_eq_true, List.contains_eq_mem, decide_eq_true_eq] at hs
    have := hg _ hs.1
    simp only [Fact.holds] at this
    simp only [evalS, this, beq_self_eq_true, if_true]
    exact ih g hg hs.2

/-- **A rule that passes the guard analysis never panics, on any view**: `CheckApplies` returns, and
    `Execute` returns whenever `CheckApplies` answered true. -/
theorem safe_never_panics (env : Env) (r : Rule) (h : r.safe = true) (v : View) : r.run env v ≠ .panic := by
  simp only [Rule.safe, Bool.and_eq_true] at h
  have ha := safeC_sound env v r.applies [] (by intro o ho; simp at ho) h.1
  unfold Rule.run
  cases hap : evalC env v r.applies with
  | none => simp [hap] at ha
  | some b =>
    cases b with
    | false => simp
    | true =>
      have hb := safeS_sound env v r.body _ ((facts_sound env v r.applies).1 hap) h.2
      cases hbo : evalS env v r.body with
      | none => simp [hbo] at hb
      | some s => simp

/-- the guard is needed: the unguarded dereference panics on a view without the extension -/
example : ({ name := "x", nameB := [], applies := .const true, body := .ite (.crit [2, 5, 29, 15]) (.ret 3) (.ret 6) } : Rule).run ⟨fun _ _ => none, fun _ _ => false⟩ {} = .panic := by
  decide

/-! ### evaluation depends on the view only through what a term mentions, as sets -/

/-- two views a term cannot tell apart: same scalar fields, list fields with the same nil-ness, length and
    the same *set* of elements, the same extension lookups -/
structure Similar (v w : View) : Prop where
  bools : ∀ f, v.bool f = w.bool f
  ints : ∀ f, v.int f = w.int f
  strs : ∀ f, v.str f = w.str f
  nils : ∀ f, (v.list f).isNil = (w.list f).isNil
  lens : ∀ f, (v.list f).len = (w.list f).len
  lstrs : ∀ f x, x ∈ (v.list f).strs ↔ x ∈ (w.list f).strs
  loids : ∀ f x, x ∈ (v.list f).oids ↔ x ∈ (w.list f).oids
  lints : ∀ f x, x ∈ (v.list f).ints ↔ x ∈ (w.list f).ints
  times : ∀ f, v.time f = w.time f
  exts : ∀ o, v.ext? o = w.ext? o

theorem any_congr_mem {α : Type} (p : α → Bool) (l l' : List α) (h : ∀ x, x ∈ l ↔ x ∈ l') : l.any p = l'.any p := by
  apply Bool.eq_iff_iff.mpr
  simp only [List.any_eq_true]
  constructor
  · rintro ⟨x, hx, hp⟩; exact ⟨x, (h x).mp hx, hp⟩
  · rintro ⟨x, hx, hp⟩; exact ⟨x, (h x).mpr hx, hp⟩

theorem evalI_similar {v w : View} (h : Similar v w) : ∀ e : IExp, e.eval v = e.eval w := by
  intro e
  induction e with
  | lit k => rfl
  | fld f => simp [IExp.eval, h.ints]
  | kfld f tf k => simp [IExp.eval, h.ints]
  | bitLen e ih => simp [IExp.eval, ih]
  | tmod e k ih => simp [IExp.eval, ih]
  | emod e k ih => simp [IExp.eval, ih]

theorem evalC_similar (env : Env) {v w : View} (h : Similar v w) : ∀ c : Cond, evalC env v c = evalC env w c := by
  intro c
  induction c with
  | const b => rfl
  | bool f => simp [evalC, h.bools]
  | int f c k => simp [evalC, h.ints]
  | mask f m => simp [evalC, h.ints]
  | strEq f l => simp [evalC, h.strs]
  | strP f q => simp [evalC, h.strs]
  | maskEq f m k => simp [evalC, h.ints]
  | time f op t => simp [evalC, h.times]
  | time2 f op g => simp [evalC, h.times]
  | isNil f => simp [evalC, h.nils]
  | len f c k => simp [evalC, h.lens]
  | anyS f p => simp only [evalC]; rw [any_congr_mem _ _ _ (h.lstrs f)]
  | anyO f os => simp only [evalC]; rw [any_congr_mem _ _ _ (h.loids f)]
  | anyI f is => simp only [evalC]; rw [any_congr_mem _ _ _ (h.lints f)]
  | ext o => simp [evalC, h.exts]
  | crit o => simp [evalC, h.exts]
  | icmp a c b => simp [evalC, evalI_similar h]
  | primes752 e => simp [evalC, evalI_similar h]
  | not c ih => simp [evalC, ih]
  | and a b iha ihb => simp [evalC, iha, ihb]
  | or a b iha ihb => simp [evalC, iha, ihb]

theorem evalS_similar (env : Env) {v w : View} (h : Similar v w) : ∀ s : Stmt, evalS env v s = evalS env w s := by
  intro s
  induction s with
  | ret s0 => rfl
  | ite c t e iht ihe => simp [evalS, evalC_similar env h c, iht, ihe]
  | assertInt f k s0 ih => simp [evalS, h.ints, ih]

/-- **Order independence of every translated rule** (C17): permuting the elements of any list field
    (SAN entries, policy identifiers, EKUs, subject attribute types, …) — or replacing a list by any list with
    the same elements — changes no rule's answer. The extension map has no order to begin with. -/
theorem run_similar (env : Env) (r : Rule) {v w : View} (h : Similar v w) : r.run env v = r.run env w := by
  unfold Rule.run
  rw [evalC_similar env h, evalS_similar env h]

/-- permuted list fields are `Similar` -/
theorem similar_of_perm (v : View) (f0 : Nat) (lv : ListVal) (strs' : List Bytes) (oids' : List Oid) (ints' : List Int)
    (hv : v.list f0 = lv) (hs : lv.strs.Perm strs') (ho : lv.oids.Perm oids') (hi : lv.ints.Perm ints') :
    Similar v { v with lists := (f0, { lv with strs := strs', oids := oids', ints := ints' }) :: v.lists } := by
  have key : ∀ f, ({ v with lists := (f0, { lv with strs := strs', oids := oids', ints := ints' }) :: v.lists } : View).list f
      = if f0 == f then { lv with strs := strs', oids := oids', ints := ints' } else v.list f := by
    intro f; simp [View.list, lookup]
  refine ⟨fun _ => rfl, fun _ => rfl, fun _ => rfl, ?_, ?_, ?_, ?_, ?_, fun _ => rfl, fun _ => rfl⟩
  · intro f; rw [key]; by_cases hf : f0 = f
    · subst hf; simp [hv]
    · simp [hf]
  · intro f; rw [key]; by_cases hf : f0 = f
    · subst hf; simp [hv]
    · simp [hf]
  · intro f x; rw [key]; by_cases hf : f0 = f
    · subst hf; simp [hv, hs.mem_iff]
    · simp [hf]
  · intro f x; rw [key]; by_cases hf : f0 = f
    · subst hf; simp [hv, ho.mem_iff]
    · simp [hf]
  · intro f x; rw [key]; by_cases hf : f0 = f
    · subst hf; simp [hv, hi.mem_iff]
    · simp [hf]

/-- non-vacuity of `run_similar`: two distinct orders of a two-element SAN list -/
example : Similar { lists := [(3, { isNil := false, len := 2, strs := [[97], [98]] })] }
                  { lists := [(3, { isNil := false, len := 2, strs := [[98], [97]] })] } := by
  have := similar_of_perm { lists := [(3, { isNil := false, len := 2, strs := [[97], [98]] })] } 3
    { isNil := false, len := 2, strs := [[97], [98]] } [[98], [97]] [] [] (by simp [View.list, lookup]) (List.Perm.swap _ _ _) (List.Perm.refl _) (List.Perm.refl _)
  refine ⟨this.bools, this.ints, this.strs, ?_, ?_, ?_, ?_, ?_, this.times, this.exts⟩ <;> intro f <;> simp [View.list, lookup] <;> by_cases hf : 3 = f <;> simp [hf] <;> try (intro x; constructor <;> rintro (h | h) <;> simp [h])

/-! ### mirror images -/

/-- `w` shows under the names `f`, `o` what `v` shows under `ρ f`, `σ o` -/
structure Mirrors (ρ : Nat → Nat) (σ : Oid → Oid) (v w : View) : Prop where
  bools : ∀ f, w.bool f = v.bool (ρ f)
  ints : ∀ f, w.int f = v.int (ρ f)
  strs : ∀ f, w.str f = v.str (ρ f)
  lists : ∀ f, w.list f = v.list (ρ f)
  times : ∀ f, w.time f = v.time (ρ f)
  exts : ∀ o, w.ext? o = v.ext? (σ o)

theorem evalI_rename {ρ σ} {v w : View} (h : Mirrors ρ σ v w) : ∀ e : IExp, (e.rename ρ).eval v = e.eval w := by
  intro e
  induction e with
  | lit k => rfl
  | fld f => simp [IExp.rename, IExp.eval, h.ints]
  | kfld f tf k => simp [IExp.rename, IExp.eval, h.ints]
  | bitLen e ih => simp [IExp.rename, IExp.eval, ih]
  | tmod e k ih => simp [IExp.rename, IExp.eval, ih]
  | emod e k ih => simp [IExp.rename, IExp.eval, ih]

theorem evalC_rename (env : Env) {ρ σ} {v w : View} (h : Mirrors ρ σ v w) : ∀ c : Cond, evalC env v (c.rename ρ σ) = evalC env w c := by
  intro c
  induction c with
  | const b => rfl
  | bool f => simp [Cond.rename, evalC, h.bools]
  | int f c k => simp [Cond.rename, evalC, h.ints]
  | mask f m => simp [Cond.rename, evalC, h.ints]
  | strEq f l => simp [Cond.rename, evalC, h.strs]
  | strP f q => simp [Cond.rename, evalC, h.strs]
  | maskEq f m k => simp [Cond.rename, evalC, h.ints]
  | time f op t => simp [Cond.rename, evalC, h.times]
  | time2 f op g => simp [Cond.rename, evalC, h.times]
  | isNil f => simp [Cond.rename, evalC, h.lists]
  | len f c k => simp [Cond.rename, evalC, h.lists]
  | anyS f q => simp [Cond.rename, evalC, h.lists]
  | anyO f os => simp [Cond.rename, evalC, h.lists]
  | anyI f is => simp [Cond.rename, evalC, h.lists]
  | ext o => simp [Cond.rename, evalC, h.exts]
  | crit o => simp [Cond.rename, evalC, h.exts]
  | icmp a c b => simp [Cond.rename, evalC, evalI_rename h]
  | primes752 e => simp [Cond.rename, evalC, evalI_rename h]
  | not c ih => simp [Cond.rename, evalC, ih]
  | and a b iha ihb => simp [Cond.rename, evalC, iha, ihb]
  | or a b iha ihb => simp [Cond.rename, evalC, iha, ihb]

theorem evalS_rename (env : Env) {ρ σ} {v w : View} (h : Mirrors ρ σ v w) : ∀ s : Stmt, evalS env v (s.rename ρ σ) = evalS env w s := by
  intro s
  induction s with
  | ret s0 => rfl
  | ite c t e iht ihe => simp [Stmt.rename, evalS, evalC_rename env h c, iht, ihe]
  | assertInt f k s0 ih => simp [Stmt.rename, evalS, h.ints, ih]

/-- **A rule whose terms are the renamed terms of its twin answers, on any certificate, what the twin answers on
    the mirror-image certificate** (C20 for duplicated rules inside the fragment). -/
theorem twin_agrees (env : Env) (a b : Rule) (ρ : Nat → Nat) (σ : Oid → Oid)
    (ha : b.applies = a.applies.rename ρ σ) (hb : b.body = a.body.rename ρ σ) {v w : View} (h : Mirrors ρ σ v w) :
    b.run env v = a.run env w := by
  unfold Rule.run
  rw [ha, hb, evalC_rename env h, evalS_rename env h]

/-- in particular, on a certificate that is its own mirror image (the two fields carry the same content) both
    twins reach the same conclusion -/
theorem twin_agrees_same (env : Env) (a b : Rule) (ρ : Nat → Nat) (σ : Oid → Oid)
    (ha : b.applies = a.applies.rename ρ σ) (hb : b.body = a.body.rename ρ σ) {v : View} (h : Mirrors ρ σ v v) :
    b.run env v = a.run env v := twin_agrees env a b ρ σ ha hb h

/-! ### the regenerated table -/
open Generated

/-- 0 = `e_`, 1 = `w_`, 2 = `n_` -/
def prefixOfName : Bytes → Nat
  | 101 :: 95 :: _ => 0
  | 119 :: 95 :: _ => 1
  | 110 :: 95 :: _ => 2
  | _ => 3

/-- **Every translated rule passes the guard analysis** — hence (`safe_never_panics`) none of them can
    panic on any certificate: every `GetExtFromCert(...).Critical` is dominated by the presence test. -/
theorem all_rules_safe : bodyRules.all Rule.safe = true := by decide +kernel

/-- for every translated rule and every view: no panic (C02, for the bodies inside the fragment) -/
theorem translated_rules_never_panic (env : Env) (r : Rule) (hr : r ∈ bodyRules) (v : View) : r.run env v ≠ .panic :=
  safe_never_panics env r (List.all_eq_true.mp all_rules_safe r hr) v

/-- **Every status written in a translated body respects the prefix rule**, except exactly the committed
    known findings. With `run_cases` this is C06 for these lints on every certificate. -/
theorem all_rules_severity :
    bodyRules.all (fun r => r.body.statuses.all (fun s => allowedStatus (prefixOfName r.nameB) s || r.knownBad.contains s)) = true := by
  decide +kernel

theorem translated_rules_severity (env : Env) (r : Rule) (hr : r ∈ bodyRules) (v : View) (s : Status)
    (h : r.run env v = .result s) : allowedStatus (prefixOfName r.nameB) s = true ∨ s ∈ r.knownBad := by
  rcases run_cases env r v with h1 | h1 | ⟨s', hs', h1⟩
  · rw [h1] at h; cases h
  · rw [h1] at h; cases h
  · rw [h1] at h
    cases h
    have := List.all_eq_true.mp (List.all_eq_true.mp all_rules_severity r hr) s hs'
    simpa [Bool.or_eq_true, List.contains_eq_mem] using this

/-- the excused statuses are really written in those bodies (nothing stale is excused) -/
theorem known_bad_not_stale :
    bodyRules.all (fun r => r.knownBad.all (fun s => r.body.statuses.contains s && !allowedStatus (prefixOfName r.nameB) s)) = true := by
  decide +kernel

/-- **No translated rule reads a field that depends on the signature value** (C09): the view has no
    signature, fingerprint or raw-bytes field, and the only fields these rules read are in the list below. -/
theorem all_rules_fields_allowed :
    bodyRules.all (fun r => r.fields.all (fun f => decide (f < bodyFieldNames.length))) = true := by decide +kernel

/-- fields of the parsed certificate that depend on the signature value or on the whole encoding -/
def sigFields : List String :=
  ["Signature", "Raw", "FingerprintMD5", "FingerprintSHA1", "FingerprintSHA256", "FingerprintNoCT", "validSignature", "SelfSignedVerified"]

theorem no_signature_field :
    bodyFieldNames.all (fun p => !(sigFields.contains p.1)) = true := by decide

/-! duplicated rules inside the fragment: the twin's terms are the renamed terms (decided on the regenerated table) -/

def fieldId (n : String) : Nat := bodyFieldNames.findIdx (fun p => p.1 == n)
def swapField (a b : String) (f : Nat) : Nat := if f == fieldId a then fieldId b else f
def swapOid (a b : Oid) (o : Oid) : Oid := if o == a then b else o
def ruleNamed (n : String) : Option Rule := bodyRules.find? (fun r => r.name == n)
def oidSAN : Oid := [2, 5, 29, 17]
def oidIAN : Oid := [2, 5, 29, 18]

/-- `b` is `a` renamed — or one of them is no longer inside the fragment (then the pair is judged by C20's search) -/
def isTwin (a b : String) (ρ : Nat → Nat) (σ : Oid → Oid) : Bool :=
  match ruleNamed a, ruleNamed b with
  | some ra, some rb => decide (rb.applies = ra.applies.rename ρ σ) && decide (rb.body = ra.body.rename ρ σ)
  | _, _ => true

/-- the Mozilla and the BR prohibition of DSA keys are the same rule, term for term -/
theorem dsa_twins : isTwin "e_prohibit_dsa_usage" "e_br_prohibit_dsa_usage" id id = true := by decide +kernel

/-- three subjectAltName rules and their issuerAltName copies -/
theorem san_ian_twins :
    isTwin "e_ext_san_space_dns_name" "e_ext_ian_space_dns_name" (swapField "DNSNames" "IANDNSNames") (swapOid oidSAN oidIAN) = true
    ∧ isTwin "e_san_bare_wildcard" "e_ian_bare_wildcard" (swapField "DNSNames" "IANDNSNames") (swapOid oidSAN oidIAN) = true
    ∧ isTwin "e_san_dns_name_starts_with_period" "e_ian_dns_name_starts_with_period" (swapField "DNSNames" "IANDNSNames") (swapOid oidSAN oidIAN) = true := by
  decide +kernel

/-- three subjectAltName URI rules (URL parsing is a parameter of the model: the same `Env` on both sides) and their
    issuerAltName copies -/
theorem san_ian_uri_twins :
    isTwin "e_ext_san_uri_relative" "e_ext_ian_uri_relative" (swapField "URIs" "IANURIs") (swapOid oidSAN oidIAN) = true
    ∧ isTwin "e_ext_san_uri_format_invalid" "e_ext_ian_uri_format_invalid" (swapField "URIs" "IANURIs") (swapOid oidSAN oidIAN) = true
    ∧ isTwin "e_ext_san_uri_host_not_fqdn_or_ip" "e_ext_ian_uri_host_not_fqdn_or_ip" (swapField "URIs" "IANURIs") (swapOid oidSAN oidIAN) = true := by
  decide +kernel

/-- three more pairs whose bodies scan the octets of each name (non-IA5 URI, NUL in a dNSName, `*` after the first octet) -/
theorem san_ian_octet_twins :
    isTwin "e_ext_san_uri_not_ia5" "e_ext_ian_uri_not_ia5" (swapField "URIs" "IANURIs") (swapOid oidSAN oidIAN) = true
    ∧ isTwin "e_san_dns_name_includes_null_char" "e_ian_dns_name_includes_null_char" (swapField "DNSNames" "IANDNSNames") (swapOid oidSAN oidIAN) = true
    ∧ isTwin "e_san_wildcard_not_first" "e_ian_wildcard_not_first" (swapField "DNSNames" "IANDNSNames") (swapOid oidSAN oidIAN) = true := by
  decide +kernel

example : (ruleNamed "e_ext_ian_uri_not_ia5").isSome ∧ (ruleNamed "e_ian_dns_name_includes_null_char").isSome ∧ (ruleNamed "e_ian_wildcard_not_first").isSome := by
  decide +kernel

/-- the pairs are really in the table today (the statements above are not vacuous) -/
example : (ruleNamed "e_prohibit_dsa_usage").isSome ∧ (ruleNamed "e_ext_ian_space_dns_name").isSome
    ∧ (ruleNamed "e_ian_bare_wildcard").isSome ∧ (ruleNamed "e_ian_dns_name_starts_with_period").isSome
    ∧ (ruleNamed "e_ext_ian_uri_relative").isSome ∧ (ruleNamed "e_ext_ian_uri_format_invalid").isSome ∧ (ruleNamed "e_ext_ian_uri_host_not_fqdn_or_ip").isSome := by decide +kernel

/-- non-vacuity: the table is populated, with rules of all three prefixes and rules that use `crit` guards -/
example : bodyRules.length ≥ 100 ∧ bodyRules.any (fun r => prefixOfName r.nameB == 1) ∧ bodyRules.any (fun r => prefixOfName r.nameB == 2)
    ∧ bodyRules.any (fun r => !r.applies.posFacts.isEmpty) := by decide +kernel

end Zl.Bodies
