/-
  C01 — Every lint run returns a complete, well-formed result set.
-/
import ZlProofs.Lemmas.RunAll
namespace Zl.C01
open Zl

/-- `l` is well-behaved on `(o, cfg)` for a run of kind `k`: its body never returns nil and only
    returns defined statuses; for CRL/OCSP lints (no recovery net) additionally no stage panics. -/
structure WB {Obj Cfg : Type} (k : Kind) (l : Lint Obj Cfg) (o : Obj) (cfg : Cfg) : Prop where
  notNil : l.body o ≠ .nil
  status : ∀ s d, l.body o = .res s d → Status.valid7 s = true
  noPanic : k ≠ .cert → (∀ m, l.configure cfg ≠ .panic m) ∧ (∀ m, l.applies o ≠ .panic m) ∧ (∀ m, l.body o ≠ .panic m)

/-- a well-behaved lint's `Execute` returns a non-nil result with a defined status -/
theorem execute_of_WB {Obj Cfg : Type} (k : Kind) (sc : Scope) (t : Time) (l : Lint Obj Cfg) (o : Obj) (cfg : Cfg)
    (h : WB k l o cfg) : ∃ s d, (execute k sc t l o cfg).1 = .result s d ∧ Status.valid7 s = true := by
  cases he : (execute k sc t l o cfg).1 with
  | result s d =>
    refine ⟨s, d, rfl, ?_⟩
    rcases execute_status_from k sc t l o cfg s d he with hf | hb
    · exact frameworkStatus_valid7 s hf
    · exact h.status s d hb
  | nilResult =>
    exfalso
    cases k with
    | cert =>
      simp only [execute] at he
      generalize hr : (executeRaw (inScope l.md.source sc) t l o cfg).1 = r at he
      cases r with
      | result s d => simp [recoverExec] at he
      | nilResult => exact h.notNil ((executeRaw_nil_iff _ t l o cfg).mp hr).2.2.2.2
      | panic m => simp [recoverExec] at he
    | crl => exact h.notNil ((executeRaw_nil_iff _ t l o cfg).mp he).2.2.2.2
    | ocsp => exact h.notNil ((executeRaw_nil_iff _ t l o cfg).mp he).2.2.2.2
  | panic m =>
    exfalso
    cases k with
    | cert => exact execute_cert_no_panic sc t l o cfg m he
    | crl =>
      obtain ⟨h1, h2, h3⟩ := h.noPanic (by decide)
      rcases ((executeRaw_panic_iff true t l o cfg m).mp he).2 with hc | ⟨_, ha | ⟨_, _, hb⟩⟩
      · exact h1 m hc
      · exact h2 m ha
      · exact h3 m hb
    | ocsp =>
      obtain ⟨h1, h2, h3⟩ := h.noPanic (by decide)
      rcases ((executeRaw_panic_iff true t l o cfg m).mp he).2 with hc | ⟨_, ha | ⟨_, _, hb⟩⟩
      · exact h1 m hc
      · exact h2 m ha
      · exact h3 m hb

/-- **Completeness and well-formedness.** For every list of lints with pairwise distinct names
    (what a registry's per-kind lookup holds — C12), all well-behaved on this input, the run
    returns; the result keys are exactly the lint names (one each, no others); every result
    carries its lint's metadata and a defined status; flags match contents; version is set. -/
theorem runAll_exact {Obj Cfg : Type} (version : Int) (k : Kind) (sc : Scope) (t : Time)
    (ls : List (Lint Obj Cfg)) (o : Obj) (cfg : Cfg)
    (hnd : (ls.map (·.md.name)).Nodup) (hwb : ∀ l ∈ ls, WB k l o cfg) :
    ∃ rs, runAll version k sc t ls o cfg = .returned rs
      ∧ rs.version = version
      ∧ rs.results.map (·.1) = (ls.map (·.md.name)).reverse
      ∧ (∀ l ∈ ls, ∃ r, (l.md.name, r) ∈ rs.results ∧ r.md = l.md ∧ Status.valid7 r.status = true)
      ∧ (∀ p ∈ rs.results, ∃ l ∈ ls, p.1 = l.md.name ∧ p.2.md = l.md ∧ Status.valid7 p.2.status = true)
      ∧ FlagsOK rs := by
  let ex := fun l : Lint Obj Cfg => (execute k sc t l o cfg).1
  have hnp : ¬ ∃ m, ls.foldl (stepWith ex) (.returned {}) = .panicked m := by
    rw [fold_panics_iff]
    rintro ⟨l, hl, hbad⟩
    obtain ⟨s, d, he, _⟩ := execute_of_WB k sc t l o cfg (hwb l hl)
    rcases hbad with ⟨m, hm⟩ | hn
    · simp [ex] at hm; rw [he] at hm; cases hm
    · simp [ex] at hn; rw [he] at hn; cases hn
  cases hf : ls.foldl (stepWith ex) (.returned {}) with
  | panicked m => exact absurd ⟨m, hf⟩ hnp
  | returned rs =>
    have hg : Good ex ([] ++ ls) rs := fold_good ex ls [] {} (good_init ex) (by simpa using hnd) rs hf
    simp only [List.nil_append] at hg
    refine ⟨{ rs with version := version }, ?_, rfl, hg.keys, ?_, ?_, ⟨hg.flags.notices, hg.flags.warnings, hg.flags.errors, hg.flags.fatals⟩⟩
    · simp only [runAll, stepRun_eq_stepWith]; rw [hf]
    · intro l hl
      obtain ⟨s, d, he, hmem⟩ := hg.entries l hl
      obtain ⟨s', d', he', hv⟩ := execute_of_WB k sc t l o cfg (hwb l hl)
      have : s = s' := by simp [ex] at he; rw [he'] at he; cases he; rfl
      exact ⟨_, hmem, rfl, by rw [this]; exact hv⟩
    · intro p hp
      obtain ⟨l, hl, s, d, he, hpe⟩ := hg.only p hp
      obtain ⟨s', d', he', hv⟩ := execute_of_WB k sc t l o cfg (hwb l hl)
      have : s = s' := by simp [ex] at he; rw [he'] at he; cases he; rfl
      subst hpe
      exact ⟨l, hl, rfl, rfl, by rw [this]; exact hv⟩

/-- **Flags.** Whenever a run returns (any mix of statuses, well-behaved or not), each presence
    flag is true exactly when some contained result has that status. Needs only distinct names. -/
theorem flags_iff {Obj Cfg : Type} (version : Int) (k : Kind) (sc : Scope) (t : Time)
    (ls : List (Lint Obj Cfg)) (o : Obj) (cfg : Cfg) (hnd : (ls.map (·.md.name)).Nodup)
    (rs : ResultSet) (h : runAll version k sc t ls o cfg = .returned rs) : FlagsOK rs ∧ rs.version = version := by
  simp only [runAll, stepRun_eq_stepWith] at h
  cases hf : ls.foldl (stepWith fun l : Lint Obj Cfg => (execute k sc t l o cfg).1) (.returned {}) with
  | panicked m => rw [hf] at h; cases h
  | returned rs0 =>
    rw [hf] at h
    have hg := fold_good _ ls [] {} (good_init _) (by simpa using hnd) rs0 hf
    cases h
    exact ⟨⟨hg.flags.notices, hg.flags.warnings, hg.flags.errors, hg.flags.fatals⟩, rfl⟩

/-- **When does a panic reach the caller?** Exactly when some lint's `Execute` panics or hands
    back nil (the unrecovered `res.LintMetadata = …`). -/
theorem runAll_panics_iff {Obj Cfg : Type} (version : Int) (k : Kind) (sc : Scope) (t : Time)
    (ls : List (Lint Obj Cfg)) (o : Obj) (cfg : Cfg) :
    (∃ m, runAll version k sc t ls o cfg = .panicked m) ↔
      ∃ l ∈ ls, (∃ m, (execute k sc t l o cfg).1 = .panic m) ∨ (execute k sc t l o cfg).1 = .nilResult := by
  rw [← fold_panics_iff (fun l : Lint Obj Cfg => (execute k sc t l o cfg).1) ls {}]
  simp only [runAll, stepRun_eq_stepWith]
  cases ls.foldl (stepWith fun l : Lint Obj Cfg => (execute k sc t l o cfg).1) (.returned {}) <;> simp

/-- for certificate lints only a nil result can do it: panics are recovered -/
theorem cert_run_panics_iff {Obj Cfg : Type} (version : Int) (sc : Scope) (t : Time)
    (ls : List (Lint Obj Cfg)) (o : Obj) (cfg : Cfg) :
    (∃ m, runAll version .cert sc t ls o cfg = .panicked m) ↔
      ∃ l ∈ ls, inScope l.md.source sc = true ∧ l.configure cfg = .ok none ∧ l.applies o = .ok true ∧
        checkEffective l.md.eff l.md.ineff t = true ∧ l.body o = .nil := by
  rw [runAll_panics_iff]
  constructor
  · rintro ⟨l, hl, ⟨m, hm⟩ | hn⟩
    · exact absurd hm (execute_cert_no_panic sc t l o cfg m)
    · refine ⟨l, hl, ?_⟩
      simp only [execute] at hn
      generalize hr : (executeRaw (inScope l.md.source sc) t l o cfg).1 = r at hn
      cases r with
      | result s d => simp [recoverExec] at hn
      | nilResult => exact (executeRaw_nil_iff _ t l o cfg).mp hr
      | panic m => simp [recoverExec] at hn
  · rintro ⟨l, hl, h⟩
    refine ⟨l, hl, Or.inr ?_⟩
    simp only [execute]
    rw [(executeRaw_nil_iff _ t l o cfg).mpr h]; rfl

/-- non-vacuity: two concrete lints, one warning; the run returns both with the warn flag only -/
def exA : Lint Unit Unit := { md := { name := "w_a" }, configure := fun _ => .ok none, applies := fun _ => .ok true, body := fun _ => .res Status.warn "x" }
def exB : Lint Unit Unit := { md := { name := "e_b" }, configure := fun _ => .ok none, applies := fun _ => .ok false, body := fun _ => .panic "never" }
example : WB .cert exA () () ∧ WB .cert exB () () ∧ ([exA, exB].map (·.md.name)).Nodup := by
  refine ⟨⟨by simp [exA], by intro s d h; simp [exA] at h; rw [← h.1]; decide, by simp⟩,
          ⟨by simp [exB], by intro s d h; simp [exB] at h, by simp⟩, by decide⟩
example : ∃ rs, runAll 3 .cert default default [exA, exB] () () = .returned rs ∧ rs.warnings = true ∧ rs.errors = false
    ∧ rs.results.map (·.1) = ["e_b", "w_a"] := ⟨_, rfl, by decide, by decide, by decide⟩

end Zl.C01
