/-
  C02 — No lint fails internally on any input the parser accepts.

  What is proved here, and about what:

  1. Framework (for every lint behaviour): a certificate result is the framework's report of a recovered
     panic exactly when one of the lint's stages panicked, and a CRL/OCSP execution panics exactly then
     (`raw_panic_iff`, `cert_recovered_iff`, `unrecovered_panic_iff`, `panic_free_never_recovered`).
     So C02 for a lint *is* panic-freedom of its Configure / CheckApplies / Execute on the objects the
     framework hands them.
  2. Walkers that compute their own indices, modelled with checked indexing (ZlModel/Walkers.lean):
     total for every input (`controlChar_total`, `parseBMPUnits_total`, `isNameAttribute_total`,
     `v6_indices_in_range`), and the defect the explicitText walker had before its repair
     (`controlChar_unguarded_panics`).
  3. Census (regenerated from the Go source on every run, `Generated.panicSites`): every panic-capable
     site reachable from a lint carries a guard certificate whose arithmetic the kernel re-checks
     (`Sites.discharged`, sound by ZlProofs/Lemmas/Sites.lean), or is listed — for exactly its present
     context — in the committed review `/verif/c02_reviewed_sites.json` (`all_sites_accounted`).

  PARTIAL: panic-freedom of the library functions lint bodies call (asn1, regexp, url, idna, publicsuffix,
  cryptobyte, big, reflect — assumption A-LIB), the parser facts named in the review file (A-PARSE-*),
  and the extractor's reading of dominators and value identity are trusted, not proved. The full
  statement "for every parseable object and every lint, no stage panics" is therefore *not* a theorem
  here; what is a theorem is items 1–3, and the direct search (structure-aware mutation of the corpus,
  targeted walker inputs) is run against the real code on every check.
-/
import ZlProofs.Lemmas.Thresholds
import ZlProofs.Lemmas.Sites
import ZlModel.Walkers
import ZlModel.Framework
import ZlModel.Generated.PanicSites
namespace Zl.C02
open Zl Zl.Sites Zl.Walkers

/-! ## 1. the framework reports a recovered panic iff a stage panicked -/

/-- the panic message of the first stage that panics, in the order the framework runs them -/
def firstPanic {Obj Cfg : Type} (gate : Bool) (target : Time) (l : Lint Obj Cfg) (o : Obj) (cfg : Cfg) : Option String :=
  if !gate then none
  else match l.configure cfg with
    | .panic m => some m
    | .ok (some _) => none
    | .ok none =>
      match l.applies o with
      | .panic m => some m
      | .ok false => none
      | .ok true =>
        if !checkEffective l.md.eff l.md.ineff target then none
        else match l.body o with
          | .panic m => some m
          | _ => none

theorem raw_panic_iff {Obj Cfg : Type} (gate : Bool) (t : Time) (l : Lint Obj Cfg) (o : Obj) (cfg : Cfg) (m : String) :
    (executeRaw gate t l o cfg).1 = .panic m ↔ firstPanic gate t l o cfg = some m := by
  unfold executeRaw firstPanic
  cases gate <;> simp
  cases l.configure cfg with
  | panic m' => simp
  | ok e =>
    cases e with
    | some err => simp
    | none =>
      simp
      cases l.applies o with
      | panic m' => simp
      | ok b =>
        cases b
        · simp
        · by_cases hce : checkEffective l.md.eff l.md.ineff t = true
          · simp [hce]; cases l.body o <;> simp
          · have hf : checkEffective l.md.eff l.md.ineff t = false := by simpa using hce
            simp [hf]

/-- Certificates: the result is the recovered-panic report exactly when a stage panicked. -/
theorem cert_recovered_iff {Obj Cfg : Type} (sc : Scope) (t : Time) (l : Lint Obj Cfg) (o : Obj) (cfg : Cfg) (m : String)
    (h : firstPanic (inScope l.md.source sc) t l o cfg = some m) :
    (execute .cert sc t l o cfg).1 = .result Status.fatal (panicDetails l.md.name m) := by
  have := (raw_panic_iff (inScope l.md.source sc) t l o cfg m).mpr h
  simp [execute, this, recoverExec]

/-- … and when no stage panics, the certificate result is what the stages produced (no recovery involved). -/
theorem cert_not_recovered {Obj Cfg : Type} (sc : Scope) (t : Time) (l : Lint Obj Cfg) (o : Obj) (cfg : Cfg)
    (h : firstPanic (inScope l.md.source sc) t l o cfg = none) :
    (execute .cert sc t l o cfg).1 = (executeRaw (inScope l.md.source sc) t l o cfg).1 ∧
    ∀ m, (executeRaw (inScope l.md.source sc) t l o cfg).1 ≠ .panic m := by
  have hn : ∀ m, (executeRaw (inScope l.md.source sc) t l o cfg).1 ≠ .panic m := by
    intro m hm
    have := (raw_panic_iff _ t l o cfg m).mp hm
    rw [h] at this; cases this
  refine ⟨?_, hn⟩
  simp only [execute]
  cases hr : (executeRaw (inScope l.md.source sc) t l o cfg).1 with
  | panic m => exact absurd hr (hn m)
  | result s d => simp [recoverExec]
  | nilResult => simp [recoverExec]

/-- CRL / OCSP (no recovery net): the execution panics exactly when a stage panics. -/
theorem unrecovered_panic_iff {Obj Cfg : Type} (k : Kind) (hk : k ≠ .cert) (sc : Scope) (t : Time) (l : Lint Obj Cfg)
    (o : Obj) (cfg : Cfg) (m : String) :
    (execute k sc t l o cfg).1 = .panic m ↔ firstPanic true t l o cfg = some m := by
  cases k with
  | cert => exact absurd rfl hk
  | crl => simpa [execute] using raw_panic_iff true t l o cfg m
  | ocsp => simpa [execute] using raw_panic_iff true t l o cfg m

/-- A lint none of whose stages can panic is never reported as recovered and never panics a run:
    C02 for a lint reduces to panic-freedom of its three stages. -/
theorem panic_free_never_recovered {Obj Cfg : Type} (l : Lint Obj Cfg)
    (hc : ∀ cfg m, l.configure cfg ≠ .panic m) (ha : ∀ o m, l.applies o ≠ .panic m) (hb : ∀ o m, l.body o ≠ .panic m)
    (gate : Bool) (t : Time) (o : Obj) (cfg : Cfg) : firstPanic gate t l o cfg = none := by
  unfold firstPanic
  cases gate <;> simp
  cases hcf : l.configure cfg with
  | panic m => exact absurd hcf (hc cfg m)
  | ok e =>
    cases e with
    | some err => simp
    | none =>
      simp
      cases hap : l.applies o with
      | panic m => exact absurd hap (ha o m)
      | ok b =>
        cases b
        · simp
        · by_cases hce : checkEffective l.md.eff l.md.ineff t = true
          · simp [hce]
            cases hbo : l.body o with
            | panic m => exact absurd hbo (hb o m)
            | res s d => simp
            | nil => simp
          · have hf : checkEffective l.md.eff l.md.ineff t = false := by simpa using hce
            simp [hf]

/-- the hypotheses are satisfiable and the conclusion is not vacuous: a lint whose body panics *is* reported -/
example : firstPanic true Time.zero
    ({ md := { name := "e_x" }, configure := fun _ => .ok none, applies := fun _ => .ok true, body := fun _ => .panic "boom" } : Lint Unit Unit)
    () () = some "boom" := by decide

/-! ## 2. walkers with computed indices are total -/

theorem at?_lt (bs : List Nat) (i : Nat) (h : i < bs.length) : ∃ b, at? bs i = some b := by
  unfold at?; exact ⟨bs[i], by simp [h]⟩

theorem ccLoop_guarded (bs : List Nat) : ∀ fuel i, bs.length ≤ i + fuel →
    ccLoop true bs i fuel ≠ .panic ∧ ccLoop true bs i fuel ≠ .outOfFuel := by
  intro fuel
  induction fuel with
  | zero => intro i h; unfold ccLoop; split <;> first | omega | simp
  | succ n ih =>
    intro i h
    unfold ccLoop
    split
    · rename_i hlt
      obtain ⟨b, hb⟩ := at?_lt bs i hlt
      simp only [hb]
      split
      · split
        · simp
        · exact ih _ (by omega)
      · split
        · split
          · rename_i h2
            simp only [Bool.not_true, Bool.false_or, Bool.and_eq_true, decide_eq_true_eq] at h2
            obtain ⟨c, hc⟩ := at?_lt bs (i+1) h2.2
            simp only [hc]
            split
            · simp
            · exact ih _ (by omega)
          · exact ih _ (by omega)
        · split
          · exact ih _ (by omega)
          · split
            · exact ih _ (by omega)
            · split
              · exact ih _ (by omega)
              · split
                · exact ih _ (by omega)
                · exact ih _ (by omega)
    · simp

/-- The explicitText control-character walker never indexes out of range, for **every** byte string
    (and the fuel bound of the model is never hit, so the model's verdict is the loop's verdict). -/
theorem controlChar_total (bs : List Nat) : controlChar bs ≠ .panic ∧ controlChar bs ≠ .outOfFuel :=
  ccLoop_guarded bs bs.length 0 (by omega)

/-- The defect the walker had before its repair: a UTF8String ending in 0xC2 read one byte past the end. -/
theorem controlChar_unguarded_panics : controlCharUnguarded [0xC2] = .panic := by decide

/-- the repaired code agrees with the old code wherever the old code did not panic (the repair changes nothing else) -/
theorem ccLoop_agree (bs : List Nat) : ∀ fuel i, ccLoop false bs i fuel ≠ .panic → ccLoop true bs i fuel = ccLoop false bs i fuel := by
  intro fuel
  induction fuel with
  | zero => intro i _; unfold ccLoop; rfl
  | succ n ih =>
    intro i
    unfold ccLoop
    split
    · rename_i hlt
      obtain ⟨b, hb⟩ := at?_lt bs i hlt
      simp only [hb]
      split
      · split
        · simp
        · exact ih _
      · split
        · by_cases hc2 : b = 0xc2
          · subst hc2
            by_cases hn : i + 1 < bs.length
            · obtain ⟨c, hc⟩ := at?_lt bs (i+1) hn
              simp only [hc, hn, decide_true, Bool.or_true, Bool.and_true, Bool.not_true, Bool.not_false, Bool.true_or, beq_self_eq_true, if_true]
              split
              · simp
              · exact ih _
            · have hnone : at? bs (i+1) = none := by unfold at?; simp; omega
              simp [hnone]
          · have : (b == 0xc2) = false := by simpa using hc2
            simp only [this, Bool.false_and]
            exact ih _
        · split
          · exact ih _
          · split
            · exact ih _
            · split
              · exact ih _
              · split
                · exact ih _
                · exact ih _
    · simp

theorem bmpLoop_total : ∀ fuel (b acc : List Nat), b.length % 2 = 0 → b.length ≤ 2 * fuel → bmpLoop b fuel acc ≠ .panic := by
  intro fuel
  induction fuel with
  | zero =>
    intro b acc _ hle
    have : b = [] := List.length_eq_zero_iff.mp (by omega)
    subst this; simp [bmpLoop]
  | succ n ih =>
    intro b acc hev hle
    match b with
    | [] => simp [bmpLoop]
    | [x] => simp at hev
    | x :: y :: rest =>
      simp only [bmpLoop, List.getElem?_cons_zero, List.getElem?_cons_succ, List.length_cons, List.drop_succ_cons, List.drop_zero]
      have : 2 ≤ rest.length + 1 + 1 := by omega
      simp only [this, if_true]
      apply ih
      · simp only [List.length_cons] at hev; omega
      · simp only [List.length_cons] at hle; omega

/-- `util.ParseBMPString` never indexes out of range: an odd length is an error, never a panic. -/
theorem parseBMPUnits_total (b : List Nat) : parseBMPUnits b ≠ .panic := by
  unfold parseBMPUnits
  split
  · simp
  · rename_i hodd
    have hev : b.length % 2 = 0 := by simpa using hodd
    simp only
    split
    · apply bmpLoop_total
      · simp only [List.length_take]; omega
      · omega
    · apply bmpLoop_total _ _ _ hev; omega

theorem parseBMP_total (b : List Nat) : (parseBMP b).isSome = true := by
  unfold parseBMP
  cases h : parseBMPUnits b with
  | panic => exact absurd h (parseBMPUnits_total b)
  | err => rfl
  | ok us => rfl

theorem parseBMP_odd_is_error (b : List Nat) (h : b.length % 2 = 1) : parseBMP b = some none := by
  unfold parseBMP parseBMPUnits
  simp [h]

theorem isNameAttribute_total (oid : List Nat) : isNameAttribute oid ≠ .panic := by
  unfold isNameAttribute
  split
  · simp
  · rename_i h
    have h4 : oid.length = 4 := by simpa using h
    have h3 : 3 ≤ oid.length := by omega
    simp only [h3, if_true]
    split
    · simp
    · have : oid[3]? = some oid[3] := by simp [h4]
      rw [this]; simp

/-- `IsFQDN`'s prefix stripping ends (the model is structurally recursive) and leaves no `?.` in front;
    what it returns is a suffix of its input -/
theorem removeQuestionMarks_no_prefix : ∀ (s : List Nat), ∀ rest, removeQuestionMarks s ≠ 63 :: 46 :: rest
  | [], _ => by simp [removeQuestionMarks]
  | [a], _ => by simp [removeQuestionMarks]
  | a :: b :: t, rest => by
    by_cases h : a = 63 ∧ b = 46
    · obtain ⟨rfl, rfl⟩ := h
      simp only [removeQuestionMarks]
      exact removeQuestionMarks_no_prefix t rest
    · have : removeQuestionMarks (a :: b :: t) = a :: b :: t := by
        unfold removeQuestionMarks
        split
        · rename_i heq; simp at heq; exact absurd ⟨heq.1, heq.2.1⟩ h
        · rfl
      rw [this]; intro heq; simp at heq; exact h ⟨heq.1, heq.2.1⟩

theorem removeQuestionMarks_suffix : ∀ (s : List Nat), ∃ pre, s = pre ++ removeQuestionMarks s
  | [] => ⟨[], by simp [removeQuestionMarks]⟩
  | [a] => ⟨[], by simp [removeQuestionMarks]⟩
  | a :: b :: t => by
    by_cases h : a = 63 ∧ b = 46
    · obtain ⟨rfl, rfl⟩ := h
      obtain ⟨pre, hp⟩ := removeQuestionMarks_suffix t
      refine ⟨63 :: 46 :: pre, ?_⟩
      simp only [removeQuestionMarks, List.cons_append]
      rw [← hp]
    · refine ⟨[], ?_⟩
      have : removeQuestionMarks (a :: b :: t) = a :: b :: t := by
        unfold removeQuestionMarks
        split
        · rename_i heq; simp at heq; exact absurd ⟨heq.1, heq.2.1⟩ h
        · rfl
      simp [this]

example : fqdnArg [42, 46, 63, 46, 63, 46, 97] = [97] ∧ fqdnArg [63, 97] = [63, 97] ∧ fqdnArg [42] = [42] ∧ fqdnArg [42, 97, 46] = [42, 97, 46] := by decide

/-- `e_subject_dn_not_printable_characters`: the `bytes = bytes[size:]` re-slice after `utf8.DecodeRune` never
    leaves the string, for every attribute value (1 ≤ size ≤ len for non-empty input — `decodeRune_size`), and
    the walk ends -/
theorem dn_printable_walk_total (values : List (List Nat)) : Zl.Thresholds.dnNotPrintable values ≠ .panic :=
  Zl.Thresholds.dnNotPrintable_total values

example : Zl.Thresholds.dnNotPrintable [[0x41, 0xC2], [0x42]] = .pass ∧ Zl.Thresholds.dnNotPrintable [[0x41], [0x1F]] = .error
    ∧ Zl.Thresholds.dnNotPrintable [[0xC2, 0x85]] = .error ∧ Zl.Thresholds.dnNotPrintable [[0xE2, 0x82, 0xAC]] = .pass := by decide

/-- `reversedLabelsToIPv6` (32 labels, four per step, counting down): every index it touches is in range -/
theorem v6_indices_in_range : (v6AllIndices 32).all (fun i => decide (0 ≤ i) && decide (i < 32)) = true := by decide

/-- …and it touches all 32 (the loop really runs; the statement above is not about an empty list) -/
example : (v6AllIndices 32).length = 32 := by decide

/-! ## 3. the census of panic-capable sites -/

/-- **Every panic-capable site reachable from a lint** (regenerated from the Go source on every run) is
    discharged by a kernel-checked guard certificate or is in the committed review, for its present context. -/
theorem all_sites_accounted :
    Generated.panicSites.all (accounted Generated.reviewedSites) = true := by decide +kernel

/-- the review holds nothing stale: every entry still names an undischarged site in the context it was reviewed in -/
theorem review_not_stale :
    Generated.reviewedSites.all (fun r => Generated.panicSites.any (fun s => s.key == r.1 && s.ctx == r.2 && !discharged s.schema)) = true := by
  decide +kernel

/-- the census is not empty (the obligation above is about ~1,100 sites, not about `[]`) -/
theorem census_nonempty : decide (500 < Generated.panicSites.length) = true := by decide +kernel

end Zl.C02
