/-
  C03 — No findings outside a rule's effective window.
  Property theorems (statements are not to be weakened; helper lemmas live in ZlProofs/Lemmas).
-/
import ZlProofs.Lemmas.Framework
import ZlModel.Generated.Registry
namespace Zl.C03
open Zl

/-- The window predicate is exactly the half-open interval `[eff, ineff)` on instants,
    with a zero bound meaning "unbounded". No location occurs anywhere: instants only. -/
theorem checkEffective_spec (eff ineff t : Time) :
    checkEffective eff ineff t = true ↔
      (eff.isZero = true ∨ Time.le eff t) ∧ (ineff.isZero = true ∨ Time.lt t ineff) := by
  unfold checkEffective
  rw [Bool.and_eq_true, Bool.or_eq_true, Bool.or_eq_true, Time.onOrAfter_iff, Time.before_iff]

/-- the instant that decides the window: notBefore / thisUpdate / nextUpdate is passed as `t`. -/
def inWindow {Obj Cfg : Type} (l : Lint Obj Cfg) (t : Time) : Prop :=
  checkEffective l.md.eff l.md.ineff t = true

/-- Main claim: outside the window no lint of any kind ever reports pass/info/warn/error,
    whatever its configuration, applicability test or body do (including panics). -/
theorem no_finding_outside_window {Obj Cfg : Type} (k : Kind) (sc : Scope) (t : Time)
    (l : Lint Obj Cfg) (o : Obj) (cfg : Cfg) (hout : ¬ inWindow l t)
    (s : Status) (d : String) (h : (execute k sc t l o cfg).1 = .result s d) :
    Status.judged s = false := by
  have hout' : checkEffective l.md.eff l.md.ineff t = false := by
    unfold inWindow at hout; simpa using hout
  have key : ∀ gate s d, (executeRaw gate t l o cfg).1 = .result s d → Status.judged s = false := by
    intro gate s d h
    rcases executeRaw_result gate t l o cfg s d h with h | h | h | h | h
    · rw [h.2.1]; decide
    · obtain ⟨_, e, _, hs, _⟩ := h; rw [hs]; decide
    · rw [h.2.2.2.1]; decide
    · rw [h.2.2.2.2.1]; decide
    · rw [hout'] at h; exact absurd h.2.2.2.1 (by simp)
  cases k with
  | cert =>
    simp only [execute] at h
    generalize hr : (executeRaw (inScope l.md.source sc) t l o cfg).1 = r at h
    cases r with
    | result s' d' => simp [recoverExec] at h; rw [← h.1]; exact key _ s' d' hr
    | nilResult => simp [recoverExec] at h
    | panic m => simp [recoverExec] at h; rw [← h.1]; decide
  | crl => exact key true s d h
  | ocsp => exact key true s d h

/-- With a configuration that applies cleanly and no panicking stage, an object outside
    the window gets NA or NE and nothing else. -/
theorem outside_window_NA_or_NE {Obj Cfg : Type} (k : Kind) (sc : Scope) (t : Time)
    (l : Lint Obj Cfg) (o : Obj) (cfg : Cfg) (hout : ¬ inWindow l t)
    (hcfg : l.configure cfg = .ok none) (b : Bool) (happ : l.applies o = .ok b) :
    ∃ s, (execute k sc t l o cfg).1 = .result s "" ∧ (s = Status.na ∨ s = Status.ne) := by
  have hout' : checkEffective l.md.eff l.md.ineff t = false := by
    unfold inWindow at hout; simpa using hout
  have key : ∀ gate, ∃ s, (executeRaw gate t l o cfg).1 = .result s "" ∧ (s = Status.na ∨ s = Status.ne) := by
    intro gate
    unfold executeRaw
    cases gate <;> cases b <;> simp [hcfg, happ, hout']
  cases k with
  | cert =>
    obtain ⟨s, hs, h12⟩ := key (inScope l.md.source sc)
    exact ⟨s, by simp [execute, hs, recoverExec], h12⟩
  | crl => exact key true
  | ocsp => exact key true

/-- Exactness at the boundaries, for an in-scope, cleanly configured, applicable object. -/
structure Applicable {Obj Cfg : Type} (k : Kind) (sc : Scope) (l : Lint Obj Cfg) (o : Obj) (cfg : Cfg) : Prop where
  scope : k = .cert → inScope l.md.source sc = true
  cfg : l.configure cfg = .ok none
  app : l.applies o = .ok true

theorem judged_in_window {Obj Cfg : Type} (k : Kind) (sc : Scope) (t : Time)
    (l : Lint Obj Cfg) (o : Obj) (cfg : Cfg) (ha : Applicable k sc l o cfg) (hin : inWindow l t)
    (s : Status) (d : String) (hb : l.body o = .res s d) :
    (execute k sc t l o cfg).1 = .result s d := by
  unfold inWindow at hin
  cases k with
  | cert => simp [execute, executeRaw, ha.scope rfl, ha.cfg, ha.app, hin, hb, recoverExec]
  | crl => simp [execute, executeRaw, ha.cfg, ha.app, hin, hb]
  | ocsp => simp [execute, executeRaw, ha.cfg, ha.app, hin, hb]

theorem ne_outside_window {Obj Cfg : Type} (k : Kind) (sc : Scope) (t : Time)
    (l : Lint Obj Cfg) (o : Obj) (cfg : Cfg) (ha : Applicable k sc l o cfg) (hout : ¬ inWindow l t) :
    (execute k sc t l o cfg).1 = .result Status.ne "" := by
  have hout' : checkEffective l.md.eff l.md.ineff t = false := by
    unfold inWindow at hout; simpa using hout
  cases k with
  | cert => simp [execute, executeRaw, ha.scope rfl, ha.cfg, ha.app, hout', recoverExec]
  | crl => simp [execute, executeRaw, ha.cfg, ha.app, hout']
  | ocsp => simp [execute, executeRaw, ha.cfg, ha.app, hout']

/-- exactly at the effective date the object is inside the window (when the window is non-empty) -/
theorem at_effective_in_window (eff ineff : Time) (h : ineff.isZero = true ∨ Time.lt eff ineff) :
    checkEffective eff ineff eff = true := by
  rw [checkEffective_spec]; exact ⟨Or.inr (Time.le_refl _), h⟩

/-- one second before a (non-zero) effective date is outside -/
theorem before_effective_out (eff ineff : Time) (hz : eff.isZero = false) :
    checkEffective eff ineff (eff.addSec (-1)) = false := by
  have : ¬ (checkEffective eff ineff (eff.addSec (-1)) = true) := by
    rw [checkEffective_spec]
    rintro ⟨h | h, _⟩
    · rw [hz] at h; exact absurd h (by simp)
    · unfold Time.le Time.addSec at h; simp at h; omega
  simpa using this

/-- exactly at a (non-zero) ineffective date is outside -/
theorem at_ineffective_out (eff ineff : Time) (hz : ineff.isZero = false) :
    checkEffective eff ineff ineff = false := by
  have : ¬ (checkEffective eff ineff ineff = true) := by
    rw [checkEffective_spec]
    rintro ⟨_, h | h⟩
    · rw [hz] at h; exact absurd h (by simp)
    · exact Time.lt_irrefl _ h
  simpa using this

/-- one second before the ineffective date is inside (when the effective date allows it) -/
theorem before_ineffective_in (eff ineff : Time)
    (h : eff.isZero = true ∨ Time.le eff (ineff.addSec (-1))) :
    checkEffective eff ineff (ineff.addSec (-1)) = true := by
  rw [checkEffective_spec]
  refine ⟨h, Or.inr ?_⟩
  unfold Time.lt Time.addSec; simp; omega

/-- **No rounding**: an object dated before a (non-zero) effective date by *any* amount — one nanosecond is enough — is
    outside the window. Dates are compared as full instants (seconds and nanoseconds), never rounded or truncated to
    what DER can encode. -/
theorem any_instant_before_effective_out (eff ineff t : Time) (hz : eff.isZero = false) (h : Time.lt t eff) :
    checkEffective eff ineff t = false := by
  have : ¬ (checkEffective eff ineff t = true) := by
    rw [checkEffective_spec]
    rintro ⟨h' | h', _⟩
    · rw [hz] at h'; exact absurd h' (by simp)
    · unfold Time.le at h'; unfold Time.lt at h; omega
  simpa using this

/-- … and an object dated before the ineffective date by any amount is still inside (when the effective date allows it) -/
theorem any_instant_before_ineffective_in (eff ineff t : Time) (h : eff.isZero = true ∨ Time.le eff t) (hl : Time.lt t ineff) :
    checkEffective eff ineff t = true := by
  rw [checkEffective_spec]; exact ⟨h, Or.inr hl⟩

/-- an object dated at or after a (non-zero) ineffective date by any amount is outside -/
theorem any_instant_from_ineffective_out (eff ineff t : Time) (hz : ineff.isZero = false) (h : Time.le ineff t) :
    checkEffective eff ineff t = false := by
  have : ¬ (checkEffective eff ineff t = true) := by
    rw [checkEffective_spec]
    rintro ⟨_, h' | h'⟩
    · rw [hz] at h'; exact absurd h' (by simp)
    · unfold Time.le at h; unfold Time.lt at h'; omega
  simpa using this

/-- non-vacuity on sub-second instants: 400 ms and 1 ns before the effective second are outside, 1 ns before the
    ineffective second is inside -/
example :
    checkEffective ⟨100, 0⟩ ⟨200, 0⟩ ⟨99, 600000000⟩ = false ∧ checkEffective ⟨100, 0⟩ ⟨200, 0⟩ ⟨99, 999999999⟩ = false
    ∧ checkEffective ⟨100, 0⟩ ⟨200, 0⟩ ⟨199, 999999999⟩ = true ∧ checkEffective ⟨100, 0⟩ ⟨200, 0⟩ ⟨200, 1⟩ = false := by
  decide

/-- **The only instants of a linted object that the framework looks at** — directly or through any module function it
    calls (scope predicates, date helpers of package util) — **are the three window targets of the model**: a
    certificate's `NotBefore`, a CRL's `ThisUpdate`, an OCSP response's `NextUpdate`. No `NotAfter`, no embedded SCT
    timestamp, no `ProducedAt` enters the window decision. (The other fields are those of the scope gate.)
    Regenerated from the source on every run. -/
theorem framework_reads_only_window_targets :
    Generated.frameworkObjReadsAll = ["Certificate.EmailAddresses", "Certificate.ExtKeyUsage", "Certificate.NotBefore", "Certificate.OtherNames",
      "Certificate.PolicyIdentifiers", "Certificate.UnknownExtKeyUsage", "Response.NextUpdate", "RevocationList.ThisUpdate"] := by decide

/-- non-vacuity: a concrete lint, object dated exactly at the effective date, judged by the body -/
def exLint : Lint Unit Unit := { md := { name := "e_x", eff := ⟨100, 0⟩, ineff := ⟨200, 0⟩ }, configure := fun _ => .ok none, applies := fun _ => .ok true, body := fun _ => .res Status.error "d" }

example :
    (execute .crl ⟨true, true, true⟩ ⟨100, 0⟩ exLint () ()).1 = .result Status.error "d"
    ∧ (execute .crl ⟨true, true, true⟩ ⟨99, 0⟩ exLint () ()).1 = .result Status.ne ""
    ∧ (execute .crl ⟨true, true, true⟩ ⟨199, 0⟩ exLint () ()).1 = .result Status.error "d"
    ∧ (execute .crl ⟨true, true, true⟩ ⟨200, 0⟩ exLint () ()).1 = .result Status.ne "" := by
  decide

end Zl.C03
