/-
  C04 — Out-of-scope or inapplicable objects get NA; otherwise the rule's verdict stands.
-/
import ZlModel.Scope
import ZlProofs.Lemmas.Framework
namespace Zl.C04
open Zl

/-- Source gate: a BR / S-MIME / CS lint on a certificate outside that document's scope
    returns NA and *nothing* of the lint is run (empty call log: no constructor, no
    configure, no applicability test, no body). -/
theorem scope_gate {Obj Cfg : Type} (sc : Scope) (t : Time) (l : Lint Obj Cfg) (o : Obj) (cfg : Cfg)
    (h : inScope l.md.source sc = false) :
    execute .cert sc t l o cfg = (.result Status.na "", []) := by
  simp [execute, executeRaw, h, recoverExec]

theorem scope_gate_BR (sc : Scope) (h : sc.serverAuth = false) : inScope srcBR sc = false := by
  simp [inScope, h]
theorem scope_gate_SMIME (sc : Scope) (h : sc.emailProtection = false) : inScope srcSMIME sc = false := by
  simp [inScope, h, srcSMIME, srcBR]
theorem scope_gate_CS (sc : Scope) (h : sc.codeSigning = false) : inScope srcCS sc = false := by
  simp [inScope, h, srcCS, srcBR, srcSMIME]
/-- sources other than the three gated ones are never gated -/
theorem other_sources_not_gated (src : String) (sc : Scope)
    (h1 : src ≠ srcBR) (h2 : src ≠ srcSMIME) (h3 : src ≠ srcCS) : inScope src sc = true := by
  simp [inScope, h1, h2, h3]
/-- in-scope certificates pass the gate -/
theorem in_scope_not_gated (src : String) (sc : Scope)
    (h : sc.serverAuth = true ∧ sc.emailProtection = true ∧ sc.codeSigning = true) : inScope src sc = true := by
  simp [inScope, h.1, h.2.1, h.2.2]

/-- CRL and OCSP lints are never gated by source. -/
theorem no_gate_crl_ocsp {Obj Cfg : Type} (k : Kind) (hk : k ≠ .cert) (sc sc' : Scope) (t : Time)
    (l : Lint Obj Cfg) (o : Obj) (cfg : Cfg) :
    execute k sc t l o cfg = execute k sc' t l o cfg := by
  cases k <;> simp_all [execute]

/-- An object the lint's own applicability test rejects gets NA and the body is not run. -/
theorem inapplicable_NA {Obj Cfg : Type} (k : Kind) (sc : Scope) (t : Time) (l : Lint Obj Cfg) (o : Obj) (cfg : Cfg)
    (hc : l.configure cfg = .ok none) (ha : l.applies o = .ok false) :
    (execute k sc t l o cfg).1 = .result Status.na "" ∧ Call.body ∉ (execute k sc t l o cfg).2 := by
  cases k <;> cases hg : inScope l.md.source sc <;> simp [execute, executeRaw, hc, ha, hg, recoverExec]

/-- The body runs only after: gate passed, a fresh instance constructed and configured
    without error, and its own applicability test answered `true`, in this order, once. -/
theorem execute_only_after_applies {Obj Cfg : Type} (k : Kind) (sc : Scope) (t : Time)
    (l : Lint Obj Cfg) (o : Obj) (cfg : Cfg) (h : Call.body ∈ (execute k sc t l o cfg).2) :
    (execute k sc t l o cfg).2 = [.construct, .configure, .applies, .body]
    ∧ l.configure cfg = .ok none ∧ l.applies o = .ok true
    ∧ checkEffective l.md.eff l.md.ineff t = true
    ∧ (k = .cert → inScope l.md.source sc = true) := by
  have key : ∀ gate, Call.body ∈ (executeRaw gate t l o cfg).2 →
      (executeRaw gate t l o cfg).2 = [.construct, .configure, .applies, .body]
      ∧ l.configure cfg = .ok none ∧ l.applies o = .ok true
      ∧ checkEffective l.md.eff l.md.ineff t = true ∧ gate = true := by
    intro gate
    unfold executeRaw
    cases gate
    · simp
    · cases hc : l.configure cfg with
      | panic m => simp
      | ok oe =>
        cases oe with
        | some e => simp
        | none =>
          cases ha : l.applies o with
          | panic m => simp
          | ok b =>
            cases b with
            | false => simp
            | true =>
              cases hw : checkEffective l.md.eff l.md.ineff t with
              | false => simp
              | true => cases hb : l.body o <;> simp
  cases k with
  | cert =>
    simp only [execute] at h ⊢
    obtain ⟨a, b, c, d, e⟩ := key _ h
    exact ⟨a, b, c, d, fun _ => e⟩
  | crl =>
    simp only [execute] at h ⊢
    obtain ⟨a, b, c, d, _⟩ := key _ h
    exact ⟨a, b, c, d, fun hk => by cases hk⟩
  | ocsp =>
    simp only [execute] at h ⊢
    obtain ⟨a, b, c, d, _⟩ := key _ h
    exact ⟨a, b, c, d, fun hk => by cases hk⟩

/-- In scope, cleanly configured, applicable, inside the window: the reported result is
    exactly what the body returns (status and details) — the framework adds, drops or alters nothing. -/
theorem verdict_stands {Obj Cfg : Type} (k : Kind) (sc : Scope) (t : Time) (l : Lint Obj Cfg) (o : Obj) (cfg : Cfg)
    (hs : k = .cert → inScope l.md.source sc = true)
    (hc : l.configure cfg = .ok none) (ha : l.applies o = .ok true)
    (hw : checkEffective l.md.eff l.md.ineff t = true) (s : Status) (d : String) (hb : l.body o = .res s d) :
    execute k sc t l o cfg = (.result s d, [.construct, .configure, .applies, .body]) := by
  cases k with
  | cert => simp [execute, executeRaw, hs rfl, hc, ha, hw, hb, recoverExec]
  | crl => simp [execute, executeRaw, hc, ha, hw, hb]
  | ocsp => simp [execute, executeRaw, hc, ha, hw, hb]

/-- … and the result set stores exactly that, plus the lint's metadata. -/
theorem verdict_stored {Obj Cfg : Type} (k : Kind) (sc : Scope) (t : Time) (l : Lint Obj Cfg) (o : Obj) (cfg : Cfg)
    (rs : ResultSet) (s : Status) (d : String) (h : (execute k sc t l o cfg).1 = .result s d) :
    ∃ rs', stepRun k sc t o cfg (.returned rs) l = .returned rs' ∧
      rs'.results.head? = some (l.md.name, ⟨s, d, l.md⟩) := by
  simp only [stepRun, h]
  refine ⟨_, rfl, ?_⟩
  unfold updateFlags mapInsert
  split <;> (try split) <;> (try split) <;> (try split) <;> simp

/-- A panicking certificate-lint body is reported as fatal with the framework's marker text. -/
theorem body_panic_fatal {Obj Cfg : Type} (sc : Scope) (t : Time) (l : Lint Obj Cfg) (o : Obj) (cfg : Cfg)
    (hs : inScope l.md.source sc = true)
    (hc : l.configure cfg = .ok none) (ha : l.applies o = .ok true)
    (hw : checkEffective l.md.eff l.md.ineff t = true) (m : String) (hb : l.body o = .panic m) :
    (execute .cert sc t l o cfg).1 = .result Status.fatal (panicDetails l.md.name m) := by
  simp [execute, executeRaw, hs, hc, ha, hw, hb, recoverExec]

/-- A configuration error is reported as fatal carrying the error text; applicability and body are not consulted. -/
theorem config_error_fatal {Obj Cfg : Type} (k : Kind) (sc : Scope) (t : Time) (l : Lint Obj Cfg) (o : Obj) (cfg : Cfg)
    (hs : k = .cert → inScope l.md.source sc = true) (e : String) (hc : l.configure cfg = .ok (some e)) :
    execute k sc t l o cfg = (.result Status.fatal e, [.construct, .configure]) := by
  cases k with
  | cert => simp [execute, executeRaw, hs rfl, hc, recoverExec]
  | crl => simp [execute, executeRaw, hc]
  | ocsp => simp [execute, executeRaw, hc]

/-- non-vacuity -/
def exLint : Lint Unit Unit := { md := { name := "e_x", source := "CABF_BR" }, configure := fun _ => .ok none, applies := fun _ => .ok true, body := fun _ => .res Status.warn "w" }
example : execute .cert ⟨false, true, true⟩ ⟨5, 0⟩ exLint () () = (.result Status.na "", [])
    ∧ execute .cert ⟨true, false, false⟩ ⟨5, 0⟩ exLint () () = (.result Status.warn "w", [.construct, .configure, .applies, .body]) := by
  decide


/-! ## CA classification used by CheckApplies of most lints -/

/-- root CA, subordinate CA and subscriber certificate are mutually exclusive, and the only certificates that are
    none of the three are self-signed non-CA certificates -/
theorem classification_exclusive (v : CAView) :
    (isRootCA v && isSubCA v) = false ∧ (isRootCA v && isSubscriberCert v) = false ∧ (isSubCA v && isSubscriberCert v) = false := by
  cases v with | mk a b => cases a <;> cases b <;> decide

theorem classification_total (v : CAView) :
    (isRootCA v || isSubCA v || isSubscriberCert v) = !(v.selfSigned && !v.isCA) := by
  cases v with | mk a b => cases a <;> cases b <;> decide

/-- a change of `SelfSigned` alone never turns a CA into a subscriber or back: it moves a CA between root and
    subordinate, and a non-CA between subscriber and unclassified -/
theorem selfSigned_only_moves_within_kind (a b b' : Bool) :
    (isRootCA ⟨a, b⟩ || isSubCA ⟨a, b⟩) = (isRootCA ⟨a, b'⟩ || isSubCA ⟨a, b'⟩) := by
  cases a <;> cases b <;> cases b' <;> decide

end Zl.C04
