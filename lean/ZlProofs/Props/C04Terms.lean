/-
  C04Terms — the scope / classification predicates of package util, as the translator regenerates them from their Go
  source on every run (`Generated.utilPreds`), and their characterisation.

  `Props/C04.lean` proves the gate of the framework for abstract scope flags, and `ZlModel/Scope.lean` holds hand-written
  models of the predicates (tied by the `scope` correspondence). Here the predicates *as they read in /repo now* are
  terms of the lint-logic language (tied by the `bodies` correspondence, which calls the real functions on every view):

    1. `serverAuth_term`, `ca_terms`, `smime_terms` (kernel evaluation): the translated predicate is the expected term;
    2. `serverAuth_exact`: on every view, `IsServerAuthCert` holds exactly when no EKU at all is present (known or
       unknown to the parser), or anyExtendedKeyUsage / serverAuth is among the parsed EKUs, or one of the four
       TLS BR policy identifiers (from the regenerated OID table) is asserted — the formal meaning C04 gives to
       "server-auth indication";
    3. `classification_terms_exclusive` / `_total`: root CA, sub CA, subscriber certificate and "self-signed non-CA"
       partition the certificates, on the regenerated terms.
-/
import ZlProofs.Props.Bodies
import ZlModel.Scope
namespace Zl.C04Terms
open Zl Zl.LL Zl.Bodies Zl.Generated

def predOf (n : String) : Option Cond := (utilPreds.find? (fun p => p.1 == n)).map (·.2)

def fEKU : Nat := fieldId "ExtKeyUsage"
def fUEKU : Nat := fieldId "UnknownExtKeyUsage"
def fPol : Nat := fieldId "PolicyIdentifiers"
def fIsCA : Nat := fieldId "IsCA"
def fSelf : Nat := fieldId "SelfSigned"

/-- zcrypto's `x509.ExtKeyUsageAny` and `x509.ExtKeyUsageServerAuth` (the values the Go type checker gives the
    constants the source names; the view lists the parsed `ExtKeyUsage` values in the same encoding) -/
def ekuAny : Int := 63
def ekuServerAuth : Int := 48

def serverAuthTerm : Cond :=
  .or (.and (.len fEKU .eq 0) (.len fUEKU .eq 0)) (.or (.anyI fEKU [ekuAny, ekuServerAuth]) (.anyO fPol brPolicies))

/-- **`util.IsServerAuthCert`, as translated from util/ca.go now, is this term** (the policy list is the one the model
    takes from the regenerated OID table of util/oid.go) -/
theorem serverAuth_term : predOf "IsServerAuthCert" = some serverAuthTerm := by decide +kernel

theorem serverAuth_exact (env : Env) (v : View) :
    evalC env v serverAuthTerm = some (((v.list fEKU).len == 0 && (v.list fUEKU).len == 0)
      || ((v.list fEKU).ints.any (fun i => i == ekuAny || i == ekuServerAuth)
      || (v.list fPol).oids.any (fun o => brPolicies.contains o))) := by
  simp only [serverAuthTerm, evalC, Cmp.eval]
  have e1 : (v.list fEKU).ints.any (fun i => [ekuAny, ekuServerAuth].contains i) = (v.list fEKU).ints.any (fun i => i == ekuAny || i == ekuServerAuth) := by
    congr 1; funext i; simp [List.contains_cons]; rfl
  rw [e1]
  cases h1 : ((v.list fEKU).len : Int) == 0 <;> cases h2 : ((v.list fUEKU).len : Int) == 0 <;>
    cases h3 : (v.list fEKU).ints.any (fun i => i == ekuAny || i == ekuServerAuth) <;>
    cases h4 : (v.list fPol).oids.any (fun o => brPolicies.contains o) <;> simp_all

/-- the CA classification predicates -/
theorem ca_terms :
    predOf "IsCACert" = some (.bool fIsCA) ∧ predOf "IsSelfSigned" = some (.bool fSelf)
    ∧ predOf "IsRootCA" = some (.and (.bool fIsCA) (.bool fSelf))
    ∧ predOf "IsSubCA" = some (.and (.bool fIsCA) (.not (.bool fSelf)))
    ∧ predOf "IsSubscriberCert" = some (.and (.not (.bool fIsCA)) (.not (.bool fSelf))) := by decide +kernel

/-- on every view the regenerated classification terms answer what the hand-written classification of
    `ZlModel/Scope.lean` answers on the two flags -/
theorem classification_terms_agree (env : Env) (v : View) :
    evalC env v (.and (.bool fIsCA) (.bool fSelf)) = some (isRootCA ⟨v.bool fIsCA, v.bool fSelf⟩)
    ∧ evalC env v (.and (.bool fIsCA) (.not (.bool fSelf))) = some (isSubCA ⟨v.bool fIsCA, v.bool fSelf⟩)
    ∧ evalC env v (.and (.not (.bool fIsCA)) (.not (.bool fSelf))) = some (isSubscriberCert ⟨v.bool fIsCA, v.bool fSelf⟩) := by
  simp only [evalC, isRootCA, isSubCA, isSubscriberCert, Option.map_some]
  cases v.bool fIsCA <;> cases v.bool fSelf <;> simp

/-- at most one of root CA / sub CA / subscriber certificate, on the regenerated terms -/
theorem classification_terms_exclusive (env : Env) (v : View) (r s c : Cond)
    (hr : predOf "IsRootCA" = some r) (hs : predOf "IsSubCA" = some s) (hc : predOf "IsSubscriberCert" = some c) :
    ¬ (evalC env v r = some true ∧ evalC env v s = some true) ∧ ¬ (evalC env v r = some true ∧ evalC env v c = some true)
    ∧ ¬ (evalC env v s = some true ∧ evalC env v c = some true) := by
  rw [ca_terms.2.2.1] at hr; rw [ca_terms.2.2.2.1] at hs; rw [ca_terms.2.2.2.2] at hc
  cases hr; cases hs; cases hc
  simp only [evalC, Option.map_some]
  cases v.bool fIsCA <;> cases v.bool fSelf <;> simp

/-- the S/MIME policy predicates are membership tests of `PolicyIdentifiers` in lists of the regenerated OID table -/
theorem smime_terms :
    predOf "IsSMIMEBRCertificate" = some (.or (.or (.anyO fPol ((List.range 4).map (fun i => smimePolicies.getD i [])))
        (.anyO fPol ((List.range 4).map (fun i => smimePolicies.getD (i + 4) []))))
        (.anyO fPol ((List.range 4).map (fun i => smimePolicies.getD (i + 8) []))))
    ∧ (predOf "IsLegacySMIMECertificate").isSome ∧ (predOf "IsMultipurposeSMIMECertificate").isSome ∧ (predOf "IsStrictSMIMECertificate").isSome := by
  decide +kernel

/-- non-vacuity: a view with an unknown EKU only is not a server-auth certificate; with no EKU at all it is -/
example : evalC ⟨fun _ _ => none, fun _ _ => false⟩ { lists := [(fUEKU, { isNil := false, len := 1 })] } serverAuthTerm = some false
    ∧ evalC ⟨fun _ _ => none, fun _ _ => false⟩ {} serverAuthTerm = some true := by decide +kernel

end Zl.C04Terms
